# Proposed by w-metablock (round 2): THIRD Lean module of C01 + the extended stage (same stage name `metablock`; no new stage).
# Builds: cd /verif/lean && lake build BV.Props.C01MetaBlockFull bvdrive ; cd /verif/harness && cargo build --release --offline
PROPS["C01"]["lean_modules"] = PROPS["C01"]["lean_modules"] + ["BV.Props.C01MetaBlockFull"]
PROPS["C01"]["level_text"] += (
    " THIRD MODULE (BV.Props.C01MetaBlockFull): the general writer BrotliStoreMetaBlock (quality >= 4) is inside the model"
    " (BV/Model/MetaBlockFull.lean: block-split codes and block switches, StoreTrivialContextMap, EncodeContextMap with MoveToFrontTransform and RunLengthCodeZeros,"
    " BlockEncoder entropy codes, literal contexts with the two lookup tables generated from constants.rs, distance contexts; the MetaBlockSplit is INPUT)"
    " together with the GENERAL RFC 7932 reader (NBLTYPES >= 1 with type/count codes and the second-to-last / last+1 rule, context modes, context maps with RLEMAX and inverse move-to-front, NTREES codes, block switches in the command loop)."
    " PROVED: full_metablock_roundtrip - for every ring/mask/start, history, context mode 0-3, NPOSTFIX <= 3 / NDIRECT with a distance alphabet <= 544, every command array satisfying cmdOK, lockstep, faithful and copy_len() >= 2 for copies,"
    " and every well-formed MetaBlockSplit (MBOK) whose histograms cover the symbols emitted under them (Covers), store_meta_block does not panic and the general reader consumes exactly the emitted bits (incl. final padding) and outputs what C14's replayCommands outputs (= hist ++ mb);"
    " wmbi_full_roundtrip - the same through WriteMetaBlockInternal's size decision (C08) for every should_compress verdict / appendable / catable / last;"
    " context_map_roundtrip - for every context map of 1..2^24 entries < num_clusters <= 256, behind any prefix and before any suffix, EncodeContextMap does not panic and the section 7.3 reader returns exactly (num_clusters, map)"
    " (mtf_inverse_roundtrip, rle_zero_runs_roundtrip for every run length and every max_run_length_prefix 0..6; the symbol code through C17);"
    " block_switch_roundtrip - for every well-formed split (SplitOK: first type 0, types < num_types <= 256, lengths 1..2^24, <= 2^24 blocks, one type => one block), behind any prefix and before any suffix,"
    " BuildAndStoreBlockSplitCode followed by one StoreBlockSwitch per later block does not panic and the section 6 / 9.2 reader reconstructs exactly the (type, length) sequence (count code + extra bits through C18 block_len_exact);"
    " contextmap_expansion_correct - the in-place expansion loop of BrotliBuildMetaBlock under disable_literal_context_modeling (descending block types) yields 64 equal entries per type for every map of >= 64*num_types entries, num_types <= 256 (kernel-checked example: ascending order is wrong);"
    " general_reader_extends - whatever the single-type reader of the second module accepts (one meta-block, the meta-block loop, a whole stream) the general reader reads to the same result, so trivial/fast_metablock_roundtrip hold verbatim for the general reader (trivial_fast_roundtrip_general)."
    " Lemma level (BV/Lemmas/MetaBlock{Switch,Enc,Ctx,TrivMap,FullSim,FullAsm,WmbiG,Agree}.lean): BuildAndStoreBlockSplitCode vs readCatHeader, StoreBlockSwitch vs Cat.next, build_and_store_entropy_codes vs readCodes,"
    " Context(p1,p2,mode) = RFC 7.1 id (< 64), distance_context = RFC 7.2 id, StoreTrivialContextMap vs readContextMap (inverse MTF yields type t -> tree t), the command loop fullCmds_sim."
)
PROPS["C01"]["level_note"] += (
    " Third module: the model of BrotliStoreMetaBlock is tied to the code bit-exactly on ~1.7k calls per quick run with MetaBlockSplits built by the real BrotliBuildMetaBlockGreedy (+BrotliOptimizeHistograms) and generated ones"
    " (1..256 block types, context maps all-zero / cyclic / long runs / never-cluster-0, up to 256 clusters, single-symbol and superset histograms, context modes 0-3, NPOSTFIX/NDIRECT incl. (1,12) and random, large window);"
    " EncodeContextMap and BuildAndStoreBlockSplitCode+StoreBlockSwitch additionally as separate engines through the cfg(brotli_verif) hooks encode_context_map / store_block_switches (exhaustive small domains, zero runs 1..70000, up to 256 types);"
    " the Lean general reader is compared with both real decoders on the real writer's streams (`readg` lines). The two context lookup tables of the reader are the harvested source constants (not an independent transcription of RFC 7932 section 7.1)."
)
PROPS["C01"]["rule"] += (
    " | stage metablock, round 2: every second valid stream is additionally written by the real BrotliStoreMetaBlock (one MetaBlockSplit per meta-block: real greedy builder 1/3, real quality-10 builder BrotliBuildMetaBlock with and without disable_literal_context_modeling 1/6, generated 1/2;"
    " plus 3 (thorough 24) insert-only inputs of 2.4-7 KB with halves of different statistics through BrotliBuildMetaBlock with disable_literal_context_modeling = 1: >= 2 literal block types, i.e. the in-place context-map expansion of seed C01-q10-contextmap-expand-ascending), oracle: both decoders decode to the input;"
    " engines cmap (363 exhaustive + 124 zero-run boundary + 400/4000 random maps) and bsw (37 exhaustive + 400/4000 random type/length sequences): real bits == model bits and the Lean reader reads the map / the (type,length) sequence back."
)
PROPS["C01"]["assumptions"] = PROPS["C01"]["assumptions"] + [
    "third module (hypotheses of full_metablock_roundtrip): the MetaBlockSplit handed to BrotliStoreMetaBlock is well formed (MBOK: per category first block type 0, types < num_types <= 256, block lengths 1..2^24, num_types = 1 => one block; context map absent => one histogram per block type, else 64*types / 4*types entries < number of histograms <= 256; histogram totals <= 2^25, distance histograms empty above the alphabet) and covers the emitted symbols (Covers: block lengths sum to at least the symbol count of the category and the histogram selected for (block type, context) counts the symbol): produced by the clustering code, which is not modelled; exercised with the real greedy builder on every run",
    "third module: `faithful` - after every command the RFC decoder's output is history ++ a prefix of the meta-block (commands reproduce the input; C14/C19 territory). NECESSARY with literal context modelling: the writer takes the two context bytes from its input, the decoder from its output; not implied by lockstep",
    "third module: every copying command has copy_len() >= 2 (the writer reads ring[pos-2] behind a copy; true for every match the hashers produce); prev_byte/prev_byte2 are the last two bytes of the history (0 when missing); history and input are bytes (< 256)",
    "third module: depth/bits tables of BlockEncoder are zero-initialised (StandardAlloc); distance alphabet size <= 544 (BROTLI_NUM_HISTOGRAM_DISTANCE_SYMBOLS; C17's theorem needs alphabet <= histogram length): all standard-window parameter sets, large-window up to NPOSTFIX 2",
    "third module, spec: MSB6 context id is written `p1 / 4 % 64` (equal to RFC `p1 >> 2` on bytes; total on the model's unbounded naturals so that general_reader_extends needs no byte-range side condition)",
]
PROPS["C01"]["trusted_base"] = PROPS["C01"]["trusted_base"] + [
    "model: BV/Model/MetaBlockFull.lean mirrors NextBlockTypeCode, StoreBlockSwitch, BuildAndStoreBlockSplitCode, StoreVarLenUint8, StoreTrivialContextMap, IndexOf, MoveToFront, MoveToFrontTransform, RunLengthCodeZeros, EncodeContextMap, BlockEncoder::{new, build_and_store_entropy_codes, store_symbol, store_symbol_with_context}, Context, store_meta_block (brotli_bit_stream.rs), Command::distance_context (command.rs)",
    "hooks: verif_hooks::encode_context_map, verif_hooks::store_block_switches (cfg brotli_verif, /repo bdbfdc9); generated tables kUTF8ContextLookup, kSigned3BitContextLookup",
]
# fn_items.json additions proposed: NextBlockTypeCode, StoreBlockSwitch, BuildAndStoreBlockSplitCode, StoreTrivialContextMap, IndexOf, MoveToFront,
#   MoveToFrontTransform, RunLengthCodeZeros, EncodeContextMap, build_and_store_entropy_codes, store_symbol, store_symbol_with_context, Context, store_meta_block
#   (src/enc/brotli_bit_stream.rs), distance_context (src/enc/command.rs)
