# Proposed by w-metablock: second Lean module + second stage of C01 (do NOT replace the existing entry; apply on top of it).
# Everything below builds:  cd /verif/lean && lake build BV.Props.C01MetaBlock bvdrive ;  cd /verif/harness && cargo build --release --offline
PROPS["C01"]["lean_modules"] = ["BV.Props.C01", "BV.Props.C01MetaBlock"]
PROPS["C01"]["stages"] = PROPS["C01"]["stages"] + [{"name": "metablock", "cmd": ["metablock"]}]
PROPS["C01"]["level_text"] += (
    " SECOND MODULE (BV.Props.C01MetaBlock): the hypothesis MetaBlockDecodes.payload is DISCHARGED for the compressed meta-block writers of quality <= 3."
    " Model BV/Model/MetaBlock.lean (StoreCompressedMetaBlockHeader, BuildHistograms, StoreCommandExtra, StoreDataWithHuffmanCodes, JumpToByteBoundary,"
    " store_meta_block_trivial, store_meta_block_fast incl. StoreStaticCommand/DistanceHuffmanTree) composed from the models of C17 (both prefix-code builders), C18 (length/distance arithmetic) and C14 (raw command record),"
    " against an independently written RFC 7932 reader of a compressed meta-block (section 9.2 header = C08/C15's readMetaBlock; NBLTYPES x3, NPOSTFIX, NDIRECT, context mode, NTREES x2 restricted to 1;"
    " three prefix codes through C17's section 3.4/3.5 reader; the section 9.3/10 command loop with insert/copy extra bits, literals, distance symbol (implied 0 for command symbols < 128), ring of last distances, LZ77 copy or static-dictionary word; zero padding after the last meta-block)."
    " header_roundtrip: StoreCompressedMetaBlockHeader(is_last, length), 1 <= length <= 2^24, is read back (ISLAST, MNIBBLES minimal, MLEN) behind any prefix and before any suffix."
    " trivial_metablock_roundtrip / fast_metablock_roundtrip (both branches of the fast writer: static command+distance codes for <= 128 commands, three fast-built codes otherwise):"
    " for EVERY ring buffer / mask / wrap position holding the meta-block bytes, every command array satisfying cmdOK (what Command::init can build) and lockstep (the RFC decoder accepts the array and the writer's position bookkeeping agrees with the decoder's cursor), every history, distance ring, window, static-dictionary oracle, standard or large-window distance alphabet, is_last and already written prefix,"
    " the writer DOES NOT PANIC and the RFC reader, started at the writer's bit position in the decoder state (history, ring), consumes exactly the emitted bits (plus the padding when last) and outputs what C14's RFC decoder replayCommands outputs from the raw commands - i.e. history ++ meta-block bytes under C14's payload hypothesis."
    " Histograms: nothing assumed (BuildHistograms is modelled; totals <= MLEN + 1 <= 2^25 proved, which is C17's no-wrap bound)."
    " ReadsTo / readMetaBlocks_step / readMetaBlocks_last: consecutive pieces compose through the decoder state."
    " The proof attempt exposed a real defect of /repo (the static-codes branch of the fast writer indexed the 64-entry static distance code with large-window distance symbols >= 64: panic at quality 2, proposed/fast-static-distance-large-window.md, fixed in 5ef5adf); the model follows the fixed branch condition and fast_writer_large_window_symbol_64 is the kernel-checked regression witness."
    " wmbi_trivial_roundtrip / wmbi_fast_roundtrip: the size decision of WriteMetaBlockInternal (C08's model BV.Stored.writeMetaBlockInternal, guard_holds) composed with the two writers: for every verdict of should_compress, appendable/catable, last or not, the attempt is written without panic and what the call leaves in the storage - the compressed meta-block, or the stored one when the attempt is not tried or exceeds len + 4 bytes (the Guard branch), plus the separate empty last meta-block of appendable streams - is read by the RFC reader from (history, ring) to a state whose output is history ++ input (one non-last meta-block, or the end of the stream)."
)
PROPS["C01"]["level_note"] += (
    " Second module: trusted additionally the hand-written model BV/Model/MetaBlock.lean (correspondence: ~8.5k calls of the real BrotliStoreMetaBlockTrivial/Fast per quick run, valid, mutated and truncated command arrays, ring wrap positions, bit-exact storage incl. ~380 panic outcomes;"
    " ~3.3k `hyp` lines: cmdOK/lockstep/replay evaluated by the Lean side on every command array the real match finders (quality 2..11) produced; ~1.3k `read` lines: the Lean RFC reader against both real decoders on the real writers' streams)."
    " The 'stored when bigger than input + 4' decision of WriteMetaBlockInternal is covered through C08's model of it (wmbi_*_roundtrip; should_compress is an arbitrary verdict). Still not covered: the full writer BrotliStoreMetaBlock (quality >= 4: block splits, context maps), compress_fragment (quality 0/1), and that the match finders' commands satisfy cmdOK/lockstep/replay (checked on every run, not proved)."
    " The stateless shape of MetaBlockDecodes.Dec in BV/Props/C01.lean cannot be instantiated directly (decoding a compressed meta-block depends on the history and the distance ring): the connection is ReadsTo, a state-indexed triple."
)
PROPS["C01"]["rule"] += (
    " | stage metablock: 2400 (quick) / 40000 (thorough) streams: 40% command arrays recorded from the real encoder (hook verif_recoder_hook; quality 2..11 x lgwin {10..22} x GENERIC/TEXT x use_dictionary x one-shot or PROCESS+FLUSH histories; stored fallbacks cut the re-driven stream),"
    " 40% synthetic well-formed arrays (literal alphabets of 1,2,3,4,5,20,256 symbols -> every prefix-code form; all short distance codes, overlapping copies, static-dictionary words with transforms, large-window alphabet), 20% mutated/truncated arrays (correspondence only);"
    " each stream is written by the real BrotliStoreMetaBlockTrivial AND BrotliStoreMetaBlockFast (window bits by the harness, ISLAST on the last meta-block, ring of 2^k bytes at a wrapped position);"
    " oracle: both decoders decode it to exactly the input; plus, in every tier, the regression cases of the fixed large-window defect: the single command with distance symbol 64 through both writers (also corpus/metablock/001-*.txt) and its 2^26+2^17-byte one-shot reproduction at quality 2 / lgwin 28 / large_window (~1 s). Non-trivial = stream with a copy or dictionary command that both decoders decoded."
)
PROPS["C01"]["assumptions"] = PROPS["C01"]["assumptions"] + [
    "second module: cmdOK + lockstep + C14's PayloadOK of every command array handed to the writers (Bool checkers; evaluated on every recorded real-encoder command array of every run, never proved of the match finders)",
    "second module: NPOSTFIX = NDIRECT = 0 (what quality < 4 uses; the two writers hard-code the 13 zero bits), meta-block length 1..2^24, start position < 2^64, ring bytes < 256, the two InputPairFromMaskedInput slices inside the ring (hIP)",
    "second module: storage is a zeroed buffer large enough for the bits (W1/W2 of BV/Model/Bits.lean); params.log_meta_block = false (the logging branch is C14)",
    "second module: WordOracle = the static dictionary + transforms (abstract in the theorems, recorded answers of brotli-decompressor's TransformDictionaryWord in the correspondence)",
]
PROPS["C01"]["trusted_base"] = PROPS["C01"]["trusted_base"] + [
    "model: BV/Model/MetaBlock.lean mirrors StoreCompressedMetaBlockHeader, BuildHistograms, StoreCommandExtra, StoreDataWithHuffmanCodes, JumpToByteBoundary, store_meta_block_trivial, store_meta_block_fast, StoreStaticCommandHuffmanTree, StoreStaticDistanceHuffmanTree (brotli_bit_stream.rs), HistogramAddItem (histogram.rs), Command::copy_len (command.rs)",
    "lemmas of C17 used: BV.Lemmas.HuffmanEntryPoints.{build_and_store_roundtrip, fast_build_and_store_roundtrip}, BV.Lemmas.HuffmanSimple.*_roundtrip (totality), BV.Lemmas.HuffmanRead.readSym_spec; of C18: ins_code_exact, copy_code_exact, cmd_symbol_exact, mlen_exact; of C14: decStep/replayCommands (spec side)",
]
# proposed additions to tools/fn_items.json (fingerprints of the mirrored functions):
#   {"file": "src/enc/brotli_bit_stream.rs", "fn": "StoreCompressedMetaBlockHeader"}, {"file": "src/enc/brotli_bit_stream.rs", "fn": "BuildHistograms"},
#   {"file": "src/enc/brotli_bit_stream.rs", "fn": "StoreDataWithHuffmanCodes"}, {"file": "src/enc/brotli_bit_stream.rs", "fn": "store_meta_block_trivial"},
#   {"file": "src/enc/brotli_bit_stream.rs", "fn": "store_meta_block_fast"}, {"file": "src/enc/brotli_bit_stream.rs", "fn": "StoreStaticCommandHuffmanTree"},
#   {"file": "src/enc/brotli_bit_stream.rs", "fn": "StoreStaticDistanceHuffmanTree"}, {"file": "src/enc/brotli_bit_stream.rs", "fn": "InputPairFromMaskedInput"},
#   {"file": "src/enc/histogram.rs", "fn": "HistogramAddItem"}
# defect found and fixed in /repo (5ef5adf): signature "metablock:writer-panic:fast:distance-symbol>=64" (stays quiet on the fixed tree)
