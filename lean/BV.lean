import BV.Gen.Source
import BV.Gen.Fingerprints
import BV.Model.PrefixArith
