import BV.Drive.PrefixArith
import BV.Drive.Ledger
import BV.Drive.Concat
import BV.Drive.Pool
import BV.Drive.Huffman
import BV.Drive.Adapters
import BV.Drive.FFI
import BV.Drive.Header
import BV.Drive.Multi
import BV.Drive.Favor
import BV.Drive.Hasher
import BV.Drive.MatchFinder
import BV.Drive.Recoder
import BV.Drive.Dict
import BV.Drive.Stream
import BV.Drive.MetaBlock
import BV.Drive.Fragment
import BV.Drive.Zopfli
import BV.Drive.Greedy
import BV.Drive.E2E
import BV.Drive.Window
import BV.Drive.Catable

/-- line protocol: `<engine> <args…>` in, one canonical line out -/
def dispatch (line : String) : String :=
  match line.trimAscii.toString.splitOn " " with
  | "arith" :: rest => BV.Drive.PrefixArith.handle rest
  | "concat" :: rest => BV.Drive.Concat.handle rest
  | "pool" :: rest => BV.Drive.Pool.handlePool rest
  | "fq" :: rest => BV.Drive.Pool.handleFq rest
  | "huff" :: rest => BV.Drive.Huffman.handle rest
  | "header" :: rest => BV.Drive.Header.handle rest
  | "multi" :: rest => BV.Drive.Multi.handle rest
  | "favor" :: rest => BV.Drive.Favor.handle rest
  | "adapters" :: rest => BV.Drive.Adapters.handle rest
  | "hasher" :: "flm" :: rest => BV.Drive.MatchFinder.handle rest
  | "hasher" :: "cbr" :: rest => BV.Drive.MatchFinder.handleCbr rest
  | "hasher" :: rest => BV.Drive.Hasher.handle rest
  | "recoder" :: rest => BV.Drive.Recoder.handle rest
  | "dict" :: rest => BV.Drive.Dict.handle rest
  | "ledger" :: rest => BV.Drive.Ledger.handle rest
  | "stream" :: rest => BV.Drive.Stream.handle rest
  | "ffi" :: rest => BV.Drive.FFI.handle rest
  | "metablock" :: rest => BV.Drive.MetaBlock.handle rest
  | "fragment" :: rest => BV.Drive.Fragment.handle rest
  | "zopfli" :: rest => BV.Drive.Zopfli.handle rest
  | "greedy" :: rest => BV.Drive.Greedy.handle rest
  | "e2e" :: rest => BV.Drive.E2E.handle rest
  | "window" :: rest => BV.Drive.Window.handle rest
  | "catable" :: rest => BV.Drive.Catable.handle rest
  | _ => "bad-engine"

partial def loop (h : IO.FS.Stream) (out : IO.FS.Stream) : IO Unit := do
  let line ← h.getLine
  if line.isEmpty then return ()
  out.putStrLn (dispatch line)
  loop h out

def main : IO Unit := do
  loop (← IO.getStdin) (← IO.getStdout)
