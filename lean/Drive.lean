import BV.Drive.PrefixArith

/-- line protocol: `<engine> <args…>` in, one canonical line out -/
def dispatch (line : String) : String :=
  match line.trimAscii.toString.splitOn " " with
  | "arith" :: rest => BV.Drive.PrefixArith.handle rest
  | _ => "bad-engine"

partial def loop (h : IO.FS.Stream) (out : IO.FS.Stream) : IO Unit := do
  let line ← h.getLine
  if line.isEmpty then return ()
  out.putStrLn (dispatch line)
  loop h out

def main : IO Unit := do
  loop (← IO.getStdin) (← IO.getStdout)
