def hello := "world"
