/-
C10Chain — the payload hypothesis of `C10_roundtrip_partial` DISCHARGED for quality 2–9 by composition with the C01 chain.

Property theorems ONLY; no new model.  Composed: BV/Model/Dict.lean (`setCustomDictionary`, the decoder hand model
`Dec`; C10), BV/Model/Cbr.lean (`createBackwardReferences`; C01Chain), BV/Model/Recoder.lean (`replayCommands`, the
RFC 7932 command semantics), BV/Model/MetaBlock.lean (writers + RFC reader; C01MetaBlock).

With a custom dictionary the encoder's history at a block is  (dictionary tail the ring buffer holds below the first
input byte) ++ (input consumed so far).  The chain (`commands_lockstep`) holds for ARBITRARY history, so it is
instantiated with `hist := encHistory s ++ prev`; C10's `histories_agree` (from `dict_tail_in_ring`) and
`header_wbits_used` (window of the decoder = `2^lgwin − 16`) turn the encoder's view into the decoder's.

* `C10_roundtrip_q29_partial` — for every non-empty dictionary, sanitised quality ≥ 2, every block searched by
  `CreateBackwardReferences` over a hasher satisfying `OpsOK` (whatever `HasherPrependCustomDictionary` stored in its
  tables — `match_sound_*` need nothing about table contents): the RFC decoder that was handed the SAME dictionary
  (history = the tail it loaded below position 0, window from the header bits) executes the closed command array in lock
  step with the encoder and reproduces  dictionary tail ++ earlier input ++ block.  No payload hypothesis.
* `dec_max_distance_is_replay_window` — the `max_distance` that `replayCommands` uses at every point
  (`min(|history ++ produced|, window)`) IS the real decoder's sticky `max_distance` state machine along any run of
  positions (`dec_max_distance_closed`), so the RFC-level replay and `BV.Dict.Dec` classify every distance alike.
* `C10_fast_roundtrip_q29` / `C10_trivial_roundtrip_q29` — for the quality 2 / 3 writers the statement reaches the BITS:
  the RFC reader started in the decoder's state (dictionary tail ++ earlier input, distance ring) consumes exactly
  the bits `BrotliStoreMetaBlockFast` / `…Trivial` emit and outputs history ++ block.

`_partial` because, beyond the chain's own hypotheses (below), what remains is:  (1) `BlockOK.ring`: the `ByteArray`
the match finders read holds `encHistory s ++ prev ++ mb` (C10 proves the dictionary part of this for ITS ring model,
`dict_tail_in_ring`; `ring_view_w` proves it for w-stream's model from `RingOK`; the two ring models are not
identified with each other in Lean);  (2) the entropy-coding writers of quality 4–9 (`BrotliStoreMetaBlock`): their
round trip is C01MetaBlockFull's `full_metablock_roundtrip` / `wmbi_full_roundtrip`, whose command hypotheses are
`cmdOK`, `lockstep` (delivered here for the decoder's history), `faithful` (delivered: `C10_faithful_q29`) and
`copy_len() ≥ 2` for copying commands (NOT delivered: a 1-byte static-dictionary match is reachable at extreme
`literal_byte_score`), besides the block-split / histogram hypotheses `MBOK` / `Covers`; the composition line is not
written;  (3) quality 10/11 (Zopfli: the
model of C01zzzzy, no lockstep theorem yet);  (4) one `CreateBackwardReferences` call per meta-block;  (5) the real
decoder's copy path on the dictionary tail is `dict_tail_readable` / `decoder_shrunk_ring_clobbers_dict` (C10), not
repeated here.
-/
import BV.Props.C01Chain
import BV.Props.C10
import BV.Lemmas.ChainFinal
import BV.Props.C01MetaBlockFull

namespace BV.Props.C10Chain
open BV.Hasher BV.MatchFinder BV.Recoder BV.PrefixArith BV.MetaBlock BV.Cbr BV.Props.C01Chain
open BV.Dict BV.Props.C10

/-- the decoder built for the stream of `p0` uses the window the encoder searched with -/
theorem decoder_window (p0 : BV.Header.Params) (size : Nat) (dict : Nat → Nat) (hq : 2 ≤ encQ p0) (p : Cbr.Params)
    (hlg : p.lgwin = encL p0) : (decoderFor p0 size dict).mbd = maxBackwardLimit p := by
  have hw := header_wbits_used p0 hq
  unfold Dec.mbd decoderFor maxBackwardLimit
  simp only [hw, hlg, Nat.one_shiftLeft]

theorem decHistory_length (D : Dec) (rbits : Nat) : (decHistory D rbits).length = D.dEff := by
  simp [decHistory]

/-- **`dec_max_distance_is_replay_window`** — the window test of the RFC-level replay is the real decoder's: with the
decoder's history in front (`d'` bytes), after `produced` output bytes `replayCommands` / `lockstep` compare a distance
with `min(|history ++ produced|, 2^wbits − 16)`; this is the value the decoder's sticky `max_distance` state machine
holds after ANY non-decreasing run of positions ending at `|produced|` (C10 `dec_max_distance_closed`). -/
theorem dec_max_distance_is_replay_window (D : Dec) (hw : 5 ≤ D.wbits) (rbits : Nat) (produced : Bytes)
    (ps : List Nat) (hs : (ps ++ [produced.length]).Pairwise (· ≤ ·)) :
    min (decHistory D rbits ++ produced).length D.mbd = D.runMax 0 (ps ++ [produced.length]) := by
  rw [dec_max_distance_closed D hw ps produced.length hs, List.length_append, decHistory_length]
  omega

/-- **`C10_roundtrip_q29_partial`** — custom-dictionary round trip at the command level for quality 2–9, NO payload
hypothesis.  `s` = the encoder after `set_custom_dictionary`; `prev` = the input consumed before this block; the block
`mb` (pending `last_insert_len` literals ++ `num_bytes`) is searched at encoder position
`d' + |prev| + last_insert_len` — the decoder's position, `dict_positions_agree` — over ANY hasher state.  Then every
command satisfies the writers' `cmdOK`, the RFC decoder holding the same dictionary runs in `lockstep` with the encoder
from its own state, and it reproduces dictionary tail ++ `prev` ++ `mb`. -/
theorem C10_roundtrip_q29_partial (p0 : BV.Header.Params) (size : Nat) (dict : Nat → Nat) (hsz : 0 < size)
    (hq : 2 ≤ encQ p0) (rbits : Nat) (hR : (decoderFor p0 size dict).dEff ≤ 2 ^ rbits) :
    ∃ s, setCustomDictionary p0 size dict size = some s ∧
      s.lastProcessedPos = (decoderFor p0 size dict).dEff ∧ (encHistory s).length = (decoderFor p0 size dict).dEff ∧
      ∀ {H : Type} (ops : HasherOps H) (p : Cbr.Params) (large : Bool) (wo : WordOracle) (data : ByteArray)
        (k tail : Nat) (prev mb : Bytes) (lo : Nat) (_hlg : p.lgwin = encL p0)
        (_hb : BlockOK p large data k tail (encHistory s ++ prev) mb lo) (_hops : OpsOK (SlotOK wo) ops p data k)
        (numBytes position : Nat) (h0 : H) (cache : List Int) (lastInsertLen numLiterals : Nat) (res : Result H)
        (_hpos : position = (decoderFor p0 size dict).dEff + prev.length + lastInsertLen)
        (_hmb : mb.length = lastInsertLen + numBytes) (_hc : CacheI32 cache) (_hcl : 4 ≤ cache.length)
        (_h : createBackwardReferences ops p numBytes position h0 cache lastInsertLen numLiterals = some res),
        (∀ c ∈ closeMetaBlock res.cmds res.lastInsertLen, cmdOK (distAlphabetSize large 0 0) 0 0 c = true) ∧
        lockstep wo 0 0 (decoderFor p0 size dict).mbd mb
          ⟨decHistory (decoderFor p0 size dict) rbits ++ prev, cache.take 4, 0⟩ 0
          (closeMetaBlock res.cmds res.lastInsertLen) = true ∧
        replayCommands wo 0 0 (decoderFor p0 size dict).mbd mb (cache.take 4)
          (decHistory (decoderFor p0 size dict) rbits ++ prev) (closeMetaBlock res.cmds res.lastInsertLen)
          = some (decHistory (decoderFor p0 size dict) rbits ++ prev ++ mb) := by
  obtain ⟨s, hs, hh⟩ := histories_agree p0 size dict hsz hq rbits hR
  obtain ⟨s', hs', _, hlp, _⟩ := dict_positions_agree p0 size dict hsz hq
  rw [hs] at hs'
  cases hs'
  have hlen : (encHistory s).length = (decoderFor p0 size dict).dEff := by
    rw [hh, decHistory_length]
  refine ⟨s, hs, hlp, hlen, ?_⟩
  intro H ops p large wo data k tail prev mb lo hlg hb hops numBytes position h0 cache lastInsertLen numLiterals res
    hpos hmb hc hcl h
  have hpos' : position = (encHistory s ++ prev).length + lastInsertLen := by
    rw [List.length_append, hlen]; exact hpos
  have := commands_lockstep ops p large wo data k tail (encHistory s ++ prev) mb lo hb hops numBytes position h0 cache
    lastInsertLen numLiterals res hpos' hmb hc hcl h
  rw [decoder_window p0 size dict hq p hlg, ← hh]
  exact this

/-- **`C10_fast_roundtrip_q29`** — quality 2 down to the bits: `CreateBackwardReferences`, `BrotliStoreMetaBlockFast`,
then the RFC 7932 reader in the state of the decoder that holds the same dictionary = dictionary tail ++ earlier input
++ block, consuming exactly the emitted bits. -/
theorem C10_fast_roundtrip_q29 (p0 : BV.Header.Params) (size : Nat) (dict : Nat → Nat) (hsz : 0 < size)
    (hq : 2 ≤ encQ p0) (rbits : Nat) (hR : (decoderFor p0 size dict).dEff ≤ 2 ^ rbits) :
    ∃ s, setCustomDictionary p0 size dict size = some s ∧
      ∀ {H : Type} (ops : HasherOps H) (p : Cbr.Params) (large : Bool) (wo : WordOracle) (data : ByteArray)
        (k tail : Nat) (prev mb : Bytes) (lo : Nat) (_hlg : p.lgwin = encL p0)
        (_hb : BlockOK p large data k tail (encHistory s ++ prev) mb lo) (_hops : OpsOK (SlotOK wo) ops p data k)
        (numBytes position : Nat) (h0 : H) (cache : List Int) (lastInsertLen numLiterals : Nat) (res : Result H)
        (_hpos : position = (decoderFor p0 size dict).dEff + prev.length + lastInsertLen)
        (_hmb : mb.length = lastInsertLen + numBytes) (_hc : CacheI32 cache) (_hcl : 4 ≤ cache.length)
        (_h : createBackwardReferences ops p numBytes position h0 cache lastInsertLen numLiterals = some res)
        (ring : Bytes) (start mask : Nat) (isLast : Bool) (w : List Bool)
        (_hRH : RingHolds ring mask start mb) (_h256 : ∀ b ∈ mb, b < 256) (_h1 : 1 ≤ mb.length) (_hst : start < 2 ^ 64)
        (_hIP : inputPairCheck ring start mb.length mask = .ok ()),
        ∃ bits ring',
          storeMetaBlockFast ring start mb.length mask isLast (distAlphabetSize large 0 0)
            (closeMetaBlock res.cmds res.lastInsertLen) w = .ok (w ++ bits) ∧
          ∀ rest, readMetaBlockFull wo (decoderFor p0 size dict).mbd large w.length
              ⟨decHistory (decoderFor p0 size dict) rbits ++ prev, cache.take 4⟩ (bits ++ rest)
            = some (⟨decHistory (decoderFor p0 size dict) rbits ++ prev ++ mb, ring'⟩, isLast, (w ++ bits).length, rest) := by
  obtain ⟨s, hs, hh⟩ := histories_agree p0 size dict hsz hq rbits hR
  refine ⟨s, hs, ?_⟩
  intro H ops p large wo data k tail prev mb lo hlg hb hops numBytes position h0 cache lastInsertLen numLiterals res
    hpos hmb hc hcl h ring start mask isLast w hRH h256 h1 hst hIP
  have hpos' : position = (encHistory s ++ prev).length + lastInsertLen := by
    rw [List.length_append, hh, decHistory_length]; exact hpos
  have := cbr_fast_roundtrip ops p large wo data k tail (encHistory s ++ prev) mb lo hb hops numBytes position h0 cache
    lastInsertLen numLiterals res hpos' hmb hc hcl h ring start mask isLast w hRH h256 h1 hst hIP
  rw [decoder_window p0 size dict hq p hlg, ← hh]
  exact this

/-- **`C10_trivial_roundtrip_q29`** — the same for quality 3 (`BrotliStoreMetaBlockTrivial`) -/
theorem C10_trivial_roundtrip_q29 (p0 : BV.Header.Params) (size : Nat) (dict : Nat → Nat) (hsz : 0 < size)
    (hq : 2 ≤ encQ p0) (rbits : Nat) (hR : (decoderFor p0 size dict).dEff ≤ 2 ^ rbits) :
    ∃ s, setCustomDictionary p0 size dict size = some s ∧
      ∀ {H : Type} (ops : HasherOps H) (p : Cbr.Params) (large : Bool) (wo : WordOracle) (data : ByteArray)
        (k tail : Nat) (prev mb : Bytes) (lo : Nat) (_hlg : p.lgwin = encL p0)
        (_hb : BlockOK p large data k tail (encHistory s ++ prev) mb lo) (_hops : OpsOK (SlotOK wo) ops p data k)
        (numBytes position : Nat) (h0 : H) (cache : List Int) (lastInsertLen numLiterals : Nat) (res : Result H)
        (_hpos : position = (decoderFor p0 size dict).dEff + prev.length + lastInsertLen)
        (_hmb : mb.length = lastInsertLen + numBytes) (_hc : CacheI32 cache) (_hcl : 4 ≤ cache.length)
        (_h : createBackwardReferences ops p numBytes position h0 cache lastInsertLen numLiterals = some res)
        (ring : Bytes) (start mask : Nat) (isLast : Bool) (w : List Bool)
        (_hRH : RingHolds ring mask start mb) (_h256 : ∀ b ∈ mb, b < 256) (_h1 : 1 ≤ mb.length) (_hst : start < 2 ^ 64)
        (_hIP : inputPairCheck ring start mb.length mask = .ok ()),
        ∃ bits ring',
          storeMetaBlockTrivial ring start mb.length mask isLast (distAlphabetSize large 0 0)
            (closeMetaBlock res.cmds res.lastInsertLen) w = .ok (w ++ bits) ∧
          ∀ rest, readMetaBlockFull wo (decoderFor p0 size dict).mbd large w.length
              ⟨decHistory (decoderFor p0 size dict) rbits ++ prev, cache.take 4⟩ (bits ++ rest)
            = some (⟨decHistory (decoderFor p0 size dict) rbits ++ prev ++ mb, ring'⟩, isLast, (w ++ bits).length, rest) := by
  obtain ⟨s, hs, hh⟩ := histories_agree p0 size dict hsz hq rbits hR
  refine ⟨s, hs, ?_⟩
  intro H ops p large wo data k tail prev mb lo hlg hb hops numBytes position h0 cache lastInsertLen numLiterals res
    hpos hmb hc hcl h ring start mask isLast w hRH h256 h1 hst hIP
  have hpos' : position = (encHistory s ++ prev).length + lastInsertLen := by
    rw [List.length_append, hh, decHistory_length]; exact hpos
  have := cbr_trivial_roundtrip ops p large wo data k tail (encHistory s ++ prev) mb lo hb hops numBytes position h0 cache
    lastInsertLen numLiterals res hpos' hmb hc hcl h ring start mask isLast w hRH h256 h1 hst hIP
  rw [decoder_window p0 size dict hq p hlg, ← hh]
  exact this

/-- **`C10_faithful_q29`** — the additional command hypothesis of the quality ≥ 4 writer theorems (`faithful`: after
every command the decoder's output is history ++ a prefix of the block) for the decoder that holds the dictionary, and
the decoder's ring after the block = the distance cache the call returns -/
theorem C10_faithful_q29 (p0 : BV.Header.Params) (size : Nat) (dict : Nat → Nat) (hsz : 0 < size)
    (hq : 2 ≤ encQ p0) (rbits : Nat) (hR : (decoderFor p0 size dict).dEff ≤ 2 ^ rbits) :
    ∃ s, setCustomDictionary p0 size dict size = some s ∧
      ∀ {H : Type} (ops : HasherOps H) (p : Cbr.Params) (large : Bool) (wo : WordOracle) (data : ByteArray)
        (k tail : Nat) (prev mb : Bytes) (lo : Nat) (_hlg : p.lgwin = encL p0)
        (_hb : BlockOK p large data k tail (encHistory s ++ prev) mb lo) (_hops : OpsOK (SlotOK wo) ops p data k)
        (numBytes position : Nat) (h0 : H) (cache : List Int) (lastInsertLen numLiterals : Nat) (res : Result H)
        (_hpos : position = (decoderFor p0 size dict).dEff + prev.length + lastInsertLen)
        (_hmb : mb.length = lastInsertLen + numBytes) (_hc : CacheI32 cache) (_hcl : 4 ≤ cache.length)
        (_h : createBackwardReferences ops p numBytes position h0 cache lastInsertLen numLiterals = some res),
        faithful wo 0 0 (decoderFor p0 size dict).mbd mb (decHistory (decoderFor p0 size dict) rbits ++ prev)
          ⟨decHistory (decoderFor p0 size dict) rbits ++ prev, cache.take 4, 0⟩
          (closeMetaBlock res.cmds res.lastInsertLen) ∧
        decSteps wo 0 0 (decoderFor p0 size dict).mbd mb ⟨decHistory (decoderFor p0 size dict) rbits ++ prev, cache.take 4, 0⟩
          (closeMetaBlock res.cmds res.lastInsertLen)
          = some ⟨decHistory (decoderFor p0 size dict) rbits ++ prev ++ mb, res.cache.take 4, mb.length⟩ := by
  obtain ⟨s, hs, hh⟩ := histories_agree p0 size dict hsz hq rbits hR
  refine ⟨s, hs, ?_⟩
  intro H ops p large wo data k tail prev mb lo hlg hb hops numBytes position h0 cache lastInsertLen numLiterals res
    hpos hmb hc hcl h
  have hpos' : position = (encHistory s ++ prev).length + lastInsertLen := by
    rw [List.length_append, hh, decHistory_length]; exact hpos
  have h1 := cbr_faithful ops p large wo data k tail (encHistory s ++ prev) mb lo hb hops numBytes position h0 cache
    lastInsertLen numLiterals res hpos' hmb hc hcl h
  have h2 := (cbr_final_state ops p large wo data k tail (encHistory s ++ prev) mb lo hb hops numBytes position h0 cache
    lastInsertLen numLiterals res hpos' hmb hc hcl h).1
  rw [decoder_window p0 size dict hq p hlg, ← hh]
  exact ⟨h1, h2⟩

/-- **`C10_full_roundtrip_q49`** — quality 4–9 down to the bits, with a custom dictionary: `CreateBackwardReferences`,
then `BrotliStoreMetaBlock` (model `storeMetaBlockFull`: block splits, context maps, literal context modelling) with ANY
well-formed `MetaBlockSplit` whose histograms cover the emitted symbols (`MBOK` / `Covers`; for the greedy builder:
C01Greedy's `greedy_split_wellformed`), then the GENERAL RFC 7932 reader in the state of the decoder that holds the same
dictionary = dictionary tail ++ earlier input ++ block, consuming exactly the emitted bits.  `prevByte` / `prevByte2`
are the last two bytes of the DECODER's history (for the first block: of the dictionary tail, `dict_positions_agree` (3)).
The command hypotheses `cmdOK`, `lockstep`, `faithful` and the payload are discharged; `hcl2` (`copy_len() ≥ 2` for copying
commands) stays: a 1-byte static-dictionary match is reachable with an extreme `literal_byte_score`. -/
theorem C10_full_roundtrip_q49 (p0 : BV.Header.Params) (size : Nat) (dict : Nat → Nat) (hsz : 0 < size)
    (hq : 2 ≤ encQ p0) (rbits : Nat) (hR : (decoderFor p0 size dict).dEff ≤ 2 ^ rbits) :
    ∃ s, setCustomDictionary p0 size dict size = some s ∧
      ∀ {H : Type} (ops : HasherOps H) (p : Cbr.Params) (large : Bool) (wo : WordOracle) (data : ByteArray)
        (k tail : Nat) (prev mb : Bytes) (lo : Nat) (_hlg : p.lgwin = encL p0)
        (_hb : BlockOK p large data k tail (encHistory s ++ prev) mb lo) (_hops : OpsOK (SlotOK wo) ops p data k)
        (numBytes position : Nat) (h0 : H) (cache : List Int) (lastInsertLen numLiterals : Nat) (res : Result H)
        (_hpos : position = (decoderFor p0 size dict).dEff + prev.length + lastInsertLen)
        (_hmb : mb.length = lastInsertLen + numBytes) (_hc : CacheI32 cache) (_hcl : 4 ≤ cache.length)
        (_h : createBackwardReferences ops p numBytes position h0 cache lastInsertLen numLiterals = some res)
        (_hcl2 : ∀ c ∈ closeMetaBlock res.cmds res.lastInsertLen, copyLen c ≠ 0 → 2 ≤ copyLen c)
        (ring : Bytes) (start mask prevByte prevByte2 : Nat) (isLast : Bool) (mode : Nat) (mbs : MBSplit) (w : List Bool)
        (_hRH : RingHolds ring mask start mb) (_h256 : ∀ b ∈ mb, b < 256)
        (_hh256 : ∀ b ∈ decHistory (decoderFor p0 size dict) rbits ++ prev, b < 256)
        (_h1 : 1 ≤ mb.length) (_h64 : start + mb.length < 2 ^ 64)
        (_hIP : inputPairCheck ring start mb.length mask = .ok ())
        (_hprev : prevByte = lastB (decHistory (decoderFor p0 size dict) rbits ++ prev) ∧
          prevByte2 = last2B (decHistory (decoderFor p0 size dict) rbits ++ prev)) (_hmode : mode < 4)
        (_hM : MBOK mbs (distAlphabetSize large 0 0))
        (_hcL : Covers mbs.litHistos (effMap mbs.litCmap mbs.litCmapSize mbs.lit.numTypes 64) 64
          (remTypes mbs.lit 0 (mbs.lit.lengths.getD 0 0))
          (litSymsOf mode (decHistory (decoderFor p0 size dict) rbits ++ prev) mb 0
            (closeMetaBlock res.cmds res.lastInsertLen)))
        (_hcI : Covers mbs.cmdHistos (trivialMap mbs.cmd.numTypes 1) 1
          (remTypes mbs.cmd 0 (mbs.cmd.lengths.getD 0 0))
          ((closeMetaBlock res.cmds res.lastInsertLen).map fun c => (0, c.cmdPrefix)))
        (_hcD : Covers mbs.distHistos (effMap mbs.distCmap mbs.distCmapSize mbs.dist.numTypes 4) 4
          (remTypes mbs.dist 0 (mbs.dist.lengths.getD 0 0)) (distSymsOf (closeMetaBlock res.cmds res.lastInsertLen))),
        ∃ bits ring',
          storeMetaBlockFull ring start mb.length mask prevByte prevByte2 isLast ⟨0, 0, distAlphabetSize large 0 0, large⟩
            mode (closeMetaBlock res.cmds res.lastInsertLen) mbs w = .ok (w ++ bits) ∧
          ∀ rest, readMetaBlockFullG wo (decoderFor p0 size dict).mbd large w.length
              ⟨decHistory (decoderFor p0 size dict) rbits ++ prev, cache.take 4⟩ (bits ++ rest)
            = some (⟨decHistory (decoderFor p0 size dict) rbits ++ prev ++ mb, ring'⟩, isLast, (w ++ bits).length, rest) := by
  obtain ⟨s, hs, hh⟩ := histories_agree p0 size dict hsz hq rbits hR
  refine ⟨s, hs, ?_⟩
  intro H ops p large wo data k tail prev mb lo hlg hb hops numBytes position h0 cache lastInsertLen numLiterals res
    hpos hmb hc hcl h hcl2 ring start mask prevByte prevByte2 isLast mode mbs w hRH h256 hh256 h1 h64 hIP hprev hmode hM
    hcL hcI hcD
  have hpos' : position = (encHistory s ++ prev).length + lastInsertLen := by
    rw [List.length_append, hh, decHistory_length]; exact hpos
  obtain ⟨hok, hlock, hrep⟩ := commands_lockstep ops p large wo data k tail (encHistory s ++ prev) mb lo hb hops numBytes
    position h0 cache lastInsertLen numLiterals res hpos' hmb hc hcl h
  have hfa := cbr_faithful ops p large wo data k tail (encHistory s ++ prev) mb lo hb hops numBytes position h0 cache
    lastInsertLen numLiterals res hpos' hmb hc hcl h
  have hA544 : distAlphabetSize large 0 0 ≤ 544 := by cases large <;> decide
  rw [hh] at hlock hrep hfa
  rw [decoder_window p0 size dict hq p hlg]
  obtain ⟨bits, out, ring', e, _, hrd, hout⟩ := BV.Props.C01MetaBlockFull.full_metablock_roundtrip wo (maxBackwardLimit p) ring
    start mask prevByte prevByte2 mb isLast ⟨0, 0, distAlphabetSize large 0 0, large⟩ mode _ mbs
    (decHistory (decoderFor p0 size dict) rbits ++ prev) (cache.take 4) w hRH h256 hh256 h1 hb.len h64 hIP hprev hmode
    (by show 0 ≤ 3; decide) (by show 0 % 2 ^ 0 = 0; decide) (by show 0 / 2 ^ 0 < 16; decide) rfl hA544 hok hcl2 hlock hfa hM
    hcL hcI hcD
  have := hout hrep
  subst this
  exact ⟨bits, ring', e, hrd⟩

/-! ### non-vacuity: an 8-byte custom dictionary (the first 8 bytes of `BV.Cbr.Example.text`) at quality 5, lgwin 10;
the block is the remaining 24 bytes, searched at position 8 = `d'`.  Every hypothesis of `C10_roundtrip_q29_partial`
is met; the conclusion is the decoder-side replay. -/

def exP : BV.Header.Params := ⟨5, 10, 0, false, false, false, true, false, 0⟩
def exDict : Nat → Nat := fun i => Example.text.getD i 0

example : ∃ res, createBackwardReferences (basicOps Example.hasher true 540 Example.dict Example.data (2 ^ 6 - 1))
      Example.params 24 8 (Array.replicate 32 0, ⟨0, 0⟩) [4, 11, 15, 16] 0 0 = some res ∧
    decHistory (decoderFor exP 8 exDict) 10 = Example.text.take 8 ∧
    replayCommands Example.oracle 0 0 (decoderFor exP 8 exDict).mbd (Example.text.drop 8) [4, 11, 15, 16]
      (decHistory (decoderFor exP 8 exDict) 10) (closeMetaBlock res.cmds res.lastInsertLen) = some Example.text := by
  obtain ⟨s, hs, _, _, hth⟩ := C10_roundtrip_q29_partial exP 8 exDict (by decide) (by decide) 10 (by decide)
  have hE : (setCustomDictionary exP 8 exDict 8).map encHistory = some (Example.text.take 8) := by decide
  rw [hs] at hE
  simp only [Option.map_some, Option.some.injEq] at hE
  have hD : decHistory (decoderFor exP 8 exDict) 10 = Example.text.take 8 := by decide
  have hb : BlockOK Example.params false Example.data 6 32 (encHistory s ++ []) (Example.text.drop 8) 0 := by
    rw [hE]
    exact ⟨rfl, rfl, Example.ring_ok, by decide, by decide, by decide, by decide, fun _ => by decide, fun _ => by decide,
      by decide, by decide⟩
  have hrun : (createBackwardReferences (basicOps Example.hasher true 540 Example.dict Example.data (2 ^ 6 - 1))
      Example.params 24 8 (Array.replicate 32 0, ⟨0, 0⟩) [4, 11, 15, 16] 0 0).isSome = true := by decide +kernel
  cases hr : createBackwardReferences (basicOps Example.hasher true 540 Example.dict Example.data (2 ^ 6 - 1))
      Example.params 24 8 (Array.replicate 32 0, ⟨0, 0⟩) [4, 11, 15, 16] 0 0 with
  | none => rw [hr] at hrun; cases hrun
  | some res =>
    obtain ⟨_, _, hrep⟩ := hth (basicOps Example.hasher true 540 Example.dict Example.data (2 ^ 6 - 1)) Example.params false
      Example.oracle Example.data 6 32 [] (Example.text.drop 8) 0 (by decide) hb
      (basicOps_ok _ Example.hasher true 540 _ Example.data 6 (by decide) Example.params Example.dict_ok)
      24 8 (Array.replicate 32 0, ⟨0, 0⟩) [4, 11, 15, 16] 0 0 res (by decide) (by decide)
      (by intro x hx; simp at hx; rcases hx with rfl | rfl | rfl | rfl <;> decide) (by decide) hr
    refine ⟨res, rfl, hD, ?_⟩
    have e : decHistory (decoderFor exP 8 exDict) 10 ++ [] ++ Example.text.drop 8 = Example.text := by rw [hD]; decide
    rw [List.append_nil] at hrep e
    rw [e] at hrep
    simpa using hrep

end BV.Props.C10Chain
