/-
C01 (match finder chain), translator tie: the Lean definition GENERATED from the current Rust text of
`ComputeDistanceCode` (src/enc/command.rs; tools/rs2lean.py -> BV/Gen/FnC01m.lean) is what the
hand-written match-finder model `BV.MatchFinder.computeDistanceCode` — the step that turns an accepted
match into a distance code in `emitCommand` — computes, for every distance and every distance cache of
at least four entries (the encoder passes its 16-entry `dist_cache_`); on such caches the Rust function
cannot panic (`ComputeDistanceCode_ok`).
-/
import BV.Gen.FnC01m
import BV.Model.MatchFinder

namespace BV.Props.C01mGen
open BV.Gen.FnC01m BV.MatchFinder

theorem nib0 : ∀ o : Fin 7, BV.Rs.toU 64 (BV.Rs.sop (fun x y => x &&& y) 32
    ((158663784 : Int) / (2 : Int) ^ (((4 * o.val) % 18446744073709551616) % 32)) (15 : Int))
    = (0x09750468 >>> (4 * o.val)) &&& 0xf := by decide

theorem nib1 : ∀ o : Fin 7, BV.Rs.toU 64 (BV.Rs.sop (fun x y => x &&& y) 32
    ((266017486 : Int) / (2 : Int) ^ (((4 * o.val) % 18446744073709551616) % 32)) (15 : Int))
    = (0x0fdb1ace >>> (4 * o.val)) &&& 0xf := by decide

theorem toU_eq (c : Int) : i32ToUsize c = BV.Rs.toU 64 c := rfl

theorem toU_lt (c : Int) : BV.Rs.toU 64 c < 18446744073709551616 := by
  unfold BV.Rs.toU
  have e : (2 : Int) ^ 64 = 18446744073709551616 := by decide
  rw [e]
  omega

/-- the function on the unsigned values of the four cache entries (`x_i = c_i as usize`) -/
theorem core (d m x0 x1 x2 x3 : Nat) (hd : d < 18446744073709551616) (h0 : x0 < 18446744073709551616)
    (h1 : x1 < 18446744073709551616) :
    (match (if d ≤ m then
          if d = x0 then some 0
          else if d = x1 then some 1
          else if ((d + 3) % 18446744073709551616 + 18446744073709551616 - x0 % 18446744073709551616) % 18446744073709551616 < 7 then
            some ((0x09750468 >>> (4 * (((d + 3) % 18446744073709551616 + 18446744073709551616 - x0 % 18446744073709551616) % 18446744073709551616))) &&& 0xf)
          else if ((d + 3) % 18446744073709551616 + 18446744073709551616 - x1 % 18446744073709551616) % 18446744073709551616 < 7 then
            some ((0x0fdb1ace >>> (4 * (((d + 3) % 18446744073709551616 + 18446744073709551616 - x1 % 18446744073709551616) % 18446744073709551616))) &&& 0xf)
          else if d = x2 then some 2
          else if d = x3 then some 3
          else none
        else (none : Option Nat)) with
      | some c => some c
      | none => some ((d + 16 + 18446744073709551616 - 1) % 18446744073709551616)) =
    some (if d ≤ m then
        if d = x0 then 0
        else if d = x1 then 1
        else if ((d + 3) % 18446744073709551616 + 18446744073709551616 - x0) % 18446744073709551616 < 7 then
          BV.Rs.toU 64 (BV.Rs.sop (fun x y => x &&& y) 32 ((158663784 : Int) / (2 : Int) ^
            (((4 * (((d + 3) % 18446744073709551616 + 18446744073709551616 - x0) % 18446744073709551616)) % 18446744073709551616) % 32)) (15 : Int))
        else if ((d + 3) % 18446744073709551616 + 18446744073709551616 - x1) % 18446744073709551616 < 7 then
          BV.Rs.toU 64 (BV.Rs.sop (fun x y => x &&& y) 32 ((266017486 : Int) / (2 : Int) ^
            (((4 * (((d + 3) % 18446744073709551616 + 18446744073709551616 - x1) % 18446744073709551616)) % 18446744073709551616) % 32)) (15 : Int))
        else if d = x2 then 2
        else if d = x3 then 3
        else ((d + 16) % 18446744073709551616 + 18446744073709551616 - 1) % 18446744073709551616
      else ((d + 16) % 18446744073709551616 + 18446744073709551616 - 1) % 18446744073709551616) := by
  have e16 : (d + 16 + 18446744073709551616 - 1) % 18446744073709551616
      = ((d + 16) % 18446744073709551616 + 18446744073709551616 - 1) % 18446744073709551616 := by omega
  have m0 : x0 % 18446744073709551616 = x0 := Nat.mod_eq_of_lt h0
  have m1 : x1 % 18446744073709551616 = x1 := Nat.mod_eq_of_lt h1
  rw [m0, m1, e16]
  generalize ((d + 3) % 18446744073709551616 + 18446744073709551616 - x0) % 18446744073709551616 = o0
  generalize ((d + 3) % 18446744073709551616 + 18446744073709551616 - x1) % 18446744073709551616 = o1
  by_cases hle : d ≤ m
  · simp only [hle, if_true]
    by_cases c0 : d = x0
    · simp only [c0, if_true]
    · simp only [c0, if_false]
      by_cases c1 : d = x1
      · simp only [c1, if_true]
      · simp only [c1, if_false]
        by_cases p0 : o0 < 7
        · simp only [p0, if_true, nib0 ⟨o0, p0⟩]
        · simp only [p0, if_false]
          by_cases p1 : o1 < 7
          · simp only [p1, if_true, nib1 ⟨o1, p1⟩]
          · simp only [p1, if_false]
            by_cases c2 : d = x2
            · simp only [c2, if_true]
            · simp only [c2, if_false]
              by_cases c3 : d = x3
              · simp only [c3, if_true]
              · simp only [c3, if_false]
  · simp only [hle, if_false]

/-- `ComputeDistanceCode`: every `usize` distance and limit, every cache `c0 :: c1 :: c2 :: c3 :: rest` -/
theorem compute_distance_code_generated (d m : Nat) (c0 c1 c2 c3 : Int) (rest : List Int) (hd : d < 2 ^ 64) :
    computeDistanceCode d m (c0 :: c1 :: c2 :: c3 :: rest) = some (ComputeDistanceCode d m (c0 :: c1 :: c2 :: c3 :: rest)) := by
  have h64 : (2 : Nat) ^ 64 = 18446744073709551616 := by decide
  rw [h64] at hd
  unfold computeDistanceCode ComputeDistanceCode
  simp only [List.getElem?_cons_zero, List.getElem?_cons_succ, List.getD_cons_zero, List.getD_cons_succ,
    toU_eq, wsub, BV.Hasher.U64, decide_eq_true_eq, beq_iff_eq]
  exact core d m _ _ _ _ hd (toU_lt c0) (toU_lt c1)

theorem compute_distance_code_ok_generated (d m : Nat) (c0 c1 c2 c3 : Int) (rest : List Int) :
    ComputeDistanceCode_ok d m (c0 :: c1 :: c2 :: c3 :: rest) = true := by
  unfold ComputeDistanceCode_ok
  simp only [List.length_cons, List.getD_cons_zero, List.getD_cons_succ, decide_eq_true_eq]
  generalize ((d + 3) % 18446744073709551616 + 18446744073709551616 - BV.Rs.toU 64 c0) % 18446744073709551616 = o0
  generalize ((d + 3) % 18446744073709551616 + 18446744073709551616 - BV.Rs.toU 64 c1) % 18446744073709551616 = o1
  repeat' split
  all_goals simp
  all_goals omega

example : ComputeDistanceCode 100 1000 [100, 7, 8, 9] = 0 := by decide
example : ComputeDistanceCode 101 1000 [100, 7, 8, 9] = 5 := by decide
example : ComputeDistanceCode 5000 1000 [100, 7, 8, 9] = 5015 := by decide

end BV.Props.C01mGen
