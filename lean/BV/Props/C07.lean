/-
C07 — Worker pool: each job runs once, results are routed correctly, no deadlock.

Property theorems ONLY.  Models: BV/Model/FixedQueue.lean (`src/enc/fixed_queue.rs`),
BV/Model/Pool.lean (`src/enc/worker_pool.rs` as used by `CompressMulti`).
Helper lemmas: BV/Lemmas/Pool*.lean.  `MAX_THREADS` is the generated
`BV.Gen.MAX_THREADS` (what `/repo/src/enc/fixed_queue.rs` says now).
-/
import BV.Lemmas.PoolFixedQueueSeq
import BV.Lemmas.PoolReach
import BV.Lemmas.PoolRoute
import BV.Lemmas.PoolProgress
import BV.Lemmas.PoolTerm
import BV.Lemmas.PoolContract

namespace BV.Props.C07
open BV.Gen BV.FixedQueue BV.Lemmas.FixedQueue BV.Pool BV.Lemmas.Pool

/-! ## 1. the fixed-capacity queue refines a list (all operation sequences) -/

/-- For EVERY sequence of `push` / `pop` / `remove f` calls on a fresh queue: the model
never panics (`remove`'s `assert!` is never hit), the values returned are exactly those
of the abstract list queue `specRun` (`push` = append unless `MAX_THREADS` items are
stored, `pop` = head, `remove f` = first item matching `f`, the head taking its place),
the final queue is well formed (window fully occupied, every other slot `None`) and its
contents are the abstract list. -/
theorem fixed_queue_refines_list {α : Type} (ops : List (QOp α)) :
    ∃ q', runQ (new : FixedQueue α) ops = some ((specRun [] ops).1, q') ∧ WF q' ∧
      q'.items = (specRun [] ops).2 ∧ q'.size = q'.items.length ∧ q'.size ≤ MAX_THREADS := by
  obtain ⟨q', h1, h2, h3⟩ := runQ_refines (new : FixedQueue α) wf_new ops
  rw [items_new] at h1 h3
  exact ⟨q', h1, h2, h3, h2.length_items.symm, h2.size_le⟩

/-- `remove` changes the ORDER of the remaining items (the head is moved into the hole);
what is preserved is the multiset: the old contents are a permutation of the removed
item followed by the new contents. Nothing is lost or duplicated. -/
theorem fixed_queue_remove_multiset {α : Type} (q : FixedQueue α) (w : WF q) (f : Option α → Bool) :
    (∃ x q', q.remove f = some (some x, q') ∧ f (some x) = true ∧ WF q' ∧
        (x :: q'.items).Perm q.items) ∨
    (q.remove f = some (none, q) ∧ ∀ x, x ∈ q.items → f (some x) = false) := by
  rcases remove_spec w f with ⟨h1, h2⟩ | ⟨k, x, q1, h1, h2, _, h4, h5, h6, _⟩
  · exact .inr ⟨h2, h1⟩
  · left
    refine ⟨x, q1, h4, h2, h5, ?_⟩
    have hk : k < q.items.length := by
      rcases Nat.lt_or_ge k q.items.length with h | h
      · exact h
      · rw [List.getElem?_eq_none h] at h1; cases h1
    rw [List.getElem?_eq_getElem hk] at h1
    cases h1
    rw [h6]
    exact removeAbs_perm q.items k hk

/-- the `assert!(is_none.is_none())` in `remove` cannot fire on ANY queue value, well
formed or not (the target slot was `take()`n two statements earlier) -/
theorem fixed_queue_remove_assert_dead {α : Type} (q : FixedQueue α) (f : Option α → Bool) :
    (q.remove f).isSome := by
  unfold FixedQueue.remove
  split
  · rfl
  · generalize q.size = fuel
    generalize 0 = index
    induction fuel generalizing index with
    | zero => rfl
    | succ n ih =>
      unfold FixedQueue.removeLoop
      split
      · exact removeAt_isSome q index
      · exact ih (index + 1)

/-- `push` fails exactly when `MAX_THREADS` items are stored -/
theorem fixed_queue_push_err_iff_full {α : Type} (q : FixedQueue α) (x : α) :
    q.push x = none ↔ q.size = MAX_THREADS := by
  unfold FixedQueue.push
  split <;> simp [*]

/-- non-vacuity: a wrap-around run (start index passes `MAX_THREADS`) with a `remove`
from the middle, evaluated by the model, agrees with the abstract run -/
example :
    (runQ (new : FixedQueue Nat)
      ((List.range 16).map QOp.push ++ [.pop, .pop, .push 100, .push 101, .push 102,
        .remove (fun o => o == some 7), .pop])).map (fun r => r.2.items)
      = some [4, 5, 6, 2, 8, 9, 10, 11, 12, 13, 14, 15, 100, 101] := by decide

/-! ## 2. the safety invariant

`Reachable n p s`: `s` is reached from `init n p` (n workers, submitter program `p`) by
some sequence of scheduling choices — thread steps in any interleaving and spurious
condition-variable wake-ups.  `contract p` is the caller contract (a decidable predicate on
programs): whenever `spawn` is called at most `MAX_THREADS - 1` spawned jobs are not yet
joined; every `join` is for an earlier spawn not joined before; nothing but `u` follows `d`.
This is what `CompressMulti` guarantees (≤ 15 spawns per batch, all joined before it returns).
-/

/-- `Inv` (BV/Lemmas/PoolInv.lean) holds initially and is preserved by EVERY transition
(worker steps, submitter steps, spurious wake-ups), for any number of workers. -/
theorem inv_inductive :
    (∀ n p, contract p = true → BV.Lemmas.Pool.Inv (init n p)) ∧
    (∀ s s' c, BV.Lemmas.Pool.Inv s → step s c = .ok s' → BV.Lemmas.Pool.Inv s') :=
  ⟨inv_init, fun _ _ _ I h => inv_step I h⟩

/-- what `Inv` says, spelled out, in every reachable state:
* both queues are well formed (their abstraction as lists is exact, theorem 1);
* `jobs.size + num_in_progress + results.size ≤ MAX_THREADS`, and this sum is exactly
  the number of spawned-but-not-joined jobs;
* `num_in_progress` = number of workers between their pop and their publish;
* every id `< cur_work_id` is in exactly ONE place — the jobs queue, one worker
  (`atRun`/`atLockB`), the results queue, or the joined list — exactly once, and no id
  `≥ cur_work_id` is anywhere (so work ids in the queues are unique and `< cur_work_id`);
* `arc = 1 + #queued + #popped-and-not-yet-dropped`. -/
theorem inv_reachable_spelled_out {n : Nat} {p : List Op} (hc : contract p = true) {s : State}
    (hr : Reachable n p s) :
    WF s.jobs ∧ WF s.results ∧
    s.jobs.size + s.numInProgress + s.results.size ≤ MAX_THREADS ∧
    s.jobs.size + s.numInProgress + s.results.size + (joinedIds s.hist).length = s.curWorkId ∧
    s.numInProgress = wsum busy s.workers ∧
    (∀ id, cntJ id s.jobs.items + wsum (hasId id) s.workers + cntR id s.results.items
        + (joinedIds s.hist).count id = if id < s.curWorkId then 1 else 0) ∧
    s.arc = 1 + s.jobs.size + wsum holdsArc s.workers := by
  have I := inv_reachable hc hr
  exact ⟨I.wfJ, I.wfR, spawn_cond_of_inv I, I.total, I.nip, fun id => by rw [I.part id]; rfl, I.arc⟩

/-- non-vacuity: the `CompressMulti` shape — two batches on the same pool (15 jobs joined
in order, then 3 jobs joined out of order), input retrieved after each, then drop — obeys
the contract -/
example : contract ((List.range 15).map Op.spawn ++ (List.range 15).map Op.join ++ [.unwrapInput]
    ++ [.spawn 7, .spawn 8, .spawn 9, .join 17, .join 15, .join 16, .unwrapInput, .dropPool]) = true := by
  decide

/-- The programs the property quantifies over obey the contract: ANY sequence of batches on
the same pool — each batch spawns at most `MAX_THREADS` jobs (CompressMulti: at most 15),
joins exactly these jobs in ANY order (`order` is a permutation of the batch positions) and
retrieves the input — followed by `d`.  So every theorem below applies to all of them. -/
theorem batches_obey_contract (bs : List (List Nat × List Nat)) (hok : BatchesOk bs) :
    contract (batchesOps 0 bs ++ [.dropPool]) = true :=
  contract_of_batches bs hok

/-- non-vacuity: a 3-job batch joined in the order 2,0,1, then a 1-job batch -/
example : BatchesOk [([7, 8, 9], [2, 0, 1]), ([5], [0])] ∧
    batchesOps 0 [([7, 8, 9], [2, 0, 1]), ([5], [0])] ++ [.dropPool]
      = [.spawn 7, .spawn 8, .spawn 9, .join 2, .join 0, .join 1, .unwrapInput,
         .spawn 5, .join 3, .unwrapInput, .dropPool] := by
  refine ⟨?_, rfl⟩
  intro b hb
  simp only [List.mem_cons, List.not_mem_nil, or_false] at hb
  rcases hb with rfl | rfl
  · exact ⟨by decide, by decide⟩
  · exact ⟨by decide, by decide⟩

/-! ## 3. neither `unwrap()` can panic; the contract is needed -/

/-- Under the contract, for ANY number of workers and ANY schedule (incl. spurious
wake-ups), no panic site of the model is reachable: not `jobs.push(..).unwrap()` in
`spawn`, not `results.push(..).unwrap()` in `do_work`, not the `num_in_progress -= 1`
underflow, not the `assert!` in `FixedQueue::remove`. -/
theorem push_never_fails (n : Nat) (p : List Op) (hc : contract p = true) (sched : List Choice)
    (site : PanicSite) : runSched (init n p) sched ≠ .error (.panic site) := by
  intro h
  obtain ⟨s1, c, hr, hs⟩ := run_error .init h
  exact no_panic_of_inv (inv_reachable hc hr) c site hs

/-- Under the contract the loop condition of `spawn` holds at its first evaluation in
every reachable state: the "hope room frees up" `cvar.wait` branch is dead code. -/
theorem backpressure_dead {n : Nat} {p : List Op} (hc : contract p = true) {s : State}
    (hr : Reachable n p s) : s.jobs.size + s.numInProgress + s.results.size ≤ MAX_THREADS :=
  spawn_cond_of_inv (inv_reachable hc hr)

/-- the 17-spawn program (no joins) violates the contract … -/
theorem seventeen_spawns_violate_contract : contract seventeenSpawns = false := by decide

/-- … and the contract is needed: with one (slow) worker, scheduling the submitter 17 times
makes the 17th `spawn` pass the `≤ MAX_THREADS` test with 16 queued jobs and panic in
`jobs.push(..).unwrap()`.  (The test in `spawn` is `<=`; the unused `_push_job` has `<`.) -/
theorem contract_is_needed :
    runSched (init 1 seventeenSpawns) (List.replicate 17 (.run 0)) = .error (.panic .jobsPush) := by
  decide

/-- the same program does not panic if the worker drains the queue in between
(non-vacuity of the model's `spawn`: 17 un-joined spawns are fine when they are not
all queued at once — here one is in progress when the 17th is pushed) -/
example : (match runSched (init 1 seventeenSpawns) (.run 0 :: .run 1 :: List.replicate 16 (.run 0)) with
    | .ok s => s.jobs.size == 16 && s.numInProgress == 1
    | .error _ => false) = true := by decide

/-! ## 4. exactly once; results are routed to the right join

`runCount id hist` counts the `r<id>` events (the job function ran to completion) in the
history; `joinedIds hist` are the ids of the `j<id>=<v>` events; `spawnIdxs p` are the
`index` arguments of the spawn ops of program `p`, in program order (the n-th spawn of a
program gets work id n on a fresh pool: `Inv.spawnedIds`). -/

/-- In every reachable state every job has been run AT MOST once, and every job whose
`join` has returned has been run EXACTLY once. -/
theorem exactly_once {n : Nat} {p : List Op} (hc : contract p = true) {s : State}
    (hr : Reachable n p s) (id : Nat) :
    runCount id s.hist ≤ 1 ∧ (id ∈ joinedIds s.hist → runCount id s.hist = 1) :=
  run_once_of_inv (inv_reachable hc hr) (invR_reachable hc hr) id

/-- Every `join` that has returned — event `j<id>=<v>` — returned the result of its own
job: `v` is the value (= `index`) of the `id`-th spawn op of the program. -/
theorem join_returns_own {n : Nat} {p : List Op} (hc : contract p = true) {s : State}
    (hr : Reachable n p s) {t id v : Nat} (h : (t, Ev.join id v) ∈ s.hist) :
    (spawnIdxs p)[id]? = some v :=
  join_value_of_inv (inv_reachable hc hr) (invR_reachable hc hr) h

/-- … and the op `j<k>` waits for work id `k`: when it completes, the event is `j<k>=…`. -/
theorem join_op_joins_its_handle {n : Nat} {p : List Op} (hc : contract p = true) {s s' : State}
    (hr : Reachable n p s) {k : Nat} {rest : List Op} (hp : s.prog = .join k :: rest)
    (hs : step s (.run 0) = .ok s') (hdone : s'.prog = rest) :
    ∃ v, s'.hist = (0, Ev.join k v) :: s.hist ∧ (spawnIdxs p)[k]? = some v := by
  have I := inv_reachable hc hr
  have hlen : rest.length < s.prog.length := by simp [hp]
  apply step_elim hs
  case join =>
    intro n' rest' j r results' _ _ hp' hsp _ hs'
    rw [hp] at hp'
    cases hp'
    have hc' := I.contr
    rw [hp] at hc'
    simp only [contractFrom, Bool.and_eq_true, decide_eq_true_eq] at hc'
    have hjn : j.workId = k := by
      have h1 : (s.spawned.map Job.workId)[k]? = some j.workId := by simp [hsp]
      rw [I.spawnedIds, List.getElem?_range hc'.1.1.2] at h1
      cases h1; rfl
    refine ⟨r.value, by rw [hs', hjn]; rfl, ?_⟩
    have hr' : Reachable n p s' := hr.step hs
    apply join_returns_own hc hr' (t := 0)
    rw [hs', hjn]; simp
  case joinWait =>
    intro _ _ _ _ _ _ _ _ _ hs'
    rw [hs'] at hdone; simp only [log_prog] at hdone; rw [hdone] at hlen; omega
  all_goals
    intros
    first
      | (rename_i hp' _; rw [hp] at hp'; cases hp'; done)
      | (rename_i hp' _ _; rw [hp] at hp'; cases hp'; done)
      | (rename_i hp' _ _ _; rw [hp] at hp'; cases hp'; done)
      | (rename_i hc _ _; cases hc; done)
      | (rename_i hc _ _ _; cases hc; done)
      | (rename_i hc _ _ _ _; cases hc; done)
      | (rename_i hc _ _ _ _ _; cases hc; done)
      | (rename_i hc _ _ _; cases hc; done)

/-- non-vacuity: 2 workers, joins in the opposite order of the spawns -/
example : (match runSched (init 2 [.spawn 7, .spawn 9, .join 1, .join 0])
      ([0, 0, 1, 2, 1, 2, 1, 2, 0, 0].map Choice.run) with
    | .ok s => s.hist.filterMap (fun e => match e.2 with | .join id v => some (id, v) | _ => none)
    | .error _ => []) = [(0, 7), (1, 9)] := by decide

/-! ## 5. the caller gets the shared input back -/

/-- When every spawned job has been joined the strong count of the shared input is 1, so
`Arc::try_unwrap` in `OwnedRetriever::unwrap` succeeds (`u` logs `u1`).  This uses
`arc = 1 + #queued + #atRun` (`Inv.arc`): the worker drops its `possible_job` (transition
`atRun → atLockB`) BEFORE it publishes the result (transition `atLockB → atLockA`), so a
joined job holds no clone.  If the drop came after the publish, the clone would be held in
a pc that is not counted in `num_in_progress` and this proof would not go through. -/
theorem arc_one_after_all_joined {n : Nat} {p : List Op} (hc : contract p = true) {s : State}
    (hr : Reachable n p s) (hall : ∀ id, id < s.curWorkId → id ∈ joinedIds s.hist) :
    s.arc = 1 := by
  have I := inv_reachable hc hr
  -- nothing with a spawned id is anywhere but in the joined list
  have key : ∀ id, cntJ id s.jobs.items + wsum (hasId id) s.workers = 0 := by
    intro id
    have h1 := I.part id
    by_cases c : id < s.curWorkId
    · have : 0 < (joinedIds s.hist).count id := List.count_pos_iff.mpr (hall id c)
      have := below_le id s.curWorkId
      omega
    · have := below_of_ge (Nat.le_of_not_lt c)
      omega
  have hj : s.jobs.size = 0 := by
    rw [← I.wfJ.length_items]
    cases hi : s.jobs.items with
    | nil => rfl
    | cons a t =>
      have := key a.workId
      rw [hi, cntJ_cons, eqInd_self] at this
      omega
  have hw : wsum holdsArc s.workers = 0 := by
    have hz : ∀ (ws : List WPc), (∀ q, q ∈ ws → holdsArc q = 0) → wsum holdsArc ws = 0 := by
      intro ws hq
      induction ws with
      | nil => rfl
      | cons a t ih =>
        simp only [wsum_cons, hq a List.mem_cons_self,
          ih (fun q hq' => hq q (List.mem_cons_of_mem _ hq'))]
    apply hz
    intro q hq
    cases q with
    | atRun j =>
      obtain ⟨i, hi⟩ := List.mem_iff_getElem?.mp hq
      have h1 := wsum_pos_of_mem (hasId j.workId) hi
      simp only [hasId, eqInd_self] at h1
      have := key j.workId
      omega
    | _ => rfl
  have := I.arc
  omega

/-- the drop happens in the `r` step, before the publishing `b` step: after `s0 p0 r0` the
count is already back to 1 although the result is not yet published -/
example : (match runSched (init 1 [.spawn 5, .join 0]) [.run 0, .run 1, .run 1] with
    | .ok s => s.arc == 1 && s.numInProgress == 1 && s.results.size == 0
    | .error _ => false) = true := by decide

/-- the `u` op reports exactly `arc == 1` -/
theorem unwrap_reports_arc (s : State) (rest : List Op) (hspc : s.spc = .ready)
    (hp : s.prog = .unwrapInput :: rest) :
    step s (.run 0) = .ok ({ s with spc := .ready, prog := rest }.log 0 (.unwrap (s.arc == 1))) := by
  simp [step, stepSub, hspc, hp]

/-- non-vacuity, and the order matters: right after the LAST join returns the input can be
retrieved (`u1`); while the job has been run and published but the OTHER job is still
queued the count is 2 and `u` would fail (`u0`) -/
example : (match runSched (init 1 [.spawn 1, .spawn 2, .join 0, .unwrapInput, .join 1, .unwrapInput])
      ([0, 0, 1, 1, 1, 0, 0, 1, 1, 1, 0, 0].map Choice.run) with
    | .ok s => s.hist.filterMap (fun e => match e.2 with | .unwrap b => some b | _ => none)
    | .error _ => []) = [true, false] := by decide

/-! ## 6. no lost wake-up, no deadlock -/

/-- The no-lost-wake-up invariant, in every reachable state (any number of workers, any
interleaving, incl. spurious wake-ups):
* a worker parked in `cvar.wait` ⇒ the jobs queue is empty and `immediate_shutdown` is not
  set (every `jobs.push` and the flag store are followed by `notify_all` under the lock);
* the submitter parked in `cvar.wait` ⇒ it is inside `join` for job `k` and `k`'s reply is
  not in the results queue (every `results.push` is followed by `notify_all`);
* no worker exits before `immediate_shutdown`; once `drop` has returned all have exited. -/
theorem no_lost_wakeup {n : Nat} {p : List Op} (hc : contract p = true) {s : State}
    (hr : Reachable n p s) :
    (∀ w, w ∈ s.workers → w = .waiting → s.jobs.size = 0 ∧ s.immediateShutdown = false) ∧
    (s.spc = .waiting → ∃ k rest, s.prog = .join k :: rest ∧ cntR k s.results.items = 0) ∧
    (s.immediateShutdown = false → ∀ w, w ∈ s.workers → w ≠ .exited) ∧
    (dropped s = true → ∀ w, w ∈ s.workers → w = .exited) := by
  have L := invL_reachable hc hr
  exact ⟨L.waitW, L.subWait, L.noExit, L.afterDrop⟩

/-- Deadlock freedom: in every reachable state that is not `done` (the submitter has ops
left, or is parked inside one) some thread is runnable WITHOUT the help of a spurious
wake-up, and scheduling it succeeds (`step` returns a successor state — not
`bad-choice`, `bad-prog` or a panic).  For any `n ≥ 1` workers, any contract-abiding program
(any number of batches, any join order), any interleaving. -/
theorem deadlock_free {n : Nat} (hn : 1 ≤ n) {p : List Op} (hc : contract p = true) {s : State}
    (hr : Reachable n p s) (hnd : s.done = false) :
    s.anyRunnable = true ∧ ∃ t s', step s (.run t) = .ok s' := by
  have I := inv_reachable hc hr
  have L := invL_reachable hc hr
  have h := runnable_of_inv I L (by rw [workers_length_reachable hr]; exact hn) hnd
  exact ⟨h, step_ok_of_anyRunnable I L h⟩

/-- `done` means what it should: the submitter has executed its whole program, and if the
program dropped the pool every worker thread has exited. -/
theorem done_spec (s : State) : s.done = true ↔
    (s.prog = [] ∧ s.spc = .ready ∧ (s.immediateShutdown = true → ∀ w, w ∈ s.workers → w = .exited)) := by
  simp only [State.done, State.finished, Bool.and_eq_true, List.isEmpty_iff, beq_iff_eq,
    Bool.or_eq_true, Bool.not_eq_true', List.all_eq_true]
  constructor
  · rintro ⟨⟨h1, h2⟩, h3⟩
    refine ⟨h1, h2, fun him w hw => ?_⟩
    rcases h3 with h3 | h3
    · rw [him] at h3; cases h3
    · exact h3 w hw
  · rintro ⟨h1, h2, h3⟩
    refine ⟨⟨h1, h2⟩, ?_⟩
    cases him : s.immediateShutdown
    · exact .inl rfl
    · exact .inr (h3 him)

/-- non-vacuity: a state in which both workers and the submitter are parked is NOT
reachable under the contract, but the wait set does fill up: here both workers wait, the
submitter (about to spawn) is the only runnable thread -/
example : (match runSched (init 2 [.spawn 3, .join 0, .dropPool]) [.run 1, .run 2] with
    | .ok s => s.workers == [.waiting, .waiting] && s.anyRunnable && !s.done
    | .error _ => false) = true := by decide

/-- without a worker (`n = 0`, excluded by `1 ≤ n`) the pool does deadlock: `end:stuck` -/
example : (match runSched (init 0 [.spawn 3, .join 0]) [.run 0, .run 0] with
    | .ok s => !s.anyRunnable && !s.done
    | .error _ => false) = true := by decide

/-! ## 7. termination, shutdown, reuse -/

/-- The termination measure `mu = major * (2n + 8) + minor` (BV/Lemmas/PoolMeasure.lean;
`major` = weighted ops left + 3·queued + 2·running + 1·unpublished + live workers + what is
left of `d`; `minor` = 2·woken + 1·about-to-lock threads): EVERY thread step, of any thread,
in any reachable state, strictly decreases it; a spurious wake-up adds exactly 2. -/
theorem measure_decreases {n : Nat} {p : List Op} (hc : contract p = true) {s s' : State}
    (hr : Reachable n p s) :
    (∀ t, step s (.run t) = .ok s' → mu s' < mu s) ∧
    (∀ t, step s (.spurious t) = .ok s' → mu s' = mu s + 2) :=
  ⟨fun _ h => mu_step_run (inv_reachable hc hr) (invL_reachable hc hr) h,
   fun _ h => mu_step_spurious h⟩

/-- Every `spawn`, `join` and `drop` returns.  For every execution prefix `cs` (any
interleaving): the number of thread steps in it is bounded by a constant of the program and
pool size plus twice the number of spurious wake-ups in it; and unless the run is complete
(`done`: program finished, workers gone if dropped) some thread can take a step.  So an
execution with finitely many spurious wake-ups can neither go on forever nor get stuck: it
reaches `done`.  NO fairness assumption is needed (no thread of this system spins: each
thread step consumes potential), so this is stronger than termination under weak fairness;
only "finitely many spurious wake-ups" is assumed. -/
theorem terminates_under_fairness {n : Nat} (hn : 1 ≤ n) {p : List Op} (hc : contract p = true)
    {cs : List Choice} {s : State} (h : runSched (init n p) cs = .ok s) :
    nRuns cs ≤ (progW p + n + dropW (hasDrop p) n) * (2 * n + 8) + (n + 1) + 2 * nSpur cs ∧
    (s.done = false → ∃ t s', step s (.run t) = .ok s') := by
  constructor
  · have := sched_bounded (inv_init n p hc) (invL_init n p) h
    rw [mu_init] at this
    omega
  · intro hnd
    exact (deadlock_free hn hc (reachable_run .init h) hnd).2

/-- non-vacuity / tightness check of the bound's shape on a real run: 15 thread steps, no
spurious wake-up; the bound evaluates to 17·12+3 = 207 -/
example : nRuns ([0, 0, 1, 2, 1, 2, 1, 2, 0, 0, 0, 0, 1, 2, 0].map Choice.run) = 15 ∧
    (progW [.spawn 7, .spawn 9, .join 1, .join 0, .unwrapInput, .dropPool] + 2
      + dropW (hasDrop [.spawn 7, .spawn 9, .join 1, .join 0, .unwrapInput, .dropPool]) 2)
      * (2 * 2 + 8) + (2 + 1) = 207 := by decide

/-- Dropping the pool terminates all workers: once `immediate_shutdown` is set (it stays
set), each step of a worker strictly decreases its `stepsToExit` (≤ 3: finish the job in
hand, publish it, see the flag), no other thread's step or wake-up changes that worker's pc,
and (theorem `deadlock_free`) `drop`'s join of a live worker always leaves that worker
runnable.  Hence every worker exits after at most 3 of its own steps, and `d` completes. -/
theorem drop_stops_workers {n : Nat} {p : List Op} (hc : contract p = true) {s s' : State}
    (hr : Reachable n p s) (himm : s.immediateShutdown = true) {c : Choice}
    (h : step s c = .ok s') (i : Nat) :
    s'.immediateShutdown = true ∧
    (c = .run (i + 1) →
      stepsToExit (s'.workers[i]?.getD .exited) < stepsToExit (s.workers[i]?.getD .exited)) ∧
    (c ≠ .run (i + 1) → s'.workers[i]? = s.workers[i]?) ∧
    (∀ w, stepsToExit w ≤ 3) := by
  have I := inv_reachable hc hr
  have L := invL_reachable hc hr
  refine ⟨imm_step h himm, ?_, fun hne => other_step_after_drop L himm h hne, ?_⟩
  · intro hcq; subst hcq; exact own_step_after_drop I L himm h
  · intro w; cases w <;> simp [stepsToExit]

/-- after `d` has returned every worker has exited (in every reachable state) -/
theorem drop_returns_after_all_exited {n : Nat} {p : List Op} (hc : contract p = true) {s : State}
    (hr : Reachable n p s) (hd : s.immediateShutdown = true) (hj : ∀ t, s.spc ≠ .joining t) :
    ∀ w, w ∈ s.workers → w = .exited := by
  apply (invL_reachable hc hr).afterDrop
  cases hs : s.spc <;> simp [dropped, hd, isJoining, hs]
  exact hj _ hs

/-- non-vacuity: drop while one job is queued, one running, one unpublished: all three
workers exit, `d` completes -/
example : (match runSched (init 3 [.spawn 1, .spawn 2, .spawn 3, .dropPool])
      ([0, 0, 0, 1, 2, 1, 0, 1, 1, 2, 2, 2, 3, 0].map Choice.run) with
    | .ok s => s.done && s.workers == [.exited, .exited, .exited] && s.jobs.size == 1
    | .error _ => false) = true := by decide

/-- The pool remains usable for further batches.  Whenever every job spawned so far has
been joined (and the pool has not been dropped), the shared state IS the initial state up
to the monotone counters: both queues are fresh queues except for `start`, nothing is in
progress, the input's strong count is 1, no flag is set, and every worker is at the top of
its loop (`atLockA`), parked (`waiting`) or about to re-check (`woken`).  `cur_work_id`,
the `start` counters and the history are the only other differences from `init`; none of
the theorems above depends on them (they are stated for every reachable state of
multi-batch programs). -/
theorem reusable {n : Nat} {p : List Op} (hc : contract p = true) {s : State}
    (hr : Reachable n p s) (hall : ∀ id, id < s.curWorkId → id ∈ joinedIds s.hist)
    (hnd : s.immediateShutdown = false) :
    s.jobs = { (new : FixedQueue Job) with start := s.jobs.start } ∧
    s.results = { (new : FixedQueue Reply) with start := s.results.start } ∧
    s.numInProgress = 0 ∧ s.arc = 1 ∧ s.shutdown = false ∧
    ∀ w, w ∈ s.workers → w = .atLockA ∨ w = .waiting ∨ w = .woken := by
  have I := inv_reachable hc hr
  have L := invL_reachable hc hr
  obtain ⟨hj, hres, hnip, hb⟩ := idle_of_all_joined I hall
  refine ⟨empty_queue_eq_new I.wfJ hj, empty_queue_eq_new I.wfR hres, hnip,
    arc_one_after_all_joined hc hr hall, I.noShutdown, ?_⟩
  intro w hw
  have h1 := L.noExit hnd w hw
  have h2 := hb w hw
  cases w <;> simp [busy] at h1 h2 ⊢

/-- non-vacuity: two batches on one pool; between them the hypotheses of `reusable` hold -/
example : (match runSched (init 2 [.spawn 1, .spawn 2, .join 0, .join 1, .spawn 3, .join 2])
      ([0, 0, 1, 2, 1, 2, 1, 2, 0, 0].map Choice.run) with
    | .ok s => s.curWorkId == 2 && (joinedIds s.hist == [1, 0]) && !s.immediateShutdown
        && s.prog == [.spawn 3, .join 2]
    | .error _ => false) = true := by decide

end BV.Props.C07
