/-
C10 — Custom (prefix) dictionary compression round-trips with the same dictionary.

What is proved (Lean kernel, models `BV.Dict` / `BV.Recoder`):

* `enc_book_used` / `enc_book_ignored`: the encoder's book-keeping after `set_custom_dictionary`
  in closed form, for EVERY parameter struct (raw `lgwin`, `quality` ∈ ℤ are sanitised first),
  every dictionary length and content.
* `dec_max_distance_closed`: the decoder's sticky `max_distance` state machine equals
  `min (P + d') (2^wbits − 16)` along every run.
* `dict_positions_agree`: whenever the dictionary is used (non-empty, sanitised quality ≥ 2 — this
  includes lengths 1 and 2, lengths beyond the window and every out-of-range `lgwin`), encoder
  and decoder agree on the number of history bytes, on `max_distance` at every position, on the
  two literal-context bytes and (`dict_tail_in_ring`) on every history byte.
* `dict_ignored_harmless`: when the dictionary is ignored (quality 0/1 or empty) the stream is
  switched to self-contained mode and every LZ77 distance that is valid for the encoder is valid for
  a decoder that was nevertheless given the dictionary and refers to already produced output.
* `C10_roundtrip_partial`: composition with an explicit payload hypothesis.

* `decoder_shrunk_ring_clobbers_dict` / `dict_tail_readable`: the decoder's copy path (ring shrink for a single last
  meta-block + speculative 16-byte copies) is modelled (`BV.Dict.decCopy`, tied to the real decoder's output by
  `dict decrun`); the known finding is a counterexample theorem with its concrete witness, and under the exact
  conditions `CopySafe` / `SrcSafe` the copy path equals the byte-by-byte RFC reference decoder and the dictionary tail
  stays readable — so nothing about the decoder's treatment of the tail is left as an unstated assumption.

NOT proved (stated as hypotheses / exercised by engine `dict` on the real code): that the payload
encoder's commands replay to the input under the ENCODER's own view (`PayloadOK`), that quality 0/1
emit no static-dictionary reference; the decoder model itself (`BV.Dict.Dec`, read from
brotli-decompressor 4.0.3) is hand-written: its allocation/max_distance part is tied by the differential decode,
its copy path by the `dict decrun` correspondence.
-/
import BV.Lemmas.DictDec
import BV.Lemmas.DictEnc
import BV.Lemmas.DictCopy3
import BV.Model.Recoder

namespace BV.Props.C10
open BV.Dict BV.Header

/-- the decoder that reads the stream made from `p0` and is handed the same dictionary:
window bits = what the header declares -/
def decoderFor (p0 : Params) (size : Nat) (dict : Nat → Nat) : Dec :=
  ⟨(headerLgwin (ensureInitialized true p0).params).toNat, size, dict⟩

theorem header_wbits_used (p0 : Params) (hq : 2 ≤ encQ p0) :
    (headerLgwin (ensureInitialized true p0).params).toNat = encL p0 := by
  unfold headerLgwin encL
  unfold encQ at hq
  simp only [lit, litsInit, BV.Gen.lits_ensure_initialized, List.getD_cons_zero, List.getD_cons_succ]
  rw [if_neg (by omega)]

theorem header_wbits_ge (p0 : Params) :
    encL p0 ≤ (headerLgwin (ensureInitialized true p0).params).toNat := by
  unfold headerLgwin encL
  simp only [lit, litsInit, BV.Gen.lits_ensure_initialized, List.getD_cons_zero, List.getD_cons_succ]
  split <;> omega

/-- **encoder book-keeping, dictionary used** (restated from `BV.Dict.setCustomDictionary_used`) -/
theorem enc_book_used (p0 : Params) (size : Nat) (dict : Nat → Nat) (hsz : 0 < size) (hq : 2 ≤ encQ p0) :
    ∃ s, setCustomDictionary p0 size dict size = some s ∧
      s.params = (ensureInitialized true p0).params ∧ s.customDictionary = true ∧
      s.inputPos = encDEff (encL p0) size ∧ s.lastFlushPos = encDEff (encL p0) size ∧
      s.lastProcessedPos = encDEff (encL p0) size ∧ s.recoderPos = encDEff (encL p0) size ∧
      s.ring.pos = encDEff (encL p0) size ∧
      s.prevByte = dict (size - 1) ∧
      s.prevByte2 = (if 2 ≤ encDEff (encL p0) size then dict (size - 2) else 0) ∧
      ∀ i, i < encDEff (encL p0) size → s.ring.at i = dict (size - encDEff (encL p0) size + i) :=
  setCustomDictionary_used p0 size dict hsz hq

/-- **encoder book-keeping, dictionary ignored** (empty dictionary, or sanitised quality 0/1): nothing is
copied, all positions stay 0, and the stream is switched to self-contained mode
(`catable = appendable = true`) -/
theorem enc_book_ignored (p0 : Params) (size : Nat) (dict : Nat → Nat) (dlen : Nat)
    (h : size = 0 ∨ encQ p0 = 0 ∨ encQ p0 = 1) :
    ∃ s, setCustomDictionary p0 size dict dlen = some s ∧
      s.params = { (ensureInitialized true p0).params with catable := true, appendable := true } ∧
      s.customDictionary = false ∧ s.inputPos = 0 ∧ s.lastFlushPos = 0 ∧ s.lastProcessedPos = 0 ∧
      s.recoderPos = 0 ∧ s.prevByte = 0 ∧ s.prevByte2 = 0 ∧ s.ring.pos = 0 ∧ s.ring.dataLen = 0 := by
  obtain ⟨s0, hinit, hpar, hF, hip, hpb, hpb2⟩ := encInit_fresh p0
  have hL := encL_range p0
  unfold setCustomDictionary
  rw [hinit]
  have hlw : ¬ (s0.params.lgwin < 0 ∨ s0.params.lgwin ≥ 64) := by
    rw [hpar]; unfold encL at hL; omega
  simp only [hlw, if_false]
  have hqq : size = 0 ∨ s0.params.quality = 0 ∨ s0.params.quality = 1 := by
    rw [hpar]; exact h
  simp only [hqq, if_true]
  obtain ⟨z1, z2, z3, z4⟩ := encInit_zero p0 s0 hinit
  exact ⟨_, rfl, by rw [hpar], z3, hip, z1, z2, z4, hpb, hpb2, hF.pos, hF.dlen⟩

/-- **the decoder's `max_distance`** after any non-decreasing run of positions ending at `P` -/
theorem dec_max_distance_closed (D : Dec) (hw : 5 ≤ D.wbits) (ps : List Nat) (P : Nat)
    (hs : (ps ++ [P]).Pairwise (· ≤ ·)) :
    D.runMax 0 (ps ++ [P]) = min (P + D.dEff) D.mbd :=
  D.runMax_closed hw ps P hs

/-- **`dict_positions_agree`** — for every parameter struct, every non-empty dictionary and every sanitised
quality ≥ 2 (so also dictionary lengths 1 and 2, lengths beyond the window, raw `lgwin` outside 10..24):
the encoder's state after `set_custom_dictionary` and the decoder that is given the same dictionary
and reads the header's window bits agree on
(1) the number of history bytes: the encoder's starting position is the decoder's `custom_dict_size`;
(2) `max_distance` at EVERY later stream position `P` (encoder: `min(position, 2^lgwin−16)` with
    position = start + P; decoder: its sticky state machine along any run of positions);
(3) the two literal-context bytes at the first input byte. -/
theorem dict_positions_agree (p0 : Params) (size : Nat) (dict : Nat → Nat) (hsz : 0 < size) (hq : 2 ≤ encQ p0) :
    ∃ s, setCustomDictionary p0 size dict size = some s ∧
      s.lastFlushPos = (decoderFor p0 size dict).dEff ∧ s.lastProcessedPos = (decoderFor p0 size dict).dEff ∧
      s.inputPos = (decoderFor p0 size dict).dEff ∧ s.recoderPos = (decoderFor p0 size dict).dEff ∧
      (∀ (ps : List Nat) (P : Nat), (ps ++ [P]).Pairwise (· ≤ ·) →
        encMaxDistance (encL p0) (s.lastProcessedPos + P) = (decoderFor p0 size dict).runMax 0 (ps ++ [P])) ∧
      (∀ rbits, (decoderFor p0 size dict).dEff ≤ 2 ^ rbits → 2 ≤ 2 ^ rbits →
        s.prevByte = (decoderFor p0 size dict).ctx1 rbits ∧ s.prevByte2 = (decoderFor p0 size dict).ctx2 rbits) := by
  obtain ⟨s, hs, _, _, h1, h2, h3, h4, _, h6, h7, _⟩ := setCustomDictionary_used p0 size dict hsz hq
  have hw := header_wbits_used p0 hq
  have hL := encL_range p0
  have hde : (decoderFor p0 size dict).dEff = encDEff (encL p0) size := by
    unfold Dec.dEff decoderFor encDEff; simp only [hw]
  have hmbd : (decoderFor p0 size dict).mbd = 2 ^ encL p0 - 16 := by
    unfold Dec.mbd decoderFor; simp only [hw]
  refine ⟨s, hs, by rw [h2, hde], by rw [h3, hde], by rw [h1, hde], by rw [h4, hde], ?_, ?_⟩
  · intro ps P hsorted
    rw [(decoderFor p0 size dict).runMax_closed (by unfold decoderFor; simp only [hw]; omega) ps P hsorted, h3, hde, hmbd]
    unfold encMaxDistance
    omega
  · intro rbits hR h2R
    have hpow : 2 ^ 10 ≤ 2 ^ encL p0 := Nat.pow_le_pow_right (by decide) hL.1
    have hde1 : 1 ≤ encDEff (encL p0) size := by unfold encDEff; omega
    constructor
    · rw [h6]
      unfold Dec.ctx1
      rw [Dec.before_eq _ rbits 1 (by omega) (by rw [hde]; exact hde1) hR]
      rfl
    · rw [h7]
      unfold Dec.ctx2
      by_cases h2 : 2 ≤ encDEff (encL p0) size
      · rw [if_pos h2, Dec.before_eq _ rbits 2 (by omega) (by rw [hde]; exact h2) hR]
        rfl
      · rw [if_neg h2, Dec.before_zero _ rbits 2 (by rw [hde]; omega) h2R]

/-- **`dict_tail_in_ring`** — the usable tail is what both sides find below the first input byte: the byte the
encoder's ring buffer holds at stream position `d' − k` is the byte the decoder finds `k` positions before
its position 0, for every `1 ≤ k ≤ d'`; both are `dict[size − k]`. -/
theorem dict_tail_in_ring (p0 : Params) (size : Nat) (dict : Nat → Nat) (hsz : 0 < size) (hq : 2 ≤ encQ p0) :
    ∃ s, setCustomDictionary p0 size dict size = some s ∧
      ∀ rbits k, (decoderFor p0 size dict).dEff ≤ 2 ^ rbits → 1 ≤ k → k ≤ (decoderFor p0 size dict).dEff →
        s.ring.at (s.lastProcessedPos - k) = (decoderFor p0 size dict).before rbits k ∧
        s.ring.at (s.lastProcessedPos - k) = dict (size - k) := by
  obtain ⟨s, hs, _, _, _, _, h3, _, _, _, _, h8⟩ := setCustomDictionary_used p0 size dict hsz hq
  have hw := header_wbits_used p0 hq
  have hde : (decoderFor p0 size dict).dEff = encDEff (encL p0) size := by
    unfold Dec.dEff decoderFor encDEff; simp only [hw]
  refine ⟨s, hs, ?_⟩
  intro rbits k hR hk1 hk
  have hle : encDEff (encL p0) size ≤ size := by unfold encDEff; omega
  have e : s.ring.at (s.lastProcessedPos - k) = dict (size - k) := by
    rw [h3, h8 _ (by rw [hde] at hk; omega)]
    congr 1
    rw [hde] at hk
    omega
  exact ⟨by rw [e, Dec.before_eq _ rbits k hk1 hk hR]; rfl, e⟩

/-- **dictionary ignored ⇒ the decoder's extra prefix is harmless for LZ77 copies**: with sanitised quality
0/1 (or an empty dictionary) the encoder's positions start at 0 whatever dictionary the decoder holds;
every distance `dist` the encoder may use at stream position `P` (`≤ min(P, 2^lgwin−16)`) is
(a) `≤ P`: it refers to output already produced, identical on both sides, and
(b) `≤` the decoder's `max_distance` at `P` (window bits from the header, `≥ lgwin`; any dictionary
    length `d`): the decoder also takes it for an LZ77 copy.
What remains is that no static-dictionary reference is emitted — true of `compress_fragment_fast` /
`compress_fragment_two_pass` (quality 0/1), which have no dictionary code path; hypothesis of
`C10_roundtrip_partial`, exercised by engine `dict`. -/
theorem dict_ignored_harmless (p0 : Params) (d : Nat) (dict : Nat → Nat) (P dist : Nat)
    (hd : dist ≤ encMaxDistance (encL p0) P) :
    dist ≤ P ∧ dist ≤ (decoderFor p0 d dict).closed P := by
  have hge := header_wbits_ge p0
  unfold encMaxDistance at hd
  unfold Dec.closed Dec.mbd Dec.dEff decoderFor
  simp only
  have hpow : 2 ^ encL p0 ≤ 2 ^ (headerLgwin (ensureInitialized true p0).params).toNat :=
    Nat.pow_le_pow_right (by decide) hge
  omega

/-! ### composition with the payload -/

open BV.Recoder in
/-- the encoder's history as a byte list: ring content at stream positions `[0, start)` -/
def encHistory (s : Enc) : BV.Recoder.Bytes := (List.range s.lastProcessedPos).map s.ring.at

open BV.Recoder in
/-- the decoder's history: the `d'` bytes below its position 0, oldest first -/
def decHistory (D : Dec) (rbits : Nat) : BV.Recoder.Bytes :=
  (List.range D.dEff).map fun i => D.before rbits (D.dEff - i)

theorem histories_agree (p0 : Params) (size : Nat) (dict : Nat → Nat) (hsz : 0 < size) (hq : 2 ≤ encQ p0)
    (rbits : Nat) (hR : (decoderFor p0 size dict).dEff ≤ 2 ^ rbits) :
    ∃ s, setCustomDictionary p0 size dict size = some s ∧
      encHistory s = decHistory (decoderFor p0 size dict) rbits := by
  obtain ⟨s, hs, _, _, _, _, h3, _, _, _, _, h8⟩ := setCustomDictionary_used p0 size dict hsz hq
  have hw := header_wbits_used p0 hq
  have hde : (decoderFor p0 size dict).dEff = encDEff (encL p0) size := by
    unfold Dec.dEff decoderFor encDEff; simp only [hw]
  refine ⟨s, hs, ?_⟩
  unfold encHistory decHistory
  rw [h3, hde]
  apply List.map_congr_left
  intro i hi
  have hi' : i < encDEff (encL p0) size := List.mem_range.mp hi
  have hle : encDEff (encL p0) size ≤ size := by unfold encDEff; omega
  rw [h8 i hi', Dec.before_eq _ rbits _ (by omega) (by rw [hde]; omega) hR]
  show dict (size - encDEff (encL p0) size + i) = dict (size - (encDEff (encL p0) size - i))
  congr 1
  omega

open BV.Recoder in
/-- **`C10_roundtrip_partial`** — composition.  PAYLOAD HYPOTHESIS (not proved, the payload encoder is not
modelled): the raw command array of a meta-block, read with RFC 7932 semantics (`replayCommands`) against
the ENCODER's own view — history = its ring buffer content below the first input byte, window
`2^lgwin − 16` — reproduces the meta-block input `mb`.  CONCLUSION: the decoder that was given the same
dictionary (history = the tail it loaded below position 0, window from the header bits) reproduces `mb` too.
The step from one view to the other is exactly `dict_positions_agree` + `dict_tail_in_ring`. -/
theorem C10_roundtrip_partial (p0 : Params) (size : Nat) (dict : Nat → Nat) (hsz : 0 < size) (hq : 2 ≤ encQ p0)
    (rbits : Nat) (hR : (decoderFor p0 size dict).dEff ≤ 2 ^ rbits)
    (w : WordOracle) (np nd : Nat) (mb : Bytes) (ring : List Int) (cmds : List Cmd) :
    ∃ s, setCustomDictionary p0 size dict size = some s ∧
      (replayCommands w np nd (2 ^ encL p0 - 16) mb ring (encHistory s) cmds = some (encHistory s ++ mb) →
       replayCommands w np nd (decoderFor p0 size dict).mbd mb ring (decHistory (decoderFor p0 size dict) rbits) cmds
         = some (decHistory (decoderFor p0 size dict) rbits ++ mb)) := by
  obtain ⟨s, hs, hh⟩ := histories_agree p0 size dict hsz hq rbits hR
  have hw := header_wbits_used p0 hq
  have hmbd : (decoderFor p0 size dict).mbd = 2 ^ encL p0 - 16 := by
    unfold Dec.mbd decoderFor; simp only [hw]
  exact ⟨s, hs, by rw [hmbd, ← hh]; exact id⟩

/-! ### the decoder's copy path: the known finding, and the exact condition that excludes it -/

/-- the 61-byte input of `/verif/proposed/decoder-shrunk-ring-clobbers-dict.md` -/
def witnessInput : List Nat :=
  [0xe5,0xe5,0xe5,0xe5,0xe5,0xe5,0xe5,0x68,0x72,0x6f,0x75,0x67,0x68,0x20,0x64,0x69,0xe5,0x73,0x73,0x61,0x72,0x79,0x2e,0x20,
   0x41,0x6c,0x74,0x68,0x6f,0x75,0x67,0x68,0x20,0x70,0x65,0x72,0x66,0x6f,0x72,0x6d,0xe5,0xe5,0xff,0x54,0x67,0x0e,0xb4,0xa1,
   0xe5,0xe5,0xe5,0xe5,0x08,0x50,0xae,0xad,0xaa,0x24,0x61,0xe5,0xe5]

/-- the decoder given the 1-byte dictionary `e5`, window bits 10 -/
def witnessDec : Dec := ⟨10, 1, fun _ => 0xe5⟩

/-- a VALID command sequence for that input: 48 literals, a copy of 4 bytes at distance 49 (it starts at the
dictionary byte and runs on into the start of the output), 9 literals -/
def witnessCmds : List DecCmd :=
  [.bytes (witnessInput.take 48), .copy 49 4, .bytes (witnessInput.drop 52)]

/-- **`decoder_shrunk_ring_clobbers_dict`** (counterexample, proved on the model of brotli-decompressor's copy path):
for the 1-byte dictionary `e5` and a single last meta-block of 61 bytes the decoder shrinks its ring to 64 bytes
(dictionary at index 63); the command sequence is valid — the byte-by-byte reference decoder, and the same copy path
in an UNshrunk ring, give the input — but the speculative `memmove16` of the copy at position 48 overwrites ring[63],
its own source, and the decoder returns `00` at byte 48: wrong bytes of the right length, exactly what the real
decoder returns.  The copy violates both safety conditions. -/
theorem decoder_shrunk_ring_clobbers_dict :
    witnessDec.ringSize true 61 = 64 ∧
    (List.range 61).map (refRun 64 witnessCmds (witnessDec.ringAt 64) 0).1 = witnessInput ∧
    (decRun 1024 witnessCmds (witnessDec.ringAt 1024) 0).map (fun r => (List.range r.2).map r.1) = some witnessInput ∧
    decOutput witnessDec 61 witnessCmds = some (witnessInput.take 48 ++ [0, 0xe5, 0xe5, 0xe5] ++ witnessInput.drop 52) ∧
    decOutput witnessDec 61 witnessCmds ≠ some witnessInput ∧
    ¬ CopySafe witnessDec 64 48 4 ∧ ¬ SrcSafe witnessDec 64 48 49 := by
  refine ⟨by decide, by decide, by decide, by decide, by decide, ?_, ?_⟩
  · unfold CopySafe; decide
  · unfold SrcSafe; decide

/-- **`dict_tail_readable`** — the exact condition that excludes the finding.  Let the decoder (any window bits, any
dictionary, ring of size `R ≥ 16` holding the tail, `R = ringbuffer_size` shrunk or not) execute the commands of its
first meta-block from the freshly allocated ring.  If every copy satisfies
`CopySafe` (`R = 2^wbits`, i.e. the ring was not shrunk, or every byte the copy may write — speculative overshoot of up
to 15 bytes included — ends below the dictionary: `writeEnd pos len ≤ R − d'`) and
`SrcSafe` (`distance ≤ R − 16`, or its first 16-byte block ends below the dictionary),
then the decoder's copy path produces exactly the output of the byte-by-byte RFC reference decoder, and every
dictionary byte that is still within `max_distance` at the end is intact.  (In an unshrunk ring both conditions
hold for every legal copy: `distance ≤ max_backward_distance = R − 16`.) -/
theorem dict_tail_readable (D : Dec) (R : Nat) (hR : 16 ≤ R) (hde : D.dEff ≤ R) (cmds : List DecCmd)
    (ring' : Nat → Nat) (pos' : Nat) (hsafe : CmdsSafe D R cmds 0)
    (h : decRun R cmds (D.ringAt R) 0 = some (ring', pos')) :
    pos' = (refRun R cmds (D.ringAt R) 0).2 ∧
    (∀ j, j < pos' → ring' j = (refRun R cmds (D.ringAt R) 0).1 j) ∧
    DictLive D R ring' pos' := by
  obtain ⟨h1, h2⟩ := decRun_eq_refRun D R hR hde cmds _ _ 0 ring' pos' hsafe ⟨fun _ _ => rfl, fun _ _ _ _ => rfl⟩ h
  refine ⟨h1, h2.1, ?_⟩
  -- the reference run never touches the dictionary region it can still reach; combine with agreement
  intro k hk1 hk hr
  rw [h2.2 k hk1 hk hr]
  exact refRun_dict D R hde cmds (D.ringAt R) 0 hsafe (dictLive_alloc D R hde) k hk1 hk (by rw [← h1]; exact hr)

/-- in an unshrunk ring every legal copy (`1 ≤ distance ≤ max_distance ≤ 2^wbits − 16`) is safe -/
theorem full_ring_copies_safe (D : Dec) (pos dist len : Nat) (hd : dist ≤ D.mbd) :
    CopySafe D (2 ^ D.wbits) pos len ∧ SrcSafe D (2 ^ D.wbits) pos dist :=
  ⟨Or.inl rfl, Or.inl (by unfold Dec.mbd at hd; exact hd)⟩

/-! ### non-vacuity -/

/-- a 1-byte dictionary at quality 9, lgwin 22: used, position 1, context bytes (dict[0], 0) -/
example : (setCustomDictionary (⟨9, 22, 0, false, false, false, true, false, 0⟩ : Params) 1 (dictGen 7) 1).map
    (fun s => (s.lastFlushPos, s.prevByte, s.prevByte2, s.recoderPos, s.ring.at 0)) = some (1, 7, 0, 1, 7) := by
  decide

/-- a dictionary longer than the window (lgwin 10): only the last 1008 bytes count -/
example : (setCustomDictionary (⟨5, 10, 0, false, false, false, true, false, 0⟩ : Params) 3000 (dictGen 1) 3000).map
    (fun s => (s.lastFlushPos, s.prevByte, s.ring.at 0)) = some (1008, dictGen 1 2999, dictGen 1 1992) := by
  decide

/-- raw lgwin 5 is sanitised to 10 BEFORE the truncation length is computed -/
example : (setCustomDictionary (⟨5, 5, 0, false, false, false, true, false, 0⟩ : Params) 600 (dictGen 0) 600).map
    (fun s => s.lastFlushPos) = some 600 := by
  decide

/-- the hypotheses of `dict_positions_agree` hold for it -/
example : 0 < 1 ∧ 2 ≤ encQ (⟨9, 22, 0, false, false, false, true, false, 0⟩ : Params) := by decide

/-- quality 1 ignores the dictionary and switches to self-contained mode -/
example : (setCustomDictionary (⟨1, 16, 0, false, false, false, true, false, 0⟩ : Params) 50 (dictGen 0) 50).map
    (fun s => (s.lastFlushPos, s.params.catable, s.params.appendable)) = some (0, true, true) := by
  decide

/-- the decoder's state machine on a concrete run (wbits 10, 5-byte dictionary) -/
example : (⟨10, 5, dictGen 0⟩ : Dec).runMax 0 [0, 3, 3, 900, 1003, 1004, 2000] = 1008 := by decide
example : (⟨10, 5, dictGen 0⟩ : Dec).runMax 0 [0, 3, 3, 900] = 905 := by decide

end BV.Props.C10
