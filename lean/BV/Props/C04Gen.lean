/-
C04 (and C15/C08, which share the header model), translator tie: the operation lists GENERATED from
the current Rust text of `BrotliStoreSyncMetaBlock` and `BrotliWriteEmptyLastMetaBlock`
(tools/rs2lean.py -> BV/Gen/FnC04.lean), run on any bit writer, do exactly what the hand-written
header model does.
-/
import BV.Gen.FnC04
import BV.Lemmas.RsWriter

namespace BV.Props.C04Gen
open BV.Gen.FnC04 BV.Rs BV.Header BV.Bits BV.Bits.Out

theorem store_sync_meta_block_generated (w : Writer) :
    runOps BrotliStoreSyncMetaBlock w = storeSyncMetaBlock w := by
  unfold BrotliStoreSyncMetaBlock storeSyncMetaBlock
  simp only [List.nil_append, List.cons_append, runOps_bits, runOps_align, runOps_nil,
    BV.Gen.lits_StoreSyncMetaBlock, lit, List.getD_cons_zero, List.getD_cons_succ]
  rfl

theorem write_empty_last_meta_block_generated (w : Writer) :
    runOps BrotliWriteEmptyLastMetaBlock w = writeEmptyLastMetaBlock w := by
  unfold BrotliWriteEmptyLastMetaBlock writeEmptyLastMetaBlock
  simp only [List.nil_append, List.cons_append, runOps_bits, runOps_align, runOps_nil,
    BV.Gen.lits_WriteEmptyLastMetaBlock, lit, List.getD_cons_zero, List.getD_cons_succ]
  rfl

example : BrotliStoreSyncMetaBlock = [WOp.bits 6 6, WOp.align] := by decide

end BV.Props.C04Gen
