/-
C18, translator tie: the Lean definitions GENERATED from the current Rust text of the length/
distance code arithmetic (tools/rs2lean.py -> BV/Gen/FnC18.lean) equal the hand-written model
`BV.PrefixArith` — over which C18's exactness theorems are stated — on every `usize` argument the
Rust functions are defined for.
-/
import BV.Gen.FnC18
import BV.Model.PrefixArith
import BV.Lemmas.PrefixArith
import BV.Lemmas.RsPrelude

namespace BV.Props.C18Gen
open BV.Gen.FnC18 BV.PrefixArith BV.Lemmas.PrefixArith BV.Rs

theorem xor63 : ∀ k : Fin 64, 63 ^^^ (64 - 1 - k.val) = k.val := by decide

/-- `63 ^ v.leading_zeros()` is the floor of the binary logarithm, for every non-zero `u64` -/
theorem log2_floor_non_zero_generated (v : Nat) (h0 : v ≠ 0) (h : v < 2 ^ 64) :
    Log2FloorNonZero v = Nat.log2 v := by
  unfold Log2FloorNonZero BV.Rs.clz
  have hl : Nat.log2 v < 64 := (Nat.log2_lt h0).2 h
  simp only [h0, if_false]
  exact xor63 ⟨Nat.log2 v, hl⟩

theorem ins_small : ∀ k : Fin 130, GetInsertLengthCode k.val = getInsertLengthCode k.val := by
  decide +kernel

theorem copy_small : ∀ k : Fin 134, 2 ≤ k.val → GetCopyLengthCode k.val = getCopyLengthCode k.val := by
  decide +kernel

/-- `GetInsertLengthCode`, every `usize` -/
theorem get_insert_length_code_generated (n : Nat) (h : n < 2 ^ 64) :
    GetInsertLengthCode n = getInsertLengthCode n := by
  by_cases h130 : n < 130
  · exact ins_small ⟨n, h130⟩
  · have h64 : (2 : Nat) ^ 64 = 18446744073709551616 := by decide
    rw [h64] at h
    unfold GetInsertLengthCode getInsertLengthCode log2Floor
    have e : (n + 18446744073709551616 - 66) % 18446744073709551616 = n - 66 := by omega
    have hz : n - 66 ≠ 0 := by omega
    have hlt : n - 66 < 2 ^ 64 := by omega
    have hl : Nat.log2 (n - 66) < 64 := (Nat.log2_lt hz).2 hlt
    simp only [e, log2_floor_non_zero_generated (n - 66) hz hlt, decide_eq_true_eq]
    repeat' split
    all_goals omega

/-- `GetCopyLengthCode`, every `usize` from 2 (the format has no shorter copy) -/
theorem get_copy_length_code_generated (n : Nat) (h2 : 2 ≤ n) (h : n < 2 ^ 64) :
    GetCopyLengthCode n = getCopyLengthCode n := by
  by_cases h134 : n < 134
  · exact copy_small ⟨n, h134⟩ h2
  · have h64 : (2 : Nat) ^ 64 = 18446744073709551616 := by decide
    rw [h64] at h
    unfold GetCopyLengthCode getCopyLengthCode log2Floor
    have e : (n + 18446744073709551616 - 70) % 18446744073709551616 = n - 70 := by omega
    have hz : n - 70 ≠ 0 := by omega
    have hlt : n - 70 < 2 ^ 64 := by omega
    have hl : Nat.log2 (n - 70) < 64 := (Nat.log2_lt hz).2 hlt
    simp only [e, log2_floor_non_zero_generated (n - 70) hz hlt, decide_eq_true_eq]
    repeat' split
    all_goals omega

/-- `combine_length_codes`, the whole domain (24 insert codes x 24 copy codes x the flag) -/
theorem combine_length_codes_generated :
    ∀ (i c : Fin 24) (u : Bool), combine_length_codes i.val c.val u = combineLengthCodes i.val c.val u := by
  decide +kernel

theorem two_pow_small (p : Nat) (hp : p ≤ 3) : (2:Nat) ^ p ≤ 8 := by
  have : p = 0 ∨ p = 1 ∨ p = 2 ∨ p = 3 := by omega
  rcases this with rfl | rfl | rfl | rfl <;> decide

theorem pecd_long (dc nd p a b : Nat) (hp : p ≤ 3) (hnd : nd ≤ 120) (hdc : dc < 2 ^ 62) (hge : 16 + nd ≤ dc) :
    PrefixEncodeCopyDistance dc nd p a b =
      ((prefixEncodeCopyDistance dc nd p).packed, (prefixEncodeCopyDistance dc nd p).extra32) := by
  have h62 : (2:Nat) ^ 62 = 4611686018427387904 := by decide
  rw [h62] at hdc
  obtain ⟨d, hd⟩ : ∃ d, dc = 16 + nd + d := ⟨dc - 16 - nd, by omega⟩
  obtain ⟨nb, q, r, hnb, hq, hr, hL, hquot, hrem, hsum⟩ := dist_long_decomp p d
  have hP8 := two_pow_small p hp
  have hPpos : 0 < 2 ^ p := Nat.pow_pos (by decide)
  have hp2 : (2:Nat) ^ (p + 2) = 4 * 2 ^ p := by rw [Nat.pow_add]; omega
  -- the value of `dist`
  have hdist : (1 <<< ((p + 2) % 18446744073709551616 % 64) % 18446744073709551616 +
      ((dc + 18446744073709551616 - 16) % 18446744073709551616 + 18446744073709551616 - nd) % 18446744073709551616) %
      18446744073709551616 = 2 ^ (p + 2) + d := by
    rw [Nat.shiftLeft_eq, Nat.one_mul]
    have e : (p + 2) % 18446744073709551616 % 64 = p + 2 := by omega
    rw [e, hp2]
    omega
  have hD0 : 2 ^ (p + 2) + d ≠ 0 := by omega
  have hDlt : 2 ^ (p + 2) + d < 2 ^ 64 := by
    have : (2:Nat)^64 = 18446744073709551616 := by decide
    omega
  have hlog := log2_floor_non_zero_generated _ hD0 hDlt
  have hl64 : Nat.log2 (2 ^ (p + 2) + d) < 64 := (Nat.log2_lt hD0).2 hDlt
  unfold log2Floor at hL
  have hbucket : (Nat.log2 (2 ^ (p + 2) + d) + 4294967296 - 1) % 4294967296 = p + nb := by omega
  unfold PrefixEncodeCopyDistance
  simp only [hdist, hlog, hbucket]
  have hpnb : p + nb ≤ 62 := by omega
  have hpnb64 : (p + nb) % 64 = p + nb := by omega
  have hnbE : (p + nb + 18446744073709551616 - p) % 18446744073709551616 = nb := by omega
  have hshr : (2 ^ (p + 2) + d) >>> (p + nb) = q := by rw [Nat.shiftRight_eq_div_pow, hquot]
  have hq1 : q &&& 1 = q % 2 := Nat.and_one_is_mod q
  have hmask : (1 <<< (p % 32) % 4294967296 + 4294967296 - 1) % 4294967296 = 2 ^ p - 1 := by
    rw [Nat.shiftLeft_eq, Nat.one_mul, Nat.mod_eq_of_lt (a := p) (by omega)]
    omega
  have hand : (2 ^ (p + 2) + d) &&& (2 ^ p - 1) = (2 ^ (p + 2) + d) % 2 ^ p := Nat.and_two_pow_sub_one_eq_mod _ _
  have hq2 : 2 + q % 2 = q := by rcases hq with rfl | rfl <;> rfl
  have hYpos : 0 < 2 ^ (p + nb) := Nat.pow_pos (by decide)
  have hDq : q * 2 ^ (p + nb) ≤ 2 ^ (p + 2) + d := by
    have := Nat.div_mul_le_self (2 ^ (p + 2) + d) (2 ^ (p + nb))
    rw [hquot] at this; exact this
  have h64 : (2:Nat)^64 = 18446744073709551616 := by decide
  rw [h64] at hDlt
  have hoff : ((2 + q % 2) % 18446744073709551616) <<< (p + nb) % 18446744073709551616 = q * 2 ^ (p + nb) := by
    rw [hq2, Nat.shiftLeft_eq, Nat.mod_eq_of_lt (a := q) (by rcases hq with rfl | rfl <;> decide)]
    exact Nat.mod_eq_of_lt (by omega)
  simp only [hpnb64, hnbE, hshr, hq1, hmask, hand, hoff]
  have hnlt : ¬ dc < 16 + nd := by omega
  have hnlt' : ¬ dc < (16 + nd) % 18446744073709551616 := by omega
  have hd' : dc - 16 - nd = d := by omega
  have hpre2 : q % 2 < 2 := Nat.mod_lt _ (by decide)
  have hm : (2 ^ (p + 2) + d) % 2 ^ p < 2 ^ p := Nat.mod_lt _ hPpos
  have hp64 : p % 64 = p := by omega
  have hsub : (2 ^ (p + 2) + d + 18446744073709551616 - q * 2 ^ (p + nb)) % 18446744073709551616
      = 2 ^ (p + 2) + d - q * 2 ^ (p + nb) := by omega
  have hnb64 : nb ≤ 62 := by omega
  have hinner : ((2 * ((nb + 18446744073709551616 - 1) % 18446744073709551616) % 18446744073709551616 + q % 2) %
        18446744073709551616) <<< p % 18446744073709551616 = (2 * (nb - 1) + q % 2) * 2 ^ p := by
    rw [Nat.shiftLeft_eq]
    have e1 : (nb + 18446744073709551616 - 1) % 18446744073709551616 = nb - 1 := by omega
    rw [e1]
    have e2 : (2 * (nb - 1) % 18446744073709551616 + q % 2) % 18446744073709551616 = 2 * (nb - 1) + q % 2 := by omega
    rw [e2]
    apply Nat.mod_eq_of_lt
    have : (2 * (nb - 1) + q % 2) * 2 ^ p ≤ (2 * (nb - 1) + q % 2) * 8 := Nat.mul_le_mul_left _ hP8
    omega
  have hinner_le : (2 * (nb - 1) + q % 2) * 2 ^ p ≤ 1000 := by
    have : (2 * (nb - 1) + q % 2) * 2 ^ p ≤ (2 * (nb - 1) + q % 2) * 8 := Nat.mul_le_mul_left _ hP8
    omega
  simp only [hnlt', decide_false, hp64, hsub, hinner, Bool.false_eq_true, if_false,
    prefixEncodeCopyDistance, short_codes_is_16, hnlt, hd', log2Floor, hL, hquot, DistCode.packed, DistCode.extra32]
  have e3 : p + nb - p = nb := by omega
  have e4 : nb <<< (10 % 64) % 18446744073709551616 = nb * 1024 := by
    rw [Nat.shiftLeft_eq]
    have e10 : (2:Nat) ^ (10 % 64) = 1024 := by decide
    rw [e10]; omega
  have e5 : (((16 + nd) % 18446744073709551616 + (2 * (nb - 1) + q % 2) * 2 ^ p) % 18446744073709551616 +
      (2 ^ (p + 2) + d) % 2 ^ p) % 18446744073709551616
      = 16 + nd + (2 * (nb - 1) + q % 2) * 2 ^ p + (2 ^ (p + 2) + d) % 2 ^ p := by omega
  rw [e3, e4, e5, hq2, Nat.shiftRight_eq_div_pow]

/-- `PrefixEncodeCopyDistance`: for every distance code below 2^62, every NPOSTFIX ≤ 3 and NDIRECT ≤ 120
(the format's ranges), the two `&mut` results are the model's packed `u16` (nbits << 10 | symbol) and
`u32` extra bits, whatever the out-parameters held before -/
theorem prefix_encode_copy_distance_generated (dc nd p a b : Nat) (hp : p ≤ 3) (hnd : nd ≤ 120)
    (hdc : dc < 2 ^ 62) :
    PrefixEncodeCopyDistance dc nd p a b =
      ((prefixEncodeCopyDistance dc nd p).packed, (prefixEncodeCopyDistance dc nd p).extra32) := by
  by_cases hge : 16 + nd ≤ dc
  · exact pecd_long dc nd p a b hp hnd hdc hge
  · have hlt : dc < 16 + nd := by omega
    have hlt' : dc < (16 + nd) % 18446744073709551616 := by omega
    unfold PrefixEncodeCopyDistance
    simp [hlt', prefixEncodeCopyDistance, short_codes_is_16, hlt, DistCode.packed, DistCode.extra32]

/-- `BrotliEncodeMlen`: (bits, numbits, nibblesbits) for every meta-block length the format allows -/
theorem encode_mlen_generated (len a b c : Nat) (h1 : 1 ≤ len) (h : len ≤ 2 ^ 24) :
    BrotliEncodeMlen len a b c = encodeMlen len := by
  have h24 : (2:Nat) ^ 24 = 16777216 := by decide
  rw [h24] at h
  unfold BrotliEncodeMlen encodeMlen log2Floor
  by_cases h1' : len = 1
  · subst h1'; decide
  · have e : (len + 4294967296 - 1) % 4294967296 = len - 1 := by omega
    have hz : len - 1 ≠ 0 := by omega
    have hlt : len - 1 < 2 ^ 64 := by
      have : (2:Nat) ^ 64 = 18446744073709551616 := by decide
      omega
    have hl : Nat.log2 (len - 1) < 24 := (Nat.log2_lt hz).2 (by omega)
    simp only [e, log2_floor_non_zero_generated (len - 1) hz hlt, h1', beq_iff_eq, if_false, decide_eq_true_eq]
    repeat' split
    all_goals (first | rfl | (simp only [Prod.mk.injEq]; refine ⟨trivial, ?_, ?_⟩ <;> omega))

example : PrefixEncodeCopyDistance 1000 0 0 7 7 = (8 * 1024 + 31, 220) := by decide
example : BrotliEncodeMlen 65536 0 0 0 = (65535, 16, 0) := by decide
example : BrotliEncodeMlen 65537 9 9 9 = (65536, 20, 1) := by decide

/-- `Command::restore_distance_code`: for every stored `dist_prefix_` whose extra-bit count is at most 31
(beyond that `<< nbits` panics in a debug build and is masked in a release build; the format never
produces it), every `dist_extra_`, NPOSTFIX ≤ 3 and NDIRECT ≤ 120 -/
theorem restore_distance_code_generated (prefix_ extra p nd : Nat) (hpre : prefix_ < 32768)
    (hp : p ≤ 3) (hnd : nd ≤ 120) :
    restore_distance_code extra prefix_ p nd = restoreDistanceCode prefix_ extra nd p := by
  have h32 : (2:Nat) ^ 32 = 4294967296 := by decide
  unfold restore_distance_code restoreDistanceCode
  have hland : sop (fun x y => x &&& y) 32 ((prefix_ : Nat) : Int) (1023 : Int) = ((prefix_ % 1024 : Nat) : Int) := by
    have := sop32_ofNat (fun x y => x &&& y) prefix_ 1023 (by omega) (by decide)
      (by show prefix_ &&& 1023 < 2147483648; rw [and_1023]; omega)
    simp only [and_1023] at this
    exact this
  have hsum : wrapS 32 (wrapS 32 ((16 : Nat) : Int) + wrapS 32 ((nd : Nat) : Int)) = ((16 + nd : Nat) : Int) := by
    rw [wrapS32_of_range ((16 : Nat) : Int) (by omega) (by omega), wrapS32_of_range ((nd : Nat) : Int) (by omega) (by omega),
      wrapS32_of_range _ (by omega) (by omega)]
    omega
  simp only [hland, hsum, and_1023, short_codes_is_16, h32]
  by_cases hc : prefix_ % 1024 < 16 + nd
  · have hc' : ((prefix_ % 1024 : Nat) : Int) < ((16 + nd : Nat) : Int) := by omega
    simp only [hc, hc', decide_true, if_true]
  · have hc' : ¬ ((prefix_ % 1024 : Nat) : Int) < ((16 + nd : Nat) : Int) := by omega
    simp only [hc, hc', decide_false, if_false, Bool.false_eq_true]
    have hb1 : ((prefix_ % 1024 + 4294967296 - nd) % 4294967296 + 4294967296 - 16) % 4294967296
        = prefix_ % 1024 - nd - 16 := by omega
    have hb2 : (prefix_ % 1024 + 4294967296 - nd % 4294967296 + 4294967296 - 16) % 4294967296
        = prefix_ % 1024 - nd - 16 := by omega
    have hp32 : p % 32 = p := by omega
    have hnb : prefix_ >>> (10 % 16) % 32 = prefix_ / 1024 := by
      rw [Nat.shiftRight_eq_div_pow]
      have : (2:Nat) ^ (10 % 16) = 1024 := by decide
      rw [this]; omega
    have hPpos : 0 < 2 ^ p := Nat.pow_pos (by decide)
    have hP8 := two_pow_small p hp
    have hmask : (1 <<< p % 4294967296 + 4294967296 - 1) % 4294967296 = 2 ^ p - 1 := by
      rw [Nat.shiftLeft_eq, Nat.one_mul]; omega
    rw [hb1, hb2, hp32, hnb, hmask]
    simp only [Nat.shiftRight_eq_div_pow, Nat.shiftLeft_eq, Nat.and_one_is_mod, Nat.and_two_pow_sub_one_eq_mod]
    have hh : (prefix_ % 1024 - nd - 16) / 2 ^ p % 2 < 2 := Nat.mod_lt _ (by decide)
    rw [Nat.mod_eq_of_lt (a := 2 + (prefix_ % 1024 - nd - 16) / 2 ^ p % 2) (by omega)]
    omega

/-- `Command::copy_len` -/
theorem copy_len_generated (f : Nat) : copy_len f = f % 33554432 :=
  Nat.and_two_pow_sub_one_eq_mod f 25

example : restore_distance_code 220 (8 * 1024 + 31) 0 0 = 1000 := by decide

/-- `StoreVarLenUint8`: the generated list of `BrotliWriteBits` calls is the model's list of (nbits, value)
fields, for every `u64` argument -/
theorem store_var_len_uint8_generated (n : Nat) (h : n < 2 ^ 64) :
    StoreVarLenUint8 n = (storeVarLenUint8 n).map (fun p => BV.Rs.WOp.bits p.1 p.2) := by
  have h64 : (2:Nat) ^ 64 = 18446744073709551616 := by decide
  unfold StoreVarLenUint8 storeVarLenUint8 log2Floor
  by_cases h0 : n = 0
  · subst h0; rfl
  · have hl : Nat.log2 n < 64 := (Nat.log2_lt h0).2 h
    have hle : 2 ^ Nat.log2 n ≤ n := Nat.log2_self_le h0
    have e1 : Nat.log2 n % 256 = Nat.log2 n := by omega
    have e2 : Nat.log2 n % 64 = Nat.log2 n := by omega
    simp only [h0, beq_iff_eq, if_false, log2_floor_non_zero_generated n h0 h, e1, e2, Nat.shiftLeft_eq, Nat.one_mul,
      List.nil_append, List.cons_append, List.map_cons, List.map_nil]
    rw [h64] at h
    generalize 2 ^ Nat.log2 n = X at hle ⊢
    have e3 : (n + 18446744073709551616 - X % 18446744073709551616) % 18446744073709551616 = n - X := by omega
    rw [e3]

example : StoreVarLenUint8 200 = [BV.Rs.WOp.bits 1 1, BV.Rs.WOp.bits 3 7, BV.Rs.WOp.bits 7 72] := by decide

example : GetInsertLengthCode 22593 = 22 := by decide
example : GetCopyLengthCode 2117 = 22 := by decide

end BV.Props.C18Gen
