/-
C06 (part 4) — PURITY, operationally; what of it is a theorem, what is left to the real code.

`BV.Props.C06.inline_equals_pool_equals_threads` needs: "the jobs of the two runs return the same
values".  This file says what that means for the code and reduces it as far as the models go.

WHAT A JOB IS HANDED.  `compress_part(hasher, thread_index, num_threads, &(input, params), alloc)`
reads: `params`; `thread_index`, `num_threads`; its piece `input[range]`; the dictionary prefix
`input[..range.start]`; the `hasher` handed in (Uninit, or a clone of the shared index); and an
allocator.  `JobIn` is that list minus the allocator, with the hasher replaced by the index the
job's encoder HOLDS after `set_custom_dictionary_with_optional_precomputed_hasher` (`jobIndex`) —
the only way the handed hasher reaches the encoder.

PURITY := the job's value is `F (JobIn)` for one function `F` — the same `F` whatever spawner runs
the job, on whatever thread, with whatever allocator history, and whether the index was handed in or
built by the job.

PROVED HERE
* `favor_and_spawner_independent`: under PURITY in this form, for every hasher model whose
  `BulkStoreRange` is additive and local from the empty index (proved for BasicHasher, AdvHasher, H9
  in C06Hasher) the result of `CompressMulti` — `Ok(k)`/error, bytes, ownership flag — is the same
  for ALL three spawners AND for `favor_cpu_efficiency` on and off: `JobIn` is the same in all six
  runs (the spawner does not occur in it; the index held is the same by `jobIndex_favor_irrelevant`,
  every prefix length), so the job values are, so the stitched result is (C06 part 2).
* the modelled part of a job is pure by construction and depends on NOTHING else: `streamJob` is the
  job over the stream machine (fresh encoder with the job's parameter changes, one FINISH call into
  `BrotliEncoderMaxCompressedSize(len)` bytes, `compress_part`'s loop on what it observes).  It is a
  Lean function of (payload oracle, params, index, thread count, input length, piece); the stream
  machine consults the payload encoder only through `Req` = (call site, `last_processed_pos_`,
  `input_pos_`, `last_flush_pos_`, `is_last`, `force_flush`) and the invocation count — positions and
  flags, no allocator identity, no thread id, no address (`req_is_positions_and_flags`); and by
  C02Part its value is decided by ONE call (`stream_job_value`) (C20 `call_terminates`: the call itself
  never runs out of fuel).  So two runs of a job differ only
  if their payload encoders answer the same request differently (`stream_job_congr`).

LEFT TO THE REAL CODE (exercised by the 3-spawner x fresh/reused pool x repeat x favor on/off byte
comparison of stage `multi`, not proved): that the payload encoder — match finders, block
splitter, entropy coders, i.e. the oracle — is a function of the encoder state it is called in
(ring-buffer content = dictionary prefix + piece, the index held, params, the request) and of
nothing else: no read of uninitialised allocator memory, no dependence on the addresses or the
history of the per-thread allocators, no thread-local or global state.  (C05 proves independence of
the caller's OUTPUT-buffer slicing for the stream machine; `StandardAlloc` zero-fills.)  And, for
quality ≥ 2 jobs with a non-empty prefix, that the encoder state after the dictionary call is the
`JobIn`-determined one (the stream model has no dictionary call).
-/
import BV.Props.C06Hasher
import BV.Props.C02Part

namespace BV.Props.C06Pure
open BV.Multi BV.Multi.Res BV.Lemmas.Multi BV.Stream BV.StreamJob

/-! ## 1. PURITY as a function of what the job is handed -/

/-- what `compress_part` is handed, minus the allocator; `held` = the match index the job's encoder
holds when it starts compressing (job 0: the empty index of its first `encode_data`) -/
structure JobIn (H : Type) where
  quality : Nat
  lgwin : Nat
  index : Nat
  threads : Nat
  piece : List Nat
  dict : List Nat
  held : H

/-- the `JobIn` of job `i` in a run of `CompressMulti` over `input` (`n = input.len()`) with
`favor_cpu_efficiency = favor`: with favor on and more than one thread, jobs `≥ 1` are handed the
shared index built up to their prefix (`prebuilt`), otherwise `Uninit` -/
def jobIn {H : Type} (M : HasherModel H) (input : List Nat) (t n lgwin quality overlap : Nat) (favor : Bool)
    (i : Nat) : JobIn H :=
  { quality := quality, lgwin := lgwin, index := i, threads := t
    piece := (input.drop (bnd t n i)).take (bnd t n (i + 1) - bnd t n i)
    dict := input.take (bnd t n i)
    held := if i = 0 then M.empty
            else jobIndex M input (bnd t n i) lgwin quality overlap
              (if favor ∧ t > 1 then some (prebuilt M input t n overlap i).1 else none) }

/-- the spawner is not an argument of `jobIn`; the favor flag is, and drops out: -/
theorem jobIn_favor_irrelevant {H : Type} (M : HasherModel H) (overlap bound : Nat)
    (hA : AdditiveFrom M bound) (hL : LocalFrom M overlap bound)
    (input : List Nat) (t n lgwin quality : Nat) (hq : 2 ≤ quality) (hl : 10 ≤ lgwin) (hn : n ≤ bound)
    (i : Nat) (hi : i < t) :
    jobIn M input t n lgwin quality overlap true i = jobIn M input t n lgwin quality overlap false i := by
  unfold jobIn
  cases i with
  | zero => rfl
  | succ j =>
    have ht1 : t > 1 := by omega
    have e := jobIndex_favor_irrelevant M overlap bound hA hL input t n lgwin quality j hq hl (by omega) hn
    simp only [Nat.succ_ne_zero, if_false, ht1, and_self, if_true, Bool.false_eq_true, false_and, e]

/-- `favor_and_spawner_independent`.  PURITY: job `i`'s value is `F (jobIn …)`.  Then for
1 ≤ t ≤ MAX_THREADS, quality ≥ 2, any capacity, and job values without panic/spin: every pair of
(spawner, favor flag) gives the same `CompressMulti` result — same `Ok(k)`/error, same bytes, input
handed back. -/
theorem favor_and_spawner_independent {H : Type} (M : HasherModel H) (overlap bound : Nat)
    (hA : AdditiveFrom M bound) (hL : LocalFrom M overlap bound) (F : JobIn H → JobRes)
    (input : List Nat) (t n lgwin quality cap : Nat) (hq : 2 ≤ quality) (hl : 10 ≤ lgwin) (hn : n ≤ bound)
    (ht : 1 ≤ t) (ht16 : t ≤ BV.Gen.MAX_THREADS) (sp1 sp2 : Spawner) (f1 f2 : Bool)
    (hc : Clean (fun i => F (jobIn M input t n lgwin quality overlap f1 i)) t) :
    compressMulti sp1 t (fun i => F (jobIn M input t n lgwin quality overlap f1 i)) cap
      = compressMulti sp2 t (fun i => F (jobIn M input t n lgwin quality overlap f2 i)) cap := by
  apply BV.Props.C06.inline_equals_pool_equals_threads sp1 sp2 t _ _ cap ht ht16 _ hc
  intro i hi
  have e := jobIn_favor_irrelevant M overlap bound hA hL input t n lgwin quality hq hl hn i hi
  show F _ = F _
  cases f1 <;> cases f2 <;> simp [e]

/-- instance: the quality-2..4 kinds (`BasicHasher`), no hypothesis about the hasher left -/
theorem favor_and_spawner_independent_basic (P : BV.Hasher.BasicP) (hP : P.Ok) (len : Nat)
    (F : JobIn (Option BV.Hasher.Tab) → JobRes)
    (input : List Nat) (t n lgwin quality cap : Nat) (hq : 2 ≤ quality) (hl : 10 ≤ lgwin)
    (ht : 1 ≤ t) (ht16 : t ≤ BV.Gen.MAX_THREADS) (sp1 sp2 : Spawner) (f1 f2 : Bool)
    (hc : Clean (fun i => F (jobIn (basicModel P len) input t n lgwin quality 7 f1 i)) t) :
    compressMulti sp1 t (fun i => F (jobIn (basicModel P len) input t n lgwin quality 7 f1 i)) cap
      = compressMulti sp2 t (fun i => F (jobIn (basicModel P len) input t n lgwin quality 7 f2 i)) cap :=
  favor_and_spawner_independent (basicModel P len) 7 n ((basicModel_additive hP len).from n)
    ((basicModel_local hP len).from n) F input t n lgwin quality cap hq hl (Nat.le_refl _) ht ht16 sp1 sp2 f1 f2 hc

/-- instance: the quality-5..8 kinds (`AdvHasher`), input length a `usize` -/
theorem favor_and_spawner_independent_adv (P : BV.Hasher.AdvP) (hP : P.Ok) (hla : 1 ≤ P.lookahead)
    (F : JobIn (Option BV.Hasher.AdvSt) → JobRes)
    (input : List Nat) (t n lgwin quality cap : Nat) (hq : 2 ≤ quality) (hl : 10 ≤ lgwin) (hn : n ≤ 2 ^ 64)
    (ht : 1 ≤ t) (ht16 : t ≤ BV.Gen.MAX_THREADS) (sp1 sp2 : Spawner) (f1 f2 : Bool)
    (hc : Clean (fun i => F (jobIn (advModel P) input t n lgwin quality (P.lookahead - 1) f1 i)) t) :
    compressMulti sp1 t (fun i => F (jobIn (advModel P) input t n lgwin quality (P.lookahead - 1) f1 i)) cap
      = compressMulti sp2 t (fun i => F (jobIn (advModel P) input t n lgwin quality (P.lookahead - 1) f2 i)) cap :=
  favor_and_spawner_independent (advModel P) (P.lookahead - 1) (2 ^ 64) (advModel_additive hP)
    (advModel_local hP hla) F input t n lgwin quality cap hq hl hn ht ht16 sp1 sp2 f1 f2 hc

/-- instance: quality 9 (`H9`) -/
theorem favor_and_spawner_independent_h9 (P : BV.Hasher.H9P) (F : JobIn (Option BV.Hasher.AdvSt) → JobRes)
    (input : List Nat) (t n lgwin quality cap : Nat) (hq : 2 ≤ quality) (hl : 10 ≤ lgwin)
    (ht : 1 ≤ t) (ht16 : t ≤ BV.Gen.MAX_THREADS) (sp1 sp2 : Spawner) (f1 f2 : Bool)
    (hc : Clean (fun i => F (jobIn (h9Model P) input t n lgwin quality 3 f1 i)) t) :
    compressMulti sp1 t (fun i => F (jobIn (h9Model P) input t n lgwin quality 3 f1 i)) cap
      = compressMulti sp2 t (fun i => F (jobIn (h9Model P) input t n lgwin quality 3 f2 i)) cap :=
  favor_and_spawner_independent (h9Model P) 3 n ((h9Model_additive P).from n) ((h9Model_local P).from n)
    F input t n lgwin quality cap hq hl (Nat.le_refl _) ht ht16 sp1 sp2 f1 f2 hc

/-- instance: quality 10/11 (`H10`, opaque `Store`), under the one remaining statement about `Store`
(it reads `data[.. ix + 128)` only, C06Hasher `favor_cpu_equiv_h10`) -/
theorem favor_and_spawner_independent_h10 {σ : Type} (store : ByteArray → Nat → σ → Option σ) (empty : σ)
    (hloc : ∀ d d' ix st k, Agree d d' k → ix + 128 ≤ k → store d ix st = store d' ix st)
    (F : JobIn (Option σ) → JobRes)
    (input : List Nat) (t n lgwin quality cap : Nat) (hq : 2 ≤ quality) (hl : 10 ≤ lgwin)
    (ht : 1 ≤ t) (ht16 : t ≤ BV.Gen.MAX_THREADS) (sp1 sp2 : Spawner) (f1 f2 : Bool)
    (hc : Clean (fun i => F (jobIn (h10Model store empty) input t n lgwin quality 127 f1 i)) t) :
    compressMulti sp1 t (fun i => F (jobIn (h10Model store empty) input t n lgwin quality 127 f1 i)) cap
      = compressMulti sp2 t (fun i => F (jobIn (h10Model store empty) input t n lgwin quality 127 f2 i)) cap :=
  favor_and_spawner_independent (h10Model store empty) 127 n ((h10Model_additive store empty).from n)
    ((h10Model_local store empty 128 (by decide) hloc).from n)
    F input t n lgwin quality cap hq hl (Nat.le_refl _) ht ht16 sp1 sp2 f1 f2 hc

/-- non-vacuity: an `F` that looks at what it is handed (the job's value is the piece if the held
index did not panic) meets the hypotheses; 3 jobs, favor on, thread-per-job against favor off, inline -/
def toyF (x : JobIn (Option BV.Hasher.Tab)) : JobRes := if x.held.isSome then JobRes.ok x.piece else JobRes.err

example (P : BV.Hasher.BasicP) (hP : P.Ok) (input : List Nat) (cap : Nat) :
    compressMulti .threads 3 (fun i => toyF (jobIn (basicModel P 16) input 3 input.length 22 5 7 true i)) cap
      = compressMulti .inline 3 (fun i => toyF (jobIn (basicModel P 16) input 3 input.length 22 5 7 false i)) cap :=
  favor_and_spawner_independent_basic P hP 16 toyF input 3 input.length 22 5 cap (by decide) (by decide)
    (by decide) (by decide) .threads .inline true false
    (fun i _ => by
      show toyF _ ≠ .panic ∧ toyF _ ≠ .spin
      unfold toyF
      split <;> simp)

/-! ## 2. the modelled part of a job -/

/-! `jobParams`, `streamJob`: BV/Model/StreamJob.lean (tied to the real `compress_part` by the `sjob`
lines of stage `favor`). -/

/-- the payload encoder is asked through `Req` only, and a `Req` is six numbers/flags:
two requests with the same call site, positions and flags are THE SAME request — there is no field
for an allocator, a thread or an address -/
theorem req_is_positions_and_flags (a b : Req) (h1 : a.site = b.site) (h2 : a.lo = b.lo) (h3 : a.hi = b.hi)
    (h4 : a.lf = b.lf) (h5 : a.isLast = b.isLast) (h6 : a.forceFlush = b.forceFlush) : a = b := by
  cases a; cases b; simp_all

/-- two runs of a modelled job can differ only through their payload encoders: equal oracles
(equal answers to every request, whoever asks), equal value -/
theorem stream_job_congr (o1 o2 : Oracle) (h : ∀ k req, o1 k req = o2 k req) (fuel : Nat) (p : Params)
    (i t n : Nat) (piece : Bytes) : streamJob o1 fuel p i t n piece = streamJob o2 fuel p i t n piece := by
  have : o1 = o2 := funext fun k => funext fun req => h k req
  rw [this]

/-- the value of a modelled job is decided by its ONE call (C02Part): `Ok` with the complete stream
when the call's output fits the job buffer, `Err` otherwise; never a panic or a spin of the loop -/
theorem stream_job_value (o : Oracle) (fuel : Nat) (p : Params) (i t n : Nat) (piece : Bytes)
    (hi : i < t) (ht64 : t < U64) (hnt : n * t < U64) (hlen : piece.length = bnd t n (i + 1) - bnd t n i)
    (hw : piece.length < two64) {s' : St} {io' : Io} {r : Bool}
    (h : compressStream o fuel { St.new with params := jobParams p i } 2 piece (maxCompressedSize piece.length)
      = .ok (s', io', r)) :
    streamJob o fuel p i t n piece =
      if io'.out.length + s'.pending.length ≤ maxCompressedSize piece.length then .ok io'.out else .err := by
  unfold streamJob
  rw [h]
  exact BV.Props.C02Part.part_of_stream_model i t n hi ht64 hnt hlen (Or.inl ⟨⟨_, rfl⟩, hw⟩) h []

/-- a modelled job never spins: with C20's fuel (`call_terminates_callCap`: a function of the
initial state and the piece length alone, NO hypothesis on the payload encoder) the FINISH call
returns or hits one of its modelled panics, and then `compress_part`'s loop ends after that one
call — the job is `Ok`, `Err` or `panic`, never `spin` -/
theorem stream_job_never_spins (o : Oracle) (fuel : Nat) (p : Params) (i t n : Nat) (piece : Bytes)
    (hi : i < t) (ht64 : t < U64) (hnt : n * t < U64) (hlen : piece.length = bnd t n (i + 1) - bnd t n i)
    (hw : piece.length < two64)
    (hfuel : callPot (callCap (ensureInitialized { St.new with params := jobParams p i }) piece.length)
      (ensureInitialized { St.new with params := jobParams p i }) piece.length < fuel) :
    streamJob o fuel p i t n piece ≠ .spin := by
  have hf : IsFresh ({ St.new with params := jobParams p i } : St) := ⟨_, rfl⟩
  obtain ⟨hI, _, _⟩ := inv_fresh hf
  have hip : (ensureInitialized ({ St.new with params := jobParams p i } : St)).inputPos = 0 := by
    simp [ensureInitialized, St.new]
  have hw' : (ensureInitialized ({ St.new with params := jobParams p i } : St)).inputPos + piece.length < two64 := by
    rw [hip, Nat.zero_add]; exact hw
  have hop : (2 : Nat) ≤ 3 := by omega
  have hl := BV.Props.C20.carry_bound_initial ({ St.new with params := jobParams p i } : St) rfl
  have hterm := BV.Props.C20.call_terminates_callCap (o := o) (op := 2) (cap := maxCompressedSize piece.length)
    (input := piece) hop hI hw' hl hfuel
  rw [← compressStream_ensure] at hterm
  cases h : compressStream o fuel { St.new with params := jobParams p i } 2 piece (maxCompressedSize piece.length) with
  | fuel => exact absurd h hterm
  | panic => unfold streamJob; rw [h]; intro e; cases e
  | ok v =>
    obtain ⟨s', io', r⟩ := v
    rw [stream_job_value o fuel p i t n piece hi ht64 hnt hlen hw h]
    split <;> simp

example : streamJob BV.Props.C02Part.toyOracle 50000 {} 0 1 3 [1, 2, 3] ≠ .spin :=
  stream_job_never_spins BV.Props.C02Part.toyOracle 50000 {} 0 1 3 [1, 2, 3] (by decide) (by decide) (by decide) (by decide)
    (by decide) (by decide +kernel)

/-- non-vacuity: the toy payload encoder of C02Part, job 0 of 1 over 3 bytes -/
example : streamJob BV.Props.C02Part.toyOracle 5000 {} 0 1 3 [1, 2, 3] = .ok [251, 255, 255, 255, 255, 255] := by decide +kernel

end BV.Props.C06Pure
