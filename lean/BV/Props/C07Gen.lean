/-
C07, translator tie: the Lean definitions GENERATED from the current Rust text of `FixedQueue`
(src/enc/fixed_queue.rs: `new`, `can_push`, `size`, `push`, `pop`, `how_much_free_space`; the type
parameter `T` instantiated with `usize` job ids; tools/rs2lean.py -> BV/Gen/FnC07.lean, struct by value,
`data : [Option<T>; MAX_THREADS]` as a `List (Option Nat)`) compute what the hand-written model
`BV.FixedQueue` — over which the queue-discipline lemmas of C07 are stated — computes, on every queue
whose `data` has its 16 slots (which the Rust array type guarantees) and whose counters are below the
`usize` wrap-around the model abstracts from (`start + size + 1 < 2^64`: `start` only grows by one per
`pop`).  The `_ok` companions (no panic in a debug build: index in bounds, no overflow, no underflow)
hold on the same queues.
-/
import BV.Gen.FnC07
import BV.Model.FixedQueue

namespace BV.Props.C07Gen
open BV.Gen.FnC07

abbrev MQ := BV.FixedQueue.FixedQueue Nat

/-- the generated queue as a model queue (slots beyond the list, if any, read as `None`) -/
def toModel (q : FixedQueue) : MQ :=
  ⟨Vector.ofFn (fun i : Fin BV.Gen.MAX_THREADS => q.data.getD i.val none), q.size, q.start⟩

/-- what the Rust type guarantees: the array has `MAX_THREADS` slots -/
def WF (q : FixedQueue) : Prop := q.data.length = BV.Gen.MAX_THREADS

theorem max_threads_16 : BV.Gen.MAX_THREADS = 16 := rfl

theorem new_generated : toModel new = (BV.FixedQueue.new : MQ) := by
  decide

theorem new_wf : WF new := rfl

theorem can_push_generated (q : FixedQueue) (h : WF q) : can_push q = (toModel q).canPush := by
  unfold can_push BV.FixedQueue.FixedQueue.canPush toModel
  rw [h]

theorem size_generated (q : FixedQueue) : size q = (toModel q).size := rfl

theorem how_much_free_space_generated (q : FixedQueue) (h : WF q) (hs : q.size ≤ BV.Gen.MAX_THREADS) :
    how_much_free_space q = (toModel q).howMuchFreeSpace := by
  unfold how_much_free_space BV.FixedQueue.FixedQueue.howMuchFreeSpace toModel
  rw [h]
  simp only [max_threads_16] at hs ⊢
  omega

theorem toModel_set (q : FixedQueue) (h : WF q) (i : Nat) (hi : i < BV.Gen.MAX_THREADS) (v : Option Nat) :
    (toModel { q with data := q.data.set i v }).data = (toModel q).data.set i v hi := by
  apply Vector.ext
  intro j hj
  simp only [toModel, Vector.getElem_ofFn, Vector.getElem_set]
  by_cases hij : i = j
  · subst hij
    have hl : i < q.data.length := by rw [h]; exact hi
    simp [List.getD_eq_getElem?_getD, List.getElem?_set, hl]
  · simp [List.getD_eq_getElem?_getD, List.getElem?_set, hij]

/-- `push`: `Err(())` exactly when the model says "full"; otherwise `Ok(())` and the model's new queue -/
theorem push_generated (q : FixedQueue) (x : Nat) (h : WF q) (hb : q.start + q.size + 1 < 2 ^ 64) :
    (match (toModel q).push x with
     | none => push q x = (none, q)
     | some q' => (push q x).1 = some () ∧ toModel (push q x).2 = q' ∧ WF (push q x).2) := by
  have h64 : (2 : Nat) ^ 64 = 18446744073709551616 := by decide
  rw [h64] at hb
  unfold BV.FixedQueue.FixedQueue.push push
  have hsz : (toModel q).size = q.size := rfl
  rw [hsz, h]
  by_cases hfull : q.size = BV.Gen.MAX_THREADS
  · simp [hfull]
  · have hne : (q.size == BV.Gen.MAX_THREADS) = false := by simp [hfull]
    simp only [hfull, hne, if_false, Bool.false_eq_true]
    refine ⟨trivial, ?_, ?_⟩
    · have e1 : (q.start + q.size) % 18446744073709551616 = q.start + q.size := by omega
      have e2 : (q.size + 1) % 18446744073709551616 = q.size + 1 := by omega
      simp only [e1, e2]
      have hi : (q.start + q.size) % BV.Gen.MAX_THREADS < BV.Gen.MAX_THREADS := Nat.mod_lt _ (by decide)
      have := toModel_set q h _ hi (some x)
      unfold BV.FixedQueue.FixedQueue.put BV.FixedQueue.slot
      simp only [toModel] at this ⊢
      rw [this]
    · show (List.set q.data _ _).length = _
      rw [List.length_set]; exact h

theorem push_ok_generated (q : FixedQueue) (x : Nat) (h : WF q) (hb : q.start + q.size + 1 < 2 ^ 64) :
    push_ok q x = true := by
  have h64 : (2 : Nat) ^ 64 = 18446744073709551616 := by decide
  rw [h64] at hb
  unfold push_ok
  rw [h]
  have hi : (q.start + q.size) % 18446744073709551616 % BV.Gen.MAX_THREADS < BV.Gen.MAX_THREADS :=
    Nat.mod_lt _ (by decide)
  split
  · rfl
  · simp only [Bool.true_and, Bool.and_eq_true, decide_eq_true_eq, bne_iff_ne, ne_eq]
    refine ⟨⟨⟨by omega, by decide⟩, hi⟩, by omega⟩

/-- `pop`: the returned slot and the new queue are the model's -/
theorem pop_generated (q : FixedQueue) (h : WF q) (hb : q.start + 1 < 2 ^ 64) (hs : q.size < 2 ^ 64) :
    (pop q).1 = ((toModel q).pop).1 ∧ toModel (pop q).2 = ((toModel q).pop).2 ∧ WF (pop q).2 := by
  have h64 : (2 : Nat) ^ 64 = 18446744073709551616 := by decide
  rw [h64] at hb hs
  unfold BV.FixedQueue.FixedQueue.pop pop
  have hsz : (toModel q).size = q.size := rfl
  rw [hsz, h]
  by_cases h0 : q.size = 0
  · simp [h0, WF]; exact h
  · have hne : (q.size == 0) = false := by simp [h0]
    simp only [h0, hne, if_false, Bool.false_eq_true]
    have hi : q.start % BV.Gen.MAX_THREADS < BV.Gen.MAX_THREADS := Nat.mod_lt _ (by decide)
    refine ⟨?_, ?_, ?_⟩
    · simp [BV.FixedQueue.FixedQueue.at, BV.FixedQueue.slot, toModel, Vector.getElem_ofFn]
    · have e1 : (q.start + 1) % 18446744073709551616 = q.start + 1 := by omega
      have e2 : (q.size + 18446744073709551616 - 1) % 18446744073709551616 = q.size - 1 := by omega
      simp only [e1, e2]
      have := toModel_set q h _ hi none
      unfold BV.FixedQueue.FixedQueue.put BV.FixedQueue.slot
      simp only [toModel] at this ⊢
      rw [this]
    · show (List.set q.data _ _).length = _
      rw [List.length_set]; exact h

theorem pop_ok_generated (q : FixedQueue) (h : WF q) (hb : q.start + 1 < 2 ^ 64) : pop_ok q = true := by
  have h64 : (2 : Nat) ^ 64 = 18446744073709551616 := by decide
  rw [h64] at hb
  unfold pop_ok
  rw [h]
  have hi : q.start % BV.Gen.MAX_THREADS < BV.Gen.MAX_THREADS := Nat.mod_lt _ (by decide)
  split
  · rfl
  · rename_i hz
    have : q.size ≠ 0 := by simpa using hz
    simp only [Bool.true_and, Bool.and_eq_true, decide_eq_true_eq, bne_iff_ne, ne_eq]
    refine ⟨⟨⟨⟨by decide, hi⟩, hi⟩, by omega⟩, by omega⟩

example : (push new 7).2.size = 1 := by decide
example : (pop (push (push new 7).2 9).2).1 = some 7 := by decide
example : push_ok new 3 = true := by decide

end BV.Props.C07Gen
