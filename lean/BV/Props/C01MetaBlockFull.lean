/-
C01 (third module) — the general compressed meta-block writer `BrotliStoreMetaBlock` (quality ≥ 4).

Model: `BV/Model/MetaBlockFull.lean` (`storeMetaBlockFull` and everything below it: block-split codes and
block switches, `StoreTrivialContextMap`, `EncodeContextMap` with its move-to-front transform and zero-run
coding, the per-cluster entropy codes of `BlockEncoder`, literal contexts (`Context`, the two lookup tables are
generated from `constants.rs`) and distance contexts).  The `MetaBlockSplit` (splits, context maps, per-cluster
histograms) is INPUT of the writer: the clustering heuristics are outside the model.
SPEC side: `readCompressedBodyG` / `readMetaBlockFullG` / `readStreamG` — the RFC 7932 §9.2/§9.3/§10 reader in
its general form (NBLTYPES ≥ 1 per category with block-type and block-count prefix codes and the
"second-to-last / last + 1" type rule of §6, context modes, context maps with RLEMAX and the inverse
move-to-front transform of §7.3, NTREES prefix codes, block switches inside the command loop, §7.1/§7.2 context ids).

Tied to the code by the `storefull`, `cmap`, `bsw`, `readg` lines of engine `metablock`
(`/verif/harness/src/metablock.rs`).
-/
import BV.Lemmas.MetaBlockFullAsm
import BV.Lemmas.MetaBlockWmbiG
import BV.Lemmas.MetaBlockAgree
import BV.Lemmas.MetaBlockExpand
import BV.Lemmas.MetaBlockFullEx
import BV.Props.C01MetaBlock

namespace BV.Props.C01MetaBlockFull
open BV.Gen BV.Bits BV.Huffman BV.PrefixArith BV.Recoder BV.MetaBlock

/-- **context_map_roundtrip** — `EncodeContextMap(context_map, context_map_size, num_clusters)`.
For EVERY context map of `1 ≤ size ≤ 2^24` entries with entries `< num_clusters`, `1 ≤ num_clusters ≤ 256`,
behind any already written bits `w` and before any following bits `rest`:
the writer does not panic (no index out of range in the 256-entry move-to-front table, the 272-entry
histogram / depth / bit tables, no `BrotliWriteBits` assertion, the Huffman construction terminates), and
the RFC 7932 §7.3 reader — NTREES, RLEMAX flag and value, the prefix code over NTREES + RLEMAX symbols, the
symbols (`0` = one zero, `1..RLEMAX` = a run of `2^sym + extra` zeros, above = the value `sym − RLEMAX`),
the IMTF bit, the inverse move-to-front transform — returns exactly `(num_clusters, context_map)` and stops
behind the description.  This covers every run length of zeros (the writer splits runs of `≥ 2^(max_prefix+1)`
zeros into several run symbols; `zeroRunSymbols_spec` is proved for every run length and every
`max_run_length_prefix` 0..6) and every value of `max_run_length_prefix` the writer chooses. -/
theorem context_map_roundtrip (m : List Nat) (n : Nat) (w rest : List Bool) (h1 : 1 ≤ m.length)
    (hlen : m.length ≤ 2 ^ 24) (hn1 : 1 ≤ n) (hn : n ≤ 256) (hm : ∀ x ∈ m, x < n) :
    ∃ bits, encodeContextMap m m.length n w = .ok (w ++ bits) ∧
      readContextMap m.length (bits ++ rest) = some (n, m, rest) := by
  obtain ⟨bits, h1, h2⟩ := encodeContextMap_roundtrip m n w h1 hlen hn1 hn hm
  exact ⟨bits, h1, h2 rest⟩

/-- non-vacuity, and the bits of a small map (a run of 4 zeros, two equal values, a run of 3 zeros) -/
example : (∀ x ∈ [0, 0, 0, 0, 2, 2, 1, 0, 0, 0], x < 3) ∧
    (encodeContextMap [0, 0, 0, 0, 2, 2, 1, 0, 0, 0] 10 3 []).bind (fun w => .ok (w.length, toBytes w))
      = .ok (42, [0x63, 0x34, 0xa1, 0x3c, 0x62, 0x02]) ∧
    (encodeContextMap [0, 0, 0, 0, 2, 2, 1, 0, 0, 0] 10 3 []).bind (fun w => .ok (readContextMap 10 w))
      = .ok (some (3, [0, 0, 0, 0, 2, 2, 1, 0, 0, 0], [])) := by
  refine ⟨by decide, by decide +kernel, by decide +kernel⟩

/-- the move-to-front transform is undone by the inverse transform of §7.3 -/
theorem mtf_inverse_roundtrip (m : List Nat) (h1 : 1 ≤ m.length) (hm : ∀ x ∈ m, x < 256) :
    ∃ idxs, moveToFrontTransform m m.length = .ok idxs ∧ inverseMtf idxs = m := by
  obtain ⟨idxs, e1, _, _, _, e4⟩ := mtf_roundtrip m h1 hm
  exact ⟨idxs, e1, e4⟩

/-- the zero-run coding is undone by the reader's run expansion, for every prefix limit 0..6 -/
theorem rle_zero_runs_roundtrip (v : List Nat) (hv : ∀ x ∈ v, x < 256) :
    ((runLengthCodeZeros v 6).1.flatMap (rleDec (runLengthCodeZeros v 6).2)) = v := by
  have hP : (runLengthCodeZeros v 6).2 ≤ 6 := by unfold runLengthCodeZeros; exact Nat.min_le_right _ _
  exact (rleLoop_spec _ hP (v.length + 1) v (by omega) hv).1

/-- **block_switch_roundtrip** — `BuildAndStoreBlockSplitCode` + every `StoreBlockSwitch` of a category.
For EVERY well-formed split (`SplitOK`: `num_blocks = types.len() = lengths.len() ≥ 1`, at most `2^24` blocks, first
block of type 0, types `< num_types`, `1 ≤ num_types ≤ 256`, block lengths `1..2^24`, `num_types = 1` ⇒ one block),
behind any written bits `w` and before any following bits `rest`:
the writer (histograms of the type / length codes with the `BlockTypeCodeCalculator` rule, `StoreVarLenUint8`,
the two `BuildAndStoreHuffmanTree` calls, the first block length, then one `StoreBlockSwitch` per later block in
order) does not panic, and the RFC 7932 §6 / §9.2 reader — NBLTYPES, the block type code over NBLTYPES + 2
symbols, the block count code, the first count; then per switch the type code with 0 = second-to-last type,
1 = last type + 1 (wrapping at NBLTYPES), else code − 2, and the count code with its extra bits — reconstructs
exactly the `(type, length)` sequence and stops behind the last switch.  With NBLTYPES = 1 nothing but the
single NBLTYPES bit is written and there are no switches. -/
theorem block_switch_roundtrip (s : BSplit) (h : SplitOK s) (w rest : List Bool) :
    ∃ bits c, (buildAndStoreBlockSplitCode s BSCode.init w).bind (fun cw =>
        ((s.types.zip s.lengths).drop 1).foldlM (fun (cw : BSCode × Writer) tl =>
          storeBlockSwitch cw.1 tl.2 tl.1 false cw.2) cw) = .ok (c, w ++ bits) ∧
      ∃ cat bs, readCatHeader (bits ++ rest) = some (cat, bs) ∧ cat.nbl = s.numTypes ∧
        (2 ≤ s.numTypes → cat.count = s.lengths.getD 0 0) ∧
        readSwitches (s.types.length - 1) cat bs [(0, s.lengths.getD 0 0)] = some (s.types.zip s.lengths, rest) := by
  obtain ⟨b1, c1, cat, e1, r1, i1, hc⟩ := blockSplitCode_roundtrip s h w
  obtain ⟨b2, c2, e2, r2⟩ := switches_roundtrip s h (s.types.length - 1) 0 c1 cat [(0, s.lengths.getD 0 0)] (w ++ b1) i1
    (by have := h.pos; omega)
  refine ⟨b1 ++ b2, c2, ?_, cat, b2 ++ rest, ?_, i1.nbl, hc, ?_⟩
  · rw [e1]
    show List.foldlM _ (c1, w ++ b1) _ = _
    rw [e2, List.append_assoc]
  · rw [List.append_assoc, r1]
  · rw [r2]
    have := zip_drop s h 0 h.pos
    rw [List.drop_zero, h.t0] at this
    rw [this]
    rfl

/-- non-vacuity: three block types, five blocks (codes 1, 0, "type + 2", 1 in this order) -/
example : SplitOK ⟨3, 5, [0, 1, 0, 2, 0], [5, 1, 300, 70000, 2]⟩ ∧
    ((buildAndStoreBlockSplitCode ⟨3, 5, [0, 1, 0, 2, 0], [5, 1, 300, 70000, 2]⟩ BSCode.init []).bind (fun cw =>
      ([(1, 1), (0, 300), (2, 70000), (0, 2)] : List (Nat × Nat)).foldlM (fun (cw : BSCode × Writer) tl =>
        storeBlockSwitch cw.1 tl.2 tl.1 false cw.2) cw)).bind (fun cw => Out.ok
      ((readCatHeader cw.2).bind fun (cat, bs) => readSwitches 4 cat bs [(0, cat.count)]))
      = .ok (some ([(0, 5), (1, 1), (0, 300), (2, 70000), (0, 2)], [])) := by
  refine ⟨⟨rfl, rfl, by decide, by decide, rfl, by decide, by decide, by decide, by decide, by decide⟩,
    by decide +kernel⟩

/-! ### the whole meta-block -/

/-- **full_metablock_roundtrip** — `BrotliStoreMetaBlock` (`store_meta_block`, quality ≥ 4).
For EVERY ring buffer / mask / start position holding the meta-block bytes `mb` (`1 ≤ |mb| ≤ 2^24`; `hIP` as in
`trivial_metablock_roundtrip`), every history `hist` with `prev_byte` / `prev_byte2` its last two bytes (0 when
missing), every literal context mode 0..3, every NPOSTFIX ≤ 3 / NDIRECT = `ndm << NPOSTFIX`, `ndm < 16` with a
distance alphabet of at most 544 symbols (`BROTLI_NUM_HISTOGRAM_DISTANCE_SYMBOLS`; all standard-window parameter
sets, the large-window ones up to NPOSTFIX 2), every command array satisfying `cmdOK`, `lockstep`, `faithful` and
`copy_len() ≥ 2` for copying commands, and EVERY well-formed `MetaBlockSplit` (`MBOK`: three `SplitOK` block splits
with up to 256 types and 2^24 blocks, context maps either absent — then one histogram per block type — or of
`64·types` / `4·types` entries `<` the number of histograms `≤ 256`, histograms of the right lengths with totals
`≤ 2^25`, distance histograms empty above the alphabet) whose histograms cover the symbols emitted under them
(`Covers`: for the k-th literal / command / distance symbol, of block type `t_k` by the split and context `c_k`, the
histogram selected by the context map for `(t_k, c_k)` counts the symbol; `remTypes` is the per-symbol block type
sequence and must be at least as long as the symbol sequence):
* the model of the writer does NOT PANIC (block-split code histograms and trees, `StoreTrivialContextMap` /
  `EncodeContextMap`, `build_and_store_entropy_codes` into the shared depth / bit tables, every block switch,
  every context lookup, every `BrotliWriteBits`) and appends some `bits` to `w`;
* the GENERAL RFC 7932 reader (`readMetaBlockFullG`: NBLTYPES ×3 with type / count codes, NPOSTFIX, NDIRECT, context
  modes, two context maps with RLEMAX and inverse move-to-front, NTREES prefix codes per category, block switches
  and §7.1 / §7.2 context ids inside the command loop), started at bit position `|w|` with decoder state
  `(hist, dc)`, accepts `bits ++ rest`, stops exactly behind `bits` (behind the zero padding when `is_last`),
  reports ISLAST as written and the position `|w ++ bits|`;
* its output is what C14's RFC decoder `replayCommands` produces from the raw commands — with `faithful`
  this is `hist ++ mb`.
`faithful` (after every command the decoder's output is `hist ++` a prefix of `mb`) is NECESSARY here and was not
for the context-free writers: the writer takes the two context bytes of a literal from its input, the reader from
its output. -/
theorem full_metablock_roundtrip (wo : WordOracle) (window : Nat) (ring : Bytes) (start mask prevByte prevByte2 : Nat)
    (mb : Bytes) (isLast : Bool) (dp : DistP) (mode : Nat) (cmds : List Cmd) (mbs : MBSplit) (hist : Bytes)
    (dc : List Int) (w : List Bool)
    (hR : RingHolds ring mask start mb) (h256 : ∀ b ∈ mb, b < 256) (hh256 : ∀ b ∈ hist, b < 256)
    (h1 : 1 ≤ mb.length) (h2 : mb.length ≤ 2 ^ 24) (h64 : start + mb.length < 2 ^ 64)
    (hIP : inputPairCheck ring start mb.length mask = .ok ())
    (hprev : prevByte = lastB hist ∧ prevByte2 = last2B hist) (hmode : mode < 4)
    (hnp : dp.npostfix ≤ 3) (hnd1 : dp.ndirect % 2 ^ dp.npostfix = 0) (hnd2 : dp.ndirect / 2 ^ dp.npostfix < 16)
    (hA : dp.alphabetSize = distAlphabetSize dp.large dp.npostfix dp.ndirect) (hA544 : dp.alphabetSize ≤ 544)
    (hok : ∀ c ∈ cmds, cmdOK dp.alphabetSize dp.npostfix dp.ndirect c = true)
    (hcl2 : ∀ c ∈ cmds, copyLen c ≠ 0 → 2 ≤ copyLen c)
    (hlock : lockstep wo dp.npostfix dp.ndirect window mb ⟨hist, dc, 0⟩ 0 cmds = true)
    (hfa : faithful wo dp.npostfix dp.ndirect window mb hist ⟨hist, dc, 0⟩ cmds)
    (hM : MBOK mbs dp.alphabetSize)
    (hcL : Covers mbs.litHistos (effMap mbs.litCmap mbs.litCmapSize mbs.lit.numTypes 64) 64
      (remTypes mbs.lit 0 (mbs.lit.lengths.getD 0 0)) (litSymsOf mode hist mb 0 cmds))
    (hcI : Covers mbs.cmdHistos (trivialMap mbs.cmd.numTypes 1) 1
      (remTypes mbs.cmd 0 (mbs.cmd.lengths.getD 0 0)) (cmds.map fun c => (0, c.cmdPrefix)))
    (hcD : Covers mbs.distHistos (effMap mbs.distCmap mbs.distCmapSize mbs.dist.numTypes 4) 4
      (remTypes mbs.dist 0 (mbs.dist.lengths.getD 0 0)) (distSymsOf cmds)) :
    ∃ bits out ring',
      storeMetaBlockFull ring start mb.length mask prevByte prevByte2 isLast dp mode cmds mbs w = .ok (w ++ bits) ∧
      replayCommands wo dp.npostfix dp.ndirect window mb dc hist cmds = some out ∧
      (∀ rest, readMetaBlockFullG wo window dp.large w.length ⟨hist, dc⟩ (bits ++ rest)
        = some (⟨out, ring'⟩, isLast, (w ++ bits).length, rest)) ∧
      (replayCommands wo dp.npostfix dp.ndirect window mb dc hist cmds = some (hist ++ mb) → out = hist ++ mb) := by
  obtain ⟨bits, fin, e, hdec, _, hrd⟩ := full_core wo window ring start mask prevByte prevByte2 mb isLast dp mode cmds mbs
    hist dc w hR h256 hh256 h1 h2 (by unfold two64; simpa using h64) hIP hprev hmode hnp hnd1 hnd2 hA hA544 hok hcl2 hlock
    hfa hM hcL hcI hcD
  refine ⟨bits, fin.out, fin.ring, e, ?_, hrd, ?_⟩
  · unfold replayCommands; rw [hdec]; rfl
  · intro hp
    unfold replayCommands at hp
    rw [hdec] at hp
    simpa using hp

open BV.Stored (writeMetaBlockInternal MbOracle) in
/-- **wmbi_full_roundtrip** — `WriteMetaBlockInternal` at quality ≥ 4 (model of its size decision:
`BV.Stored.writeMetaBlockInternal`, C08 `guard_holds`; compressed attempt = `BrotliStoreMetaBlock`).  Same hypotheses
as `full_metablock_roundtrip` plus the payload hypothesis of C14.  For EVERY verdict of `should_compress`, appendable /
catable / last or not: the attempt is written without panic, the call returns, and what it leaves in the storage —
the compressed meta-block, or the stored one when the attempt was not tried or is more than `len + 4` bytes long,
plus the separate empty last meta-block of appendable streams — is read by the general RFC reader from the decoder
state `(hist, dc)` to a state whose output is `hist ++ mb`. -/
theorem wmbi_full_roundtrip (wo : WordOracle) (window : Nat) (ring : Bytes) (start mask prevByte prevByte2 : Nat)
    (mb : Bytes) (appendable catable actualIsLast shouldCompress : Bool) (dp : DistP) (mode : Nat) (cmds : List Cmd)
    (mbs : MBSplit) (hist : Bytes) (dc : List Int) (w : List Bool)
    (hR : RingHolds ring mask start mb) (h256 : ∀ b ∈ mb, b < 256) (hh256 : ∀ b ∈ hist, b < 256)
    (h1 : 1 ≤ mb.length) (h2 : mb.length ≤ 2 ^ 24) (h64 : start + mb.length < 2 ^ 64)
    (hIP : inputPairCheck ring start mb.length mask = .ok ())
    (hprev : prevByte = lastB hist ∧ prevByte2 = last2B hist) (hmode : mode < 4)
    (hnp : dp.npostfix ≤ 3) (hnd1 : dp.ndirect % 2 ^ dp.npostfix = 0) (hnd2 : dp.ndirect / 2 ^ dp.npostfix < 16)
    (hA : dp.alphabetSize = distAlphabetSize dp.large dp.npostfix dp.ndirect) (hA544 : dp.alphabetSize ≤ 544)
    (hok : ∀ c ∈ cmds, cmdOK dp.alphabetSize dp.npostfix dp.ndirect c = true)
    (hcl2 : ∀ c ∈ cmds, copyLen c ≠ 0 → 2 ≤ copyLen c)
    (hlock : lockstep wo dp.npostfix dp.ndirect window mb ⟨hist, dc, 0⟩ 0 cmds = true)
    (hfa : faithful wo dp.npostfix dp.ndirect window mb hist ⟨hist, dc, 0⟩ cmds)
    (hpay : replayCommands wo dp.npostfix dp.ndirect window mb dc hist cmds = some (hist ++ mb))
    (hM : MBOK mbs dp.alphabetSize)
    (hcL : Covers mbs.litHistos (effMap mbs.litCmap mbs.litCmapSize mbs.lit.numTypes 64) 64
      (remTypes mbs.lit 0 (mbs.lit.lengths.getD 0 0)) (litSymsOf mode hist mb 0 cmds))
    (hcI : Covers mbs.cmdHistos (trivialMap mbs.cmd.numTypes 1) 1
      (remTypes mbs.cmd 0 (mbs.cmd.lengths.getD 0 0)) (cmds.map fun c => (0, c.cmdPrefix)))
    (hcD : Covers mbs.distHistos (effMap mbs.distCmap mbs.distCmapSize mbs.dist.numTypes 4) 4
      (remTypes mbs.dist 0 (mbs.dist.lengths.getD 0 0)) (distSymsOf cmds))
    (hcat : catable = true → appendable = true) (hw : w.length < 256) :
    ∃ att r bits s'',
      storeMetaBlockFull ring start mb.length mask prevByte prevByte2 (if appendable then false else actualIsLast)
        dp mode cmds mbs w = .ok (w ++ att) ∧
      writeMetaBlockInternal appendable catable actualIsLast mb ⟨shouldCompress, att⟩ w = .ok r ∧
      r.fin = w ++ bits ∧ s''.out = hist ++ mb ∧
      (actualIsLast = true → ∀ rest f,
        readMetaBlocksG wo window dp.large (f + 2) w.length ⟨hist, dc⟩ (bits ++ rest) = some (s'', rest)) ∧
      (actualIsLast = false →
        ReadsToG wo window dp.large w.length ⟨hist, dc⟩ bits false (w.length + bits.length) s'') := by
  obtain ⟨att, out, ring', e, _, hrd, hout⟩ := full_metablock_roundtrip wo window ring start mask prevByte prevByte2 mb
    (if appendable then false else actualIsLast) dp mode cmds mbs hist dc w hR h256 hh256 h1 h2 h64 hIP hprev hmode hnp
    hnd1 hnd2 hA hA544 hok hcl2 hlock hfa hM hcL hcI hcD
  have ho := hout hpay
  obtain ⟨r, bits, s'', a1, a2, a3, a4, a5⟩ := wmbi_readsG wo window dp.large appendable catable actualIsLast mb
    ⟨shouldCompress, att⟩ w ⟨hist, dc⟩ ⟨out, ring'⟩ hcat h1 h2 hw h256 ho
    (fun _ => by intro rest; rw [hrd rest, List.length_append])
  exact ⟨att, r, bits, s'', e, a1, a2, a3, a4, a5⟩

/-! non-vacuity of `full_metablock_roundtrip` / `wmbi_full_roundtrip`: the command array of the second module's example
(real encoder, quality 5: five literals and two copies through short distance codes) with a `MetaBlockSplit` of two
literal block types, a literal context map of 128 entries over two clusters (type 1 uses cluster 1 for the contexts
0..31, cluster 0 for the rest), one command block type, two distance block types without a distance context map.
Every hypothesis holds (kernel-checked through the executable forms `coversB`, `faithfulB`, `histosB`).
(The model writer on this instance emits 240 bits which the general reader decodes to the input: `#eval`-checked;
as a kernel `decide` it costs 30 s — C17's tree construction over the 704-entry command histogram — and is left out.) -/
def exHisto (n : Nat) (l : List (Nat × Nat)) : List Nat := l.foldl (fun h p => h.set p.1 p.2) (List.replicate n 0)

def exSplit : MBSplit :=
  { lit := ⟨2, 2, [0, 1], [2, 3]⟩, cmd := ⟨1, 1, [0], [2]⟩, dist := ⟨2, 2, [0, 1], [1, 1]⟩,
    litCmap := List.replicate 64 0 ++ (List.replicate 32 1 ++ List.replicate 32 0), litCmapSize := 128,
    distCmap := [], distCmapSize := 0,
    litHistos := [exHisto 256 [(0x69, 2), (0x8e, 2)], exHisto 256 [(0x69, 1)]], litHistosSize := 2,
    cmdHistos := [exHisto 704 [(232, 1), (132, 1)]], cmdHistosSize := 1,
    distHistos := [exHisto 544 [(5, 1)], exHisto 544 [(3, 1)]], distHistosSize := 2 }

open BV.Props.C01MetaBlock (exMb exRing exCmds noWords) in
example : MBOK exSplit 64 ∧
    (∀ c ∈ exCmds, cmdOK 64 0 0 c = true) ∧ (∀ c ∈ exCmds, copyLen c ≠ 0 → 2 ≤ copyLen c) ∧
    lockstep noWords 0 0 1008 exMb ⟨[], [4, 11, 15, 16], 0⟩ 0 exCmds = true ∧
    faithful noWords 0 0 1008 exMb [] ⟨[], [4, 11, 15, 16], 0⟩ exCmds ∧
    Covers exSplit.litHistos (effMap exSplit.litCmap exSplit.litCmapSize exSplit.lit.numTypes 64) 64
      (remTypes exSplit.lit 0 (exSplit.lit.lengths.getD 0 0)) (litSymsOf 0 [] exMb 0 exCmds) ∧
    Covers exSplit.cmdHistos (trivialMap exSplit.cmd.numTypes 1) 1
      (remTypes exSplit.cmd 0 (exSplit.cmd.lengths.getD 0 0)) (exCmds.map fun c => (0, c.cmdPrefix)) ∧
    Covers exSplit.distHistos (effMap exSplit.distCmap exSplit.distCmapSize exSplit.dist.numTypes 4) 4
      (remTypes exSplit.dist 0 (exSplit.dist.lengths.getD 0 0)) (distSymsOf exCmds) := by
  refine ⟨⟨?_, ?_, ?_, histosOK_of_B _ _ _ _ (by decide +kernel), histosOK_of_B _ _ _ _ (by decide +kernel),
    histosOK_of_B _ _ _ _ (by decide +kernel), rfl, (fun h => absurd h (by decide)), (fun _ => ⟨rfl, rfl, by decide +kernel⟩),
    (fun _ => rfl), (fun h => absurd rfl h)⟩, by decide, by decide, by decide,
    faithful_of_B _ _ _ _ _ _ _ _ (by decide +kernel), covers_of_B _ _ _ _ _ (by decide +kernel),
    covers_of_B _ _ _ _ _ (by decide +kernel), covers_of_B _ _ _ _ _ (by decide +kernel)⟩
  · exact ⟨rfl, rfl, by decide, by decide, rfl, by decide, by decide, by decide, by decide, by decide⟩
  · exact ⟨rfl, rfl, by decide, by decide, rfl, by decide, by decide, by decide, by decide, by decide⟩
  · exact ⟨rfl, rfl, by decide, by decide, rfl, by decide, by decide, by decide, by decide, by decide⟩

/-! ### the general reader extends the single-type reader -/

/-- **general_reader_extends** — whatever the single-type reader of `BV/Model/MetaBlock.lean` (NBLTYPES = 1 per
category, NTREES = 1; the reader of `trivial_metablock_roundtrip` / `fast_metablock_roundtrip` / C01's stream
theorems) accepts, the general reader reads to the SAME result: one meta-block, the meta-block loop, a whole stream.
(With one block type `Cat.next` never switches; an all-zero context map sends every context id — all are `< 64`,
resp. `< 4` — to tree 0.)  So every round-trip theorem stated with the single-type reader holds verbatim for the
general reader. -/
theorem general_reader_extends (wo : WordOracle) (window : Nat) (large : Bool) :
    (∀ pos s bs x, readMetaBlockFull wo window large pos s bs = some x →
      readMetaBlockFullG wo window large pos s bs = some x) ∧
    (∀ f pos s bs x, readMetaBlocks wo window large f pos s bs = some x →
      readMetaBlocksG wo window large f pos s bs = some x) ∧
    (∀ bs out, readStream wo bs = some out → readStreamG wo bs = some out) := by
  refine ⟨readMetaBlockFullG_extends wo window large, readMetaBlocksG_extends wo window large, ?_⟩
  intro bs out h
  unfold readStream at h
  unfold readStreamG
  cases hw : HeaderSpec.readWbits bs with
  | none => rw [hw] at h; cases h
  | some p =>
    obtain ⟨lgwin, lg, r⟩ := p
    rw [hw] at h
    simp only at h ⊢
    cases hm : readMetaBlocks wo (2 ^ lgwin - 16) lg (bs.length + 1) (bs.length - r.length) ⟨[], [4, 11, 15, 16]⟩ r with
    | none => rw [hm] at h; cases h
    | some q =>
      rw [hm] at h
      rw [readMetaBlocksG_extends wo _ lg _ _ _ _ q hm]
      exact h

/-- `trivial_metablock_roundtrip` and `fast_metablock_roundtrip`, read by the general reader -/
theorem trivial_fast_roundtrip_general (wo : WordOracle) (window : Nat) (large : Bool) (ring : Bytes)
    (start mask : Nat) (mb : Bytes) (isLast : Bool) (cmds : List Cmd) (hist : Bytes) (dc : List Int)
    (w : List Bool)
    (hR : RingHolds ring mask start mb) (h256 : ∀ b ∈ mb, b < 256)
    (h1 : 1 ≤ mb.length) (h2 : mb.length ≤ 2 ^ 24) (hst : start < 2 ^ 64)
    (hIP : inputPairCheck ring start mb.length mask = .ok ())
    (hok : ∀ c ∈ cmds, cmdOK (distAlphabetSize large 0 0) 0 0 c = true)
    (hlock : lockstep wo 0 0 window mb ⟨hist, dc, 0⟩ 0 cmds = true) :
    (∃ bits out ring',
      storeMetaBlockTrivial ring start mb.length mask isLast (distAlphabetSize large 0 0) cmds w = .ok (w ++ bits) ∧
      replayCommands wo 0 0 window mb dc hist cmds = some out ∧
      ∀ rest, readMetaBlockFullG wo window large w.length ⟨hist, dc⟩ (bits ++ rest)
        = some (⟨out, ring'⟩, isLast, (w ++ bits).length, rest)) ∧
    (∃ bits out ring',
      storeMetaBlockFast ring start mb.length mask isLast (distAlphabetSize large 0 0) cmds w = .ok (w ++ bits) ∧
      replayCommands wo 0 0 window mb dc hist cmds = some out ∧
      ∀ rest, readMetaBlockFullG wo window large w.length ⟨hist, dc⟩ (bits ++ rest)
        = some (⟨out, ring'⟩, isLast, (w ++ bits).length, rest)) := by
  obtain ⟨b1, o1, r1, e1, p1, q1, _⟩ := BV.Props.C01MetaBlock.trivial_metablock_roundtrip wo window large ring start mask
    mb isLast cmds hist dc w hR h256 h1 h2 hst hIP hok hlock
  obtain ⟨b2, o2, r2, e2, p2, q2, _⟩ := BV.Props.C01MetaBlock.fast_metablock_roundtrip wo window large ring start mask
    mb isLast cmds hist dc w hR h256 h1 h2 hst hIP hok hlock
  exact ⟨⟨b1, o1, r1, e1, p1, fun rest => readMetaBlockFullG_extends _ _ _ _ _ _ _ (q1 rest)⟩,
    ⟨b2, o2, r2, e2, p2, fun rest => readMetaBlockFullG_extends _ _ _ _ _ _ _ (q2 rest)⟩⟩

/-! ### the context-map expansion of `BrotliBuildMetaBlock` -/

/-- **contextmap_expansion_correct** — the loop of `BrotliBuildMetaBlock` under
`disable_literal_context_modeling != 0` that expands the clustering result (one cluster id per literal block type,
stored in `map[0 .. num_types)`) to 64 contexts per type, in place, block types in DESCENDING order:
for every map of at least `64 · num_types` entries, `num_types ≤ 256`, it does not panic, entry `64·t + j`
(`j < 64`) of the result is the cluster id of type `t`, and the entries behind `64 · num_types` are untouched.
(Seed `C01-q10-contextmap-expand-ascending`: in ascending order type 0 overwrites `map[1 .. 64)` before the other
cluster ids are read — the second example.) -/
theorem contextmap_expansion_correct (n : Nat) (m : List Nat) (hn : n ≤ 256) (hl : 64 * n ≤ m.length) :
    ∃ m', expandContextMap n m = .ok m' ∧ m'.length = m.length ∧
      (∀ t j, t < n → j < 64 → m'.getD (64 * t + j) 0 = m.getD t 0) ∧ ∀ k, 64 * n ≤ k → m'.getD k 0 = m.getD k 0 :=
  expandContextMap_spec n m hn hl

example : (expandContextMap 2 ([5, 7] ++ List.replicate 126 0)).bind
      (fun m => .ok (m.getD 0 0, m.getD 63 0, m.getD 64 0, m.getD 127 0)) = .ok (5, 5, 7, 7) ∧
    (expandContextMapAsc 2 0 ([5, 7] ++ List.replicate 126 0)).bind
      (fun m => .ok (m.getD 0 0, m.getD 63 0, m.getD 64 0, m.getD 127 0)) = .ok (5, 5, 5, 5) := by
  refine ⟨by decide +kernel, by decide +kernel⟩

end BV.Props.C01MetaBlockFull
