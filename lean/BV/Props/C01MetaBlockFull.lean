/-
C01 (third module) — the general compressed meta-block writer `BrotliStoreMetaBlock` (quality ≥ 4).

Model: `BV/Model/MetaBlockFull.lean` (`storeMetaBlockFull` and everything below it: block-split codes and
block switches, `StoreTrivialContextMap`, `EncodeContextMap` with its move-to-front transform and zero-run
coding, the per-cluster entropy codes of `BlockEncoder`, literal contexts (`Context`, the two lookup tables are
generated from `constants.rs`) and distance contexts).  The `MetaBlockSplit` (splits, context maps, per-cluster
histograms) is INPUT of the writer: the clustering heuristics are outside the model.
SPEC side: `readCompressedBodyG` / `readMetaBlockFullG` / `readStreamG` — the RFC 7932 §9.2/§9.3/§10 reader in
its general form (NBLTYPES ≥ 1 per category with block-type and block-count prefix codes and the
"second-to-last / last + 1" type rule of §6, context modes, context maps with RLEMAX and the inverse
move-to-front transform of §7.3, NTREES prefix codes, block switches inside the command loop, §7.1/§7.2 context ids).

Tied to the code by the `storefull`, `cmap`, `bsw`, `readg` lines of engine `metablock`
(`/verif/harness/src/metablock.rs`).
-/
import BV.Lemmas.MetaBlockCmap

namespace BV.Props.C01MetaBlockFull
open BV.Gen BV.Bits BV.Huffman BV.PrefixArith BV.Recoder BV.MetaBlock

/-- **context_map_roundtrip** — `EncodeContextMap(context_map, context_map_size, num_clusters)`.
For EVERY context map of `1 ≤ size ≤ 2^24` entries with entries `< num_clusters`, `1 ≤ num_clusters ≤ 256`,
behind any already written bits `w` and before any following bits `rest`:
the writer does not panic (no index out of range in the 256-entry move-to-front table, the 272-entry
histogram / depth / bit tables, no `BrotliWriteBits` assertion, the Huffman construction terminates), and
the RFC 7932 §7.3 reader — NTREES, RLEMAX flag and value, the prefix code over NTREES + RLEMAX symbols, the
symbols (`0` = one zero, `1..RLEMAX` = a run of `2^sym + extra` zeros, above = the value `sym − RLEMAX`),
the IMTF bit, the inverse move-to-front transform — returns exactly `(num_clusters, context_map)` and stops
behind the description.  This covers every run length of zeros (the writer splits runs of `≥ 2^(max_prefix+1)`
zeros into several run symbols; `zeroRunSymbols_spec` is proved for every run length and every
`max_run_length_prefix` 0..6) and every value of `max_run_length_prefix` the writer chooses. -/
theorem context_map_roundtrip (m : List Nat) (n : Nat) (w rest : List Bool) (h1 : 1 ≤ m.length)
    (hlen : m.length ≤ 2 ^ 24) (hn1 : 1 ≤ n) (hn : n ≤ 256) (hm : ∀ x ∈ m, x < n) :
    ∃ bits, encodeContextMap m m.length n w = .ok (w ++ bits) ∧
      readContextMap m.length (bits ++ rest) = some (n, m, rest) := by
  obtain ⟨bits, h1, h2⟩ := encodeContextMap_roundtrip m n w h1 hlen hn1 hn hm
  exact ⟨bits, h1, h2 rest⟩

/-- non-vacuity, and the bits of a small map (a run of 4 zeros, two equal values, a run of 3 zeros) -/
example : (∀ x ∈ [0, 0, 0, 0, 2, 2, 1, 0, 0, 0], x < 3) ∧
    (encodeContextMap [0, 0, 0, 0, 2, 2, 1, 0, 0, 0] 10 3 []).bind (fun w => .ok (w.length, toBytes w))
      = .ok (42, [0x63, 0x34, 0xa1, 0x3c, 0x62, 0x02]) ∧
    (encodeContextMap [0, 0, 0, 0, 2, 2, 1, 0, 0, 0] 10 3 []).bind (fun w => .ok (readContextMap 10 w))
      = .ok (some (3, [0, 0, 0, 0, 2, 2, 1, 0, 0, 0], [])) := by
  refine ⟨by decide, by decide +kernel, by decide +kernel⟩

/-- the move-to-front transform is undone by the inverse transform of §7.3 -/
theorem mtf_inverse_roundtrip (m : List Nat) (h1 : 1 ≤ m.length) (hm : ∀ x ∈ m, x < 256) :
    ∃ idxs, moveToFrontTransform m m.length = .ok idxs ∧ inverseMtf idxs = m := by
  obtain ⟨idxs, e1, _, _, _, e4⟩ := mtf_roundtrip m h1 hm
  exact ⟨idxs, e1, e4⟩

/-- the zero-run coding is undone by the reader's run expansion, for every prefix limit 0..6 -/
theorem rle_zero_runs_roundtrip (v : List Nat) (hv : ∀ x ∈ v, x < 256) :
    ((runLengthCodeZeros v 6).1.flatMap (rleDec (runLengthCodeZeros v 6).2)) = v := by
  have hP : (runLengthCodeZeros v 6).2 ≤ 6 := by unfold runLengthCodeZeros; exact Nat.min_le_right _ _
  exact (rleLoop_spec _ hP (v.length + 1) v (by omega) hv).1

end BV.Props.C01MetaBlockFull
