/-
C15 — Header declares the requested window; magic header states mode and size hint.

Model: `BV/Model/Header.lean` (mirrors `SanitizeParams`, `ComputeLgBlock`,
`EncodeWindowBits`, `ensure_initialized`, `update_size_hint`, `encode_base_128`,
`BrotliWriteMetadataMetaBlock`, the head of `encode_data` and the quality-0/1
dispatch of `compress_stream`; literals regenerated from the Rust source).
Specification side: `BV/Lemmas/HeaderSpec.lean` (RFC 7932 §9.1 / §9.2 readers,
large-window extension, base-128 reader, `clampWindow`, `modeByte`) — written
independently of the model.

All theorems hold for EVERY raw parameter value (quality, lgwin any integer,
any flag combination, any `u64` size hint) and every input; nothing is sampled.
-/
import BV.Lemmas.Header
import BV.Lemmas.HeaderB128
import BV.Lemmas.HeaderMagic
import BV.Lemmas.HeaderStart
import BV.Model.Stored

namespace BV.Props.C15
open BV.Bits BV.Bits.Out BV.Header BV.HeaderSpec

/-- `wbits_roundtrip`: for every window 10‥30 in the large form and 10‥24 in the
normal form, the RFC reader applied to the bits of `EncodeWindowBits` (followed
by anything) returns the window and the form and consumes exactly those bits;
the bit count is 1 / 4 / 7 / 14 by form; and the 16-bit `last_bytes_` carries
nothing above those bits. -/
theorem wbits_roundtrip (lgwin : Int) (lw : Bool) (h1 : 10 ≤ lgwin) (h2 : lgwin ≤ 30)
    (h3 : lw = false → lgwin ≤ 24) (rest : List Bool) :
    readWbits (bitsOf (encodeWindowBits lgwin lw).2 (encodeWindowBits lgwin lw).1 ++ rest)
        = some (lgwin.toNat, lw, rest) ∧
    (encodeWindowBits lgwin lw).2 = (if lw then 14 else if lgwin.toNat = 16 then 1 else if 18 ≤ lgwin.toNat then 4 else 7) ∧
    (encodeWindowBits lgwin lw).1 / 2 ^ (encodeWindowBits lgwin lw).2 = 0 := by
  obtain ⟨w, rfl⟩ : ∃ w : Nat, lgwin = (w : Int) := ⟨lgwin.toNat, by omega⟩
  have g1 : 10 ≤ w := by omega
  have g2 : w ≤ 30 := by omega
  refine ⟨?_, ?_, ?_⟩
  · cases lw
    · simpa using wbits_roundtrip_small w g1 (by have := h3 rfl; omega) rest
    · simpa using wbits_roundtrip_large w g1 g2 rest
  · rw [wbits_count w g1 g2 lw]; simp
  · exact wbits_high_zero w g1 g2 lw (by intro h; have := h3 h; omega)

/-- non-vacuity: all four forms occur -/
example : (encodeWindowBits 16 false).2 = 1 ∧ (encodeWindowBits 22 false).2 = 4 ∧
    (encodeWindowBits 12 false).2 = 7 ∧ (encodeWindowBits 28 true).2 = 14 := by decide

/-- `declared_window`: for every raw quality and lgwin (any integers), every flag
combination and size hint: the bits pending after `ensure_initialized` — which
every stream begins with (`stream_begins_with_window`) — read back, under the
RFC reader, as the window `clamp(lgwin, 10, large ? 30 : 24)`, raised to 18 at
quality ≤ 1, in the form that was requested. -/
theorem declared_window (p : Params) (rest : List Bool) :
    readWbits (pendingWriter (ensureInitialized true p) ++ rest)
      = some ((clampWindow p.quality p.lgwin p.largeWindow).toNat, p.largeWindow, rest) := by
  rw [pending_eq]
  obtain ⟨h1, h2, h3⟩ := clampWindow_range p.quality p.lgwin p.largeWindow
  exact (wbits_roundtrip _ _ h1 h2 h3 rest).1

/-- every stream (any parameters, any input the model covers) begins with those bits -/
theorem stream_begins_with_window (p : Params) (input : List Nat) (st : Start)
    (h : streamStart true p input = ok st) :
    ∃ tail, readWbits st.bits
      = some ((clampWindow p.quality p.lgwin p.largeWindow).toNat, p.largeWindow, tail) := by
  obtain ⟨t, ht⟩ := streamStart_begins_with_window p input st h
  exact ⟨t, by rw [ht]; exact declared_window p t⟩

/-- non-vacuity: a concrete stream start, its declared window is 18 although 12 was requested (quality 1) -/
def exampleQ1 : Params where
  quality := 1
  lgwin := 12
  lgblock := 0
  largeWindow := false
  catable := false
  appendable := false
  useDictionary := true
  magicNumber := false
  sizeHint := 0

example : ∃ st, streamStart true exampleQ1 [97, 98] = ok st ∧ (readWbits st.bits).map (·.1) = some 18 :=
  ⟨_, rfl, by decide⟩

/-- the one-shot call (`encoder_compress`, no `large_window` argument): it asks for
large windows exactly when `lgwin > 24`, so its streams declare
`clamp(lgwin, 10, lgwin > 24 ? 30 : 24)` (18 at least for quality ≤ 1) in the
large form iff `lgwin > 24` — in particular the normal form for `lgwin = 24`. -/
theorem oneshot_declared_window (quality lgwin : Int) (n : Nat) (rest : List Bool) :
    readWbits (pendingWriter (ensureInitialized true (BV.Stored.oneshotParams quality lgwin n)) ++ rest)
      = some ((clampWindow quality lgwin (decide (lgwin > 24))).toNat, decide (lgwin > 24), rest) := by
  rw [declared_window]
  have hq : clampWindow (BV.Stored.oneshotParams quality lgwin n).quality lgwin (decide (lgwin > 24))
      = clampWindow quality lgwin (decide (lgwin > 24)) := by
    simp only [BV.Stored.oneshotParams, lit, BV.Gen.lits_encoder_compress, List.getD_cons_zero,
      List.getD_cons_succ, clampWindow]
    split <;> simp <;> omega
  show some ((clampWindow (BV.Stored.oneshotParams quality lgwin n).quality lgwin (decide (lgwin > 24))).toNat,
    decide (lgwin > 24), rest) = _
  rw [hq]

example : (BV.Stored.oneshotParams 5 24 3).largeWindow = false ∧ (BV.Stored.oneshotParams 5 25 3).largeWindow = true := by
  decide

/-- `large_header_iff_requested`: the 14-bit large-window form is used exactly when
`large_window` was requested (whatever lgwin) -/
theorem large_header_iff_requested (p : Params) :
    ((ensureInitialized true p).lastBytesBits = 14 ↔ p.largeWindow = true) ∧
    (∀ rest, (readWbits (pendingWriter (ensureInitialized true p) ++ rest)).map (·.2.1) = some p.largeWindow) := by
  constructor
  · obtain ⟨h1, h2, h3⟩ := clampWindow_range p.quality p.lgwin p.largeWindow
    have hb : (ensureInitialized true p).lastBytesBits
        = (encodeWindowBits (clampWindow p.quality p.lgwin p.largeWindow) p.largeWindow).2 := by
      have := header_lgwin p
      have hl := init_params_large p
      simp only [ensureInitialized] at *
      rw [this, hl]
    rw [hb, (wbits_roundtrip _ _ h1 h2 h3 []).2.1]
    cases p.largeWindow <;> simp
    split <;> try split
    all_goals omega
  · intro rest; rw [declared_window]; rfl

/-- `window_used_le_declared`: the window the match finders work with
(`params.lgwin` after sanitising: it bounds `max_backward_limit = 2^lgwin − 16`
everywhere) never exceeds the declared one; they are equal from quality 2 on; and
the ring buffer holds at least twice that window. -/
theorem window_used_le_declared (p : Params) :
    (ensureInitialized true p).params.lgwin ≤ clampWindow p.quality p.lgwin p.largeWindow ∧
    (2 ≤ p.quality → (ensureInitialized true p).params.lgwin = clampWindow p.quality p.lgwin p.largeWindow) ∧
    (ensureInitialized true p).params.lgwin + 1 ≤ computeRbBits (ensureInitialized true p).params := by
  rw [init_params_lgwin, sanitize_lgwin]
  refine ⟨?_, ?_, ?_⟩
  · simp only [clampWindow]; cases p.largeWindow <;> simp <;> omega
  · intro hq; simp only [clampWindow]; cases p.largeWindow <;> simp <;> omega
  · simp only [computeRbBits, lit, BV.Gen.lits_ComputeRbBits, List.getD_cons_zero]
    have : (ensureInitialized true p).params.lgwin = max 10 (min (if p.largeWindow then 30 else 24) p.lgwin) := by
      rw [init_params_lgwin, sanitize_lgwin]
    rw [this]
    omega

/-- `base128_roundtrip`: for every `u64` value, `encode_base_128` yields 1‥10
bytes (each `< 256`) that the base-128 reader decodes to the value, leaving
whatever follows untouched. -/
theorem base128_roundtrip (v : Nat) (hv : v < 2 ^ 64) (rest : List Nat) :
    decodeBase128 (encodeBase128 v ++ rest) = some (v, rest) ∧
    1 ≤ (encodeBase128 v).length ∧ (encodeBase128 v).length ≤ 10 ∧ ∀ b ∈ encodeBase128 v, b < 256 :=
  encodeBase128_spec v hv rest

example : encodeBase128 300 = [0xac, 0x02] ∧ (encodeBase128 (2 ^ 64 - 1)).length = 10 := by decide

/-- the size hint the magic block states: the caller's, or — when that is 0 — the
amount of input seen at the first encoder call, capped at 2^30 -/
theorem effective_hint (p : Params) (n : Nat) (hn : n < 2 ^ 64) :
    (effectiveParams p n).sizeHint = if p.sizeHint = 0 then min n (2 ^ 30) else p.sizeHint := by
  have hs : (ensureInitialized true p).params.sizeHint = p.sizeHint := by
    have := (sanitize_flags true p).2.2.2.2.2
    simp only [ensureInitialized]; rw [this]
  simp only [effectiveParams, hs, updateSizeHint, lit, litsUsh, BV.Gen.lits_update_size_hint,
    List.getD_cons_zero, List.getD_cons_succ]
  split
  · simp only [Nat.add_zero, Nat.mod_eq_of_lt hn]
    split
    · omega
    · have : n < 2 ^ 32 := by omega
      rw [Nat.mod_eq_of_lt this]; omega
  · rfl

/-- the payload the model writes is the specified one: magic bytes with the mode
byte of the *requested* flags (catable implies appendable), the crate VERSION,
the base-128 size hint -/
theorem magic_payload_spec (p : Params) (n : Nat) :
    magicPayload (effectiveParams p n)
      = [0xe1, 0x97, modeByte p.catable p.appendable p.useDictionary, BV.Gen.BROTLI_CRATE_VERSION]
        ++ encodeBase128 (effectiveParams p n).sizeHint := by
  obtain ⟨_, f2, f3, f4, _, _⟩ := sanitize_flags true p
  have e2 : (effectiveParams p n).catable = p.catable := f2
  have e3 : (effectiveParams p n).appendable = (p.appendable || p.catable) := f3
  have e4 : (effectiveParams p n).useDictionary = p.useDictionary := f4
  simp only [magicPayload, magicNumber_eq, e2, e3, e4, modeByte]
  cases p.catable <;> cases p.appendable <;> cases p.useDictionary <;> rfl

/-- `magic_block_exact`: with `magic_number` on (any other parameters, any input),
the stream is: window bits ‖ metadata meta-block header with MSKIPLEN = 4 + k ‖
zero padding to the byte boundary ‖ `e1 97 8x` (mode table) ‖ VERSION ‖
base-128 size hint (k bytes) ‖ rest.  Under the RFC readers: the window is read
first, then a *metadata* meta-block (no content) whose payload is exactly those
4 + k bytes, ending on a byte boundary; the base-128 reader recovers the size hint. -/
theorem magic_block_exact (p : Params) (input : List Nat) (st : Start)
    (hh : p.sizeHint < 2 ^ 64) (hn : input.length < 2 ^ 64) (hm : p.magicNumber = true)
    (h : streamStart true p input = ok st) :
    ∃ (r1 tail : List Bool) (pos' : Nat),
      readWbits st.bits = some ((clampWindow p.quality p.lgwin p.largeWindow).toNat, p.largeWindow, r1) ∧
      readMetaBlock (ensureInitialized true p).lastBytesBits r1
        = some (MetaBlock.metadata
            ([0xe1, 0x97, modeByte p.catable p.appendable p.useDictionary, BV.Gen.BROTLI_CRATE_VERSION]
              ++ encodeBase128 (if p.sizeHint = 0 then min input.length (2 ^ 30) else p.sizeHint)),
            pos', tail) ∧
      pos' % 8 = 0 ∧
      decodeBase128 (encodeBase128 (if p.sizeHint = 0 then min input.length (2 ^ 30) else p.sizeHint))
        = some (if p.sizeHint = 0 then min input.length (2 ^ 30) else p.sizeHint, []) ∧
      (encodeBase128 (if p.sizeHint = 0 then min input.length (2 ^ 30) else p.sizeHint)).length ≤ 10 := by
  obtain ⟨_, t, ht⟩ := streamStart_magic p input st hh hm h
  have hhint := effective_sizeHint_lt p input.length hh
  have hb := encodeBase128_spec (effectiveParams p input.length).sizeHint hhint []
  have heff := effective_hint p input.length hn
  have hlen : (pendingWriter (ensureInitialized true p)).length = (ensureInitialized true p).lastBytesBits := by
    simp [pendingWriter]
  rw [jump_eq] at ht
  have h14 : (pendingWriter (ensureInitialized true p) ++
      magicHeaderBits (encodeBase128 (effectiveParams p input.length).sizeHint).length).length
      = (ensureInitialized true p).lastBytesBits + 14 := by
    simp [magicHeaderBits, hlen]
  rw [h14] at ht
  have hr := readMeta_magic (effectiveParams p input.length) (pendingWriter (ensureInitialized true p)) t hhint
  rw [hlen, magic_payload_spec] at hr
  simp only [List.append_assoc] at hr ht
  rw [magic_payload_spec] at ht
  rw [heff] at hr ht hb
  refine ⟨_, t, _, ?_, hr, ?_, by simpa using hb.1, hb.2.2.1⟩
  · rw [ht]
    exact declared_window p _
  · simp only [List.length_append, List.length_cons, List.length_nil]
    omega

/-- without `magic_number` the model writes no magic block (the first meta-block
belongs to the payload / prelude) -/
theorem no_magic_unless_requested (p : Params) (input : List Nat) (st : Start)
    (hm : p.magicNumber = false) (h : streamStart true p input = ok st) : st.magic = false :=
  streamStart_no_magic p input st hm h

/-- non-vacuity of `magic_block_exact`: a concrete catable stream with the magic block -/
def exampleMagic : Params where
  quality := 5
  lgwin := 22
  lgblock := 0
  largeWindow := true
  catable := true
  appendable := false
  useDictionary := false
  magicNumber := true
  sizeHint := 0

set_option maxRecDepth 4096 in
example : ∃ st, streamStart true exampleMagic [97, 98] = ok st ∧
    toBytes st.bits = [0x11, 0x96, 0x45, 0x00, 0xe1, 0x97, 0x81, 0x01, 0x02, 0x08, 0x00, 0x08, 0x61, 0x62, 0x03] :=
  ⟨_, rfl, rfl⟩

end BV.Props.C15
