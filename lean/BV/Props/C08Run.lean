/-
C08, run level — the stream clauses of "the advertised maximum compressed size is honoured" stated
over the run-level object of the stream machine (`BV/Model/StreamRun.lean`: `run` folds
`set_parameter` / `compress_stream` / `take_output` over a whole history with ONE oracle).

* `stream_phase_within_buffer`, `oneshot_contract_run`: the stream phase of the one-shot call — a
  single FINISH call on a fresh encoder with `available_out = *encoded_size` — never hands out more
  than `available_out` bytes and `total_out_` counts exactly them (byte ledger of the stream machine,
  Lemmas/StreamTotal.lean), so the
  hypothesis `so.totalOut ≤ outCap` of `BV.Props.C08.oneshot_contract` is discharged for the
  outcome the stream model computes.
* `nonfinal_requests_cover_blocks_run`: the hypothesis `BlocksOK` of the stream clause DERIVED FROM THE
  RUN — one theorem over `run` for every never-flushed history at quality ≥ 2 (instance `nfqSim` of the
  run-level simulation `run_sim`, Lemmas/StreamRunSim.lean + StreamNFFull.lean).
* `never_flushed_run_structure`, `stream_total_le_bound_run`: the grammar of the log of a never-flushed
  run (second instance `nfSim`, Lemmas/StreamNFSum.lean) and the SUM — bytes delivered ≤ Max(total input) —
  with the per-meta-block growth bound as the only payload hypothesis (log arithmetic:
  Lemmas/StreamNFArith.lean); `pieceGuard_of_wmbi` links that bound to `guard_holds`.
-/
import BV.Props.C08
import BV.Lemmas.StreamTotal
import BV.Lemmas.StreamRunTile
import BV.Model.StreamNF
import BV.Lemmas.StreamNFFull
import BV.Lemmas.StreamNFSum
import BV.Lemmas.StreamNFArith

namespace BV.Props.C08Run
open BV.Stream BV.Bits BV.Stored

/-! ## the stream phase of the one-shot call -/

/-- **stream_phase_within_buffer**: one `compress_stream` call (any operation) on an encoder on which
only `set_parameter` has been called — any parameters, any input, any capacity below 2^64, ANY
payload-encoder answers — hands out exactly `cap - available_out'` bytes, never more than the caller's
`available_out`, and `total_out_` is exactly their number (byte ledger of the stream machine,
Lemmas/StreamTotal.lean `call_ledger_run`). -/
theorem stream_phase_within_buffer {o : Oracle} {fuel op cap : Nat} {input : Bytes} {s s' : St} {io' : Io} {r : Bool}
    (hop : op ≤ 3) (hf : IsFresh s) (hw : input.length < two64) (hcap : cap < two64)
    (h : compressStream o fuel s op input cap = .ok (s', io', r)) :
    io'.out.length + io'.availOut = cap ∧ io'.out.length ≤ cap ∧ s'.totalOut = io'.out.length := by
  have hip : s.inputPos = 0 := (isFresh_fields hf).2.2.1
  have ht0 : s.totalOut = 0 := by obtain ⟨p, rfl⟩ := hf; rfl
  have hL := call_ledger_run 0 hop (Or.inl hf) (by rw [hip]; omega) h
  have h1 := hL.outBal
  have h2 := hL.total (by rw [ht0]; rfl)
  simp only at h1 h2
  refine ⟨h1, by omega, ?_⟩
  rw [h2, Nat.zero_add]
  exact Nat.mod_eq_of_lt (by omega)

/-- **oneshot_contract_run**: `oneshot_contract` with its stream-phase hypothesis discharged.  For
every input shorter than 2^54, every `*encoded_size = outCap ≤ encoded_buffer.len()` (a `usize`),
every parameter set the private encoder may have been given and EVERY behaviour of the payload
encoder: if the stream phase returns at all (no panic of the stream machine: C01), the one-shot call
does not panic, returns false for an empty buffer, on success reports a size within the buffer AND
within `BrotliEncoderMaxCompressedSize` with the bytes of the `[6]` stream, of the completed stream
phase or of the stored stream, returns true whenever the buffer is at least the bound, and reports
size 0 on failure.  `so.totalOut` is the encoder's own `total_out_`. -/
theorem oneshot_contract_run {o : Oracle} {fuel : Nat} (x : Bytes) (outCap bufLen : Nat) (s : St) (so : StreamOutcome)
    (hf : IsFresh s) (hn : x.length < 2 ^ 54) (hbuf : outCap ≤ bufLen) (hcap : outCap < two64)
    (hso : outcomeOf (compressStream o fuel s 2 x outCap) = some so) :
    ∃ r, encoderCompress x x.length outCap bufLen so = .ok r ∧
      (outCap = 0 → r.ret = false) ∧
      (r.ret = true → r.encodedSize ≤ outCap ∧ r.encodedSize ≤ maxCompressedSize x.length ∧
        ((x.length = 0 ∧ r.bytes = [6] ∧ r.encodedSize = 1) ∨
         (so.result = true ∧ so.finished = true ∧ r.bytes = so.bytes ∧ r.encodedSize = so.totalOut ∧ so.totalOut = so.bytes.length) ∨
         (makeUncompressedStream x x.length bufLen = .ok r.bytes ∧ r.encodedSize = r.bytes.length))) ∧
      (maxCompressedSize x.length ≤ outCap → r.ret = true) ∧
      (r.ret = false → r.encodedSize = 0) := by
  have hle : so.totalOut ≤ outCap ∧ so.totalOut = so.bytes.length := by
    unfold outcomeOf at hso
    split at hso
    · rename_i s' io' res hc
      simp only [Option.some.injEq] at hso
      subst hso
      obtain ⟨_, q2, q3⟩ := stream_phase_within_buffer (by omega) hf (by unfold two64; omega) hcap hc
      exact ⟨by simp only; omega, q3⟩
    · cases hso
  obtain ⟨r, h1, h2, h3, h4, h5⟩ := BV.Props.C08.oneshot_contract x outCap bufLen so hn hbuf hle.1
  refine ⟨r, h1, h2, ?_, h4, h5⟩
  intro hr
  obtain ⟨a1, a2, a3⟩ := h3 hr
  refine ⟨a1, a2, ?_⟩
  rcases a3 with a | ⟨b1, b2, b3, b4⟩ | c
  · exact Or.inl a
  · exact Or.inr (Or.inl ⟨b1, b2, b3, b4, hle.2⟩)
  · exact Or.inr (Or.inr c)

/-- the private encoder of the one-shot call is a fresh encoder on which only `set_parameter` ran -/
theorem oneshotState_fresh (quality lgwin : Int) (n : Nat) : IsFresh (oneshotState quality lgwin n) := by
  have h0 : IsFresh St.new := ⟨{}, rfl⟩
  unfold oneshotState
  simp only
  split
  · exact setParameter_fresh (setParameter_fresh (setParameter_fresh (setParameter_fresh (setParameter_fresh h0 _ _) _ _) _ _) _ _) _ _
  · exact setParameter_fresh (setParameter_fresh (setParameter_fresh (setParameter_fresh h0 _ _) _ _) _ _) _ _

/-- **oneshot_run_contract**: the one-shot call as ONE object over the stream machine
(`oneshotRun`: the five `set_parameter` calls of `encoder_compress` on a new encoder, one
`compress_stream(FINISH)` with `available_out = *encoded_size`, then the decision logic) — for every
quality and window, every input shorter than 2^54, every buffer, EVERY behaviour of the
payload encoder: whenever the stream phase returns, the call does not panic; an empty buffer gives
false; success means a size within the buffer and within `BrotliEncoderMaxCompressedSize`; a buffer of
at least the bound gives success; failure reports size 0.  No hypothesis about `total_out` or about the oracle is left. -/
theorem oneshot_run_contract {o : Oracle} {fuel : Nat} (quality lgwin : Int) (x : Bytes) (outCap bufLen : Nat)
    (hn : x.length < 2 ^ 54) (hbuf : outCap ≤ bufLen) (hcap : outCap < two64) (res : Out OneShot)
    (h : oneshotRun o fuel quality lgwin x outCap bufLen = some res) :
    ∃ r, res = .ok r ∧ (outCap = 0 → r.ret = false) ∧
      (r.ret = true → r.encodedSize ≤ outCap ∧ r.encodedSize ≤ maxCompressedSize x.length) ∧
      (maxCompressedSize x.length ≤ outCap → r.ret = true) ∧ (r.ret = false → r.encodedSize = 0) := by
  unfold oneshotRun at h
  split at h
  · simp only [Option.some.injEq] at h
    subst h
    obtain ⟨r, h1, h2, h3, h4, h5⟩ := BV.Props.C08.oneshot_contract x outCap bufLen ⟨false, false, 0, []⟩ hn hbuf (Nat.zero_le _)
    exact ⟨r, h1, h2, fun hr => ⟨(h3 hr).1, (h3 hr).2.1⟩, h4, h5⟩
  · split at h
    · rename_i so hso
      simp only [Option.some.injEq] at h
      subst h
      obtain ⟨r, h1, h2, h3, h4, h5⟩ := oneshot_contract_run x outCap bufLen _ so (oneshotState_fresh quality lgwin x.length) hn hbuf hcap hso
      exact ⟨r, h1, h2, fun hr => ⟨(h3 hr).1, (h3 hr).2.1⟩, h4, h5⟩
    · cases h

/-! ## the never-flushed stream: `BlocksOK` from the run -/

/-- **nonfinal_requests_cover_blocks_run**: for EVERY history of `set_parameter` / `take_output` /
PROCESS / FINISH calls (any chunking, any output capacities, any oracle) on a fresh encoder that ends
at quality ≥ 2, every payload-encoder request of the whole history (`t.reqs`, compared with the real
run on every `stream` / `header nfrun` line) is an `encode_data` request of the main loop, is never a
forced flush, starts its meta-block no later than its own range, and — unless it is the final one —
sees a full input block of at least 2^14 bytes; so the span `hi - lf` of every meta-block closed by a
non-final request is at least 2^14: `BlocksOK`, for the whole run, with no hypothesis on the payload
encoder. -/
theorem nonfinal_requests_cover_blocks_run {o : Oracle} {fuel : Nat} {calls : List Call} {s0 s : St} {t : Trace}
    (hf : IsFresh s0) (hnf : NeverFlushed calls) (hw : histLen calls < two64)
    (h : run o fuel calls s0 {} = .ok (s, t)) (hq : s.q01 = false) :
    ∀ r ∈ t.reqs, r.site = 0 ∧ r.forceFlush = false ∧ r.lf ≤ r.lo
      ∧ (r.isLast = false → 2 ^ 14 ≤ r.hi - r.lo ∧ 2 ^ 14 ≤ r.hi - r.lf) := by
  intro r hr
  obtain ⟨h1, h2, h3, h4⟩ := nf_requests_full hf hnf hw h hq r hr
  exact ⟨h1, h2, h3, fun hl => ⟨h4 hl, by have := h4 hl; omega⟩⟩

/-- non-vacuity: a never-flushed quality-5 history (the run of C01's example) -/
example : NeverFlushed [.setParam 1 5, .stream 0 [1, 2, 3] 100, .take 0, .stream 2 [] 100] :=
  ⟨Or.inl rfl, Or.inr rfl, trivial⟩

/-- **never_flushed_run_structure**: for every never-flushed history (set_parameter / take_output /
PROCESS / FINISH, any chunking and capacities, any oracle) on a fresh encoder with `size_hint < 2^35` that
ends FINISHED at quality ≥ 2, the log of the history — the one whose pieces concatenate to EXACTLY the
delivered bit stream and whose requests are the trace's — has the grammar `nfT` from `fresh` to `done`:
one stream header of 1‥14 bits; then only copies, pushes and bookkeeping until the FIRST `encode_data`
event, which starts at `last_flush_pos_ = 0` and writes, carry included, exactly
`headLen W magic kk pre` bits (`kk ≤ 5` size-hint bytes, `pre ≤ 2` prelude bytes); later `encode_data`
events write no skeleton; the final one emits its meta-block and is followed by pushes only; no sync
block, one-shot block, metadata event or second header occurs; every non-final request sees ≥ 2^14 bytes. -/
theorem never_flushed_run_structure {o : Oracle} {fuel : Nat} {calls : List Call} {s0 s : St} {t : Trace}
    (hf : IsFresh s0) (hh : s0.params.sizeHint < 2 ^ 35) (hnf : NeverFlushed calls) (hw : histLen calls < two64)
    (h : run o fuel calls s0 {} = .ok (s, t)) (hq : s.q01 = false) (hfin : isFinished s = true) :
    ∃ log : List Ev, deliveredBits t s = logBits o log ∧ logReqs log = t.reqs ∧ LogOK ⟨0, 0, 0, 0⟩ log
      ∧ s.pos = logPos ⟨0, 0, 0, 0⟩ log ∧ Path nfT .fresh log .done
      ∧ (∀ e ∈ log, (∃ w, e = .window w) ∨ EvFull e) :=
  nf_run_structure hf hh hnf hw h hq hfin

/-- **stream_total_le_bound_run**: ONE run-level theorem for the stream clause.  For every history of
`set_parameter` / `take_output` / PROCESS / FINISH calls (never FLUSH, no metadata; any chunking, any output
capacities, any interleaving of `take_output`) on a fresh encoder with `size_hint < 2^35` that ends FINISHED
at quality ≥ 2 with total input `n = input_pos_ < 2^54`: there is a log — whose pieces concatenate to EXACTLY
the delivered bit stream and whose payload-encoder requests are the trace's — such that, if every emitted
payload piece obeys the per-meta-block growth bound (`LogGuard`: `Guard` at the piece's bit position for its
`hi - lf - pre` input bytes, nothing for an empty block, at most the padded 2-bit empty last block behind the
final one — what `guard_holds` proves of `WriteMetaBlockInternal`), then

    total bytes delivered ≤ BrotliEncoderMaxCompressedSize(n).

`BlocksOK`, the meta-block boundaries, the exact size of the stream head, the absence of sync blocks and
the head arithmetic are all DERIVED from the run; the growth bound is the only payload hypothesis. -/
theorem stream_total_le_bound_run {o : Oracle} {fuel : Nat} {calls : List Call} {s0 s : St} {t : Trace}
    (hf : IsFresh s0) (hh : s0.params.sizeHint < 2 ^ 35) (hnf : NeverFlushed calls) (hw : histLen calls < two64)
    (h : run o fuel calls s0 {} = .ok (s, t)) (hq : s.q01 = false) (hfin : isFinished s = true)
    (hn : s.inputPos < 2 ^ 54) :
    ∃ log : List Ev, deliveredBits t s = logBits o log ∧ logReqs log = t.reqs ∧
      (LogGuard o 0 ⟨0, 0, 0, 0⟩ log → t.delivered.length ≤ maxCompressedSize s.inputPos) := by
  obtain ⟨log, hb, hr, hok, hpos, hpath, hfull⟩ := nf_run_structure hf hh hnf hw h hq hfin
  refine ⟨log, hb, hr, ?_⟩
  intro hG
  have hip : s.inputPos = (logPos ⟨0, 0, 0, 0⟩ log).ip := congrArg Pos.ip hpos
  have hlt : (logPos ⟨0, 0, 0, 0⟩ log).ip < 2 ^ 54 := by rw [← hip]; exact hn
  have := nfLogArith o log hpath hok hfull hG hlt
  rw [← hip] at this
  have hlen : 8 * t.delivered.length ≤ (logBits o log).length := by
    rw [← hb]
    unfold deliveredBits
    rw [List.length_append, bytesBits_length, List.length_append]
    omega
  omega

/-- the growth bound of a piece is what `WriteMetaBlockInternal` guarantees: if the payload piece of a
meta-block of `1 ≤ len ≤ 2^24` bytes is what the size-decision model writes behind a staging storage `w`
(below bit 256) whose length is congruent to the global bit position, `PieceGuard` holds — for every verdict
of `should_compress` and every bit string of the compressed attempt (`guard_holds`) -/
theorem pieceGuard_of_wmbi (app cat last : Bool) (data : List Nat) (mo : MbOracle) (w : Writer) (D : Nat) (r : MbOut)
    (hcat : cat = true → app = true) (h1 : 1 ≤ data.length) (h2 : data.length ≤ 2 ^ 24) (hw : w.length < 256)
    (hr : writeMetaBlockInternal app cat last data mo w = .ok r) (m : Nat)
    (hm : r.body.length ≤ w.length + m ∧ w.length + m ≤ (if last then r.fin.length else r.body.length)) :
    PieceGuard (8 * D + w.length) data.length m last := by
  obtain ⟨r', hr', g1, g2, g3, g4⟩ := BV.Props.C08.guard_holds app cat last data mo w hcat h1 h2 hw
  rw [hr] at hr'
  cases hr'
  refine ⟨8 * D + r.body.length, by omega, fun h0 => by omega, fun _ => BV.Stored.guard_shift D _ _ _ g1, by omega, ?_⟩
  cases last
  · simp only [Bool.false_eq_true, if_false] at hm ⊢
    omega
  · simp only [if_true] at hm ⊢
    omega

/-- non-vacuity: a 3-byte final meta-block at bit 8 whose piece is 40 bits long obeys the growth bound -/
example : PieceGuard 8 3 40 true := ⟨48, by decide, by decide, fun _ => by decide, by decide, by decide⟩

/-- non-vacuity of the hypotheses of `never_flushed_run_structure`: a quality-5 history that ends finished -/
def exampleFinished (r : Out (St × Trace)) : Bool :=
  match r with
  | .ok (s, _) => isFinished s && !s.q01
  | _ => false
example : exampleFinished (run (fun _ _ => { result := true, emit := true, bits := List.replicate 20 true }) 40
    [.setParam 1 5, .stream 2 [1, 2, 3] 100] St.new {}) = true := by decide

/-! non-vacuity: a quality-5 one-shot call on three bytes whose payload encoder answers 20 bits —
with room the stream result is returned, with a 2-byte buffer the call fails cleanly -/
def exampleOracle : Oracle := fun _ _ => { result := true, emit := true, bits := List.replicate 20 true }
def exampleCheck (r : Option (Out OneShot)) (ret : Bool) (sz : Nat) (k : String) : Bool :=
  match r with | some (.ok r) => r.ret == ret && r.encodedSize == sz && r.kind == k | _ => false
example : exampleCheck (oneshotRun exampleOracle 60 5 22 [1, 2, 3] 100 100) true 3 "stream" = true := by decide
example : exampleCheck (oneshotRun exampleOracle 60 5 22 [1, 2, 3] 2 2) false 0 "too-small" = true := by decide

/-
META-BLOCK LENGTHS ≤ 2^24.  Not needed by `stream_total_le_bound_run` (its payload hypothesis is the growth
bound itself), but needed to OBTAIN that bound from `guard_holds` (`pieceGuard_of_wmbi`: `1 ≤ len ≤ 2^24`).
The stream machine does NOT force it: in `encode_data` the decision to keep accumulating is
`!is_last && !force_flush && !should_flush && next_input_fits_metablock && num_literals_ < max_literals &&
num_commands_ < max_commands` — evaluated behind `BrotliCreateBackwardReferences`, on the payload side — and
the model takes its outcome as the oracle's `emit` answer; nothing else in the machine (ring size, block size,
`get_brotli_storage`) ends a meta-block.  With the emit rule as an oracle hypothesis — `emit = false` only if
`(hi - lf) + 2^lgblock ≤ MaxMetablockSize ≤ 2^24` (`next_input_fits_metablock`) — every closed span is ≤ 2^24:
a request's span grows by at most one input block (`Inv.blk`) over the previous, unemitted one.  The harness
checks "no closed span above 2^24" on every `header nfrun` history.
-/

end BV.Props.C08Run
