/-
C01Match — the match finders of the payload encoder only emit sound copies or static-dictionary
references, and a command built from a sound copy replays to the matched bytes.
(Supports C01's mechanism "match finders only emit distances <= min(position, 2^lgwin-16) or
static-dictionary references"; C01 itself is BV/Props/C01.lean.)

Property theorems ONLY.  Model: BV/Model/MatchFinder.lean (`FindLongestMatch` of `BasicHasher`
H2/H3/H4/H54, `AdvHasher` H5/H5q5/H5q7/H6, `H9`; the match-length functions; `TestStaticDictionaryItem`
/ `SearchInStaticDictionary` with the dictionary lookup as an oracle; `ComputeDistanceCode`,
`Command::init`, the command-building step of `CreateBackwardReferences`), over BV/Model/Hasher.lean
(tables, hash functions as parameters).  Decoder side (independent spec): `BV.Recoder.decStep`,
`rfcDistance`, `rfcDistDecode` (RFC 7932 sections 4 and 5 as used by C14/C18).
Helper lemmas: BV/Lemmas/Match{Len,Sound,Loops,Top,Cmd}.lean.

EVERY theorem of sections 1-2 holds for EVERY table content (stale, wrapped, future or
self-referencing entries, any counters), EVERY distance cache, EVERY data buffer and mask:
soundness does not depend on what is in the hash table.
-/
import BV.Lemmas.MatchCmd

namespace BV.Props.C01Match
open BV.Hasher BV.MatchFinder BV.Recoder BV.PrefixArith

/-- what a successful search may return: a copy — positive distance within `max_backward`, length
within `max_length` (and at least 2 whenever `max_length ≥ 4`, as in every call of the loop), no length-code modifier, and `len` bytes that exist in the buffer at the
masked earlier position and equal the bytes at the masked current position — or a reference into
the static dictionary as described by one of the looked-up slots (`DictOK`). `m` is the mask the
code applies to the earlier position. -/
def SoundResult (dict : Option (List DictItem)) (data : ByteArray) (m mask curIx maxLength
    maxBackward maxDistance : Nat) (o : SR) : Prop :=
  (0 < o.distance ∧ o.distance ≤ maxBackward ∧ o.len ≤ maxLength ∧ o.lenXCode = 0 ∧
    (4 ≤ maxLength → 2 ≤ o.len) ∧
    Agree data ((curIx - o.distance) &&& m) (curIx &&& mask) o.len) ∨
  (∃ items, dict = some items ∧ DictOK items data (curIx &&& mask) maxLength maxBackward maxDistance o)

/-- the internal form (`∃ prev` with `distance = cur - prev` wrapping) in the clean form above -/
theorem soundResult_of_sound {dict : Option (List DictItem)} {data : ByteArray} {m mask curIx maxLength
    maxBackward maxDistance : Nat} {o : SR} (hc : curIx < 2 ^ 64) (hmb : maxBackward ≤ curIx)
    (hm : m < 2 ^ 64)
    (h : Sound dict data m (curIx &&& mask) curIx maxLength maxBackward maxDistance o) :
    SoundResult dict data m mask curIx maxLength maxBackward maxDistance o := by
  rcases h with ⟨h1, h2, h3, h4, h4b, prev, hp, hag⟩ | h
  · left
    refine ⟨h1, h2, h3, h4, h4b, ?_⟩
    have hU : U64 = 2 ^ 64 := by decide
    -- `distance = cur - prev (mod 2^64)` and `distance ≤ cur` pin down `prev mod 2^64`
    have hprev : prev % 2 ^ 64 = curIx - o.distance := by
      have hlt : prev % U64 < U64 := Nat.mod_lt _ (by decide)
      have := wsub_eq (a := curIx) (b := prev % U64) (by rw [hU]; exact hc) hlt
      have hw : wsub curIx prev = wsub curIx (prev % U64) := by
        unfold wsub; rw [Nat.mod_mod]
      rw [hw, this] at hp
      rw [hU] at hp hlt
      split at hp <;> omega
    have hand : prev &&& m = (curIx - o.distance) &&& m := by
      have h1 : (prev &&& m) % 2 ^ 64 = prev &&& m :=
        Nat.mod_eq_of_lt (Nat.lt_of_le_of_lt Nat.and_le_right hm)
      rw [← h1, Nat.and_mod_two_pow, hprev, Nat.mod_eq_of_lt hm]
    rw [← hand]; exact hag
  · exact Or.inr h

/-! ## 1. match_sound — the three families -/

/-- **BasicHasher (H2, H3, H4, H54)**: whatever `FindLongestMatch` returns with `true` is a sound
copy or a dictionary reference — for every table, every distance cache (the cached last distance
is window-checked like every other candidate), every buffer.  The earlier position is masked with
`ring_buffer_mask as u32` in this family. -/
theorem match_sound_basic (P : BasicP) (useDict : Bool) (lbs : Nat) (dict : Option (List DictItem))
    (data : ByteArray) (mask : Nat) (cache : List Int) (curIx maxLength maxBackward maxDistance : Nat)
    (out o : SR) (b b' : Tab) (c c' : Common) (hc : curIx < 2 ^ 64) (hmb : maxBackward ≤ curIx)
    (h : Basic.findLongestMatch P useDict lbs dict data mask cache curIx maxLength maxBackward
      maxDistance out b c = some (true, o, b', c')) :
    SoundResult dict data (mask % U32) mask curIx maxLength maxBackward maxDistance o :=
  soundResult_of_sound hc hmb (Nat.lt_of_lt_of_le (Nat.mod_lt _ (by decide)) (by decide))
    (Basic.findLongestMatch_sound (by exact hc) h)

/-- **AdvHasher (H5, H5q5, H5q7, H6)**, incl. the `backward == 0` skip: same statement, for every
`num`/`buckets` content -/
theorem match_sound_adv (P : AdvP) (numLast lbs : Nat) (dict : Option (List DictItem))
    (data : ByteArray) (mask : Nat) (hmask : mask < 2 ^ 64) (cache : List Int)
    (curIx maxLength maxBackward maxDistance : Nat)
    (out o : SR) (st st' : AdvSt) (c c' : Common) (hc : curIx < 2 ^ 64) (hmb : maxBackward ≤ curIx)
    (h : Adv.findLongestMatch P numLast lbs dict data mask cache curIx maxLength maxBackward
      maxDistance out st c = some (true, o, st', c')) :
    SoundResult dict data mask mask curIx maxLength maxBackward maxDistance o :=
  soundResult_of_sound hc hmb hmask (Adv.findLongestMatch_sound (by exact hc) h)

/-- **H9**: same statement -/
theorem match_sound_h9 (P : H9P) (lbs : Nat) (dict : Option (List DictItem))
    (data : ByteArray) (mask : Nat) (hmask : mask < 2 ^ 64) (cache : List Int)
    (curIx maxLength maxBackward maxDistance : Nat)
    (out o : SR) (st st' : AdvSt) (c c' : Common) (hc : curIx < 2 ^ 64) (hmb : maxBackward ≤ curIx)
    (h : H9.findLongestMatch P lbs dict data mask cache curIx maxLength maxBackward
      maxDistance out st c = some (true, o, st', c')) :
    SoundResult dict data mask mask curIx maxLength maxBackward maxDistance o :=
  soundResult_of_sound hc hmb hmask (H9.findLongestMatch_sound (by exact hc) h)

/-- without a dictionary every returned distance is a real backward distance inside the window -/
theorem match_without_dictionary_in_window {data : ByteArray} {m mask curIx maxLength maxBackward
    maxDistance : Nat} {o : SR}
    (h : SoundResult none data m mask curIx maxLength maxBackward maxDistance o) :
    0 < o.distance ∧ o.distance ≤ maxBackward ∧ o.len ≤ maxLength ∧ (4 ≤ maxLength → 2 ≤ o.len) ∧
      Agree data ((curIx - o.distance) &&& m) (curIx &&& mask) o.len := by
  rcases h with ⟨h1, h2, h3, _, h4b, h5⟩ | ⟨items, hi, _⟩
  · exact ⟨h1, h2, h3, h4b, h5⟩
  · cases hi

/-- a dictionary reference lies beyond the window, as the format prescribes (`distance >
max_backward` is how the decoder recognises it), and within `max_distance`; its bytes are the
first `len` bytes of the looked-up word.  (`hsmall`: the distance arithmetic does not wrap — item
is a `u16`, size_bits at most 31, positions far below 2^62.) -/
theorem dict_reference_beyond_window {items : List DictItem} {data : ByteArray} {cm maxLength
    maxBackward maxDistance : Nat} {o : SR}
    (h : DictOK items data cm maxLength maxBackward maxDistance o)
    (hsmall : ∀ d ∈ items, maxBackward + (d.item >>> 5) + 1 + (100 <<< d.sizeBits) < 2 ^ 64) :
    maxBackward < o.distance ∧ o.distance ≤ maxDistance ∧ 0 < o.len ∧ o.len ≤ maxLength := by
  obtain ⟨d, hd, h1, h2, h3, _, h5, _, h7, h8, _, _⟩ := h
  have hs := hsmall d hd
  have hU : U64 = 2 ^ 64 := by decide
  have htid : ((d.item &&& 0x1f) - o.len) <<< 2 +
      ((kCutoffTransforms >>> (((d.item &&& 0x1f) - o.len) * 6)) &&& 0x3f) < 100 := by
    have : (kCutoffTransforms >>> (((d.item &&& 0x1f) - o.len) * 6)) &&& 0x3f ≤ 0x3f := Nat.and_le_right
    rw [Nat.shiftLeft_eq]
    omega
  have hmono : ∀ x y b : Nat, x ≤ y → x <<< b ≤ y <<< b := fun x y b hxy => by
    simp only [Nat.shiftLeft_eq]; exact Nat.mul_le_mul_right _ hxy
  have hshift := hmono _ _ d.sizeBits (Nat.le_of_lt htid)
  generalize (((d.item &&& 0x1f) - o.len) <<< 2 +
      ((kCutoffTransforms >>> (((d.item &&& 0x1f) - o.len) * 6)) &&& 0x3f)) <<< d.sizeBits = X at h7 hshift
  generalize 100 <<< d.sizeBits = Y at hs hshift
  rw [hU, Nat.mod_eq_of_lt (by omega)] at h7
  exact ⟨by omega, h8, h1, by omega⟩

/-! ## 2. distance_code_sound -/

/-- `ComputeDistanceCode` + `PrefixEncodeCopyDistance`: the distance symbol and extra bits of the
command denote, under the RFC 7932 section 4 rules (short codes 0–15 relative to the ring of
last distances, which is the encoder's distance cache; longer codes by `rfcDistDecode`), exactly
the backward distance; the decoder's "push onto the ring" flag equals the encoder's
`distance_code > 0` cache update rule. -/
theorem distance_code_sound (np nd distance maxDistance : Nat) (c0 c1 c2 c3 : Int)
    (rest : List Int) (hd1 : 1 ≤ distance) (hd : distance < 2 ^ 31)
    (hc : CacheI32 (c0 :: c1 :: c2 :: c3 :: rest)) :
    ∃ code, computeDistanceCode distance maxDistance (c0 :: c1 :: c2 :: c3 :: rest) = some code ∧
      code ≤ distance + 15 ∧ (distance > maxDistance → code = distance + 15) ∧
      rfcDistance np nd [c0, c1, c2, c3] (prefixEncodeCopyDistance code nd np).sym
        (prefixEncodeCopyDistance code nd np).extra = some ((distance : Int), decide (code ≠ 0)) :=
  computeDistanceCode_sound np nd distance maxDistance c0 c1 c2 c3 rest hd1 hd hc

/-! ## 3. command_replays -/

/-- a command built (`Command::init` on `ComputeDistanceCode`) from a copy whose bytes match in
the text replays, under the RFC 7932 decoder step `decStep`, to exactly the next
`ins + len` bytes of the meta-block; the decoder's ring of last distances afterwards is the
encoder's updated distance cache. -/
theorem command_replays (w : WordOracle) (np nd window : Nat) (hp : np ≤ 3) (hnd : nd ≤ 120)
    (mb : Bytes) (s : DecSt) (sr : SR) (ins : Nat) (c0 c1 c2 c3 : Int) (rest : List Int)
    (hring : s.ring = [c0, c1, c2, c3]) (hc : CacheI32 (c0 :: c1 :: c2 :: c3 :: rest))
    (hins : ins < 2 ^ 32) (hroom : s.cursor + ins < mb.length) (hfit : s.cursor + ins + sr.len ≤ mb.length)
    (hlen : sr.len < 2 ^ 25) (hx : sr.lenXCode = 0)
    (hd1 : 1 ≤ sr.distance) (hdw : sr.distance ≤ min (s.out.length + ins) window) (hd31 : sr.distance + 15 < 2 ^ 31)
    (hmatch : ∀ k, k < sr.len →
      (s.out ++ (mb.drop s.cursor).take (ins + sr.len)).getD (s.out.length + ins + k) 0 =
      (s.out ++ (mb.drop s.cursor).take (ins + sr.len)).getD (s.out.length + ins - sr.distance + k) 0) :
    ∃ cmd cache', emitCommand np nd (s.out.length + ins) window ins sr (c0 :: c1 :: c2 :: c3 :: rest)
        = some (cmd, cache') ∧
      decStep w np nd window mb s cmd
        = some ⟨s.out ++ (mb.drop s.cursor).take (ins + sr.len), cache'.take 4, s.cursor + ins + sr.len⟩ :=
  decStep_emitCommand w np nd window hp hnd mb s sr ins c0 c1 c2 c3 rest hring hc hins hroom hfit hlen hx
    hd1 hdw hd31 hmatch

/-- a match found in the ring buffer is a match in the text.  The ring hypothesis is w-stream's
`RingViewW` (BV/Props/C01.lean, proved from the `RingBufferWrite` invariant `RingOK` by `ring_view_w`)
over `ringBytes data` = the bytes of the slice the hashers read: positions at their offset, WRAPPED
positions with offset < `tail` mirrored behind the ring — nothing about the slack or about tail
cells of first-lap positions.  So the hypothesis `hmatch` of `command_replays` follows from
`match_sound` whenever both stretches are still held by the ring and the match is at most one
tail (input block) long. -/
theorem ring_match_is_text_match {data : ByteArray} {k tail : Nat} {T : Bytes} {lo hi : Nat}
    (hv : BV.Props.C01.RingViewW (ringBytes data) k tail T lo hi) (htail : tail ≤ 2 ^ k)
    {cur d len : Nat} (hd : d ≤ cur) (hlo : lo ≤ cur - d)
    (hhi : cur + len ≤ hi) (hlen : len ≤ tail) (hag : Agree data ((cur - d) % 2 ^ k) (cur % 2 ^ k) len) :
    ∀ j, j < len → T.getD (cur - d + j) 0 = T.getD (cur + j) 0 :=
  BV.MatchFinder.ring_match_is_text_match hv htail hd hlo hhi hlen hag

/-- the composition for AdvHasher: a `true` result without dictionary, found in a ring buffer that
holds the text produced so far plus the pending bytes of the meta-block, yields a command that the
RFC decoder turns into exactly those pending bytes. -/
theorem found_copy_replays (P : AdvP) (numLast lbs : Nat) (data : ByteArray) (k : Nat) (cache : List Int)
    (maxLength maxBackward maxDistance : Nat) (out o : SR) (st st' : AdvSt) (c c' : Common)
    (w : WordOracle) (np nd window : Nat) (hp : np ≤ 3) (hnd : nd ≤ 120)
    (mb : Bytes) (s : DecSt) (ins : Nat) (c0 c1 c2 c3 : Int) (rest : List Int) (lo hi tail : Nat)
    (hk : k ≤ 63) (hcur : s.out.length + ins < 2 ^ 64)
    (hmbw : maxBackward = min (s.out.length + ins) window)
    (hfound : Adv.findLongestMatch P numLast lbs none data (2 ^ k - 1) cache (s.out.length + ins) maxLength
      maxBackward maxDistance out st c = some (true, o, st', c'))
    (hv : BV.Props.C01.RingViewW (ringBytes data) k tail (s.out ++ (mb.drop s.cursor).take (ins + o.len)) lo hi)
    (htail : tail ≤ 2 ^ k) (hmt : maxLength ≤ tail)
    (hlo : lo ≤ s.out.length + ins - o.distance) (hhi : s.out.length + ins + o.len ≤ hi)
    (hring : s.ring = [c0, c1, c2, c3]) (hc : CacheI32 (c0 :: c1 :: c2 :: c3 :: rest))
    (hins : ins < 2 ^ 32) (hroom : s.cursor + ins < mb.length) (hfit : s.cursor + ins + o.len ≤ mb.length)
    (hlen : o.len < 2 ^ 25) (hd31 : o.distance + 15 < 2 ^ 31) :
    ∃ cmd cache', emitCommand np nd (s.out.length + ins) window ins o (c0 :: c1 :: c2 :: c3 :: rest)
        = some (cmd, cache') ∧
      decStep w np nd window mb s cmd
        = some ⟨s.out ++ (mb.drop s.cursor).take (ins + o.len), cache'.take 4, s.cursor + ins + o.len⟩ := by
  have hmask : 2 ^ k - 1 < 2 ^ 64 := by
    have : 2 ^ k ≤ 2 ^ 63 := Nat.pow_le_pow_right (by decide) hk
    omega
  have hs := match_sound_adv P numLast lbs none data (2 ^ k - 1) hmask cache (s.out.length + ins)
    maxLength maxBackward maxDistance out o st st' c c' hcur (by rw [hmbw]; exact Nat.min_le_left _ _) hfound
  obtain ⟨h1, h2, h3, _, h4⟩ := match_without_dictionary_in_window hs
  rcases hs with ⟨_, _, _, hx, _, _⟩ | ⟨_, hi', _⟩
  · rw [and_ringmask, and_ringmask] at h4
    have hdle : o.distance ≤ s.out.length + ins := by rw [hmbw] at h2; exact Nat.le_trans h2 (Nat.min_le_left _ _)
    have hm := BV.MatchFinder.ring_match_is_text_match hv htail hdle hlo hhi (by omega) h4
    exact command_replays w np nd window hp hnd mb s o ins c0 c1 c2 c3 rest hring hc hins hroom hfit hlen hx
      h1 (by rw [← hmbw]; exact h2) hd31 (fun j hj => (hm j hj).symm)
  · cases hi'

/-! ## 4. non-vacuity -/

/-- the catable placeholder 0x7ffffff0 in the cache: with a window of 1008 the cached distance is
NOT taken any more (the defect fixed in /repo: `cached_backward <= max_backward`), a real candidate
in the bucket is; and the result is sound.  A 64-byte buffer, position 2^31 + 40, toy hash. -/
def toyP : BasicP := { sweep := 1, hash := fun w => w.headD 0 % 16 }
def toyData : ByteArray := ByteArray.mk ((Array.range 64).map fun i => (i % 8 * 17 + 3).toUInt8)
def toyCache : List Int := [0x7ffffff0, 0x7ffffff0, 0x7ffffff0, 0x7ffffff0]
def toyTab : Tab := (Array.replicate 24 0).set! 3 (2 ^ 31 + 32)

example :
    Basic.findLongestMatch toyP false 540 none toyData 63 toyCache (2 ^ 31 + 40) 16 1008 0x3fffffc
      ⟨0, 0, 0, 2020⟩ toyTab ⟨0, 0⟩
      = some (true, ⟨16, 0, 8, 3990⟩, toyTab.set! 3 ((2 ^ 31 + 40) % U32), ⟨0, 0⟩) := by
  decide +kernel

/-- the hypotheses of `distance_code_sound` / `command_replays` are satisfiable: the initial cache -/
example : CacheI32 [4, 11, 15, 16] := by
  intro x hx
  simp at hx
  rcases hx with rfl | rfl | rfl | rfl <;> omega

/-- and `ComputeDistanceCode` on it: distance 12 = second-last + 1 is short code 11 -/
example : computeDistanceCode 12 1000 [4, 11, 15, 16] = some 11 := by decide +kernel

end BV.Props.C01Match
