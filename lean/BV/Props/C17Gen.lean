/-
C17, translator tie: Lean definitions GENERATED from the current Rust text (tools/rs2lean.py ->
BV/Gen/FnC17.lean) of functions of src/enc/entropy_encode.rs and of the tree-storing part of
src/enc/brotli_bit_stream.rs are what the hand-written model `BV.Huffman` (over which C17's theorems
are stated) computes:

* `BrotliReverseBits`: equal to the model's `reverseBits` for every `num_bits ≤ 16` and every `u16`;
* `StoreStaticCodeLengthCode`: the one 40-bit write of the model;
* `StoreSimpleHuffmanTree`: whenever the model's writer returns (it panics when the sort or the tail
  leaves the `symbols` / `depths` arrays, which the generated `List.getD` cannot show), the generated
  list of `BrotliWriteBits` calls run on the same writer returns the same bits, and the sorted
  `symbols` array is the model's;
* `BrotliStoreHuffmanTreeOfHuffmanTreeToBitMask`: whenever the model returns, the generated list run on
  the same writer returns the same bits (the `codes_to_store` scan, HSKIP, the per-length code).

* `BrotliConvertBitDepthsToSymbols`: whenever the model's `convertBitDepthsToSymbols` (over which C17's canonical-code
  theorems are stated) returns, the generated function returns the same `bits` array: the length histogram, the
  first-code loop (the `i32` code against the model's 32-bit pattern, modular arithmetic) and the assignment loop with
  `BrotliReverseBits`, each by induction.

`BrotliSetDepth` is translated (BV/Gen/FnC17.lean) but not tied here: it remains tied by correspondence.
-/
import BV.Gen.FnC17
import BV.Model.Huffman
import BV.Lemmas.RsPrelude
import BV.Lemmas.RsWriter

namespace BV.Props.C17Gen
open BV.Gen.FnC17 BV.Huffman BV.Rs BV.Bits BV.Bits.Out

/-! ## `BrotliReverseBits` -/

theorem klut : BV.Gen.kReverseLut = [0, 8, 4, 12, 2, 10, 6, 14, 1, 9, 5, 13, 3, 11, 7, 15] := rfl

/-- `kLut[(bits & 0xf) as usize]` -/
theorem lut_generated (b : Nat) (hb : b < 65536) :
    List.getD [0, 8, 4, 12, 2, 10, 6, 14, 1, 9, 5, 13, 3, 11, 7, 15]
      (toU 64 (sop (fun x y => x &&& y) 32 ((b : Nat) : Int) (15 : Int))) 0 = lut b := by
  have h15 : (15 : Int) = ((15 : Nat) : Int) := rfl
  have hand : b &&& 15 = b % 16 := Nat.and_two_pow_sub_one_eq_mod b 4
  have hlt : b % 16 < 16 := Nat.mod_lt _ (by decide)
  rw [h15, sop32_ofNat _ b 15 (by omega) (by decide) (by show b &&& 15 < _; omega)]
  show List.getD _ (toU 64 ((b &&& 15 : Nat) : Int)) 0 = _
  rw [toU64_ofNat _ (by omega), hand]
  unfold lut
  rw [klut]

theorem shr4_generated (b : Nat) (hb : b < 65536) : toU 16 (((b : Nat) : Int) / (2 : Int) ^ (4 % 32)) = b / 16 := by
  unfold toU
  have e1 : (2 : Int) ^ (4 % 32) = 16 := by decide
  have e2 : (2 : Int) ^ 16 = 65536 := by decide
  rw [e1, e2]
  omega

def rbBody (num_bits : Nat) : Nat × Nat × Nat → Ctl (Nat × Nat × Nat) Empty :=
  fun (bits, retval, i) =>
    let kLut : List Nat := [0, 8, 4, 12, 2, 10, 6, 14, 1, 9, 5, 13, 3, 11, 7, 15]
    if (decide (i < num_bits)) then
      let retval : Nat := ((retval <<< (BV.Rs.toU 64 (4 : Int) % 64)) % 18446744073709551616)
      let bits : Nat := (BV.Rs.toU 16 (((bits : Nat) : Int) / (2 : Int) ^ (4 % 32)))
      let retval : Nat := (retval ||| (List.getD kLut (BV.Rs.toU 64 (BV.Rs.sop (fun x y => x &&& y) 32 ((bits : Nat) : Int) (15 : Int))) 0))
      let i : Nat := ((i + 4) % 18446744073709551616)
      BV.Rs.Ctl.next (bits, retval, i)
    else
      BV.Rs.Ctl.brk (bits, retval, i)

theorem reverse_bits_unfold (num_bits bits : Nat) :
    BrotliReverseBits num_bits bits =
      ((whileLoop 16 (bits, List.getD [0, 8, 4, 12, 2, 10, 6, 14, 1, 9, 5, 13, 3, 11, 7, 15]
          (toU 64 (sop (fun x y => x &&& y) 32 ((bits : Nat) : Int) (15 : Int))) 0, 4) (rbBody num_bits)).2.1
        >>> ((((0 + 18446744073709551616 - num_bits) % 18446744073709551616) &&& 3) % 64)) % 65536 := rfl

/-- the `while i < num_bits` loop: `k` iterations are left -/
theorem rb_loop (nb : Nat) : ∀ (k fuel bits retval i : Nat), k < fuel → bits < 65536 → i + 4 * k < 1000 →
    nb ≤ i + 4 * k → (k = 0 ∨ i + 4 * (k - 1) < nb) →
    (whileLoop fuel (bits, retval, i) (rbBody nb)).2.1 = reverseLoop k retval bits := by
  intro k
  induction k with
  | zero =>
    intro fuel bits retval i hf hb hi h1 _
    obtain ⟨f, rfl⟩ : ∃ f, fuel = f + 1 := ⟨fuel - 1, by omega⟩
    unfold whileLoop
    have : decide (i < nb) = false := by simp; omega
    simp only [rbBody, this]
    rfl
  | succ k ih =>
    intro fuel bits retval i hf hb hi h1 h2
    obtain ⟨f, rfl⟩ : ∃ f, fuel = f + 1 := ⟨fuel - 1, by omega⟩
    unfold whileLoop
    have : decide (i < nb) = true := by simp; omega
    simp only [rbBody, this, if_true]
    rw [shr4_generated bits hb, lut_generated (bits / 16) (by omega)]
    have e4 : toU 64 (4 : Int) % 64 = 4 := by decide
    have ei : (i + 4) % 18446744073709551616 = i + 4 := by omega
    rw [e4, ei, Nat.shiftLeft_eq]
    have := ih f (bits / 16) ((retval * 2 ^ 4) % 18446744073709551616 ||| lut (bits / 16)) (i + 4) (by omega) (by omega) (by omega) (by omega) (by omega)
    rw [this]
    rfl

theorem reverse_bits_generated (num_bits bits : Nat) (hn : num_bits ≤ 16) (hb : bits < 65536) :
    BrotliReverseBits num_bits bits = reverseBits num_bits bits := by
  rw [reverse_bits_unfold, lut_generated bits hb]
  rw [rb_loop num_bits ((num_bits - 1) / 4) 16 bits (lut bits) 4 (by omega) hb (by omega) (by omega) (by omega)]
  unfold reverseBits
  have e : (0 + 18446744073709551616 - num_bits) % 18446744073709551616 &&& 3 = ((0 + 18446744073709551616 - num_bits) % 18446744073709551616) % 4 :=
    Nat.and_two_pow_sub_one_eq_mod _ 2
  rw [e]
  have e2 : ((0 + 18446744073709551616 - num_bits) % 18446744073709551616) % 4 % 64 = (u64 - num_bits % u64) % 4 := by
    unfold u64; omega
  rw [e2]

/-! ## `StoreStaticCodeLengthCode` -/

theorem store_static_code_length_code_generated (w : Writer) :
    runOps StoreStaticCodeLengthCode w = storeStaticCodeLengthCode w := by
  unfold StoreStaticCodeLengthCode storeStaticCodeLengthCode
  simp only [List.nil_append, runOps_bits]
  cases writeBits 40 1096648316244 w <;> rfl

/-! ## `StoreSimpleHuffmanTree` -/

theorem getAt_ok_getD {α : Type} (l : List α) (i : Nat) (x d : α) (h : getAt l i = ok x) : l.getD i d = x := by
  unfold getAt at h
  cases hl : l[i]? with
  | none => simp [hl] at h
  | some y => simp [hl] at h; simp [List.getD_eq_getElem?_getD, hl, h]

theorem setAt_ok_set {α : Type} (l l' : List α) (i : Nat) (v : α) (h : setAt l i v = ok l') : l' = l.set i v := by
  unfold setAt at h
  split at h
  · injection h with h; exact h.symm
  · cases h

theorem bind_eq_ok {α β : Type} (x : Out α) (f : α → Out β) (b : β) (h : (x >>= f) = ok b) :
    ∃ a, x = ok a ∧ f a = ok b := by
  cases x with
  | ok a => exact ⟨a, rfl, by simpa using h⟩
  | panic => simp at h
  | fuel => simp at h

def ssInnerBody (depths : List Nat) (i : Nat) : Nat → List Nat → List Nat :=
  fun j symbols =>
    if (decide ((List.getD depths (List.getD symbols j 0) 0) < (List.getD depths (List.getD symbols i 0) 0))) then
      let symbols : List Nat := (List.set (List.set symbols j (List.getD symbols i 0)) i (List.getD symbols j 0))
      symbols
    else
      symbols

theorem ss_inner (depths : List Nat) (i : Nat) : ∀ (c j : Nat) (s s' : List Nat),
    sortSymbolsInner depths i c j s = ok s' → forRangeAux (ssInnerBody depths i) c j s = s' := by
  intro c
  induction c with
  | zero => intro j s s' h; simp [sortSymbolsInner] at h; simpa [forRangeAux] using h
  | succ c ih =>
    intro j s s' h
    unfold sortSymbolsInner at h
    obtain ⟨sj, h1, h⟩ := bind_eq_ok _ _ _ h
    obtain ⟨si, h2, h⟩ := bind_eq_ok _ _ _ h
    obtain ⟨dj, h3, h⟩ := bind_eq_ok _ _ _ h
    obtain ⟨di, h4, h⟩ := bind_eq_ok _ _ _ h
    obtain ⟨s1, h5, h⟩ := bind_eq_ok _ _ _ h
    unfold forRangeAux
    have e : ssInnerBody depths i j s = s1 := by
      unfold ssInnerBody
      rw [getAt_ok_getD _ _ _ 0 h1, getAt_ok_getD _ _ _ 0 h2, getAt_ok_getD _ _ _ 0 h3, getAt_ok_getD _ _ _ 0 h4]
      by_cases hlt : dj < di
      · simp only [hlt, if_true] at h5
        obtain ⟨s0, h6, h5⟩ := bind_eq_ok _ _ _ h5
        rw [setAt_ok_set _ _ _ _ h6] at h5
        rw [setAt_ok_set _ _ _ _ h5]
        simp [hlt]
      · simp only [hlt, if_false] at h5
        injection h5 with h5
        simp [hlt, h5]
    rw [e]
    exact ih _ _ _ h

def ssOuterBody (depths : List Nat) (num : Nat) : Nat → List Nat → List Nat :=
  fun i symbols => forRange ((i + 1) % 18446744073709551616) num symbols (ssInnerBody depths i)

theorem ss_outer (depths : List Nat) (n : Nat) (hn : n < 2 ^ 64) : ∀ (c i : Nat) (s s' : List Nat), i + c ≤ n →
    sortSymbolsOuter depths n c i s = ok s' → forRangeAux (ssOuterBody depths n) c i s = s' := by
  have h64 : (2 : Nat) ^ 64 = 18446744073709551616 := by decide
  rw [h64] at hn
  intro c
  induction c with
  | zero => intro i s s' _ h; simp [sortSymbolsOuter] at h; simpa [forRangeAux] using h
  | succ c ih =>
    intro i s s' hic h
    unfold sortSymbolsOuter at h
    obtain ⟨s1, h1, h⟩ := bind_eq_ok _ _ _ h
    unfold forRangeAux
    have e : ssOuterBody depths n i s = s1 := by
      unfold ssOuterBody forRange
      have : (i + 1) % 18446744073709551616 = i + 1 := by omega
      rw [this]
      exact ss_inner depths i _ _ _ _ h1
    rw [e]
    exact ih _ _ _ (by omega) h

/-- the part of the generated `StoreSimpleHuffmanTree` behind the sort -/
def ssTail (depths symbols : List Nat) (num_symbols max_bits : Nat) : List Nat × List WOp :=
  let w_ : List BV.Rs.WOp := []
  let w_ := w_ ++ [BV.Rs.WOp.bits 2 1]
  let w_ := w_ ++ [BV.Rs.WOp.bits 2 ((num_symbols + 18446744073709551616 - 1) % 18446744073709551616)]
  if (num_symbols == 2) then
    let w_ := w_ ++ [BV.Rs.WOp.bits (max_bits % 256) (List.getD symbols 0 0)]
    let w_ := w_ ++ [BV.Rs.WOp.bits (max_bits % 256) (List.getD symbols 1 0)]
    (symbols, w_)
  else
    if (num_symbols == 3) then
      let w_ := w_ ++ [BV.Rs.WOp.bits (max_bits % 256) (List.getD symbols 0 0)]
      let w_ := w_ ++ [BV.Rs.WOp.bits (max_bits % 256) (List.getD symbols 1 0)]
      let w_ := w_ ++ [BV.Rs.WOp.bits (max_bits % 256) (List.getD symbols 2 0)]
      (symbols, w_)
    else
      let w_ := w_ ++ [BV.Rs.WOp.bits (max_bits % 256) (List.getD symbols 0 0)]
      let w_ := w_ ++ [BV.Rs.WOp.bits (max_bits % 256) (List.getD symbols 1 0)]
      let w_ := w_ ++ [BV.Rs.WOp.bits (max_bits % 256) (List.getD symbols 2 0)]
      let w_ := w_ ++ [BV.Rs.WOp.bits (max_bits % 256) (List.getD symbols 3 0)]
      let w_ := w_ ++ [BV.Rs.WOp.bits 1 (BV.Rs.toU 64 (if ((((List.getD depths (List.getD symbols 0 0) 0) : Nat) : Int) == (1 : Int)) then ( (1 : Int)) else ( (0 : Int))))]
      (symbols, w_)

theorem store_simple_unfold (depths symbols : List Nat) (num max_bits : Nat) :
    StoreSimpleHuffmanTree depths symbols num max_bits =
      ssTail depths (forRangeAux (ssOuterBody depths num) num 0 symbols) num max_bits := rfl

theorem ssTail_fst (depths s : List Nat) (num mb : Nat) : (ssTail depths s num mb).1 = s := by
  unfold ssTail
  simp only []
  split
  · rfl
  · split <;> rfl

/-- the sorted `symbols` array the generated function returns is the model's, whenever the model's sort
does not run out of the `symbols` / `depths` arrays -/
theorem store_simple_symbols_generated (depths symbols : List Nat) (num mb : Nat) (hn : num < 2 ^ 64) (s : List Nat)
    (h : sortSymbolsOuter depths num num 0 symbols = ok s) :
    (StoreSimpleHuffmanTree depths symbols num mb).1 = s := by
  rw [store_simple_unfold, ssTail_fst]
  exact ss_outer depths num hn num 0 symbols s (by omega) h

theorem tree_select (d0 : Nat) :
    toU 64 (if (((d0 : Nat) : Int) == (1 : Int)) then (1 : Int) else (0 : Int)) = if d0 = 1 then 1 else 0 := by
  by_cases h : d0 = 1
  · subst h; decide
  · have : (((d0 : Nat) : Int) == (1 : Int)) = false := by simp; omega
    simp [this, h]; decide

theorem ssTail_two (depths s : List Nat) (mb : Nat) :
    (ssTail depths s 2 mb).2 = [WOp.bits 2 1, WOp.bits 2 1, WOp.bits (mb % 256) (s.getD 0 0), WOp.bits (mb % 256) (s.getD 1 0)] := rfl

theorem ssTail_three (depths s : List Nat) (mb : Nat) :
    (ssTail depths s 3 mb).2 = [WOp.bits 2 1, WOp.bits 2 2, WOp.bits (mb % 256) (s.getD 0 0), WOp.bits (mb % 256) (s.getD 1 0),
      WOp.bits (mb % 256) (s.getD 2 0)] := rfl

theorem ssTail_four (depths s : List Nat) (num mb : Nat) (n2 : (num == 2) = false) (n3 : (num == 3) = false) :
    (ssTail depths s num mb).2 = [WOp.bits 2 1, WOp.bits 2 ((num + 18446744073709551616 - 1) % 18446744073709551616),
      WOp.bits (mb % 256) (s.getD 0 0), WOp.bits (mb % 256) (s.getD 1 0), WOp.bits (mb % 256) (s.getD 2 0), WOp.bits (mb % 256) (s.getD 3 0),
      WOp.bits 1 (toU 64 (if ((((List.getD depths (List.getD s 0 0) 0) : Nat) : Int) == (1 : Int)) then (1 : Int) else (0 : Int)))] := by
  unfold ssTail
  simp only [n2, n3]
  rfl

theorem run2 (n v : Nat) (rest : List WOp) (w w1 : Writer) (h : writeBits n v w = ok w1) :
    runOps (WOp.bits n v :: rest) w = runOps rest w1 := by
  rw [runOps_bits, h, bind_ok]

theorem ssTail_ops (depths s : List Nat) (num mb : Nat) (w w1 w2 w' : Writer)
    (h1 : writeBits 2 1 w = ok w1) (h2 : writeBits 2 ((num + 18446744073709551616 - 1) % 18446744073709551616) w1 = ok w2)
    (h : storeSimpleTail depths s num mb w2 = ok w') :
    runOps (ssTail depths s num mb).2 w = ok w' := by
  unfold storeSimpleTail at h
  obtain ⟨s0, g0, q1⟩ := bind_eq_ok _ _ _ h
  obtain ⟨s1, g1, q2⟩ := bind_eq_ok _ _ _ q1
  obtain ⟨w3, k3, q3⟩ := bind_eq_ok _ _ _ q2
  obtain ⟨w4, k4, q4⟩ := bind_eq_ok _ _ _ q3
  clear h q1 q2 q3
  have a0 := getAt_ok_getD _ _ _ 0 g0
  have a1 := getAt_ok_getD _ _ _ 0 g1
  by_cases n2 : num = 2
  · rw [if_pos n2] at q4
    have hw := Out.ok.inj q4
    subst hw
    subst n2
    rw [ssTail_two, a0, a1, run2 _ _ _ _ _ h1, run2 _ _ _ _ _ h2,
      run2 _ _ _ _ _ k3, run2 _ _ _ _ _ k4]
    rfl
  · rw [if_neg n2] at q4
    obtain ⟨s2, g2, q5⟩ := bind_eq_ok _ _ _ q4
    obtain ⟨w5, k5, q6⟩ := bind_eq_ok _ _ _ q5
    clear q4 q5
    have a2 := getAt_ok_getD _ _ _ 0 g2
    by_cases n3 : num = 3
    · rw [if_pos n3] at q6
      have hw := Out.ok.inj q6
      subst hw
      subst n3
      rw [ssTail_three, a0, a1, a2, run2 _ _ _ _ _ h1, run2 _ _ _ _ _ h2,
        run2 _ _ _ _ _ k3, run2 _ _ _ _ _ k4, run2 _ _ _ _ _ k5]
      rfl
    · rw [if_neg n3] at q6
      obtain ⟨s3, g3, q7⟩ := bind_eq_ok _ _ _ q6
      obtain ⟨w6, k6, q8⟩ := bind_eq_ok _ _ _ q7
      obtain ⟨d0, gd, q9⟩ := bind_eq_ok _ _ _ q8
      clear q6 q7 q8
      have a3 := getAt_ok_getD _ _ _ 0 g3
      have n2' : (num == 2) = false := by simp [n2]
      have n3' : (num == 3) = false := by simp [n3]
      rw [ssTail_four depths s num mb n2' n3', a0, a1, a2, a3, getAt_ok_getD _ _ _ 0 gd, tree_select,
        run2 _ _ _ _ _ h1, run2 _ _ _ _ _ h2,
        run2 _ _ _ _ _ k3, run2 _ _ _ _ _ k4, run2 _ _ _ _ _ k5,
        run2 _ _ _ _ _ k6, run2 _ _ _ _ _ q9]
      rfl

/-- whenever the model's `storeSimpleHuffmanTree` returns, the generated operation list run on the same
writer returns the same bits -/
theorem store_simple_generated (depths symbols : List Nat) (num mb : Nat) (hn : num < 2 ^ 64) (w w' : Writer)
    (h : storeSimpleHuffmanTree depths symbols num mb w = ok w') :
    runOps (StoreSimpleHuffmanTree depths symbols num mb).2 w = ok w' := by
  unfold storeSimpleHuffmanTree at h
  obtain ⟨w1, h1, h⟩ := bind_eq_ok _ _ _ h
  obtain ⟨w2, h2, h⟩ := bind_eq_ok _ _ _ h
  obtain ⟨s, hs, h⟩ := bind_eq_ok _ _ _ h
  rw [store_simple_unfold, ss_outer depths num hn num 0 symbols s (by omega) hs]
  exact ssTail_ops depths s num mb w w1 w2 w' h1 h2 h

/-! ## `BrotliStoreHuffmanTreeOfHuffmanTreeToBitMask` -/

theorem kso : BV.Gen.kStorageOrder = [1, 2, 3, 4, 0, 5, 17, 6, 16, 7, 8, 9, 10, 11, 12, 13, 14, 15] := rfl
theorem kbl : BV.Gen.kHuffmanBitLengthHuffmanCodeBitLengths = [2, 4, 3, 2, 2, 4] := rfl
theorem ksy : BV.Gen.kHuffmanBitLengthHuffmanCodeSymbols = [0, 7, 3, 2, 1, 15] := rfl

/-- body of the generated `while codes_to_store > 0` loop -/
def ctsBody (cl : List Nat) : Nat → Ctl Nat Empty :=
  fun codes_to_store =>
    let kStorageOrder : List Nat := [1, 2, 3, 4, 0, 5, 17, 6, 16, 7, 8, 9, 10, 11, 12, 13, 14, 15]
    if (decide (codes_to_store > 0)) then
      if ((((List.getD cl (List.getD kStorageOrder ((codes_to_store + 18446744073709551616 - 1) % 18446744073709551616) 0) 0) : Nat) : Int) != (0 : Int)) then
        BV.Rs.Ctl.brk codes_to_store
      else
        let codes_to_store : Nat := ((codes_to_store + 18446744073709551616 - 1) % 18446744073709551616)
        BV.Rs.Ctl.next codes_to_store
    else
      BV.Rs.Ctl.brk codes_to_store

theorem cts_loop (cl : List Nat) : ∀ (c fuel r : Nat), c < fuel → c ≤ 18 →
    codesToStoreLoop cl c = ok r → whileLoop fuel c (ctsBody cl) = r := by
  intro c
  induction c with
  | zero =>
    intro fuel r hf _ h
    obtain ⟨f, rfl⟩ : ∃ f, fuel = f + 1 := ⟨fuel - 1, by omega⟩
    unfold codesToStoreLoop at h
    have := Out.ok.inj h
    subst this
    rfl
  | succ c ih =>
    intro fuel r hf hc h
    obtain ⟨f, rfl⟩ : ∃ f, fuel = f + 1 := ⟨fuel - 1, by omega⟩
    unfold codesToStoreLoop at h
    obtain ⟨ix, g1, q1⟩ := bind_eq_ok _ _ _ h
    obtain ⟨d, g2, q2⟩ := bind_eq_ok _ _ _ q1
    rw [kso] at g1
    unfold whileLoop
    have e1 : (c + 1 + 18446744073709551616 - 1) % 18446744073709551616 = c := by omega
    have e0 : decide (c + 1 > 0) = true := by simp
    simp only [ctsBody, e0, e1, if_true, getAt_ok_getD _ _ _ 0 g1, getAt_ok_getD _ _ _ 0 g2]
    by_cases hd : d = 0
    · have : (((d : Nat) : Int) != (0 : Int)) = false := by simp [hd]
      simp only [hd, ne_eq, not_true_eq_false, if_false] at q2 ⊢
      exact ih f r (by omega) (by omega) q2
    · have : (((d : Nat) : Int) != (0 : Int)) = true := by simp; omega
      simp only [this, hd, ne_eq, not_false_eq_true, if_true] at q2 ⊢
      exact Out.ok.inj q2

/-- body of the generated `for i in skip_some..codes_to_store` loop -/
def sclBody (cl : List Nat) : Nat → List WOp → List WOp :=
  fun i w_ =>
    let kStorageOrder : List Nat := [1, 2, 3, 4, 0, 5, 17, 6, 16, 7, 8, 9, 10, 11, 12, 13, 14, 15]
    let kHuffmanBitLengthHuffmanCodeSymbols : List Nat := [0, 7, 3, 2, 1, 15]
    let kHuffmanBitLengthHuffmanCodeBitLengths : List Nat := [2, 4, 3, 2, 2, 4]
    let l : Nat := (List.getD cl (List.getD kStorageOrder i 0) 0)
    let w_ := w_ ++ [BV.Rs.WOp.bits (List.getD kHuffmanBitLengthHuffmanCodeBitLengths l 0) (List.getD kHuffmanBitLengthHuffmanCodeSymbols l 0)]
    w_

theorem runOps_append (a b : List WOp) (w : Writer) : runOps (a ++ b) w = (runOps a w) >>= (runOps b) := by
  induction a generalizing w with
  | nil => simp
  | cons x xs ih =>
    cases x with
    | bits n v =>
      simp only [List.cons_append, runOps_bits]
      cases hw : writeBits n v w <;> simp [ih]
    | align => simp [ih]

theorem scl_loop (cl : List Nat) : ∀ (c i : Nat) (w w' : Writer), storeClLoop cl c i w = ok w' →
    ∀ ops : List WOp, ∃ L, forRangeAux (sclBody cl) c i ops = ops ++ L ∧ runOps L w = ok w' := by
  intro c
  induction c with
  | zero =>
    intro i w w' h ops
    unfold storeClLoop at h
    exact ⟨[], by simp [forRangeAux], by simpa using h⟩
  | succ c ih =>
    intro i w w' h ops
    unfold storeClLoop at h
    obtain ⟨ix, g1, q1⟩ := bind_eq_ok _ _ _ h
    obtain ⟨l, g2, q2⟩ := bind_eq_ok _ _ _ q1
    obtain ⟨nb, g3, q3⟩ := bind_eq_ok _ _ _ q2
    obtain ⟨sy, g4, q4⟩ := bind_eq_ok _ _ _ q3
    obtain ⟨w1, k1, q5⟩ := bind_eq_ok _ _ _ q4
    rw [kso] at g1
    rw [kbl] at g3
    rw [ksy] at g4
    unfold forRangeAux
    have e : sclBody cl i ops = ops ++ [WOp.bits nb sy] := by
      simp only [sclBody, getAt_ok_getD _ _ _ 0 g1, getAt_ok_getD _ _ _ 0 g2, getAt_ok_getD _ _ _ 0 g3, getAt_ok_getD _ _ _ 0 g4]
    rw [e]
    obtain ⟨L, hL1, hL2⟩ := ih (i + 1) w1 w' q5 (ops ++ [WOp.bits nb sy])
    refine ⟨WOp.bits nb sy :: L, ?_, ?_⟩
    · rw [hL1]; simp
    · simp [runOps_bits, k1, hL2]

/-- the generated function with its two loops named -/
def shtGen (num_codes : Int) (cl : List Nat) : List WOp :=
  let kStorageOrder : List Nat := [1, 2, 3, 4, 0, 5, 17, 6, 16, 7, 8, 9, 10, 11, 12, 13, 14, 15]
  let codes_to_store : Nat := (if (decide (num_codes > (1 : Int))) then whileLoop 19 18 (ctsBody cl) else 18)
  let skip_some : Nat := (if (((((List.getD cl (List.getD kStorageOrder 0 0) 0) : Nat) : Int) == (0 : Int)) && ((((List.getD cl (List.getD kStorageOrder 1 0) 0) : Nat) : Int) == (0 : Int))) then
    (if ((((List.getD cl (List.getD kStorageOrder 2 0) 0) : Nat) : Int) == (0 : Int)) then 3 else 2)
  else 0)
  forRange skip_some codes_to_store ([] ++ [BV.Rs.WOp.bits 2 skip_some]) (sclBody cl)

theorem sht_unfold (num_codes : Int) (cl : List Nat) :
    BrotliStoreHuffmanTreeOfHuffmanTreeToBitMask num_codes cl = shtGen num_codes cl := rfl

/-- whenever the model returns, the generated operation list run on the same writer returns the same bits
(`num_codes` is an `i32` in Rust and a `Nat` in the model) -/
theorem store_huffman_tree_of_huffman_tree_generated (numCodes : Nat) (cl : List Nat) (w w' : Writer)
    (h : storeHuffmanTreeOfHuffmanTreeToBitMask numCodes cl w = ok w') :
    runOps (BrotliStoreHuffmanTreeOfHuffmanTreeToBitMask (numCodes : Int) cl) w = ok w' := by
  rw [sht_unfold]
  unfold storeHuffmanTreeOfHuffmanTreeToBitMask at h
  obtain ⟨cts, hc, q1⟩ := bind_eq_ok _ _ _ h
  obtain ⟨o0, g0, q2⟩ := bind_eq_ok _ _ _ q1
  obtain ⟨o1, g1, q3⟩ := bind_eq_ok _ _ _ q2
  obtain ⟨o2, g2, q4⟩ := bind_eq_ok _ _ _ q3
  obtain ⟨d0, gd0, q5⟩ := bind_eq_ok _ _ _ q4
  obtain ⟨d1, gd1, q6⟩ := bind_eq_ok _ _ _ q5
  obtain ⟨d2, gd2, q7⟩ := bind_eq_ok _ _ _ q6
  obtain ⟨w1, k1, q8⟩ := bind_eq_ok _ _ _ q7
  clear h q1 q2 q3 q4 q5 q6 q7
  rw [kso] at g0 g1 g2
  have e0 := Out.ok.inj (show ok 1 = ok o0 from g0)
  have e1 := Out.ok.inj (show ok 2 = ok o1 from g1)
  have e2 := Out.ok.inj (show ok 3 = ok o2 from g2)
  subst e0 e1 e2
  -- codes_to_store
  have hcts : (if (decide ((numCodes : Int) > (1 : Int))) then whileLoop 19 18 (ctsBody cl) else 18) = cts := by
    by_cases hn : numCodes > 1
    · have : decide ((numCodes : Int) > (1 : Int)) = true := by simp; omega
      simp only [hn, if_true] at hc
      simp only [this, if_true]
      exact cts_loop cl 18 19 cts (by decide) (by decide) hc
    · have : decide ((numCodes : Int) > (1 : Int)) = false := by simp; omega
      simp only [hn, if_false] at hc
      simp only [this, if_false, Bool.false_eq_true]
      exact Out.ok.inj hc
  -- skip_some
  have hskip : (if (((((List.getD cl 1 0) : Nat) : Int) == (0 : Int)) && ((((List.getD cl 2 0) : Nat) : Int) == (0 : Int))) then
        (if ((((List.getD cl 3 0) : Nat) : Int) == (0 : Int)) then 3 else 2) else 0)
      = (if d0 = 0 ∧ d1 = 0 then (if d2 = 0 then 3 else 2) else 0) := by
    rw [getAt_ok_getD _ _ _ 0 gd0]
    by_cases h0 : d0 = 0
    · simp only [h0, if_true] at gd1
      rw [getAt_ok_getD _ _ _ 0 gd1]
      by_cases h1 : d1 = 0
      · simp only [h0, h1, and_self, if_true] at gd2
        rw [getAt_ok_getD _ _ _ 0 gd2]
        by_cases h2 : d2 = 0
        · simp [h0, h1, h2]
        · have : (((d2 : Nat) : Int) == (0 : Int)) = false := by simp; omega
          simp [h0, h1, h2, this]
      · have : (((d1 : Nat) : Int) == (0 : Int)) = false := by simp; omega
        simp [h0, h1, this]
    · have : (((d0 : Nat) : Int) == (0 : Int)) = false := by simp; omega
      simp [h0, this]
  unfold shtGen
  simp only [List.getD_cons_zero, List.getD_cons_succ, hcts, hskip, List.nil_append]
  unfold forRange
  obtain ⟨L, hL1, hL2⟩ := scl_loop cl _ _ w1 w' q8 [WOp.bits 2 (if d0 = 0 ∧ d1 = 0 then (if d2 = 0 then 3 else 2) else 0)]
  rw [hL1]
  simp [runOps_bits, k1, hL2]

/-! ## `BrotliConvertBitDepthsToSymbols` -/

theorem u16_inc (c : Nat) : toU 16 (wrapS 32 (((c : Nat) : Int) + (1 : Int))) = (c + 1) % 65536 := by
  unfold toU wrapS
  have e1 : (2 : Int) ^ (32 - 1) = 2147483648 := by decide
  have e2 : (2 : Int) ^ 32 = 4294967296 := by decide
  have e3 : (2 : Int) ^ 16 = 65536 := by decide
  rw [e1, e2, e3]
  omega

theorem code_step32 (codeI : Int) (b : Nat) :
    toU 32 (wrapS 32 ((wrapS 32 (codeI + ((b : Nat) : Int))) * (2 : Int) ^ (1 % 32))) = ((toU 32 codeI + b) % 4294967296 * 2) % 4294967296 := by
  unfold toU wrapS
  have e1 : (2 : Int) ^ (32 - 1) = 2147483648 := by decide
  have e2 : (2 : Int) ^ 32 = 4294967296 := by decide
  have e4 : (2 : Int) ^ (1 % 32) = 2 := by decide
  rw [e1, e2, e4]
  omega

theorem code_step16 (codeI : Int) (b : Nat) :
    toU 16 (wrapS 32 ((wrapS 32 (codeI + ((b : Nat) : Int))) * (2 : Int) ^ (1 % 32))) = ((toU 32 codeI + b) % 4294967296 * 2) % 4294967296 % 65536 := by
  unfold toU wrapS
  have e1 : (2 : Int) ^ (32 - 1) = 2147483648 := by decide
  have e2 : (2 : Int) ^ 32 = 4294967296 := by decide
  have e3 : (2 : Int) ^ 16 = 65536 := by decide
  have e4 : (2 : Int) ^ (1 % 32) = 2 := by decide
  rw [e1, e2, e3, e4]
  omega

theorem take_set_succ {α : Type} : ∀ (l : List α) (i : Nat) (x : α), i < l.length → (l.set i x).take (i + 1) = l.take i ++ [x]
  | [], _, _, h => by simp at h
  | a :: l, 0, x, _ => by simp
  | a :: l, i + 1, x, h => by
    have := take_set_succ l i x (by simpa using h)
    simp [this]

theorem drop_take_succ (l : List Nat) (i n : Nat) (h : i < l.length) :
    (l.drop i).take (n + 1) = l[i] :: (l.drop (i + 1)).take n := by
  rw [List.drop_eq_getElem_cons h]
  rfl

/-- body of the first generated loop (`bl_count[depth[i]] += 1`) -/
def cbBody1 (depth : List Nat) : Nat → List Nat → List Nat :=
  fun i bl_count =>
    let _rhs : Int := (1 : Int)
    let ix_1 : Nat := (List.getD depth i 0)
    let bl_count : List Nat := (List.set bl_count ix_1 (BV.Rs.toU 16 (BV.Rs.wrapS 32 ((((List.getD bl_count ix_1 0) : Nat) : Int) + _rhs))))
    bl_count

theorem cb_loop1 (depth : List Nat) : ∀ (n i : Nat) (bl r : List Nat), i + n ≤ depth.length →
    blCountLoop ((depth.drop i).take n) bl = ok r → forRangeAux (cbBody1 depth) n i bl = r := by
  intro n
  induction n with
  | zero => intro i bl r _ h; simp [blCountLoop] at h; simpa [forRangeAux] using h
  | succ n ih =>
    intro i bl r hi h
    have hlt : i < depth.length := by omega
    rw [drop_take_succ depth i n hlt] at h
    unfold blCountLoop at h
    obtain ⟨c, g1, q1⟩ := bind_eq_ok _ _ _ h
    unfold forRangeAux
    have e : cbBody1 depth i bl = bl.set depth[i] ((c + 1) % 65536) := by
      unfold cbBody1
      simp only [List.getD_eq_getElem?_getD, List.getElem?_eq_getElem hlt, Option.getD_some]
      have := getAt_ok_getD _ _ _ 0 g1
      rw [List.getD_eq_getElem?_getD] at this
      rw [this, u16_inc]
    rw [e]
    exact ih (i + 1) _ r (by omega) q1

/-- body of the second generated loop (`code = (code + bl_count[i-1]) << 1; next_code[i] = code as u16`) -/
def cbBody2 (bl_count : List Nat) : Nat → List Nat × Int → List Nat × Int :=
  fun i (next_code, code) =>
    let code : Int := (BV.Rs.wrapS 32 ((BV.Rs.wrapS 32 (code + (((List.getD bl_count ((i + 18446744073709551616 - 1) % 18446744073709551616) 0) : Nat) : Int))) * (2 : Int) ^ (1 % 32)))
    let next_code : List Nat := (List.set next_code i (BV.Rs.toU 16 code))
    (next_code, code)

theorem cb_loop2 (bl : List Nat) : ∀ (n i : Nat) (nc : List Nat) (codeI : Int) (r : List Nat), 1 ≤ i → i + n = 16 →
    nc.length = 16 → i - 1 + n ≤ bl.length →
    nextCodeLoop ((bl.drop (i - 1)).take n) (toU 32 codeI) = ok r →
    (forRangeAux (cbBody2 bl) n i (nc, codeI)).1 = nc.take i ++ r := by
  intro n
  induction n with
  | zero =>
    intro i nc codeI r _ hi hl _ h
    simp [nextCodeLoop] at h
    subst h
    have hi16 : nc.length ≤ i := by omega
    simp [forRangeAux, List.take_of_length_le hi16]
  | succ n ih =>
    intro i nc codeI r h1 hi hl hb h
    have hlt : i - 1 < bl.length := by omega
    rw [drop_take_succ bl (i - 1) n hlt] at h
    unfold nextCodeLoop at h
    split at h
    · cases h
    obtain ⟨rest, g1, q1⟩ := bind_eq_ok _ _ _ h
    have hr := Out.ok.inj q1
    unfold forRangeAux
    have ei : (i + 18446744073709551616 - 1) % 18446744073709551616 = i - 1 := by omega
    have eb : List.getD bl (i - 1) 0 = bl[i - 1] := by
      simp [List.getD_eq_getElem?_getD, List.getElem?_eq_getElem hlt]
    have e : cbBody2 bl i (nc, codeI) =
        (nc.set i ((((toU 32 codeI + bl[i - 1]) % u32) * 2) % u32 % 65536),
          BV.Rs.wrapS 32 ((BV.Rs.wrapS 32 (codeI + ((bl[i - 1] : Nat) : Int))) * (2 : Int) ^ (1 % 32))) := by
      unfold cbBody2
      simp only [ei, eb, code_step16]
      rfl
    rw [e]
    have e1 : i + 1 - 1 = i - 1 + 1 := by omega
    have := ih (i + 1) (nc.set i ((((toU 32 codeI + bl[i - 1]) % u32) * 2) % u32 % 65536)) _ rest (by omega) (by omega)
      (by rw [List.length_set]; exact hl) (by omega) (by rw [e1, code_step32]; exact g1)
    rw [this, take_set_succ nc i _ (by omega), ← hr]
    simp

/-- body of the third generated loop -/
def cbBody3 (depth : List Nat) : Nat → List Nat × List Nat → List Nat × List Nat :=
  fun i (bits, next_code) =>
    if ((List.getD depth i 0) != 0) then
      let arg_2 : Nat := (List.getD depth i 0)
      let _rhs : Int := (1 : Int)
      let ix_4 : Nat := (List.getD depth i 0)
      let _old : Nat := (List.getD next_code ix_4 0)
      let next_code : List Nat := (List.set next_code ix_4 (BV.Rs.toU 16 (BV.Rs.wrapS 32 ((((List.getD next_code ix_4 0) : Nat) : Int) + _rhs))))
      let arg_3 : Nat := _old
      let bits : List Nat := (List.set bits i (BrotliReverseBits arg_2 arg_3))
      (bits, next_code)
    else
      (bits, next_code)

theorem cb_loop3 (depth : List Nat) : ∀ (n i : Nat) (next bits r : List Nat), i + n ≤ depth.length →
    next.length = 16 → (∀ x ∈ next, x < 65536) →
    assignLoop ((depth.drop i).take n) i next bits = ok r →
    (forRangeAux (cbBody3 depth) n i (bits, next)).1 = r := by
  intro n
  induction n with
  | zero => intro i next bits r _ _ _ h; simp [assignLoop] at h; simpa [forRangeAux] using h
  | succ n ih =>
    intro i next bits r hi hl hN h
    have hlt : i < depth.length := by omega
    rw [drop_take_succ depth i n hlt] at h
    unfold assignLoop at h
    unfold forRangeAux
    have ed : List.getD depth i 0 = depth[i] := by
      simp [List.getD_eq_getElem?_getD, List.getElem?_eq_getElem hlt]
    by_cases hd : depth[i] = 0
    · have g : ((List.getD depth i 0) != 0) = false := by rw [ed]; simp [hd]
      rw [if_neg (by simpa using hd)] at h
      have e : cbBody3 depth i (bits, next) = (bits, next) := by
        unfold cbBody3
        simp only [g, if_false, Bool.false_eq_true]
      rw [e]
      exact ih (i + 1) next bits r (by omega) hl hN h
    · have g : ((List.getD depth i 0) != 0) = true := by rw [ed, bne_iff_ne]; exact hd
      rw [if_pos hd] at h
      obtain ⟨c, g1, q1⟩ := bind_eq_ok _ _ _ h
      obtain ⟨bits', g2, q2⟩ := bind_eq_ok _ _ _ q1
      have hc := getAt_ok_getD _ _ _ 0 g1
      have hd16 : depth[i] < 16 := by
        unfold getAt at g1
        cases hq : next[depth[i]]? with
        | none => simp [hq] at g1
        | some y =>
          have := (List.getElem?_eq_some_iff.mp hq).1
          omega
      have hcm : c ∈ next := by
        rw [← hc, List.getD_eq_getElem?_getD, List.getElem?_eq_getElem (by omega)]
        exact List.getElem_mem _
      have hc16 : c < 65536 := hN c hcm
      have e : cbBody3 depth i (bits, next) = (bits', next.set depth[i] ((c + 1) % 65536)) := by
        unfold cbBody3
        have g' : (depth[i] != 0) = true := by rw [bne_iff_ne]; exact hd
        simp only [ed, g', if_true, hc, u16_inc, reverse_bits_generated depth[i] c (by omega) hc16]
        rw [setAt_ok_set _ _ _ _ g2]
      rw [e]
      refine ih (i + 1) _ bits' r (by omega) (by rw [List.length_set]; exact hl) ?_ q2
      intro x hx
      rcases List.mem_or_eq_of_mem_set hx with h1 | h1
      · exact hN x h1
      · rw [h1]; exact Nat.mod_lt _ (by decide)

theorem convert_unfold (depth : List Nat) (len : Nat) (bits : List Nat) :
    BrotliConvertBitDepthsToSymbols depth len bits =
      (forRangeAux (cbBody3 depth) (len - 0) 0
        (bits, (forRangeAux (cbBody2 (List.set (forRangeAux (cbBody1 depth) (len - 0) 0 (List.replicate 16 0)) 0 0)) (16 - 1) 1
          (List.set (List.replicate 16 0) 0 0, (0 : Int))).1)).1 := rfl

theorem blCountLoop_length : ∀ (ds bl r : List Nat), blCountLoop ds bl = ok r → r.length = bl.length := by
  intro ds
  induction ds with
  | nil => intro bl r h; simp [blCountLoop] at h; rw [h]
  | cons d ds ih =>
    intro bl r h
    unfold blCountLoop at h
    obtain ⟨c, _, q1⟩ := bind_eq_ok _ _ _ h
    rw [ih _ _ q1, List.length_set]

theorem nextCodeLoop_lt : ∀ (bs : List Nat) (code : Nat) (r : List Nat), nextCodeLoop bs code = ok r →
    r.length = bs.length ∧ ∀ x ∈ r, x < 65536 := by
  intro bs
  induction bs with
  | nil => intro code r h; simp [nextCodeLoop] at h; subst h; simp
  | cons b bs ih =>
    intro code r h
    unfold nextCodeLoop at h
    split at h
    · cases h
    obtain ⟨rest, g1, q1⟩ := bind_eq_ok _ _ _ h
    have hr := Out.ok.inj q1
    obtain ⟨h1, h2⟩ := ih _ _ g1
    rw [← hr]
    refine ⟨by simp [h1], ?_⟩
    intro x hx
    rcases List.mem_cons.mp hx with hx | hx
    · rw [hx]; exact Nat.mod_lt _ (by decide)
    · exact h2 x hx

/-- `BrotliConvertBitDepthsToSymbols`: whenever the model returns (it panics when `len` exceeds the depth array, on a depth
of 16 or more, on an `i32` overflow of `code` and when `bits` is shorter than `len`), the generated function returns the
model's `bits` array — the three loops (length histogram, first codes, assignment with `BrotliReverseBits`) by induction -/
theorem convert_bit_depths_to_symbols_generated (depth : List Nat) (len : Nat) (bits r : List Nat)
    (h : convertBitDepthsToSymbols depth len bits = ok r) :
    BrotliConvertBitDepthsToSymbols depth len bits = r := by
  unfold convertBitDepthsToSymbols at h
  split at h
  · cases h
  rename_i hlen
  have h16 : BV.Gen.MAX_HUFFMAN_BITS = 16 := rfl
  rw [h16] at h
  obtain ⟨bl, g1, q1⟩ := bind_eq_ok _ _ _ h
  obtain ⟨next, g2, q2⟩ := bind_eq_ok _ _ _ q1
  have hdt : depth.take len = (depth.drop 0).take len := by simp
  rw [hdt] at g1 q2
  have hbl : bl.length = 16 := by rw [blCountLoop_length _ _ _ g1]; simp
  have e1 := cb_loop1 depth len 0 (List.replicate 16 0) bl (by omega) g1
  obtain ⟨hnl, hnlt⟩ := nextCodeLoop_lt _ _ _ g2
  have hset : (bl.set 0 0).length = 16 := by rw [List.length_set]; exact hbl
  have hnl15 : next.length = 15 := by rw [hnl, List.length_take, hset]; rfl
  have t0 : toU 32 (0 : Int) = 0 := by decide
  have g2' : nextCodeLoop (((bl.set 0 0).drop (1 - 1)).take 15) (toU 32 (0 : Int)) = ok next := by
    rw [t0]; simpa using g2
  have e2 := cb_loop2 (bl.set 0 0) 15 1 (List.set (List.replicate 16 0) 0 0) (0 : Int) next (by omega) (by omega)
    (by simp) (by rw [hset]; omega) g2'
  rw [convert_unfold]
  have l0 : len - 0 = len := by omega
  rw [l0, e1]
  have l15 : 16 - 1 = 15 := rfl
  rw [l15, e2]
  have e0 : (List.set (List.replicate 16 0) 0 0).take 1 ++ next = 0 :: next := by rfl
  rw [e0]
  refine cb_loop3 depth len 0 (0 :: next) bits r (by omega) (by simp [hnl15]) ?_ q2
  intro x hx
  rcases List.mem_cons.mp hx with hx | hx
  · rw [hx]; decide
  · exact hnlt x hx

example : BrotliReverseBits 5 0b10110 = 0b01101 := by decide +kernel
example : BrotliReverseBits 16 1 = 32768 := by decide +kernel
example : (StoreSimpleHuffmanTree [2, 1, 3, 3] [0, 1, 2, 3] 4 2).1 = [1, 0, 2, 3] := by decide +kernel
example : sortSymbolsOuter [2, 1, 3, 3] 4 4 0 [0, 1, 2, 3] = ok [1, 0, 2, 3] := by decide +kernel
example : convertBitDepthsToSymbols [2, 1, 3, 3] 4 [0, 0, 0, 0] = ok (BrotliConvertBitDepthsToSymbols [2, 1, 3, 3] 4 [0, 0, 0, 0]) := by
  decide +kernel
example : BrotliConvertBitDepthsToSymbols [2, 1, 3, 3] 4 [0, 0, 0, 0] = [1, 0, 3, 7] := by decide +kernel
/-- non-vacuity of the "whenever the model returns" hypotheses -/
example : ∃ w', storeSimpleHuffmanTree [2, 1, 3, 3] [0, 1, 2, 3] 4 2 [] = ok w' ∧ w'.length = 13 := ⟨_, rfl, by decide +kernel⟩
example : ∃ w', storeHuffmanTreeOfHuffmanTreeToBitMask 2 [0, 0, 0, 1, 1, 0, 0, 0, 0, 0, 0, 0, 0, 0, 0, 0, 0, 0] [] = ok w' ∧ w'.length = 10 :=
  ⟨_, rfl, by decide +kernel⟩

end BV.Props.C17Gen
