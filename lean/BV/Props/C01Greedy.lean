/-
C01 (greedy module) — the GREEDY meta-block builder `BrotliBuildMetaBlockGreedy` (quality 4..9).

Model: `BV/Model/Greedy.lean` (`buildGreedy`: `InitBlockSplitter` / `InitContextBlockSplitter`, `…AddSymbol`,
`…FinishBlock` with its four branches and the `is_final` tail, `MapStaticContexts`, the command loop).  Every `floatX`
computation of the code — `BitsEntropy`, the differences `diff[j]`, the comparisons with the split threshold and with
`diff[0] - 20.0` — goes through an ORACLE `FOps F` over an abstract carrier; the theorems hold for EVERY oracle that
satisfies the one IEEE-754 fact `OracleOK` (`x < x - 20.0` is false).
Tied to the code by the `build` / `log2` lines of engine `greedy` (`/verif/harness/src/greedy.rs`): the whole real
builder against the model with `F = Float32`, every split, context map and histogram entry identical.

SPEC side: the hypothesis `MBOK` / `Covers` of `full_metablock_roundtrip` (third module) and, through it, the general
RFC 7932 reader.
-/
import BV.Lemmas.GreedyOptTotal
import BV.Props.C01MetaBlockFull

namespace BV.Props.C01Greedy
open BV.Gen BV.Bits BV.Huffman BV.PrefixArith BV.Recoder BV.MetaBlock BV.Greedy

/-- **greedy_split_wellformed** — `BrotliBuildMetaBlockGreedy` on a fresh `MetaBlockSplit`.
For EVERY float oracle `ops` with `x < x − 20.0` false (`OracleOK`; no other property of `BitsEntropy`, of `+`, `−`, `<`,
`>` or of the three thresholds is used: the entropy function and the arithmetic are arbitrary), every ring buffer / mask /
start position holding the meta-block bytes `mb` (`|mb| + 512 ≤ 2^24`, at most `2^24 − 1024` commands), every history
with `prev_byte` / `prev_byte2` its last two bytes, every context mode 0..3, `num_contexts = 1` or 2..13 contexts with
a static context map of at least 64 entries `< num_contexts` (`StaticOK`; the maps of `encode.rs` have 2, 3, 13
contexts), every command array with `cmdOK`, `copy_len() ≥ 2` for copying commands and `lockstep` (only its position
bookkeeping is used: every command stays inside the meta-block), distance alphabet `≤ 544`:
* the model of the builder does NOT PANIC — no index beyond `split.types` / `split.lengths` (allocated with
  `max_num_blocks = num_symbols / min_block_size + 1` entries, indexed with `num_blocks_`, `num_blocks_ − 1`,
  `num_blocks_ − 2`), none beyond the `min(max_num_blocks, max_block_types + 1) · num_contexts` histograms (indexed with
  `curr_histogram_ix_ (+ context)` and `last_histogram_ix_[j] (+ i)`), none in a histogram, in the ring, in the static map
  or in the context map, no `assert!`, no division by zero;
* the `MetaBlockSplit` it returns is well formed in exactly the sense `full_metablock_roundtrip` asks for: `MBOK` (three
  `SplitOK` splits — at least one block, first block type 0, types `< num_types ≤ 256`, block lengths `1..2^24`,
  `num_types = 1` ⇒ one block —, histogram arrays of the right shape with totals `≤ 2^25` and nothing above the
  alphabet, `num_types · num_contexts ≤ 256` literal histograms, the literal context map absent or of `64 · num_types`
  entries `<` that number, no distance context map) and the three `Covers` facts (the histogram the context map
  selects for the block type and context of the k-th literal / command / distance symbol counts that symbol).
`OracleOK` is NEEDED: while there is one block type, `diff[0]` and `diff[1]` are the same computation; an oracle that
answers `diff[1] < diff[0] − 20.0` there sends the code to `split.types[num_blocks_ − 2]` with `num_blocks_ = 1` (second
example below). -/
theorem greedy_split_wellformed {F : Type} (ops : FOps F) (hirr : OracleOK ops) (wo : WordOracle) (window : Nat) (ring : Bytes)
    (start mask prevByte prevByte2 : Nat) (mb : Bytes) (dp : DistP) (mode numContexts : Nat) (scm : List Nat)
    (cmds : List Cmd) (hist : Bytes) (dc : List Int)
    (hR : RingHolds ring mask start mb) (h256 : ∀ b ∈ mb, b < 256) (hh256 : ∀ b ∈ hist, b < 256)
    (h64 : start + mb.length < 2 ^ 64) (hprev : prevByte = lastB hist ∧ prevByte2 = last2B hist) (hmode : mode < 4)
    (hst : StaticOK numContexts scm) (hA544 : dp.alphabetSize ≤ 544)
    (hok : ∀ c ∈ cmds, cmdOK dp.alphabetSize dp.npostfix dp.ndirect c = true)
    (hcl2 : ∀ c ∈ cmds, copyLen c ≠ 0 → 2 ≤ copyLen c)
    (hlock : lockstep wo dp.npostfix dp.ndirect window mb ⟨hist, dc, 0⟩ 0 cmds = true)
    (hsz1 : mb.length + 512 ≤ 2 ^ 24) (hsz2 : cmds.length + 1024 ≤ 2 ^ 24) :
    ∃ mbs, buildGreedy ops ring start mask prevByte prevByte2 mode numContexts scm cmds = .ok mbs ∧
      MBOK mbs dp.alphabetSize ∧
      Covers mbs.litHistos (effMap mbs.litCmap mbs.litCmapSize mbs.lit.numTypes 64) 64
        (remTypes mbs.lit 0 (mbs.lit.lengths.getD 0 0)) (litSymsOf mode hist mb 0 cmds) ∧
      Covers mbs.cmdHistos (trivialMap mbs.cmd.numTypes 1) 1
        (remTypes mbs.cmd 0 (mbs.cmd.lengths.getD 0 0)) (cmds.map fun c => (0, c.cmdPrefix)) ∧
      Covers mbs.distHistos (effMap mbs.distCmap mbs.distCmapSize mbs.dist.numTypes 4) 4
        (remTypes mbs.dist 0 (mbs.dist.lengths.getD 0 0)) (distSymsOf cmds) :=
  buildGreedy_ok ops hirr ring start mask prevByte prevByte2 mode numContexts scm cmds mb hist dp.alphabetSize dp.npostfix
    dp.ndirect hR h256 hh256 (by unfold two64; simpa using h64) hprev hmode hst hA544 hok hcl2
    (lockstep_le wo dp.npostfix dp.ndirect window mb cmds _ 0 hlock).2 hsz1 hsz2

/-- **greedy_metablock_roundtrip** — `BrotliBuildMetaBlockGreedy` ∘ `BrotliStoreMetaBlock` (the quality 4..9 path of
`WriteMetaBlockInternal` without `BrotliOptimizeHistograms`).  Under the hypotheses of `full_metablock_roundtrip` on the
ring, the history and the command array — and NONE on the `MetaBlockSplit`: it is the one the greedy builder computes,
for every float oracle with `OracleOK` and every static context map with `StaticOK` —, with `|mb| + 512 ≤ 2^24` and at most
`2^24 − 1024` commands: neither the builder nor the writer panics, and the GENERAL RFC 7932 reader, started at bit
position `|w|` with decoder state `(hist, dc)`, reads the written bits back to what C14's decoder `replayCommands`
produces from the commands (`hist ++ mb` when the commands replay to the input), stops exactly behind them and reports
ISLAST as written. -/
theorem greedy_metablock_roundtrip {F : Type} (ops : FOps F) (hirr : OracleOK ops) (wo : WordOracle) (window : Nat)
    (ring : Bytes) (start mask prevByte prevByte2 : Nat) (mb : Bytes) (isLast : Bool) (dp : DistP)
    (mode numContexts : Nat) (scm : List Nat) (cmds : List Cmd) (hist : Bytes) (dc : List Int) (w : List Bool)
    (hR : RingHolds ring mask start mb) (h256 : ∀ b ∈ mb, b < 256) (hh256 : ∀ b ∈ hist, b < 256)
    (h1 : 1 ≤ mb.length) (hsz1 : mb.length + 512 ≤ 2 ^ 24) (hsz2 : cmds.length + 1024 ≤ 2 ^ 24)
    (h64 : start + mb.length < 2 ^ 64)
    (hIP : inputPairCheck ring start mb.length mask = .ok ())
    (hprev : prevByte = lastB hist ∧ prevByte2 = last2B hist) (hmode : mode < 4)
    (hst : StaticOK numContexts scm)
    (hnp : dp.npostfix ≤ 3) (hnd1 : dp.ndirect % 2 ^ dp.npostfix = 0) (hnd2 : dp.ndirect / 2 ^ dp.npostfix < 16)
    (hA : dp.alphabetSize = distAlphabetSize dp.large dp.npostfix dp.ndirect) (hA544 : dp.alphabetSize ≤ 544)
    (hok : ∀ c ∈ cmds, cmdOK dp.alphabetSize dp.npostfix dp.ndirect c = true)
    (hcl2 : ∀ c ∈ cmds, copyLen c ≠ 0 → 2 ≤ copyLen c)
    (hlock : lockstep wo dp.npostfix dp.ndirect window mb ⟨hist, dc, 0⟩ 0 cmds = true)
    (hfa : faithful wo dp.npostfix dp.ndirect window mb hist ⟨hist, dc, 0⟩ cmds) :
    ∃ mbs bits out ring',
      buildGreedy ops ring start mask prevByte prevByte2 mode numContexts scm cmds = .ok mbs ∧
      storeMetaBlockFull ring start mb.length mask prevByte prevByte2 isLast dp mode cmds mbs w = .ok (w ++ bits) ∧
      replayCommands wo dp.npostfix dp.ndirect window mb dc hist cmds = some out ∧
      (∀ rest, readMetaBlockFullG wo window dp.large w.length ⟨hist, dc⟩ (bits ++ rest)
        = some (⟨out, ring'⟩, isLast, (w ++ bits).length, rest)) ∧
      (replayCommands wo dp.npostfix dp.ndirect window mb dc hist cmds = some (hist ++ mb) → out = hist ++ mb) := by
  obtain ⟨mbs, e, hM, hcL, hcI, hcD⟩ := greedy_split_wellformed ops hirr wo window ring start mask prevByte prevByte2 mb dp mode
    numContexts scm cmds hist dc hR h256 hh256 h64 hprev hmode hst hA544 hok hcl2 hlock hsz1 hsz2
  obtain ⟨bits, out, ring', a1, a2, a3, a4⟩ := BV.Props.C01MetaBlockFull.full_metablock_roundtrip wo window ring start mask
    prevByte prevByte2 mb isLast dp mode cmds mbs hist dc w hR h256 hh256 h1 (by omega) h64 hIP hprev hmode hnp hnd1 hnd2
    hA hA544 hok hcl2 hlock hfa hM hcL hcI hcD
  exact ⟨mbs, bits, out, ring', e, a1, a2, a3, a4⟩

open BV.Stored (writeMetaBlockInternal MbOracle) in
/-- **greedy_wmbi_roundtrip** — `WriteMetaBlockInternal` at quality 4..9 with the greedy builder's split: the hypotheses of
`wmbi_full_roundtrip` without any on the `MetaBlockSplit`.  For every verdict of `should_compress`, appendable / catable /
last or not, what the call leaves in the storage is read by the general RFC reader from `(hist, dc)` to `hist ++ mb`. -/
theorem greedy_wmbi_roundtrip {F : Type} (ops : FOps F) (hirr : OracleOK ops) (wo : WordOracle) (window : Nat) (ring : Bytes)
    (start mask prevByte prevByte2 : Nat) (mb : Bytes) (appendable catable actualIsLast shouldCompress : Bool) (dp : DistP)
    (mode numContexts : Nat) (scm : List Nat) (cmds : List Cmd) (hist : Bytes) (dc : List Int) (w : List Bool)
    (hR : RingHolds ring mask start mb) (h256 : ∀ b ∈ mb, b < 256) (hh256 : ∀ b ∈ hist, b < 256)
    (h1 : 1 ≤ mb.length) (hsz1 : mb.length + 512 ≤ 2 ^ 24) (hsz2 : cmds.length + 1024 ≤ 2 ^ 24)
    (h64 : start + mb.length < 2 ^ 64)
    (hIP : inputPairCheck ring start mb.length mask = .ok ())
    (hprev : prevByte = lastB hist ∧ prevByte2 = last2B hist) (hmode : mode < 4)
    (hst : StaticOK numContexts scm)
    (hnp : dp.npostfix ≤ 3) (hnd1 : dp.ndirect % 2 ^ dp.npostfix = 0) (hnd2 : dp.ndirect / 2 ^ dp.npostfix < 16)
    (hA : dp.alphabetSize = distAlphabetSize dp.large dp.npostfix dp.ndirect) (hA544 : dp.alphabetSize ≤ 544)
    (hok : ∀ c ∈ cmds, cmdOK dp.alphabetSize dp.npostfix dp.ndirect c = true)
    (hcl2 : ∀ c ∈ cmds, copyLen c ≠ 0 → 2 ≤ copyLen c)
    (hlock : lockstep wo dp.npostfix dp.ndirect window mb ⟨hist, dc, 0⟩ 0 cmds = true)
    (hfa : faithful wo dp.npostfix dp.ndirect window mb hist ⟨hist, dc, 0⟩ cmds)
    (hpay : replayCommands wo dp.npostfix dp.ndirect window mb dc hist cmds = some (hist ++ mb))
    (hcat : catable = true → appendable = true) (hw : w.length < 256) :
    ∃ mbs att r bits s'',
      buildGreedy ops ring start mask prevByte prevByte2 mode numContexts scm cmds = .ok mbs ∧
      storeMetaBlockFull ring start mb.length mask prevByte prevByte2 (if appendable then false else actualIsLast)
        dp mode cmds mbs w = .ok (w ++ att) ∧
      writeMetaBlockInternal appendable catable actualIsLast mb ⟨shouldCompress, att⟩ w = .ok r ∧
      r.fin = w ++ bits ∧ s''.out = hist ++ mb ∧
      (actualIsLast = true → ∀ rest f,
        readMetaBlocksG wo window dp.large (f + 2) w.length ⟨hist, dc⟩ (bits ++ rest) = some (s'', rest)) ∧
      (actualIsLast = false →
        ReadsToG wo window dp.large w.length ⟨hist, dc⟩ bits false (w.length + bits.length) s'') := by
  obtain ⟨mbs, e, hM, hcL, hcI, hcD⟩ := greedy_split_wellformed ops hirr wo window ring start mask prevByte prevByte2 mb dp mode
    numContexts scm cmds hist dc hR h256 hh256 h64 hprev hmode hst hA544 hok hcl2 hlock hsz1 hsz2
  obtain ⟨att, r, bits, s'', a1, a2, a3, a4, a5, a6⟩ := BV.Props.C01MetaBlockFull.wmbi_full_roundtrip wo window ring start mask
    prevByte prevByte2 mb appendable catable actualIsLast shouldCompress dp mode cmds mbs hist dc w hR h256 hh256 h1 (by omega)
    h64 hIP hprev hmode hnp hnd1 hnd2 hA hA544 hok hcl2 hlock hfa hpay hM hcL hcI hcD hcat hw
  exact ⟨mbs, att, r, bits, s'', e, a1, a2, a3, a4, a5, a6⟩

/-- **greedy_block_lengths** — what "the block lengths cover the symbols" means for the greedy builder.  Whatever split it
returns: every literal / command / distance block records at least `min_block_size` = 512 / 1024 / 512 symbols, and the
lengths of a category sum to its symbol count plus a padding of at most `min_block_size` — NOT to the symbol count itself:
the final `FinishBlock` raises a short (or empty) last block to `min_block_size`, so e.g. a meta-block with no distance
symbol gets one distance block of length 512 (second example).  The padding sits in the last block (`Covers` of
`greedy_split_wellformed` aligns the k-th symbol with the k-th position of the length sequence). -/
theorem greedy_block_lengths {F : Type} (ops : FOps F) (hirr : OracleOK ops) (wo : WordOracle) (window : Nat) (ring : Bytes)
    (start mask prevByte prevByte2 : Nat) (mb : Bytes) (dp : DistP) (mode numContexts : Nat) (scm : List Nat)
    (cmds : List Cmd) (hist : Bytes) (dc : List Int) (mbs : MBSplit)
    (hR : RingHolds ring mask start mb) (h256 : ∀ b ∈ mb, b < 256) (hh256 : ∀ b ∈ hist, b < 256)
    (h64 : start + mb.length < 2 ^ 64) (hprev : prevByte = lastB hist ∧ prevByte2 = last2B hist) (hmode : mode < 4)
    (hst : StaticOK numContexts scm) (hA544 : dp.alphabetSize ≤ 544)
    (hok : ∀ c ∈ cmds, cmdOK dp.alphabetSize dp.npostfix dp.ndirect c = true)
    (hcl2 : ∀ c ∈ cmds, copyLen c ≠ 0 → 2 ≤ copyLen c)
    (hlock : lockstep wo dp.npostfix dp.ndirect window mb ⟨hist, dc, 0⟩ 0 cmds = true)
    (hsz1 : mb.length + 512 ≤ 2 ^ 24) (hsz2 : cmds.length + 1024 ≤ 2 ^ 24)
    (hb : buildGreedy ops ring start mask prevByte prevByte2 mode numContexts scm cmds = .ok mbs) :
    HLens mbs (litSymsOf mode hist mb 0 cmds).length cmds.length (distSymsOf cmds).length := by
  obtain ⟨mbs', e, _, _, _, _, _, hL⟩ := buildGreedy_ok' ops hirr ring start mask prevByte prevByte2 mode numContexts scm cmds mb
    hist dp.alphabetSize dp.npostfix dp.ndirect hR h256 hh256 (by unfold two64; simpa using h64) hprev hmode hst hA544 hok hcl2
    (lockstep_le wo dp.npostfix dp.ndirect window mb cmds _ 0 hlock).2 hsz1 hsz2
  rw [hb] at e
  injection e with e
  subst e
  exact hL

/-! ### `BrotliOptimizeHistograms` between the builder and the writer -/

/-- **rewritten_histograms_wellformed** — the hypotheses `MBOK` + `Covers` of the writer theorem survive any rewriting of
the histograms that keeps shape, totals `≤ 2^25`, the alphabet and every occurring symbol (`BV.Greedy.Rewritten`). -/
theorem rewritten_histograms_wellformed (mbs mbs' : MBSplit) (A : Nat) (mode : Nat) (hist mb : Bytes) (cmds : List Cmd)
    (hr : Rewritten mbs mbs' A) (hM : MBOK mbs A)
    (hcL : Covers mbs.litHistos (effMap mbs.litCmap mbs.litCmapSize mbs.lit.numTypes 64) 64
      (remTypes mbs.lit 0 (mbs.lit.lengths.getD 0 0)) (litSymsOf mode hist mb 0 cmds))
    (hcI : Covers mbs.cmdHistos (trivialMap mbs.cmd.numTypes 1) 1
      (remTypes mbs.cmd 0 (mbs.cmd.lengths.getD 0 0)) (cmds.map fun c => (0, c.cmdPrefix)))
    (hcD : Covers mbs.distHistos (effMap mbs.distCmap mbs.distCmapSize mbs.dist.numTypes 4) 4
      (remTypes mbs.dist 0 (mbs.dist.lengths.getD 0 0)) (distSymsOf cmds)) :
    MBOK mbs' A ∧
    Covers mbs'.litHistos (effMap mbs'.litCmap mbs'.litCmapSize mbs'.lit.numTypes 64) 64
      (remTypes mbs'.lit 0 (mbs'.lit.lengths.getD 0 0)) (litSymsOf mode hist mb 0 cmds) ∧
    Covers mbs'.cmdHistos (trivialMap mbs'.cmd.numTypes 1) 1
      (remTypes mbs'.cmd 0 (mbs'.cmd.lengths.getD 0 0)) (cmds.map fun c => (0, c.cmdPrefix)) ∧
    Covers mbs'.distHistos (effMap mbs'.distCmap mbs'.distCmapSize mbs'.dist.numTypes 4) 4
      (remTypes mbs'.dist 0 (mbs'.dist.lengths.getD 0 0)) (distSymsOf cmds) :=
  BV.Greedy.rewritten_histograms_wellformed mbs mbs' A mode hist mb cmds hr hM hcL hcI hcD

/-- **optimize_histograms_keeps_wellformed** — `BrotliOptimizeHistograms(num_distance_codes, mb)` (model
`optimizeHistograms`: `BrotliOptimizeHuffmanCountsForRle` of C17 over every literal, command and distance histogram) on a
`MetaBlockSplit` that is well formed with exact histogram shapes and totals `≤ 2^24` (`HSharp`, proved of the greedy builder's
result): WHENEVER it returns, the result differs from the input only in the histograms, and they are `HistosOK` again —
same lengths, every total grew by at most `2 · length + 1` (so `≤ 2^25`), nothing at or above `num_distance_codes ≤`
alphabet size was touched — and still count every symbol they counted (C17 `optimize_keep`). -/
theorem optimize_histograms_keeps_wellformed (mbs mbs' : MBSplit) (A nd : Nat) (hnd : nd ≤ A) (hA : A ≤ 544) (hM : MBOK mbs A)
    (hS : HSharp mbs) (h : optimizeHistograms nd mbs = .ok mbs') : Rewritten mbs mbs' A :=
  optimizeHistograms_rewritten mbs mbs' A nd hnd hA hM hS h

/-- **optimize_histograms_total** — `BrotliOptimizeHistograms(num_distance_codes ≤ 544, mb)` ALWAYS returns on a well-formed
`MetaBlockSplit` with histograms of the declared shapes (256 / 704 / 544 entries): none of the six loops of
`BrotliOptimizeHuffmanCountsForRle` (count, trim, smallest, zero filling, `good_for_rle` marking with its backward runs,
stride smoothing with its backward runs and the three-cell look-ahead of the limit) leaves the histogram or the 704-byte
`good_for_rle` buffer. -/
theorem optimize_histograms_total (mbs : MBSplit) (A nd : Nat) (hnd : nd ≤ 544) (hM : MBOK mbs A) (hS : HSharp mbs) :
    ∃ mbs', optimizeHistograms nd mbs = .ok mbs' :=
  optimizeHistograms_total mbs A nd hnd hM hS

/-- **greedy_optimized_roundtrip** — the quality 4..9 pipeline of `WriteMetaBlockInternal` as `encode.rs` runs it:
`BrotliBuildMetaBlockGreedy`, then `BrotliOptimizeHistograms(min(alphabet_size, 544), mb)`, then `BrotliStoreMetaBlock`.  Under
the hypotheses of `greedy_metablock_roundtrip` (none on the `MetaBlockSplit`, any float oracle with `OracleOK`): none of
the three panics, and the general RFC 7932 reader reads the written bits back to what `replayCommands` produces from the
commands (`hist ++ mb` when they replay to the input), stops exactly behind them and reports ISLAST as written. -/
theorem greedy_optimized_roundtrip {F : Type} (ops : FOps F) (hirr : OracleOK ops) (wo : WordOracle) (window : Nat)
    (ring : Bytes) (start mask prevByte prevByte2 : Nat) (mb : Bytes) (isLast : Bool) (dp : DistP)
    (mode numContexts : Nat) (scm : List Nat) (cmds : List Cmd) (hist : Bytes) (dc : List Int) (w : List Bool)
    (hR : RingHolds ring mask start mb) (h256 : ∀ b ∈ mb, b < 256) (hh256 : ∀ b ∈ hist, b < 256)
    (h1 : 1 ≤ mb.length) (hsz1 : mb.length + 512 ≤ 2 ^ 24) (hsz2 : cmds.length + 1024 ≤ 2 ^ 24)
    (h64 : start + mb.length < 2 ^ 64)
    (hIP : inputPairCheck ring start mb.length mask = .ok ())
    (hprev : prevByte = lastB hist ∧ prevByte2 = last2B hist) (hmode : mode < 4)
    (hst : StaticOK numContexts scm)
    (hnp : dp.npostfix ≤ 3) (hnd1 : dp.ndirect % 2 ^ dp.npostfix = 0) (hnd2 : dp.ndirect / 2 ^ dp.npostfix < 16)
    (hA : dp.alphabetSize = distAlphabetSize dp.large dp.npostfix dp.ndirect) (hA544 : dp.alphabetSize ≤ 544)
    (hok : ∀ c ∈ cmds, cmdOK dp.alphabetSize dp.npostfix dp.ndirect c = true)
    (hcl2 : ∀ c ∈ cmds, copyLen c ≠ 0 → 2 ≤ copyLen c)
    (hlock : lockstep wo dp.npostfix dp.ndirect window mb ⟨hist, dc, 0⟩ 0 cmds = true)
    (hfa : faithful wo dp.npostfix dp.ndirect window mb hist ⟨hist, dc, 0⟩ cmds) :
    ∃ mbs mbs' bits out ring',
      buildGreedy ops ring start mask prevByte prevByte2 mode numContexts scm cmds = .ok mbs ∧
      optimizeHistograms dp.alphabetSize mbs = .ok mbs' ∧
      storeMetaBlockFull ring start mb.length mask prevByte prevByte2 isLast dp mode cmds mbs' w = .ok (w ++ bits) ∧
      replayCommands wo dp.npostfix dp.ndirect window mb dc hist cmds = some out ∧
      (∀ rest, readMetaBlockFullG wo window dp.large w.length ⟨hist, dc⟩ (bits ++ rest)
        = some (⟨out, ring'⟩, isLast, (w ++ bits).length, rest)) ∧
      (replayCommands wo dp.npostfix dp.ndirect window mb dc hist cmds = some (hist ++ mb) → out = hist ++ mb) := by
  obtain ⟨mbs, e, hM, hcL, hcI, hcD, hS, _⟩ := buildGreedy_ok' ops hirr ring start mask prevByte prevByte2 mode numContexts scm cmds mb
    hist dp.alphabetSize dp.npostfix dp.ndirect hR h256 hh256 (by unfold two64; simpa using h64) hprev hmode hst hA544 hok hcl2
    (lockstep_le wo dp.npostfix dp.ndirect window mb cmds _ 0 hlock).2 hsz1 hsz2
  obtain ⟨mbs', ho⟩ := optimizeHistograms_total mbs dp.alphabetSize dp.alphabetSize hA544 hM hS
  have hr := optimizeHistograms_rewritten mbs mbs' dp.alphabetSize dp.alphabetSize (Nat.le_refl _) hA544 hM hS ho
  obtain ⟨hM', hcL', hcI', hcD'⟩ := BV.Greedy.rewritten_histograms_wellformed mbs mbs' dp.alphabetSize mode hist mb cmds hr hM hcL
    hcI hcD
  obtain ⟨bits, out, ring', a1, a2, a3, a4⟩ := BV.Props.C01MetaBlockFull.full_metablock_roundtrip wo window ring start mask prevByte
    prevByte2 mb isLast dp mode cmds mbs' hist dc w hR h256 hh256 h1 (by omega) h64 hIP hprev hmode hnp hnd1 hnd2 hA hA544 hok hcl2
    hlock hfa hM' hcL' hcI' hcD'
  exact ⟨mbs, mbs', bits, out, ring', e, ho, a1, a2, a3, a4⟩

/-! ### non-vacuity -/

/-- the trivial oracle: every entropy is the same value, no comparison ever holds (every block is merged) -/
def unitOps : FOps Unit :=
  ⟨fun _ _ => (), (), fun _ _ => (), fun _ _ => (), fun _ _ => false, fun _ _ => false, (), (), (), ()⟩

/-- an oracle that always takes the new-type branch (`diff > threshold`) -/
def splitOps : FOps Unit :=
  ⟨fun _ _ => (), (), fun _ _ => (), fun _ _ => (), fun _ _ => true, fun _ _ => false, (), (), (), ()⟩

/-- an oracle violating `OracleOK`: it claims `diff[1] < diff[0] − 20.0` although both are the same value -/
def badOps : FOps Unit :=
  ⟨fun _ _ => (), (), fun _ _ => (), fun _ _ => (), fun _ _ => false, fun _ _ => true, (), (), (), ()⟩

open BV.Props.C01MetaBlock (exMb exRing exCmds noWords) in
/-- the hypotheses hold of the real quality-5 command array of the second module's example, with `num_contexts = 1` and
with the three-context static map of `encode.rs` -/
example : OracleOK unitOps ∧ OracleOK splitOps ∧ StaticOK 1 [] ∧
    StaticOK 3 ([1, 1, 2, 2] ++ List.replicate 60 0) ∧
    RingHolds exRing 31 19 exMb ∧ exMb.length + 512 ≤ 2 ^ 24 ∧ exCmds.length + 1024 ≤ 2 ^ 24 ∧
    (∀ c ∈ exCmds, cmdOK 64 0 0 c = true) ∧ (∀ c ∈ exCmds, copyLen c ≠ 0 → 2 ≤ copyLen c) ∧
    lockstep noWords 0 0 1008 exMb ⟨[], [4, 11, 15, 16], 0⟩ 0 exCmds = true := by
  refine ⟨fun _ => rfl, fun _ => rfl, Or.inl rfl, Or.inr ⟨by decide, by decide, by decide, by decide⟩, ?_, by decide, by decide,
    by decide, by decide, by decide⟩
  intro k hk
  have hk' : k < 21 := hk
  revert k
  decide

/-- the state machine on a small alphabet (`min_block_size = 2`, four symbols per histogram): with the oracle that always
splits every block gets a new type; with the one that never does all blocks are merged into one (the last, short block
is padded to `min_block_size`); with the oracle that violates `OracleOK` the second `FinishBlock` reads
`split.types[num_blocks_ − 2]` with `num_blocks_ = 1` and panics. -/
example :
    ((initBS splitOps true 1 4 4 2 () 7).bind fun s => (feed splitOps s [(0, 1), (0, 1), (0, 2), (0, 3), (0, 0), (0, 0), (0, 1)]).bind
      fun s => (finishBlock splitOps s true).bind fun s => .ok (s.toSplit, s.flat.take s.histosSize))
      = .ok (⟨4, 4, [0, 1, 2, 3], [2, 2, 2, 2]⟩, [[0, 2, 0, 0], [0, 0, 1, 1], [2, 0, 0, 0], [0, 1, 0, 0]]) ∧
    ((initBS unitOps true 1 4 4 2 () 7).bind fun s => (feed unitOps s [(0, 1), (0, 1), (0, 2), (0, 3), (0, 0), (0, 0), (0, 1)]).bind
      fun s => (finishBlock unitOps s true).bind fun s => .ok (s.toSplit, s.flat.take s.histosSize))
      = .ok (⟨1, 1, [0], [8]⟩, [[2, 3, 1, 1]]) ∧
    ((initBS badOps true 1 4 4 2 () 7).bind fun s => (feed badOps s [(0, 1), (0, 1), (0, 2), (0, 3)]).bind
      fun s => .ok s.numBlocks) = .panic := by
  refine ⟨by decide +kernel, by decide +kernel, by decide +kernel⟩

/-- `greedy_block_lengths`, the padding: seven symbols through a splitter with `min_block_size = 2` and the never-split
oracle leave ONE block of length 8 (= 7 + 1 padding); no symbol at all leaves one block of length `min_block_size`. -/
example :
    ((initBS unitOps true 1 4 4 2 () 0).bind fun s => (finishBlock unitOps s true).bind fun s => .ok s.toSplit)
      = .ok ⟨1, 1, [0], [2]⟩ := by
  decide +kernel

end BV.Props.C01Greedy
