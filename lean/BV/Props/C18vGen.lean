/-
C18, translator tie (second file): the Lean definitions GENERATED from the current Rust text in BY-VALUE
struct mode (tools/rs2lean.py -> BV/Gen/FnC18v.lean; `Command` and `BrotliDistanceParams` are Lean
structures) equal the hand-written model `BV.PrefixArith`:

* `Log2FloorNonZero`, `GetInsertLengthCode`, `GetCopyLengthCode`, `combine_length_codes`,
  `PrefixEncodeCopyDistance` are the same Lean terms as in BV/Gen/FnC18.lean (`rfl`), so the theorems of
  BV.Props.C18Gen apply to them;
* `get_length_code` = `getLengthCode` on every insert length / copy length code the format carries;
* `BlockLengthPrefixCode` = `blockLengthPrefixCode` for EVERY length (the `while` loop against the table
  walk, by induction on the fuel); `GetBlockLengthPrefixCode` = `getBlockLengthPrefixCode` for 1..2^24;
* `Command::copy_len_code` = `copyLenCode` for every `u32` field value;
* `Command::init`, `Command::new`, `Command::init_insert`: EVERY field of the resulting command is the
  model's (`packCopyLen`, `prefixEncodeCopyDistance` packed / extra32, `getLengthCode` with the
  implicit-distance flag) on the format's ranges (NPOSTFIX <= 3, NDIRECT <= 120, distance code < 2^62,
  lengths below their largest bucket + 2^24);
* `StoreCommandExtra` (+ `GetInsertExtra`, `GetInsertBase`, `GetCopyBase`, `GetCopyExtra`): the generated
  write list is the model's single `(nbits, value)` field.

`Command::distance_index_and_offset` (+ `_ok`) is translated into the same file; its hand model lives in
BV/Model/Recoder.lean (C14) and is not tied here.
-/
import BV.Gen.FnC18v
import BV.Props.C18Gen
import BV.Props.C18

namespace BV.Props.C18vGen
open BV.Gen BV.PrefixArith BV.Rs BV.Lemmas.PrefixArith

/-! the five functions that FnC18 (flattened mode) also holds: same Rust text, same Lean term -/
theorem log2_same : FnC18v.Log2FloorNonZero = FnC18.Log2FloorNonZero := rfl
theorem ins_same : FnC18v.GetInsertLengthCode = FnC18.GetInsertLengthCode := rfl
theorem copy_same : FnC18v.GetCopyLengthCode = FnC18.GetCopyLengthCode := rfl
theorem combine_same : FnC18v.combine_length_codes = FnC18.combine_length_codes := rfl
theorem pecd_same : FnC18v.PrefixEncodeCopyDistance = FnC18.PrefixEncodeCopyDistance := rfl

/-- `get_length_code`: every insert length and copy length code the format can carry -/
theorem get_length_code_generated (insertlen copylen : Nat) (u : Bool) (code : Nat)
    (hi : insertlen < 22594 + 2 ^ 24) (hc2 : 2 ≤ copylen) (hc : copylen < 2118 + 2 ^ 24) :
    FnC18v.get_length_code insertlen copylen u code = getLengthCode insertlen copylen u := by
  unfold FnC18v.get_length_code getLengthCode
  rw [ins_same, copy_same, combine_same]
  rw [BV.Props.C18Gen.get_insert_length_code_generated insertlen (by omega),
    BV.Props.C18Gen.get_copy_length_code_generated copylen hc2 (by omega)]
  have h1 := (BV.Props.C18.ins_code_exact insertlen hi).1
  have h2 := (BV.Props.C18.copy_code_exact copylen hc2 hc).1
  exact BV.Props.C18Gen.combine_length_codes_generated ⟨_, h1⟩ ⟨_, h2⟩ u

/-- body of the generated `while code < 25 && len >= table[code + 1].offset` loop -/
def blBody (len : Nat) : Nat → Ctl Nat Empty :=
  fun code =>
    if ((decide (code < (BV.Rs.toU 32 (BV.Rs.wrapS 32 ((26 : Int) - (1 : Int)))))) && (decide (len ≥ (List.getD BV.Gen.kBlockLengthPrefixCode ((code + 1) % 4294967296) default).1))) then
      let code : Nat := ((code + 1) % 4294967296)
      BV.Rs.Ctl.next code
    else
      BV.Rs.Ctl.brk code

theorem bl_loop (len : Nat) : ∀ (fuel code : Nat), code ≤ 25 →
    whileLoop fuel code (blBody len) = blockLenWalk len fuel code := by
  have e25 : BV.Rs.toU 32 (BV.Rs.wrapS 32 ((26 : Int) - (1 : Int))) = 25 := by decide
  intro fuel
  induction fuel with
  | zero => intro code _; rfl
  | succ f ih =>
    intro code hc
    unfold whileLoop blockLenWalk
    have e1 : (code + 1) % 4294967296 = code + 1 := by omega
    simp only [blBody, e25, e1]
    by_cases h : code < 25 ∧ len ≥ (kBlockLengthPrefixCode.getD (code + 1) (0, 0)).1
    · have hb : ((decide (code < 25)) && (decide (len ≥ (List.getD BV.Gen.kBlockLengthPrefixCode (code + 1) default).1))) = true := by
        simp only [Bool.and_eq_true, decide_eq_true_eq]; exact h
      simp only [hb, if_true]
      rw [if_pos h]
      exact ih (code + 1) (by omega)
    · have hb : ((decide (code < 25)) && (decide (len ≥ (List.getD BV.Gen.kBlockLengthPrefixCode (code + 1) default).1))) = false := by
        rw [Bool.eq_false_iff]; intro hh
        simp only [Bool.and_eq_true, decide_eq_true_eq] at hh; exact h hh
      simp only [hb, if_false, Bool.false_eq_true]
      rw [if_neg h]

theorem start_code (len : Nat) :
    BV.Rs.toU 32 (if (decide (len ≥ 177)) then ( (if (decide (len ≥ 753)) then ( (20 : Int)) else ( (14 : Int)))) else ( (if (decide (len ≥ 41)) then ( (7 : Int)) else ( (0 : Int)))))
      = (if len ≥ 177 then (if len ≥ 753 then 20 else 14) else if len ≥ 41 then 7 else 0) := by
  by_cases h1 : len ≥ 177 <;> by_cases h2 : len ≥ 753 <;> by_cases h3 : len ≥ 41 <;> simp [h1, h2, h3] <;> decide

/-- `BlockLengthPrefixCode`: every `u32` length -/
theorem block_length_prefix_code_generated (len : Nat) :
    FnC18v.BlockLengthPrefixCode len = blockLengthPrefixCode len := by
  unfold blockLengthPrefixCode
  show whileLoop 26 _ (blBody len) = _
  rw [start_code, bl_loop]
  split <;> (try split) <;> omega

/-- `GetBlockLengthPrefixCode`: the three `&mut` results, for every block length of the format -/
theorem get_block_length_prefix_code_generated (len a b c : Nat) (h1 : 1 ≤ len) (h2 : len ≤ 2 ^ 24) :
    FnC18v.GetBlockLengthPrefixCode len a b c = getBlockLengthPrefixCode len := by
  unfold FnC18v.GetBlockLengthPrefixCode getBlockLengthPrefixCode
  rw [block_length_prefix_code_generated]
  obtain ⟨_, hb, _⟩ := BV.Props.C18.block_len_exact len h1 h2
  unfold blOff at hb
  have h24 : (2 : Nat) ^ 24 = 16777216 := by decide
  rw [h24] at h2
  have e : (len + 4294967296 - (kBlockLengthPrefixCode.getD (blockLengthPrefixCode len) (0, 0)).1) % 4294967296
      = len - (kBlockLengthPrefixCode.getD (blockLengthPrefixCode len) (0, 0)).1 := by omega
  show (_, _, (len + 4294967296 - (kBlockLengthPrefixCode.getD (blockLengthPrefixCode len) (0, 0)).1) % 4294967296) = _
  rw [e]
  rfl

/-- the `i8` delta of `copy_len_code`, all 128 values of the 7-bit modifier -/
theorem delta_fin : ∀ m : Fin 128,
    BV.Rs.wrapS 8 ((((m.val ||| (((m.val &&& 64) <<< (1 % 32)) % 4294967296)) % 256) : Nat) : Int)
      = (if (m.val ||| ((m.val &&& 0x40) <<< 1)) % 256 < 128 then (((m.val ||| ((m.val &&& 0x40) <<< 1)) % 256 : Nat) : Int)
         else (((m.val ||| ((m.val &&& 0x40) <<< 1)) % 256 : Nat) : Int) - 256) := by
  decide +kernel

theorem clc_pos (len m8 : Nat) (hlen : len < 33554432) (h8 : m8 < 128) :
    toU 32 (wrapS 32 (wrapS 32 ((len : Nat) : Int) + ((m8 : Nat) : Int))) = (len + m8) % 4294967296 := by
  have e0 : wrapS 32 ((len : Nat) : Int) = ((len : Nat) : Int) := wrapS32_of_range _ (by omega) (by omega)
  rw [e0, wrapS32_of_range _ (by omega) (by omega)]
  have : ((len : Nat) : Int) + ((m8 : Nat) : Int) = ((len + m8 : Nat) : Int) := by omega
  rw [this, toU32_ofNat _ (by omega), Nat.mod_eq_of_lt (by omega)]

theorem clc_neg (len m8 : Nat) (hlen : len < 33554432) (h8 : 128 ≤ m8) (h9 : m8 < 256) :
    toU 32 (wrapS 32 (wrapS 32 ((len : Nat) : Int) + (((m8 : Nat) : Int) - 256))) = (len + 4294967296 - (256 - m8)) % 4294967296 := by
  have e0 : wrapS 32 ((len : Nat) : Int) = ((len : Nat) : Int) := wrapS32_of_range _ (by omega) (by omega)
  rw [e0, wrapS32_of_range _ (by omega) (by omega)]
  unfold toU
  have e2 : (2 : Int) ^ 32 = 4294967296 := by decide
  rw [e2]
  by_cases hx : 256 ≤ len + m8
  · have e : ((len : Nat) : Int) + (((m8 : Nat) : Int) - 256) = ((len + m8 - 256 : Nat) : Int) := by omega
    rw [e]
    have e3 : (((len + m8 - 256 : Nat) : Int) % 4294967296).toNat = len + m8 - 256 := by omega
    rw [e3]
    omega
  · have e : ((len : Nat) : Int) + (((m8 : Nat) : Int) - 256) = ((len + 4294967296 - (256 - m8) : Nat) : Int) - 4294967296 := by omega
    rw [e]
    have e3 : ((((len + 4294967296 - (256 - m8) : Nat) : Int) - 4294967296) % 4294967296).toNat = len + 4294967296 - (256 - m8) := by omega
    rw [e3]
    omega

/-- `Command::copy_len_code`: every `u32` field value -/
theorem copy_len_code_generated (c : FnC18v.Command) (h : c.copy_len_ < 2 ^ 32) :
    FnC18v.copy_len_code c = copyLenCode c.copy_len_ := by
  have h32 : (2 : Nat) ^ 32 = 4294967296 := by decide
  rw [h32] at h
  unfold FnC18v.copy_len_code copyLenCode
  have hm : c.copy_len_ >>> (25 % 32) < 128 := by
    show c.copy_len_ >>> 25 < 128
    rw [Nat.shiftRight_eq_div_pow]
    have : (2:Nat) ^ 25 = 33554432 := by decide
    rw [this]; omega
  have hd := delta_fin ⟨c.copy_len_ >>> (25 % 32), hm⟩
  simp only [] at hd
  dsimp only
  rw [hd]
  have e25 : c.copy_len_ >>> (25 % 32) = c.copy_len_ >>> 25 := rfl
  rw [e25]
  have hl : c.copy_len_ &&& 33554431 = c.copy_len_ % 33554432 := Nat.and_two_pow_sub_one_eq_mod _ 25
  rw [hl, h32]
  have hm8 : (c.copy_len_ >>> 25 ||| (c.copy_len_ >>> 25 &&& 0x40) <<< 1) % 256 < 256 := Nat.mod_lt _ (by decide)
  generalize (c.copy_len_ >>> 25 ||| (c.copy_len_ >>> 25 &&& 0x40) <<< 1) % 256 = m8 at hm8
  have hlen : c.copy_len_ % 33554432 < 33554432 := Nat.mod_lt _ (by decide)
  generalize c.copy_len_ % 33554432 = len at hlen
  clear hd hm e25 hl h h32
  by_cases h8 : m8 < 128
  · simp only [h8, if_true]
    exact clc_pos len m8 hlen h8
  · simp only [h8, if_false]
    exact clc_neg len m8 hlen (by omega) hm8

/-- the `i8` difference `copylen_code - copylen` as the `u8` stored in bits 25.. of `copy_len_` -/
theorem delta8_generated (cl clc : Nat) (h1 : cl < 33554432) (h2 : clc < 33554432) :
    toU 8 (wrapS 8 (wrapS 32 ((wrapS 32 ((clc : Nat) : Int)) - (wrapS 32 ((cl : Nat) : Int))))) = (clc + 256 - cl % 256) % 256 := by
  have e1 : wrapS 32 ((clc : Nat) : Int) = ((clc : Nat) : Int) := wrapS32_of_range _ (by omega) (by omega)
  have e2 : wrapS 32 ((cl : Nat) : Int) = ((cl : Nat) : Int) := wrapS32_of_range _ (by omega) (by omega)
  rw [e1, e2, wrapS32_of_range _ (by omega) (by omega)]
  unfold toU wrapS
  have p7 : (2 : Int) ^ (8 - 1) = 128 := by decide
  have p8 : (2 : Int) ^ 8 = 256 := by decide
  rw [p7, p8]
  omega

/-- `Command::init` (and `Command::new`): every field of the command -/
theorem init_generated (self_ : FnC18v.Command) (dist : FnC18v.BrotliDistanceParams) (il cl clc dc : Nat)
    (hp : dist.distance_postfix_bits ≤ 3) (hnd : dist.num_direct_distance_codes ≤ 120) (hdc : dc < 2 ^ 62)
    (hil : il < 22594 + 2 ^ 24) (hcl : cl < 2 ^ 25) (hclc2 : 2 ≤ clc) (hclc : clc < 2118 + 2 ^ 24) :
    FnC18v.init self_ dist il cl clc dc =
      { insert_len_ := il % 4294967296,
        copy_len_ := packCopyLen cl clc,
        dist_extra_ := (prefixEncodeCopyDistance dc dist.num_direct_distance_codes dist.distance_postfix_bits).extra32,
        cmd_prefix_ := getLengthCode il clc
          (((prefixEncodeCopyDistance dc dist.num_direct_distance_codes dist.distance_postfix_bits).packed &&& 1023) == 0),
        dist_prefix_ := (prefixEncodeCopyDistance dc dist.num_direct_distance_codes dist.distance_postfix_bits).packed } := by
  have h25 : (2 : Nat) ^ 25 = 33554432 := by decide
  have h24 : (2 : Nat) ^ 24 = 16777216 := by decide
  rw [h25] at hcl
  rw [h24] at hclc
  unfold FnC18v.init
  simp only [pecd_same, BV.Props.C18Gen.prefix_encode_copy_distance_generated dc _ _ _ _ hp hnd hdc,
    get_length_code_generated il clc _ _ hil hclc2 (by omega), delta8_generated cl clc hcl (by omega)]
  have e : cl % 4294967296 = cl := Nat.mod_eq_of_lt (by omega)
  have epack : (cl ||| (((clc + 256 - cl % 256) % 256) <<< (25 % 32)) % 4294967296) = packCopyLen cl clc := by
    unfold packCopyLen
    have hx : ((clc + 256 - cl % 256) % 256) <<< (25 % 32) % 4294967296 < 4294967296 := Nat.mod_lt _ (by decide)
    have hor : cl ||| (((clc + 256 - cl % 256) % 256) <<< (25 % 32)) % 4294967296 < 2 ^ 32 :=
      Nat.or_lt_two_pow (by omega) (by omega)
    show _ = (cl ||| (((clc + 256 - cl % 256) % 256) <<< 25) % 2 ^ 32) % 2 ^ 32
    rw [Nat.mod_eq_of_lt hor]
  rw [e, epack]

theorem command_new_generated (dist : FnC18v.BrotliDistanceParams) (il cl clc dc : Nat)
    (hp : dist.distance_postfix_bits ≤ 3) (hnd : dist.num_direct_distance_codes ≤ 120) (hdc : dc < 2 ^ 62)
    (hil : il < 22594 + 2 ^ 24) (hcl : cl < 2 ^ 25) (hclc2 : 2 ≤ clc) (hclc : clc < 2118 + 2 ^ 24) :
    FnC18v.Command_new dist il cl clc dc =
      { insert_len_ := il % 4294967296,
        copy_len_ := packCopyLen cl clc,
        dist_extra_ := (prefixEncodeCopyDistance dc dist.num_direct_distance_codes dist.distance_postfix_bits).extra32,
        cmd_prefix_ := getLengthCode il clc
          (((prefixEncodeCopyDistance dc dist.num_direct_distance_codes dist.distance_postfix_bits).packed &&& 1023) == 0),
        dist_prefix_ := (prefixEncodeCopyDistance dc dist.num_direct_distance_codes dist.distance_postfix_bits).packed } := by
  unfold FnC18v.Command_new
  exact init_generated _ dist il cl clc dc hp hnd hdc hil hcl hclc2 hclc

/-- `Command::init_insert`: an insert-only command (copy length 4 in the code, 0 stored; distance symbol 16 with 1 extra bit) -/
theorem init_insert_generated (self_ : FnC18v.Command) (il : Nat) (hil : il < 22594 + 2 ^ 24) :
    FnC18v.init_insert self_ il =
      { insert_len_ := il % 4294967296, copy_len_ := 134217728, dist_extra_ := 0,
        cmd_prefix_ := getLengthCode il 4 false, dist_prefix_ := 1040 } := by
  unfold FnC18v.init_insert
  simp only [get_length_code_generated il 4 false _ hil (by decide) (by decide)]
  have e1 : BV.Rs.toU 32 (BV.Rs.wrapS 32 ((4 : Int) * (2 : Int) ^ (25 % 32))) = 134217728 := by decide
  have e2 : (((1 <<< (10 % 16)) % 65536) ||| (16 % 65536)) = 1040 := by decide
  rw [e1, e2]

theorem extra_le_24 : ∀ i : Fin 24, kInsExtra.getD i.val 0 ≤ 24 ∧ kCopyExtra.getD i.val 0 ≤ 24 := by decide

/-- `StoreCommandExtra`: the one `BrotliWriteBits(n, v)` of the model -/
theorem store_command_extra_generated (cmd : FnC18v.Command) (h32 : cmd.copy_len_ < 2 ^ 32)
    (hil : cmd.insert_len_ < 22594 + 2 ^ 24) (hc2 : 2 ≤ copyLenCode cmd.copy_len_) (hc : copyLenCode cmd.copy_len_ < 2118 + 2 ^ 24) :
    FnC18v.StoreCommandExtra cmd =
      [WOp.bits (storeCommandExtra cmd.insert_len_ cmd.copy_len_).1 (storeCommandExtra cmd.insert_len_ cmd.copy_len_).2] := by
  unfold FnC18v.StoreCommandExtra storeCommandExtra
  simp only [copy_len_code_generated cmd h32, ins_same, copy_same, FnC18v.GetInsertExtra, FnC18v.GetInsertBase,
    FnC18v.GetCopyBase, FnC18v.GetCopyExtra, List.nil_append]
  rw [BV.Props.C18Gen.get_insert_length_code_generated _ (by omega),
    BV.Props.C18Gen.get_copy_length_code_generated _ hc2 (by omega)]
  obtain ⟨i1, i2, i3⟩ := BV.Props.C18.ins_code_exact _ hil
  obtain ⟨c1, c2, c3⟩ := BV.Props.C18.copy_code_exact _ hc2 hc
  have b1 := (extra_le_24 ⟨_, i1⟩).1
  have b2 := (extra_le_24 ⟨_, c1⟩).2
  simp only [] at b1 b2
  generalize kInsExtra.getD (getInsertLengthCode cmd.insert_len_) 0 = ie at *
  generalize kCopyExtra.getD (getCopyLengthCode (copyLenCode cmd.copy_len_)) 0 = ce at *
  generalize kInsBase.getD (getInsertLengthCode cmd.insert_len_) 0 = ib at *
  generalize kCopyBase.getD (getCopyLengthCode (copyLenCode cmd.copy_len_)) 0 = cb at *
  generalize copyLenCode cmd.copy_len_ = clc at *
  generalize cmd.insert_len_ = il at *
  have h24 : (2 : Nat) ^ 24 = 16777216 := by decide
  rw [h24] at hil hc
  have e1 : (il + 4294967296 - ib) % 4294967296 = il - ib := by omega
  have e2 : (clc + 4294967296 - cb) % 4294967296 = clc - cb := by omega
  have e3 : (ie + ce) % 4294967296 % 256 = ie + ce := by omega
  have e4 : ie % 64 = ie := by omega
  have hlt : clc - cb < 2 ^ ce := by omega
  have hpow : 2 ^ ce * 2 ^ ie ≤ 2 ^ 24 * 2 ^ 24 := Nat.mul_le_mul (Nat.pow_le_pow_right (by decide) b2) (Nat.pow_le_pow_right (by decide) b1)
  have e5 : ((clc - cb) <<< ie) % 18446744073709551616 = (clc - cb) <<< ie := by
    apply Nat.mod_eq_of_lt
    rw [Nat.shiftLeft_eq]
    have : (clc - cb) * 2 ^ ie < 2 ^ ce * 2 ^ ie := Nat.mul_lt_mul_of_pos_right hlt (Nat.pow_pos (by decide))
    have : (2 : Nat) ^ 24 * 2 ^ 24 = 281474976710656 := by decide
    omega
  rw [e1, e2, e3, e4, e5]

example : FnC18v.copy_len_code { (default : FnC18v.Command) with copy_len_ := packCopyLen 10 9 } = 9 := by decide +kernel
example : (FnC18v.Command_new ⟨0, 0, 0, 0⟩ 3 10 9 1000).dist_prefix_ = 8 * 1024 + 31 := by decide +kernel
example : FnC18v.GetBlockLengthPrefixCode 1000 0 0 0 = (20, 9, 247) := by decide +kernel
example : FnC18v.StoreCommandExtra (FnC18v.Command_new ⟨0, 0, 0, 0⟩ 300 20 20 1000) = [WOp.bits 9 (2 <<< 7 ||| 106)] := by decide +kernel

end BV.Props.C18vGen
