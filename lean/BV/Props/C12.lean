/-
C12 — Concatenator output is independent of buffer slicing and state save/restore.

"For any sequence of member streams, the bytes the concatenator emits and the
result it finally reports are the same however the member bytes are sliced into
input buffers and however small the output buffers are, provided the caller
follows the more-input/more-output protocol. Serialising the state to its
fixed-size buffer and restoring it between any two calls changes nothing."

Property theorems ONLY (helper lemmas: BV/Lemmas/Concat{Serial,Stall,Slice,Split,Member,MemberRun}.lean).
Model: BV/Model/Concat.lean.
-/
import BV.Lemmas.ConcatSerial
import BV.Lemmas.ConcatStall
import BV.Lemmas.ConcatSlice
import BV.Lemmas.ConcatSplit
import BV.Lemmas.ConcatMemberRun

namespace BV.Props.C12
open BV.Concat BV.Concat.Outcome

/-! ## save / restore -/

/-- `deserialize_from_buffer (serialize_to_buffer s) = s` for EVERY state (no range
hypothesis is needed: all seven fields, `Some`/`None` of `new_stream_pending` and of
`num_bytes_written`, and the five look-ahead bytes are covered) and EVERY buffer of at
least 21 bytes, whatever it contained before; the buffer keeps its length. -/
theorem serialize_roundtrip (s : State) (buf : List Nat) (h : 21 ≤ buf.length) :
    ∃ buf', serializeToBuffer s buf = ok (some buf') ∧ buf'.length = buf.length ∧
      deserializeFromBuffer buf' = ok (some s) :=
  serialize_roundtrip_gen s buf h

/-- shorter buffers are refused with `Err(())` by both functions — no panic, no partial write -/
theorem serialize_short_buffer (s : State) (buf : List Nat) (h : buf.length < 21) :
    serializeToBuffer s buf = ok none ∧ deserializeFromBuffer buf = ok none :=
  serialize_short s buf h

/-- what the C ABI does on every call (serialise into a zeroed 120-byte buffer,
deserialise) is the identity on states: inserting it between any two calls changes nothing -/
theorem save_restore_irrelevant (s : State) : saveRestore s = ok s := saveRestore_id s

/-- the C ABI entry point = the Rust call on the restored state, with the cursors
advanced by exactly the consumed / produced amounts (`ffi_cursors`) -/
theorem ffi_stream_is_stream (s : State) (inp : List Nat) (availOut : Nat) (hI : Inv s) (hS : Started s) :
    ∃ cur r cur', toBroccoli s = ok cur ∧ stream s inp availOut = ok r ∧ toBroccoli r.st = ok cur' ∧
      broccoliConcatStream cur inp availOut =
        ok ⟨cur', r.code, r.consumed, r.produced.length, inp.length - r.consumed,
            availOut - r.produced.length, r.produced⟩ ∧
      r.consumed ≤ inp.length ∧ r.produced.length ≤ availOut := by
  obtain ⟨cur, hc1, hc2, _⟩ := toBroccoli_ok s
  obtain ⟨r, hr, hpost⟩ := sat_iff.mp (stream_sat s inp availOut hI hS)
  obtain ⟨cur', hc1', _, _⟩ := toBroccoli_ok r.st
  refine ⟨cur, r, cur', hc1, hr, hc1', ?_, hpost.consumed_le, hpost.produced_le⟩
  unfold broccoliConcatStream
  rw [hc2]
  simp only [bind_ok, hr]
  rw [if_neg (by have := hpost.consumed_le; omega), if_neg (by have := hpost.produced_le; omega), hc1']
  rfl

/-! ## calls that cannot make progress -/

/-- No member pending (pass-through phase): a call without output room, or without
input, returns the state UNCHANGED and moves no cursor. -/
theorem no_progress_no_change (s : State) (hp : s.new_stream_pending = none) :
    (∀ inp, stream s inp 0 = ok ⟨s, NEEDS_MORE_OUTPUT, 0, []⟩) ∧
    (∀ cap, cap ≠ 0 → stream s [] cap = ok ⟨s, NEEDS_MORE_INPUT, 0, []⟩) := by
  refine ⟨fun inp => stream_none_nocap s inp hp, fun cap hc => ?_⟩
  rw [stream_none_noinput s cap hp, if_neg hc]

/-- Member pending: a call that is offered neither input nor output room moves no
cursor; the only thing it may do to the state is strip the previous member's end
marker (when that needs no output byte), and that is invisible: every later call
behaves exactly as if the stalled call had not happened, and repeating the
stalled call gives the same answer and state again.  (Literal "state unchanged"
is FALSE here: `stream (new_brotli_file (new_with_window_size 22)) [] 0` sets
`last_byte_sanitized` — see the example below.) -/
theorem no_progress_no_observable_change (s : State) (r : Ret) (h : stream s [] 0 = ok r) :
    r.consumed = 0 ∧ r.produced = [] ∧ (∀ inp cap, stream r.st inp cap = stream s inp cap) ∧
    stream r.st [] 0 = ok r :=
  stall_transparent s r h

example : ∃ s r, stream s [] 0 = ok r ∧ r.st ≠ s ∧ r.code = NEEDS_MORE_INPUT := by
  refine ⟨newBrotliFile { State.new with last_bytes := (0x3b, 0), last_bytes_len := 1, window_size := 22 }, _, rfl, ?_, rfl⟩
  decide

/-! ## the header look-ahead -/

/-- The number of header bytes taken for a new member depends only on its first
byte: 4, or 5 when `byte0 & 127 = 17` — never on how many more bytes happen to be
in the buffer; and the look-ahead contents are exactly those bytes. -/
theorem lookahead_is_exact (a b c d : Nat) :
    (127 &&& a ≠ 17 → ∀ rest, headerLoop NewStreamData.new (a :: b :: c :: d :: rest) 0
        = ok (⟨⟨a, b, c, d, 0⟩, 4, none⟩, 4)) ∧
    (127 &&& a = 17 → ∀ e rest, headerLoop NewStreamData.new (a :: b :: c :: d :: e :: rest) 0
        = ok (⟨⟨a, b, c, d, e⟩, 5, none⟩, 5)) :=
  ⟨fun h rest => headerLoop_new_4 a b c d rest h, fun h e rest => headerLoop_new_5 a b c d e rest h⟩

/-- …and it does not matter in how many pieces those bytes arrive: the look-ahead
loop over `x ++ y` is the loop over `x` continued over `y` -/
theorem lookahead_slicing (x y : List Nat) (nsp : NewStreamData) (off : Nat) :
    headerLoop nsp (x ++ y) off = (headerLoop nsp x off).bind (fun r => headerLoop r.1 y r.2) :=
  headerLoop_append x y nsp off

/-! ## the header phase, piecewise -/

/-- the strip of the previous member's end marker does not depend on how much output room
is offered, as long as there is any (with none it either does the same or stalls untouched:
`no_progress_no_observable_change`) -/
theorem flush_room_irrelevant (s : State) (c1 c2 : Nat) (h1 : 1 ≤ c1) (h2 : 1 ≤ c2) :
    flushPreviousStream s [] c1 = flushPreviousStream s [] c2 :=
  flush_room_irrelevant_gen s c1 c2 h1 h2

/-- One-split lemma for the header phase.  A member's first bytes `a` do not complete the
look-ahead; the strip of the previous end marker emits no byte (first member, or fewer than
8 data bits left in the tail).  Then the first call — with ANY capacity `c1` — takes all
of `a`, emits nothing and asks for more input, and the second call on `b` behaves exactly
like the unsplit call on `a ++ b` with the same capacity: same state, same code, same
output, input cursor shifted by `a.length`. -/
theorem header_phase_split (s s1 : State) (out1 : List Nat) (nsp0 nspA : NewStreamData) (a b : List Nat)
    (c1 cap : Nat)
    (hp : s.new_stream_pending = some nsp0) (hw : nsp0.num_bytes_written = none)
    (hr5 : nsp0.num_bytes_read ≤ 5)
    (hf0 : flushPreviousStream s [] 0 = ok (s1, out1, SUCCESS))
    (hl : headerLoop nsp0 a 0 = ok (nspA, a.length)) (hins : nspA.sufficient = false) :
    stream s a c1 = ok ⟨{ s1 with new_stream_pending := some nspA }, NEEDS_MORE_INPUT, a.length, []⟩ ∧
    stream s (a ++ b) cap =
      Outcome.map (Ret.shiftIn a.length) (stream { s1 with new_stream_pending := some nspA } b cap) := by
  obtain ⟨_, hsan, _, hall⟩ := flush_stall s s1 out1 hf0
  exact header_phase_split_gen s s1 nsp0 nspA a b c1 cap hp hw (hall [] c1) (hall [] cap) hsan hl hins hr5

/-- non-vacuity: the first member `8b 01 | 80 03 61 62 63` of a fresh instance -/
example : ∃ s1 nspA,
    flushPreviousStream (newBrotliFile State.new) [] 0 = ok (s1, [], SUCCESS) ∧
    headerLoop NewStreamData.new [0x8b, 0x01] 0 = ok (nspA, 2) ∧ nspA.sufficient = false :=
  ⟨_, _, rfl, rfl, by decide⟩

/-! ## slicing independence

`feedBuffer fuel s x caps acc` (model file) is the canonical protocol driver: it offers the
input buffer `x` to `stream` again and again, the k-th call with capacity `caps[k]` (ample
once the list is used up), re-offering the unconsumed rest after `NeedsMoreOutput` /
`NeedsMoreInput`, until all of `x` is consumed and the call answers `NeedsMoreInput`;
`runAll` feeds a list of input buffers one after the other.  `held s` are the bytes the
machine still owes the output (rest of the realigned header, or the 0–2 byte tail).
`Settled s`: the current member's header has been accepted (`new_stream_pending` is `None`,
or `Some` with `num_bytes_written = Some _`): header copy-out, tail fill, pass-through. -/

/-- conservation law of ONE call, any input slice, any capacity (settled states):
owed-before ++ consumed input = produced ++ owed-after; the call never reports an error -/
theorem stream_conservation (s : State) (inp : List Nat) (cap : Nat) (r : Ret) (hI : Inv s) (hset : Settled s)
    (h : stream s inp cap = ok r) :
    held s ++ inp.take r.consumed = r.produced ++ held r.st ∧ Settled r.st ∧
    (r.code = NEEDS_MORE_INPUT ∨ r.code = NEEDS_MORE_OUTPUT) := by
  have := stream_cons s inp cap r hI hset h
  exact ⟨this.cons, this.settled, this.code⟩

/-- `slicing_irrelevant`, full strength.  From ANY protocol state — a member in its header
phase (right after `new_brotli_file`, or with part of the look-ahead read, or waiting for
room for the header) or a member whose header has been accepted (`Settled`) — any two ways of
slicing the same remaining bytes into input buffers and any two schedules of output
capacities (including calls with no room at all) give runs that agree on: every emitted
byte, the final result code (`NeedsMoreInput`, or the same terminal error), the bytes still
owed, the tail length, the pending look-ahead and the window.  This covers the strip of the
previous end marker emitting its completed byte in the same call that realigns the header,
headers split over any number of buffers, header copy-out into tiny buffers, and the
pass-through; `ObsEq` is `BV.Concat.ObsEq`. -/
theorem slicing_irrelevant (f1 f2 : Nat) (s : State) (bufs1 bufs2 : List (List Nat))
    (caps1 caps2 acc : List Nat) (R1 R2 : Run) (hI : Inv s) (hS : Started s)
    (hphase : Settled s ∨ HeaderPhase s)
    (hne1 : bufs1 ≠ []) (hne2 : bufs2 ≠ []) (hsame : bufs1.flatten = bufs2.flatten)
    (h1 : runAll f1 s bufs1 caps1 acc = some R1) (h2 : runAll f2 s bufs2 caps2 acc = some R2) :
    ObsEq R1 R2 := by
  rcases hphase with hset | hph
  · exact runAll_slicing_irrelevant f1 f2 s bufs1 bufs2 caps1 caps2 acc R1 R2 hI hS hset hne1 hne2 hsame h1 h2
  · exact member_slicing_irrelevant f1 f2 s bufs1 bufs2 caps1 caps2 acc R1 R2 hI hS hph hne1 hne2 hsame h1 h2

/-- every state reachable by `new`/`new_with_window_size`, `new_brotli_file`, `stream` is in
one of the two phases (shown here for the entry points; `stream` keeps `Settled` by
`stream_conservation` and leaves the header phase only into `Settled`) -/
theorem phase_after_new_brotli_file (s : State) : HeaderPhase (newBrotliFile s) :=
  ⟨NewStreamData.new, rfl, rfl⟩

/-- what a complete run of a member amounts to, whatever the schedule: exactly one of
"strip failed" (`NotCraftedForAppend`, nothing emitted), "look-ahead incomplete" (only the
strip's byte emitted, the bytes read so far kept), "header refused" (terminal code, only the
strip's byte emitted), or "accepted" with the closed form
`emitted ++ tail = acc ++ stripByte ++ headerBytes ++ member[k..]`. -/
theorem member_run_classified (fuel : Nat) (s : State) (bufs : List (List Nat)) (caps acc : List Nat) (R : Run)
    (hI : Inv s) (hS : Started s) (hph : HeaderPhase s) (hne : bufs ≠ [])
    (h : runAll fuel s bufs caps acc = some R) : MemberSpec s bufs.flatten acc R :=
  runAll_spec fuel bufs s caps acc R hI hS hph hne h

/-- non-vacuity, with the case that used to be open: the previous member's tail `63 d5`
(marker in the top two bits of the second byte, so the strip emits `63`) and the member
`3b 00 00 00 07`, once in one buffer with ample room, once in three buffers with capacities
0, 1, 1, 0, 1, then ample: both runs exist and emit the same bytes -/
example : ∃ R1 R2,
    runAll 30 (newBrotliFile { State.new with last_bytes := (0x63, 0xd5), last_bytes_len := 2, window_size := 22 })
      [[0x3b, 0, 0, 0, 7]] [] [] = some R1 ∧
    runAll 30 (newBrotliFile { State.new with last_bytes := (0x63, 0xd5), last_bytes_len := 2, window_size := 22 })
      [[0x3b], [0, 0], [0, 7]] [0, 1, 1, 0, 1] [] = some R2 ∧
    R1.emitted = [0x63, 0xd5, 0, 0] ∧ R2.emitted = R1.emitted ∧ R1.code = NEEDS_MORE_INPUT := by
  refine ⟨_, _, rfl, rfl, ?_, ?_, ?_⟩ <;> decide

/-- closed form behind it: a complete run emits everything owed and consumed except the
last two bytes (one byte if fewer are available), which it keeps as the tail -/
theorem run_closed_form (fuel : Nat) (s : State) (bufs : List (List Nat)) (caps acc : List Nat) (R : Run)
    (hI : Inv s) (hS : Started s) (hset : Settled s) (hne : bufs ≠ [])
    (h : runAll fuel s bufs caps acc = some R) :
    R.emitted ++ held R.st = acc ++ held s ++ bufs.flatten ∧ R.code = NEEDS_MORE_INPUT ∧
    R.st.new_stream_pending = none ∧ R.st.last_bytes_len = min 2 (baseLen s + bufs.flatten.length) := by
  have := runAll_cons fuel bufs s caps acc R hI hS hset hne h
  exact ⟨this.cons, this.code, this.pending, this.len⟩

/-- non-vacuity: a pass-through state fed `01 02 03 04 05` as `[01 02 03][04 05]` with
capacities 1, 0, 2, then ample, and as one buffer with ample room: both runs exist -/
example : ∃ R1 R2,
    runAll 20 { State.new with last_bytes := (0xaa, 0xbb), last_bytes_len := 2, window_size := 22 }
      [[1, 2, 3], [4, 5]] [1, 0, 2] [] = some R1 ∧
    runAll 20 { State.new with last_bytes := (0xaa, 0xbb), last_bytes_len := 2, window_size := 22 }
      [[1, 2, 3, 4, 5]] [] [] = some R2 ∧ R1.emitted = [0xaa, 0xbb, 1, 2, 3] ∧ R2.emitted = R1.emitted := by
  refine ⟨_, _, rfl, rfl, ?_, ?_⟩ <;> decide

end BV.Props.C12
