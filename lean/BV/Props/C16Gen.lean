/-
C16/C03/C12, translator tie: the Lean definition GENERATED from the current Rust text of
`parse_window_size` (src/concat/mod.rs; tools/rs2lean.py -> BV/Gen/FnC16.lean; the `match` arms
become a chain of tests, `Result<_, ()>` becomes `Option`) is what the hand-written concatenator
model `BV.Concat.parseWindowSize` computes, whenever the Rust function does not panic on a short
slice (the generated `List.getD` cannot show that panic; the model does).
-/
import BV.Gen.FnC16
import BV.Model.Concat

namespace BV.Props.C16Gen
open BV.Gen.FnC16 BV.Concat BV.Concat.Outcome

theorem ite_ok {α : Type} (c : Prop) [Decidable c] (a : α) (X : Outcome α) (Y : α) (h : X = Outcome.ok Y) :
    (if c then Outcome.ok a else X) = Outcome.ok (if c then a else Y) := by
  split <;> simp_all

/-- with at least two bytes available the model never panics and returns the generated function's answer -/
theorem parse_window_size_generated (b0 b1 : Nat) (rest : List Nat) :
    parseWindowSize (b0 :: b1 :: rest) = Outcome.ok (parse_window_size (b0 :: b1 :: rest)) := by
  unfold parseWindowSize parse_window_size idx
  simp only [List.getElem?_cons_zero, List.getElem?_cons_succ, List.getD_cons_zero, List.getD_cons_succ,
    Outcome.bind, beq_iff_eq, bne_iff_ne, ne_eq]
  repeat' apply ite_ok
  by_cases h1 : 10 ≤ b1 &&& 63 <;> by_cases h2 : b1 &&& 63 ≤ 30 <;> simp [h1, h2]

/-- one byte only: whenever the model returns (it panics when it needs the second byte), it returns
the generated function's answer -/
theorem parse_window_size_generated_one (b0 : Nat) (r : Option (Nat × Nat))
    (h : parseWindowSize [b0] = Outcome.ok r) : r = parse_window_size [b0] := by
  have key : ∀ (c : Prop) [Decidable c] (a : Option (Nat × Nat)) (X : Outcome (Option (Nat × Nat))) (Y : Option (Nat × Nat)),
      (X = Outcome.ok r → r = Y) → ((if c then Outcome.ok a else X) = Outcome.ok r → r = (if c then a else Y)) := by
    intro c _ a X Y hXY hh
    split at hh
    · injection hh with hh; simp_all
    · simp_all
  revert h
  unfold parseWindowSize parse_window_size idx
  simp only [List.getElem?_cons_zero, List.getElem?_cons_succ, List.getElem?_nil, List.getD_cons_zero,
    List.getD_cons_succ, List.getD_nil, Outcome.bind, beq_iff_eq, bne_iff_ne, ne_eq]
  repeat' apply key
  intro h
  cases h

/-- in general: whenever the model returns, it returns the generated function's answer -/
theorem parse_window_size_generated_of_ok (bs : List Nat) (r : Option (Nat × Nat))
    (h : parseWindowSize bs = Outcome.ok r) : r = parse_window_size bs := by
  match bs, h with
  | [], h => simp [parseWindowSize, idx, Outcome.bind] at h
  | [b0], h => exact parse_window_size_generated_one b0 r h
  | b0 :: b1 :: rest, h =>
    rw [parse_window_size_generated] at h
    injection h with h
    exact h.symm

example : parse_window_size [0x5b, 0] = some (22, 4) := by decide
example : parse_window_size [0x11, 0x1e] = some (30, 14) := by decide
example : parse_window_size [0x11, 0x09] = none := by decide

end BV.Props.C16Gen
