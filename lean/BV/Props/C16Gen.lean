/-
C16/C03/C12, translator tie: the Lean definition GENERATED from the current Rust text of
`parse_window_size` (src/concat/mod.rs; tools/rs2lean.py -> BV/Gen/FnC16.lean; the `match` arms
become a chain of tests, `Result<_, ()>` becomes `Option`) is what the hand-written concatenator
model `BV.Concat.parseWindowSize` computes, whenever the Rust function does not panic on a short
slice (the generated `List.getD` cannot show that panic; the model does).

Further loop-free pieces of src/concat/mod.rs (struct-by-value mode: `BroCatli`, `NewStreamData` as Lean
structures; `toState` / `toNsd` read the generated `[u8; 2]` / `[u8; 5]` lists as the model's pair / five-field
record): `NewStreamData::new`, `NewStreamData::sufficient`, `BroCatli::new_brotli_file` (every state) and
`BroCatli::new_with_window_size` (every `u8` argument: the generated state is the model's whenever the model
returns, and the generated debug-build no-panic condition holds exactly when the model does not panic);
`BroCatli::append_eof_metablock_to_last_bytes` (every state with a two-byte `last_bytes`: whenever the model
returns, the generated state is the model's and the generated no-panic condition holds);
`detect_varlen_offset` (every slice of bytes: whenever the model returns — it panics on slices too short for the header and
on slices longer than 8 bytes, whose `<<` overflows a `u64` — it returns the generated answer: the byte-packing loop, the
ISLAST / MNIBBLES / MSKIPBYTES walk of the first meta-block header).
-/
import BV.Gen.FnC16
import BV.Model.Concat

namespace BV.Props.C16Gen
open BV.Gen.FnC16 BV.Concat BV.Concat.Outcome BV.Rs

theorem ite_ok {α : Type} (c : Prop) [Decidable c] (a : α) (X : Outcome α) (Y : α) (h : X = Outcome.ok Y) :
    (if c then Outcome.ok a else X) = Outcome.ok (if c then a else Y) := by
  split <;> simp_all

/-- with at least two bytes available the model never panics and returns the generated function's answer -/
theorem parse_window_size_generated (b0 b1 : Nat) (rest : List Nat) :
    parseWindowSize (b0 :: b1 :: rest) = Outcome.ok (parse_window_size (b0 :: b1 :: rest)) := by
  unfold parseWindowSize parse_window_size idx
  simp only [List.getElem?_cons_zero, List.getElem?_cons_succ, List.getD_cons_zero, List.getD_cons_succ,
    Outcome.bind, beq_iff_eq, bne_iff_ne, ne_eq]
  repeat' apply ite_ok
  by_cases h1 : 10 ≤ b1 &&& 63 <;> by_cases h2 : b1 &&& 63 ≤ 30 <;> simp [h1, h2]

/-- one byte only: whenever the model returns (it panics when it needs the second byte), it returns
the generated function's answer -/
theorem parse_window_size_generated_one (b0 : Nat) (r : Option (Nat × Nat))
    (h : parseWindowSize [b0] = Outcome.ok r) : r = parse_window_size [b0] := by
  have key : ∀ (c : Prop) [Decidable c] (a : Option (Nat × Nat)) (X : Outcome (Option (Nat × Nat))) (Y : Option (Nat × Nat)),
      (X = Outcome.ok r → r = Y) → ((if c then Outcome.ok a else X) = Outcome.ok r → r = (if c then a else Y)) := by
    intro c _ a X Y hXY hh
    split at hh
    · injection hh with hh; simp_all
    · simp_all
  revert h
  unfold parseWindowSize parse_window_size idx
  simp only [List.getElem?_cons_zero, List.getElem?_cons_succ, List.getElem?_nil, List.getD_cons_zero,
    List.getD_cons_succ, List.getD_nil, Outcome.bind, beq_iff_eq, bne_iff_ne, ne_eq]
  repeat' apply key
  intro h
  cases h

/-- in general: whenever the model returns, it returns the generated function's answer -/
theorem parse_window_size_generated_of_ok (bs : List Nat) (r : Option (Nat × Nat))
    (h : parseWindowSize bs = Outcome.ok r) : r = parse_window_size bs := by
  match bs, h with
  | [], h => simp [parseWindowSize, idx, Outcome.bind] at h
  | [b0], h => exact parse_window_size_generated_one b0 r h
  | b0 :: b1 :: rest, h =>
    rw [parse_window_size_generated] at h
    injection h with h
    exact h.symm

/-! ## the loop-free constructors and predicates of `BroCatli` / `NewStreamData` -/

/-- a generated `[u8; 5]` (a list) as the model's five-field record; missing entries read as 0 -/
def toB5 (l : List Nat) : B5 := ⟨l.getD 0 0, l.getD 1 0, l.getD 2 0, l.getD 3 0, l.getD 4 0⟩

def toNsd (d : BV.Gen.FnC16.NewStreamData) : BV.Concat.NewStreamData :=
  ⟨toB5 d.bytes_so_far, d.num_bytes_read, d.num_bytes_written⟩

/-- the generated `BroCatli` as the model's `State` (`last_bytes : [u8; 2]` as a pair) -/
def toState (s : BroCatli) : State :=
  { last_bytes := (s.last_bytes.getD 0 0, s.last_bytes.getD 1 0), last_bytes_len := s.last_bytes_len,
    last_byte_sanitized := s.last_byte_sanitized, any_bytes_emitted := s.any_bytes_emitted,
    last_byte_bit_offset := s.last_byte_bit_offset, window_size := s.window_size,
    new_stream_pending := s.new_stream_pending.map toNsd }

theorem new_stream_data_new_generated : toNsd NewStreamData_new = BV.Concat.NewStreamData.new := rfl

theorem sufficient_generated (d : BV.Gen.FnC16.NewStreamData) : sufficient d = (toNsd d).sufficient := by
  unfold sufficient BV.Concat.NewStreamData.sufficient toNsd toB5
  by_cases h4 : d.num_bytes_read = 4 <;> by_cases h17 : (127 &&& d.bytes_so_far.getD 0 0) = 17 <;>
    by_cases h5 : d.num_bytes_read = 5 <;> simp [h4, h5]

theorem new_brotli_file_generated (s : BroCatli) : toState (new_brotli_file s) = newBrotliFile (toState s) := rfl

/-- `new_with_window_size`, per `u8` argument: when the model returns, the generated state is the model's; the
generated no-panic condition holds exactly when the model does not panic -/
def nwwsAgree (w : Nat) : Bool :=
  match State.newWithWindowSize w with
  | .ok s => decide (toState (new_with_window_size w) = s) && new_with_window_size_ok w
  | .panic _ => !new_with_window_size_ok w

theorem new_with_window_size_fin : ∀ w : Fin 256, nwwsAgree w.val = true := by decide +kernel

theorem new_with_window_size_generated (w : Nat) (hw : w < 256) (s : State) (h : State.newWithWindowSize w = .ok s) :
    toState (new_with_window_size w) = s ∧ new_with_window_size_ok w = true := by
  have := new_with_window_size_fin ⟨w, hw⟩
  unfold nwwsAgree at this
  simp only [h, Bool.and_eq_true, decide_eq_true_eq] at this
  exact this

theorem new_with_window_size_panics (w : Nat) (hw : w < 256) (site : Site) (h : State.newWithWindowSize w = .panic site) :
    new_with_window_size_ok w = false := by
  have := new_with_window_size_fin ⟨w, hw⟩
  unfold nwwsAgree at this
  simp only [h] at this
  simpa using this

/-- `BroCatli::append_eof_metablock_to_last_bytes`: on every state whose `last_bytes` array holds two bytes, whenever
the model returns (it panics on an unsanitised last byte and on every `u8` overflow), the generated state is the
model's -/
theorem append_eof_generated (g : BroCatli) (x y : Nat) (hl : g.last_bytes = [x, y]) (hy : y < 256) (s' : State)
    (h : appendEofMetablockToLastBytes (toState g) = .ok s') :
    toState (append_eof_metablock_to_last_bytes g) = s' := by
  unfold appendEofMetablockToLastBytes at h
  simp only [toState, hl, List.getD_cons_zero, List.getD_cons_succ] at h
  split at h
  · cases h
  split at h
  · cases h
  split at h
  · cases h
  split at h
  · cases h
  split at h
  · cases h
  split at h
  · cases h
  rename_i c1 c2 c3 c4 c5 c6
  have hlen : (g.last_bytes_len + 256 - 1) % 256 = g.last_bytes_len - 1 := by omega
  have hmul : ((g.last_bytes_len - 1) * 8) % 256 = (g.last_bytes_len - 1) * 8 := by omega
  have hadd : ((g.last_bytes_len - 1) * 8 + g.last_byte_bit_offset) % 256 = (g.last_bytes_len - 1) * 8 + g.last_byte_bit_offset := by omega
  have h16 : ((g.last_bytes_len - 1) * 8 + g.last_byte_bit_offset) % 16 = (g.last_bytes_len - 1) * 8 + g.last_byte_bit_offset := by omega
  have hoff : (g.last_byte_bit_offset + 2) % 256 = g.last_byte_bit_offset + 2 := by omega
  unfold append_eof_metablock_to_last_bytes
  simp only [hl, List.getD_cons_zero, List.getD_cons_succ, hlen, hmul, hadd, h16, hoff, List.set_cons_zero, List.set_cons_succ]
  have e8 : y <<< (8 % 16) % 65536 = y <<< 8 := by
    show y <<< 8 % 65536 = y <<< 8
    rw [Nat.shiftLeft_eq]; omega
  have e816 : (8 % 16) = 8 := rfl
  have p16 : (2 : Nat) ^ 16 = 65536 := by decide
  rw [p16] at h
  rw [e8, e816]
  by_cases b1 : g.last_byte_bit_offset + 2 ≥ 8
  · have d1 : decide (g.last_byte_bit_offset + 2 ≥ 8) = true := by simpa using b1
    have hsub : (g.last_byte_bit_offset + 2 + 256 - 8) % 256 = g.last_byte_bit_offset + 2 - 8 := by omega
    rw [if_pos b1] at h
    simp only [d1, if_true, hsub]
    by_cases b2 : g.last_byte_bit_offset + 2 - 8 ≠ 0
    · have d2 : (g.last_byte_bit_offset + 2 - 8 != 0) = true := by simpa using b2
      rw [if_pos b2] at h
      simp only [d2, if_true]
      by_cases b3 : g.last_bytes_len + 1 ≥ 256
      · rw [if_pos b3] at h; cases h
      · rw [if_neg b3] at h
        have hl1 : (g.last_bytes_len + 1) % 256 = g.last_bytes_len + 1 := by omega
        rw [hl1]
        have h2 := Outcome.ok.inj h
        subst h2; first | rfl | simp [toState]
    · have d2 : (g.last_byte_bit_offset + 2 - 8 != 0) = false := by simpa using b2
      rw [if_neg b2] at h
      simp only [d2, if_false, Bool.false_eq_true]
      have h2 := Outcome.ok.inj h
      subst h2; first | rfl | simp [toState]
  · have d1 : decide (g.last_byte_bit_offset + 2 ≥ 8) = false := by simpa using b1
    rw [if_neg b1] at h
    simp only [d1, if_false, Bool.false_eq_true]
    have h2 := Outcome.ok.inj h
    subst h2; first | rfl | simp [toState]

/-- … and the generated debug-build no-panic condition holds -/
theorem append_eof_ok_generated (g : BroCatli) (x y : Nat) (hl : g.last_bytes = [x, y]) (s' : State)
    (h : appendEofMetablockToLastBytes (toState g) = .ok s') :
    append_eof_metablock_to_last_bytes_ok g = true := by
  unfold appendEofMetablockToLastBytes at h
  simp only [toState, hl, List.getD_cons_zero, List.getD_cons_succ] at h
  split at h
  · cases h
  split at h
  · cases h
  split at h
  · cases h
  split at h
  · cases h
  split at h
  · cases h
  split at h
  · cases h
  rename_i c1 c2 c3 c4 c5 c6
  have hs : g.last_byte_sanitized = true := by simpa using c1
  have hlen : (g.last_bytes_len + 256 - 1) % 256 = g.last_bytes_len - 1 := by omega
  have hmul : ((g.last_bytes_len - 1) * 8) % 256 = (g.last_bytes_len - 1) * 8 := by omega
  have hadd : ((g.last_bytes_len - 1) * 8 + g.last_byte_bit_offset) % 256 = (g.last_bytes_len - 1) * 8 + g.last_byte_bit_offset := by omega
  have hoff : (g.last_byte_bit_offset + 2) % 256 = g.last_byte_bit_offset + 2 := by omega
  unfold append_eof_metablock_to_last_bytes_ok
  dsimp only
  simp only [hl, hs, List.length_cons, List.length_nil, List.length_set, hoff]
  have t1 : decide (0 < 0 + 1 + 1) = true := by decide
  have t2 : decide (1 < 0 + 1 + 1) = true := by decide
  have t3 : decide (8 < 16) = true := by decide
  have t4 : decide (1 ≤ g.last_bytes_len) = true := by simp; omega
  have t5 : decide ((g.last_bytes_len + 256 - 1) % 256 * 8 < 256) = true := by simp only [decide_eq_true_eq]; omega
  have t6 : decide ((g.last_bytes_len + 256 - 1) % 256 * 8 % 256 + g.last_byte_bit_offset < 256) = true := by
    simp only [decide_eq_true_eq]; omega
  have t7 : decide (((g.last_bytes_len + 256 - 1) % 256 * 8 % 256 + g.last_byte_bit_offset) % 256 < 16) = true := by
    simp only [decide_eq_true_eq]; omega
  have t8 : decide (g.last_byte_bit_offset + 2 < 256) = true := by simp only [decide_eq_true_eq]; omega
  simp only [t1, t2, t3, t4, t5, t6, t7, t8, Bool.and_self, Bool.true_and]
  by_cases b1 : g.last_byte_bit_offset + 2 ≥ 8
  · have d1 : decide (g.last_byte_bit_offset + 2 ≥ 8) = true := by simpa using b1
    have d1' : decide (8 ≤ g.last_byte_bit_offset + 2) = true := by simpa using b1
    have hsub : (g.last_byte_bit_offset + 2 + 256 - 8) % 256 = g.last_byte_bit_offset + 2 - 8 := by omega
    rw [if_pos b1] at h
    simp only [d1, if_true, hsub]
    by_cases b2 : g.last_byte_bit_offset + 2 - 8 ≠ 0
    · have d2 : (g.last_byte_bit_offset + 2 - 8 != 0) = true := by simpa using b2
      rw [if_pos b2] at h
      simp only [d2, if_true]
      by_cases b3 : g.last_bytes_len + 1 ≥ 256
      · rw [if_pos b3] at h; cases h
      · simp only [Bool.true_and, decide_eq_true_eq]; omega
    · have d2 : (g.last_byte_bit_offset + 2 - 8 != 0) = false := by simpa using b2
      simp only [d2, if_false, Bool.false_eq_true]
  · have d1 : decide (g.last_byte_bit_offset + 2 ≥ 8) = false := by simpa using b1
    simp only [d1, if_false, Bool.false_eq_true]

/-! ## `detect_varlen_offset` -/

def offOf : Option (Nat × Nat) → Nat
  | some (_, o) => o
  | none => 0

theorem offOf_ite (c : Prop) [Decidable c] (a b : Option (Nat × Nat)) (ha : offOf a ≤ 14) (hb : offOf b ≤ 14) :
    offOf (if c then a else b) ≤ 14 := by
  split <;> assumption

theorem pws_off_aux (bs : List Nat) : offOf (parse_window_size bs) ≤ 14 := by
  unfold parse_window_size
  repeat' apply offOf_ite
  all_goals first | decide | simp [offOf]

/-- body of the generated `for (index, item) in bytes_so_far.iter().enumerate()` loop -/
def packBody (bs : List Nat) : Nat → Nat → Nat :=
  fun index bytes =>
    let item : Nat := (List.getD bs index 0)
    let bytes : Nat := (bytes ||| ((item <<< (((index * 8) % 18446744073709551616) % 64)) % 18446744073709551616))
    bytes

theorem pack_loop (site : Site) (bs : List Nat) (hb : ∀ b ∈ bs, b < 256) : ∀ (n i acc r : Nat), i + n = bs.length →
    packLE site (bs.drop i) i acc = ok r → forRangeAux (packBody bs) n i acc = r := by
  intro n
  induction n with
  | zero =>
    intro i acc r hi h
    have : bs.drop i = [] := List.drop_eq_nil_of_le (by omega)
    rw [this] at h
    simp only [packLE] at h
    exact (Outcome.ok.inj h)
  | succ n ih =>
    intro i acc r hi h
    have hlt : i < bs.length := by omega
    rw [List.drop_eq_getElem_cons hlt] at h
    unfold packLE at h
    split at h
    · cases h
    rename_i h64
    unfold forRangeAux
    have hitem : bs[i] < 256 := hb _ (List.getElem_mem hlt)
    have e : packBody bs i acc = acc ||| (bs[i] <<< (i * 8)) := by
      unfold packBody
      simp only [List.getD_eq_getElem?_getD, List.getElem?_eq_getElem hlt, Option.getD_some]
      have e1 : ((i * 8) % 18446744073709551616) % 64 = i * 8 := by omega
      rw [e1]
      have hpow : 2 ^ (i * 8) ≤ 2 ^ 56 := Nat.pow_le_pow_right (by decide) (by omega)
      have : bs[i] <<< (i * 8) < 18446744073709551616 := by
        rw [Nat.shiftLeft_eq]
        have h1 : bs[i] * 2 ^ (i * 8) ≤ 255 * 2 ^ 56 := Nat.mul_le_mul (by omega) hpow
        have h2 : (255 : Nat) * 2 ^ 56 < 18446744073709551616 := by decide
        omega
      rw [Nat.mod_eq_of_lt this]
    rw [e]
    exact ih (i + 1) _ r (by omega) h

theorem pws_off (bs : List Nat) (w off : Nat) (h : parse_window_size bs = some (w, off)) : off ≤ 14 := by
  have := pws_off_aux bs
  rw [h] at this
  exact this

/-- the part of the generated `detect_varlen_offset` behind the ISLAST test (it occurs twice in the generated text) -/
def genTail (bytes offset : Nat) : Option Nat :=
  let bytes : Nat := (bytes >>> (1 % 64))
  let mnibbles : Nat := (bytes &&& 3)
  let bytes : Nat := (bytes >>> (2 % 64))
  let offset : Nat := ((offset + 2) % 18446744073709551616)
  if (mnibbles == 3) then
    if ((bytes &&& 1) != 0) then
      none
    else
      let bytes : Nat := (bytes >>> (1 % 64))
      let offset : Nat := ((offset + 1) % 18446744073709551616)
      let mskipbytes : Nat := (bytes &&& ((((1 <<< (2 % 64)) % 18446744073709551616) + 18446744073709551616 - 1) % 18446744073709551616))
      let offset : Nat := ((offset + 2) % 18446744073709551616)
      let offset : Nat := ((offset + ((mskipbytes * 8) % 18446744073709551616)) % 18446744073709551616)
      (some offset)
  else
    let mnibbles : Nat := ((mnibbles + 4) % 18446744073709551616)
    let offset : Nat := ((offset + ((mnibbles * 4) % 18446744073709551616)) % 18446744073709551616)
    let bytes : Nat := (bytes >>> (((mnibbles * 4) % 18446744073709551616) % 64))
    let offset : Nat := ((offset + 1) % 18446744073709551616)
    if ((bytes &&& 1) == 0) then
      none
    else
      (some offset)

theorem detect_unfold (bs : List Nat) :
    detect_varlen_offset bs =
      (if (Option.isSome (parse_window_size bs)) then
        (let bytes : Nat := (forRangeAux (packBody bs) (bs.length - 0) 0 0) >>> ((Option.getD (parse_window_size bs) (0, 0)).2 % 64)
         let offset : Nat := (((Option.getD (parse_window_size bs) (0, 0)).2 + 1) % 18446744073709551616)
         if ((bytes &&& 1) != 0) then
           (let bytes : Nat := (bytes >>> (1 % 64))
            let offset : Nat := ((offset + 1) % 18446744073709551616)
            if ((bytes &&& 1) != 0) then (some offset) else genTail bytes offset)
         else genTail bytes offset)
      else none) := rfl

/-- the model's tail on the same numbers -/
def modelTail (bytes offset : Nat) : Outcome (Option Nat) :=
  let bytes := bytes >>> 1
  let mnibbles := bytes &&& 3
  let bytes := bytes >>> 2
  let offset := offset + 2
  if mnibbles = 3 then
    if bytes &&& 1 ≠ 0 then ok none else
    let bytes := bytes >>> 1
    let offset := offset + 1
    let mskipbytes := bytes &&& ((1 <<< 2) - 1)
    let offset := offset + 2
    let offset := offset + mskipbytes * 8
    ok (some offset)
  else
    let mnibbles := mnibbles + 4
    let offset := offset + mnibbles * 4
    let bytes := bytes >>> (mnibbles * 4)
    let offset := offset + 1
    if bytes &&& 1 = 0 then ok none else ok (some offset)

theorem tail_eq (bytes offset : Nat) (ho : offset ≤ 100) : modelTail bytes offset = ok (genTail bytes offset) := by
  unfold modelTail genTail
  have hm : (bytes >>> 1) &&& 3 ≤ 3 := Nat.and_le_right
  have e1 : (1 % 64) = 1 := rfl
  have e2 : (2 % 64) = 2 := rfl
  have emask : ((((1 <<< (2 % 64)) % 18446744073709551616) + 18446744073709551616 - 1) % 18446744073709551616) = (1 <<< 2) - 1 := by decide
  simp only [e1, e2, emask]
  generalize hmn : (bytes >>> 1) &&& 3 = mn at hm
  by_cases h3 : mn = 3
  · have g3 : (mn == 3) = true := by simpa using h3
    rw [if_pos h3]
    simp only [g3, if_true]
    by_cases hb : (bytes >>> 1 >>> 2) &&& 1 = 0
    · have gb : (((bytes >>> 1 >>> 2) &&& 1) != 0) = false := by simp [hb]
      have hs : (bytes >>> 1 >>> 2 >>> 1) &&& ((1 <<< 2) - 1) ≤ 3 := Nat.and_le_right
      rw [if_neg (by omega)]
      simp only [gb, if_false, Bool.false_eq_true]
      generalize (bytes >>> 1 >>> 2 >>> 1) &&& ((1 <<< 2) - 1) = ms at hs
      have e : ((((offset + 2) % 18446744073709551616 + 1) % 18446744073709551616 + 2) % 18446744073709551616 + ms * 8 % 18446744073709551616) % 18446744073709551616 =
          offset + 2 + 1 + 2 + ms * 8 := by omega
      rw [e]
    · have gb : (((bytes >>> 1 >>> 2) &&& 1) != 0) = true := by rw [bne_iff_ne]; exact hb
      rw [if_pos hb]
      simp only [gb, if_true]
  · have g3 : (mn == 3) = false := by simpa using h3
    rw [if_neg h3]
    simp only [g3, if_false, Bool.false_eq_true]
    have em : (mn + 4) % 18446744073709551616 = mn + 4 := by omega
    have em4 : ((mn + 4) * 4) % 18446744073709551616 = (mn + 4) * 4 := by omega
    have em64 : ((mn + 4) * 4) % 64 = (mn + 4) * 4 := by omega
    simp only [em, em4, em64]
    by_cases hb : (bytes >>> 1 >>> 2 >>> ((mn + 4) * 4)) &&& 1 = 0
    · have gb : (((bytes >>> 1 >>> 2 >>> ((mn + 4) * 4)) &&& 1) == 0) = true := by simp [hb]
      rw [if_pos hb]
      simp only [gb, if_true]
    · have gb : (((bytes >>> 1 >>> 2 >>> ((mn + 4) * 4)) &&& 1) == 0) = false := by rw [beq_eq_false_iff_ne]; exact hb
      rw [if_neg hb]
      simp only [gb, if_false, Bool.false_eq_true]
      have e : (((offset + 2) % 18446744073709551616 + (mn + 4) * 4) % 18446744073709551616 + 1) % 18446744073709551616 = offset + 2 + (mn + 4) * 4 + 1 := by omega
      rw [e]

theorem model_unfold (bs : List Nat) (w off0 bytes0 : Nat)
    (h1 : parseWindowSize bs = ok (some (w, off0))) (h2 : packLE .dvoShl bs 0 0 = ok bytes0) :
    detectVarlenOffset bs =
      (if (bytes0 >>> off0) &&& 1 ≠ 0 then
        (if (bytes0 >>> off0 >>> 1) &&& 1 ≠ 0 then ok (some (off0 + 1 + 1)) else modelTail (bytes0 >>> off0 >>> 1) (off0 + 1 + 1))
       else modelTail (bytes0 >>> off0) (off0 + 1)) := by
  unfold detectVarlenOffset
  rw [h1]
  simp only [Outcome.bind, h2]
  by_cases b1 : (bytes0 >>> off0) &&& 1 ≠ 0
  · have d1 : decide ((bytes0 >>> off0) &&& 1 ≠ 0) = true := decide_eq_true b1
    by_cases b2 : (bytes0 >>> off0 >>> 1) &&& 1 ≠ 0
    · simp only [d1, ↓reduceIte]
      rw [if_pos ⟨trivial, b2⟩, if_pos b1, if_pos b2]
    · simp only [d1, ↓reduceIte, modelTail]
      rw [if_neg (fun hh => b2 hh.2), if_pos b1, if_neg b2]
  · have d1 : decide ((bytes0 >>> off0) &&& 1 ≠ 0) = false := decide_eq_false b1
    simp only [d1, ↓reduceIte, Bool.false_eq_true, modelTail]
    rw [if_neg (fun hh => nomatch hh.1), if_neg b1]

/-- `detect_varlen_offset` on byte slices: whenever the model returns (it panics on slices shorter than the header needs
and on slices longer than 8 bytes, whose `<<` overflows), it returns the generated function's answer -/
theorem detect_varlen_offset_generated (bs : List Nat) (hb : ∀ b ∈ bs, b < 256) (r : Option Nat)
    (h : detectVarlenOffset bs = ok r) : r = detect_varlen_offset bs := by
  cases hpw : parseWindowSize bs with
  | panic s => unfold detectVarlenOffset at h; rw [hpw] at h; simp [Outcome.bind] at h
  | ok pw =>
    have hgen := parse_window_size_generated_of_ok bs pw hpw
    rw [detect_unfold, ← hgen]
    cases pw with
    | none =>
      unfold detectVarlenOffset at h
      rw [hpw] at h
      simp only [Outcome.bind] at h
      have := Outcome.ok.inj h
      rw [← this]
      rfl
    | some p =>
      obtain ⟨w, off0⟩ := p
      have hoff : off0 ≤ 14 := pws_off bs w off0 hgen.symm
      cases hpk : packLE .dvoShl bs 0 0 with
      | panic s => unfold detectVarlenOffset at h; rw [hpw] at h; simp [Outcome.bind, hpk] at h
      | ok bytes0 =>
        rw [model_unfold bs w off0 bytes0 hpw hpk] at h
        have hloop : forRangeAux (packBody bs) (bs.length - 0) 0 0 = bytes0 :=
          pack_loop .dvoShl bs hb (bs.length - 0) 0 0 bytes0 (by omega) (by simpa using hpk)
        simp only [Option.isSome_some, if_true, Option.getD_some, hloop]
        have eo : off0 % 64 = off0 := by omega
        have eo1 : (off0 + 1) % 18446744073709551616 = off0 + 1 := by omega
        have eo2 : (off0 + 1 + 1) % 18446744073709551616 = off0 + 1 + 1 := by omega
        have e164 : (1 % 64) = 1 := rfl
        simp only [eo, eo1, eo2, e164]
        by_cases b1 : (bytes0 >>> off0) &&& 1 ≠ 0
        · have g1 : (((bytes0 >>> off0) &&& 1) != 0) = true := by rw [bne_iff_ne]; exact b1
          rw [if_pos b1] at h
          simp only [g1, if_true]
          by_cases b2 : (bytes0 >>> off0 >>> 1) &&& 1 ≠ 0
          · have g2 : (((bytes0 >>> off0 >>> 1) &&& 1) != 0) = true := by rw [bne_iff_ne]; exact b2
            rw [if_pos b2] at h
            simp only [g2, if_true]
            exact (Outcome.ok.inj h).symm
          · have g2 : (((bytes0 >>> off0 >>> 1) &&& 1) != 0) = false := by
              rw [Bool.eq_false_iff]; intro hh; rw [bne_iff_ne] at hh; exact b2 hh
            rw [if_neg b2, tail_eq _ _ (by omega)] at h
            simp only [g2, if_false, Bool.false_eq_true]
            exact (Outcome.ok.inj h).symm
        · have g1 : (((bytes0 >>> off0) &&& 1) != 0) = false := by
            rw [Bool.eq_false_iff]; intro hh; rw [bne_iff_ne] at hh; exact b1 hh
          rw [if_neg b1, tail_eq _ _ (by omega)] at h
          simp only [g1, if_false, Bool.false_eq_true]
          exact (Outcome.ok.inj h).symm

example : parse_window_size [0x5b, 0] = some (22, 4) := by decide
example : parse_window_size [0x11, 0x1e] = some (30, 14) := by decide
example : parse_window_size [0x11, 0x09] = none := by decide
example : (toState (new_with_window_size 22)).last_bytes = (0x3b, 0) := by decide
example : new_with_window_size_ok 9 = false := by decide
example : detectVarlenOffset [0x5b, 0, 0, 0] = .ok (detect_varlen_offset [0x5b, 0, 0, 0]) := by decide +kernel
example : (appendEofMetablockToLastBytes (toState { (new_with_window_size 22) with last_byte_sanitized := true, last_byte_bit_offset := 4 })).isPanic = false := by decide

end BV.Props.C16Gen
