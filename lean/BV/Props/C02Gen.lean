/-
C02/C06, translator tie: the Lean definition GENERATED from the current Rust text of `get_range`
(tools/rs2lean.py -> BV/Gen/FnC02.lean) is the model's range function, for every argument triple.
-/
import BV.Gen.FnC02
import BV.Model.Multi

namespace BV.Props.C02Gen
open BV.Gen.FnC02 BV.Multi

/-- release semantics: the generated function is `getRangeWrap` wherever that does not panic
(`num_threads ≠ 0`; the Rust division panics at 0, which the generated `Nat` division does not show) -/
theorem get_range_generated_wrap (i t n : Nat) (ht : t ≠ 0) :
    getRangeWrap i t n = Res.ok (get_range i t n) := by
  unfold getRangeWrap get_range
  simp [ht, U64]

/-- debug semantics: whenever the checked model returns, it returns the generated function's value -/
theorem get_range_generated (i t n : Nat) (r : Nat × Nat) (h : getRange i t n = Res.ok r) :
    r = get_range i t n := by
  unfold getRange at h
  unfold get_range
  have h64 : U64 = 18446744073709551616 := by decide
  rw [h64] at h
  split at h <;> try contradiction
  split at h <;> try contradiction
  split at h <;> try contradiction
  split at h <;> try contradiction
  injection h with h
  subst h
  rw [Nat.mod_eq_of_lt (by omega), Nat.mod_eq_of_lt (a := i + 1) (by omega), Nat.mod_eq_of_lt (by omega)]

example : get_range 3 7 1000 = (428, 571) := by decide
example : getRange 3 7 1000 = Res.ok (428, 571) := by decide

end BV.Props.C02Gen
