/-
C19, translator tie: the hasher model `BV.Hasher` takes its hash functions as PARAMETERS and instantiates
them, at the end of the file, with hand-written formulas (`basicHash`, `le`, `H9std` …).  Here the Lean
definitions GENERATED from the current Rust text of `BROTLI_UNALIGNED_LOAD32/64` (src/enc/static_dict.rs),
`Hash14` and the four `BasicHashComputer::HashBytes` bodies (H2Sub, H3Sub, H4Sub, H54Sub;
src/enc/backward_references/mod.rs; tools/rs2lean.py -> BV/Gen/FnC19.lean) are proved equal to those
formulas on every slice that holds the 8 (4) bytes the Rust code loads — on a shorter slice the Rust code
panics (`split_at`), which the `_ok` companion states exactly.
-/
import BV.Gen.FnC19
import BV.Model.Hasher

namespace BV.Props.C19Gen
open BV.Gen.FnC19 BV.Hasher

theorem or_shl (x y k : Nat) (h : x < 2 ^ k) : x ||| (y <<< k) = x + y * 2 ^ k := by
  rw [Nat.or_comm, ← Nat.shiftLeft_add_eq_or_of_lt h, Nat.shiftLeft_eq, Nat.add_comm]

/-- `x | (y * 2^k)` with `x < 2^k`, the power given as a literal -/
theorem or_mul_lit (x y p k : Nat) (hp : p = 2 ^ k) (h : x < p) : x ||| y * p = x + y * p := by
  subst hp
  have := or_shl x y k h
  rw [Nat.shiftLeft_eq] at this
  exact this

/-- `BROTLI_UNALIGNED_LOAD64` on a slice that starts with eight bytes: their little-endian value -/
theorem load64_generated (b0 b1 b2 b3 b4 b5 b6 b7 : Nat) (rest : List Nat)
    (h0 : b0 < 256) (h1 : b1 < 256) (h2 : b2 < 256) (h3 : b3 < 256) (h4 : b4 < 256) (h5 : b5 < 256)
    (h6 : b6 < 256) (h7 : b7 < 256) :
    BROTLI_UNALIGNED_LOAD64 (b0 :: b1 :: b2 :: b3 :: b4 :: b5 :: b6 :: b7 :: rest)
      = le [b0, b1, b2, b3, b4, b5, b6, b7] := by
  unfold BROTLI_UNALIGNED_LOAD64
  have hp : BV.Rs.splice (List.replicate 8 0) 0
      ((BV.Rs.slice (b0 :: b1 :: b2 :: b3 :: b4 :: b5 :: b6 :: b7 :: rest) 0 8),
        (BV.Rs.slice (b0 :: b1 :: b2 :: b3 :: b4 :: b5 :: b6 :: b7 :: rest) 8
          (List.length (b0 :: b1 :: b2 :: b3 :: b4 :: b5 :: b6 :: b7 :: rest)))).1
      = [b0, b1, b2, b3, b4, b5, b6, b7] := by
    simp [BV.Rs.splice, BV.Rs.slice, List.replicate]
  simp only [hp, List.getD_cons_zero, List.getD_cons_succ, le, Nat.reduceMod, Nat.shiftLeft_eq, Nat.reducePow]
  have e1 : b1 * 256 % 18446744073709551616 = b1 * 256 := Nat.mod_eq_of_lt (by omega)
  have e2 : b2 * 65536 % 18446744073709551616 = b2 * 65536 := Nat.mod_eq_of_lt (by omega)
  have e3 : b3 * 16777216 % 18446744073709551616 = b3 * 16777216 := Nat.mod_eq_of_lt (by omega)
  have e4 : b4 * 4294967296 % 18446744073709551616 = b4 * 4294967296 := Nat.mod_eq_of_lt (by omega)
  have e5 : b5 * 1099511627776 % 18446744073709551616 = b5 * 1099511627776 := Nat.mod_eq_of_lt (by omega)
  have e6 : b6 * 281474976710656 % 18446744073709551616 = b6 * 281474976710656 := Nat.mod_eq_of_lt (by omega)
  have e7 : b7 * 72057594037927936 % 18446744073709551616 = b7 * 72057594037927936 := Nat.mod_eq_of_lt (by omega)
  rw [e1, e2, e3, e4, e5, e6, e7]
  rw [or_mul_lit b0 b1 256 8 (by decide) (by omega)]
  rw [or_mul_lit _ b2 65536 16 (by decide) (by omega)]
  rw [or_mul_lit _ b3 16777216 24 (by decide) (by omega)]
  rw [or_mul_lit _ b4 4294967296 32 (by decide) (by omega)]
  rw [or_mul_lit _ b5 1099511627776 40 (by decide) (by omega)]
  rw [or_mul_lit _ b6 281474976710656 48 (by decide) (by omega)]
  rw [or_mul_lit _ b7 72057594037927936 56 (by decide) (by omega)]
  omega

/-- `BROTLI_UNALIGNED_LOAD32` on a slice that starts with four bytes -/
theorem load32_generated (b0 b1 b2 b3 : Nat) (rest : List Nat)
    (h0 : b0 < 256) (h1 : b1 < 256) (h2 : b2 < 256) (h3 : b3 < 256) :
    BROTLI_UNALIGNED_LOAD32 (b0 :: b1 :: b2 :: b3 :: rest) = le [b0, b1, b2, b3] := by
  unfold BROTLI_UNALIGNED_LOAD32
  have hp : BV.Rs.splice (List.replicate 4 0) 0
      ((BV.Rs.slice (b0 :: b1 :: b2 :: b3 :: rest) 0 4),
        (BV.Rs.slice (b0 :: b1 :: b2 :: b3 :: rest) 4 (List.length (b0 :: b1 :: b2 :: b3 :: rest)))).1
      = [b0, b1, b2, b3] := by
    simp [BV.Rs.splice, BV.Rs.slice, List.replicate]
  simp only [hp, List.getD_cons_zero, List.getD_cons_succ, le, Nat.reduceMod, Nat.shiftLeft_eq, Nat.reducePow]
  have e1 : b1 * 256 % 4294967296 = b1 * 256 := Nat.mod_eq_of_lt (by omega)
  have e2 : b2 * 65536 % 4294967296 = b2 * 65536 := Nat.mod_eq_of_lt (by omega)
  have e3 : b3 * 16777216 % 4294967296 = b3 * 16777216 := Nat.mod_eq_of_lt (by omega)
  rw [e1, e2, e3]
  rw [or_mul_lit b0 b1 256 8 (by decide) (by omega)]
  rw [or_mul_lit _ b2 65536 16 (by decide) (by omega)]
  rw [or_mul_lit _ b3 16777216 24 (by decide) (by omega)]
  omega

/-- the loads panic exactly on slices that are too short -/
theorem load64_ok_generated (sl : List Nat) : BROTLI_UNALIGNED_LOAD64_ok sl = decide (8 ≤ sl.length) := by
  unfold BROTLI_UNALIGNED_LOAD64_ok
  by_cases h : 8 ≤ sl.length
  · have hl : (BV.Rs.slice sl 0 8).length = 8 := by simp [BV.Rs.slice]; omega
    simp [h, hl, BV.Rs.splice]
  · simp [h]

theorem load32_ok_generated (sl : List Nat) : BROTLI_UNALIGNED_LOAD32_ok sl = decide (4 ≤ sl.length) := by
  unfold BROTLI_UNALIGNED_LOAD32_ok
  by_cases h : 4 ≤ sl.length
  · have hl : (BV.Rs.slice sl 0 4).length = 4 := by simp [BV.Rs.slice]; omega
    simp [h, hl, BV.Rs.splice]
  · simp [h]

theorem sh24 : BV.Rs.toU 64 (BV.Rs.wrapS 32 ((64 : Int) - (BV.Rs.wrapS 32 ((8 : Int) * (5 : Int))))) % 64 = 24 := by decide
theorem sh8 : BV.Rs.toU 64 (BV.Rs.wrapS 32 ((64 : Int) - (BV.Rs.wrapS 32 ((8 : Int) * (7 : Int))))) % 64 = 8 := by decide
theorem sh48 : BV.Rs.toU 64 (BV.Rs.wrapS 32 ((64 : Int) - (16 : Int))) % 64 = 48 := by decide
theorem sh47 : BV.Rs.toU 64 (BV.Rs.wrapS 32 ((64 : Int) - (17 : Int))) % 64 = 47 := by decide
theorem sh44 : BV.Rs.toU 64 (BV.Rs.wrapS 32 ((64 : Int) - (20 : Int))) % 64 = 44 := by decide

/-- a 64-bit value shifted right by at least 32 fits `u32` -/
theorem shr_lt (x k : Nat) (hx : x < 18446744073709551616) (hk : 32 ≤ k) : x >>> k % 4294967296 = x >>> k := by
  apply Nat.mod_eq_of_lt
  rw [Nat.shiftRight_eq_div_pow]
  have h1 : x / 2 ^ k ≤ x / 2 ^ 32 := Nat.div_le_div_left (Nat.pow_le_pow_right (by decide) hk) (by decide)
  have h2 : x / 2 ^ 32 < 4294967296 := by
    rw [Nat.div_lt_iff_lt_mul (by decide)]; omega
  omega

/-- `H2Sub::HashBytes` / `H3Sub` / `H4Sub` / `H54Sub`: the model's `basicHash` of the eight loaded bytes
(the instances `BV.Hasher.H2`, `H3`, `H4`, `H54` are `basicP bits sweep len` with exactly these numbers) -/
theorem hash_bytes_h2_generated (b0 b1 b2 b3 b4 b5 b6 b7 : Nat) (rest : List Nat)
    (h0 : b0 < 256) (h1 : b1 < 256) (h2 : b2 < 256) (h3 : b3 < 256) (h4 : b4 < 256) (h5 : b5 < 256)
    (h6 : b6 < 256) (h7 : b7 < 256) :
    HashBytes_H2 (b0 :: b1 :: b2 :: b3 :: b4 :: b5 :: b6 :: b7 :: rest) = H2.hash [b0, b1, b2, b3, b4, b5, b6, b7] := by
  unfold HashBytes_H2
  rw [load64_generated _ _ _ _ _ _ _ _ _ h0 h1 h2 h3 h4 h5 h6 h7, sh24, sh48, shr_lt _ _ (Nat.mod_lt _ (by decide)) (by decide)]
  rfl

theorem hash_bytes_h3_generated (b0 b1 b2 b3 b4 b5 b6 b7 : Nat) (rest : List Nat)
    (h0 : b0 < 256) (h1 : b1 < 256) (h2 : b2 < 256) (h3 : b3 < 256) (h4 : b4 < 256) (h5 : b5 < 256)
    (h6 : b6 < 256) (h7 : b7 < 256) :
    HashBytes_H3 (b0 :: b1 :: b2 :: b3 :: b4 :: b5 :: b6 :: b7 :: rest) = H3.hash [b0, b1, b2, b3, b4, b5, b6, b7] := by
  unfold HashBytes_H3
  rw [load64_generated _ _ _ _ _ _ _ _ _ h0 h1 h2 h3 h4 h5 h6 h7, sh24, sh48, shr_lt _ _ (Nat.mod_lt _ (by decide)) (by decide)]
  rfl

theorem hash_bytes_h4_generated (b0 b1 b2 b3 b4 b5 b6 b7 : Nat) (rest : List Nat)
    (h0 : b0 < 256) (h1 : b1 < 256) (h2 : b2 < 256) (h3 : b3 < 256) (h4 : b4 < 256) (h5 : b5 < 256)
    (h6 : b6 < 256) (h7 : b7 < 256) :
    HashBytes_H4 (b0 :: b1 :: b2 :: b3 :: b4 :: b5 :: b6 :: b7 :: rest) = H4.hash [b0, b1, b2, b3, b4, b5, b6, b7] := by
  unfold HashBytes_H4
  rw [load64_generated _ _ _ _ _ _ _ _ _ h0 h1 h2 h3 h4 h5 h6 h7, sh24, sh47, shr_lt _ _ (Nat.mod_lt _ (by decide)) (by decide)]
  rfl

theorem hash_bytes_h54_generated (b0 b1 b2 b3 b4 b5 b6 b7 : Nat) (rest : List Nat)
    (h0 : b0 < 256) (h1 : b1 < 256) (h2 : b2 < 256) (h3 : b3 < 256) (h4 : b4 < 256) (h5 : b5 < 256)
    (h6 : b6 < 256) (h7 : b7 < 256) :
    HashBytes_H54 (b0 :: b1 :: b2 :: b3 :: b4 :: b5 :: b6 :: b7 :: rest) = H54.hash [b0, b1, b2, b3, b4, b5, b6, b7] := by
  unfold HashBytes_H54
  rw [load64_generated _ _ _ _ _ _ _ _ _ h0 h1 h2 h3 h4 h5 h6 h7, sh8, sh44, shr_lt _ _ (Nat.mod_lt _ (by decide)) (by decide)]
  rfl

/-- `Hash14`: `LOAD32(data) * kHashMul32 mod 2^32 >> 18` -/
theorem hash14_generated (b0 b1 b2 b3 : Nat) (rest : List Nat)
    (h0 : b0 < 256) (h1 : b1 < 256) (h2 : b2 < 256) (h3 : b3 < 256) :
    Hash14 (b0 :: b1 :: b2 :: b3 :: rest) = (le [b0, b1, b2, b3] * kHashMul32 % U32) >>> 18 := by
  unfold Hash14
  rw [load32_generated _ _ _ _ _ h0 h1 h2 h3]
  have : BV.Rs.toU 64 (BV.Rs.wrapS 32 ((32 : Int) - (14 : Int))) % 32 = 18 := by decide
  simp only [this]
  rfl

/-- the hash functions never panic on a slice of at least eight bytes, and do on a shorter one -/
theorem hash_bytes_ok_generated (data : List Nat) :
    HashBytes_H2_ok data = decide (8 ≤ data.length) ∧ HashBytes_H3_ok data = decide (8 ≤ data.length) ∧
    HashBytes_H4_ok data = decide (8 ≤ data.length) ∧ HashBytes_H54_ok data = decide (8 ≤ data.length) := by
  unfold HashBytes_H2_ok HashBytes_H3_ok HashBytes_H4_ok HashBytes_H54_ok
  simp only [load64_ok_generated]
  refine ⟨?_, ?_, ?_, ?_⟩ <;> (by_cases h : 8 ≤ data.length <;> simp [h] <;> decide)

example : HashBytes_H2 [1, 2, 3, 4, 5, 6, 7, 8] = H2.hash [1, 2, 3, 4, 5, 6, 7, 8] := by decide
example : HashBytes_H54_ok [1, 2, 3, 4, 5, 6, 7] = false := by decide
example : Hash14 [1, 2, 3, 4] = (le [1, 2, 3, 4] * kHashMul32 % U32) >>> 18 := by decide

end BV.Props.C19Gen
