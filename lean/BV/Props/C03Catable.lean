/-
C03Catable — the CATABLE PROMISE of the payload encoder at the command level (assumption `CatableBody` of C03), for
quality 2–9: the commands `CreateBackwardReferences` produces for a member made in catable mode are POSITION
INDEPENDENT — the RFC 7932 decoder replays them to `h' ++ member` behind EVERY foreign history `h'`, from EVERY
distance ring, with every window at least as large as the encoder's and every static dictionary.

Property theorems ONLY.  Decoder-level simulation: BV/Lemmas/CatableReplay.lean.  Open form of the loop theorem (ring
at the end of a call = returned `dist_cache`): BV/Lemmas/CbrOpen.lean.  Catable parameter set: BV/Model/Catable.lean
(tied by `catable setparam` / `catable init` lines of `hasher catable`).  `createBackwardReferences` is
BV/Model/Cbr.lean (tied by `hasher cbr` lines, also emitted for the catable runs), `replayCommands` / `decSteps` the RFC
semantics of BV/Model/Recoder.lean (C14), `lockstep` / writers / reader BV/Model/MetaBlock.lean (C01MetaBlock).

What catable mode changes in encode.rs, and where each item enters:
 1. `use_dictionary = false`      → the hashers get no static dictionary, so they return no dictionary hit: hypothesis
                                     `OpsOK (SlotOK noWords)`, which for the three hasher families is
                                     `basicOps_ok / advOps_ok / h9Ops_ok … dictFaithful_none` (`*_basic/_adv/_h9` below).
                                     NECESSARY: `dictionary_reference_is_position_dependent`.
 2. `dist_cache_ = 0x7ffffff0 × 16` → the initial ring is related (`RingRel`) to EVERY decoder ring
                                     (`catable_init_ring_free`).  NECESSARY: `default_cache_is_position_dependent`.
 3. positions count from the member start → `max_distance = min(position, window)` never reaches before the member:
                                     this is `hist` = the member's own earlier bytes in the chain theorem.
 4. the first two bytes are stored → at the command level they are just the first two bytes of `hist`; their purpose
                                     (the literal CONTEXT of the first two compressed literals would otherwise be the
                                     previous member's last bytes) concerns the entropy coder, not the commands.

Proved: `replay_position_independent` / `lockstep_position_independent` (pure decoder facts),
`catable_block_position_independent` (one `CreateBackwardReferences` call = one meta-block, abstract hasher, ring
relation threaded to the next block), `catable_member_position_independent` (any number of meta-blocks of one member),
`catable_member_from_init` (… started from the encoder's catable initial state: no condition on the decoder's ring at
all), `catable_fast_bits_position_independent` / `catable_trivial_bits_position_independent` (quality 2 / 3: the BITS
`BrotliStoreMetaBlockFast` / `…Trivial` emit are read back to `h' ++ hist ++ mb` by the RFC reader from the foreign state).

`CatableBody` is thereby a theorem at the command level for quality 2–9 and at the bit level for quality 2–3 (same bit
offset).  What remains for C03's 'decodes to the concatenation': the entropy-coding writers of quality 4–9 (their
round trip is C01MetaBlockFull's `wmbi_*`, whose command hypotheses `cmdOK` / `lockstep` / `faithful` are delivered here
for the foreign state — `catable_block_faithful` —, `copy_len() ≥ 2` holds for LZ77 copies but is not exported by the
chain, and whose `prev_byte`s agree with the decoder's only because of item 4; literal context modelling is what item 4
is for), quality 10/11 (Zopfli) and 0/1 (fragment compressors: no distance
cache, no dictionary — not covered by this model), the chain's own `BlockOK` (ring buffer holds the text), one
`CreateBackwardReferences` call per meta-block, NPOSTFIX = NDIRECT = 0, and the WRITER half of re-reading a compressed
meta-block at a different BIT offset (reader half: `compressed_metablock_offset_independent`).
-/
import BV.Lemmas.CatableReplay
import BV.Lemmas.CbrOpen
import BV.Lemmas.ReplayFaithful
import BV.Lemmas.CbrLen2
import BV.Lemmas.CtxPrefix
import BV.Lemmas.ReadShift
import BV.Props.C01MetaBlockFull
import BV.Props.C01Greedy
import BV.Model.Catable
import BV.Props.C01Chain

namespace BV.Props.C03Catable
open BV.Hasher BV.MatchFinder BV.Recoder BV.PrefixArith BV.MetaBlock BV.Cbr BV.Catable BV.Props.C01Chain

/-! ## decoder level -/

/-- **`replay_position_independent`** — pure RFC 7932 fact, no encoder involved.  If a decoder WITHOUT static dictionary,
with history `hist`, ring `ra` and window `window` accepts a command array for the meta-block `mb` and outputs `out`,
then a decoder with ANY foreign prefix `h'` in front of the history, any ring `rb` that shares the non-poisoned entries of
`ra`, any window `window' ≥ window` and ANY static dictionary accepts it too and outputs `h' ++ out`. -/
theorem replay_position_independent (w' : WordOracle) (np nd window window' : Nat) (hw : window ≤ window')
    (mb hist h' : Bytes) (ra rb : List Int) (cmds : List Cmd) (out : Bytes) (hrel : RingRel window ra rb)
    (h : replayCommands noWords np nd window mb ra hist cmds = some out) :
    replayCommands w' np nd window' mb rb (h' ++ hist) cmds = some (h' ++ out) := by
  unfold replayCommands at h ⊢
  cases hd : decSteps noWords np nd window mb ⟨hist, ra, 0⟩ cmds with
  | none => rw [hd] at h; cases h
  | some sa =>
    rw [hd] at h
    simp only [Option.map_some, Option.some.injEq] at h
    obtain ⟨rb', e, _⟩ := decSteps_indep w' np nd window window' hw mb h' cmds ⟨hist, ra, 0⟩ sa rb hrel hd
    rw [e, ← h]
    rfl

/-- **`lockstep_position_independent`** — the writers' `lockstep` hypothesis carries over in the same way -/
theorem lockstep_position_independent (w' : WordOracle) (np nd window window' : Nat) (hw : window ≤ window')
    (mb hist h' : Bytes) (ra rb : List Int) (cmds : List Cmd) (hrel : RingRel window ra rb)
    (h : lockstep noWords np nd window mb ⟨hist, ra, 0⟩ 0 cmds = true) :
    lockstep w' np nd window' mb ⟨h' ++ hist, rb, 0⟩ 0 cmds = true :=
  lockstep_indep w' np nd window window' hw mb h' cmds ⟨hist, ra, 0⟩ rb 0 hrel h

/-! ## the catable initial state -/

theorem catableFlags_eq : catableFlags = ⟨true, true, false⟩ := by decide

/-- the placeholder is poisoned for every window the format allows (`2^lgwin − 16`, lgwin ≤ 30) -/
theorem poison_poisoned (window : Nat) (hw : window ≤ 2 ^ 30) : Poisoned window poison := by
  unfold Poisoned poison
  omega

/-- **`catable_init_ring_free`** — after `ensure_initialized` in catable mode the encoder's distance cache is 16 `i32`s
whose first four entries are related to EVERY four-entry decoder ring: nothing is assumed about what the previous
member left in the decoder's ring. -/
theorem catable_init_ring_free (window : Nat) (hw : window ≤ 2 ^ 30) (rb : List Int) (hl : rb.length = 4) :
    RingRel window ((distCacheAfterInit catableFlags).take 4) rb ∧ CacheI32 (distCacheAfterInit catableFlags) ∧
    4 ≤ (distCacheAfterInit catableFlags).length ∧ savedDistCacheAfterInit catableFlags = (distCacheAfterInit catableFlags).take 4 := by
  have e : distCacheAfterInit catableFlags = List.replicate 16 poison := by decide
  refine ⟨?_, ?_, by rw [e]; decide, by decide⟩
  · rw [e]
    apply RingRel.of_poisoned
    · simp [hl]
    · intro a ha
      have : a = poison := by
        have := List.mem_of_mem_take ha
        exact List.eq_of_mem_replicate this
      rw [this]; exact poison_poisoned window hw
  · rw [e]
    intro x hx
    have : x = poison := List.eq_of_mem_replicate (List.mem_of_mem_take hx)
    rw [this]; unfold poison; omega

/-! ## one meta-block -/

/-- **`catable_block_position_independent`** — one `CreateBackwardReferences` call (quality 2–9 loop, abstract hasher
that returns no static-dictionary hit: `OpsOK (SlotOK noWords)`) over the block `mb` of a member whose earlier bytes
are `hist`, from a distance cache whose first four entries are related to the decoder's ring `ring'`.
For EVERY foreign history `h'`, window `window' ≥ 2^lgwin − 16` and static dictionary `w'`:
every command is `cmdOK`; the decoder in state `⟨h' ++ hist, ring'⟩` runs in `lockstep` with the encoder; it ends with
`h' ++ hist ++ mb`; and its ring `ring''` is again related to the first four entries of the RETURNED cache (an `i32`
list of ≥ 4 entries) — the hypotheses of the next block. -/
theorem catable_block_position_independent {H : Type} (ops : HasherOps H) (p : Params) (large : Bool)
    (data : ByteArray) (k tail : Nat) (hist mb : Bytes) (lo : Nat)
    (hb : BlockOK p large data k tail hist mb lo) (hops : OpsOK (SlotOK noWords) ops p data k)
    (numBytes position : Nat) (h0 : H) (cache : List Int) (lastInsertLen numLiterals : Nat) (res : Result H)
    (hpos : position = hist.length + lastInsertLen) (hmb : mb.length = lastInsertLen + numBytes)
    (hc : CacheI32 cache) (hcl : 4 ≤ cache.length)
    (h : createBackwardReferences ops p numBytes position h0 cache lastInsertLen numLiterals = some res)
    (h' : Bytes) (ring' : List Int) (hrel : RingRel (maxBackwardLimit p) (cache.take 4) ring')
    (w' : WordOracle) (window' : Nat) (hw : maxBackwardLimit p ≤ window') :
    (∀ c ∈ closeMetaBlock res.cmds res.lastInsertLen, cmdOK (distAlphabetSize large 0 0) 0 0 c = true) ∧
    lockstep w' 0 0 window' mb ⟨h' ++ hist, ring', 0⟩ 0 (closeMetaBlock res.cmds res.lastInsertLen) = true ∧
    ∃ ring'', decSteps w' 0 0 window' mb ⟨h' ++ hist, ring', 0⟩ (closeMetaBlock res.cmds res.lastInsertLen)
        = some ⟨h' ++ (hist ++ mb), ring'', mb.length⟩ ∧
      RingRel (maxBackwardLimit p) (res.cache.take 4) ring'' ∧ CacheI32 res.cache ∧ 4 ≤ res.cache.length := by
  obtain ⟨hok, hlock, _⟩ := commands_lockstep ops p large noWords data k tail hist mb lo hb hops numBytes position h0
    cache lastInsertLen numLiterals res hpos hmb hc hcl h
  have h32 : mb.length < 2 ^ 32 := by have := hb.len; omega
  obtain ⟨d', hopen, hout, hcur, hring, hci, hcl', _⟩ := cbr_open (C := ⟨noWords, data, k, hist, mb, lo⟩) hops
    (emitHyp_all ⟨noWords, data, k, hist, mb, lo⟩ p large hb.np hb.nd tail hb.ring hb.tail_le hb.block_le hb.lo_le hb.window
      hb.std hb.dist hb.len)
    numBytes position h0 cache lastInsertLen numLiterals res hpos hmb hb.total hc hcl h
  simp only [hb.np, hb.nd] at hopen
  have hdec := openSteps_dec _ _ _ _ _ _ _ _ hopen
  have hlast : res.lastInsertLen = mb.length - d'.cursor := by simp only at hcur; omega
  have hclose := decSteps_close noWords 0 0 (maxBackwardLimit p) hist mb d' hout (by simp only at hcur; omega) h32
  have hA : decSteps noWords 0 0 (maxBackwardLimit p) mb ⟨hist, cache.take 4, 0⟩
      (closeMetaBlock res.cmds res.lastInsertLen) = some ⟨hist ++ mb, res.cache.take 4, mb.length⟩ := by
    rw [closeMetaBlock_split, decSteps_append _ _ _ _ _ _ _ _ _ hdec, hlast, hclose, hring]
  obtain ⟨ring'', hB, hrel''⟩ := decSteps_indep w' 0 0 (maxBackwardLimit p) window' hw mb h' _ _ _ ring' hrel hA
  refine ⟨hok, ?_, ring'', hB, hrel'', hci, hcl'⟩
  exact lockstep_position_independent w' 0 0 (maxBackwardLimit p) window' hw mb hist h' (cache.take 4) ring' _ hrel hlock

/-- **`catable_block_faithful`** — the remaining command hypothesis of the quality ≥ 4 writer theorems
(`full_metablock_roundtrip`: `faithful`, after every command the decoder's output is history ++ a prefix of the block)
holds in the foreign state too -/
theorem catable_block_faithful {H : Type} (ops : HasherOps H) (p : Params) (large : Bool)
    (data : ByteArray) (k tail : Nat) (hist mb : Bytes) (lo : Nat)
    (hb : BlockOK p large data k tail hist mb lo) (hops : OpsOK (SlotOK noWords) ops p data k)
    (numBytes position : Nat) (h0 : H) (cache : List Int) (lastInsertLen numLiterals : Nat) (res : Result H)
    (hpos : position = hist.length + lastInsertLen) (hmb : mb.length = lastInsertLen + numBytes)
    (hc : CacheI32 cache) (hcl : 4 ≤ cache.length)
    (h : createBackwardReferences ops p numBytes position h0 cache lastInsertLen numLiterals = some res)
    (h' : Bytes) (ring' : List Int) (hrel : RingRel (maxBackwardLimit p) (cache.take 4) ring')
    (w' : WordOracle) (window' : Nat) (hw : maxBackwardLimit p ≤ window') :
    faithful w' 0 0 window' mb (h' ++ hist) ⟨h' ++ hist, ring', 0⟩ (closeMetaBlock res.cmds res.lastInsertLen) := by
  obtain ⟨_, _, ring'', hdec, _⟩ := catable_block_position_independent ops p large data k tail hist mb lo hb hops numBytes
    position h0 cache lastInsertLen numLiterals res hpos hmb hc hcl h h' ring' hrel w' window' hw
  rw [← List.append_assoc] at hdec
  exact faithful_of_final w' 0 0 window' mb (h' ++ hist) _ ⟨h' ++ hist, ring', 0⟩ ring'' (by simp) hdec

/-! ## a whole member -/

/-- one meta-block of a member: the `CreateBackwardReferences` call that produced its commands -/
structure Blk (H : Type) where
  ops : HasherOps H
  data : ByteArray
  k : Nat
  tail : Nat
  lo : Nat
  mb : Bytes
  numBytes : Nat
  position : Nat
  h0 : H
  lastInsertLen : Nat
  numLiterals : Nat
  res : Result H

/-- the blocks of a member, threaded as the encoder threads them: text so far grows by each block, the distance
cache of a call is the cache the previous call returned -/
def BlocksOK {H : Type} (p : Params) (large : Bool) : Bytes → List Int → List (Blk H) → Prop
  | _, _, [] => True
  | hist, cache, b :: bs =>
    BlockOK p large b.data b.k b.tail hist b.mb b.lo ∧ OpsOK (SlotOK noWords) b.ops p b.data b.k ∧
    b.position = hist.length + b.lastInsertLen ∧ b.mb.length = b.lastInsertLen + b.numBytes ∧
    createBackwardReferences b.ops p b.numBytes b.position b.h0 cache b.lastInsertLen b.numLiterals = some b.res ∧
    BlocksOK p large (hist ++ b.mb) b.res.cache bs

/-- RFC decoder over a sequence of meta-blocks (input bytes, command array): output and ring are carried over, every
meta-block must be consumed exactly -/
def replayBlocks (w : WordOracle) (window : Nat) : Bytes → List Int → List (Bytes × List Cmd) → Option (Bytes × List Int)
  | out, ring, [] => some (out, ring)
  | out, ring, (mb, cmds) :: rest =>
    match decSteps w 0 0 window mb ⟨out, ring, 0⟩ cmds with
    | none => none
    | some s => if s.cursor = mb.length then replayBlocks w window s.out s.ring rest else none

/-- **`catable_member_position_independent`** — any number of meta-blocks of one member (each one
`CreateBackwardReferences` call, closed as encode.rs closes it), started from a cache related to the decoder's ring:
behind every foreign history, with every window ≥ the encoder's and every static dictionary, the decoder consumes all
meta-blocks and outputs `h' ++ hist ++ block₁ ++ … ++ blockₙ`. -/
theorem catable_member_position_independent {H : Type} (p : Params) (large : Bool) (w' : WordOracle) (window' : Nat)
    (hw : maxBackwardLimit p ≤ window') (h' : Bytes) :
    ∀ (bs : List (Blk H)) (hist : Bytes) (cache ring' : List Int), BlocksOK p large hist cache bs →
      CacheI32 cache → 4 ≤ cache.length → RingRel (maxBackwardLimit p) (cache.take 4) ring' →
      ∃ ring'', replayBlocks w' window' (h' ++ hist) ring'
          (bs.map fun b => (b.mb, closeMetaBlock b.res.cmds b.res.lastInsertLen))
        = some (h' ++ (hist ++ (bs.map (·.mb)).flatten), ring'') := by
  intro bs
  induction bs with
  | nil => intro hist cache ring' _ _ _ _; exact ⟨ring', by simp [replayBlocks]⟩
  | cons b bs ih =>
    intro hist cache ring' hok hc hcl hrel
    obtain ⟨hb, hops, hpos, hmb, hrun, hrest⟩ := hok
    obtain ⟨_, _, ring1, hdec, hrel1, hc1, hcl1⟩ := catable_block_position_independent b.ops p large b.data b.k b.tail
      hist b.mb b.lo hb hops b.numBytes b.position b.h0 cache b.lastInsertLen b.numLiterals b.res hpos hmb hc hcl hrun
      h' ring' hrel w' window' hw
    obtain ⟨ring2, hrec⟩ := ih (hist ++ b.mb) b.res.cache ring1 hrest hc1 hcl1 hrel1
    refine ⟨ring2, ?_⟩
    simp only [List.map_cons, replayBlocks, hdec, if_true]
    rw [hrec]
    simp [List.append_assoc]

/-- **`catable_member_from_init`** — the member as the encoder really starts it in catable mode: distance cache =
`dist_cache_` after `ensure_initialized` with `BROTLI_PARAM_CATABLE = 1` (all 0x7ffffff0), `hist` = the bytes of the
member that precede the first compressed meta-block (the two stored bytes).  NO condition on the decoder's ring
(beyond having four entries) or history: `CatableBody` at the command level. -/
theorem catable_member_from_init {H : Type} (p : Params) (large : Bool) (hwin : maxBackwardLimit p ≤ 2 ^ 30)
    (bs : List (Blk H)) (hist : Bytes) (hok : BlocksOK p large hist (distCacheAfterInit catableFlags) bs)
    (w' : WordOracle) (window' : Nat) (hw : maxBackwardLimit p ≤ window') (h' : Bytes) (ring' : List Int)
    (hl : ring'.length = 4) :
    ∃ ring'', replayBlocks w' window' (h' ++ hist) ring'
        (bs.map fun b => (b.mb, closeMetaBlock b.res.cmds b.res.lastInsertLen))
      = some (h' ++ (hist ++ (bs.map (·.mb)).flatten), ring'') := by
  obtain ⟨hrel, hc, hcl, _⟩ := catable_init_ring_free (maxBackwardLimit p) hwin ring' hl
  exact catable_member_position_independent p large w' window' hw h' bs hist _ ring' hok hc hcl hrel

/-! ## the three hasher families: the dictionary-off hypothesis is a theorem -/

theorem basic_dictionary_off (P : BasicP) (lbs : Nat) (data : ByteArray) (k : Nat) (hk : k ≤ 32) (p : Params) :
    OpsOK (SlotOK noWords) (basicOps P false lbs (fun _ _ => none) data (2 ^ k - 1)) p data k :=
  basicOps_ok _ P false lbs _ data k hk p (dictFaithful_none noWords data)

theorem adv_dictionary_off (P : AdvP) (hla : 4 ≤ P.lookahead) (numLast lbs : Nat) (data : ByteArray) (k : Nat)
    (hk : k ≤ 32) (p : Params) :
    OpsOK (SlotOK noWords) (advOps P numLast lbs (fun _ _ => none) data (2 ^ k - 1)) p data k :=
  advOps_ok _ P numLast lbs _ data k hk p hla (dictFaithful_none noWords data)

theorem h9_dictionary_off (P : H9P) (lbs : Nat) (data : ByteArray) (k : Nat) (hk : k ≤ 32) (p : Params) :
    OpsOK (SlotOK noWords) (h9Ops P lbs (fun _ _ => none) data (2 ^ k - 1)) p data k :=
  h9Ops_ok _ P lbs _ data k hk p (dictFaithful_none noWords data)

/-! ## quality 2 / 3: position independence of the BITS -/

/-- **`catable_fast_bits_position_independent`** — quality 2.  The bits `BrotliStoreMetaBlockFast` emits for the block
(they are computed from the block and its commands only) are read by the RFC 7932 reader, started behind ANY foreign
history with ANY related ring, window ≥ the encoder's and any static dictionary, to exactly `h' ++ hist ++ mb`. -/
theorem catable_fast_bits_position_independent {H : Type} (ops : HasherOps H) (p : Params) (large : Bool)
    (data : ByteArray) (k tail : Nat) (hist mb : Bytes) (lo : Nat)
    (hb : BlockOK p large data k tail hist mb lo) (hops : OpsOK (SlotOK noWords) ops p data k)
    (numBytes position : Nat) (h0 : H) (cache : List Int) (lastInsertLen numLiterals : Nat) (res : Result H)
    (hpos : position = hist.length + lastInsertLen) (hmb : mb.length = lastInsertLen + numBytes)
    (hc : CacheI32 cache) (hcl : 4 ≤ cache.length)
    (h : createBackwardReferences ops p numBytes position h0 cache lastInsertLen numLiterals = some res)
    (ring : Bytes) (start mask : Nat) (isLast : Bool) (w : List Bool)
    (hR : RingHolds ring mask start mb) (h256 : ∀ b ∈ mb, b < 256) (h1 : 1 ≤ mb.length) (hst : start < 2 ^ 64)
    (hIP : inputPairCheck ring start mb.length mask = .ok ()) :
    ∃ bits, storeMetaBlockFast ring start mb.length mask isLast (distAlphabetSize large 0 0)
        (closeMetaBlock res.cmds res.lastInsertLen) w = .ok (w ++ bits) ∧
      ∀ (h' : Bytes) (ring' : List Int) (_ : RingRel (maxBackwardLimit p) (cache.take 4) ring')
        (w' : WordOracle) (window' : Nat) (_ : maxBackwardLimit p ≤ window'),
        ∃ ring'', ∀ rest, readMetaBlockFull w' window' large w.length ⟨h' ++ hist, ring'⟩ (bits ++ rest)
          = some (⟨h' ++ (hist ++ mb), ring''⟩, isLast, (w ++ bits).length, rest) := by
  obtain ⟨hok, hlockA, _⟩ := catable_block_position_independent ops p large data k tail hist mb lo hb hops numBytes
    position h0 cache lastInsertLen numLiterals res hpos hmb hc hcl h [] (cache.take 4) (RingRel.refl _ _) noWords
    (maxBackwardLimit p) (Nat.le_refl _)
  obtain ⟨bits, _, _, e, _, _, _⟩ := BV.Props.C01MetaBlock.fast_metablock_roundtrip noWords (maxBackwardLimit p) large ring
    start mask mb isLast _ ([] ++ hist) (cache.take 4) w hR h256 h1 hb.len hst hIP hok hlockA
  refine ⟨bits, e, ?_⟩
  intro h' ring' hrel w' window' hw
  obtain ⟨_, hlockB, ring2, hdecB, _⟩ := catable_block_position_independent ops p large data k tail hist mb lo hb hops
    numBytes position h0 cache lastInsertLen numLiterals res hpos hmb hc hcl h h' ring' hrel w' window' hw
  obtain ⟨bits2, out, ring'', e2, hrep, hrd, _⟩ := BV.Props.C01MetaBlock.fast_metablock_roundtrip w' window' large ring
    start mask mb isLast _ (h' ++ hist) ring' w hR h256 h1 hb.len hst hIP hok hlockB
  have hb2 : bits2 = bits := by
    rw [e] at e2
    have := BV.Bits.Out.ok.inj e2
    exact (List.append_cancel_left this).symm
  subst hb2
  have hout : out = h' ++ (hist ++ mb) := by
    unfold replayCommands at hrep
    rw [hdecB] at hrep
    simpa using hrep.symm
  subst hout
  exact ⟨ring'', hrd⟩

/-- **`catable_trivial_bits_position_independent`** — the same for quality 3 (`BrotliStoreMetaBlockTrivial`) -/
theorem catable_trivial_bits_position_independent {H : Type} (ops : HasherOps H) (p : Params) (large : Bool)
    (data : ByteArray) (k tail : Nat) (hist mb : Bytes) (lo : Nat)
    (hb : BlockOK p large data k tail hist mb lo) (hops : OpsOK (SlotOK noWords) ops p data k)
    (numBytes position : Nat) (h0 : H) (cache : List Int) (lastInsertLen numLiterals : Nat) (res : Result H)
    (hpos : position = hist.length + lastInsertLen) (hmb : mb.length = lastInsertLen + numBytes)
    (hc : CacheI32 cache) (hcl : 4 ≤ cache.length)
    (h : createBackwardReferences ops p numBytes position h0 cache lastInsertLen numLiterals = some res)
    (ring : Bytes) (start mask : Nat) (isLast : Bool) (w : List Bool)
    (hR : RingHolds ring mask start mb) (h256 : ∀ b ∈ mb, b < 256) (h1 : 1 ≤ mb.length) (hst : start < 2 ^ 64)
    (hIP : inputPairCheck ring start mb.length mask = .ok ()) :
    ∃ bits, storeMetaBlockTrivial ring start mb.length mask isLast (distAlphabetSize large 0 0)
        (closeMetaBlock res.cmds res.lastInsertLen) w = .ok (w ++ bits) ∧
      ∀ (h' : Bytes) (ring' : List Int) (_ : RingRel (maxBackwardLimit p) (cache.take 4) ring')
        (w' : WordOracle) (window' : Nat) (_ : maxBackwardLimit p ≤ window'),
        ∃ ring'', ∀ rest, readMetaBlockFull w' window' large w.length ⟨h' ++ hist, ring'⟩ (bits ++ rest)
          = some (⟨h' ++ (hist ++ mb), ring''⟩, isLast, (w ++ bits).length, rest) := by
  obtain ⟨hok, hlockA, _⟩ := catable_block_position_independent ops p large data k tail hist mb lo hb hops numBytes
    position h0 cache lastInsertLen numLiterals res hpos hmb hc hcl h [] (cache.take 4) (RingRel.refl _ _) noWords
    (maxBackwardLimit p) (Nat.le_refl _)
  obtain ⟨bits, _, _, e, _, _, _⟩ := BV.Props.C01MetaBlock.trivial_metablock_roundtrip noWords (maxBackwardLimit p) large
    ring start mask mb isLast _ ([] ++ hist) (cache.take 4) w hR h256 h1 hb.len hst hIP hok hlockA
  refine ⟨bits, e, ?_⟩
  intro h' ring' hrel w' window' hw
  obtain ⟨_, hlockB, ring2, hdecB, _⟩ := catable_block_position_independent ops p large data k tail hist mb lo hb hops
    numBytes position h0 cache lastInsertLen numLiterals res hpos hmb hc hcl h h' ring' hrel w' window' hw
  obtain ⟨bits2, out, ring'', e2, hrep, hrd, _⟩ := BV.Props.C01MetaBlock.trivial_metablock_roundtrip w' window' large ring
    start mask mb isLast _ (h' ++ hist) ring' w hR h256 h1 hb.len hst hIP hok hlockB
  have hb2 : bits2 = bits := by
    rw [e] at e2
    have := BV.Bits.Out.ok.inj e2
    exact (List.append_cancel_left this).symm
  subst hb2
  have hout : out = h' ++ (hist ++ mb) := by
    unfold replayCommands at hrep
    rw [hdecB] at hrep
    simpa using hrep.symm
  subst hout
  exact ⟨ring'', hrd⟩

/-! ## quality 4–9: position independence of the BITS of `BrotliStoreMetaBlock` -/

/-- **`catable_copylen2`** — with the dictionary off every copying command copies at least two bytes (the writers'
hypothesis `hcl2`) -/
theorem catable_copylen2 {H : Type} (ops : HasherOps H) (p : Params) (large : Bool)
    (data : ByteArray) (k tail : Nat) (hist mb : Bytes) (lo : Nat)
    (hb : BlockOK p large data k tail hist mb lo) (hops : OpsOK (SlotOK noWords) ops p data k)
    (numBytes position : Nat) (h0 : H) (cache : List Int) (lastInsertLen numLiterals : Nat) (res : Result H)
    (hpos : position = hist.length + lastInsertLen) (hmb : mb.length = lastInsertLen + numBytes)
    (hc : CacheI32 cache) (hcl : 4 ≤ cache.length)
    (h : createBackwardReferences ops p numBytes position h0 cache lastInsertLen numLiterals = some res) :
    ∀ c ∈ closeMetaBlock res.cmds res.lastInsertLen, copyLen c ≠ 0 → 2 ≤ copyLen c :=
  cbr_copylen2 (C := ⟨noWords, data, k, hist, mb, lo⟩) hops
    (emitHyp_all ⟨noWords, data, k, hist, mb, lo⟩ p large hb.np hb.nd tail hb.ring hb.tail_le hb.block_le hb.lo_le hb.window
      hb.std hb.dist hb.len)
    numBytes position h0 cache lastInsertLen numLiterals res hpos hmb hb.total hc hcl h

/-- **`catable_full_bits_position_independent`** — quality 4–9 (`BrotliStoreMetaBlock`, model `storeMetaBlockFull`: block
splits, context maps, literal context modelling).  The block of a catable member whose earlier bytes `hist` are AT LEAST
TWO (the stored prelude: behind it `prev_byte`, `prev_byte2` and every §7.1 context id are the decoder's whatever
precedes the member), searched by `CreateBackwardReferences` with the dictionary off, written with ANY well-formed
`MetaBlockSplit` whose histograms cover the emitted symbols (`MBOK` / `Covers`: for the greedy builder this is
C01Greedy's `greedy_split_wellformed`): the writer does not panic, and the bits it emits are read by the GENERAL RFC 7932
reader, started behind ANY foreign history `h'`, with ANY related ring, window ≥ the encoder's and any static dictionary,
to exactly `h' ++ hist ++ mb`. -/
theorem catable_full_bits_position_independent {H : Type} (ops : HasherOps H) (p : Params) (large : Bool)
    (data : ByteArray) (k tail : Nat) (hist mb : Bytes) (lo : Nat)
    (hb : BlockOK p large data k tail hist mb lo) (hops : OpsOK (SlotOK noWords) ops p data k)
    (numBytes position : Nat) (h0 : H) (cache : List Int) (lastInsertLen numLiterals : Nat) (res : Result H)
    (hpos : position = hist.length + lastInsertLen) (hmb : mb.length = lastInsertLen + numBytes)
    (hc : CacheI32 cache) (hcl : 4 ≤ cache.length)
    (h : createBackwardReferences ops p numBytes position h0 cache lastInsertLen numLiterals = some res)
    (hist2 : 2 ≤ hist.length)
    (ring : Bytes) (start mask prevByte prevByte2 : Nat) (isLast : Bool) (mode : Nat) (mbs : MBSplit) (w : List Bool)
    (hR : RingHolds ring mask start mb) (h256 : ∀ b ∈ mb, b < 256) (hh256 : ∀ b ∈ hist, b < 256)
    (h1 : 1 ≤ mb.length) (h64 : start + mb.length < 2 ^ 64)
    (hIP : inputPairCheck ring start mb.length mask = .ok ())
    (hprev : prevByte = lastB hist ∧ prevByte2 = last2B hist) (hmode : mode < 4)
    (hM : MBOK mbs (distAlphabetSize large 0 0))
    (hcL : Covers mbs.litHistos (effMap mbs.litCmap mbs.litCmapSize mbs.lit.numTypes 64) 64
      (remTypes mbs.lit 0 (mbs.lit.lengths.getD 0 0))
      (litSymsOf mode hist mb 0 (closeMetaBlock res.cmds res.lastInsertLen)))
    (hcI : Covers mbs.cmdHistos (trivialMap mbs.cmd.numTypes 1) 1
      (remTypes mbs.cmd 0 (mbs.cmd.lengths.getD 0 0))
      ((closeMetaBlock res.cmds res.lastInsertLen).map fun c => (0, c.cmdPrefix)))
    (hcD : Covers mbs.distHistos (effMap mbs.distCmap mbs.distCmapSize mbs.dist.numTypes 4) 4
      (remTypes mbs.dist 0 (mbs.dist.lengths.getD 0 0)) (distSymsOf (closeMetaBlock res.cmds res.lastInsertLen))) :
    ∃ bits, storeMetaBlockFull ring start mb.length mask prevByte prevByte2 isLast
        ⟨0, 0, distAlphabetSize large 0 0, large⟩ mode (closeMetaBlock res.cmds res.lastInsertLen) mbs w = .ok (w ++ bits) ∧
      ∀ (h' : Bytes) (_ : ∀ b ∈ h', b < 256) (ring' : List Int) (_ : RingRel (maxBackwardLimit p) (cache.take 4) ring')
        (w' : WordOracle) (window' : Nat) (_ : maxBackwardLimit p ≤ window'),
        ∃ ring'', ∀ rest, readMetaBlockFullG w' window' large w.length ⟨h' ++ hist, ring'⟩ (bits ++ rest)
          = some (⟨h' ++ (hist ++ mb), ring''⟩, isLast, (w ++ bits).length, rest) := by
  have hA544 : distAlphabetSize large 0 0 ≤ 544 := by cases large <;> decide
  have hcl2 := catable_copylen2 ops p large data k tail hist mb lo hb hops numBytes position h0 cache lastInsertLen
    numLiterals res hpos hmb hc hcl h
  -- the member alone
  obtain ⟨hok, hlockA, _⟩ := catable_block_position_independent ops p large data k tail hist mb lo hb hops numBytes
    position h0 cache lastInsertLen numLiterals res hpos hmb hc hcl h [] (cache.take 4) (RingRel.refl _ _) noWords
    (maxBackwardLimit p) (Nat.le_refl _)
  have hfaA := catable_block_faithful ops p large data k tail hist mb lo hb hops numBytes position h0 cache lastInsertLen
    numLiterals res hpos hmb hc hcl h [] (cache.take 4) (RingRel.refl _ _) noWords (maxBackwardLimit p) (Nat.le_refl _)
  obtain ⟨bits, _, _, e, _, _, _⟩ := BV.Props.C01MetaBlockFull.full_metablock_roundtrip noWords (maxBackwardLimit p) ring start
    mask prevByte prevByte2 mb isLast ⟨0, 0, distAlphabetSize large 0 0, large⟩ mode _ mbs ([] ++ hist) (cache.take 4) w hR
    h256 (by simpa using hh256) h1 hb.len h64 hIP (by simpa using hprev) hmode (by show 0 ≤ 3; decide) (by show 0 % 2 ^ 0 = 0; decide) (by show 0 / 2 ^ 0 < 16; decide) rfl hA544
    hok hcl2 hlockA hfaA hM (by simpa using hcL) hcI hcD
  refine ⟨bits, e, ?_⟩
  intro h' hh' ring' hrel w' window' hw
  obtain ⟨_, hlockB, ring2, hdecB, _⟩ := catable_block_position_independent ops p large data k tail hist mb lo hb hops
    numBytes position h0 cache lastInsertLen numLiterals res hpos hmb hc hcl h h' ring' hrel w' window' hw
  have hfaB := catable_block_faithful ops p large data k tail hist mb lo hb hops numBytes position h0 cache lastInsertLen
    numLiterals res hpos hmb hc hcl h h' ring' hrel w' window' hw
  obtain ⟨bits2, out, ring'', e2, hrep, hrd, _⟩ := BV.Props.C01MetaBlockFull.full_metablock_roundtrip w' window' ring start
    mask prevByte prevByte2 mb isLast ⟨0, 0, distAlphabetSize large 0 0, large⟩ mode _ mbs (h' ++ hist) ring' w hR
    h256 (by intro b hb'; rcases List.mem_append.mp hb' with x | x; exact hh' b x; exact hh256 b x) h1 hb.len h64 hIP
    (by rw [lastB_prefix h' hist (by omega), last2B_prefix h' hist hist2]; exact hprev) hmode (by show 0 ≤ 3; decide) (by show 0 % 2 ^ 0 = 0; decide)
    (by show 0 / 2 ^ 0 < 16; decide) rfl hA544 hok hcl2 hlockB hfaB hM (by rw [litSymsOf_prefix mode h' hist mb hist2]; exact hcL) hcI hcD
  have hb2 : bits2 = bits := by
    rw [e] at e2
    have := BV.Bits.Out.ok.inj e2
    exact (List.append_cancel_left this).symm
  subst hb2
  have hout : out = h' ++ (hist ++ mb) := by
    unfold replayCommands at hrep
    rw [hdecB] at hrep
    simpa using hrep.symm
  subst hout
  exact ⟨ring'', hrd⟩

open BV.Greedy in
/-- **`catable_greedy_bits_position_independent`** — the quality 4–9 pipeline with NO hypothesis on the `MetaBlockSplit`:
`CreateBackwardReferences` (dictionary off), `BrotliBuildMetaBlockGreedy` (model `BV.Greedy.buildGreedy`, any float oracle
with `OracleOK`, any static context map with `StaticOK`; w-greedy's `greedy_split_wellformed`), `BrotliStoreMetaBlock`:
neither the builder nor the writer panics, and the emitted bits are read by the general RFC 7932 reader from EVERY
foreign state to `h' ++ hist ++ mb`. -/
theorem catable_greedy_bits_position_independent {H F : Type} (ops : HasherOps H) (fops : FOps F) (hirr : OracleOK fops)
    (p : Params) (large : Bool)
    (data : ByteArray) (k tail : Nat) (hist mb : Bytes) (lo : Nat)
    (hb : BlockOK p large data k tail hist mb lo) (hops : OpsOK (SlotOK noWords) ops p data k)
    (numBytes position : Nat) (h0 : H) (cache : List Int) (lastInsertLen numLiterals : Nat) (res : Result H)
    (hpos : position = hist.length + lastInsertLen) (hmb : mb.length = lastInsertLen + numBytes)
    (hc : CacheI32 cache) (hcl : 4 ≤ cache.length)
    (h : createBackwardReferences ops p numBytes position h0 cache lastInsertLen numLiterals = some res)
    (hist2 : 2 ≤ hist.length)
    (ring : Bytes) (start mask prevByte prevByte2 : Nat) (isLast : Bool) (mode numContexts : Nat) (scm : List Nat)
    (w : List Bool)
    (hR : RingHolds ring mask start mb) (h256 : ∀ b ∈ mb, b < 256) (hh256 : ∀ b ∈ hist, b < 256)
    (h1 : 1 ≤ mb.length) (h64 : start + mb.length < 2 ^ 64)
    (hIP : inputPairCheck ring start mb.length mask = .ok ())
    (hprev : prevByte = lastB hist ∧ prevByte2 = last2B hist) (hmode : mode < 4) (hst : StaticOK numContexts scm)
    (hsz1 : mb.length + 512 ≤ 2 ^ 24) (hsz2 : (closeMetaBlock res.cmds res.lastInsertLen).length + 1024 ≤ 2 ^ 24) :
    ∃ mbs bits,
      buildGreedy fops ring start mask prevByte prevByte2 mode numContexts scm (closeMetaBlock res.cmds res.lastInsertLen)
        = .ok mbs ∧
      storeMetaBlockFull ring start mb.length mask prevByte prevByte2 isLast
        ⟨0, 0, distAlphabetSize large 0 0, large⟩ mode (closeMetaBlock res.cmds res.lastInsertLen) mbs w = .ok (w ++ bits) ∧
      ∀ (h' : Bytes) (_ : ∀ b ∈ h', b < 256) (ring' : List Int) (_ : RingRel (maxBackwardLimit p) (cache.take 4) ring')
        (w' : WordOracle) (window' : Nat) (_ : maxBackwardLimit p ≤ window'),
        ∃ ring'', ∀ rest, readMetaBlockFullG w' window' large w.length ⟨h' ++ hist, ring'⟩ (bits ++ rest)
          = some (⟨h' ++ (hist ++ mb), ring''⟩, isLast, (w ++ bits).length, rest) := by
  have hA544 : distAlphabetSize large 0 0 ≤ 544 := by cases large <;> decide
  have hcl2 := catable_copylen2 ops p large data k tail hist mb lo hb hops numBytes position h0 cache lastInsertLen
    numLiterals res hpos hmb hc hcl h
  obtain ⟨hok, hlockA, _⟩ := catable_block_position_independent ops p large data k tail hist mb lo hb hops numBytes
    position h0 cache lastInsertLen numLiterals res hpos hmb hc hcl h [] (cache.take 4) (RingRel.refl _ _) noWords
    (maxBackwardLimit p) (Nat.le_refl _)
  obtain ⟨mbs, e, hM, hcL, hcI, hcD⟩ := BV.Props.C01Greedy.greedy_split_wellformed fops hirr noWords (maxBackwardLimit p)
    ring start mask prevByte prevByte2 mb ⟨0, 0, distAlphabetSize large 0 0, large⟩ mode numContexts scm _ ([] ++ hist)
    (cache.take 4) hR h256 (by simpa using hh256) h64 (by simpa using hprev) hmode hst hA544 hok hcl2 hlockA hsz1 hsz2
  obtain ⟨bits, e2, hrd⟩ := catable_full_bits_position_independent ops p large data k tail hist mb lo hb hops numBytes
    position h0 cache lastInsertLen numLiterals res hpos hmb hc hcl h hist2 ring start mask prevByte prevByte2 isLast mode mbs
    w hR h256 hh256 h1 h64 hIP hprev hmode hM (by simpa using hcL) hcI hcD
  exact ⟨mbs, bits, e, e2, hrd⟩

/-! ## the concatenator's bit shift -/

/-- **`compressed_metablock_offset_independent`** — READER half of "the concatenator may shift a member's compressed
meta-blocks to any bit offset": bits that begin with the compressed, non-last §9.2 header of a meta-block of `len` bytes
(`headerBits false len`, what `StoreCompressedMetaBlockHeader` writes first) are read at every bit offset `off2` to the
same decoder state, consuming the same number of bits, as at the offset `off` they were written for.  The WRITER half —
that the bits `BrotliStoreMetaBlockFast / Trivial / BrotliStoreMetaBlock` emit begin with that header and do not depend
on what was written before them — holds by construction of the writer models (first statement; every later step
appends) but is internal to the proofs of C01MetaBlock (`fast_core`, `trivial_core`, `full_core` choose such bits) and
not exported; with it, the `catable_*_bits_position_independent` theorems hold at every bit offset. -/
theorem compressed_metablock_offset_independent (w' : WordOracle) (window' : Nat) (large : Bool) (len : Nat)
    (h1 : 1 ≤ len) (h2 : len ≤ 2 ^ 24) (tail : List Bool) (off off2 : Nat) (s s' : RdSt) (rest : List Bool) (n : Nat)
    (h : readMetaBlockFull w' window' large off s (BV.MetaBlock.headerBits false len ++ tail) = some (s', false, off + n, rest)) :
    readMetaBlockFull w' window' large off2 s (BV.MetaBlock.headerBits false len ++ tail) = some (s', false, off2 + n, rest) := by
  have := read_header_prefixed_any_offset w' window' large len h1 h2 tail off off2 s s' rest (off + n) h
  rw [show off + n - off = n by omega] at this
  exact this

/-! ## why each ingredient is needed (counterexamples on the RFC semantics) -/

/-- with the static dictionary ON the promise fails: a command that is a dictionary reference for the member alone
(distance 8 > max_distance = 2 after two bytes: word 5 of length 4) is an ordinary — and wrong — LZ77 copy as
soon as ten foreign bytes precede the member -/
theorem dictionary_reference_is_position_dependent :
    let w : WordOracle := fun len idx tid => if len = 4 ∧ idx = 5 ∧ tid = 0 then some [116, 105, 109, 101] else none
    let cmds : List Cmd := [⟨2, 4, 3, 130, 2066⟩]
    let mb : Bytes := [1, 2, 116, 105, 109, 101]
    replayCommands w 0 0 1008 mb [poison, poison, poison, poison] [] cmds = some mb ∧
    replayCommands w 0 0 1008 mb [poison, poison, poison, poison] [9, 9, 9, 9, 9, 9, 9, 9, 9, 9] cmds
      ≠ some ([9, 9, 9, 9, 9, 9, 9, 9, 9, 9] ++ mb) := by
  decide

/-- with the default distance cache `[4, 11, 15, 16]` the promise fails: a command using distance symbol 0 ("last
distance" = 4 for the member alone) copies from wherever the previous member's last distance points -/
theorem default_cache_is_position_dependent :
    let cmds : List Cmd := [⟨4, 4, 0, 2, 0⟩]
    let mb : Bytes := [1, 2, 3, 4, 1, 2, 3, 4]
    replayCommands noWords 0 0 1008 mb [4, 11, 15, 16] [] cmds = some mb ∧
    replayCommands noWords 0 0 1008 mb [2, 11, 15, 16] [] cmds ≠ some mb := by
  decide

/-! ## non-vacuity -/

/-- a hand-made member with a repeat-last-distance command (symbol 0 AFTER the member's own first copy): accepted
without dictionary from the all-poison ring, hence — by `replay_position_independent` — behind a foreign history, from a
foreign ring, with a larger window and an arbitrary dictionary -/
example : replayCommands (fun _ _ _ => some [7]) 0 0 65520 [1, 2, 3, 1, 2, 3, 9, 2, 3] [5, 6, 7, 8] [42, 43]
    [⟨3, 3, 0, 130, 1041⟩, ⟨1, 2, 0, 64, 0⟩] = some ([42, 43] ++ [1, 2, 3, 1, 2, 3, 9, 2, 3]) := by
  have hA : replayCommands noWords 0 0 1008 [1, 2, 3, 1, 2, 3, 9, 2, 3] [poison, poison, poison, poison] []
      [⟨3, 3, 0, 130, 1041⟩, ⟨1, 2, 0, 64, 0⟩] = some [1, 2, 3, 1, 2, 3, 9, 2, 3] := by decide
  have hrel : RingRel 1008 [poison, poison, poison, poison] [5, 6, 7, 8] :=
    RingRel.of_poisoned _ _ _ rfl (by intro a ha; simp at ha; subst ha; exact poison_poisoned 1008 (by decide))
  have := replay_position_independent (fun _ _ _ => some [7]) 0 0 1008 65520 (by decide) _ [] [42, 43] _ [5, 6, 7, 8] _ _
    hrel hA
  simpa using this

/-- the hypotheses of `catable_member_from_init` are met by a concrete one-block member: `BV.Cbr.Example`'s text
searched with the dictionary off from the all-poison cache; the conclusion holds behind the foreign history `[200, 201]`
and the foreign ring `[1, 2, 1, 2]` -/
example : ∃ (b : Blk (Tab × Common)) (ring'' : List Int),
    b.mb = Example.text ∧
    replayBlocks (fun _ _ _ => some [0]) 65520 ([200, 201] ++ []) [1, 2, 1, 2]
      ([b].map fun b => (b.mb, closeMetaBlock b.res.cmds b.res.lastInsertLen))
      = some ([200, 201] ++ ([] ++ Example.text), ring'') := by
  have hb : BlockOK Example.params false Example.data 6 32 [] Example.text 0 :=
    ⟨rfl, rfl, Example.ring_ok, by decide, by decide, by decide, by decide, fun _ => by decide, fun _ => by decide,
      by decide, by decide⟩
  have hrun : (createBackwardReferences (basicOps Example.hasher false 540 (fun _ _ => none) Example.data (2 ^ 6 - 1))
      Example.params 32 0 (Array.replicate 32 0, ⟨0, 0⟩) (distCacheAfterInit catableFlags) 0 0).isSome = true := by
    decide +kernel
  cases hr : createBackwardReferences (basicOps Example.hasher false 540 (fun _ _ => none) Example.data (2 ^ 6 - 1))
      Example.params 32 0 (Array.replicate 32 0, ⟨0, 0⟩) (distCacheAfterInit catableFlags) 0 0 with
  | none => rw [hr] at hrun; cases hrun
  | some res =>
    let b : Blk (Tab × Common) :=
      ⟨basicOps Example.hasher false 540 (fun _ _ => none) Example.data (2 ^ 6 - 1), Example.data, 6, 32, 0, Example.text,
        32, 0, (Array.replicate 32 0, ⟨0, 0⟩), 0, 0, res⟩
    have hok : BlocksOK Example.params false [] (distCacheAfterInit catableFlags) [b] :=
      ⟨hb, basic_dictionary_off Example.hasher 540 Example.data 6 (by decide) Example.params, rfl,
        (by show Example.text.length = 0 + 32; decide), hr, trivial⟩
    obtain ⟨ring'', h⟩ := catable_member_from_init Example.params false (by decide) [b] [] hok (fun _ _ _ => some [0]) 65520
      (by decide) [200, 201] [1, 2, 1, 2] rfl
    exact ⟨b, ring'', rfl, by simpa using h⟩

end BV.Props.C03Catable
