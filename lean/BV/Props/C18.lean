/-
C18 — Length and distance prefix arithmetic is exact on its whole domain.

Property theorems ONLY (helper lemmas live in BV/Lemmas/PrefixArith.lean).
The executable model is BV/Model/PrefixArith.lean; the tables (`kInsBase`,
`kInsExtra`, `kCopyBase`, `kCopyExtra`, `kBlockLengthPrefixCode`,
`BROTLI_NUM_DISTANCE_SHORT_CODES`) are the generated BV/Gen/Source.lean, i.e.
what /repo's source says *now*: an edited table entry changes the Lean input
and these proofs are re-checked against it.
-/
import BV.Lemmas.PrefixArith

namespace BV.Props.C18
open BV.Gen BV.PrefixArith BV.Lemmas.PrefixArith

/-! ## the generated tables are the RFC 7932 tables -/

theorem ins_table_is_rfc : kInsBase.zip kInsExtra = rfcInsTable := by decide
theorem copy_table_is_rfc : kCopyBase.zip kCopyExtra = rfcCopyTable := by decide
theorem block_len_table_is_rfc : kBlockLengthPrefixCode = rfcBlockLenTable := by decide

/-! ## insert / copy length codes: every representable length lies in the bucket
of the code computed for it (so `length - base` is the extra-bits value and it
fits in `extra` bits) -/

theorem ins_code_exact (n : Nat) (h : n < 22594 + 2 ^ 24) : InsBucket n (getInsertLengthCode n) := by
  by_cases a : n < 6
  · have : getInsertLengthCode n = n := by simp [getInsertLengthCode, a]
    rw [this]
    have : n = 0 ∨ n = 1 ∨ n = 2 ∨ n = 3 ∨ n = 4 ∨ n = 5 := by omega
    rcases this with rfl | rfl | rfl | rfl | rfl | rfl <;> simp [InsBucket, kInsBase, kInsExtra]
  by_cases b : n < 130
  · exact ins_small n (by omega) b
  by_cases c : n < 2114
  · exact ins_mid n (by omega) c
  by_cases d : n < 6210
  · have : getInsertLengthCode n = 21 := by simp [getInsertLengthCode, a, b, c, d]
    rw [this]; simp [InsBucket, kInsBase, kInsExtra]; omega
  by_cases e : n < 22594
  · have : getInsertLengthCode n = 22 := by simp [getInsertLengthCode, a, b, c, d, e]
    rw [this]; simp [InsBucket, kInsBase, kInsExtra]; omega
  · have : getInsertLengthCode n = 23 := by simp [getInsertLengthCode, a, b, c, d, e]
    rw [this]; simp [InsBucket, kInsBase, kInsExtra]; omega



theorem copy_code_exact (n : Nat) (h2 : 2 ≤ n) (h : n < 2118 + 2 ^ 24) :
    CopyBucket n (getCopyLengthCode n) := by
  by_cases a : n < 10
  · have : getCopyLengthCode n = n - 2 := by simp [getCopyLengthCode, a, h2]
    rw [this]
    have : n = 2 ∨ n = 3 ∨ n = 4 ∨ n = 5 ∨ n = 6 ∨ n = 7 ∨ n = 8 ∨ n = 9 := by omega
    rcases this with rfl | rfl | rfl | rfl | rfl | rfl | rfl | rfl <;>
      simp [CopyBucket, kCopyBase, kCopyExtra]
  by_cases b : n < 134
  · exact copy_small n (by omega) b
  by_cases c : n < 2118
  · exact copy_mid n (by omega) c
  · have : getCopyLengthCode n = 23 := by simp [getCopyLengthCode, a, b, c]
    rw [this]; simp [CopyBucket, kCopyBase, kCopyExtra]; omega

/-- non-vacuity: concrete lengths in the top buckets meet the hypotheses -/
example : InsBucket 16777215 (getInsertLengthCode 16777215) := ins_code_exact _ (by decide)
example : CopyBucket 16777216 (getCopyLengthCode 16777216) := copy_code_exact _ (by decide) (by decide)

/-! ## the 704-way insert-and-copy symbol (RFC 7932 section 5) -/
theorem cmd_symbol_exact : ∀ (ins copy : Fin 24) (useLast : Bool),
    combineLengthCodes ins copy useLast < 704 ∧
    rfcCmdDecode (combineLengthCodes ins copy useLast)
      = (ins.val, copy.val, useLast && decide (ins.val < 8) && decide (copy.val < 16)) := by
  decide +kernel

/-- every command symbol is produced by exactly the triple it decodes to (surjectivity onto 0..703) -/
theorem cmd_symbol_onto : ∀ s : Fin 704,
    combineLengthCodes (rfcCmdDecode s).1 (rfcCmdDecode s).2.1 (rfcCmdDecode s).2.2 = s.val := by
  decide +kernel

/-! ## block lengths (RFC 7932 section 6), over the generated 26-row table -/

theorem block_len_exact (len : Nat) (h1 : 1 ≤ len) (h2 : len ≤ 2 ^ 24) :
    blockLengthPrefixCode len < 26 ∧
    blOff (blockLengthPrefixCode len) ≤ len ∧
    len < blOff (blockLengthPrefixCode len) + 2 ^ blBits (blockLengthPrefixCode len) := by
  have key : ∀ start, start ≤ 25 → blOff start ≤ len →
      blockLenWalk len 26 start < 26 ∧ blOff (blockLenWalk len 26 start) ≤ len ∧
      len < blOff (blockLenWalk len 26 start) + 2 ^ blBits (blockLenWalk len 26 start) := by
    intro start hs ho
    obtain ⟨_, b, c, d⟩ := walk_spec len 26 start hs (by omega) ho
    refine ⟨by omega, c, ?_⟩
    rcases d with d | d
    · rw [d]; have : blOff 25 = 16625 := by decide
      have : blBits 25 = 24 := by decide
      simp [*] at *; omega
    · have hlt : blockLenWalk len 26 start < 25 := by
        rcases Nat.lt_or_ge (blockLenWalk len 26 start) 25 with h | h
        · exact h
        · have : blockLenWalk len 26 start = 25 := by omega
          rw [this] at d
          have : blOff (25 + 1) = 0 := by decide
          omega
      have := bl_contiguous ⟨_, hlt⟩
      simp at this
      omega
  have o20 : blOff 20 = 753 := by decide
  have o14 : blOff 14 = 177 := by decide
  have o7 : blOff 7 = 41 := by decide
  have o0 : blOff 0 = 1 := by decide
  unfold blockLengthPrefixCode
  by_cases a : len ≥ 177
  · by_cases b : len ≥ 753
    · simp only [a, b, if_true]; exact key 20 (by omega) (by omega)
    · simp only [a, b, if_true, if_false]; exact key 14 (by omega) (by omega)
  · by_cases b : len ≥ 41
    · simp only [a, b, if_true, if_false]; exact key 7 (by omega) (by omega)
    · simp only [a, b, if_false]; exact key 0 (by omega) (by omega)

example : blockLengthPrefixCode 16777216 = 25 := by decide

/-! ## distance codes (RFC 7932 section 4): for EVERY postfix-bit count, every
number of direct codes and every distance code (no upper bound), the
(symbol, nbits, extra) triple denotes exactly that code -/

theorem dist_encode_exact (p ndirect dc : Nat) (hdc : 16 + ndirect ≤ dc) :
    (prefixEncodeCopyDistance dc ndirect p).nbits
        = rfcDistNBits p ndirect (prefixEncodeCopyDistance dc ndirect p).sym ∧
    1 ≤ (prefixEncodeCopyDistance dc ndirect p).nbits ∧
    (prefixEncodeCopyDistance dc ndirect p).extra < 2 ^ (prefixEncodeCopyDistance dc ndirect p).nbits ∧
    16 + ndirect ≤ (prefixEncodeCopyDistance dc ndirect p).sym ∧
    rfcDistDecode p ndirect (prefixEncodeCopyDistance dc ndirect p).sym
        (prefixEncodeCopyDistance dc ndirect p).extra + 15 = dc := by
  obtain ⟨d, hd⟩ : ∃ d, dc = 16 + ndirect + d := ⟨dc - 16 - ndirect, by omega⟩
  obtain ⟨nb, q, r, hnb, hq, hr, hL, hquot, hrem, hsum⟩ := dist_long_decomp p d
  have hP : 0 < 2 ^ p := Nat.pow_pos (by decide)
  have h16 := short_codes_is_16
  have hd' : dc - 16 - ndirect = d := by omega
  have hnlt : ¬ dc < 16 + ndirect := by omega
  have hpre : q % 2 < 2 := Nat.mod_lt _ (by decide)
  have hq2 : 2 + q % 2 = q := by rcases hq with rfl | rfl <;> rfl
  -- the fields of the model's answer
  have hsym : (prefixEncodeCopyDistance dc ndirect p).sym
      = 16 + ndirect + (2 * (nb - 1) + q % 2) * 2 ^ p + r % 2 ^ p := by
    simp only [prefixEncodeCopyDistance, h16, hnlt, if_false, hd', hL, hquot]
    have : p + nb - p = nb := by omega
    rw [this, ← hrem, mod_pow_of_mod_pow_mul]
  have hnbits : (prefixEncodeCopyDistance dc ndirect p).nbits = nb := by
    simp only [prefixEncodeCopyDistance, h16, hnlt, if_false, hd', hL]
    omega
  have hextra : (prefixEncodeCopyDistance dc ndirect p).extra = r / 2 ^ p := by
    simp only [prefixEncodeCopyDistance, h16, hnlt, if_false, hd', hL, hquot, hq2]
    have := Nat.div_add_mod (2 ^ (p + 2) + d) (2 ^ (p + nb))
    rw [hquot, hrem, Nat.mul_comm] at this
    have : 2 ^ (p + 2) + d - q * 2 ^ (p + nb) = r := by omega
    rw [this]
  rw [hsym, hnbits, hextra]
  have hf : r % 2 ^ p < 2 ^ p := Nat.mod_lt _ hP
  -- s = sym - ndirect - 16
  have hs : 16 + ndirect + (2 * (nb - 1) + q % 2) * 2 ^ p + r % 2 ^ p - ndirect - 16
      = (2 * (nb - 1) + q % 2) * 2 ^ p + r % 2 ^ p := by omega
  have hh : ((2 * (nb - 1) + q % 2) * 2 ^ p + r % 2 ^ p) / 2 ^ p = 2 * (nb - 1) + q % 2 := by
    rw [Nat.mul_comm, Nat.mul_add_div hP, Nat.div_eq_of_lt hf]; rfl
  have hl : ((2 * (nb - 1) + q % 2) * 2 ^ p + r % 2 ^ p) % 2 ^ p = r % 2 ^ p := by
    rw [Nat.mul_comm, Nat.mul_add_mod, Nat.mod_eq_of_lt hf]
  have hnb' : rfcDistNBits p ndirect (16 + ndirect + (2 * (nb - 1) + q % 2) * 2 ^ p + r % 2 ^ p) = nb := by
    unfold rfcDistNBits
    rw [hs, Nat.pow_succ, ← Nat.div_div_eq_div_mul, hh]
    omega
  refine ⟨hnb'.symm, hnb, ?_, by omega, ?_⟩
  · exact (Nat.div_lt_iff_lt_mul hP).mpr (by rw [Nat.mul_comm]; exact hr)
  · unfold rfcDistDecode
    have : ¬ (16 + ndirect + (2 * (nb - 1) + q % 2) * 2 ^ p + r % 2 ^ p < 16 + ndirect) := by omega
    simp only [this, if_false, hnb', hs, hh, hl]
    have h1 : (2 * (nb - 1) + q % 2) % 2 = q % 2 := by omega
    rw [h1]
    have hN : 2 ≤ 2 ^ nb := by
      have : 2 ^ 1 ≤ 2 ^ nb := Nat.pow_le_pow_right (by decide) hnb
      simpa using this
    have := dist_core (2 ^ p) (2 ^ nb) q r d hP hN hq hsum
    omega

/-- short and direct distance codes are emitted as themselves, without extra bits -/
theorem dist_direct_exact (p ndirect dc : Nat) (h : dc < 16 + ndirect) :
    prefixEncodeCopyDistance dc ndirect p = ⟨dc, 0, 0⟩ ∧
    (16 ≤ dc → rfcDistDecode p ndirect dc 0 + 15 = dc) := by
  constructor
  · simp [prefixEncodeCopyDistance, short_codes_is_16, h]
  · intro h16; simp [rfcDistDecode, h]; omega

/-- the symbol is inside the distance alphabet `16 + ndirect + (maxnbits << (npostfix+1))`
whenever the distance needs at most `maxnbits` extra bits -/
theorem dist_symbol_lt_alphabet (p ndirect dc : Nat) (hdc : 16 + ndirect ≤ dc) (mb : Nat)
    (hnb : (prefixEncodeCopyDistance dc ndirect p).nbits ≤ mb) :
    (prefixEncodeCopyDistance dc ndirect p).sym < 16 + ndirect + mb * 2 ^ (p + 1) := by
  obtain ⟨h1, h2, _, h4, _⟩ := dist_encode_exact p ndirect dc hdc
  rw [h1] at hnb h2
  unfold rfcDistNBits at hnb h2
  have hp : 0 < 2 ^ (p + 1) := Nat.pow_pos (by decide)
  have : ((prefixEncodeCopyDistance dc ndirect p).sym - ndirect - 16) / 2 ^ (p + 1) < mb := by omega
  have := (Nat.div_lt_iff_lt_mul hp).mp this
  omega

example : (prefixEncodeCopyDistance 67108864 12 2) = ⟨200, 22, 4194301⟩ := by decide
example : rfcDistDecode 2 12 200 4194301 + 15 = 67108864 := by decide

/-! ## recovering the distance code from the stored command fields -/

theorem dist_nbits_le (p nd dc : Nat) (hdc : dc < 2 ^ 31) (hp : p ≤ 3) :
    (prefixEncodeCopyDistance dc nd p).nbits ≤ 30 := by
  unfold prefixEncodeCopyDistance
  split
  · simp
  · simp only [short_codes_is_16]
    have hpw : 2 ^ (p + 2) ≤ 2 ^ 5 := Nat.pow_le_pow_right (by decide) (by omega)
    have hlt : 2 ^ (p + 2) + (dc - 16 - nd) < 2 ^ 32 := by
      have : (2:Nat) ^ 5 = 32 := by decide
      have : (2:Nat) ^ 31 = 2147483648 := by decide
      have : (2:Nat) ^ 32 = 4294967296 := by decide
      omega
    have hne : 2 ^ (p + 2) + (dc - 16 - nd) ≠ 0 := by
      have : 0 < 2 ^ (p + 2) := Nat.pow_pos (by decide)
      omega
    have := (Nat.log2_lt hne).mpr hlt
    unfold log2Floor
    omega

/-- Recovering a distance code from a stored command returns the code it was built from:
for every postfix-bit count, every number of direct codes the format allows and every
distance code below 2^31 (the encoder's distances are below 2^31: `BROTLI_MAX_ALLOWED_DISTANCE`
= 0x7fffffc), including the u16 / u32 packing of `dist_prefix_` / `dist_extra_`. -/
theorem restore_inverts_encode (p nd dc : Nat) (hp : p ≤ 3) (hnd : nd ≤ 120) (hdc : dc < 2 ^ 31) :
    restoreDistanceCode (prefixEncodeCopyDistance dc nd p).packed
      (prefixEncodeCopyDistance dc nd p).extra32 nd p = dc := by
  by_cases hs : dc < 16 + nd
  · have := (dist_direct_exact p nd dc hs).1
    rw [this]
    simp only [DistCode.packed, DistCode.extra32]
    have h1 : (0 * 1024 ||| dc) % 65536 = dc := by simp; omega
    rw [h1]
    unfold restoreDistanceCode
    have : dc % 1024 = dc := by omega
    simp [short_codes_is_16, this, hs]
  · have hge : 16 + nd ≤ dc := by omega
    obtain ⟨e1, e2, e3, e4, e5⟩ := dist_encode_exact p nd dc hge
    have hnb := dist_nbits_le p nd dc hdc hp
    have hsym := dist_symbol_lt_alphabet p nd dc hge 30 hnb
    have hpw : 2 ^ (p + 1) ≤ 2 ^ 4 := Nat.pow_le_pow_right (by decide) (by omega)
    have h16 : (2:Nat) ^ 4 = 16 := by decide
    have hsym' : (prefixEncodeCopyDistance dc nd p).sym < 1024 := by
      have : 30 * 2 ^ (p + 1) ≤ 30 * 16 := by omega
      omega
    have hpow : 2 ^ (prefixEncodeCopyDistance dc nd p).nbits ≤ 2 ^ 30 := Nat.pow_le_pow_right (by decide) hnb
    have h30 : (2:Nat) ^ 30 = 1073741824 := by decide
    have h32 : (2:Nat) ^ 32 = 4294967296 := by decide
    have h31 : (2:Nat) ^ 31 = 2147483648 := by decide
    simp only [DistCode.packed, DistCode.extra32]
    rw [restore_eq_rfc p nd _ _ _ e4 hsym' (by omega) e1 e2 (by omega) ?_ (by omega)]
    · exact e5
    · have hm : (2 + ((prefixEncodeCopyDistance dc nd p).sym - nd - 16) / 2 ^ p % 2) ≤ 3 := by omega
      have := Nat.mul_le_mul hm hpow
      omega

/-! ## MLEN and variable-length uint8 fields -/

/-- `BrotliEncodeMlen`: for every meta-block length 1..2^24 the (MNIBBLES, MLEN-1) fields
read back (RFC 7932 section 9.2) to that length: MNIBBLES ∈ {4,5,6}, the value fits in
4·MNIBBLES bits, and the encoding is minimal (the RFC rejects a zero top nibble when
MNIBBLES > 4). -/
theorem mlen_exact (length : Nat) (h1 : 1 ≤ length) (h2 : length ≤ 2 ^ 24) :
    (encodeMlen length).1 + 1 = length ∧
    (encodeMlen length).2.1 = 4 * ((encodeMlen length).2.2 + 4) ∧
    (encodeMlen length).2.2 ≤ 2 ∧
    (encodeMlen length).1 < 2 ^ (encodeMlen length).2.1 ∧
    (0 < (encodeMlen length).2.2 → 2 ^ (4 * ((encodeMlen length).2.2 + 3)) ≤ (encodeMlen length).1) := by
  have p15 : (2:Nat) ^ 15 = 32768 := by decide
  have p16 : (2:Nat) ^ 16 = 65536 := by decide
  have p20 : (2:Nat) ^ 20 = 1048576 := by decide
  have p24 : (2:Nat) ^ 24 = 16777216 := by decide
  by_cases hone : length = 1
  · subst hone; decide
  have hne : length - 1 ≠ 0 := by omega
  -- the number of nibbles, by range of length-1
  have key : ∀ mn, (mn = (if log2Floor (length - 1) + 1 < 16 then 16 else log2Floor (length - 1) + 1 + 3) / 4) →
      encodeMlen length = (length - 1, mn * 4, mn - 4) := by
    intro mn h; unfold encodeMlen; simp [hone, h]
  by_cases a : length - 1 < 2 ^ 16
  · have hk : log2Floor (length - 1) < 16 := (Nat.log2_lt hne).mpr a
    have := key 4 (by split <;> omega)
    rw [this]; simp; omega
  by_cases b : length - 1 < 2 ^ 20
  · have hk : log2Floor (length - 1) < 20 := (Nat.log2_lt hne).mpr b
    have hk2 : 16 ≤ log2Floor (length - 1) := (Nat.le_log2 hne).mpr (by omega)
    have := key 5 (by split <;> omega)
    rw [this]; simp; omega
  · have hk : log2Floor (length - 1) < 24 := (Nat.log2_lt hne).mpr (by omega)
    have hk2 : 20 ≤ log2Floor (length - 1) := (Nat.le_log2 hne).mpr (by omega)
    have := key 6 (by split <;> omega)
    rw [this]; simp; omega

/-- `StoreVarLenUint8`: for every n < 256 the emitted fields read back (RFC 7932 section 9.2,
NBLTYPES-style "1 + variable length" without the +1) to n. -/
theorem varlen_uint8_exact (n : Nat) (h : n < 256) :
    (n = 0 → storeVarLenUint8 n = [(1, 0)]) ∧
    (0 < n → ∃ nb e, storeVarLenUint8 n = [(1, 1), (3, nb), (nb, e)] ∧ nb < 8 ∧ e < 2 ^ nb ∧ 2 ^ nb + e = n) := by
  constructor
  · intro h0; simp [storeVarLenUint8, h0]
  · intro hpos
    have hne : n ≠ 0 := by omega
    obtain ⟨hlo, hhi⟩ := log2_bounds n hne
    refine ⟨log2Floor n, n - 2 ^ log2Floor n, by simp [storeVarLenUint8, hne], ?_, ?_, by omega⟩
    · have : (2:Nat) ^ 8 = 256 := by decide
      exact (Nat.log2_lt hne).mpr (by omega)
    · rw [Nat.pow_succ] at hhi; omega

example : storeVarLenUint8 255 = [(1, 1), (3, 7), (7, 127)] := by decide
example : encodeMlen 16777216 = (16777215, 24, 2) := by decide
example : encodeMlen 65536 = (65535, 16, 0) := by decide
example : encodeMlen 65537 = (65536, 20, 1) := by decide

end BV.Props.C18
