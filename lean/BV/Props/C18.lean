/-
C18 — Length and distance prefix arithmetic is exact on its whole domain.

Property theorems ONLY (helper lemmas live in BV/Lemmas/PrefixArith.lean).
The executable model is BV/Model/PrefixArith.lean; the tables (`kInsBase`,
`kInsExtra`, `kCopyBase`, `kCopyExtra`, `kBlockLengthPrefixCode`,
`BROTLI_NUM_DISTANCE_SHORT_CODES`) are the generated BV/Gen/Source.lean, i.e.
what /repo's source says *now*: an edited table entry changes the Lean input
and these proofs are re-checked against it.
-/
import BV.Lemmas.PrefixArith

namespace BV.Props.C18
open BV.Gen BV.PrefixArith BV.Lemmas.PrefixArith

/-! ## the generated tables are the RFC 7932 tables -/

theorem ins_table_is_rfc : kInsBase.zip kInsExtra = rfcInsTable := by decide
theorem copy_table_is_rfc : kCopyBase.zip kCopyExtra = rfcCopyTable := by decide
theorem block_len_table_is_rfc : kBlockLengthPrefixCode = rfcBlockLenTable := by decide

/-! ## insert / copy length codes: every representable length lies in the bucket
of the code computed for it (so `length - base` is the extra-bits value and it
fits in `extra` bits) -/

theorem ins_code_exact (n : Nat) (h : n < 22594 + 2 ^ 24) : InsBucket n (getInsertLengthCode n) := by
  by_cases a : n < 6
  · have : getInsertLengthCode n = n := by simp [getInsertLengthCode, a]
    rw [this]
    have : n = 0 ∨ n = 1 ∨ n = 2 ∨ n = 3 ∨ n = 4 ∨ n = 5 := by omega
    rcases this with rfl | rfl | rfl | rfl | rfl | rfl <;> simp [InsBucket, kInsBase, kInsExtra]
  by_cases b : n < 130
  · exact ins_small n (by omega) b
  by_cases c : n < 2114
  · exact ins_mid n (by omega) c
  by_cases d : n < 6210
  · have : getInsertLengthCode n = 21 := by simp [getInsertLengthCode, a, b, c, d]
    rw [this]; simp [InsBucket, kInsBase, kInsExtra]; omega
  by_cases e : n < 22594
  · have : getInsertLengthCode n = 22 := by simp [getInsertLengthCode, a, b, c, d, e]
    rw [this]; simp [InsBucket, kInsBase, kInsExtra]; omega
  · have : getInsertLengthCode n = 23 := by simp [getInsertLengthCode, a, b, c, d, e]
    rw [this]; simp [InsBucket, kInsBase, kInsExtra]; omega



theorem copy_code_exact (n : Nat) (h2 : 2 ≤ n) (h : n < 2118 + 2 ^ 24) :
    CopyBucket n (getCopyLengthCode n) := by
  by_cases a : n < 10
  · have : getCopyLengthCode n = n - 2 := by simp [getCopyLengthCode, a, h2]
    rw [this]
    have : n = 2 ∨ n = 3 ∨ n = 4 ∨ n = 5 ∨ n = 6 ∨ n = 7 ∨ n = 8 ∨ n = 9 := by omega
    rcases this with rfl | rfl | rfl | rfl | rfl | rfl | rfl | rfl <;>
      simp [CopyBucket, kCopyBase, kCopyExtra]
  by_cases b : n < 134
  · exact copy_small n (by omega) b
  by_cases c : n < 2118
  · exact copy_mid n (by omega) c
  · have : getCopyLengthCode n = 23 := by simp [getCopyLengthCode, a, b, c]
    rw [this]; simp [CopyBucket, kCopyBase, kCopyExtra]; omega

/-- non-vacuity: concrete lengths in the top buckets meet the hypotheses -/
example : InsBucket 16777215 (getInsertLengthCode 16777215) := ins_code_exact _ (by decide)
example : CopyBucket 16777216 (getCopyLengthCode 16777216) := copy_code_exact _ (by decide) (by decide)

/-! ## the 704-way insert-and-copy symbol (RFC 7932 section 5) -/
theorem cmd_symbol_exact : ∀ (ins copy : Fin 24) (useLast : Bool),
    combineLengthCodes ins copy useLast < 704 ∧
    rfcCmdDecode (combineLengthCodes ins copy useLast)
      = (ins.val, copy.val, useLast && decide (ins.val < 8) && decide (copy.val < 16)) := by
  decide +kernel

/-- every command symbol is produced by exactly the triple it decodes to (surjectivity onto 0..703) -/
theorem cmd_symbol_onto : ∀ s : Fin 704,
    combineLengthCodes (rfcCmdDecode s).1 (rfcCmdDecode s).2.1 (rfcCmdDecode s).2.2 = s.val := by
  decide +kernel

/-! ## block lengths (RFC 7932 section 6), over the generated 26-row table -/

theorem block_len_exact (len : Nat) (h1 : 1 ≤ len) (h2 : len ≤ 2 ^ 24) :
    blockLengthPrefixCode len < 26 ∧
    blOff (blockLengthPrefixCode len) ≤ len ∧
    len < blOff (blockLengthPrefixCode len) + 2 ^ blBits (blockLengthPrefixCode len) := by
  have key : ∀ start, start ≤ 25 → blOff start ≤ len →
      blockLenWalk len 26 start < 26 ∧ blOff (blockLenWalk len 26 start) ≤ len ∧
      len < blOff (blockLenWalk len 26 start) + 2 ^ blBits (blockLenWalk len 26 start) := by
    intro start hs ho
    obtain ⟨_, b, c, d⟩ := walk_spec len 26 start hs (by omega) ho
    refine ⟨by omega, c, ?_⟩
    rcases d with d | d
    · rw [d]; have : blOff 25 = 16625 := by decide
      have : blBits 25 = 24 := by decide
      simp [*] at *; omega
    · have hlt : blockLenWalk len 26 start < 25 := by
        rcases Nat.lt_or_ge (blockLenWalk len 26 start) 25 with h | h
        · exact h
        · have : blockLenWalk len 26 start = 25 := by omega
          rw [this] at d
          have : blOff (25 + 1) = 0 := by decide
          omega
      have := bl_contiguous ⟨_, hlt⟩
      simp at this
      omega
  have o20 : blOff 20 = 753 := by decide
  have o14 : blOff 14 = 177 := by decide
  have o7 : blOff 7 = 41 := by decide
  have o0 : blOff 0 = 1 := by decide
  unfold blockLengthPrefixCode
  by_cases a : len ≥ 177
  · by_cases b : len ≥ 753
    · simp only [a, b, if_true]; exact key 20 (by omega) (by omega)
    · simp only [a, b, if_true, if_false]; exact key 14 (by omega) (by omega)
  · by_cases b : len ≥ 41
    · simp only [a, b, if_true, if_false]; exact key 7 (by omega) (by omega)
    · simp only [a, b, if_false]; exact key 0 (by omega) (by omega)

example : blockLengthPrefixCode 16777216 = 25 := by decide

/-! ## distance codes (RFC 7932 section 4): for EVERY postfix-bit count, every
number of direct codes and every distance code (no upper bound), the
(symbol, nbits, extra) triple denotes exactly that code -/

theorem dist_encode_exact (p ndirect dc : Nat) (hdc : 16 + ndirect ≤ dc) :
    (prefixEncodeCopyDistance dc ndirect p).nbits
        = rfcDistNBits p ndirect (prefixEncodeCopyDistance dc ndirect p).sym ∧
    1 ≤ (prefixEncodeCopyDistance dc ndirect p).nbits ∧
    (prefixEncodeCopyDistance dc ndirect p).extra < 2 ^ (prefixEncodeCopyDistance dc ndirect p).nbits ∧
    16 + ndirect ≤ (prefixEncodeCopyDistance dc ndirect p).sym ∧
    rfcDistDecode p ndirect (prefixEncodeCopyDistance dc ndirect p).sym
        (prefixEncodeCopyDistance dc ndirect p).extra + 15 = dc := by
  obtain ⟨d, hd⟩ : ∃ d, dc = 16 + ndirect + d := ⟨dc - 16 - ndirect, by omega⟩
  obtain ⟨nb, q, r, hnb, hq, hr, hL, hquot, hrem, hsum⟩ := dist_long_decomp p d
  have hP : 0 < 2 ^ p := Nat.pow_pos (by decide)
  have h16 := short_codes_is_16
  have hd' : dc - 16 - ndirect = d := by omega
  have hnlt : ¬ dc < 16 + ndirect := by omega
  have hpre : q % 2 < 2 := Nat.mod_lt _ (by decide)
  have hq2 : 2 + q % 2 = q := by rcases hq with rfl | rfl <;> rfl
  -- the fields of the model's answer
  have hsym : (prefixEncodeCopyDistance dc ndirect p).sym
      = 16 + ndirect + (2 * (nb - 1) + q % 2) * 2 ^ p + r % 2 ^ p := by
    simp only [prefixEncodeCopyDistance, h16, hnlt, if_false, hd', hL, hquot]
    have : p + nb - p = nb := by omega
    rw [this, ← hrem, mod_pow_of_mod_pow_mul]
  have hnbits : (prefixEncodeCopyDistance dc ndirect p).nbits = nb := by
    simp only [prefixEncodeCopyDistance, h16, hnlt, if_false, hd', hL]
    omega
  have hextra : (prefixEncodeCopyDistance dc ndirect p).extra = r / 2 ^ p := by
    simp only [prefixEncodeCopyDistance, h16, hnlt, if_false, hd', hL, hquot, hq2]
    have := Nat.div_add_mod (2 ^ (p + 2) + d) (2 ^ (p + nb))
    rw [hquot, hrem, Nat.mul_comm] at this
    have : 2 ^ (p + 2) + d - q * 2 ^ (p + nb) = r := by omega
    rw [this]
  rw [hsym, hnbits, hextra]
  have hf : r % 2 ^ p < 2 ^ p := Nat.mod_lt _ hP
  -- s = sym - ndirect - 16
  have hs : 16 + ndirect + (2 * (nb - 1) + q % 2) * 2 ^ p + r % 2 ^ p - ndirect - 16
      = (2 * (nb - 1) + q % 2) * 2 ^ p + r % 2 ^ p := by omega
  have hh : ((2 * (nb - 1) + q % 2) * 2 ^ p + r % 2 ^ p) / 2 ^ p = 2 * (nb - 1) + q % 2 := by
    rw [Nat.mul_comm, Nat.mul_add_div hP, Nat.div_eq_of_lt hf]; rfl
  have hl : ((2 * (nb - 1) + q % 2) * 2 ^ p + r % 2 ^ p) % 2 ^ p = r % 2 ^ p := by
    rw [Nat.mul_comm, Nat.mul_add_mod, Nat.mod_eq_of_lt hf]
  have hnb' : rfcDistNBits p ndirect (16 + ndirect + (2 * (nb - 1) + q % 2) * 2 ^ p + r % 2 ^ p) = nb := by
    unfold rfcDistNBits
    rw [hs, Nat.pow_succ, ← Nat.div_div_eq_div_mul, hh]
    omega
  refine ⟨hnb'.symm, hnb, ?_, by omega, ?_⟩
  · exact (Nat.div_lt_iff_lt_mul hP).mpr (by rw [Nat.mul_comm]; exact hr)
  · unfold rfcDistDecode
    have : ¬ (16 + ndirect + (2 * (nb - 1) + q % 2) * 2 ^ p + r % 2 ^ p < 16 + ndirect) := by omega
    simp only [this, if_false, hnb', hs, hh, hl]
    have h1 : (2 * (nb - 1) + q % 2) % 2 = q % 2 := by omega
    rw [h1]
    have hN : 2 ≤ 2 ^ nb := by
      have : 2 ^ 1 ≤ 2 ^ nb := Nat.pow_le_pow_right (by decide) hnb
      simpa using this
    have := dist_core (2 ^ p) (2 ^ nb) q r d hP hN hq hsum
    omega

/-- short and direct distance codes are emitted as themselves, without extra bits -/
theorem dist_direct_exact (p ndirect dc : Nat) (h : dc < 16 + ndirect) :
    prefixEncodeCopyDistance dc ndirect p = ⟨dc, 0, 0⟩ ∧
    (16 ≤ dc → rfcDistDecode p ndirect dc 0 + 15 = dc) := by
  constructor
  · simp [prefixEncodeCopyDistance, short_codes_is_16, h]
  · intro h16; simp [rfcDistDecode, h]; omega

/-- the symbol is inside the distance alphabet `16 + ndirect + (maxnbits << (npostfix+1))`
whenever the distance needs at most `maxnbits` extra bits -/
theorem dist_symbol_lt_alphabet (p ndirect dc : Nat) (hdc : 16 + ndirect ≤ dc) (mb : Nat)
    (hnb : (prefixEncodeCopyDistance dc ndirect p).nbits ≤ mb) :
    (prefixEncodeCopyDistance dc ndirect p).sym < 16 + ndirect + mb * 2 ^ (p + 1) := by
  obtain ⟨h1, h2, _, h4, _⟩ := dist_encode_exact p ndirect dc hdc
  rw [h1] at hnb h2
  unfold rfcDistNBits at hnb h2
  have hp : 0 < 2 ^ (p + 1) := Nat.pow_pos (by decide)
  have : ((prefixEncodeCopyDistance dc ndirect p).sym - ndirect - 16) / 2 ^ (p + 1) < mb := by omega
  have := (Nat.div_lt_iff_lt_mul hp).mp this
  omega

example : (prefixEncodeCopyDistance 67108864 12 2) = ⟨200, 22, 4194301⟩ := by decide
example : rfcDistDecode 2 12 200 4194301 + 15 = 67108864 := by decide

end BV.Props.C18
