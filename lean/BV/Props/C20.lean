import BV.Lemmas.StreamTerm5
/-
C20 — Streaming state machine honours its call contract.

Model: `BV/Model/Stream.lean` (mirrors `src/enc/encode.rs`: `set_parameter`,
`ensure_initialized`, `compress_stream`, `compress_stream_fast`, `process_metadata`,
`take_output`, … ; the payload encoder is an arbitrary oracle `o : Nat → Req → Ans` — NO
hypothesis about it is used in this file).  Spec side: the 6-state automaton `CState` /
`Contract.accepts` / `Contract.succ` of `BV/Lemmas/StreamContract.lean`, written from the
documented contract (c/brotli/encode.h), and the abstraction `absC`.

`Inv` is the state invariant (established by `ensure_initialized` on any fresh encoder, preserved
by every call: part of each theorem's conclusion).  `s.inputPos + input.length < 2^64` says the
stream is shorter than 2^64 bytes.
-/
namespace BV.Props.C20
open BV.Stream BV.Bits

/-! ### parameters -/

/-- the parameter table of the documented interface: ids `set_parameter` accepts (with the
value restriction of DISABLE_LITERAL_CONTEXT_MODELING) — spec side, written from
`BrotliEncoderParameter` -/
def paramAccepted (id v : Nat) : Bool :=
  (id ∈ [0, 1, 2, 3, 5, 6, 150, 151, 152, 153, 154, 155, 156, 157, 158, 159, 160, 161, 162, 164, 165, 166, 167, 168, 169, 171])
  || (id == 4 && (v == 0 || v == 1))

theorem setParamRaw_table (p : Params) (id v : Nat) : (setParamRaw p id v).isSome = paramAccepted id v := by
  unfold setParamRaw
  split <;> simp_all [paramAccepted]
  · split <;> simp_all
    rename_i h
    by_cases hv : v = 0
    · exact Or.inl hv
    · exact Or.inr (h hv)

/-- before first use `set_parameter` answers per the parameter table -/
theorem set_parameter_table (s : St) (h : s.isInitialized = false) (id v : Nat) :
    (setParameter s id v).2 = paramAccepted id v := by
  unfold setParameter
  rw [h, ← setParamRaw_table s.params id v]
  simp only [Bool.false_eq_true, ↓reduceIte]
  cases setParamRaw s.params id v <;> rfl

/-- **params_frozen** (1): after first use every `set_parameter` is refused and changes nothing -/
theorem params_frozen (s : St) (h : s.isInitialized = true) (id v : Nat) :
    setParameter s id v = (s, false) := by
  simp [setParameter, h]

/-- **params_frozen** (2): any `compress_stream` call — accepted or refused — is a "first use" -/
theorem first_use_freezes {o : Oracle} {fuel op cap : Nat} {input : Bytes} {s s' : St} {io' : Io} {r : Bool}
    (hop : op ≤ 3) (hf : IsFresh s) (hw : input.length < two64)
    (h : compressStream o fuel s op input cap = .ok (s', io', r)) :
    s'.isInitialized = true := by
  rw [compressStream_ensure] at h
  obtain ⟨hI, _, _⟩ := inv_fresh hf
  have hip : (ensureInitialized s).inputPos = 0 := by
    obtain ⟨p, rfl⟩ := hf
    simp [ensureInitialized, St.new]
  cases r
  · rcases (refused_unchanged hop hI (by rw [hip]; simpa using hw) h).1 with rfl | rfl
    · exact hI.init
    · exact (inv_updateSizeHint hI 0).init
  · exact ((compressStream_refines hop hI (by rw [hip]; simpa using hw) h).2 rfl).1.init

/-! ### refinement -/

/-- **stream_refines_contract**: in every state satisfying the invariant, `compress_stream`
returns `true` exactly when the contract automaton accepts the call, and then the abstract
state moves along a contract transition with the reported number of consumed bytes; the
invariant holds again. -/
theorem stream_refines_contract {o : Oracle} {fuel op cap : Nat} {input : Bytes} {s s' : St} {io' : Io} {r : Bool}
    (hop : op ≤ 3) (hI : Inv s) (hw : s.inputPos + input.length < two64)
    (h : compressStream o fuel s op input cap = .ok (s', io', r)) :
    r = Contract.accepts (absC s) op input.length ∧
    (r = true → Inv s' ∧ io'.availIn ≤ input.length ∧
      Contract.succ (absC s) op input.length (input.length - io'.availIn) (absC s')) :=
  compressStream_refines hop hI hw h

/-- the same for the first call on a fresh encoder (`Fresh` behaves like `Processing`) -/
theorem stream_refines_contract_fresh {o : Oracle} {fuel op cap : Nat} {input : Bytes} {s s' : St} {io' : Io} {r : Bool}
    (hop : op ≤ 3) (hf : IsFresh s) (hw : input.length < two64)
    (h : compressStream o fuel s op input cap = .ok (s', io', r)) :
    r = Contract.accepts (absC s) op input.length ∧
    (r = true → Inv s' ∧ io'.availIn ≤ input.length ∧
      Contract.succ (absC s) op input.length (input.length - io'.availIn) (absC s')) := by
  rw [compressStream_ensure] at h
  obtain ⟨hI, hproc, hfr⟩ := inv_fresh hf
  have hip : (ensureInitialized s).inputPos = 0 := by
    obtain ⟨p, rfl⟩ := hf
    simp [ensureInitialized, St.new]
  have := compressStream_refines hop hI (by rw [hip]; simpa using hw) h
  rw [hproc] at this
  rw [hfr]
  exact this

/-- `take_output` refines the contract: it can only complete a flush / a finish -/
theorem take_output_refines {s s' : St} {size : Nat} {out : Bytes} (hI : Inv s)
    (h : takeOutput s size = .ok (s', out)) :
    Inv s' ∧ s.pending = out ++ s'.pending ∧
    (absC s' = absC s ∨ (absC s = .flushing ∧ absC s' = .processing) ∨ (absC s = .finishing ∧ absC s' = .finished)) := by
  obtain ⟨hI', hp, hrm, hst⟩ := takeOutput_spec hI h
  refine ⟨hI', hp, ?_⟩
  by_cases hm : s.remainingMetadata = u32Max
  · have hm' : s'.remainingMetadata = u32Max := hrm.trans hm
    have hlen : s.pending.length = out.length + s'.pending.length := by
      have := congrArg List.length hp
      simpa using this
    rw [absC_eq hI hm, absC_eq hI' hm']
    rcases hst with h1 | ⟨h1, h2, h3⟩
    · rw [h1]
      cases hs : s.streamState
      · exact Or.inl rfl
      · exact Or.inl rfl
      · by_cases hp0 : s.pending.length = 0
        · have hp1 : s'.pending.length = 0 := by omega
          simp [hp0, hp1]
        · by_cases hp1 : s'.pending.length = 0
          · simp [hp0, hp1]
          · simp [hp0, hp1]
      · exact Or.inl rfl
      · exact Or.inl rfl
    · rw [h1, h3]; simp
  · have hm' : s'.remainingMetadata ≠ u32Max := by rw [hrm]; exact hm
    rw [absC_md hI.init hm, absC_md hI'.init hm', hrm]
    exact Or.inl rfl

/-! ### corollaries -/

/-- **no_input_after_finish**: once a finish request has been accepted (abstract state
`finishing` or `finished`), no call consumes input -/
theorem no_input_after_finish {o : Oracle} {fuel op cap : Nat} {input : Bytes} {s s' : St} {io' : Io} {r : Bool}
    (hop : op ≤ 3) (hI : Inv s) (hw : s.inputPos + input.length < two64)
    (hfin : absC s = .finishing ∨ absC s = .finished)
    (h : compressStream o fuel s op input cap = .ok (s', io', r)) :
    io'.availIn = input.length ∧ (absC s' = .finishing ∨ absC s' = .finished) := by
  cases r
  · obtain ⟨hs, hio⟩ := refused_unchanged hop hI hw h
    subst hio
    refine ⟨rfl, ?_⟩
    rcases hs with rfl | rfl
    · exact hfin
    · rw [absC_updateSizeHint]; exact hfin
  · obtain ⟨hacc, hsucc⟩ := compressStream_refines hop hI hw h
    obtain ⟨_, hav, hs⟩ := hsucc rfl
    rcases hfin with hf | hf <;> rw [hf] at hs hacc <;> simp only [Contract.succ] at hs
    · have hn : input.length = 0 := by
        simp [Contract.accepts] at hacc; simp [hacc.2]
      exact ⟨by omega, hs.2⟩
    · have hn : input.length = 0 := by
        simp [Contract.accepts] at hacc; simp [hacc.2]
      exact ⟨by omega, Or.inr hs.2⟩

/-- **finished_absorbing** (1): `finished` is absorbing for every call and for `take_output` -/
theorem finished_absorbing {o : Oracle} {fuel op cap : Nat} {input : Bytes} {s s' : St} {io' : Io} {r : Bool}
    (hop : op ≤ 3) (hI : Inv s) (hw : s.inputPos + input.length < two64) (hfin : absC s = .finished)
    (h : compressStream o fuel s op input cap = .ok (s', io', r)) :
    absC s' = .finished ∧ io'.availIn = input.length := by
  cases r
  · obtain ⟨hs, hio⟩ := refused_unchanged hop hI hw h
    subst hio
    refine ⟨?_, rfl⟩
    rcases hs with rfl | rfl
    · exact hfin
    · rw [absC_updateSizeHint]; exact hfin
  · obtain ⟨hacc, hsucc⟩ := compressStream_refines hop hI hw h
    obtain ⟨_, hav, hs⟩ := hsucc rfl
    rw [hfin] at hs hacc
    simp only [Contract.succ] at hs
    have hn : input.length = 0 := by
      simp [Contract.accepts] at hacc; simp [hacc.2]
    exact ⟨hs.2, by omega⟩

/-- **finished_absorbing** (2), exact form: in the FINISHED state with nothing pending an
accepted call returns the very same state and delivers nothing -/
theorem finished_call_is_identity {o : Oracle} {fuel op cap : Nat} {s : St}
    (hop : op ≤ 2) (hI : Inv s) (hst : s.streamState = .finished) (hp : s.pending = []) :
    compressStream o (fuel + 1) s op [] cap = .ok (s, Io.start [] cap, true) :=
  finished_call_exact hop hI hst hp

theorem finished_take_output_is_identity {s : St} (hp : s.pending = []) (size : Nat) (hok : takeSliceOk s = true) :
    takeOutput s size = .ok (s, []) := by
  unfold takeOutput
  rw [hok]
  simp [takeCount, hp]

/-- **violations_fail_clean**: a call the contract does not allow (input while flushing or
finishing, a different amount of metadata or another operation mid-block, more than 2^24
bytes of metadata, metadata after finish) returns `false`, consumes and produces nothing, and
leaves the state as it was — except that `update_size_hint(0)` may have filled in
`params.size_hint` (it runs before the metadata checks; harmless: the field is only read by
the payload encoder's heuristics) -/
theorem violations_fail_clean {o : Oracle} {fuel op cap : Nat} {input : Bytes} {s s' : St} {io' : Io} {r : Bool}
    (hop : op ≤ 3) (hI : Inv s) (hw : s.inputPos + input.length < two64)
    (hv : Contract.accepts (absC s) op input.length = false)
    (h : compressStream o fuel s op input cap = .ok (s', io', r)) :
    r = false ∧ io' = Io.start input cap ∧ (s' = s ∨ s' = updateSizeHint s 0) := by
  have hr : r = false := by rw [(compressStream_refines hop hI hw h).1, hv]
  subst hr
  obtain ⟨hs, hio⟩ := refused_unchanged hop hI hw h
  exact ⟨rfl, hio, hs⟩

/-! ### completion -/

/-- **request_completes** (1): PROCESS / FLUSH / FINISH outside a metadata block.  An accepted
call that returns with output room left has nothing pending, and a call that returns with
nothing pending has COMPLETED the request (`Drained`): all offered input is consumed; a FLUSH
from `processing` has been performed (stream state back to PROCESSING, no carry bits, nothing
unflushed); a FINISH from `processing` has reached FINISHED; in the states `flushing` /
`finishing` the call only drains (so a FINISH issued while a flush is still draining needs one
more call).  Hence a caller that repeats the request with `cap ≥ 1` sees, at every call, either
completion or a completely filled output buffer: the number of calls is at most
`⌈bytes delivered / cap⌉ + 2`.  No hypothesis on the oracle. -/
theorem request_completes {o : Oracle} {fuel op cap : Nat} {input : Bytes} {s s' : St} {io' : Io}
    (hop : op ≤ 2) (hI : Inv s) (hrm : s.remainingMetadata = u32Max) (hw : s.inputPos + input.length < two64)
    (h : compressStream o fuel s op input cap = .ok (s', io', true)) :
    (io'.availOut ≠ 0 → s'.pending.length = 0) ∧ (s'.pending.length = 0 → Drained op s.streamState s' io') :=
  compressStream_drained hop hI hrm hw h

/-- **request_completes** (2): EMIT_METADATA.  An accepted call that returns with output room
left, or with nothing pending, has completed the block: every payload byte consumed, stream
state back to PROCESSING. -/
theorem metadata_completes {o : Oracle} {fuel cap : Nat} {input : Bytes} {s s' : St} {io' : Io}
    (hI : Inv s) (hw : s.inputPos + input.length < two64)
    (h : compressStream o fuel s 3 input cap = .ok (s', io', true)) :
    (io'.availOut ≠ 0 → s'.pending.length = 0) ∧
    (s'.pending.length = 0 → s'.remainingMetadata = u32Max ∧ s'.streamState = .processing ∧ io'.availIn = 0) :=
  metadata_drained hI hw h

/-- `take_output` alone completes a pending flush / finish: once it has handed out the last
pending byte the stream state is PROCESSING (after a flush) or stays FINISHED -/
theorem take_output_completes {s s' : St} {size : Nat} {out : Bytes} (hI : Inv s)
    (h : takeOutput s size = .ok (s', out)) (hp : s'.pending = []) (hfl : s.streamState = .flushRequested)
    (hout : out ≠ []) : s'.streamState = .processing := by
  unfold takeOutput at h
  split at h
  · simp at h
  · split at h
    · simp only [Out.ok.injEq, Prod.mk.injEq] at h
      obtain ⟨rfl, rfl⟩ := h
      rw [checkFlushComplete_state]
      have hp' : (takeAdvance s (takeCount s size)).pending = [] := by
        have := (checkFlushComplete_frame (takeAdvance s (takeCount s size))).2.2.2.2.2.2.2.1
        rw [this] at hp; exact hp
      have hst : (takeAdvance s (takeCount s size)).streamState = .flushRequested := hfl
      simp [hst, hp']
    · simp only [Out.ok.injEq, Prod.mk.injEq] at h
      obtain ⟨_, rfl⟩ := h
      exact absurd rfl hout

/-! ### termination of each call -/

/-- **request_completes** (3), every call terminates: the three loops of the model are defined
with fuel; with at least `callPot M s n = (2n + 2)(M + 8) + 17n + pending + 16` units
(`n` bytes offered) `compress_stream` never runs out of it — it returns a value or one of the
modelled panics.  Proved with explicit potential functions that strictly decrease on every
`continue` (`slowStep_decreases`, `fastStep_decreases`, `mdStep_decreases`).  NO hypothesis on the
payload encoder: `M` only has to bound the staging buffer as it is and as this call can grow it
(`Cap M`: `storage_.len() ≤ M`, `2 * (input_pos_ + n − last_flush_pos_) + 527 ≤ M`, `2n + 527 ≤ M` —
e.g. `M = callCap s n`, `call_terminates_callCap`), because what one invocation can leave pending is
bounded by the machine's own `storage[1 + (storage_ix >> 3)]` checks (`encodeData_store`): a longer
answer is a panic, not a spin.  The metadata loop's potential needs `encode_data(force_flush)` to end
with `last_flush_pos_ = input_pos_` — the statement that was false at quality 0/1 + catable before
the fix (the loop really spun). -/
theorem call_terminates {o : Oracle} {M fuel op cap : Nat} {input : Bytes} {s : St}
    (hC : Cap M s { input := input, availIn := input.length, availOut := cap })
    (hop : op ≤ 3) (hI : Inv s) (hw : s.inputPos + input.length < two64) (hl : s.lastBytesBits ≤ 14)
    (hfuel : callPot M s input.length < fuel) :
    compressStream o fuel s op input cap ≠ .fuel :=
  compressStream_terminates hC hop hI hw hl hfuel

/-- the same with the bound spelled out as a function of the state and the call alone -/
theorem call_terminates_callCap {o : Oracle} {fuel op cap : Nat} {input : Bytes} {s : St}
    (hop : op ≤ 3) (hI : Inv s) (hw : s.inputPos + input.length < two64) (hl : s.lastBytesBits ≤ 14)
    (hfuel : callPot (callCap s input.length) s input.length < fuel) :
    compressStream o fuel s op input cap ≠ .fuel :=
  compressStream_terminates (cap_callCap s input cap) hop hI hw hl hfuel

/-- the side condition of `call_terminates` (a carry of at most 14 bits) holds after
`ensure_initialized` and is preserved by every call and by `take_output` — whatever the oracle answers -/
theorem carry_bound_invariant {o : Oracle} {fuel op cap : Nat} {input : Bytes} {s s' : St} {io' : Io} {r : Bool}
    (hop : op ≤ 3) (hI : Inv s) (hw : s.inputPos + input.length < two64) (hl : s.lastBytesBits ≤ 14)
    (h : compressStream o fuel s op input cap = .ok (s', io', r)) : s'.lastBytesBits ≤ 14 :=
  compressStream_lbb hop hI hw hl h

theorem carry_bound_initial (s : St) (h : s.isInitialized = false) : (ensureInitialized s).lastBytesBits ≤ 14 :=
  ensureInitialized_lbb s h

/-! ### non-vacuity -/

/-- a fresh encoder satisfies the hypotheses after its first call -/
example : IsFresh St.new := ⟨{}, rfl⟩
example : Inv (ensureInitialized St.new) := (inv_fresh ⟨{}, rfl⟩).1
/-- the contract really refuses something and really accepts something -/
example : Contract.accepts .flushing 0 1 = false := by decide
example : Contract.accepts (.metadata 5) 3 5 = true := by decide
example : Contract.accepts .processing 3 16777217 = false := by decide
/-- the storage bound of `call_terminates` is met by a concrete value for every state and call -/
example (s : St) (input : Bytes) (cap : Nat) : Cap (callCap s input.length) s { input := input, availIn := input.length, availOut := cap } :=
  cap_callCap s input cap

end BV.Props.C20
