import BV.Lemmas.AdaptersWriterSpec
import BV.Lemmas.AdaptersReaderSim
import BV.Lemmas.AdaptersCopySim
import BV.Lemmas.AdaptersStreamEnc
/-
C11 — Reader/writer adapters terminate and are transparent to short I/O and I/O errors.

Model: `BV/Model/Adapters.lean` (writer.rs, reader.rs, the copy loop of enc/mod.rs, the
`Interrupted`-retry wrappers of brotli-decompressor's io_wrappers.rs), tied to the code by the
`adapters` correspondence run.  Every theorem below quantifies over

* EVERY encoder `E : Enc σ` (any state type) subject only to the named hypotheses
  `EncSane` (stays inside the slices) and `EncProgress E ops rank` (a successful call of a kind in
  `ops` that was demanded, had output room and consumed nothing lowers a rank) — PROVED for the
  stream-machine model `BV.Stream` (section "the MODELLED stream machine": the `…_stream`
  theorems need only that the payload encoder's answers are bounded), discharged for a toy
  encoder in `toy_sane` / `toy_progress`, and checked on every answer of the real encoder by the
  harness (`adapters:oracle-hypothesis`);
* EVERY script of the wrapped stream: per raw call `full | atMost k | intr | err c | zero`,
  followed by a tail behaviour that lasts forever (never `intr`: "Interrupted is returned
  finitely often" is the only assumption on the wrapped stream);
* every caller-side size including 0 and every own-buffer size ≥ 1 (writer, copy) / ≥ 0 (reader).

`fuel` counts loop iterations; `Out.livelock` = fuel exhausted.  "Returns" therefore reads:
there is an `N` such that for every `fuel ≥ N` the outcome is not `livelock`.

Spec side (written independently of the code-mirroring functions): the reference automata
`specWriteLoop` / `specFlushOrClose` (talk to the encoder only), the ghost-log functions
`emitted` / `fed`, the conserved quantities `Reader.total`, the relation `Reader.Sim`, and the
closed form `fillAmount` of the refill loop.

What is NOT claimed: `into_inner` / `Drop` return no `Result` (API design), so an I/O error during
the final FINISH is dropped by the code and by the model alike; `error_reported` covers `write`,
`flush`, `read` and the copy function.  At the generic `CustomIo` layer the stock error values
are handed out by move: the theorems there assume `armed` (both present at call entry); the std
layer re-arms after every `Err` (`stdWrite_armed`), so there the hypothesis is an invariant.
-/
namespace BV.Props.C11
open BV.Adapters
variable {σ : Type}

/-! ## every call returns -/

/-- `read_empty_is_zero`: a read into an empty buffer returns `Ok(0)` at once — no encoder call,
no call on the wrapped reader, state untouched -/
theorem read_empty_is_zero (E : Enc σ) (fuel : Nat) (r : Reader σ) :
    Reader.read E fuel r 0 = (r, .done (.ok [])) := by
  simp [Reader.read]

/-- `read_returns`: every `read`, for every buffer length including 0, every script of the wrapped
reader and every state reachable through the API, returns after finitely many loop iterations -/
theorem read_returns (E : Enc σ) (ops : Op → Prop) (rank : σ → Nat) (hp : EncProgress E ops rank)
    (hops : ops .process ∧ ops .finish) (r : Reader σ) (hwf : r.WF)
    (cap : Nat) : ∃ N, ∀ fuel, N ≤ fuel → (Reader.read E fuel r cap).2 ≠ .livelock := by
  by_cases hc : cap = 0
  · subst hc; exact ⟨0, fun fuel _ => by rw [read_empty_is_zero]; simp⟩
  · obtain ⟨N, hN⟩ := readLoop_terminates E ops rank hp hops cap (Nat.pos_of_ne_zero hc) _ _ _ r hwf rfl rfl rfl
    refine ⟨N, fun fuel hf => ?_⟩
    unfold Reader.read
    rw [if_neg hc, if_neg (by have := hwf.1; omega)]
    exact hN fuel hf

/-- the invariant `WF` holds for a new reader and is kept by every successful `read` -/
theorem reader_wf_new (b : Nat) (e : σ) (src : Source) : (Reader.new b e src).WF := Reader.new_WF b e src

theorem write_returns (E : Enc σ) (ops : Op → Prop) (rank : σ → Nat) (hp : EncProgress E ops rank) (hops : ops .process) (w : Writer σ)
    (hb : 0 < w.bufSize) (buf : Bytes) :
    ∃ N, ∀ fuel, N ≤ fuel → (Writer.write E fuel w buf).2 ≠ .livelock :=
  writeLoop_terminates E ops rank hp hops buf.length _ _ w buf rfl rfl hb

theorem into_inner_returns (E : Enc σ) (ops : Op → Prop) (rank : σ → Nat) (hp : EncProgress E ops rank) (hops : ops .finish) (w : Writer σ)
    (hb : 0 < w.bufSize) :
    ∃ N, ∀ fuel, N ≤ fuel → (Writer.intoInner E fuel w).2 ≠ .livelock := by
  obtain ⟨N, hN⟩ := flushOrClose_terminates E ops rank hp .finish hops (by simp) _ w rfl hb
  refine ⟨N, fun fuel hf => ?_⟩
  have := hN fuel hf
  unfold Writer.intoInner
  split <;> simp_all

theorem flush_returns (E : Enc σ) (ops : Op → Prop) (rank : σ → Nat) (hp : EncProgress E ops rank) (hops : ops .flush) (w : Writer σ)
    (hb : 0 < w.bufSize) :
    ∃ N, ∀ fuel, N ≤ fuel → (Writer.flush E fuel w).2 ≠ .livelock := by
  obtain ⟨N, hN⟩ := flushOrClose_terminates E ops rank hp .flush hops (by simp) _ w rfl hb
  refine ⟨N, fun fuel hf => ?_⟩
  have := hN fuel hf
  unfold Writer.flush
  split
  · split <;> simp
  · next hne =>
    generalize Writer.flushOrClose E .flush fuel w = x at *
    obtain ⟨w', o⟩ := x
    exact this

/-- `copy_terminates`: the copy function returns for every pair of scripts — in particular a
wrapped writer that answers `Ok(0)` (once, or forever) ends it with an error instead of spinning -/
theorem copy_terminates (E : Enc σ) (ops : Op → Prop) (rank : σ → Nat) (hp : EncProgress E ops rank)
    (hops : ops .process ∧ ops .finish) (ib ob : Nat) (e : σ)
    (src : Source) (sink : Sink) :
    ∃ N, ∀ fuel, N ≤ fuel → (Copy.run E fuel ib ob e src sink).2 ≠ .livelock := by
  unfold Copy.run
  by_cases h0 : ib = 0 ∨ ob = 0
  · exact ⟨0, fun fuel _ => by simp [h0]⟩
  · have hob : 0 < ob := by omega
    obtain ⟨N, hN⟩ := Copy.loop_terminates E ops rank hp hops _ _ _
      ({ ibuf := List.replicate ib 0, obufSize := ob, pending := [], nextIn := 0, availableIn := 0, eof := false,
         readErr := none, enc := e, src := src, sink := sink, totalOut := 0, elog := [] } : Copy σ)
      ⟨by simp, by simpa using hob, by simp⟩ rfl rfl rfl
    exact ⟨N, fun fuel hf => by simp only [h0, if_false]; exact hN fuel hf⟩

/-- no call panics on a sane encoder while the stock error values are present -/
theorem write_no_panic (E : Enc σ) (hs : EncSane E) (fuel : Nat) (w : Writer σ) (h : w.armed) (buf : Bytes) :
    (Writer.write E fuel w buf).2 ≠ .panic := writeLoop_no_panic E hs buf.length fuel w buf h

theorem read_no_panic (E : Enc σ) (hs : EncSane E) (fuel : Nat) (r : Reader σ) (hwf : r.WF)
    (h : r.errInvalid = true) (cap : Nat) : (Reader.read E fuel r cap).2 ≠ .panic := by
  unfold Reader.read
  split
  · simp
  · rw [if_neg (by have := hwf.1; omega)]
    exact readLoop_no_panic E hs cap fuel r hwf h

theorem copy_no_panic (E : Enc σ) (hs : EncSane E) (fuel ib ob : Nat) (hib : 0 < ib) (hob : 0 < ob) (e : σ)
    (src : Source) (sink : Sink) : (Copy.run E fuel ib ob e src sink).2 ≠ .panic := by
  unfold Copy.run
  rw [if_neg (by omega)]
  exact Copy.loop_no_panic E hs fuel _ ⟨by simp, by simpa using hob, by simp⟩

/-! ## write_all -/

/-- `write_all_progress`: `write_all` is defined by recursion on the bytes still to hand over (no
fuel): every call of the wrapped writer that is not `Interrupted` either hands over at least one
byte or ends the loop.  Conservation: the `Ok(k)` answers logged during the call add up to exactly
the bytes that reached the sink, those are a prefix of the request, and at most
`delivered + 1` calls were answered. -/
theorem write_all_progress (ez ei : Bool) (s : Sink) (buf : Bytes) :
    ∃ (new : List LogE) (p : Bytes),
      (writeAll ez ei s buf).2.2.1.log = new ++ s.log ∧
      (writeAll ez ei s buf).2.2.1.got = s.got ++ p ∧ p <+: buf ∧
      bytesOf new = p.length ∧ answered new ≤ p.length + 1 := by
  obtain ⟨new, p, h1, h2, h3, _, _, h6, h7, _⟩ := writeAll_spec ez ei s buf
  exact ⟨new, p, h1, h2, h3, h6, h7⟩

/-! ## errors are reported -/

/-- `error_reported` (`write`): with the stock error values present, a hard error or a zero-length
write of the wrapped writer at ANY point of the call makes `write` return `Err` — it cannot
return `Ok` -/
theorem error_reported_write (E : Enc σ) (fuel : Nat) (w : Writer σ) (h : w.armed) (buf : Bytes)
    (newL : List LogE) (hlog : (Writer.write E fuel w buf).1.sink.log = newL ++ w.sink.log)
    (hf : ∃ e ∈ newL, e.faulty = true) : ∀ n, (Writer.write E fuel w buf).2 ≠ .done (.ok n) := by
  intro n hok
  obtain ⟨_, _, _, _, newE, newL', _, k2, _, _, k5, _⟩ :=
    writeLoop_ok E buf.length fuel w _ buf n h (Prod.ext rfl hok)
  have : newL = newL' := List.append_cancel_right (hlog.symm.trans k2)
  subst this
  obtain ⟨e, he, hfe⟩ := hf
  rw [k5 e he] at hfe
  exact absurd hfe (by simp)

/-- `error_reported` (`flush`): same for `flush`, including an error of the wrapped `flush()` -/
theorem error_reported_flush (E : Enc σ) (fuel : Nat) (w : Writer σ) (h : w.armed)
    (newL : List LogE) (hlog : (Writer.flush E fuel w).1.sink.log = newL ++ w.sink.log)
    (hf : ∃ e ∈ newL, e.faulty = true) : (Writer.flush E fuel w).2 ≠ .done (.ok ()) := by
  intro hok
  unfold Writer.flush at hok hlog
  generalize hfc : Writer.flushOrClose E .flush fuel w = x at hok hlog
  obtain ⟨w1, o⟩ := x
  cases o with
  | panic => simp at hok
  | livelock => simp at hok
  | done r =>
    cases r with
    | error e => simp at hok
    | ok u =>
      cases u
      obtain ⟨_, _, _, _, _, newE, newL', _, k2, _, _, _, k5, _⟩ := flushOrClose_ok E .flush fuel w w1 h hfc
      simp only at hok hlog
      -- the wrapped flush()
      have hsf : ∃ pre, (w1.sink.flush).1.log = pre ++ w1.sink.log ∧
          ((w1.sink.flush).2 = .ok () → ∀ e ∈ pre, e.faulty = false) := by
        unfold Sink.flush
        generalize hg : sinkFlushGo w1.sink.fscript w1.sink.log = g
        obtain ⟨fs, lg, rr⟩ := g
        have key : ∀ (fsc : List Beh) (log : List LogE), ∃ pre, (sinkFlushGo fsc log).2.1 = pre ++ log ∧
            ((sinkFlushGo fsc log).2.2 = .ok () → ∀ e ∈ pre, e.faulty = false) := by
          intro fsc
          induction fsc with
          | nil => intro log; exact ⟨[⟨2, 0, .n 0⟩], by simp [sinkFlushGo], by intro _ e he; simp at he; subst he; rfl⟩
          | cons b rest ih =>
            intro log
            cases b with
            | intr =>
              obtain ⟨pre, p1, p2⟩ := ih (⟨2, 0, .intr⟩ :: log)
              refine ⟨pre ++ [⟨2, 0, .intr⟩], by simp [sinkFlushGo, flushRes, p1], ?_⟩
              intro hok' e he
              simp only [sinkFlushGo, flushRes] at hok'
              rcases List.mem_append.mp he with h' | h'
              · exact p2 hok' e h'
              · simp at h'; subst h'; rfl
            | err c => exact ⟨[⟨2, 0, .err c⟩], by simp [sinkFlushGo, flushRes], by intro h'; simp [sinkFlushGo, flushRes] at h'⟩
            | full => exact ⟨[⟨2, 0, .n 0⟩], by simp [sinkFlushGo, flushRes], by intro _ e he; simp at he; subst he; rfl⟩
            | atMost k => exact ⟨[⟨2, 0, .n 0⟩], by simp [sinkFlushGo, flushRes], by intro _ e he; simp at he; subst he; rfl⟩
            | zero => exact ⟨[⟨2, 0, .n 0⟩], by simp [sinkFlushGo, flushRes], by intro _ e he; simp at he; subst he; rfl⟩
        obtain ⟨pre, p1, p2⟩ := key w1.sink.fscript w1.sink.log
        rw [hg] at p1 p2
        exact ⟨pre, p1, p2⟩
      obtain ⟨pre, p1, p2⟩ := hsf
      generalize hsf' : w1.sink.flush = y at hok hlog p1 p2
      obtain ⟨s', rr⟩ := y
      cases rr with
      | error c => simp at hok
      | ok u' =>
        simp only at hlog p1 p2
        have hall : newL = pre ++ newL' := by
          apply List.append_cancel_right (bs := w.sink.log)
          rw [← hlog, p1, k2, List.append_assoc]
        obtain ⟨e, he, hfe⟩ := hf
        rw [hall] at he
        rcases List.mem_append.mp he with h' | h'
        · rw [p2 trivial e h'] at hfe; exact absurd hfe (by simp)
        · rw [k5 e h'] at hfe; exact absurd hfe (by simp)

/-- the std layer keeps the error values in stock: whatever a std call returns, both are present
afterwards — so `armed` is an invariant of every call sequence on `CompressorWriter`, and
`error_reported_write` / `error_reported_flush` apply to every call of every history -/
theorem stdWrite_armed (E : Enc σ) (fuel : Nat) (w : Writer σ) (h : w.armed) (buf : Bytes)
    (r : Except Err Nat) (hd : (Writer.stdWrite E fuel w buf).2 = .done r) :
    (Writer.stdWrite E fuel w buf).1.armed := by
  unfold Writer.stdWrite at hd ⊢
  generalize hw : Writer.write E fuel w buf = x at hd ⊢
  obtain ⟨w', o⟩ := x
  cases o with
  | panic => simp at hd
  | livelock => simp at hd
  | done rr =>
    cases rr with
    | error e => exact ⟨rfl, rfl⟩
    | ok n =>
      obtain ⟨_, ha, _⟩ := writeLoop_ok E buf.length fuel w w' buf n h hw
      exact ha

theorem stdFlush_armed (E : Enc σ) (fuel : Nat) (w : Writer σ) (h : w.armed)
    (r : Except Err Unit) (hd : (Writer.stdFlush E fuel w).2 = .done r) :
    (Writer.stdFlush E fuel w).1.armed := by
  unfold Writer.stdFlush at hd ⊢
  generalize hw : Writer.flush E fuel w = x at hd ⊢
  obtain ⟨w', o⟩ := x
  cases o with
  | panic => simp at hd
  | livelock => simp at hd
  | done rr =>
    cases rr with
    | error e => exact ⟨rfl, rfl⟩
    | ok u =>
      -- flush Ok: flush_or_close returned Ok (slots untouched) and the wrapped flush() succeeded
      unfold Writer.flush at hw
      generalize hfc : Writer.flushOrClose E .flush fuel w = y at hw
      obtain ⟨w1, o1⟩ := y
      cases o1 with
      | panic => simp at hw
      | livelock => simp at hw
      | done r1 =>
        cases r1 with
        | error e => simp at hw
        | ok u1 =>
          cases u1
          obtain ⟨ha, _⟩ := flushOrClose_ok E .flush fuel w w1 h hfc
          simp only at hw
          split at hw
          · simp only [Prod.mk.injEq] at hw; rw [← hw.1]; exact ha
          · simp at hw

/-- `error_reported` (`read`): a hard error of the wrapped reader at any point of the call makes
`read` return `Err`: a `read` that returns `Ok` has seen none -/
theorem error_reported_read (E : Enc σ) (fuel : Nat) (r : Reader σ) (hwf : r.WF) (cap : Nat) (hc : 0 < cap)
    (newL : List LogE) (hlog : (Reader.read E fuel r cap).1.src.log = newL ++ r.src.log)
    (hf : ∃ e ∈ newL, ∃ c, e.res = .err c) : ∀ bs, (Reader.read E fuel r cap).2 ≠ .done (.ok bs) := by
  intro bs hok
  unfold Reader.read at hok hlog
  rw [if_neg (by omega), if_neg (by have := hwf.1; omega)] at hok hlog
  obtain ⟨_, _, _, _, newE, newL', _, _, _, _, _, k6, k7⟩ := readLoop_ok E cap fuel r _ bs hwf (Prod.ext rfl hok)
  have : newL = newL' := List.append_cancel_right (hlog.symm.trans k6)
  subst this
  obtain ⟨e, he, c, hce⟩ := hf
  exact k7 e he c hce

/-- `copy_reports_first_read_error` and `error_reported` (copy function): when the function
returns, (a) if the wrapped reader failed, the result is `Err` of a read error that occurred —
whatever the wrapped writer did afterwards; (b) if it returns `Ok`, neither wrapped stream
reported a hard error and the writer never answered `Ok(0)` -/
theorem copy_reports_first_read_error (E : Enc σ) (fuel ib ob : Nat) (e : σ) (src : Source) (sink : Sink)
    (res : Except Err Nat) (h : (Copy.run E fuel ib ob e src sink).2 = .done res)
    (newR : List LogE) (hlog : (Copy.run E fuel ib ob e src sink).1.src.log = newR ++ src.log)
    (hf : ∃ x ∈ newR, ∃ k, x.res = .err k) :
    ∃ k, res = .error (.inner k) ∧ ∃ x ∈ newR, x.res = .err k := by
  unfold Copy.run at h hlog
  by_cases h0 : ib = 0 ∨ ob = 0
  · simp [h0] at h
  · simp only [h0, if_false] at h hlog
    have hob : 0 < ob := by omega
    obtain ⟨newE, newR', newW, _, k2, _, k4, _, k6, _⟩ := Copy.loop_done E fuel _ _ res
      ⟨by simp, by simpa using hob, by simp⟩ (Prod.ext rfl h)
    have : newR = newR' := List.append_cancel_right (hlog.symm.trans k2)
    subst this
    rcases k6 rfl with ⟨_, hnone⟩ | ⟨k, hk, x, hx, hxk⟩
    · obtain ⟨x, hx, k, hk⟩ := hf
      exact absurd hk (hnone x hx k)
    · exact ⟨k, k4 _ hk, x, hx, hxk⟩

theorem error_reported_copy (E : Enc σ) (fuel ib ob : Nat) (e : σ) (src : Source) (sink : Sink) (n : Nat)
    (h : (Copy.run E fuel ib ob e src sink).2 = .done (.ok n))
    (newR newW : List LogE) (hr : (Copy.run E fuel ib ob e src sink).1.src.log = newR ++ src.log)
    (hw : (Copy.run E fuel ib ob e src sink).1.sink.log = newW ++ sink.log) :
    (∀ x ∈ newR, ∀ k, x.res ≠ .err k) ∧ (∀ x ∈ newW, x.faulty = false) := by
  unfold Copy.run at h hr hw
  by_cases h0 : ib = 0 ∨ ob = 0
  · simp [h0] at h
  · simp only [h0, if_false] at h hr hw
    have hob : 0 < ob := by omega
    obtain ⟨newE, newR', newW', _, k2, k3, k4, _, k6, k7⟩ := Copy.loop_done E fuel _ _ (.ok n)
      ⟨by simp, by simpa using hob, by simp⟩ (Prod.ext rfl h)
    have e1 : newR = newR' := List.append_cancel_right (hr.symm.trans k2)
    have e2 : newW = newW' := List.append_cancel_right (hw.symm.trans k3)
    subst e1 e2
    obtain ⟨j1, _⟩ := k7 n rfl
    refine ⟨?_, j1⟩
    rcases k6 rfl with ⟨_, hnone⟩ | ⟨k, hk, _⟩
    · exact hnone
    · have := k4 _ hk; simp at this

/-! ## transparency to short I/O -/

/-- `short_writes_transparent` (`write`, strong form): over EVERY script of short writes and
`Interrupted`s (no hard error, no `Ok(0)`) the writer makes exactly the encoder calls of the
reference automaton `specWriteLoop` (which knows no wrapped stream), returns its verdict, and the
sink has received exactly the bytes the encoder produced, in order -/
theorem short_writes_transparent_write (E : Enc σ) (fuel : Nat) (w : Writer σ) (buf : Bytes)
    (hf : w.sink.faultFree) (ha : w.errInvalid = true) :
    (Writer.write E fuel w buf).2 = (specWriteLoop E w.bufSize buf.length fuel w.enc buf).2.2 ∧
    (Writer.write E fuel w buf).1.enc = (specWriteLoop E w.bufSize buf.length fuel w.enc buf).1 ∧
    (Writer.write E fuel w buf).1.elog = (specWriteLoop E w.bufSize buf.length fuel w.enc buf).2.1 ++ w.elog ∧
    (Writer.write E fuel w buf).1.sink.got = w.sink.got ++ emitted (specWriteLoop E w.bufSize buf.length fuel w.enc buf).2.1 := by
  obtain ⟨h1, h2, h3, h4, _, _⟩ := writeLoop_faultFree_eq_spec E buf.length fuel w buf hf ha
  exact ⟨h1, h2, h3, h4⟩

/-- the same for `flush_or_close` (the FLUSH of `flush`, the FINISH of `into_inner` / `Drop`) -/
theorem short_writes_transparent_close (E : Enc σ) (op : Op) (fuel : Nat) (w : Writer σ)
    (hf : w.sink.faultFree) (ha : w.errInvalid = true) :
    (Writer.flushOrClose E op fuel w).2 = (specFlushOrClose E w.bufSize op fuel w.enc).2.2 ∧
    (Writer.flushOrClose E op fuel w).1.enc = (specFlushOrClose E w.bufSize op fuel w.enc).1 ∧
    (Writer.flushOrClose E op fuel w).1.elog = (specFlushOrClose E w.bufSize op fuel w.enc).2.1 ++ w.elog ∧
    (Writer.flushOrClose E op fuel w).1.sink.got = w.sink.got ++ emitted (specFlushOrClose E w.bufSize op fuel w.enc).2.1 := by
  obtain ⟨h1, h2, h3, h4, _, _⟩ := flushOrClose_faultFree_eq_spec E op fuel w hf ha
  exact ⟨h1, h2, h3, h4⟩

/-- `short_writes_transparent` (prefix form, ANY script incl. hard errors and zero-length writes):
what has reached the sink when a `write` returns — whatever it returns — is what was there before
plus a prefix of what the encoder produced during the call -/
theorem sink_gets_prefix_of_encoder_output (E : Enc σ) (fuel : Nat) (w : Writer σ) (h : w.armed) (buf : Bytes) :
    ∃ (newE : List ERec) (p : Bytes),
      (Writer.write E fuel w buf).1.elog = newE ++ w.elog ∧
      (Writer.write E fuel w buf).1.sink.got = w.sink.got ++ p ∧ p <+: emitted newE := by
  obtain ⟨newE, _, p, h1, _, h3, h4⟩ := writeLoop_prefix E buf.length fuel w buf h
  exact ⟨newE, p, h1, h3, h4⟩

/-- `short_reads_transparent` (strong form): two readers over the same source bytes whose wrapped
readers follow DIFFERENT scripts of short reads and `Interrupted`s make the same encoder calls,
return the same result from every `read` (any buffer length), and stay related — so the whole
sequence of results of any sequence of `read`s is the same.  `new_sim` starts the induction. -/
theorem short_reads_transparent (E : Enc σ) (fuel cap : Nat) {a b : Reader σ} (h : Reader.Sim a b) :
    (Reader.read E fuel a cap).2 = (Reader.read E fuel b cap).2 ∧
    ((Reader.read E fuel a cap).2 ≠ .panic →
      Reader.Sim (Reader.read E fuel a cap).1 (Reader.read E fuel b cap).1) := read_sim E fuel cap h

theorem short_reads_transparent_start (bufSize : Nat) (e : σ) (data : Bytes) (s1 s2 : List Beh) (t1 t2 : Tail)
    (h1 : ∀ b ∈ s1, b.faultFree = true) (h2 : ∀ b ∈ s2, b.faultFree = true)
    (ht1 : t1.faultFree = true) (ht2 : t2.faultFree = true) :
    Reader.Sim (Reader.new bufSize e ⟨data, s1, t1, []⟩) (Reader.new bufSize e ⟨data, s2, t2, []⟩) :=
  new_sim bufSize e data s1 s2 t1 t2 h1 h2 ht1 ht2

/-- related readers have made the same encoder calls -/
theorem sim_same_encoder_calls {a b : Reader σ} (h : Reader.Sim a b) : a.elog = b.elog ∧ a.enc = b.enc :=
  ⟨h.elog, h.enc⟩

/-- `short_reads_transparent` + `short_writes_transparent` for the copy function (strong form): two
runs of `BrotliCompressCustomIoCustomDict` over the same source bytes whose wrapped reader AND wrapped
writer follow different scripts of short reads / short writes / `Interrupted`s (no hard error, no
premature `Ok(0)` read, no zero-length write) return the same result; unless that result is a panic
they have made the same encoder calls (`elog`), left the encoder in the same state and handed the
same bytes to the sink -/
theorem short_io_transparent_copy (E : Enc σ) (fuel ib ob : Nat) (e : σ) (data : Bytes)
    (r1 r2 w1 w2 : List Beh) (rt1 rt2 wt1 wt2 : Tail)
    (hr1 : ∀ b ∈ r1, b.faultFree = true) (hr2 : ∀ b ∈ r2, b.faultFree = true)
    (hw1 : ∀ b ∈ w1, b.faultFree = true) (hw2 : ∀ b ∈ w2, b.faultFree = true)
    (hrt1 : rt1.faultFree = true) (hrt2 : rt2.faultFree = true) (hwt1 : wt1.faultFree = true) (hwt2 : wt2.faultFree = true) :
    (Copy.run E fuel ib ob e ⟨data, r1, rt1, []⟩ ⟨w1, wt1, [], [], []⟩).2
      = (Copy.run E fuel ib ob e ⟨data, r2, rt2, []⟩ ⟨w2, wt2, [], [], []⟩).2 ∧
    ((Copy.run E fuel ib ob e ⟨data, r1, rt1, []⟩ ⟨w1, wt1, [], [], []⟩).2 ≠ .panic →
      (Copy.run E fuel ib ob e ⟨data, r1, rt1, []⟩ ⟨w1, wt1, [], [], []⟩).1.elog
        = (Copy.run E fuel ib ob e ⟨data, r2, rt2, []⟩ ⟨w2, wt2, [], [], []⟩).1.elog ∧
      (Copy.run E fuel ib ob e ⟨data, r1, rt1, []⟩ ⟨w1, wt1, [], [], []⟩).1.enc
        = (Copy.run E fuel ib ob e ⟨data, r2, rt2, []⟩ ⟨w2, wt2, [], [], []⟩).1.enc ∧
      (Copy.run E fuel ib ob e ⟨data, r1, rt1, []⟩ ⟨w1, wt1, [], [], []⟩).1.sink.got
        = (Copy.run E fuel ib ob e ⟨data, r2, rt2, []⟩ ⟨w2, wt2, [], [], []⟩).1.sink.got) := by
  unfold Copy.run
  by_cases h0 : ib = 0 ∨ ob = 0
  · simp [h0]
  · simp only [h0, if_false]
    have hsim : Copy.Sim
        ({ ibuf := List.replicate ib 0, obufSize := ob, pending := [], nextIn := 0, availableIn := 0, eof := false,
           readErr := none, enc := e, src := ⟨data, r1, rt1, []⟩, sink := ⟨w1, wt1, [], [], []⟩, totalOut := 0, elog := [] } : Copy σ)
        ({ ibuf := List.replicate ib 0, obufSize := ob, pending := [], nextIn := 0, availableIn := 0, eof := false,
           readErr := none, enc := e, src := ⟨data, r2, rt2, []⟩, sink := ⟨w2, wt2, [], [], []⟩, totalOut := 0, elog := [] } : Copy σ) := by
      constructor <;> first | rfl | exact ⟨hr1, hrt1⟩ | exact ⟨hr2, hrt2⟩ | exact ⟨hw1, hwt1⟩ | exact ⟨hw2, hwt2⟩ | simp
    obtain ⟨k1, k2⟩ := Copy.loop_sim E fuel hsim
    exact ⟨k1, fun hne => ⟨(k2 hne).elog, (k2 hne).enc, (k2 hne).got⟩⟩

/-- `caller_read_sizes_do_not_move_chunk_boundaries`: after every successful `read` — whatever
buffer length the caller passed — the reader's own buffer is "full or empty" (`Reader.Full`: a
complete load, or EOF, or nothing left), and in such a state, while bytes are still waiting, the
next `read` makes NO call on the wrapped reader and leaves the buffer as it is.  So the wrapped
reader is only ever asked when the window is empty, every input offered to the encoder is a suffix
of one complete load of the own buffer, and the load boundaries (multiples of the buffer size in
the source) do not depend on the caller's read sizes.  (`read` guards `copy_to_front` with
`avail_in == 0` for exactly this: compacting a partly consumed load would let the next refill top
it up — `copyToFront_Full` needs the window to be empty.)  That the BYTES are then independent of
the read sizes is the encoder's half — C05 — and is compared on the real code by the pair oracle of
the harness (`adapters:reader-bytes-depend-on-read-sizes`). -/
theorem caller_read_sizes_do_not_move_chunk_boundaries (E : Enc σ) (fuel : Nat) (r : Reader σ) (hwf : r.WF)
    (cap : Nat) (hc : 0 < cap) (r' : Reader σ) (bs : Bytes) (h : Reader.read E fuel r cap = (r', .done (.ok bs))) :
    r'.Full ∧ r'.WF ∧
    (r'.window ≠ [] → r'.fill.2 = none ∧ r'.fill.1.src = r'.src ∧ r'.fill.1.buf = r'.buf ∧
      r'.fill.1.window = r'.window) := by
  unfold Reader.read at h
  rw [if_neg (by omega), if_neg (by have := hwf.1; omega)] at h
  have hF := readLoop_Full E cap fuel r r' bs hwf h
  have hW := (readLoop_ok E cap fuel r r' bs hwf h).1
  refine ⟨hF, hW, fun hw => ?_⟩
  obtain ⟨a1, a2, a3, _, _, _, a7⟩ := fill_no_top_up r' hW hF hw
  exact ⟨a1, a2, a3, a7⟩

example : (Reader.new 4196 (⟨[], false⟩ : Toy) ⟨[1, 2, 3], [], .full, []⟩).Full := Reader.new_Full _ _ _

/-! ## if every call succeeded the stream is complete -/

/-- a caller session on the std layer: `write` each chunk in turn; `true` = every one returned `Ok` -/
def session (E : Enc σ) (fuel : Nat) : Writer σ → List Bytes → Writer σ × Bool
  | w, [] => (w, true)
  | w, b :: bs =>
    match Writer.stdWrite E fuel w b with
    | (w', .done (.ok _)) => session E fuel w' bs
    | (w', _) => (w', false)

theorem session_ok (E : Enc σ) (fuel : Nat) : ∀ (bs : List Bytes) (w w1 : Writer σ), w.armed →
    session E fuel w bs = (w1, true) →
    w1.armed ∧ w1.bufSize = w.bufSize ∧
    ∃ (newE : List ERec) (newL : List LogE), w1.elog = newE ++ w.elog ∧ w1.sink.log = newL ++ w.sink.log ∧
      w1.sink.got = w.sink.got ++ emitted newE ∧ fed newE = bs.flatten ∧
      (∀ e ∈ newL, e.faulty = false) ∧ (∀ r ∈ newE, r.ans.ok = true) := by
  intro bs
  induction bs with
  | nil =>
    intro w w1 ha h
    simp only [session, Prod.mk.injEq] at h
    obtain ⟨h1, _⟩ := h
    subst h1
    exact ⟨ha, rfl, [], [], by simp, by simp, by simp, by simp, by simp, by simp⟩
  | cons b bs ih =>
    intro w w1 ha h
    simp only [session] at h
    unfold Writer.stdWrite at h
    generalize hw : Writer.write E fuel w b = x at h
    obtain ⟨w', o⟩ := x
    cases o with
    | panic => simp at h
    | livelock => simp at h
    | done r =>
      cases r with
      | error e => simp at h
      | ok n =>
        simp only at h
        obtain ⟨_, a2, a3, _, newE, newL, k1, k2, k3, k4, k5, k6⟩ := writeLoop_ok E b.length fuel w w' b n ha hw
        obtain ⟨i1, i2, newE', newL', j1, j2, j3, j4, j5, j6⟩ := ih w' w1 a2 h
        refine ⟨i1, by rw [i2, a3], newE' ++ newE, newL' ++ newL, by rw [j1, k1]; simp, by rw [j2, k2]; simp, ?_, ?_, ?_, ?_⟩
        · rw [j3, k3, emitted_append]; simp
        · rw [fed_append, k4, j4]; simp
        · intro e he
          rcases List.mem_append.mp he with h' | h'
          · exact j5 e h'
          · exact k5 e h'
        · intro r hr
          rcases List.mem_append.mp hr with h' | h'
          · exact j6 r h'
          · exact (k6 r h').2.1

/-- `all_ok_complete` (writer): start from a fresh `CompressorWriter`; if every `write` returned
`Ok` and the closing FINISH (what `into_inner` / `Drop` run) went through, then the encoder has
been fed exactly the concatenation of everything written, in PROCESS calls followed by FINISH
calls, it reports `is_finished`, every one of its calls reported success, and the wrapped sink
holds exactly the bytes it produced, in order, none missing, none twice.  (That these bytes are a
complete brotli stream for the input is the encoder's property — C01.) -/
theorem all_ok_complete_writer (E : Enc σ) (fuel bufSize : Nat) (e : σ) (sink : Sink) (hs : sink.got = [])
    (bs : List Bytes) (w1 w2 : Writer σ)
    (h1 : session E fuel (Writer.new bufSize e sink) bs = (w1, true))
    (h2 : Writer.flushOrClose E .finish fuel w1 = (w2, .done (.ok ()))) :
    w2.sink.got = emitted w2.elog ∧ fed w2.elog = bs.flatten ∧ E.isFinished w2.enc = true ∧
    (∀ r ∈ w2.elog, r.ans.ok = true) ∧ (∀ x ∈ w2.sink.log, x ∈ sink.log ∨ x.faulty = false) := by
  obtain ⟨a1, a2, newE, newL, k1, k2, k3, k4, k5, k6⟩ := session_ok E fuel bs (Writer.new bufSize e sink) w1 ⟨rfl, rfl⟩ h1
  obtain ⟨_, _, _, _, hfin, newE', newL', j1, j2, j3, j4, _, j5, j6⟩ := flushOrClose_ok E .finish fuel w1 w2 a1 h2
  have hnew : (Writer.new bufSize e sink).elog = [] := rfl
  have hnews : (Writer.new bufSize e sink).sink = sink := rfl
  rw [hnew, List.append_nil] at k1
  rw [hnews] at k2 k3
  refine ⟨?_, ?_, by simpa using hfin, ?_, ?_⟩
  · rw [j3, k3, hs, j1, k1, emitted_append]; simp
  · rw [j1, k1, fed_append, j4, k4]; simp
  · intro r hr
    rw [j1, k1] at hr
    rcases List.mem_append.mp hr with h' | h'
    · exact (j6 r h').2.2.1
    · exact k6 r h'
  · intro x hx
    rw [j2, k2] at hx
    rcases List.mem_append.mp hx with h' | h'
    · exact Or.inr (j5 x h')
    · rcases List.mem_append.mp h' with h'' | h''
      · exact Or.inr (k5 x h'')
      · exact Or.inl h''

/-- `all_ok_complete` (reader): a `read` that returns `Ok` hands the caller exactly the bytes the
encoder produced during the call (only its last encoder call produced any), and nothing read from
the source is lost or fed twice: consumed-by-the-encoder ++ waiting-in-the-buffer ++
still-in-the-source is the same byte string before and after.  `Ok(0)` for a non-empty buffer is
only returned once the encoder reports `is_finished`. -/
theorem all_ok_complete_reader (E : Enc σ) (fuel : Nat) (r : Reader σ) (hwf : r.WF) (cap : Nat) (hc : 0 < cap)
    (r' : Reader σ) (bs : Bytes) (h : Reader.read E fuel r cap = (r', .done (.ok bs))) :
    r'.WF ∧ r'.total = r.total ∧
    ∃ newE, r'.elog = newE ++ r.elog ∧ emitted newE = bs ∧ (∀ rc ∈ newE, rc.ans.ok = true) ∧
      (bs = [] → E.isFinished r'.enc = true) := by
  unfold Reader.read at h
  rw [if_neg (by omega), if_neg (by have := hwf.1; omega)] at h
  obtain ⟨a1, a2, _, _, newE, _, k1, k2, _, k4, k5, _, _⟩ := readLoop_ok E cap fuel r r' bs hwf h
  refine ⟨a1, a2, newE, k1, k2, fun rc hrc => (k4 rc hrc).2.1, ?_⟩
  intro hb
  rcases k5 with h' | h'
  · exact h'
  · exact absurd hb h'

/-- `all_ok_complete` (copy function): if it returns `Ok(n)`, the encoder reports `is_finished`,
every encoder call succeeded, nothing is staged any more, the wrapped sink has received exactly
the bytes the encoder produced (in order), `n` is the encoder's running total, and the bytes fed
to the encoder are exactly the bytes the wrapped reader delivered before it signalled EOF -/
theorem all_ok_complete_copy (E : Enc σ) (fuel ib ob : Nat) (e : σ) (src : Source) (sink : Sink) (n : Nat)
    (c' : Copy σ) (h : Copy.run E fuel ib ob e src sink = (c', .done (.ok n))) :
    E.isFinished c'.enc = true ∧ n = c'.totalOut ∧ c'.pending = [] ∧
    c'.sink.got = sink.got ++ emitted c'.elog ∧ fed c'.elog ++ c'.window ++ c'.src.data = src.data ∧
    (∀ r ∈ c'.elog, r.ans.ok = true) := by
  unfold Copy.run at h
  by_cases h0 : ib = 0 ∨ ob = 0
  · simp [h0] at h
  · simp only [h0, if_false] at h
    have hob : 0 < ob := by omega
    obtain ⟨newE, newR, newW, k1, _, _, _, _, _, k7⟩ := Copy.loop_done E fuel _ c' (.ok n)
      ⟨by simp, by simpa using hob, by simp⟩ h
    obtain ⟨_, j2, j3, j4, j5, j6, j7⟩ := k7 n rfl
    simp only [List.append_nil] at k1 j5
    simp only [Copy.window, List.take_zero, List.nil_append] at j6
    subst k1
    exact ⟨j2, j3, j4, by simpa using j5, by simpa [Copy.window] using j6, j7⟩

/-! ## the same for the MODELLED stream machine (M8) instead of an assumed encoder

`streamEnc o` wraps `BV.Stream.compressStream` (another worker's model of encode.rs, imported) as an
`Enc`; `EncSane` and `EncProgress` are PROVED for it (`BV/Lemmas/AdaptersStream*.lean`: cursor balance
of every call; a cross-call rank — "final block / flush still due", padding owed, pending bytes —
that every accepted call with output room which consumed nothing lowers).  NOTHING is assumed about
the payload encoder any more (the former hypothesis `OracleBounded o B` is gone): the rank is a
function of the state alone (`rankPF` / `rankFl` over `stateCap s`, the bound the machine's own storage
sizing puts on what the one encode still due can leave pending), and it does not grow in a call
that consumes nothing (`slowLoop_stalled` / `fastLoop_stalled`, `MCap`).  A call in
which the stream model panics, or that leaves the envelope `Good` (positions ≥ 2^64), makes the
wrapped encoder answer `ok = false` from then on — the adapters then return `Err`; absence of panics
inside the stream machine is C20/C01's subject, not claimed here. -/

section Modelled
open BV.Stream

theorem write_returns_stream (o : Oracle) (w : Writer (Option St))
    (hb : 0 < w.bufSize) (buf : List Nat) :
    ∃ N, ∀ fuel, N ≤ fuel → (Writer.write (streamEnc o) fuel w buf).2 ≠ .livelock :=
  write_returns (streamEnc o) opsPF _ (streamEnc_progress_pf o) (Or.inl rfl) w hb buf

theorem flush_returns_stream (o : Oracle) (w : Writer (Option St))
    (hb : 0 < w.bufSize) :
    ∃ N, ∀ fuel, N ≤ fuel → (Writer.flush (streamEnc o) fuel w).2 ≠ .livelock :=
  flush_returns (streamEnc o) opsFl _ (streamEnc_progress_fl o) rfl w hb

theorem into_inner_returns_stream (o : Oracle) (w : Writer (Option St))
    (hb : 0 < w.bufSize) :
    ∃ N, ∀ fuel, N ≤ fuel → (Writer.intoInner (streamEnc o) fuel w).2 ≠ .livelock :=
  into_inner_returns (streamEnc o) opsPF _ (streamEnc_progress_pf o) (Or.inr rfl) w hb

theorem read_returns_stream (o : Oracle) (r : Reader (Option St))
    (hwf : r.WF) (cap : Nat) :
    ∃ N, ∀ fuel, N ≤ fuel → (Reader.read (streamEnc o) fuel r cap).2 ≠ .livelock :=
  read_returns (streamEnc o) opsPF _ (streamEnc_progress_pf o) ⟨Or.inl rfl, Or.inr rfl⟩ r hwf cap

theorem copy_terminates_stream (o : Oracle) (ib ob : Nat) (e : Option St)
    (src : Source) (sink : Sink) :
    ∃ N, ∀ fuel, N ≤ fuel → (Copy.run (streamEnc o) fuel ib ob e src sink).2 ≠ .livelock :=
  copy_terminates (streamEnc o) opsPF _ (streamEnc_progress_pf o) ⟨Or.inl rfl, Or.inr rfl⟩ ib ob e src sink

/-- and the adapters never index outside their buffers because of it -/
theorem stream_encoder_is_sane (o : Oracle) : EncSane (streamEnc o) :=
  streamEnc_sane o

/-- the wrapped encoder does not die by itself: after any call that left it alive it is inside the
envelope again, and a freshly initialised encoder is inside it -/
theorem stream_encoder_stays_alive (o : Oracle) (s : Option St) (op : Op)
    (inp : List Nat) (cap : Nat) (s' : St) (h : ((streamEnc o).step s op inp cap).1 = some s') : Good s' :=
  streamEnc_alive o s op inp cap s' h

example : Good (ensureInitialized St.new) := good_fresh ⟨{}, rfl⟩

end Modelled

/-! ## non-vacuity: the hypotheses are met by concrete values -/

example : EncSane toyEnc := toy_sane
example : EncProgress toyEnc allOps toyRank := toy_progress
example : (Writer.new 3 (⟨[], false⟩ : Toy) ⟨[.atMost 1, .intr, .zero], .full, [], [], []⟩).armed := ⟨rfl, rfl⟩
example : 0 < (Writer.new 1 (⟨[], false⟩ : Toy) ⟨[], .zero, [], [], []⟩).bufSize := by decide
example : (Reader.new 1 (⟨[], false⟩ : Toy) ⟨[1, 2, 3], [.atMost 1, .intr], .atMost 2, []⟩).WF := Reader.new_WF _ _ _
example : (⟨[.atMost 1, .intr, .full], .atMost 3, [], [], []⟩ : Sink).faultFree := by
  constructor
  · intro b hb; simp at hb; rcases hb with h | h | h <;> subst h <;> rfl
  · rfl
example : LogE.faulty ⟨0, 5, .n 0⟩ = true := rfl
example : LogE.faulty ⟨0, 5, .err 3⟩ = true := rfl
example : LogE.faulty ⟨0, 5, .n 2⟩ = false := rfl
example : Reader.Sim (Reader.new 4 (⟨[], false⟩ : Toy) ⟨[7, 8, 9], [.atMost 1, .intr], .full, []⟩)
                     (Reader.new 4 (⟨[], false⟩ : Toy) ⟨[7, 8, 9], [], .atMost 2, []⟩) :=
  short_reads_transparent_start 4 _ _ _ _ _ _
    (by intro b hb; simp at hb; rcases hb with h | h <;> subst h <;> rfl) (by intro b hb; simp at hb) rfl rfl

end BV.Props.C11
