/-
C14Chain — the payload hypothesis of C14 (`PayloadOK`: "the encoder's commands decode to the meta-block input")
DISCHARGED for quality 2–9 by composition with the C01 chain (BV/Props/C01Chain.lean).

Property theorems ONLY; no new model: `createBackwardReferences` / `closeMetaBlock` are BV/Model/Cbr.lean (tied by
`hasher cbr`), `logMetaBlock` / `replayIR` / `replayCommands` are BV/Model/Recoder.lean (tied by `recoder`).

What is proved: for every meta-block whose command array is the output of ONE `CreateBackwardReferences` call
(quality 2–9 loop, NPOSTFIX = NDIRECT = 0) over a hasher satisfying `OpsOK` (BasicHasher / AdvHasher / H9: a theorem,
`*_basic/_adv/_h9`), closed by the insert-only command as encode.rs does, and logged by `LogMetaBlock` with the distance
cache in force at the start of the block (`saved_dist_cache_`) and the recoder position = length of the history:

* `payload_ok_q29`   — `PayloadOK` itself (C14's hypothesis) is a theorem;
* `cmds_wf_q29`      — `CmdsWF` (C14's `DistWF` + u32 insert length for every command) is a theorem: no
                       "provided the commands were stored by Command::init" side condition is left;
* `recode_replays_input_q29` — hence: the IR handed to the callback replays to history ++ meta-block input byte for
                       byte and `num_bytes_encoded` advances by exactly the meta-block length, with NO payload
                       hypothesis: what is left are the chain's own hypotheses (`BlockOK`: the ring buffer holds the
                       text; `OpsOK`; the word oracle agreeing with the looked-up dictionary slots) and `OracleOK`
                       (the recoder's `TransformDictionaryWord` callee = the same word oracle).

* `merged_metablock_q29` / `recode_replays_input_q29_merged` — the same for a meta-block that MERGES several
                       `CreateBackwardReferences` calls (encode.rs keeps appending the commands of successive input
                       blocks to one meta-block; the `last_insert_len` pending after a call becomes the insert length of
                       the next call's first command): `Merged` (BV/Lemmas/CbrMerge.lean) records any sequence of calls —
                       per call any hasher type / state, the ring-buffer contents of that moment, the carried distance
                       cache and `last_insert_len` — and the closed command array of the whole meta-block satisfies
                       `cmdOK`, `lockstep`, `CmdsWF` and `PayloadOK`.  `extend_last_command` (run by `encode_data`
                       between two merged calls when the previous call ended exactly on a copy, `last_insert_len = 0`;
                       it lengthens that copy while the new input continues it and recomputes `cmd_prefix_`) is the
                       constructor `Merged.extend`: its hypotheses are decoder-level — the last command is executed as
                       an LZ77 copy at distance `D` (`LastCopy`), copying `n` more bytes at that distance from the
                       output so far reproduces the next `n` input bytes, the new command has the same insert length
                       and distance fields and copy length / copy length code `n` larger, and is `GoodCmd` — and
                       `decStep_extend` shows the decoder then executes the longer command.  That the real function's
                       tests (`distance_code < 16 || distance_code − 15 == dist_cache_[0]`, `dist_cache_[0] ≤
                       max_distance`, ring-buffer byte comparisons) imply these hypotheses is NOT derived here (model of
                       the function: w-e2e's `BV.E2E.extendLastCommand`, tied by engine `e2e`; its FIELD part is
                       derived: `merged_extend_of_e2e` via `extendLastCommand_fields`).

Still assumed / out of scope: quality 10/11 (Zopfli model, C01zzzzy), quality 0/1 (no commands: fragment writers),
NPOSTFIX/NDIRECT ≠ 0 (FONT mode), the 3 GiB position wrap, the link from `extend_last_command`'s tests to
`Merged.extend`'s hypotheses.
-/
import BV.Props.C01Chain
import BV.Props.C14
import BV.Lemmas.CbrMerge
import BV.Lemmas.ExtendFields

namespace BV.Props.C14Chain
open BV.Hasher BV.MatchFinder BV.Recoder BV.PrefixArith BV.MetaBlock BV.Cbr BV.Props.C01Chain BV.Props.C14

/-! ### well-formedness of the distance fields from the writers' `cmdOK` -/

/-- a command that copies and satisfies the writers' `cmdOK` (NPOSTFIX = NDIRECT = 0) has C14's `DistWF` -/
theorem distWF_of_cmdOK (A : Nat) (c : Cmd) (h : cmdOK A 0 0 c = true) (hc : copyLen c ≠ 0) : DistWF c ⟨0, 0⟩ := by
  unfold cmdOK at h
  simp only [Bool.and_eq_true, decide_eq_true_eq, Bool.or_eq_true, hc, false_or] at h
  obtain ⟨⟨_, hu16⟩, hlong⟩ := h
  refine ⟨hu16, ?_⟩
  intro hge
  simp only [Nat.add_zero] at hge hlong
  rw [if_neg (by omega)] at hlong
  simp only [Bool.and_eq_true, decide_eq_true_eq] at hlong
  exact ⟨hlong.1.1, hlong.2⟩

/-- the closing insert-only command (`Command::init_insert`: `dist_prefix_ = 1 << 10 | 16`, no extra bits) -/
theorem distWF_initInsert (l : Nat) : DistWF (initInsert l) ⟨0, 0⟩ := by
  have hdp : (initInsert l).distPrefix = 1040 := by simp only [initInsert]; decide
  have hde : (initInsert l).distExtra = 0 := rfl
  refine ⟨by rw [hdp]; decide, ?_⟩
  intro _
  rw [hdp, hde]
  decide

/-- the per-command obligation of the loop theorem is monotone in the predicate, for commands that copy -/
theorem emitHyp_mono {slotOK : DictItem → Prop} {C : Ctx} {p : Params} {G1 G2 : Cmd → Prop}
    (h : EmitHyp slotOK C p G1) (hg : ∀ c, G1 c → copyLen c ≠ 0 → G2 c) : EmitHyp slotOK C p G2 := by
  intro d pos ins sr cache a1 a2 a3 a4 a5 a6 a7
  obtain ⟨cmd, cache', d', e1, e2, e3, e4, e5, e6, e7, e8, e9, e10, e11⟩ := h d pos ins sr cache a1 a2 a3 a4 a5 a6 a7
  exact ⟨cmd, cache', d', e1, e2, e3, e4, e5, e6, e7, e8, e9, e10, hg cmd e11 (by rw [e9]; exact e10)⟩

/-- what the chain delivers about one call, with the command well-formedness C14 needs added -/
theorem commands_lockstep_wf {H : Type} (ops : HasherOps H) (p : Params) (large : Bool) (wo : WordOracle)
    (data : ByteArray) (k tail : Nat) (hist mb : Bytes) (lo : Nat)
    (hb : BlockOK p large data k tail hist mb lo) (hops : OpsOK (SlotOK wo) ops p data k)
    (numBytes position : Nat) (h0 : H) (cache : List Int) (lastInsertLen numLiterals : Nat) (res : Result H)
    (hpos : position = hist.length + lastInsertLen) (hmb : mb.length = lastInsertLen + numBytes)
    (hc : CacheI32 cache) (hcl : 4 ≤ cache.length)
    (h : createBackwardReferences ops p numBytes position h0 cache lastInsertLen numLiterals = some res) :
    CmdsWF (closeMetaBlock res.cmds res.lastInsertLen) ⟨0, 0⟩ := by
  have hemit := emitHyp_mono
    (emitHyp_all ⟨wo, data, k, hist, mb, lo⟩ p large hb.np hb.nd tail hb.ring hb.tail_le hb.block_le hb.lo_le hb.window
      hb.std hb.dist hb.len)
    (G2 := fun c => DistWF c ⟨0, 0⟩ ∧ c.insertLen < 2 ^ 32)
    (fun c hc hne => ⟨distWF_of_cmdOK _ c hc hne, by
      unfold cmdOK at hc
      simp only [Bool.and_eq_true, decide_eq_true_eq] at hc
      have := hc.1.1.1.1.1.1.2
      omega⟩)
  obtain ⟨_, b, _⟩ := cbr_lockstep (C := ⟨wo, data, k, hist, mb, lo⟩) hops hemit
    (fun l _ hl => ⟨distWF_initInsert l, by
      have := hb.len
      simp only [initInsert]
      exact Nat.mod_lt _ (by decide)⟩)
    numBytes position h0 cache lastInsertLen numLiterals res hpos hmb
    (show mb.length < 2 ^ 32 by have := hb.len; omega) hb.total hc hcl h
  exact b

/-! ### C14's hypotheses as theorems -/

theorem windowSize_eq (p : Params) : windowSize p.lgwin = maxBackwardLimit p := by
  unfold windowSize maxBackwardLimit
  rw [Nat.one_shiftLeft]

/-- the distance cache the logger receives (`saved_dist_cache_`: the first four entries at the start of the block) -/
theorem cacheOk_take4 (cache : List Int) (hc : CacheI32 cache) (hcl : 4 ≤ cache.length) : CacheOk (cache.take 4) :=
  ⟨by rw [List.length_take]; omega, hc⟩

/-- **`payload_ok_q29`** — C14's payload hypothesis `PayloadOK` holds for the command array of one
`CreateBackwardReferences` call (any hasher satisfying `OpsOK`), for EVERY history `hist` (custom-dictionary tail ++
earlier input), every i32 distance cache and every carried `last_insert_len`.  `e` is any recoder environment with the
block's window and distance parameters (block splits, detection settings and the dictionary callee are free). -/
theorem payload_ok_q29 {H : Type} (ops : HasherOps H) (p : Params) (large : Bool) (wo : WordOracle)
    (data : ByteArray) (k tail : Nat) (hist mb : Bytes) (lo : Nat)
    (hb : BlockOK p large data k tail hist mb lo) (hops : OpsOK (SlotOK wo) ops p data k)
    (numBytes position : Nat) (h0 : H) (cache : List Int) (lastInsertLen numLiterals : Nat) (res : Result H)
    (hpos : position = hist.length + lastInsertLen) (hmb : mb.length = lastInsertLen + numBytes)
    (hc : CacheI32 cache) (hcl : 4 ≤ cache.length)
    (h : createBackwardReferences ops p numBytes position h0 cache lastInsertLen numLiterals = some res)
    (e : Env) (hdp : e.dp = ⟨0, 0⟩) (hlg : e.lgwin = p.lgwin) :
    PayloadOK wo e mb (cache.take 4) hist (closeMetaBlock res.cmds res.lastInsertLen) := by
  unfold PayloadOK
  rw [hdp, hlg, windowSize_eq]
  exact (commands_lockstep ops p large wo data k tail hist mb lo hb hops numBytes position h0 cache lastInsertLen
    numLiterals res hpos hmb hc hcl h).2.2

/-- **`cmds_wf_q29`** — C14's `CmdsWF` (every command has `DistWF` and a u32 insert length) for the same array -/
theorem cmds_wf_q29 {H : Type} (ops : HasherOps H) (p : Params) (large : Bool) (wo : WordOracle)
    (data : ByteArray) (k tail : Nat) (hist mb : Bytes) (lo : Nat)
    (hb : BlockOK p large data k tail hist mb lo) (hops : OpsOK (SlotOK wo) ops p data k)
    (numBytes position : Nat) (h0 : H) (cache : List Int) (lastInsertLen numLiterals : Nat) (res : Result H)
    (hpos : position = hist.length + lastInsertLen) (hmb : mb.length = lastInsertLen + numBytes)
    (hc : CacheI32 cache) (hcl : 4 ≤ cache.length)
    (h : createBackwardReferences ops p numBytes position h0 cache lastInsertLen numLiterals = some res)
    (e : Env) (hdp : e.dp = ⟨0, 0⟩) :
    CmdsWF (closeMetaBlock res.cmds res.lastInsertLen) e.dp := by
  rw [hdp]
  exact commands_lockstep_wf ops p large wo data k tail hist mb lo hb hops numBytes position h0 cache lastInsertLen
    numLiterals res hpos hmb hc hcl h

/-- **`recode_replays_input_q29`** — the end-to-end statement of C14 for quality 2–9 WITHOUT the payload hypothesis:
the meta-block `i0 ++ i1` (the two ring-buffer halves of the `InputPair`) was searched by `CreateBackwardReferences`
(abstract hasher satisfying `OpsOK`) and its closed command array is logged by `LogMetaBlock` (any block-split
description, any detection settings) at recoder position `hist.length` with the distance cache of the start of the
block.  If the logger does not panic, the IR handed to the callback replays to `hist ++ input` byte for byte — every
copy has `1 ≤ distance ≤ produced + dictionary` and `≤ window`, every dictionary command expands to `final_size` — and
`num_bytes_encoded` advances by exactly the meta-block length. -/
theorem recode_replays_input_q29 {H : Type} (ops : HasherOps H) (p : Params) (large : Bool) (wo : WordOracle)
    (data : ByteArray) (k tail : Nat) (hist i0 i1 : Bytes) (lo : Nat)
    (hb : BlockOK p large data k tail hist (i0 ++ i1) lo) (hops : OpsOK (SlotOK wo) ops p data k)
    (numBytes position : Nat) (h0 : H) (cache : List Int) (lastInsertLen numLiterals : Nat) (res : Result H)
    (hpos : position = hist.length + lastInsertLen) (hmb : (i0 ++ i1).length = lastInsertLen + numBytes)
    (hc : CacheI32 cache) (hcl : 4 ≤ cache.length)
    (h : createBackwardReferences ops p numBytes position h0 cache lastInsertLen numLiterals = some res)
    (e : Env) (hdp : e.dp = ⟨0, 0⟩) (hlg : e.lgwin = p.lgwin) (horacle : OracleOK e.expand wo)
    (ir : List IR) (nbe' : Nat)
    (hm : logMetaBlock e i0 i1 (closeMetaBlock res.cmds res.lastInsertLen) (cache.take 4) hist.length = some (ir, nbe')) :
    replayIR wo (windowSize e.lgwin) (i0 ++ i1) ir hist = some (hist ++ (i0 ++ i1)) ∧
      nbe' = hist.length + (i0 ++ i1).length := by
  have hE : EnvOK e wo (windowSize e.lgwin) :=
    ⟨rfl, by rw [hlg, windowSize_eq]; have := hb.window; omega, horacle⟩
  exact recode_replays_input wo e i0 i1 _ (cache.take 4) hist ir nbe' hE
    (by have := hb.len; omega) (cacheOk_take4 cache hc hcl)
    (cmds_wf_q29 ops p large wo data k tail hist (i0 ++ i1) lo hb hops numBytes position h0 cache lastInsertLen numLiterals
      res hpos hmb hc hcl h e hdp) hm
    (payload_ok_q29 ops p large wo data k tail hist (i0 ++ i1) lo hb hops numBytes position h0 cache lastInsertLen
      numLiterals res hpos hmb hc hcl h e hdp hlg)

/-- the three bucketed hasher families: nothing about the hasher is assumed (`OpsOK` is `match_sound_*`) -/
theorem recode_replays_input_q29_basic (P : BasicP) (useDict : Bool) (lbs : Nat) (p : Params) (large : Bool)
    (wo : WordOracle) (data : ByteArray) (k tail : Nat) (hk : k ≤ 32) (hist i0 i1 : Bytes) (lo : Nat)
    (hb : BlockOK p large data k tail hist (i0 ++ i1) lo)
    (dict : ByteArray → Nat → Option (List DictItem)) (hd : DictFaithful wo dict data)
    (numBytes position : Nat) (b0 : Tab) (c0 : Common) (cache : List Int) (lastInsertLen numLiterals : Nat)
    (res : Result (Tab × Common))
    (hpos : position = hist.length + lastInsertLen) (hmb : (i0 ++ i1).length = lastInsertLen + numBytes)
    (hc : CacheI32 cache) (hcl : 4 ≤ cache.length)
    (h : createBackwardReferences (basicOps P useDict lbs dict data (2 ^ k - 1)) p numBytes position
      (b0, c0) cache lastInsertLen numLiterals = some res)
    (e : Env) (hdp : e.dp = ⟨0, 0⟩) (hlg : e.lgwin = p.lgwin) (horacle : OracleOK e.expand wo)
    (ir : List IR) (nbe' : Nat)
    (hm : logMetaBlock e i0 i1 (closeMetaBlock res.cmds res.lastInsertLen) (cache.take 4) hist.length = some (ir, nbe')) :
    replayIR wo (windowSize e.lgwin) (i0 ++ i1) ir hist = some (hist ++ (i0 ++ i1)) ∧
      nbe' = hist.length + (i0 ++ i1).length :=
  recode_replays_input_q29 _ p large wo data k tail hist i0 i1 lo hb (basicOps_ok _ P useDict lbs _ data k hk p hd)
    numBytes position (b0, c0) cache lastInsertLen numLiterals res hpos hmb hc hcl h e hdp hlg horacle ir nbe' hm

theorem recode_replays_input_q29_adv (P : AdvP) (hla : 4 ≤ P.lookahead) (numLast lbs : Nat) (p : Params) (large : Bool)
    (wo : WordOracle) (data : ByteArray) (k tail : Nat) (hk : k ≤ 32) (hist i0 i1 : Bytes) (lo : Nat)
    (hb : BlockOK p large data k tail hist (i0 ++ i1) lo)
    (dict : ByteArray → Nat → Option (List DictItem)) (hd : DictFaithful wo dict data)
    (numBytes position : Nat) (st0 : AdvSt) (c0 : Common) (cache : List Int) (lastInsertLen numLiterals : Nat)
    (res : Result (AdvSt × Common))
    (hpos : position = hist.length + lastInsertLen) (hmb : (i0 ++ i1).length = lastInsertLen + numBytes)
    (hc : CacheI32 cache) (hcl : 4 ≤ cache.length)
    (h : createBackwardReferences (advOps P numLast lbs dict data (2 ^ k - 1)) p numBytes position
      (st0, c0) cache lastInsertLen numLiterals = some res)
    (e : Env) (hdp : e.dp = ⟨0, 0⟩) (hlg : e.lgwin = p.lgwin) (horacle : OracleOK e.expand wo)
    (ir : List IR) (nbe' : Nat)
    (hm : logMetaBlock e i0 i1 (closeMetaBlock res.cmds res.lastInsertLen) (cache.take 4) hist.length = some (ir, nbe')) :
    replayIR wo (windowSize e.lgwin) (i0 ++ i1) ir hist = some (hist ++ (i0 ++ i1)) ∧
      nbe' = hist.length + (i0 ++ i1).length :=
  recode_replays_input_q29 _ p large wo data k tail hist i0 i1 lo hb (advOps_ok _ P numLast lbs _ data k hk p hla hd)
    numBytes position (st0, c0) cache lastInsertLen numLiterals res hpos hmb hc hcl h e hdp hlg horacle ir nbe' hm

theorem recode_replays_input_q29_h9 (P : H9P) (lbs : Nat) (p : Params) (large : Bool)
    (wo : WordOracle) (data : ByteArray) (k tail : Nat) (hk : k ≤ 32) (hist i0 i1 : Bytes) (lo : Nat)
    (hb : BlockOK p large data k tail hist (i0 ++ i1) lo)
    (dict : ByteArray → Nat → Option (List DictItem)) (hd : DictFaithful wo dict data)
    (numBytes position : Nat) (st0 : AdvSt) (c0 : Common) (cache : List Int) (lastInsertLen numLiterals : Nat)
    (res : Result (AdvSt × Common))
    (hpos : position = hist.length + lastInsertLen) (hmb : (i0 ++ i1).length = lastInsertLen + numBytes)
    (hc : CacheI32 cache) (hcl : 4 ≤ cache.length)
    (h : createBackwardReferences (h9Ops P lbs dict data (2 ^ k - 1)) p numBytes position
      (st0, c0) cache lastInsertLen numLiterals = some res)
    (e : Env) (hdp : e.dp = ⟨0, 0⟩) (hlg : e.lgwin = p.lgwin) (horacle : OracleOK e.expand wo)
    (ir : List IR) (nbe' : Nat)
    (hm : logMetaBlock e i0 i1 (closeMetaBlock res.cmds res.lastInsertLen) (cache.take 4) hist.length = some (ir, nbe')) :
    replayIR wo (windowSize e.lgwin) (i0 ++ i1) ir hist = some (hist ++ (i0 ++ i1)) ∧
      nbe' = hist.length + (i0 ++ i1).length :=
  recode_replays_input_q29 _ p large wo data k tail hist i0 i1 lo hb (h9Ops_ok _ P lbs _ data k hk p hd)
    numBytes position (st0, c0) cache lastInsertLen numLiterals res hpos hmb hc hcl h e hdp hlg horacle ir nbe' hm


/-! ### meta-blocks merged from several `CreateBackwardReferences` calls -/

/-- what is recorded about every command: the writers' `cmdOK` and C14's well-formedness -/
def GoodCmd (large : Bool) (c : Cmd) : Prop :=
  cmdOK (distAlphabetSize large 0 0) 0 0 c = true ∧ DistWF c ⟨0, 0⟩ ∧ c.insertLen < 2 ^ 32

/-- the per-call obligation of `Merged.call` from the chain's `BlockOK` of the call's LOCAL view (history =
everything the decoder has produced when the call's first command starts, block = pending literals ++ the call's
`num_bytes`) -/
theorem emitHyp_good (wo : WordOracle) (p : Params) (large : Bool) (data : ByteArray) (k tail : Nat) (hist mb : Bytes)
    (lo : Nat) (hb : BlockOK p large data k tail hist mb lo) :
    EmitHyp (SlotOK wo) ⟨wo, data, k, hist, mb, lo⟩ p (GoodCmd large) :=
  emitHyp_mono
    (emitHyp_all ⟨wo, data, k, hist, mb, lo⟩ p large hb.np hb.nd tail hb.ring hb.tail_le hb.block_le hb.lo_le hb.window
      hb.std hb.dist hb.len)
    (fun c hc hne => ⟨hc, distWF_of_cmdOK _ c hc hne, by
      unfold cmdOK at hc
      simp only [Bool.and_eq_true, decide_eq_true_eq] at hc
      have := hc.1.1.1.1.1.1.2
      omega⟩)

/-- **`merged_metablock_q29`** — a meta-block `M` (≤ 2^24 bytes) whose commands were produced by ANY sequence of
`CreateBackwardReferences` calls (`Merged`: each call continues where the previous one stopped, with the distance cache
and `last_insert_len` the previous call returned), closed by the insert-only command: every command is `cmdOK`, the
array satisfies `lockstep` and `CmdsWF`, and the RFC decoder started with the history and the distance cache of the
START of the meta-block (`saved_dist_cache_`) replays it to `hist ++ M`. -/
theorem merged_metablock_q29 (wo : WordOracle) (p : Params) (large : Bool) (hnp : p.npostfix = 0) (hnd : p.ndirect = 0)
    (hist M : Bytes) (cache0 : List Int) (h24 : M.length ≤ 2 ^ 24) (h64 : hist.length + M.length < 2 ^ 64)
    (hc0 : CacheI32 cache0) (hcl0 : 4 ≤ cache0.length)
    (cmds : List Cmd) (c : Nat) (cache : List Int) (lil : Nat)
    (hm : Merged (SlotOK wo) wo p (GoodCmd large) hist M cache0 cmds c cache lil M.length) :
    (∀ x ∈ closeMetaBlock cmds lil, cmdOK (distAlphabetSize large 0 0) 0 0 x = true) ∧
    lockstep wo 0 0 (maxBackwardLimit p) M ⟨hist, cache0.take 4, 0⟩ 0 (closeMetaBlock cmds lil) = true ∧
    CmdsWF (closeMetaBlock cmds lil) ⟨0, 0⟩ ∧
    replayCommands wo 0 0 (maxBackwardLimit p) M (cache0.take 4) hist (closeMetaBlock cmds lil) = some (hist ++ M) := by
  obtain ⟨a, b, c'⟩ := merged_close h64 (by omega) hc0 hcl0
    (fun l _ hl => (⟨cmdOK_initInsert large l (Nat.le_trans hl h24), distWF_initInsert l, by
      simp only [initInsert]; exact Nat.mod_lt _ (by decide)⟩ : GoodCmd large (initInsert l))) hm
  rw [hnp, hnd] at a c'
  exact ⟨fun x hx => (b x hx).1, a, fun x hx => ⟨(b x hx).2.1, (b x hx).2.2⟩, c'⟩

/-- **`recode_replays_input_q29_merged`** — C14's end-to-end statement for a meta-block merged from any number of
`CreateBackwardReferences` calls, no payload hypothesis: if `LogMetaBlock` does not panic on the closed array, the IR
replays to `hist ++ input` and `num_bytes_encoded` advances by the meta-block length. -/
theorem recode_replays_input_q29_merged (wo : WordOracle) (p : Params) (large : Bool) (hnp : p.npostfix = 0)
    (hnd : p.ndirect = 0) (hwin : maxBackwardLimit p ≤ 2 ^ 30)
    (hist i0 i1 : Bytes) (cache0 : List Int) (h24 : (i0 ++ i1).length ≤ 2 ^ 24)
    (h64 : hist.length + (i0 ++ i1).length < 2 ^ 64) (hc0 : CacheI32 cache0) (hcl0 : 4 ≤ cache0.length)
    (cmds : List Cmd) (c : Nat) (cache : List Int) (lil : Nat)
    (hm : Merged (SlotOK wo) wo p (GoodCmd large) hist (i0 ++ i1) cache0 cmds c cache lil (i0 ++ i1).length)
    (e : Env) (hdp : e.dp = ⟨0, 0⟩) (hlg : e.lgwin = p.lgwin) (horacle : OracleOK e.expand wo)
    (ir : List IR) (nbe' : Nat)
    (hlog : logMetaBlock e i0 i1 (closeMetaBlock cmds lil) (cache0.take 4) hist.length = some (ir, nbe')) :
    replayIR wo (windowSize e.lgwin) (i0 ++ i1) ir hist = some (hist ++ (i0 ++ i1)) ∧
      nbe' = hist.length + (i0 ++ i1).length := by
  obtain ⟨_, _, hwf, hrep⟩ := merged_metablock_q29 wo p large hnp hnd hist (i0 ++ i1) cache0 h24 h64 hc0 hcl0 cmds c cache
    lil hm
  have hE : EnvOK e wo (windowSize e.lgwin) := ⟨rfl, by rw [hlg, windowSize_eq]; omega, horacle⟩
  exact recode_replays_input wo e i0 i1 _ (cache0.take 4) hist ir nbe' hE (by omega) (cacheOk_take4 cache0 hc0 hcl0)
    (by rw [hdp]; exact hwf) hlog (by unfold PayloadOK; rw [hdp, hlg, windowSize_eq]; exact hrep)

/-- **`merged_extend_of_e2e`** — `Merged.extend` with its FIELD hypotheses discharged against the tied model of
`extend_last_command` (w-e2e's `BV.E2E.extendLastCommand`, engine `e2e`): whatever the function returns for the last
command `c` — `(c', n)` —, the record of the merged meta-block continues with `c'` in place of `c`, `n` bytes further,
provided the decoder-level facts hold: `c` was executed as an LZ77 copy at distance `D` (`LastCopy`), copying `n` more
bytes at that distance reproduces the next `n` input bytes, `c'` is `GoodCmd`; and the 25-bit length field does not carry
(`copy_len + n < 2^25`, delta `< 64`). -/
theorem merged_extend_of_e2e (wo : WordOracle) (p : Params) (large : Bool) (hist M : Bytes) (cache0 : List Int)
    (cmds : List Cmd) (c c' : Cmd) (cur : Nat) (cache : List Int) (n D : Nat)
    (hm : Merged (SlotOK wo) wo p (GoodCmd large) hist M cache0 (cmds ++ [c]) cur cache 0 cur)
    (e : BV.E2E.EParams) (data : ByteArray) (mask lp : Nat) (dc0 : Int) (bytes wlp : Nat)
    (hx : BV.E2E.extendLastCommand e data mask lp dc0 c bytes wlp = some (c', n))
    (hd : c.copyLenField >>> 25 < 64) (hn : copyLen c + n < 33554432) (hle : cur + n ≤ M.length)
    (hg : GoodCmd large c') (hlast : LastCopy wo p hist M cache0 cmds c D)
    (hcopy : copyBytes n D (hist ++ M.take cur) = hist ++ M.take (cur + n)) :
    Merged (SlotOK wo) wo p (GoodCmd large) hist M cache0 (cmds ++ [c']) (cur + n) cache 0 (cur + n) := by
  obtain ⟨a1, a2, a3, a4, a5⟩ := BV.E2E.extendLastCommand_fields e data mask lp dc0 c c' bytes wlp n hx hd hn
  exact Merged.extend cmds c c' cur cache n D hm hle a1 a2 a3 a4 a5 hg hlast hcopy

/-! ### non-vacuity: the run of `BV.Cbr.Example` (8 literals, the static-dictionary word "time", 20 closing literals),
logged by `LogMetaBlock` — every hypothesis of `recode_replays_input_q29_basic` is met by concrete values, and its
conclusion is the replay of the IR -/

/-- the recoder's dictionary callee for the example: the same word oracle, addressed by `dictionary_offset` -/
def exEnv : Env :=
  { dp := ⟨0, 0⟩, lgwin := 10, hedq := 0, ctxSome := true, btl := Split.nop, btc := Split.nop, btd := Split.nop,
    expand := fun cl off => Example.oracle cl (off % 2 ^ (dictSizeBits.getD cl 0)) (off / 2 ^ (dictSizeBits.getD cl 0)) }

theorem exEnv_oracle : OracleOK exEnv.expand Example.oracle := by
  refine ⟨fun _ _ _ _ => rfl, ?_⟩
  intro ws id tr word h
  unfold Example.oracle at h
  split at h
  · repeat' split at h
    all_goals first | (simp only [Option.some.injEq] at h; subst h; exact ⟨by omega, by decide⟩) | cases h
  · cases h

example : ∃ res ir, createBackwardReferences (basicOps Example.hasher true 540 Example.dict Example.data (2 ^ 6 - 1))
      Example.params 32 0 (Array.replicate 32 0, ⟨0, 0⟩) [4, 11, 15, 16] 0 0 = some res ∧
    logMetaBlock exEnv Example.text [] (closeMetaBlock res.cmds res.lastInsertLen) [4, 11, 15, 16] 0 = some (ir, 32) ∧
    ir = [IR.bsl 0, IR.lit 0 8 false, IR.dict 4 0 4 5, IR.lit 12 20 false] ∧
    replayIR Example.oracle (windowSize 10) Example.text ir [] = some Example.text := by
  have hb : BlockOK Example.params false Example.data 6 32 [] (Example.text ++ []) 0 :=
    ⟨rfl, rfl, by rw [List.append_nil]; exact Example.ring_ok, by decide, by decide, by decide, by decide,
      fun _ => by decide, fun _ => by decide, by decide, by decide⟩
  cases hr : createBackwardReferences (basicOps Example.hasher true 540 Example.dict Example.data (2 ^ 6 - 1))
      Example.params 32 0 (Array.replicate 32 0, ⟨0, 0⟩) [4, 11, 15, 16] 0 0 with
  | none => have := Example.run; rw [hr] at this; cases this
  | some res =>
    have hrun := Example.run
    rw [hr] at hrun
    simp only [Option.map_some, Option.some.injEq, Prod.mk.injEq] at hrun
    have hcm : closeMetaBlock res.cmds res.lastInsertLen = [⟨8, 4, 1, 186, 3092⟩, initInsert 20] := by
      rw [hrun.1, hrun.2.1]; rfl
    have hlog : logMetaBlock exEnv Example.text [] (closeMetaBlock res.cmds res.lastInsertLen) [4, 11, 15, 16] 0
        = some ([IR.bsl 0, IR.lit 0 8 false, IR.dict 4 0 4 5, IR.lit 12 20 false], 32) := by
      rw [hcm]; decide +kernel
    obtain ⟨hrep, _⟩ := recode_replays_input_q29_basic Example.hasher true 540 Example.params false Example.oracle
      Example.data 6 32 (by decide) [] Example.text [] 0 hb Example.dict Example.dict_ok 32 0 (Array.replicate 32 0) ⟨0, 0⟩
      [4, 11, 15, 16] 0 0 res rfl (by decide)
      (by intro x hx; simp at hx; rcases hx with rfl | rfl | rfl | rfl <;> decide) (by decide) hr
      exEnv rfl rfl exEnv_oracle _ 32 hlog
    exact ⟨res, _, rfl, hlog, rfl, by simpa [exEnv] using hrep⟩

/-- non-vacuity of `Merged` / `merged_metablock_q29`: the same 32-byte text searched in TWO calls (24 bytes, then 8 bytes
with the 12 literals pending after the first call carried over); the merged, closed array is the one of the single call -/
example : ∃ cmds c cache lil,
    Merged (SlotOK Example.oracle) Example.oracle Example.params (GoodCmd false) [] Example.text [4, 11, 15, 16] cmds c cache
      lil Example.text.length ∧
    closeMetaBlock cmds lil = [⟨8, 4, 1, 186, 3092⟩, initInsert 20] ∧
    replayCommands Example.oracle 0 0 (maxBackwardLimit Example.params) Example.text [4, 11, 15, 16] []
      (closeMetaBlock cmds lil) = some Example.text := by
  let ops := basicOps Example.hasher true 540 Example.dict Example.data (2 ^ 6 - 1)
  have hops : OpsOK (SlotOK Example.oracle) ops Example.params Example.data 6 :=
    basicOps_ok _ Example.hasher true 540 _ Example.data 6 (by decide) Example.params Example.dict_ok
  have hring : ∀ n, n ≤ 32 → RingView Example.data 6 32 (Example.text.take n) 0 n := by
    intro n hn
    refine ⟨?_, fun p _ hp h64 => absurd h64 (by omega)⟩
    intro p _ hp
    have h1 : ∀ p, p < 32 → ringBytes Example.data (p % 2 ^ 6) = Example.text.getD p 0 := by decide +kernel
    rw [h1 p (by omega)]
    simp only [List.getD_eq_getElem?_getD, List.getElem?_take, if_pos hp]
  have hrun1 : (createBackwardReferences ops Example.params 24 0 (Array.replicate 32 0, ⟨0, 0⟩) [4, 11, 15, 16] 0 0).map
      (fun r => (r.cmds, r.lastInsertLen, r.cache)) = some ([⟨8, 4, 1, 186, 3092⟩], 12, [4, 11, 15, 16]) := by
    decide +kernel
  have hrun2 : (createBackwardReferences ops Example.params 8 24 (Array.replicate 32 0, ⟨0, 0⟩) [4, 11, 15, 16] 12 0).map
      (fun r => (r.cmds, r.lastInsertLen, r.cache)) = some ([], 20, [4, 11, 15, 16]) := by
    decide +kernel
  cases hr1 : createBackwardReferences ops Example.params 24 0 (Array.replicate 32 0, ⟨0, 0⟩) [4, 11, 15, 16] 0 0 with
  | none => rw [hr1] at hrun1; cases hrun1
  | some res1 =>
    rw [hr1] at hrun1
    simp only [Option.map_some, Option.some.injEq, Prod.mk.injEq] at hrun1
    obtain ⟨e1, e2, e3⟩ := hrun1
    cases hr2 : createBackwardReferences ops Example.params 8 24 (Array.replicate 32 0, ⟨0, 0⟩) [4, 11, 15, 16] 12 0 with
    | none => rw [hr2] at hrun2; cases hrun2
    | some res2 =>
      rw [hr2] at hrun2
      simp only [Option.map_some, Option.some.injEq, Prod.mk.injEq] at hrun2
      obtain ⟨f1, f2, f3⟩ := hrun2
      have hb1 : BlockOK Example.params false Example.data 6 32 ([] ++ Example.text.take 0)
          ((Example.text.drop 0).take (0 + 24)) 0 :=
        ⟨rfl, rfl, by
          have e : [] ++ Example.text.take 0 ++ (Example.text.drop 0).take (0 + 24) = Example.text.take 24 := by decide
          have e' : ([] ++ Example.text.take 0).length + ((Example.text.drop 0).take (0 + 24)).length = 24 := by decide
          rw [e, e']
          exact hring 24 (by decide), by decide, by decide, by decide, by decide, fun _ => by decide,
          fun _ => by decide, by decide, by decide⟩
      have m1 := Merged.call (slotOK := SlotOK Example.oracle) (w := Example.oracle) (p := Example.params)
        (Good := GoodCmd false) (hist := []) (M := Example.text) (cache0 := [4, 11, 15, 16]) ops Example.data 6 0 [] 0
        [4, 11, 15, 16] 0 0 24 0 0 (Array.replicate 32 0, ⟨0, 0⟩) res1 Merged.start (by decide) rfl hops
        (emitHyp_good _ _ false _ _ 32 _ _ _ hb1) hr1
      rw [e1, e2, e3] at m1
      have hb2 : BlockOK Example.params false Example.data 6 32 ([] ++ Example.text.take (0 + 24 - 12))
          ((Example.text.drop (0 + 24 - 12)).take (12 + 8)) 0 :=
        ⟨rfl, rfl, by
          have e : [] ++ Example.text.take (0 + 24 - 12) ++ (Example.text.drop (0 + 24 - 12)).take (12 + 8)
              = Example.text.take 32 := by decide
          have e' : ([] ++ Example.text.take (0 + 24 - 12)).length +
              ((Example.text.drop (0 + 24 - 12)).take (12 + 8)).length = 32 := by decide
          rw [e, e']
          exact hring 32 (by decide), by decide, by decide, by decide, by decide, fun _ => by decide,
          fun _ => by decide, by decide, by decide⟩
      have m2 := Merged.call ops Example.data 6 0 _ _ _ _ _ 8 24 0 (Array.replicate 32 0, ⟨0, 0⟩) res2 m1 (by decide) rfl hops
        (emitHyp_good _ _ false _ _ 32 _ _ _ hb2) hr2
      rw [f1, f2, f3] at m2
      have hlen : (0 + 24 + 8 : Nat) = Example.text.length := by decide
      rw [hlen] at m2
      obtain ⟨_, _, _, hrep⟩ := merged_metablock_q29 Example.oracle Example.params false rfl rfl [] Example.text
        [4, 11, 15, 16] (by decide) (by decide)
        (by intro x hx; simp at hx; rcases hx with rfl | rfl | rfl | rfl <;> decide) (by decide) _ _ _ _ m2
      exact ⟨_, _, _, _, m2, rfl, by simpa using hrep⟩

end BV.Props.C14Chain
