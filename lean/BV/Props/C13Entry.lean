import BV.Props.C08
import BV.Model.FFIEntry
import BV.Lemmas.FFIStream
/-
C13, the remaining exported functions of `src/ffi/compressor.rs` (model: `BV/Model/FFIEntry.lean`, tied
by the driver lines `ffi V`, `ffi X n`, `ffi Q st avail`, `ffi C …`, `ffi D q lgwin size`):
`BrotliEncoderVersion`, `BrotliEncoderMaxCompressedSize`, `BrotliEncoderCompress`,
`BrotliEncoderSetCustomDictionary`, `BrotliEncoderIsFinished` / `BrotliEncoderHasMoreOutput`.

`BrotliEncoderCompress` is stated over C08's model of `encoder_compress` (`BV.Stored.encoderCompress`,
literals regenerated from the source) and C08's theorem `oneshot_contract`; the outcome of the
stream phase inside it is an arbitrary `StreamOutcome` that stays within the caller's buffer.
-/
namespace BV.Props.C13
open BV.FFI BV.Stream BV.Stored

/-- `unwrapped_entry_points_cannot_panic`, the two exports without an instance.
`BrotliEncoderVersion` is a constant.  `BrotliEncoderMaxCompressedSize` is NOT behind `catch_panic`:
in a release build (the shipped profile; unchecked `+`) it is total and is C08's bound function; the
single operation that panics when overflow checks are compiled in is the final `result + 16`, and it
does so exactly for the arguments singled out by `maxCompressedSizeOverflows` — which exist (second
example below: the export then aborts the process, the frame being `extern "C"`), but none of them
is below 2^63. -/
theorem unwrapped_stateless_entry_points (n : Nat) :
    ffiVersion = 0x01000f01 ∧
    ffiMaxCompressedSize n = maxCompressedSize n ∧
    (ffiMaxCompressedSizeChecked n = none ↔ maxCompressedSizeOverflows n = true) ∧
    (maxCompressedSizeOverflows n = false → ffiMaxCompressedSizeChecked n = some (ffiMaxCompressedSize n)) := by
  refine ⟨rfl, rfl, ?_, ?_⟩
  · unfold ffiMaxCompressedSizeChecked
    cases maxCompressedSizeOverflows n <;> simp
  · intro h
    unfold ffiMaxCompressedSizeChecked ffiMaxCompressedSize
    rw [h]; rfl

example : ffiMaxCompressedSizeChecked 100 = some 122 := by decide
example : ffiMaxCompressedSizeChecked 18442241573325438941 = none := by decide

/-- `BrotliEncoderIsFinished` / `BrotliEncoderHasMoreOutput` read `stream_state_` and
`available_out_` only: two instances that agree on these two fields get the same answers; the
answers are 0/1; "finished" implies "no more output" -/
theorem query_entry_points (s t : St) (h1 : s.streamState = t.streamState) (h2 : s.pending.length = t.pending.length) :
    ffiIsFinished s = ffiIsFinished t ∧ ffiHasMoreOutput s = ffiHasMoreOutput t ∧
    ffiIsFinished s ≤ 1 ∧ ffiHasMoreOutput s ≤ 1 ∧ (ffiIsFinished s = 1 → ffiHasMoreOutput s = 0) := by
  unfold ffiIsFinished ffiHasMoreOutput isFinished hasMoreOutput
  rw [h1, h2]
  refine ⟨rfl, rfl, by split <;> omega, by split <;> omega, ?_⟩
  intro h
  by_cases hf : t.streamState = .finished ∧ t.pending.length = 0
  · simp [hf.2]
  · simp [hf] at h
    exact absurd ⟨h.1, by simp [h.2]⟩ hf

/-- the slices `BrotliEncoderCompress` builds: a zero `input_size` gives the empty input whatever the
pointer (NULL included), and the output slice is exactly `*encoded_size` long — the `bufLen =
outSize` situation of C08's model -/
theorem oneshot_slices (mem : Mem) (c : OneShotCall) :
    (c.inputSize = 0 → inputSlice mem c.inputPtr c.inputSize = []) ∧ outSliceLen c = c.encodedSize := by
  refine ⟨?_, rfl⟩
  intro h; simp [inputSlice, h]

/-- `BrotliEncoderCompress` through the C ABI (`ffi_oneshot_contract`): for a caller whose input
pointer addresses `input_size` bytes (below 2^54) and for EVERY outcome of the stream phase that
stays within the caller's buffer,
* nothing unwinds into `catch_panic` from the wrapper's own slices or from `encoder_compress`'s
  indexing (the empty-input store `output[0] = 6` and the stored-stream fallback always have room);
* the return value is 0 or 1; `*encoded_size = 0` ⇒ 0;
* on 1, `*encoded_size` (after) is at most `*encoded_size` (before) — the bytes lie inside the
  caller's buffer — and at most `BrotliEncoderMaxCompressedSize(input_size)`;
* a buffer of the advertised bound always succeeds; on 0, `*encoded_size` is 0 afterwards. -/
theorem ffi_oneshot_contract (mem : Mem) (c : OneShotCall) (so : StreamOutcome)
    (hlen : (inputSlice mem c.inputPtr c.inputSize).length = c.inputSize) (hn : c.inputSize < 2 ^ 54)
    (hso : so.totalOut ≤ c.encodedSize) :
    (ffiCompress mem c so).unwound = false ∧ (ffiCompress mem c so).ret ≤ 1 ∧
    (c.encodedSize = 0 → (ffiCompress mem c so).ret = 0) ∧
    ((ffiCompress mem c so).ret = 1 → ∃ sz, (ffiCompress mem c so).encodedSize = some sz ∧ sz ≤ c.encodedSize ∧
        sz ≤ ffiMaxCompressedSize c.inputSize) ∧
    (ffiMaxCompressedSize c.inputSize ≤ c.encodedSize → (ffiCompress mem c so).ret = 1) ∧
    ((ffiCompress mem c so).ret = 0 → (ffiCompress mem c so).encodedSize = some 0) := by
  obtain ⟨r, hr, h1, h2, h3, h4⟩ := BV.Props.C08.oneshot_contract (inputSlice mem c.inputPtr c.inputSize) c.encodedSize c.encodedSize so
    (by rw [hlen]; exact hn) (Nat.le_refl _) hso
  rw [hlen] at hr h2 h3
  have hval : ffiCompress mem c so = ⟨if r.ret then 1 else 0, some r.encodedSize, r.bytes, false⟩ := by
    unfold ffiCompress outSliceLen
    rw [hr]
  rw [hval]
  refine ⟨rfl, by simp only; split <;> omega, ?_, ?_, ?_, ?_⟩
  · intro h0; simp [h1 h0]
  · intro hret
    have : r.ret = true := by
      cases hrr : r.ret
      · simp [hrr] at hret
      · rfl
    obtain ⟨a, b, _⟩ := h2 this
    exact ⟨r.encodedSize, rfl, a, b⟩
  · intro hcap; simp [h3 hcap]
  · intro hret
    have : r.ret = false := by
      cases hrr : r.ret
      · rfl
      · simp [hrr] at hret
    simp [h4 this]

/-- `BrotliEncoderSetCustomDictionary`: the Rust method always sees a slice of exactly `size` bytes
(empty — whatever the pointer, NULL included — when `size = 0`), and the call is a FIRST USE of the
instance: afterwards every `SetParameter` is refused; an empty dictionary, or quality 0/1, switch
`catable` and `appendable` on and copy nothing -/
theorem set_custom_dictionary_entry (mem : Mem) (dict : Option Nat) (s : St) (size : Nat) :
    (size = 0 → dictSlice mem dict size = []) ∧
    (setCustomDictionaryHead s size).1.isInitialized = true ∧
    (∀ id v, ffiSetParameter (setCustomDictionaryHead s size).1 id v = ((setCustomDictionaryHead s size).1, 0)) ∧
    ((setCustomDictionaryHead s size).2 = false →
      (setCustomDictionaryHead s size).1.params.catable = true ∧ (setCustomDictionaryHead s size).1.params.appendable = true) := by
  have hinit : (ensureInitialized s).isInitialized = true := by
    unfold ensureInitialized; split
    · assumption
    · rfl
  have hi : (setCustomDictionaryHead s size).1.isInitialized = true := by
    unfold setCustomDictionaryHead
    simp only
    split
    · exact hinit
    · exact hinit
  refine ⟨fun h => by simp [dictSlice, inputSlice, h], hi, ?_, ?_⟩
  · intro id v
    simp [ffiSetParameter, setParameter, hi]
  · unfold setCustomDictionaryHead
    simp only
    split
    · intro _; exact ⟨rfl, rfl⟩
    · intro h; cases h

/-! ### non-vacuity -/

/-- a 3-byte input into a 25-byte buffer (the advertised bound) whose stream phase failed: the stored
fallback succeeds -/
example : (ffiCompress (fun _ n => List.replicate n 7) ⟨5, 22, 0, 3, some 1000, 25, some 5000⟩
    { result := false, finished := false, totalOut := 0, bytes := [] }).ret = 1 :=
  (ffi_oneshot_contract (fun _ n => List.replicate n 7) ⟨5, 22, 0, 3, some 1000, 25, some 5000⟩
    { result := false, finished := false, totalOut := 0, bytes := [] } (by simp [inputSlice]) (by decide) (by decide)).2.2.2.2.1 (by decide)
example : (ffiCompress (fun _ n => List.replicate n 7) ⟨5, 22, 0, 0, none, 0, none⟩
    { result := false, finished := false, totalOut := 0, bytes := [] }).ret = 0 := by decide
example : (setCustomDictionaryHead St.new 0).1.params.catable = true := by decide

end BV.Props.C13
