/-
C01 (third Lean module): the quality-1 fragment writer `compress_fragment_two_pass` and the invariants of
the quality-0 writer `compress_fragment_fast`, on the REAL BYTE STORAGE (model `BV/Model/Fragment.lean`).

What is proved (every theorem is about `BV.Fragment.*`, the model that the correspondence stage `fragment`
runs against the real functions; the reader is the independent RFC 7932 reader of `BV.MetaBlock`):

 1. `write_bits_appends` — `BrotliWriteBits` of the fragment files (OR into the partial byte, store 8 bytes,
    no assertion) is "append n bits" when (W1) the partial byte has no bits at/above the position, (W2) 8 bytes
    are left, the value fits in n ≤ 56 bits; (W1) holds again afterwards.
 2. `rewind_restores_w1` — `RewindBitPosition` truncates the stream at the new position and re-establishes
    (W1) WHATEVER the abandoned attempt left in the storage (aligned position: byte cleared).
 3. `uncompressed_block_roundtrip`, `fallback_roundtrip` — a stored meta-block written by
    `EmitUncompressedMetaBlock` (directly, or after the rewind of an over-long attempt) is decoded by the RFC
    reader to exactly the block; stale bytes behind the write position are harmless.
 4. `command_loop_simulates_rfc` — the command loop of `StoreCommands` against the RFC command loop for EVERY
    command / literal buffer accepted by `replayQ1` (untrusted match finder).
 5. `compressed_block_roundtrip_partial` — header + 13 zero bits + literal code (C17) + command codes +
    command loop: the RFC reader decodes the meta-block to the state `replayQ1` computed.
    PARTIAL: `CmdCodeOK` (see `BV/Lemmas/FragmentBlock.lean`) is a hypothesis, evaluated per run (`cc=`).
 6. `final_bits_roundtrip` — ISLAST/ISLASTEMPTY + padding.
 7. quality 0: `sampled_literal_histogram_positive` (the `1 +` gives every byte value a count, hence a code —
    what merged blocks rely on) and its contrast `exact_literal_histogram_zero`.
 8. `create_commands_replays` — the quality-1 match finder `CreateCommands` (the real hash-table algorithm):
    for every input, block, table state holding earlier positions, window ≥ 2^18 − 16: the buffers it returns
    are accepted by `replayQ1` and reproduce the block ((b) below is DISCHARGED);
    `compressed_block_roundtrip_cc_partial` = 5 without the replay hypothesis.

FULL STATEMENT that is NOT reached (kept here as the target):
  for every input fragment (any size ≥ 0), is_last, table size 2^8..2^17, ShouldCompress answers, and start
  state with (W1) on a storage of 2·n + 503 bytes: `compressFragmentTwoPass` returns `.ok s'` and
  `readMetaBlocks` on the bits of `s'` behind the start decodes history ++ input.
 Missing between the theorems below and that statement:
  (a) `CmdCodeOK` — `BuildAndStoreCommandPrefixCode`: the bit patterns computed on the PERMUTED 64-entry depth
      array equal the canonical code of the 704-entry array that is stored (an order-embedding argument over
      C17 `canonical`; it is FALSE if command code 0 or 40 is used, see `stepQ1`);
  (b) [PROVED since session 4: `create_commands_replays`] `replayQ1` holds of what `createCommands` produces;
      still missing there: that `createCommands` RETURNS (no slice panic, fuel suffices) under the callers'
      buffer sizes — partial correctness only;
  (c) the induction over the blocks of `twoPassImpl` (composition by `readMetaBlocks_step`, mechanical);
  (d) the storage bound: the bits written fit in 2·n + 503 bytes (needs a cost bound for the length-limited
      prefix codes); the theorems take the room as a hypothesis, the search stage runs the real code on a
      storage of exactly 2·n + 503 bytes.
-/
import BV.Lemmas.FragmentQ0
import BV.Lemmas.FragmentCC3
import BV.Lemmas.FragmentCCT
import BV.Props.C01MetaBlock

namespace BV.Props.C01Fragment
open BV.Bits BV.Fragment BV.MetaBlock BV.Huffman BV.Recoder

/-! ## 1. the bit writer on the byte array -/

/-- `BrotliWriteBits(n, v)` on a storage with (W1), `v < 2^n`, `n ≤ 56`, 8 bytes left behind the end
position: returns, the storage keeps its size, the position advances by `n`, the stream (the first
`storage_ix` bits of the storage) is extended by the `n` low bits of `v` LSB first, and (W1) holds again. -/
theorem write_bits_appends (n v : Nat) (s : Sto) (hg : Good s) (hv : v < 2 ^ n) (hn : n ≤ 56)
    (hroom : (s.ix + n) / 8 + 8 ≤ s.bytes.size) :
    ∃ s', BV.Fragment.writeBits n v s = .ok s' ∧ s'.ix = s.ix + n ∧ s'.bytes.size = s.bytes.size ∧
      s'.bits = s.bits ++ bitsOf n v ∧ Good s' := by
  obtain ⟨s', e, w⟩ := writeBits_ok n v s hg hv hn hroom
  exact ⟨s', e, by rw [w.ix, length_bitsOf], w.size, w.bits, w.good⟩

/-- non-vacuity: 3 bits already written (0b101) in a stale storage, 5 more bits -/
example : Good ⟨#[5, 0xaa, 0xaa, 0xaa, 0xaa, 0xaa, 0xaa, 0xaa, 0xaa, 0xaa], 3⟩ ∧ (19 : Nat) < 2 ^ 5 ∧
    (BV.Fragment.writeBits 5 19 ⟨#[5, 0xaa, 0xaa, 0xaa, 0xaa, 0xaa, 0xaa, 0xaa, 0xaa, 0xaa], 3⟩).bind
      (fun s => .ok (s.bytes.toList, s.ix)) = .ok ([157, 0, 0, 0, 0, 0, 0, 0, 0xaa, 0xaa], 8) := by
  refine ⟨⟨by decide, by decide⟩, by decide, by decide⟩

/-- what goes wrong WITHOUT (W1): a stale bit above the position survives the write
(storage byte 0b1000_0101 at position 3: the stream reads 1 at bit 7 although 0 was written) -/
example : (BV.Fragment.writeBits 5 0 ⟨#[0x85, 0, 0, 0, 0, 0, 0, 0, 0, 0], 3⟩).bind
    (fun s => .ok (s.bits)) = .ok [true, false, true, false, false, false, false, true] := by decide

/-! ## 2. `RewindBitPosition` -/

/-- `RewindBitPosition(new_ix)` with `new_ix ≤ storage_ix`: the stream is cut at `new_ix` and (W1) holds at
`new_ix`, whatever the storage holds (no hypothesis on its bytes). -/
theorem rewind_restores_w1 (newIx : Nat) (s : Sto) (hsz : s.bytes.size < 1152921504606846976)
    (hin : newIx / 8 < s.bytes.size) (hle : newIx ≤ s.ix) :
    ∃ s', rewindBitPosition newIx s = .ok s' ∧ s'.ix = newIx ∧ s'.bytes.size = s.bytes.size ∧
      Good s' ∧ s'.bits = s.bits.take newIx :=
  rewind_ok newIx s hsz hin hle

/-- non-vacuity, aligned and unaligned: the partial byte loses the bits of the abandoned attempt -/
example : (rewindBitPosition 8 ⟨#[0xff, 0xff, 0xff], 20⟩).bind (fun s => .ok s.bytes.toList) = .ok [0xff, 0, 0xff] ∧
    (rewindBitPosition 11 ⟨#[0xff, 0xff, 0xff], 20⟩).bind (fun s => .ok s.bytes.toList) = .ok [0xff, 7, 0xff] := by
  decide

/-! ## 3. stored meta-blocks -/

/-- A block for which `ShouldCompress` said no: `EmitUncompressedMetaBlock` on a storage with (W1) and room
appends `storedBits block ix` (header, zero padding, the bytes) — the bytes behind the position may be stale —
and the RFC reader started at that position decodes exactly `block` behind the history. -/
theorem uncompressed_block_roundtrip (wo : WordOracle) (window : Nat) (block lits cmds : List Nat) (st : RdSt)
    (s : Sto) (h1 : 1 ≤ block.length) (h2 : block.length ≤ 2 ^ 24) (hb : ∀ b ∈ block, b < 256) (hg : Good s)
    (hr : (s.ix + 28) / 8 + 8 + block.length + 1 ≤ s.bytes.size) :
    ∃ s', storeBlock block lits cmds false s = .ok s' ∧ s'.bits = s.bits ++ storedBits block s.ix ∧ Good s' ∧
      ∀ rest, readMetaBlockFull wo window false s.ix st (storedBits block s.ix ++ rest)
        = some (⟨st.out ++ block, st.ring⟩, false, s.ix + (storedBits block s.ix).length, rest) := by
  obtain ⟨s', e, w, r⟩ := uncompressed_block_reads wo window block lits cmds st s h1 h2 hb hg hr
  exact ⟨s', e, w.bits, w.good, r⟩

/-- The size fallback of `compress_fragment_two_pass` (`storage_ix − initial > 31 + 8·n`): from ANY storage
`s1` the attempt left behind (same buffer, position not before the start `ix0`), rewind + uncompressed emission
produce the stream as it was at `ix0` followed by ONE stored meta-block that decodes to the whole input. -/
theorem fallback_roundtrip (wo : WordOracle) (window : Nat) (input : List Nat) (st : RdSt) (ix0 : Nat) (s1 : Sto)
    (h1 : 1 ≤ input.length) (h2 : input.length ≤ 2 ^ 24) (hb : ∀ b ∈ input, b < 256)
    (hsz : s1.bytes.size < 1152921504606846976) (hle : ix0 ≤ s1.ix)
    (hr : (ix0 + 28) / 8 + 8 + input.length + 1 ≤ s1.bytes.size) :
    ∃ s2 s3, rewindBitPosition ix0 s1 = .ok s2 ∧ emitUncompressedMetaBlock input s2 = .ok s3 ∧
      s3.bits = s1.bits.take ix0 ++ storedBits input ix0 ∧ Good s3 ∧
      ∀ rest, readMetaBlockFull wo window false ix0 st (storedBits input ix0 ++ rest)
        = some (⟨st.out ++ input, st.ring⟩, false, ix0 + (storedBits input ix0).length, rest) :=
  fallback_reads wo window input st ix0 s1 h1 h2 hb hsz hle hr

/-- non-vacuity: a 2-byte input, start at bit 4 behind the stream header 0b0011, the attempt left 0xff
everywhere; the result is header nibble, stored-block header, padding, the two bytes, a cleared byte -/
example : (rewindBitPosition 4 ⟨Array.replicate 40 0xff |>.setIfInBounds 0 0xf3, 77⟩).bind
    (fun s => (emitUncompressedMetaBlock [7, 9] s).bind fun s => .ok ((s.bytes.toList.take 6), s.ix))
      = .ok ([0x83, 0, 0x80, 7, 9, 0], 40) := by decide

/-! ## 4. the command loop -/

/-- For every command / literal buffer that the RFC replay `replayGo` accepts (fuel `f`), with literal,
command and distance tables that agree with three reader codes on the symbols used (`SymOK`), on a storage
with (W1) and room for the worst case (81 bits per command word, 57 per literal): the command loop of
`StoreCommands` returns, appends bits `db`, re-establishes (W1), and the RFC command loop `readCommands` on
`db` (followed by anything) ends in the state the replay computed, exactly behind `db`. -/
theorem command_loop_simulates_rfc (wo : WordOracle) (window mlen : Nat) (litD litB cmdD cmdB : List Nat)
    (litC cmdC distC : Code) (f : Nat) (cmds lits : List Nat) (done : Nat) (st fin : RdSt) (s : Sto)
    (hrep : replayGo wo window mlen f cmds lits done st = some fin)
    (hlit : ∀ b ∈ lits, SymOK litD litB litC b b)
    (hcmd : ∀ c ∈ cmds, c % 256 < 64 → SymOK cmdD cmdB cmdC (c % 256) (q1Symbol (c % 256)))
    (hdist : ∀ c ∈ cmds, 64 ≤ c % 256 → SymOK cmdD cmdB distC (c % 256) (c % 256 - 64))
    (hg : Good s) (hr : (s.ix + 81 * cmds.length + 57 * lits.length) / 8 + 8 ≤ s.bytes.size) :
    ∃ s' db, storeCmdLoop litD litB cmdD cmdB cmds lits s = .ok s' ∧ s'.bits = s.bits ++ db ∧ Good s' ∧
      ∀ rest f', f ≤ f' →
        readCommands wo window 0 0 litC cmdC distC mlen f' done st (db ++ rest) = some (fin, rest) := by
  obtain ⟨s', db, e, w, r⟩ := storeCmdLoop_sim wo window mlen litD litB cmdD cmdB litC cmdC distC f cmds lits
    done st fin s hrep hlit hcmd hdist hg hr
  exact ⟨s', db, e, w.bits, w.good, r⟩

/-- non-vacuity of the replay hypothesis, on a buffer the REAL `CreateCommands` produced (40 equal bytes:
insert 1, distance 1, copy 39 = 2 + 37 with the implied last distance): the replay ends with the block -/
example : (replayQ1 (fun _ _ _ => none) 262128 40 [1, 80, 1829] [0x99] 0 ⟨[], [4, 11, 15, 16]⟩).map (·.out)
    = some (List.replicate 40 0x99) := by decide +kernel

/-- … and the excluded command codes: an insert of length 0 (code 0) is rejected (see `stepQ1`) -/
example : replayQ1 (fun _ _ _ => none) 262128 3 [1, 0, 80] [7] 0 ⟨[], [4, 11, 15, 16]⟩ = none := by
  decide +kernel

/-! ## 5. one compressed meta-block -/

/-- `compressed_block_roundtrip_partial`.  One compressed block of `compress_fragment_two_pass_impl`
(`store_meta_block_header`, 13 zero bits, `StoreCommands`) for EVERY command / literal buffer accepted by
`replayQ1` from the reader state `st` (history, distance ring): the writer returns, (W1) holds again, and the
RFC reader started at the block's first bit reads one non-last compressed meta-block and ends in the state
`fin` the replay computed (`fin.out = history ++ block` is what the per-run replay check compares).
PARTIAL because `CmdCodeOK cmds` is a hypothesis (module header, (a)); `hr` is the room hypothesis ((d)). -/
theorem compressed_block_roundtrip_partial (wo : WordOracle) (window : Nat) (block lits cmds : List Nat)
    (st fin : RdSt) (s : Sto) (h1 : 1 ≤ block.length) (h2 : block.length ≤ 2 ^ 24)
    (hl256 : ∀ b ∈ lits, b < 256) (hll : lits.length ≤ 2 ^ 24)
    (hrep : replayQ1 wo window block.length cmds lits 0 st = some fin)
    (hcc : CmdCodeOK cmds) (hg : Good s)
    (hr : ∀ litD litB cb1 ch cmdD cmdB cb23,
      buildAndStoreHuffmanTreeFast (histo 256 lits) lits.length 8 (List.replicate 256 0) (List.replicate 256 0) []
        = .ok (litD, litB, cb1) →
      cmdHistoQ1 cmds = .ok ch →
      buildAndStoreCommandPrefixCodeQ1 ch (List.replicate 128 0) (List.replicate 128 0) [] = .ok (cmdD, cmdB, cb23) →
      (s.ix + 41 + cb1.length + cb23.length + 81 * cmds.length + 57 * lits.length) / 8 + 8 ≤ s.bytes.size) :
    ∃ s' bits, storeBlock block lits cmds true s = .ok s' ∧ s'.bits = s.bits ++ bits ∧ Good s' ∧
      ∀ rest, readMetaBlockFull wo window false s.ix st (bits ++ rest)
        = some (fin, false, s.ix + bits.length, rest) := by
  obtain ⟨s', bits, e, w, r⟩ := compressed_block_reads wo window block lits cmds st fin s h1 h2 hl256 hll hrep hcc
    hg hr
  exact ⟨s', bits, e, w.bits, w.good, r⟩

/-! ## 6. the end of the stream -/

/-- `is_last`: the bits 1, 1 and the jump to the byte boundary are the RFC's empty last meta-block -/
theorem final_bits_roundtrip (wo : WordOracle) (window : Nat) (st : RdSt) (s : Sto) (hg : Good s)
    (hr : (s.ix + 2) / 8 + 9 ≤ s.bytes.size) :
    ∃ s', writeLastEmpty s = .ok s' ∧ s'.bits = s.bits ++ emptyLastBits s.ix ∧ s'.ix % 8 = 0 ∧
      ∀ rest, readMetaBlockFull wo window false s.ix st (emptyLastBits s.ix ++ rest)
        = some (st, true, s.ix + (emptyLastBits s.ix).length, rest) := by
  obtain ⟨s', e, i, _, b⟩ := writeLastEmpty_ok s hg hr
  refine ⟨s', e, b, ?_, emptyLast_reads wo window false s.ix st⟩
  rw [i]
  simp only [emptyLastBits, padTo8, List.length_append, List.length_cons, List.length_nil,
    List.length_replicate]
  omega

/-! ## 7. quality 0: the literal code of merged blocks -/

/-- `BuildAndStoreLiteralPrefixCode` on a block of at least 2^15 bytes (every first block that can be followed
by a merged block: `kFirstBlockSize = 3 << 15`): the histogram handed to the prefix-code builder counts every
byte value at least once.  With C17 (`fast_build_and_store_good`: depth ≠ 0 ↔ count ≠ 0) every byte value
has a code word, so the literals of a merged block — data the code was not built from — are encodable.
(The seeded regression that raised the threshold to 2^17 makes the 98304-byte first block take the exact
branch, for which `exact_literal_histogram_zero` shows the opposite.) -/
theorem sampled_literal_histogram_positive (input : List Nat) (h : 32768 ≤ input.length)
    (h2 : input.length < 2147483648) (v : Nat) (hv : v < 256) :
    (literalHistogram input).1.getD v 0 ≠ 0 :=
  sampled_histogram_positive input h h2 v hv

theorem exact_literal_histogram_zero (input : List Nat) (h : input.length < 32768) (v : Nat) (hv : v < 256)
    (hnot : v ∉ input) : (literalHistogram input).1.getD v 0 = 0 :=
  exact_histogram_zero input h v hv hnot

/-- non-vacuity of the second: "ab", byte value 99 -/
example : (literalHistogram [97, 98]).1.getD 99 0 = 0 ∧ (literalHistogram [97, 98]).1.getD 97 0 = 3 := by
  decide +kernel

/-! ## 8. `CreateCommands` (quality 1): the match finder's output replays — hypothesis (b) of the module header
is a THEOREM -/

/-- `create_commands_replays`.  The two-pass `CreateCommands` (model `createCommands` = the real hash-table match
finder, tied bit-exactly by the correspondence lines `cc` / `q1`): for EVERY fragment input `inp` of bytes, every
block `[ii, ii + mlen)` of it (`1 ≤ mlen < 2^24`; the real blocks are ≤ 2^17), every `input_size`, every table
size / `min_match ∈ {4, 6}`, every buffer capacity and EVERY hash-table state whose entries are earlier positions
(`TB table (ii + 1)`: what `GetHashTable`'s zero fill and the previous blocks of the same fragment leave), every
RFC window ≥ 2^18 − 16 (the writers' `MAX_DISTANCE`; `lgwin ≥ 18` at quality 0/1), every reader history `hist`
and distance ring: IF the call returns (no slice panic), the command / literal buffers it returns are accepted by
the RFC 7932 execution `replayQ1` from "hist ++ input before the block" and reproduce exactly the block; no code
0 / 40 is used (replayQ1 rejects them); and the table again holds earlier positions, so the statement chains over
the blocks of one fragment.  Why it holds: every copy is confirmed by `IsMatch` (4 or 6 bytes compared through
two 32-bit loads of BYTES) and extended by `FindMatchLengthWithLimit`; candidates come from the table (earlier
positions, so distance ≥ 1 and within the produced output) or from `ip − last_distance` (`candidate < ip` is
tested); distances > 2^18 − 16 are skipped; `skip` cannot wrap within the fuel, so the scan always advances. -/
theorem create_commands_replays (wo : WordOracle) (window : Nat) (inp : Array Nat) (hist : List Nat)
    (ring0 : List Int) (ii mlen inputSize tableBits minMatch capLit capCmd : Nat) (table t' : Array Int)
    (lits cmds : List Nat) (hwin : 262128 ≤ window) (hb : ∀ i, inp.getD i 0 < 256)
    (hmm : minMatch = 4 ∨ minMatch = 6) (hsz : ii + mlen ≤ inp.size) (h31 : inp.size < 2147483648)
    (h1 : 1 ≤ mlen) (hml : mlen < 16777216) (htb : TB table (ii + 1))
    (h : createCommands ii mlen inputSize inp table tableBits minMatch capLit capCmd = .ok (t', lits, cmds)) :
    ∃ ring, replayQ1 wo window mlen cmds lits 0 ⟨hist ++ inp.toList.take ii, ring0⟩
        = some ⟨hist ++ inp.toList.take (ii + mlen), ring⟩ ∧ TB t' (ii + mlen + 1) :=
  createCommands_replays wo window inp hist ring0 ii mlen inputSize tableBits minMatch capLit capCmd table t' lits cmds
    hwin hb hmm hsz h31 h1 hml htb h

/-- non-vacuity: 40 bytes "abcdeabcde…", zeroed table of 256 entries: the call returns insert 5, distance 5,
copy 35 (= 2 + 33 at the last distance), and the zeroed table meets `TB` -/
example : (createCommands 0 40 40 ((List.range 40).map fun i => 97 + i % 5).toArray (Array.replicate 256 0) 8 4 40 40).bind
      (fun r => .ok (r.2.1, r.2.2)) = .ok ([97, 98, 99, 100, 101], [5, 82, 805]) ∧
    TB (Array.replicate 256 0) (0 + 1) := by
  refine ⟨by decide +kernel, ?_⟩
  intro i hi
  rw [Array.size_replicate] at hi
  rw [Array.getD_eq_getD_getElem?, Array.getElem?_replicate, if_pos hi]
  exact ⟨by decide, by decide⟩

/-- `compressed_block_roundtrip_cc_partial`: `CreateCommands` + one compressed block of the two-pass writer,
WITHOUT the replay hypothesis: the RFC reader decodes the block's bits to history ++ block.
PARTIAL: `CmdCodeOK cmds` ((a) of the module header) and the room `hr` ((d)) remain hypotheses. -/
theorem compressed_block_roundtrip_cc_partial (wo : WordOracle) (window : Nat) (inp : Array Nat) (hist : List Nat)
    (ring0 : List Int) (ii mlen inputSize tableBits minMatch capLit capCmd : Nat) (table t' : Array Int)
    (lits cmds : List Nat) (s : Sto) (hwin : 262128 ≤ window) (hb : ∀ i, inp.getD i 0 < 256)
    (hmm : minMatch = 4 ∨ minMatch = 6) (hsz : ii + mlen ≤ inp.size) (h31 : inp.size < 2147483648)
    (h1 : 1 ≤ mlen) (hml : mlen < 16777216) (htb : TB table (ii + 1))
    (h : createCommands ii mlen inputSize inp table tableBits minMatch capLit capCmd = .ok (t', lits, cmds))
    (hl256 : ∀ b ∈ lits, b < 256) (hll : lits.length ≤ 2 ^ 24)
    (hcc : CmdCodeOK cmds) (hg : Good s)
    (hr : ∀ litD litB cb1 ch cmdD cmdB cb23,
      buildAndStoreHuffmanTreeFast (histo 256 lits) lits.length 8 (List.replicate 256 0) (List.replicate 256 0) []
        = .ok (litD, litB, cb1) →
      cmdHistoQ1 cmds = .ok ch →
      buildAndStoreCommandPrefixCodeQ1 ch (List.replicate 128 0) (List.replicate 128 0) [] = .ok (cmdD, cmdB, cb23) →
      (s.ix + 41 + cb1.length + cb23.length + 81 * cmds.length + 57 * lits.length) / 8 + 8 ≤ s.bytes.size) :
    ∃ s' bits ring, storeBlock ((inp.extract ii (ii + mlen)).toList) lits cmds true s = .ok s' ∧
      s'.bits = s.bits ++ bits ∧ Good s' ∧ TB t' (ii + mlen + 1) ∧
      ∀ rest, readMetaBlockFull wo window false s.ix ⟨hist ++ inp.toList.take ii, ring0⟩ (bits ++ rest)
        = some (⟨hist ++ inp.toList.take (ii + mlen), ring⟩, false, s.ix + bits.length, rest) := by
  obtain ⟨ring, hrep, htb'⟩ := create_commands_replays wo window inp hist ring0 ii mlen inputSize tableBits minMatch
    capLit capCmd table t' lits cmds hwin hb hmm hsz h31 h1 hml htb h
  have hlen : ((inp.extract ii (ii + mlen)).toList).length = mlen := by
    rw [extract_toList, List.length_take, List.length_drop, Array.length_toList]; omega
  obtain ⟨s', bits, e, w, g, r⟩ := compressed_block_roundtrip_partial wo window ((inp.extract ii (ii + mlen)).toList)
    lits cmds ⟨hist ++ inp.toList.take ii, ring0⟩ ⟨hist ++ inp.toList.take (ii + mlen), ring⟩ s
    (by rw [hlen]; exact h1) (by rw [hlen]; have : (2 : Nat) ^ 24 = 16777216 := by decide
                                 omega) hl256 hll (by rw [hlen]; exact hrep) hcc hg hr
  exact ⟨s', bits, ring, e, w, g, htb', r⟩

/-! ## 9. `CreateCommands` returns: the match loop (the part with slice indexing, the hash table, the command /
literal buffers and the fuel) -/

/-- `match_loop_returns`.  The `while !goto_emit_remainder` loop of the two-pass `CreateCommands` (model
`matchLoop`: candidate search, both hash-refresh copies, the immediate-match chain) RETURNS under the callers'
sizes `Sz`: block `[ii, ii + mlen)`, `16 ≤ mlen ≤ input_size`, `ii + input_size ≤ |input| < 2^31`, the search limit
keeps `min_match` bytes to the block end and 16 bytes to the input end, every hash is a table index (`hashAt_lt`:
true for a table of `2^table_bits` slots), command and literal buffers of at least `mlen` entries — from every state
whose table holds earlier positions, whose buffers hold at most one word / literal per byte emitted so far and whose
`last_distance` is −1 or at most the position.  No `Out.panic` (slice index, buffer capacity, `ip − 3`/`ip − 5`
underflow) and no `Out.fuel`; the bounds are re-established (so the final insert fits: `final_total`).
`CreateCommands` itself = one `load64` + this loop + `final_total`; that last composition is stated in
`BV/Lemmas/FragmentCCT.lean` only up to these two lemmas (see the module note in tools/props.d). -/
theorem match_loop_returns (inp : Array Nat) (ii mlen inputSize minMatch ipLimit shift T capCmd capLit : Nat)
    (sz : Sz inp ii mlen inputSize minMatch ipLimit shift T capCmd capLit) (f nh : Nat) (c : CC)
    (hts : c.table.size = T) (hnh : nh < T) (htb : TB c.table c.ip) (hne : c.nextEmit < c.ip) (hii : ii ≤ c.nextEmit)
    (hip : c.ip ≤ ii + mlen) (hcm : c.cmds.size ≤ c.nextEmit - ii) (hli : c.lits.size ≤ c.nextEmit - ii)
    (hld : c.lastDist = -1 ∨ (0 < c.lastDist ∧ c.lastDist ≤ (c.ip : Int))) (hf : 1 ≤ f)
    (hmeas : ii + mlen + 1 ≤ c.ip + f) :
    ∃ c', matchLoop inp capCmd capLit shift minMatch (ii + mlen) ipLimit f nh c = .ok c' ∧
      c'.cmds.size ≤ c'.nextEmit - ii ∧ c'.lits.size ≤ c'.nextEmit - ii ∧ ii ≤ c'.nextEmit ∧
      c'.nextEmit ≤ ii + mlen :=
  matchLoop_total inp ii mlen inputSize minMatch ipLimit shift T capCmd capLit sz f nh c hts hnh htb hne hii hip hcm hli
    hld hf hmeas

/-- the hashes of `CreateCommands` index a table of `2^table_bits` slots (`shift = 64 − table_bits`) -/
theorem hash_in_table (v off len tb : Nat) (htb : tb ≤ 64) : hashAt v off (64 - tb) len < 2 ^ tb :=
  hashAt_lt v off (64 - tb) len tb rfl htb

end BV.Props.C01Fragment
