/-
C19 — Batched match-index updates equal one-at-a-time updates.

Property theorems ONLY.  Model: BV/Model/Hasher.lean (`src/enc/backward_references/mod.rs`:
`BasicHasher`, `AdvHasher`, `H9`, clone/eq; `hash_to_binary_tree.rs`: H10 entry points over an
opaque `Store`).  Helper lemmas: BV/Lemmas/Hasher{Loop,Basic,Adv,Misc,Spec}.lean.

The hash functions are PARAMETERS of every theorem (`BasicP.hash`, `AdvP.mixWord`, `H9P.hash`,
the whole `Store` for H10); what is assumed about them is spelled out in `BasicP.Ok` / `AdvP.Ok`
and proved for the concrete multiplicative hashes of all kinds (section 6).
"The fold of `Store`" is `forRange (store …) s (e - s)`: `for ix in s..e { Store(data, mask, ix) }`.
Outcomes are `Option`s: `none` = the Rust code panics (slice index, `split_at`, `assert_eq!`), so
every equation below also says that the batched path panics exactly when the loop would.
Masks are ring-buffer masks `2^k - 1` (`usize::MAX = 2^64 - 1`); NO assumption on the data buffer.
-/
import BV.Lemmas.HasherMisc
import BV.Lemmas.HasherSpec

namespace BV.Props.C19
open BV.Hasher

/-! ## 1. BasicHasher (H2, H3, H4, H54) -/

/-- `StoreRange` (4 positions per iteration, one 11-byte window read, per-position sweep slot;
chunks straddling the ring end handled per position) equals the fold of `Store`:
all data, all `[s, e)`, all ring masks, all starting tables. -/
theorem store_range_eq_fold_store_basic (P : BasicP) (hP : P.Ok) (data : ByteArray) (k s e : Nat)
    (b : Tab) :
    Basic.storeRange P data (2 ^ k - 1) s e b
      = forRange (Basic.store P data (2 ^ k - 1)) s (e - s) b :=
  Basic.storeRange_eq_fold hP data k s e b

/-- `BulkStoreRange` of a `BasicHasher` (which calls `StoreRange`) equals the fold of `Store` -/
theorem bulk_eq_fold_store_basic (P : BasicP) (hP : P.Ok) (data : ByteArray) (k s e : Nat)
    (b : Tab) :
    Basic.bulkStoreRange P data (2 ^ k - 1) s e b
      = forRange (Basic.store P data (2 ^ k - 1)) s (e - s) b :=
  Basic.storeRange_eq_fold hP data k s e b

/-- … hence the batched paths realise the reference semantics of the index (written
independently of the update code in BV/Lemmas/HasherSpec.lean): table size unchanged, every slot
holds the LAST position of `[s, e)` filed under it (`Basic.slotOf`), every other slot is untouched. -/
theorem basic_index_reference_semantics (P : BasicP) (hP : P.Ok) (data : ByteArray) (k s e : Nat)
    (b b' : Tab) (h : Basic.bulkStoreRange P data (2 ^ k - 1) s e b = some b') :
    b'.size = b.size ∧ ∀ t,
      (∀ ix, Basic.lastWriter (Basic.slotOf P data (2 ^ k - 1)) s (e - s) t = some ix →
        b'[t]? = some (ix % U32)) ∧
      (Basic.lastWriter (Basic.slotOf P data (2 ^ k - 1)) s (e - s) t = none → b'[t]? = b[t]?) := by
  rw [bulk_eq_fold_store_basic P hP] at h
  exact Basic.fold_store_spec P data (2 ^ k - 1) s (e - s) b b' h

/-! ## 2. AdvHasher (H5, H5q5, H5q7, H6) -/

/-- `StoreRange` (`StoreRangeOptBatch`: 4 positions per iteration from one 7-byte word, `num`
counters bumped before the bucket writes; only when the look-ahead is 4) equals the fold of
`Store`.  `sizesAsserted` is what the two `assert_eq!` of the batched path demand of the table
sizes; it holds for every hasher the constructors make and is preserved by every update
(`adv_sizes_invariant`). -/
theorem store_range_eq_fold_store_adv (P : AdvP) (hP : P.Ok) (data : ByteArray) (k s e : Nat)
    (st : AdvSt) (hsz : Adv.sizesAsserted P st = true) :
    Adv.storeRange P data (2 ^ k - 1) s e st
      = forRange (Adv.store P data (2 ^ k - 1)) s (e - s) st :=
  Adv.storeRange_eq_fold hP data k s e st hsz

/-- `BulkStoreRange` (`BulkStoreRangeOptMemFetch`: 32 positions per iteration from a 35-byte
copy, only with `mask == usize::MAX`; tail loop) equals the fold of `Store`, for EVERY mask
value.  `e ≤ 2^64`: positions are `usize`. -/
theorem bulk_eq_fold_store_adv (P : AdvP) (hP : P.Ok) (data : ByteArray) (mask s e : Nat)
    (he : e ≤ 2 ^ 64) (st : AdvSt) (hsz : Adv.sizesAsserted P st = true) :
    Adv.bulkStoreRange P data mask s e st = forRange (Adv.store P data mask) s (e - s) st :=
  Adv.bulkStoreRange_eq_fold hP data mask s e he st hsz

/-- … hence the batched paths realise the reference semantics of the index (written independently
of the update code in BV/Lemmas/HasherSpec.lean; counters are `u16`): sizes unchanged; the counter
of every key ends at (old + number of positions of `[s, e)` with that key) mod 2^16; every bucket
slot holds the LAST position sent to it, where the `j`-th position with a key goes to ring slot
`(old counter + j) mod 2^16 & block_mask` of the key's block; every other slot is untouched. -/
theorem adv_index_reference_semantics (P : AdvP) (hP : P.Ok) (data : ByteArray) (k s e : Nat)
    (num0 b0 : Tab) (hsz : Adv.sizesAsserted P ⟨num0, b0⟩ = true)
    (hu16 : ∀ key, num0.getD key 0 < U16) (st' : AdvSt)
    (h : Adv.storeRange P data (2 ^ k - 1) s e ⟨num0, b0⟩ = some st') :
    st'.num.size = num0.size ∧ st'.buckets.size = b0.size ∧
    (∀ key, key < num0.size → st'.num[key]? =
      some ((num0.getD key 0 + Adv.countKey (Adv.keyOf P data (2 ^ k - 1)) s (e - s) key) % U16)) ∧
    ∀ t,
      (∀ ix, Basic.lastWriter (Adv.slotOf P (Adv.keyOf P data (2 ^ k - 1)) num0 s) s (e - s) t = some ix →
        st'.buckets[t]? = some (ix % U32)) ∧
      (Basic.lastWriter (Adv.slotOf P (Adv.keyOf P data (2 ^ k - 1)) num0 s) s (e - s) t = none →
        st'.buckets[t]? = b0[t]?) := by
  rw [store_range_eq_fold_store_adv P hP data k s e _ hsz] at h
  exact Adv.fold_store_spec P hP.keyBound data (2 ^ k - 1) s num0 b0 hu16 (e - s) st' h

/-- the size invariant: true of freshly allocated tables, kept by `Store` (hence by every entry
point, which equal folds of `Store`) -/
theorem adv_sizes_invariant (P : AdvP) :
    Adv.sizesAsserted P ⟨Array.replicate P.bucketSize 0,
      Array.replicate (P.bucketSize * (1 <<< P.blockBits)) 0⟩ = true ∧
    ∀ data mask ix st st', Adv.sizesAsserted P st = true →
      Adv.store P data mask ix st = some st' → Adv.sizesAsserted P st' = true :=
  ⟨Adv.init_sizesAsserted P, fun _ _ _ _ _ hs h => Adv.store_sizesAsserted hs h⟩

/-! ## 3. H9 and H10 -/

/-- H9: both entry points are the per-position loop -/
theorem store_range_eq_fold_store_h9 (P : H9P) (data : ByteArray) (mask s e : Nat) (st : AdvSt) :
    H9.storeRange P data mask s e st = forRange (H9.store P data mask) s (e - s) st := rfl

theorem bulk_eq_fold_store_h9 (P : H9P) (data : ByteArray) (mask s e : Nat) (st : AdvSt) :
    H9.bulkStoreRange P data mask s e st = forRange (H9.store P data mask) s (e - s) st := rfl

/-- H10 (binary tree), `Store` opaque: the bulk entry point is the per-position loop -/
theorem bulk_eq_fold_store_h10 {σ : Type} (store : Nat → σ → Option σ) (s e : Nat) (st : σ) :
    H10.bulkStoreRange store s e st = forRange store s (e - s) st := rfl

/-- H10 `StoreRange` agrees with the loop only below 63 positions … -/
theorem store_range_eq_fold_store_h10_short {σ : Type} (store : Nat → σ → Option σ) (s e : Nat)
    (st : σ) (h : e < s + 63) : H10.storeRange store s e st = forRange store s (e - s) st :=
  H10.storeRange_short store s e st h

/-- … and thins longer ranges by design: with a `Store` that merely counts its calls, a range of
100 positions costs 63 calls, one of 1000 positions 63 + ⌈937/8⌉ = 181 calls -/
theorem h10_store_range_thins :
    H10.storeRange (fun _ (n : Nat) => some (n + 1)) 0 100 0 = some 63 ∧
    H10.storeRange (fun _ (n : Nat) => some (n + 1)) 0 1000 0 = some 181 ∧
    H10.bulkStoreRange (fun _ (n : Nat) => some (n + 1)) 0 1000 0 = some 1000 := by
  decide +kernel

/-! ## 4. any partition into consecutive pieces, any alignment, any mix of entry points -/

/-- BasicHasher: indexing `[s, c₁), [c₁, c₂), …` piece by piece, each piece through `StoreRange`
or `BulkStoreRange`, equals indexing the whole range one position at a time -/
theorem partition_irrelevant_basic (P : BasicP) (hP : P.Ok) (data : ByteArray) (k s : Nat)
    (pieces : List (Bool × Nat)) (hs : Sorted s pieces) (b : Tab) :
    runPieces (Basic.storeRange P data (2 ^ k - 1)) (Basic.bulkStoreRange P data (2 ^ k - 1)) s pieces b
      = forRange (Basic.store P data (2 ^ k - 1)) s (endOf s pieces - s) b :=
  runPieces_eq_fold (I := fun _ => True) (bound := endOf s pieces) (fun _ _ _ _ _ => trivial)
    (fun s e st _ _ => Basic.storeRange_eq_fold hP data k s e st)
    (fun s e st _ _ => Basic.storeRange_eq_fold hP data k s e st)
    pieces s b trivial hs (Nat.le_refl _)

/-- AdvHasher, same statement -/
theorem partition_irrelevant_adv (P : AdvP) (hP : P.Ok) (data : ByteArray) (k s : Nat)
    (pieces : List (Bool × Nat)) (hs : Sorted s pieces) (he : endOf s pieces ≤ 2 ^ 64)
    (st : AdvSt) (hsz : Adv.sizesAsserted P st = true) :
    runPieces (Adv.storeRange P data (2 ^ k - 1)) (Adv.bulkStoreRange P data (2 ^ k - 1)) s pieces st
      = forRange (Adv.store P data (2 ^ k - 1)) s (endOf s pieces - s) st :=
  runPieces_eq_fold (I := fun st => Adv.sizesAsserted P st = true) (bound := 2 ^ 64)
    (fun _ _ _ hx h => Adv.store_sizesAsserted hx h)
    (fun s e st hst _ => Adv.storeRange_eq_fold hP data k s e st hst)
    (fun s e st hst he => Adv.bulkStoreRange_eq_fold hP data _ s e he st hst)
    pieces s st hsz hs he

/-- H9, same statement (every mask) -/
theorem partition_irrelevant_h9 (P : H9P) (data : ByteArray) (mask s : Nat)
    (pieces : List (Bool × Nat)) (hs : Sorted s pieces) (st : AdvSt) :
    runPieces (H9.storeRange P data mask) (H9.bulkStoreRange P data mask) s pieces st
      = forRange (H9.store P data mask) s (endOf s pieces - s) st :=
  runPieces_eq_fold (I := fun _ => True) (bound := endOf s pieces) (fun _ _ _ _ _ => trivial)
    (fun _ _ _ _ _ => rfl) (fun _ _ _ _ _ => rfl) pieces s st trivial hs (Nat.le_refl _)

/-- H10: any partition through the bulk entry point -/
theorem partition_irrelevant_h10 {σ : Type} (store : Nat → σ → Option σ) (s : Nat)
    (pieces : List (Bool × Nat)) (hs : Sorted s pieces) (st : σ) :
    runPieces (H10.bulkStoreRange store) (H10.bulkStoreRange store) s pieces st
      = forRange store s (endOf s pieces - s) st :=
  runPieces_eq_fold (I := fun _ => True) (bound := endOf s pieces) (fun _ _ _ _ _ => trivial)
    (fun _ _ _ _ _ => rfl) (fun _ _ _ _ _ => rfl) pieces s st trivial hs (Nat.le_refl _)

/-! ## 5. a cloned index equals its source -/

/-- `clone_with_alloc` of a `BasicHasher` table: never panics, yields the same table, and
`PartialEq` says so -/
theorem clone_eq_basic (b : Tab) :
    Basic.clone b = some b ∧ ∀ c, Basic.clone b = some c → Basic.eq c b = true := by
  refine ⟨cloneTab_eq b, fun c h => ?_⟩
  rw [show Basic.clone b = some b from cloneTab_eq b] at h
  injection h with h
  subst h
  simp [Basic.eq]

/-- `clone_with_alloc` of an `AdvHasher` / `H9`: both tables are copied -/
theorem clone_eq_adv (st : AdvSt) :
    Adv.clone st = some st ∧ ∀ c, Adv.clone st = some c → Adv.eq c st = true := by
  refine ⟨Adv.clone_eq' st, fun c h => ?_⟩
  rw [Adv.clone_eq' st] at h
  injection h with h
  subst h
  simp [Adv.eq]

/-! ## 6. the hypotheses on the hash parameters hold for the real kinds; callers -/

/-- the four `BasicHasher` kinds and every `AdvHasher` configuration `ChooseHasher` can produce
(bucket_bits + block_bits ≤ 15 + 9) satisfy the hash hypotheses -/
theorem concrete_kinds_ok :
    H2.Ok ∧ H3.Ok ∧ H4.Ok ∧ H54.Ok ∧
    (∀ bucketBits blockBits, bucketBits + blockBits ≤ 32 → (adv32P bucketBits blockBits).Ok) ∧
    (∀ bucketBits blockBits hashLen, bucketBits + blockBits ≤ 32 →
      (adv64P bucketBits blockBits hashLen).Ok) :=
  ⟨H2_ok, H3_ok, H4_ok, H54_ok, adv32P_ok, adv64P_ok⟩

/-- e.g. the quality-3 index (sweep 2), whatever the start alignment and the mask -/
theorem store_range_eq_fold_store_H3 (data : ByteArray) (k s e : Nat) (b : Tab) :
    Basic.storeRange H3 data (2 ^ k - 1) s e b
      = forRange (Basic.store H3 data (2 ^ k - 1)) s (e - s) b :=
  Basic.storeRange_eq_fold H3_ok data k s e b

/-- `StoreLookaheadThenStore` (custom-dictionary priming) over the bulk entry point of an
`AdvHasher` is the fold of `Store` over `[0, size - (lookahead - 1))` -/
theorem store_lookahead_then_store_adv (P : AdvP) (hP : P.Ok) (data : ByteArray) (size : Nat)
    (hsize : size ≤ 2 ^ 64) (st : AdvSt) (hsz : Adv.sizesAsserted P st = true) :
    storeLookaheadThenStore (Adv.bulkStoreRange P data) P.lookahead size st
      = forRange (Adv.store P data USIZE_MAX) 0 (size - (P.lookahead - 1)) st := by
  unfold storeLookaheadThenStore
  simp only []
  split
  · rw [Adv.bulkStoreRange_eq_fold hP data USIZE_MAX 0 _ (by omega) st hsz]; rfl
  · rename_i h
    rw [show size - (P.lookahead - 1) = 0 by omega]; rfl

/-! ## 7. non-vacuity -/

/-- the hypotheses are satisfiable together, with a range long enough to enter the batched path
at an unaligned start under a ring mask with positions beyond the mask -/
example : H3.Ok ∧ (adv32P 14 4).Ok ∧
    Adv.sizesAsserted (adv32P 14 4) ⟨Array.replicate (adv32P 14 4).bucketSize 0,
      Array.replicate ((adv32P 14 4).bucketSize * (1 <<< (adv32P 14 4).blockBits)) 0⟩ = true ∧
    Sorted 69 [(false, 90), (true, 90), (true, 131)] ∧ endOf 69 [(false, 90), (true, 90), (true, 131)] = 131 :=
  ⟨H3_ok, adv32P_ok 14 4 (by decide), Adv.init_sizesAsserted _, by simp [Sorted], rfl⟩

/-- a toy kind (sweep 2, 16 slots) on a 80-byte buffer with mask 63: the batched path is really
taken over positions 61..79 (straddling the ring end), changes the table, and agrees with the loop -/
def toyP : BasicP := { sweep := 2, hash := fun w => w.headD 0 % 8 }
def toyData : ByteArray := ByteArray.mk ((Array.range 80).map fun i => (i * 37 + 11).toUInt8)

example : toyP.Ok := ⟨fun w => by simp only [toyP, U32]; omega⟩

example :
    (Basic.storeRange toyP toyData 63 61 80 (Array.replicate 16 0)).isSome = true ∧
    Basic.storeRange toyP toyData 63 61 80 (Array.replicate 16 0) ≠ some (Array.replicate 16 0) ∧
    Basic.storeRange toyP toyData 63 61 80 (Array.replicate 16 0)
      = forRange (Basic.store toyP toyData 63) 61 19 (Array.replicate 16 0) := by
  decide +kernel

end BV.Props.C19
