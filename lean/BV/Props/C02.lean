/-
C02 — Multi-threaded compression never returns success with wrong or truncated data.

Property theorems ONLY (helper lemmas: BV/Lemmas/Multi*.lean).  Model: BV/Model/Multi.lean
(`get_range`, `compress_part`, `CompressMulti` of src/enc/threading.rs with the three
spawners; the single-stream encoder is an oracle — per job a recorded result) on top of the
complete concatenator model BV/Model/Concat.lean (nothing assumed there: C03, C12, C16).

Spec side (written independently of the code-mirroring functions, BV/Lemmas/MultiStitch.lean):
`spliceAll cap bs` — the members `bs` pushed through the concatenator the way its API
prescribes (per member `new_brotli_file` + one `stream` call with all the room left, which
must answer `NeedsMoreInput|Success`; then `finish = Success`); `pieces_prefix` — slices glued.
-/
import BV.Lemmas.MultiSound
import BV.Lemmas.MultiBound

namespace BV.Props.C02
open BV.Multi BV.Multi.Res BV.Lemmas.Multi

/-! ## 1. `get_range` tiles the input -/

/-- `ranges_tile`.  For every input length `n` and thread count `1 ≤ t` (a `usize`) with
`n·t < 2^64`: no multiplication of `get_range` overflows (debug and release build agree); the
pieces are `[bnd i, bnd (i+1))` with `bnd k = k·n/t`: consecutive (piece `i` ends where piece
`i+1` starts), ordered, inside `[0, n]`, the first starts at 0, the last ends at `n`; and —
the tiling itself, on ANY list of length `n` — the slices `input[lo_i .. hi_i]` glued in index
order are the input: nothing lost, nothing doubled. -/
theorem ranges_tile (t n : Nat) (ht : 1 ≤ t) (ht64 : t < U64) (hnt : n * t < U64) :
    (∀ i, i < t → getRange i t n = ok (bnd t n i, bnd t n (i + 1)) ∧
                  getRangeWrap i t n = ok (bnd t n i, bnd t n (i + 1)) ∧
                  bnd t n i ≤ bnd t n (i + 1) ∧ bnd t n (i + 1) ≤ n) ∧
    bnd t n 0 = 0 ∧ bnd t n t = n ∧
    (∀ {α : Type} (input : List α), input.length = n →
      ((List.range t).flatMap fun i => (input.drop (bnd t n i)).take (bnd t n (i + 1) - bnd t n i)) = input) := by
  refine ⟨fun i hi => ⟨getRange_eq i t n hi ht64 hnt, getRangeWrap_eq i t n hi ht64 hnt,
    bnd_mono t n (Nat.le_succ i), bnd_le t n (i + 1) (by omega) (by omega)⟩, bnd_zero t n, bnd_top t n (by omega), ?_⟩
  intro α input hlen
  rw [pieces_prefix input t n t, bnd_top t n (by omega), ← hlen, List.take_length]

/-- non-vacuity: 7 bytes over 3 threads are cut `[0,2) [2,4) [4,7)` -/
example : getRange 0 3 7 = ok (0, 2) ∧ getRange 1 3 7 = ok (2, 4) ∧ getRange 2 3 7 = ok (4, 7) := by decide

/-- outside the bound the debug build panics where the release build wraps to a WRONG range:
`n = 2^63`, 4 threads, piece 2 -/
example : getRange 2 4 (2 ^ 63) = panic .rangeMul ∧ getRangeWrap 2 4 (2 ^ 63) = ok (0, 2 ^ 61) := by decide

/-! ## 2. no panic, no hang, nothing written past the buffer -/

/-- For every thread count `1 ≤ t` (the pool: `≤ MAX_THREADS`), every spawner, every output
capacity and ALL job outputs (arbitrary bytes, or `Err`): if no job panics or spins,
`CompressMulti` returns; none of its own panic sites and none of the concatenator's is
reachable (C16's invariant is threaded through the stitch loop); the bytes written stay inside
the buffer; the input is handed back. -/
theorem multi_no_panic (sp : Spawner) (t : Nat) (jobs : Nat → JobRes) (cap : Nat) (ht : 1 ≤ t)
    (hp : sp = .pool → t ≤ BV.Gen.MAX_THREADS) (hc : Clean jobs t) :
    ∃ r, compressMulti sp t jobs cap = ok r ∧ r.returned = true ∧ r.out.length ≤ cap := by
  rw [compressMulti_clean sp t jobs cap (by omega) hp hc]
  exact tailRun_total cap _ _ (joinedList_fine sp t jobs hc)

/-- the pool's `assert!(num_threads <= MAX_THREADS)`: 17 threads panic at the first spawn -/
example : compressMulti .pool 17 (fun _ => .ok [0x3b]) 100 = panic .poolAssert := by decide

/-! ## 3. `Ok` is sound (and complete) -/

/-- `multi_ok_sound`.  If `CompressMulti` returns `Ok(k)` — any spawner, hence (C07
`join_returns_own`, see C06) any schedule — then EVERY job returned `Ok(bytes_i)`, every
concatenator call answered `Success|NeedsMoreInput`, `finish` answered `Success`
(`spliceAll … = some out`), `output[..k]` is exactly the reference splice of
`bytes_0 … bytes_{t-1}` in index order, `k ≤ output.len()`, and the input was handed back. -/
theorem multi_ok_sound (sp : Spawner) (t : Nat) (jobs : Nat → JobRes) (cap : Nat) (r : MultiRet) (k : Nat)
    (h : compressMulti sp t jobs cap = ok r) (hk : r.result = .ok k) :
    ∃ bs : List (List Nat), bs.length = t ∧ (∀ i b, bs[i]? = some b → jobs i = .ok b) ∧
      spliceAll cap bs = some r.out ∧ k = r.out.length ∧ r.returned = true := by
  obtain ⟨ht, _, _, hrun⟩ := compressMulti_inv h
  exact tailRun_ok_sound ht hrun hk

/-- …and conversely: whenever every job is `Ok` and the reference splice succeeds, every
spawner returns `Ok` with exactly these bytes.  Together: `Ok(k)` ⇔ all jobs `Ok` ∧ splice ok. -/
theorem multi_ok_complete (sp : Spawner) (t : Nat) (jobs : Nat → JobRes) (cap : Nat) (bs : List (List Nat))
    (out : List Nat) (ht : 1 ≤ t) (hp : sp = .pool → t ≤ BV.Gen.MAX_THREADS) (hlen : bs.length = t)
    (hj : ∀ i b, bs[i]? = some b → jobs i = .ok b) (hs : spliceAll cap bs = some out) :
    compressMulti sp t jobs cap = ok ⟨.ok out.length, out, true⟩ := by
  have hc : Clean jobs t := by
    intro i hi
    have := hj i bs[i] (List.getElem?_eq_getElem (by omega))
    rw [this]; exact ⟨by simp, by simp⟩
  rw [compressMulti_clean sp t jobs cap (by omega) hp hc]
  exact tailRun_ok_complete bs out hlen (by omega) hj hs

/-- non-vacuity (2 jobs: an appendable member with magic header and an empty catable member):
the stitched stream is the first member — `3b` contributes nothing -/
example : compressMulti .threads 2 (fun i => if i = 0 then .ok [0x6b, 0x11, 0x00, 0xe1, 0x97, 0x82, 0x01, 0x00, 0x03] else .ok [0x3b]) 100
    = ok ⟨.ok 9, [0x6b, 0x11, 0x00, 0xe1, 0x97, 0x82, 0x01, 0x00, 0x03], true⟩ := by decide

/-- Regression (defect D18, corrected by 19df515): the stitch loop used to overwrite
`compression_result` in every iteration.  Empty input, magic header, 2 threads, a 2-byte
output buffer: job 0's look-ahead does not fit (`NeedsMoreOutput`), job 1 (`3b`) is shorter
than the look-ahead (`NeedsMoreInput`) — the old aggregation answered `Ok(2)` with the cut
header `6b 11`, although the reference splice fails; the current one answers
`Err(InsufficientOutputSpace)`. -/
theorem error_overwritten_v0 :
    let jobs : Nat → JobRes := fun i => if i = 0 then .ok [0x6b, 0x11, 0x00, 0xe1, 0x97, 0x82, 0x01, 0x00, 0x03] else .ok [0x3b]
    compressMultiV0 .threads 2 jobs 2 = ok ⟨.ok 2, [0x6b, 0x11], true⟩ ∧
    spliceAll 2 [[0x6b, 0x11, 0x00, 0xe1, 0x97, 0x82, 0x01, 0x00, 0x03], [0x3b]] = none ∧
    compressMulti .threads 2 jobs 2 = ok ⟨.error .insufficient, [0x6b, 0x11], true⟩ := by
  decide

/-- the same overwrite with a failed JOB: `[Err, Ok]` gave `Ok` with job 0 missing -/
example : compressMultiV0 .inline 2 (fun i => if i = 0 then .err else .ok [0x3b]) 10 = ok ⟨.ok 1, [0x3b], true⟩ ∧
    compressMulti .inline 2 (fun i => if i = 0 then .err else .ok [0x3b]) 10 = ok ⟨.error .insufficient, [], true⟩ := by
  decide

/-! ## 4. the input is handed back -/

/-- `multi_input_returned`.  On EVERY return path of `CompressMulti` on which no job panicked
the input token is back in `owned_input` — success, `InsufficientOutputSpace`, concatenation
and finalisation errors, a failed job. -/
theorem multi_input_returned (sp : Spawner) (t : Nat) (jobs : Nat → JobRes) (cap : Nat) (r : MultiRet)
    (hnp : ∀ i, i < t → jobs i ≠ .panic) (h : compressMulti sp t jobs cap = ok r) : r.returned = true := by
  obtain ⟨ht, _, _, hrun⟩ := compressMulti_inv h
  unfold tailRun at hrun
  obtain ⟨x, hx, h2⟩ := bind_eq_ok hrun
  cases x with
  | inr e =>
    obtain ⟨hm, _⟩ := stitch_inr cap _ acc0 e hx
    simp only [joinedList, List.mem_map, List.mem_range] at hm
    obtain ⟨jr, ⟨i, hi, rfl⟩, hj⟩ := hm
    exact absurd ((joined_execErr_iff sp _).mp hj).2 (hnp i (by omega))
  | inl a =>
    dsimp only at h2
    obtain ⟨a2, _, hf⟩ := bind_eq_ok h2
    unfold finishUp at hf
    cases hr : a2.res with
    | error e => rw [hr] at hf; simp only [ok.injEq] at hf; subst hf; rfl
    | ok k =>
      rw [hr] at hf
      dsimp only at hf
      cases hfin : BV.Concat.finish a2.cat (cap - a2.out.length) with
      | panic s => rw [hfin] at hf; cases hf
      | ok f => rw [hfin] at hf; simp only [ok.injEq] at hf; subst hf; rfl

/-- the hypothesis is needed, and this is the only way to lose the input: a job thread of the
thread-per-job spawner panicked (`join` → `Err(ThreadExecError)`, the early `return`; the other
jobs may still be running and hold their clones of the `Arc`) -/
example : compressMulti .threads 2 (fun i => if i = 0 then .panic else .ok [0x3b]) 10
    = ok ⟨.error .threadExec, [], false⟩ := by decide

/-- with the pool the same job makes its `join` wait for ever (the worker died before
publishing); with the inline spawner and for the last job the panic is the caller's -/
example : compressMulti .pool 2 (fun i => if i = 0 then .panic else .ok [0x3b]) 10 = hang ∧
    compressMulti .inline 2 (fun i => if i = 0 then .panic else .ok [0x3b]) 10 = panic (.jobOnCaller 0) ∧
    compressMulti .threads 2 (fun i => if i = 0 then .ok [0x3b] else .panic) 10 = panic (.jobOnCaller 1) := by
  decide

/-- Regression (defect D13, corrected by e1db7f0): `compression_result?` returned before the
hand-back — one thread, an output buffer that is too small -/
theorem input_not_returned_v0 :
    compressMultiV0 .threads 1 (fun _ => .ok [0x3b]) 0 = ok ⟨.error (.finalization BV.Concat.NEEDS_MORE_OUTPUT), [], true⟩ ∧
    compressMultiV0 .threads 1 (fun _ => .ok [0x0b, 0x01, 0x80, 0x61, 0x03]) 2 = ok ⟨.error .insufficient, [0x0b, 0x01], false⟩ ∧
    compressMulti .threads 1 (fun _ => .ok [0x0b, 0x01, 0x80, 0x61, 0x03]) 2 = ok ⟨.error .insufficient, [0x0b, 0x01], true⟩ := by
  decide

/-! ## 5. `compress_part`: `Ok` only for a finished stream -/

/-- `part_truncation_impossible`, ALL qualities (after 8th fix `D19`): whenever `compress_part`
reports `Ok(bytes)`, the encoder call that ended the loop returned `true` AND reported
`is_finished()`, and `bytes` are all the bytes the recorded calls produced, in order. -/
theorem part_ok_is_finished : ∀ (calls : List EncAns) (availIn availOut : Nat) (acc bytes : List Nat),
    partLoop calls availIn availOut acc = ok (.ok bytes) →
    ∃ (pre : List CallAns) (last : CallAns), last.result = true ∧ last.finished = true ∧
      calls.take (pre.length + 1) = (pre ++ [last]).map EncAns.ans ∧
      bytes = acc ++ (pre ++ [last]).flatMap (·.produced) := by
  intro calls
  induction calls with
  | nil => intro _ _ _ _ h; simp [partLoop] at h
  | cons c rest ih =>
    intro availIn availOut acc bytes h
    cases c with
    | panic => simp [partLoop] at h
    | ans a =>
      simp only [partLoop] at h
      split at h
      · cases h
      · split at h
        · cases h
        · split at h
          · rename_i hfin
            simp only [ok.injEq, JobRes.ok.injEq] at h
            exact ⟨[], a, by simpa using hfin.1, by simpa using hfin.2, by simp, by simp [h]⟩
          · split at h
            · cases h
            · obtain ⟨pre, last, h1, h2, h3, h4⟩ := ih _ _ _ _ h
              refine ⟨a :: pre, last, h1, h2, ?_, ?_⟩
              · simp only [List.length_cons, List.take_succ_cons, List.cons_append, List.map_cons, h3]
              · rw [h4]; simp

/-- `part_truncation_impossible_q2`: the hypotheses under which a job SUCCEEDS.  If the FINISH
call on a fresh encoder, handed the whole piece and a buffer that holds the whole stream,
returns `true`, finished, with the whole stream (`EncoderOneShot`: the stream machine's contract,
C20/C01) and the stream fits `BrotliEncoderMaxCompressedSize(len)` (C08 `stream_total_le_bound`,
proved for quality ≥ 2; FALSE at quality 0/1 with lgwin < 14, where the job now answers
`Err(InsufficientOutputSpace)` instead of a cut stream), then the job is `Ok(stream)`. -/
theorem part_succeeds_when_stream_fits (i t n : Nat) (stream : List Nat) (rest : List EncAns) (consumed : Nat)
    (hi : i < t) (ht64 : t < U64) (hnt : n * t < U64)
    (hcons : consumed ≤ bnd t n (i + 1) - bnd t n i)
    (hfit : stream.length ≤ maxCompressedSize (bnd t n (i + 1) - bnd t n i)) :
    compressPart i t n (.ans ⟨true, true, consumed, stream⟩ :: rest) = .ok stream := by
  unfold compressPart
  rw [getRange_eq i t n hi ht64 hnt]
  have hm : bnd t n i ≤ bnd t n (i + 1) := bnd_mono t n (show i ≤ i + 1 by omega)
  have hle := bnd_le t n (i + 1) (by omega) (by omega)
  dsimp only
  rw [if_neg (by omega), if_neg (by omega), if_neg (by omega)]
  simp only [partLoop]
  rw [if_neg (by omega), if_neg (by omega)]
  simp

/-- non-vacuity + the q0/1 shape: a call that returns `true` with a full buffer but NOT
finished is an error now (it was `Ok` with a cut stream before the correction) -/
example : compressPart 0 1 5 [.ans ⟨true, true, 5, [0x0b, 0x02, 0x80, 1, 2, 3, 4, 5, 3]⟩] = .ok [0x0b, 0x02, 0x80, 1, 2, 3, 4, 5, 3] ∧
    compressPart 0 1 5 [.ans ⟨true, false, 5, List.replicate 27 0⟩] = .err := by decide

/-! ## 6. the dictionary of a job: truncated to its tail, positions restart -/

/-- `dict_prefix_positions`.  Quality ≥ 2, window `lgwin` (sanitised, ≥ 10), prefix of `size ≥ 1`
bytes.  The dictionary is used; if `size > 2^lgwin − 16` exactly the LAST `2^lgwin − 16` bytes
are kept (`dropped + kept = size`), otherwise all; the first input byte gets position `kept`
(not `size`): job position `p` is absolute position `p + dropped`.  So an index built over the
untruncated prefix (absolute positions) is not the job's own index unless `dropped = 0`. -/
theorem dict_prefix_positions (size lgwin quality : Nat) (hq : 2 ≤ quality) (hs : 1 ≤ size) (hl : 10 ≤ lgwin) :
    (dictPlan size lgwin quality).used = true ∧
    (dictPlan size lgwin quality).dropped + (dictPlan size lgwin quality).kept = size ∧
    (dictPlan size lgwin quality).kept = min size (2 ^ lgwin - 16) ∧
    ((dictPlan size lgwin quality).dropped = 0 ↔ size ≤ 2 ^ lgwin - 16) ∧
    (∀ {α : Type} (input : List α), size ≤ input.length →
      ((input.take size).drop (dictPlan size lgwin quality).dropped).length = (dictPlan size lgwin quality).kept) := by
  have hpow : 1024 ≤ 2 ^ lgwin := by
    have : (2 : Nat) ^ 10 ≤ 2 ^ lgwin := Nat.pow_le_pow_right (by decide) hl
    simpa using this
  unfold dictPlan
  have h1 : ¬ (size = 0 ∨ quality = 0 ∨ quality = 1) := by omega
  rw [if_neg h1]
  by_cases hbig : size > 2 ^ lgwin - 16
  · rw [if_pos hbig]
    refine ⟨rfl, ?_, ?_, ?_, ?_⟩
    · show size - (2 ^ lgwin - 16) + (2 ^ lgwin - 16) = size; omega
    · show 2 ^ lgwin - 16 = min size (2 ^ lgwin - 16); omega
    · show size - (2 ^ lgwin - 16) = 0 ↔ size ≤ 2 ^ lgwin - 16; omega
    · intro α input hin
      show ((input.take size).drop (size - (2 ^ lgwin - 16))).length = 2 ^ lgwin - 16
      simp only [List.length_drop, List.length_take]; omega
  · rw [if_neg hbig]
    refine ⟨rfl, ?_, ?_, ?_, ?_⟩
    · show 0 + size = size; omega
    · show size = min size (2 ^ lgwin - 16); omega
    · show (0 : Nat) = 0 ↔ size ≤ 2 ^ lgwin - 16; omega
    · intro α input hin
      show ((input.take size).drop 0).length = size
      simp only [List.drop_zero, List.length_take]; omega

/-- quality 0/1 ignore the dictionary altogether -/
example : dictPlan 5000 13 1 = ⟨false, 0, 0⟩ ∧ dictPlan 15000 13 6 = ⟨true, 6824, 8176⟩ ∧ dictPlan 1 13 6 = ⟨true, 0, 1⟩ := by decide

/-! ## 7. a sufficiently large buffer -/

/-- `multi_succeeds_when_sized` — PARTIAL.
Full statement: with `|out| ≥ BrotliEncoderMaxCompressedSizeMulti(n, t)` and quality ≥ 2 the
call returns `Ok`.
Proved: (a) the arithmetic — if job 0 is at most `c0` and every other job at most `ci` bytes
longer than `piece + 4·(piece ≫ 14)` with `c0 + ci·(t−1) + 1 ≤ 22 + 8t`, then all job outputs
together + 1 fit the advertised bound (no wrap-around below 2^62); (b) the reduction — every
spawner then returns `Ok` with the reference splice, PROVIDED the concatenator accepts these
members whenever it is given room for all their bytes + 1 (`hroom`: the members are
well-formed catable streams, C03, and splicing never lengthens, which is checked on every run
— `splice_room.checked`, signature `multi:assumption:splice-expands` — but not proved here).
Missing for the full statement: `hroom` as a theorem about the concatenator model, and the
per-job bounds as a theorem about the encoder (C08 gives `piece + 4·(piece≫14) + 22` per
job; the harness records the observed slack at quality ≥ 2 (thorough tier, 2 × 6400 cases):
≤ 10 for catable jobs, ≤ 9 for job 0, ≤ 18 for job 0 with the magic header — so (a) applies as
it stands with (c0, ci) = (18, 10) for t ≤ 6; above that the bytes saved at every joint (one
window field and one end marker stripped) have to be accounted for, which (a) does not do.
On the real code the bound was never exceeded (search oracle `multi:sized-not-ok`; worst case
probed: 16 threads × incompressible 16 KiB-aligned pieces, 62 bytes of margin left). -/
theorem multi_succeeds_when_sized_partial (sp : Spawner) (t n cap c0 ci : Nat) (jobs : Nat → JobRes)
    (bs : List (List Nat)) (ht : 1 ≤ t) (hp : sp = .pool → t ≤ BV.Gen.MAX_THREADS) (hn : n < 2 ^ 62) (hn0 : 0 < n)
    (hlen : bs.length = t) (hj : ∀ i b, bs[i]? = some b → jobs i = .ok b)
    (hc : c0 + ci * (t - 1) + 1 ≤ 22 + 8 * t)
    (h0 : (bs.getD 0 []).length ≤ piece t n 0 + 4 * (piece t n 0 / 16384) + c0)
    (hi : ∀ i, 0 < i → i < t → (bs.getD i []).length ≤ piece t n i + 4 * (piece t n i / 16384) + ci)
    (hroom : ∀ cap', sumTo (fun i => (bs.getD i []).length) t + 1 ≤ cap' → (spliceAll cap' bs).isSome = true)
    (hcap : maxCompressedSizeMulti n t ≤ cap) :
    ∃ out, compressMulti sp t jobs cap = ok ⟨.ok out.length, out, true⟩ ∧ spliceAll cap bs = some out := by
  have hsum := sized_arith t n c0 ci (fun i => (bs.getD i []).length) (by omega) hn hn0 hc h0 hi
  have := hroom cap (by omega)
  obtain ⟨out, hout⟩ := Option.isSome_iff_exists.mp this
  exact ⟨out, multi_ok_complete sp t jobs cap bs out ht hp hlen hj hout, hout⟩

/-- non-vacuity of the size condition: the observed worst slacks (18, 10) satisfy it up to 6
threads, (14, 8) for every thread count -/
example : ∀ t, 1 ≤ t → t ≤ 6 → 18 + 10 * (t - 1) + 1 ≤ 22 + 8 * t := by intro t h1 h2; omega
example : ∀ t, 1 ≤ t → 14 + 8 * (t - 1) + 1 ≤ 22 + 8 * t := by intro t h1; omega
example : maxCompressedSizeMulti 5000 4 = 5054 ∧ maxCompressedSize 0 = 17 := by decide

end BV.Props.C02
