/-
C02 — Multi-threaded compression never returns success with wrong or truncated data.

Property theorems ONLY (helper lemmas: BV/Lemmas/Multi*.lean).  Model: BV/Model/Multi.lean
(`get_range`, `compress_part`, `CompressMulti` of src/enc/threading.rs with the three
spawners; the single-stream encoder is an oracle — per job a recorded result) on top of the
complete concatenator model BV/Model/Concat.lean (nothing assumed there: C03, C12, C16).

Spec side (written independently of the code-mirroring functions, BV/Lemmas/MultiStitch.lean):
`spliceAll cap bs` — the members `bs` pushed through the concatenator the way its API
prescribes (per member `new_brotli_file` + one `stream` call with all the room left, which
must answer `NeedsMoreInput|Success`; then `finish = Success`); `pieces_prefix` — slices glued.
-/
import BV.Lemmas.MultiSound
import BV.Lemmas.MultiBound
import BV.Lemmas.MultiSplice
import BV.Lemmas.MultiJobBound
import BV.Props.C13

namespace BV.Props.C02
open BV.Multi BV.Multi.Res BV.Lemmas.Multi

/-! ## 1. `get_range` tiles the input -/

/-- `ranges_tile`.  For every input length `n` and thread count `1 ≤ t` (a `usize`) with
`n·t < 2^64`: no multiplication of `get_range` overflows (debug and release build agree); the
pieces are `[bnd i, bnd (i+1))` with `bnd k = k·n/t`: consecutive (piece `i` ends where piece
`i+1` starts), ordered, inside `[0, n]`, the first starts at 0, the last ends at `n`; and —
the tiling itself, on ANY list of length `n` — the slices `input[lo_i .. hi_i]` glued in index
order are the input: nothing lost, nothing doubled. -/
theorem ranges_tile (t n : Nat) (ht : 1 ≤ t) (ht64 : t < U64) (hnt : n * t < U64) :
    (∀ i, i < t → getRange i t n = ok (bnd t n i, bnd t n (i + 1)) ∧
                  getRangeWrap i t n = ok (bnd t n i, bnd t n (i + 1)) ∧
                  bnd t n i ≤ bnd t n (i + 1) ∧ bnd t n (i + 1) ≤ n) ∧
    bnd t n 0 = 0 ∧ bnd t n t = n ∧
    (∀ {α : Type} (input : List α), input.length = n →
      ((List.range t).flatMap fun i => (input.drop (bnd t n i)).take (bnd t n (i + 1) - bnd t n i)) = input) := by
  refine ⟨fun i hi => ⟨getRange_eq i t n hi ht64 hnt, getRangeWrap_eq i t n hi ht64 hnt,
    bnd_mono t n (Nat.le_succ i), bnd_le t n (i + 1) (by omega) (by omega)⟩, bnd_zero t n, bnd_top t n (by omega), ?_⟩
  intro α input hlen
  rw [pieces_prefix input t n t, bnd_top t n (by omega), ← hlen, List.take_length]

/-- non-vacuity: 7 bytes over 3 threads are cut `[0,2) [2,4) [4,7)` -/
example : getRange 0 3 7 = ok (0, 2) ∧ getRange 1 3 7 = ok (2, 4) ∧ getRange 2 3 7 = ok (4, 7) := by decide

/-- outside the bound the debug build panics where the release build wraps to a WRONG range:
`n = 2^63`, 4 threads, piece 2 -/
example : getRange 2 4 (2 ^ 63) = panic .rangeMul ∧ getRangeWrap 2 4 (2 ^ 63) = ok (0, 2 ^ 61) := by decide

/-! ## 2. no panic, no hang, nothing written past the buffer -/

/-- For every thread count `1 ≤ t` (the pool: `≤ MAX_THREADS`), every spawner, every output
capacity and ALL job outputs (arbitrary bytes, or `Err`): if no job panics or spins,
`CompressMulti` returns; none of its own panic sites and none of the concatenator's is
reachable (C16's invariant is threaded through the stitch loop); the bytes written stay inside
the buffer; the input is handed back. -/
theorem multi_no_panic (sp : Spawner) (t : Nat) (jobs : Nat → JobRes) (cap : Nat) (ht : 1 ≤ t)
    (hp : sp = .pool → t ≤ BV.Gen.MAX_THREADS) (hc : Clean jobs t) :
    ∃ r, compressMulti sp t jobs cap = ok r ∧ r.returned = true ∧ r.out.length ≤ cap := by
  rw [compressMulti_clean sp t jobs cap (by omega) hp hc]
  exact tailRun_total cap _ _ (joinedList_fine sp t jobs hc)

/-- the pool's `assert!(num_threads <= MAX_THREADS)`: 17 threads panic at the first spawn -/
example : compressMulti .pool 17 (fun _ => .ok [0x3b]) 100 = panic .poolAssert := by decide

/-! ## 3. `Ok` is sound (and complete) -/

/-- `multi_ok_sound`.  If `CompressMulti` returns `Ok(k)` — any spawner, hence (C07
`join_returns_own`, see C06) any schedule — then EVERY job returned `Ok(bytes_i)`, every
concatenator call answered `Success|NeedsMoreInput`, `finish` answered `Success`
(`spliceAll … = some out`), `output[..k]` is exactly the reference splice of
`bytes_0 … bytes_{t-1}` in index order, `k ≤ output.len()`, and the input was handed back. -/
theorem multi_ok_sound (sp : Spawner) (t : Nat) (jobs : Nat → JobRes) (cap : Nat) (r : MultiRet) (k : Nat)
    (h : compressMulti sp t jobs cap = ok r) (hk : r.result = .ok k) :
    ∃ bs : List (List Nat), bs.length = t ∧ (∀ i b, bs[i]? = some b → jobs i = .ok b) ∧
      spliceAll cap bs = some r.out ∧ k = r.out.length ∧ r.returned = true := by
  obtain ⟨ht, _, _, hrun⟩ := compressMulti_inv h
  exact tailRun_ok_sound ht hrun hk

/-- …and conversely: whenever every job is `Ok` and the reference splice succeeds, every
spawner returns `Ok` with exactly these bytes.  Together: `Ok(k)` ⇔ all jobs `Ok` ∧ splice ok. -/
theorem multi_ok_complete (sp : Spawner) (t : Nat) (jobs : Nat → JobRes) (cap : Nat) (bs : List (List Nat))
    (out : List Nat) (ht : 1 ≤ t) (hp : sp = .pool → t ≤ BV.Gen.MAX_THREADS) (hlen : bs.length = t)
    (hj : ∀ i b, bs[i]? = some b → jobs i = .ok b) (hs : spliceAll cap bs = some out) :
    compressMulti sp t jobs cap = ok ⟨.ok out.length, out, true⟩ := by
  have hc : Clean jobs t := by
    intro i hi
    have := hj i bs[i] (List.getElem?_eq_getElem (by omega))
    rw [this]; exact ⟨by simp, by simp⟩
  rw [compressMulti_clean sp t jobs cap (by omega) hp hc]
  exact tailRun_ok_complete bs out hlen (by omega) hj hs

/-- non-vacuity (2 jobs: an appendable member with magic header and an empty catable member):
the stitched stream is the first member — `3b` contributes nothing -/
example : compressMulti .threads 2 (fun i => if i = 0 then .ok [0x6b, 0x11, 0x00, 0xe1, 0x97, 0x82, 0x01, 0x00, 0x03] else .ok [0x3b]) 100
    = ok ⟨.ok 9, [0x6b, 0x11, 0x00, 0xe1, 0x97, 0x82, 0x01, 0x00, 0x03], true⟩ := by decide

/-- Regression (defect D18, corrected by 19df515): the stitch loop used to overwrite
`compression_result` in every iteration.  Empty input, magic header, 2 threads, a 2-byte
output buffer: job 0's look-ahead does not fit (`NeedsMoreOutput`), job 1 (`3b`) is shorter
than the look-ahead (`NeedsMoreInput`) — the old aggregation answered `Ok(2)` with the cut
header `6b 11`, although the reference splice fails; the current one answers
`Err(InsufficientOutputSpace)`. -/
theorem error_overwritten_v0 :
    let jobs : Nat → JobRes := fun i => if i = 0 then .ok [0x6b, 0x11, 0x00, 0xe1, 0x97, 0x82, 0x01, 0x00, 0x03] else .ok [0x3b]
    compressMultiV0 .threads 2 jobs 2 = ok ⟨.ok 2, [0x6b, 0x11], true⟩ ∧
    spliceAll 2 [[0x6b, 0x11, 0x00, 0xe1, 0x97, 0x82, 0x01, 0x00, 0x03], [0x3b]] = none ∧
    compressMulti .threads 2 jobs 2 = ok ⟨.error .insufficient, [0x6b, 0x11], true⟩ := by
  decide

/-- the same overwrite with a failed JOB: `[Err, Ok]` gave `Ok` with job 0 missing -/
example : compressMultiV0 .inline 2 (fun i => if i = 0 then .err else .ok [0x3b]) 10 = ok ⟨.ok 1, [0x3b], true⟩ ∧
    compressMulti .inline 2 (fun i => if i = 0 then .err else .ok [0x3b]) 10 = ok ⟨.error .insufficient, [], true⟩ := by
  decide

/-! ## 4. the input is handed back -/

/-- `multi_input_returned`.  On EVERY return path of `CompressMulti` on which no job panicked
the input token is back in `owned_input` — success, `InsufficientOutputSpace`, concatenation
and finalisation errors, a failed job. -/
theorem multi_input_returned (sp : Spawner) (t : Nat) (jobs : Nat → JobRes) (cap : Nat) (r : MultiRet)
    (hnp : ∀ i, i < t → jobs i ≠ .panic) (h : compressMulti sp t jobs cap = ok r) : r.returned = true := by
  obtain ⟨ht, _, _, hrun⟩ := compressMulti_inv h
  unfold tailRun at hrun
  obtain ⟨x, hx, h2⟩ := bind_eq_ok hrun
  cases x with
  | inr e =>
    obtain ⟨hm, _⟩ := stitch_inr cap _ acc0 e hx
    simp only [joinedList, List.mem_map, List.mem_range] at hm
    obtain ⟨jr, ⟨i, hi, rfl⟩, hj⟩ := hm
    exact absurd ((joined_execErr_iff sp _).mp hj).2 (hnp i (by omega))
  | inl a =>
    dsimp only at h2
    obtain ⟨a2, _, hf⟩ := bind_eq_ok h2
    unfold finishUp at hf
    cases hr : a2.res with
    | error e => rw [hr] at hf; simp only [ok.injEq] at hf; subst hf; rfl
    | ok k =>
      rw [hr] at hf
      dsimp only at hf
      cases hfin : BV.Concat.finish a2.cat (cap - a2.out.length) with
      | panic s => rw [hfin] at hf; cases hf
      | ok f => rw [hfin] at hf; simp only [ok.injEq] at hf; subst hf; rfl

/-- the hypothesis is needed, and this is the only way to lose the input: a job thread of the
thread-per-job spawner panicked (`join` → `Err(ThreadExecError)`, the early `return`; the other
jobs may still be running and hold their clones of the `Arc`) -/
example : compressMulti .threads 2 (fun i => if i = 0 then .panic else .ok [0x3b]) 10
    = ok ⟨.error .threadExec, [], false⟩ := by decide

/-- with the pool the same job makes its `join` wait for ever (the worker died before
publishing); with the inline spawner and for the last job the panic is the caller's -/
example : compressMulti .pool 2 (fun i => if i = 0 then .panic else .ok [0x3b]) 10 = hang ∧
    compressMulti .inline 2 (fun i => if i = 0 then .panic else .ok [0x3b]) 10 = panic (.jobOnCaller 0) ∧
    compressMulti .threads 2 (fun i => if i = 0 then .ok [0x3b] else .panic) 10 = panic (.jobOnCaller 1) := by
  decide

/-- Regression (defect D13, corrected by e1db7f0): `compression_result?` returned before the
hand-back — one thread, an output buffer that is too small -/
theorem input_not_returned_v0 :
    compressMultiV0 .threads 1 (fun _ => .ok [0x3b]) 0 = ok ⟨.error (.finalization BV.Concat.NEEDS_MORE_OUTPUT), [], true⟩ ∧
    compressMultiV0 .threads 1 (fun _ => .ok [0x0b, 0x01, 0x80, 0x61, 0x03]) 2 = ok ⟨.error .insufficient, [0x0b, 0x01], false⟩ ∧
    compressMulti .threads 1 (fun _ => .ok [0x0b, 0x01, 0x80, 0x61, 0x03]) 2 = ok ⟨.error .insufficient, [0x0b, 0x01], true⟩ := by
  decide

/-! ## 5. `compress_part`: `Ok` only for a finished stream -/

/-- `part_truncation_impossible`, ALL qualities (after 8th fix `D19`): whenever `compress_part`
reports `Ok(bytes)`, the encoder call that ended the loop returned `true` AND reported
`is_finished()`, and `bytes` are all the bytes the recorded calls produced, in order. -/
theorem part_ok_is_finished : ∀ (calls : List EncAns) (availIn availOut : Nat) (acc bytes : List Nat),
    partLoop calls availIn availOut acc = ok (.ok bytes) →
    ∃ (pre : List CallAns) (last : CallAns), last.result = true ∧ last.finished = true ∧
      calls.take (pre.length + 1) = (pre ++ [last]).map EncAns.ans ∧
      bytes = acc ++ (pre ++ [last]).flatMap (·.produced) := by
  intro calls
  induction calls with
  | nil => intro _ _ _ _ h; simp [partLoop] at h
  | cons c rest ih =>
    intro availIn availOut acc bytes h
    cases c with
    | panic => simp [partLoop] at h
    | ans a =>
      simp only [partLoop] at h
      split at h
      · cases h
      · split at h
        · cases h
        · split at h
          · rename_i hfin
            simp only [ok.injEq, JobRes.ok.injEq] at h
            exact ⟨[], a, by simpa using hfin.1, by simpa using hfin.2, by simp, by simp [h]⟩
          · split at h
            · cases h
            · obtain ⟨pre, last, h1, h2, h3, h4⟩ := ih _ _ _ _ h
              refine ⟨a :: pre, last, h1, h2, ?_, ?_⟩
              · simp only [List.length_cons, List.take_succ_cons, List.cons_append, List.map_cons, h3]
              · rw [h4]; simp

/-- `part_truncation_impossible_q2`: the hypotheses under which a job SUCCEEDS.  If the FINISH
call on a fresh encoder, handed the whole piece and a buffer that holds the whole stream,
returns `true`, finished, with the whole stream (`EncoderOneShot`: the stream machine's contract,
C20/C01) and the stream fits `BrotliEncoderMaxCompressedSize(len)` (C08 `stream_total_le_bound`,
proved for quality ≥ 2; FALSE at quality 0/1 with lgwin < 14, where the job now answers
`Err(InsufficientOutputSpace)` instead of a cut stream), then the job is `Ok(stream)`. -/
theorem part_succeeds_when_stream_fits (i t n : Nat) (stream : List Nat) (rest : List EncAns) (consumed : Nat)
    (hi : i < t) (ht64 : t < U64) (hnt : n * t < U64)
    (hcons : consumed ≤ bnd t n (i + 1) - bnd t n i)
    (hfit : stream.length ≤ maxCompressedSize (bnd t n (i + 1) - bnd t n i)) :
    compressPart i t n (.ans ⟨true, true, consumed, stream⟩ :: rest) = .ok stream := by
  unfold compressPart
  rw [getRange_eq i t n hi ht64 hnt]
  have hm : bnd t n i ≤ bnd t n (i + 1) := bnd_mono t n (show i ≤ i + 1 by omega)
  have hle := bnd_le t n (i + 1) (by omega) (by omega)
  dsimp only
  rw [if_neg (by omega), if_neg (by omega), if_neg (by omega)]
  simp only [partLoop]
  rw [if_neg (by omega), if_neg (by omega)]
  simp

/-- non-vacuity + the q0/1 shape: a call that returns `true` with a full buffer but NOT
finished is an error now (it was `Ok` with a cut stream before the correction) -/
example : compressPart 0 1 5 [.ans ⟨true, true, 5, [0x0b, 0x02, 0x80, 1, 2, 3, 4, 5, 3]⟩] = .ok [0x0b, 0x02, 0x80, 1, 2, 3, 4, 5, 3] ∧
    compressPart 0 1 5 [.ans ⟨true, false, 5, List.replicate 27 0⟩] = .err := by decide

/-! ## 6. the dictionary of a job: truncated to its tail, positions restart -/

/-- `dict_prefix_positions`.  Quality ≥ 2, window `lgwin` (sanitised, ≥ 10), prefix of `size ≥ 1`
bytes.  The dictionary is used; if `size > 2^lgwin − 16` exactly the LAST `2^lgwin − 16` bytes
are kept (`dropped + kept = size`), otherwise all; the first input byte gets position `kept`
(not `size`): job position `p` is absolute position `p + dropped`.  So an index built over the
untruncated prefix (absolute positions) is not the job's own index unless `dropped = 0`. -/
theorem dict_prefix_positions (size lgwin quality : Nat) (hq : 2 ≤ quality) (hs : 1 ≤ size) (hl : 10 ≤ lgwin) :
    (dictPlan size lgwin quality).used = true ∧
    (dictPlan size lgwin quality).dropped + (dictPlan size lgwin quality).kept = size ∧
    (dictPlan size lgwin quality).kept = min size (2 ^ lgwin - 16) ∧
    ((dictPlan size lgwin quality).dropped = 0 ↔ size ≤ 2 ^ lgwin - 16) ∧
    (∀ {α : Type} (input : List α), size ≤ input.length →
      ((input.take size).drop (dictPlan size lgwin quality).dropped).length = (dictPlan size lgwin quality).kept) := by
  have hpow : 1024 ≤ 2 ^ lgwin := by
    have : (2 : Nat) ^ 10 ≤ 2 ^ lgwin := Nat.pow_le_pow_right (by decide) hl
    simpa using this
  unfold dictPlan
  have h1 : ¬ (size = 0 ∨ quality = 0 ∨ quality = 1) := by omega
  rw [if_neg h1]
  by_cases hbig : size > 2 ^ lgwin - 16
  · rw [if_pos hbig]
    refine ⟨rfl, ?_, ?_, ?_, ?_⟩
    · show size - (2 ^ lgwin - 16) + (2 ^ lgwin - 16) = size; omega
    · show 2 ^ lgwin - 16 = min size (2 ^ lgwin - 16); omega
    · show size - (2 ^ lgwin - 16) = 0 ↔ size ≤ 2 ^ lgwin - 16; omega
    · intro α input hin
      show ((input.take size).drop (size - (2 ^ lgwin - 16))).length = 2 ^ lgwin - 16
      simp only [List.length_drop, List.length_take]; omega
  · rw [if_neg hbig]
    refine ⟨rfl, ?_, ?_, ?_, ?_⟩
    · show 0 + size = size; omega
    · show size = min size (2 ^ lgwin - 16); omega
    · show (0 : Nat) = 0 ↔ size ≤ 2 ^ lgwin - 16; omega
    · intro α input hin
      show ((input.take size).drop 0).length = size
      simp only [List.drop_zero, List.length_take]; omega

/-- quality 0/1 ignore the dictionary altogether -/
example : dictPlan 5000 13 1 = ⟨false, 0, 0⟩ ∧ dictPlan 15000 13 6 = ⟨true, 6824, 8176⟩ ∧ dictPlan 1 13 6 = ⟨true, 0, 1⟩ := by decide

/-! ## 7. a sufficiently large buffer -/

/-- `multi_succeeds_when_sized` — FULL (no run-time-checked assumption).
Job outputs: `m₀` (job 0) and `dᵢ.m` (job i ≥ 1), well-formed in the sense of lean-concat's
`concat_bits` (C03): `m₀` has a parsable window field, more bytes than the concatenator's
look-ahead and ends with its end marker; every later output is `MemberOK` behind `m₀`'s header
(window not larger, same header form, first meta-block header inside the look-ahead — the
catable prelude —, end marker in its last two bytes).  Size: job 0 is at most `c0`, every other
job at most `ci` bytes longer than `piece + 4·(piece ≫ 14)`, with `c0 + ci·(t−1) ≤ 22 + 8t`.
Then for every spawner, `|out| ≥ BrotliEncoderMaxCompressedSizeMulti(n, t)` implies `Ok(k)`:
no concatenator call answers `NeedsMoreOutput`, `finish` answers `Success`, `k` is at most the
advertised bound and the output, as a bit string, is the closed form of `concat_bits` (only the
last end marker survives, every later window field is gone).
How: `splice_sized` — every complete run of a member emits a number of bytes fixed by the closed
forms of C03/C12, at most the member's own length (the two tail bytes of its predecessor and its
first `⌈v/8⌉` bytes become at most `⌈v/8⌉ + 2` bytes: joints never lengthen, and they shorten
only by 0 or 1 byte, which is why the bits stripped at the joints cannot pay for larger per-job
slacks); a single call that stalled would already have written more than that
(`stream_growth` makes its retry complete). -/
theorem multi_succeeds_when_sized (sp : Spawner) (t n cap c0 ci : Nat) (jobs : Nat → JobRes)
    (m0 pre0 : List Nat) (a0 b0 n0 D0 wsz0 wo0 : Nat) (ds : List BV.Concat.MemberData)
    (ht : 1 ≤ t) (hp : sp = .pool → t ≤ BV.Gen.MAX_THREADS) (hn : n < 2 ^ 62) (hn0 : 0 < n)
    (hlen : ds.length + 1 = t) (hj0 : jobs 0 = .ok m0) (hji : ∀ i d, ds[i]? = some d → jobs (i + 1) = .ok d.m)
    (hbytes : ∀ y, y ∈ m0 → y < 256) (hlong : BV.Concat.need (m0.headD 0) + 1 ≤ m0.length)
    (hparse : BV.Concat.parseWindowSize (m0.take (BV.Concat.need (m0.headD 0))) = .ok (some (wsz0, wo0)))
    (hm0 : m0 = pre0 ++ [a0, b0]) (hmark : BV.Concat.Marked (a0 + (b0 <<< 8)) n0 D0)
    (hok : ∀ d, d ∈ ds → BV.Concat.MemberOK (wsz0 ||| (if wo0 = 14 then BV.Concat.LARGE_WINDOW_FLAG else 0)) d)
    (hc : c0 + ci * (t - 1) ≤ 22 + 8 * t)
    (h0 : m0.length ≤ piece t n 0 + 4 * (piece t n 0 / 16384) + c0)
    (hi : ∀ i d, ds[i]? = some d → d.m.length ≤ piece t n (i + 1) + 4 * (piece t n (i + 1) / 16384) + ci)
    (hcap : maxCompressedSizeMulti n t ≤ cap) :
    ∃ out, compressMulti sp t jobs cap = ok ⟨.ok out.length, out, true⟩ ∧
      out.length ≤ maxCompressedSizeMulti n t ∧
      BV.Concat.bytesToBits out = BV.Concat.bytesToBits pre0 ++ BV.Concat.bitsOf n0 D0 ++ BV.Concat.laterBits n0 ds
        ++ [true, true] ++ List.replicate (14 - BV.Concat.lastN n0 ds) false := by
  -- the members as a list, and their total length against the bound
  have hbl : (m0 :: ds.map fun d => d.m).length = t := by simp; omega
  have hget : ∀ i, 0 < i → i < t → ∃ d, ds[i - 1]? = some d ∧ (m0 :: ds.map fun d => d.m).getD i [] = d.m := by
    intro i hi0 hit
    have hlt : i - 1 < ds.length := by omega
    refine ⟨ds[i - 1], List.getElem?_eq_getElem hlt, ?_⟩
    obtain ⟨j, rfl⟩ : ∃ j, i = j + 1 := ⟨i - 1, by omega⟩
    have hlt' : j < ds.length := by omega
    simp [List.getD_eq_getElem?_getD, List.getElem?_eq_getElem hlt']
  have hsum := sized_arith' t n c0 ci (fun i => ((m0 :: ds.map fun d => d.m).getD i []).length) (by omega) hn hn0 hc
    (by simpa using h0)
    (by
      intro i hi0 hit
      obtain ⟨d, hd, he⟩ := hget i hi0 hit
      have := hi (i - 1) d hd
      have e : i - 1 + 1 = i := by omega
      rw [e] at this
      show ((m0 :: ds.map fun d => d.m).getD i []).length ≤ _
      rw [he]; exact this)
  rw [← hbl, sumTo_lengths] at hsum
  have hsum' : m0.length + (ds.map fun d => d.m.length).sum ≤ maxCompressedSizeMulti n t := by
    simpa [List.map_map, Function.comp_def, hbl] using hsum
  obtain ⟨out, hsp, hol, hbits⟩ := splice_sized cap m0 pre0 a0 b0 n0 D0 wsz0 wo0 ds hbytes hlong hparse hm0 hmark hok
    (by omega)
  refine ⟨out, ?_, by omega, hbits⟩
  apply multi_ok_complete sp t jobs cap (m0 :: ds.map fun d => d.m) out ht hp hbl _ hsp
  intro i b hb
  cases i with
  | zero => simp at hb; subst hb; exact hj0
  | succ j =>
    simp only [List.getElem?_cons_succ, List.getElem?_map, Option.map_eq_some_iff] at hb
    obtain ⟨d, hd, rfl⟩ := hb
    exact hji j d hd

/-- the per-job size hypotheses discharged by C08 (w-header): every job output has the length of a
never-flushed stream of C08's shape (`JobStream`: payload-independent head, meta-blocks obeying
`Guard` — at most `len + 4` (`+ 5`) bytes per meta-block — and `BlocksOK`, empty last block) for
its piece `xs i` under its parameters: job 0 the caller's with `appendable`, jobs ≥ 1
additionally `catable`, no magic header.  `wmax` bounds the window field (4 for lgwin 16 and
18..24 in the normal form, 14 always).  The slack constants `jobSlack` are PROVED from
`streamStart_length` and `run_bound`; the arithmetic condition decides which thread counts are
covered (examples below): this, not the concatenator, is what limits the theorem — with `Guard`
alone a model stream may spend `len + 4` bytes on every meta-block, and then 16 jobs with 7- or
14-bit window fields or a magic header do exceed the advertised bound. -/
theorem multi_succeeds_when_sized_c08 (sp : Spawner) (t n cap wmax : Nat) (jobs : Nat → JobRes)
    (p0 : BV.Header.Params) (xs : Nat → List Nat)
    (m0 pre0 : List Nat) (a0 b0 n0 D0 wsz0 wo0 : Nat) (ds : List BV.Concat.MemberData)
    (ht : 1 ≤ t) (hp : sp = .pool → t ≤ BV.Gen.MAX_THREADS) (hn : n < 2 ^ 54) (hn0 : 0 < n)
    (hlen : ds.length + 1 = t) (hj0 : jobs 0 = .ok m0) (hji : ∀ i d, ds[i]? = some d → jobs (i + 1) = .ok d.m)
    (hbytes : ∀ y, y ∈ m0 → y < 256) (hlong : BV.Concat.need (m0.headD 0) + 1 ≤ m0.length)
    (hparse : BV.Concat.parseWindowSize (m0.take (BV.Concat.need (m0.headD 0))) = .ok (some (wsz0, wo0)))
    (hm0 : m0 = pre0 ++ [a0, b0]) (hmark : BV.Concat.Marked (a0 + (b0 <<< 8)) n0 D0)
    (hok : ∀ d, d ∈ ds → BV.Concat.MemberOK (wsz0 ||| (if wo0 = 14 then BV.Concat.LARGE_WINDOW_FLAG else 0)) d)
    (hq : 2 ≤ p0.quality) (hh : p0.sizeHint < 2 ^ 35) (hw4 : wmax ≤ 4 ∨ 14 ≤ wmax)
    (hW0 : (BV.Header.ensureInitialized true { p0 with appendable := true }).lastBytesBits ≤ wmax)
    (hWi : (BV.Header.ensureInitialized true { p0 with appendable := true, catable := true, magicNumber := false }).lastBytesBits ≤ wmax)
    (hx : ∀ i, i < t → (xs i).length = piece t n i)
    (hs0 : JobStream { p0 with appendable := true } (xs 0) m0.length)
    (hsi : ∀ i d, ds[i]? = some d →
      JobStream { p0 with appendable := true, catable := true, magicNumber := false } (xs (i + 1)) d.m.length)
    (hc : jobSlack wmax p0.magicNumber p0.catable + jobSlack wmax false true * (t - 1) ≤ 22 + 8 * t)
    (hcap : maxCompressedSizeMulti n t ≤ cap) :
    ∃ out, compressMulti sp t jobs cap = ok ⟨.ok out.length, out, true⟩ ∧ out.length ≤ maxCompressedSizeMulti n t := by
  have hpl : ∀ i, i < t → piece t n i < 2 ^ 54 := by
    intro i hi
    have h1 : bnd t n (i + 1) ≤ n := bnd_le t n (i + 1) (by omega) (by omega)
    unfold piece; omega
  have e14 : (2 : Nat) ^ 14 = 16384 := by decide
  obtain ⟨out, h1, h2, _⟩ := multi_succeeds_when_sized sp t n cap _ _ jobs m0 pre0 a0 b0 n0 D0 wsz0 wo0 ds ht hp
    (by have : (2 : Nat) ^ 54 ≤ 2 ^ 62 := Nat.pow_le_pow_right (by decide) (by decide)
        omega) hn0 hlen hj0 hji hbytes hlong hparse hm0 hmark hok hc
    (by
      have := jobStream_le { p0 with appendable := true } (xs 0) m0.length wmax hq hh
        (by rw [hx 0 (by omega)]; exact hpl 0 (by omega)) hW0 hw4 hs0
      rw [hx 0 (by omega), e14] at this
      exact this)
    (by
      intro i d hd
      have hit : i + 1 < t := by
        have : i < ds.length := by
          rcases Nat.lt_or_ge i ds.length with h | h
          · exact h
          · rw [List.getElem?_eq_none h] at hd; cases hd
        omega
      have := jobStream_le { p0 with appendable := true, catable := true, magicNumber := false } (xs (i + 1)) d.m.length wmax
        hq hh (by rw [hx _ hit]; exact hpl _ hit) hWi hw4 (hsi i d hd)
      rw [hx _ hit, e14] at this
      exact this)
    hcap
  exact ⟨out, h1, h2⟩

/-- which thread counts `Guard` + `BlocksOK` cover (non-vacuity of the arithmetic condition):
normal-form window field of ≤ 4 bits (lgwin 16, 18..24) and no magic header — ALL of 1..16 (up
to 25); with the magic header up to 13 (catable: 10); with a 7- or 14-bit window field
(lgwin 10..15, 17, large window) up to 8, with the magic header up to 4. -/
example : ∀ t, 1 ≤ t → t ≤ 16 → jobSlack 4 false false + jobSlack 4 false true * (t - 1) ≤ 22 + 8 * t := by
  intro t h1 h2; simp only [jobSlack]; simp; omega
example : ∀ t, 1 ≤ t → t ≤ 16 → jobSlack 4 false true + jobSlack 4 false true * (t - 1) ≤ 22 + 8 * t := by
  intro t h1 h2; simp only [jobSlack]; simp; omega
example : ∀ t, 1 ≤ t → t ≤ 13 → jobSlack 4 true false + jobSlack 4 false true * (t - 1) ≤ 22 + 8 * t := by
  intro t h1 h2; simp only [jobSlack]; simp; omega
example : ∀ t, 1 ≤ t → t ≤ 8 → jobSlack 14 false false + jobSlack 14 false true * (t - 1) ≤ 22 + 8 * t := by
  intro t h1 h2; simp only [jobSlack]; simp; omega
example : ∀ t, 1 ≤ t → t ≤ 4 → jobSlack 14 true false + jobSlack 14 false true * (t - 1) ≤ 22 + 8 * t := by
  intro t h1 h2; simp only [jobSlack]; simp; omega
/-- …and the condition does fail beyond: 16 jobs, 7-bit window fields -/
example : ¬ (jobSlack 14 false false + jobSlack 14 false true * (16 - 1) ≤ 22 + 8 * 16) := by decide
example : maxCompressedSizeMulti 5000 4 = 5054 ∧ maxCompressedSize 0 = 17 := by decide

/-- non-vacuity of `multi_succeeds_when_sized`: job 0 = `8b 01 80 03 61 62 63 03` (lgwin 22, end
marker on 8 data bits), job 1 = `3b 00 00 00 03` (`MemberOK`: 4 window bits, first meta-block
header ends at bit 6, marker in its last two bytes), 8 input bytes over 2 threads, the pool
spawner, a buffer of exactly the advertised bound -/
def exD : BV.Concat.MemberData := ⟨[0x3b, 0x00, 0x00, 0x00, 0x03], 4, 6, 8, 0⟩

theorem exD_ok : BV.Concat.MemberOK (22 ||| (if (4 : Nat) = 14 then BV.Concat.LARGE_WINDOW_FLAG else 0)) exD :=
  { bytes := by decide
    long := by decide
    parse := ⟨22, by decide, by decide⟩
    form := by decide
    det := by decide
    fit := by decide
    room := by decide
    marker := ⟨[0x3b, 0x00, 0x00], 0x00, 0x03, rfl, ⟨by decide, by decide⟩⟩ }

example : ∃ out, compressMulti .pool 2 (fun i => if i = 0 then .ok [0x8b, 0x01, 0x80, 0x03, 0x61, 0x62, 0x63, 0x03] else .ok exD.m)
      (maxCompressedSizeMulti 8 2) = ok ⟨.ok out.length, out, true⟩ ∧ out.length ≤ maxCompressedSizeMulti 8 2 := by
  obtain ⟨out, h1, h2, _⟩ := multi_succeeds_when_sized .pool 2 8 (maxCompressedSizeMulti 8 2) 6 9
    (fun i => if i = 0 then .ok [0x8b, 0x01, 0x80, 0x03, 0x61, 0x62, 0x63, 0x03] else .ok exD.m)
    [0x8b, 0x01, 0x80, 0x03, 0x61, 0x62, 0x63, 0x03] [0x8b, 0x01, 0x80, 0x03, 0x61, 0x62] 0x63 0x03 8 0x63 22 4 [exD]
    (by decide) (fun _ => by decide) (by decide) (by decide) rfl rfl
    (by intro i d h; cases i with
        | zero => simp at h; subst h; rfl
        | succ j => simp at h)
    (by decide) (by decide) (by decide) rfl ⟨by decide, by decide⟩
    (by intro d hd; simp at hd; subst hd; exact exD_ok)
    (by decide) (by decide)
    (by intro i d h; cases i with
        | zero => simp at h; subst h; decide
        | succ j => simp at h)
    (Nat.le_refl _)
  exact ⟨out, h1, h2⟩

/-! ## 8. the C ABI's thread-count clamp -/

/-- `BrotliEncoderCompressMulti` (C13 `thread_count_clamp`): 0 threads are rejected before anything
is touched, 1 thread takes the single-stream path, and `desired ≥ 2` calls `CompressMulti` with
`t = min(desired, 16)` allocator slots — so the pool's `assert!(num_threads <= MAX_THREADS)` cannot
fire (`multi_no_panic` applies for every spawner and every `desired`), and the bound the caller
computes with `desired` (`BrotliEncoderMaxCompressedSizeMulti(n, desired)`) is at least the bound
for the `t` threads actually used, so `multi_succeeds_when_sized` applies to the clamped call. -/
theorem ffi_thread_clamp (desired : Nat) (hd : 2 ≤ desired) (n cap : Nat) (jobs : Nat → JobRes) (sp : Spawner)
    (hc : Clean jobs (min desired 16)) :
    BV.FFI.multiDispatch desired = .multi (min desired 16) ∧
    (∃ r, compressMulti sp (min desired 16) jobs cap = ok r ∧ r.returned = true ∧ r.out.length ≤ cap) ∧
    maxCompressedSizeMulti n (min desired 16) ≤ maxCompressedSizeMulti n desired := by
  obtain ⟨hdis, h16, hle, _⟩ := (BV.Props.C13.thread_count_clamp desired).2.2 hd
  refine ⟨hdis, multi_no_panic sp _ jobs cap (by omega) (fun _ => h16) hc, ?_⟩
  unfold maxCompressedSizeMulti
  omega

example : BV.FFI.multiDispatch 0 = .reject ∧ BV.FFI.multiDispatch 1 = .single ∧ BV.FFI.multiDispatch 40 = .multi 16 := by
  decide

end BV.Props.C02
