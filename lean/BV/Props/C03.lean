/-
C03 — Concatenated appendable/catable streams decode to the concatenated contents.

Bit-level part proved here (the entropy decoder is outside this model): the
concatenator's header and trailer surgery is exact at the bit level.

Property theorems ONLY (helper lemmas: BV/Lemmas/ConcatBits.lean, ConcatSplice.lean, ConcatMember*.lean,
ConcatWhole.lean, ConcatChain.lean, ConcatFraming.lean, ConcatStored.lean, ConcatAgree.lean;
the RFC framing reader `BV.HeaderSpec` is another worker's module, imported unchanged).
Model: BV/Model/Concat.lean; `bitsOf n v` is the LSB-first bit string of the low
`n` bits of `v`, `bytesToBits` the bit string of a byte string,
`encodeWindowBits` mirrors `EncodeWindowBits` of `src/enc/encode.rs`.
-/
import BV.Lemmas.ConcatBits
import BV.Lemmas.ConcatSplice
import BV.Lemmas.ConcatChain
import BV.Lemmas.ConcatAgree

namespace BV.Props.C03
open BV.Concat BV.Concat.Outcome

/-! ## window bits -/

/-- For every `lgwin` in 10..30 (large-window form when requested — mandatory above
24) and WHATEVER bits follow the window field in the first two bytes,
`parse_window_size` returns `(lgwin, number of window bits)`. -/
theorem parse_inverts_encode (lgwin : Nat) (large : Bool) (h10 : 10 ≤ lgwin) (h30 : lgwin ≤ 30)
    (hl : large = true ∨ lgwin ≤ 24) (b0 b1 : Nat) (hb0 : b0 < 256) (hb1 : b1 < 256) (rest : List Nat)
    (hx : (b0 + 256 * b1) % 2 ^ (encodeWindowBits lgwin large).2 = (encodeWindowBits lgwin large).1) :
    parseWindowSize (b0 :: b1 :: rest) = ok (some (lgwin, (encodeWindowBits lgwin large).2)) :=
  parse_inverts_encode_gen lgwin large h10 h30 hl b0 b1 hb0 hb1 rest hx

/-- non-vacuity: `lgwin = 22` followed by ISLAST, ISLASTEMPTY is the byte `0x3b`;
`lgwin = 30` (large window) followed by the same two bits is `11 de` -/
example : parseWindowSize [0x3b, 0] = ok (some (22, 4)) :=
  parse_inverts_encode 22 false (by decide) (by decide) (Or.inr (by decide)) 0x3b 0 (by decide) (by decide) [] (by decide)
example : parseWindowSize [0x11, 0xde] = ok (some (30, 14)) :=
  parse_inverts_encode 30 true (by decide) (by decide) (Or.inl rfl) 0x11 0xde (by decide) (by decide) [] (by decide)

/-- the encoder never produces other sizes, and the parser accepts nothing else -/
theorem parse_range (bs : List Nat) (h : 2 ≤ bs.length) (w o : Nat)
    (hr : parseWindowSize bs = ok (some (w, o))) : 10 ≤ w ∧ w ≤ 30 := by
  have := parseWindowSize_sat bs h
  rw [hr] at this
  exact ⟨(this w o rfl).1, (this w o rfl).2.1⟩

/-- A later member whose header form (normal / 14-bit large-window) differs from the form of
the header already emitted is refused (`BrotliFileNotCraftedForConcatenation`), the
state and the output stay untouched: the two forms are coded for different distance
alphabets and cannot share one header.  `window_size` bit 7 (`LARGE_WINDOW_FLAG`)
records the emitted form. -/
theorem window_form_must_agree (s : State) (nsp : NewStreamData) (out : List Nat) (cap w o : Nat)
    (hw : nsp.num_bytes_written = none) (hr : nsp.num_bytes_read ≤ 5)
    (hp : parseWindowSize (nsp.bytes_so_far.toList.take nsp.num_bytes_read) = ok (some (w, o)))
    (hws : s.window_size ≠ 0) (hle : w ≤ s.window_size &&& NOT_LARGE_WINDOW_FLAG)
    (hform : (decide (o = 14)) ≠ (decide ((s.window_size &&& LARGE_WINDOW_FLAG) ≠ 0))) :
    shiftAndCheckNewStreamHeader s nsp out cap = ok (s, out, NOT_CRAFTED_FOR_CONCAT) := by
  unfold shiftAndCheckNewStreamHeader
  rw [hw]
  dsimp only
  rw [if_neg (by rw [hdr5]; omega), hp]
  simp only [bind_ok]
  rw [if_neg hws, if_neg (by omega), if_pos hform]

/-- non-vacuity: a normal-form header (`3b`: lgwin 22) behind a large-window output (lgwin 30) -/
example : shiftAndCheckNewStreamHeader
    { State.new with window_size := 30 ||| LARGE_WINDOW_FLAG } ⟨⟨0x3b, 0, 0, 0, 0⟩, 4, none⟩ [] 10
    = ok ({ State.new with window_size := 30 ||| LARGE_WINDOW_FLAG }, [], NOT_CRAFTED_FOR_CONCAT) := by
  decide

/-- `new_with_window_size w` "mimics an empty stream with that window": for every valid
`w` (10..30; the large-window form above 24) its tail is, as a bit string, the window bits
`EncodeWindowBits w (w > 24)` followed by the two marker bits `1,1` and zero padding — so
`flush_previous_stream` strips it down to exactly the window field (`strip_end_marker`
applies: `Marked`) — and `parse_window_size` of the tail bytes gives back `w`. -/
theorem new_with_window_size_mimics_empty_stream (w : Nat) (h10 : 10 ≤ w) (h30 : w ≤ 30) :
    ∃ s, State.newWithWindowSize w = ok s ∧ s.last_byte_sanitized = false ∧
      (s.last_bytes_len = 1 ∨ s.last_bytes_len = 2) ∧
      (encodeWindowBits w (decide (w > 24))).2 + 2 ≤ 8 * s.last_bytes_len ∧
      Marked (s.last_bytes.1 + (s.last_bytes.2 <<< 8)) (encodeWindowBits w (decide (w > 24))).2
        (encodeWindowBits w (decide (w > 24))).1 ∧
      bitsOf (8 * s.last_bytes_len) (s.last_bytes.1 + (s.last_bytes.2 <<< 8))
        = bitsOf (encodeWindowBits w (decide (w > 24))).2 (encodeWindowBits w (decide (w > 24))).1 ++ [true, true]
          ++ List.replicate (8 * s.last_bytes_len - (encodeWindowBits w (decide (w > 24))).2 - 2) false ∧
      parseWindowSize [s.last_bytes.1, s.last_bytes.2] = ok (some (w, (encodeWindowBits w (decide (w > 24))).2)) := by
  have hw : w = 10 ∨ w = 11 ∨ w = 12 ∨ w = 13 ∨ w = 14 ∨ w = 15 ∨ w = 16 ∨ w = 17 ∨ w = 18 ∨ w = 19 ∨ w = 20 ∨
      w = 21 ∨ w = 22 ∨ w = 23 ∨ w = 24 ∨ w = 25 ∨ w = 26 ∨ w = 27 ∨ w = 28 ∨ w = 29 ∨ w = 30 := by omega
  rcases hw with rfl | rfl | rfl | rfl | rfl | rfl | rfl | rfl | rfl | rfl | rfl | rfl | rfl | rfl | rfl | rfl | rfl |
      rfl | rfl | rfl | rfl <;>
    exact ⟨_, rfl, rfl, by decide, by decide, ⟨by decide, by decide⟩,
      Marked.bits ⟨by decide, by decide⟩ _ (by decide), by decide⟩

/-! ## stripping the end marker -/

/-- A tail of 1 or 2 bytes (value `T`, little endian) whose highest set bits are the
two marker bits `1,1`, at ANY alignment `n` (`n` data bits `D` below them, zero
padding above): as a bit string it is `data ++ [1,1] ++ 0…0`. -/
theorem marked_tail_bits (T n D m : Nat) (h : Marked T n D) (hm : n + 2 ≤ m) :
    bitsOf m T = bitsOf n D ++ [true, true] ++ List.replicate (m - n - 2) false :=
  h.bits m hm

/-- `flush_previous_stream` on such a tail, with output room: it reports success,
leaves exactly the `n` data bits — in `last_bytes[0]` with
`last_byte_bit_offset = n`, `last_bytes_len = 1` when `n < 8`; for `n ≥ 8` the
completed low byte is emitted and the remaining `n - 8` bits stay, again with
`last_bytes_len = 1` — and marks the tail sanitised.  All 7 + 15 alignments
(marker inside the first byte, straddling the byte boundary, inside the second byte). -/
theorem strip_end_marker (s : State) (n D cap : Nat) (out : List Nat)
    (hs : s.last_byte_sanitized = false) (hlen : s.last_bytes_len = 1 ∨ s.last_bytes_len = 2)
    (hn : n + 2 ≤ 8 * s.last_bytes_len)
    (hm : Marked (s.last_bytes.1 + (s.last_bytes.2 <<< 8)) n D) (hcap : out.length < cap) :
    flushPreviousStream s out cap =
      ok (stripped s n D, if n < 8 then out else out ++ [D % 256], SUCCESS) ∧
    (stripped s n D).last_bytes_len = 1 ∧
    (stripped s n D).last_byte_bit_offset = (if n < 8 then n else n - 8) ∧
    (stripped s n D).last_byte_sanitized = true ∧
    -- the data bits, in order: emitted byte (if any) then the kept partial byte
    bitsOf n D = bytesToBits (if n < 8 then [] else [D % 256]) ++
      bitsOf (stripped s n D).last_byte_bit_offset (stripped s n D).last_bytes.1 := by
  refine ⟨strip_end_marker_gen s n D cap out hs hlen hn hm hcap, ?_, ?_, ?_, ?_⟩
  · unfold stripped; split <;> rfl
  · unfold stripped; split <;> rfl
  · unfold stripped; split <;> rfl
  · unfold stripped
    by_cases h8 : n < 8
    · simp [h8, bytesToBits]
    · simp only [h8, if_false, bytesToBits, List.flatMap_cons, List.flatMap_nil, List.append_nil]
      have e : n = 8 + (n - 8) := by omega
      conv => lhs; rw [e]
      rw [bitsOf_append]
      have : bitsOf 8 (D % 256) = bitsOf 8 D := bitsOf_mod 8 D
      rw [this]

/-- non-vacuity: the tail `63 d5` (marker at bits 14, 15; 14 data bits `0x1563`) -/
example : Marked (0x63 + (0xd5 <<< 8)) 14 0x1563 := ⟨by decide, by decide⟩
/-- …and the marker straddling the byte boundary (bits 7 and 8) -/
example : Marked (0xe5 + (0x01 <<< 8)) 7 0x65 := ⟨by decide, by decide⟩

/-- without output room a strip that would complete a byte answers `NeedsMoreOutput`
and leaves the state untouched (so the call can be retried) -/
theorem strip_end_marker_needs_room (s : State) (n D : Nat)
    (hs : s.last_byte_sanitized = false) (hlen : s.last_bytes_len = 2) (hn : n + 2 ≤ 16) (h8 : 8 ≤ n)
    (hm : Marked (s.last_bytes.1 + (s.last_bytes.2 <<< 8)) n D) :
    flushPreviousStream s [] 0 = ok (s, [], NEEDS_MORE_OUTPUT) := by
  unfold flushPreviousStream
  simp only [hs, Bool.false_eq_true, not_false_eq_true, if_true, hlen]
  rw [if_neg (by decide), if_neg (by decide), if_neg (by decide)]
  rw [findHighLoop_marked _ n D (2 * 8) hm (by omega) (by omega) _ 0 _ (by omega) (by omega) (by omega)]
  simp only [bind_ok]
  rw [if_neg (by omega)]
  have e1 : n + 1 - 1 = n := by omega
  rw [e1, hm.shr]
  simp only [ne_eq, not_true_eq_false, if_false]
  unfold flushStrip
  rw [if_pos ⟨h8, by simp⟩]

/-! ## splicing the next member's header -/

/-- `splice_header`.  State: `k = last_byte_bit_offset` tail bits `t = last_bytes[0]` are
kept (`t < 2^k`).  Look-ahead: `n = num_bytes_read` member bytes `hdr`; `wo` = length of the
member's window field, `v` = bit offset where its first meta-block header ends
(`detect_varlen_offset`), `wo + 2 ≤ v`, `⌈v/8⌉ ≤ n`.  The realignment branch of
`shift_and_check_new_stream_header` succeeds, pushes one byte `r0` and leaves the rest of the
realigned header in `bytes_so_far` for copy-out (`num_bytes_written = Some(0)`); with
`R = r0 :: bytes_so_far[..num_bytes_read]` and `dest = ⌈(k + v - wo)/8⌉`:

* `R[..dest]`, as an LSB-first bit string, is `tailBits ++ hdrBits[wo ..< v] ++ 0-padding`
  (the member's window field is dropped, its header bits are glued right behind the tail bits);
* `R[dest..]` are the member's remaining whole look-ahead bytes `hdr[⌈v/8⌉..]`, unchanged. -/
theorem splice_header (s : State) (nsp : NewStreamData) (wo v : Nat) (out : List Nat) (cap : Nat)
    (hoff : s.last_byte_bit_offset < 8) (ht : s.last_bytes.1 < 2 ^ s.last_byte_bit_offset)
    (hr : nsp.num_bytes_read ≤ 5)
    (h0 : nsp.bytes_so_far.b0 < 256) (h1 : nsp.bytes_so_far.b1 < 256) (h2 : nsp.bytes_so_far.b2 < 256)
    (h3 : nsp.bytes_so_far.b3 < 256) (h4 : nsp.bytes_so_far.b4 < 256)
    (hwo : wo ≤ 14) (hv : wo + 2 ≤ v) (hsrc : (v + 7) / 8 ≤ nsp.num_bytes_read) (hout : out.length < cap) :
    ∃ r0 nsp', shiftRealign s nsp wo v out cap
        = ok ({ s with any_bytes_emitted := true }, nsp', out ++ [r0]) ∧
      nsp'.num_bytes_written = some 0 ∧ nsp'.num_bytes_read ≤ 5 ∧
      bytesToBits ((r0 :: nsp'.bytes_so_far.toList.take nsp'.num_bytes_read).take
          ((s.last_byte_bit_offset + v - wo + 7) / 8))
        = bitsOf s.last_byte_bit_offset s.last_bytes.1 ++
          ((bytesToBits (nsp.bytes_so_far.toList.take nsp.num_bytes_read)).drop wo).take (v - wo) ++
          List.replicate (8 * ((s.last_byte_bit_offset + v - wo + 7) / 8) - s.last_byte_bit_offset - (v - wo)) false ∧
      (r0 :: nsp'.bytes_so_far.toList.take nsp'.num_bytes_read).drop ((s.last_byte_bit_offset + v - wo + 7) / 8)
        = (nsp.bytes_so_far.toList.take nsp.num_bytes_read).drop ((v + 7) / 8) :=
  splice_header_bits s nsp wo v out cap hoff ht hr h0 h1 h2 h3 h4 hwo hv hsrc hout

/-- the offsets `stream` passes to the realignment satisfy the hypotheses of `splice_header`:
an accepted first-meta-block offset lies ≥ 2 bits behind a window field of 1, 4, 7 or 14 bits -/
theorem splice_header_offsets (bs : List Nat) (h2 : 2 ≤ bs.length) (h8 : bs.length ≤ 8) (v : Nat)
    (hv : detectVarlenOffset bs = ok (some v)) :
    ∃ w wo, parseWindowSize bs = ok (some (w, wo)) ∧ wo ≤ 14 ∧ wo + 2 ≤ v := by
  have := detectVarlenOffset_sat bs h2 h8
  rw [hv] at this
  obtain ⟨w, o, hp, hok, hle⟩ := this v rfl
  refine ⟨w, o, hp, ?_, hle⟩
  rcases hok.2.2 with h | h | h | h <;> omega

/-- non-vacuity: 3 tail bits `101`, member `3b 00 00 00` (window 22 in 4 bits, then ISLAST,
ISLASTEMPTY: header ends at bit 6): the first realigned byte is `101` ++ `11` = 0x1d -/
example : ∃ r0 nsp', shiftRealign ⟨(5, 0), 1, false, false, 3, 22, none⟩ ⟨⟨0x3b, 0, 0, 0, 0⟩, 4, none⟩ 4 6 [] 10
    = ok (⟨(5, 0), 1, false, true, 3, 22, none⟩, nsp', [r0]) ∧ r0 = 0x1d :=
  ⟨_, _, rfl, by decide⟩

/-! ## re-appending the end marker -/

/-- `finish` after a strip (the stripped member was followed only by members too short to
carry a header).  In every sanitised state with a non-empty tail that satisfies the
invariant — `k = last_byte_bit_offset` data bits `d = last_bytes[0]`, second slot clean,
which `Inv` guarantees after every strip — `finish` with room reports success and emits the
little-endian bytes of `d + 3·2^k`: as an LSB-first bit string, the data bits, the marker
bits `1,1` right behind them, zero padding to the byte boundary; one byte, or two when the
marker reaches into the next byte (`k = 7`).  No restriction on `k`. -/
theorem append_inverts_strip (s : State) (cap : Nat) (hI : Inv s) (hs : s.last_byte_sanitized = true)
    (hl : s.last_bytes_len ≠ 0) (hcap : 2 ≤ cap) :
    ∃ st bytes, finish s cap = ok ⟨st, SUCCESS, 0, bytes⟩ ∧
      bytes.length = (s.last_byte_bit_offset + 2 + 7) / 8 ∧
      bytesToBits bytes = bitsOf s.last_byte_bit_offset s.last_bytes.1 ++ [true, true] ++
        List.replicate (8 * bytes.length - s.last_byte_bit_offset - 2) false := by
  obtain ⟨h2, hd⟩ := hI.tail hs hl
  have hl1 : s.last_bytes_len = 1 := by have := (hI.san hs).2; omega
  have hk := hI.off_lt
  have hlb : s.last_bytes = (s.last_bytes.1, 0) := by rw [← h2]
  obtain ⟨st, hst⟩ := finish_one_byte_tail s s.last_bytes.1 s.last_byte_bit_offset cap hs hl1 hlb rfl hd
    (by omega) hcap
  have hm : Marked (s.last_bytes.1 + 3 * 2 ^ s.last_byte_bit_offset) s.last_byte_bit_offset s.last_bytes.1 :=
    ⟨rfl, hd⟩
  by_cases h7 : s.last_byte_bit_offset = 7
  · rw [if_pos h7] at hst
    refine ⟨st, _, hst, by simp [h7], ?_⟩
    rw [bits_le2, hm.bits 16 (by omega)]
    simp
  · rw [if_neg h7] at hst
    refine ⟨st, _, hst, by simp; omega, ?_⟩
    rw [bits_le1, hm.bits 8 (by omega)]
    simp

/-- non-vacuity: the state after stripping `63 d5` (6 data bits `010101` left, one byte emitted) -/
example : ∃ st, finish (stripped State.new 14 0x1563) 2 = ok ⟨st, SUCCESS, 0, [0xd5]⟩ := ⟨_, rfl⟩

/-- `strip_then_finish`, ALL marker alignments (`n` = 0..14 data bits, marker inside the
first byte, straddling the boundary, inside the second byte): `flush_previous_stream` with
room followed by `finish` with room emit, together, exactly the original tail — the
little-endian bytes of `T = D + 3·2^n`, i.e. as an LSB-first bit string
`dataBits ++ [1,1] ++ zero padding to the byte boundary`; nothing is lost, nothing is added. -/
theorem strip_then_finish (s : State) (n D cap cap' : Nat) (out : List Nat)
    (hs : s.last_byte_sanitized = false) (hlen : s.last_bytes_len = 1 ∨ s.last_bytes_len = 2)
    (hn : n + 2 ≤ 8 * s.last_bytes_len)
    (hm : Marked (s.last_bytes.1 + (s.last_bytes.2 <<< 8)) n D) (hcap : out.length < cap) (hcap' : 2 ≤ cap') :
    ∃ s1 o1 st o2, flushPreviousStream s out cap = ok (s1, out ++ o1, SUCCESS) ∧
      finish s1 cap' = ok ⟨st, SUCCESS, 0, o2⟩ ∧
      (o1 ++ o2).length = (n + 2 + 7) / 8 ∧
      bytesToBits (o1 ++ o2) = bitsOf n D ++ [true, true] ++ List.replicate (8 * (o1 ++ o2).length - n - 2) false ∧
      bytesToBits (o1 ++ o2) = bitsOf (8 * (o1 ++ o2).length) (s.last_bytes.1 + (s.last_bytes.2 <<< 8)) := by
  have hflush := strip_end_marker_gen s n D cap out hs hlen hn hm hcap
  obtain ⟨⟨st, hst⟩, hlow⟩ := strip_then_finish_gen s n D cap' (by omega) hm.lt hcap'
  have hT := hm.eq
  have hm' : Marked (D + 3 * 2 ^ n) n D := ⟨rfl, hm.lt⟩
  by_cases h8 : n < 8
  · rw [if_pos h8] at hst hflush
    by_cases h7 : n = 7
    · rw [if_pos h7] at hst
      refine ⟨_, [], st, _, by simpa using hflush, hst, by simp [h7], ?_, ?_⟩
      · rw [List.nil_append, bits_le2, hm'.bits 16 (by omega)]; simp
      · rw [List.nil_append, bits_le2, hT]; simp
    · rw [if_neg h7] at hst
      refine ⟨_, [], st, _, by simpa using hflush, hst, by simp; omega, ?_, ?_⟩
      · rw [List.nil_append, bits_le1, hm'.bits 8 (by omega)]; simp
      · rw [List.nil_append, bits_le1, hT]; simp
  · rw [if_neg h8] at hst hflush
    refine ⟨_, [D % 256], st, _, hflush, hst, by simp; omega, ?_, ?_⟩
    · rw [hlow (by omega)]
      show bytesToBits [(D + 3 * 2 ^ n) % 256, (D + 3 * 2 ^ n) / 256] = _
      rw [bits_le2, hm'.bits 16 (by omega)]; simp
    · rw [hlow (by omega)]
      show bytesToBits [(D + 3 * 2 ^ n) % 256, (D + 3 * 2 ^ n) / 256] = _
      rw [bits_le2, hT]; simp

/-- regression for the defect found with this model (fixed in /repo since): a member whose
marker is the top two bits of its last byte (`… 63 d5`), followed by a member shorter than
the look-ahead (`3b`), then `finish`: the output ends `63 d5` — formerly `63 d5 15`.
Driver line `concat 0 N S:8b018003616263d5:100 N S:3b:100 F:10`. -/
theorem short_member_after_top_marker :
    ((stream (newBrotliFile State.new) [0x8b, 0x01, 0x80, 0x03, 0x61, 0x62, 0x63, 0xd5] 100).bind fun r1 =>
     (stream (newBrotliFile r1.st) [0x3b] 100).bind fun r2 =>
     (finish r2.st 10).bind fun r3 => ok (r1.produced ++ r2.produced ++ r3.produced, r3.code))
    = ok ([0x8b, 0x01, 0x80, 0x03, 0x61, 0x62, 0x63, 0xd5], SUCCESS) := by
  decide

/-! ## the whole output -/

/-- one later member, any slicing, any capacities: the previous end marker disappears, the
member's window field is dropped, its first meta-block header bits are glued behind the previous
data bits, zero padding up to the byte boundary, and the rest of the member follows unchanged;
the run ends in pass-through (`Boundary` = pass-through with a full 2-byte tail holding the
member's own end marker). -/
theorem member_step (fuel : Nat) (s : State) (acc : List Nat) (n D : Nat) (data : List Bool) (d : MemberData)
    (bufs : List (List Nat)) (caps : List Nat) (R : Run)
    (hB : Boundary s acc n D data) (hok : MemberOK s.window_size d) (hne : bufs ≠ []) (hfl : bufs.flatten = d.m)
    (h : runAll fuel (newBrotliFile s) bufs caps acc = some R) :
    R.code = NEEDS_MORE_INPUT ∧ R.st.window_size = s.window_size ∧
    Boundary R.st R.emitted d.n d.D (data ++ gapBits n d ++ restData d) :=
  boundary_step fuel s acc n D data d bufs caps R hB hok hne hfl h

/-- `concat_bits`.  Members `m₀, d₁.m, …, d_k.m`, each ending with its end marker in its last
two bytes (on `n₀`, `dᵢ.n` data bits); `m₀` has a parsable window field and is fed to an
instance that has emitted no header yet; every later member is acceptable behind `m₀`'s header
(`MemberOK`: window not larger, same header form, first meta-block is metadata / uncompressed /
empty-last with its header inside the look-ahead, at least one byte after the look-ahead).
For ANY slicing of every member into input buffers and ANY output capacity schedules (`Fed`):
all `stream` calls end with `NeedsMoreInput`, `finish` (room ≥ 2) reports `Success`, and the
complete output, as an LSB-first bit string, is

   bits(m₀ without its marker)                           -- = W₀ ++ body₀
   ++ Σᵢ ( hdrBitsᵢ[woᵢ ..< vᵢ] ++ 0-padding to the byte boundary ++ bits(dᵢ.m[⌈vᵢ/8⌉ ..] without its marker) )
   ++ [1,1] ++ 0-padding                                 -- the last member's own end marker

(`laterBits`; the padding inside member `i` is re-computed for its new bit position, which is
what a decoder skips at that place).  Only the last end marker survives. -/
theorem concat_bits (fuel : Nat) (s : State) (m0 pre0 : List Nat) (a0 b0 n0 D0 wsz0 wo0 : Nat)
    (bufs0 : List (List Nat)) (caps0 : List Nat) (ds : List MemberData)
    (rest : List (List (List Nat) × List Nat)) (R : Run) (cap : Nat)
    (hI : Inv s) (hws : s.window_size = 0)
    (hbytes : ∀ y, y ∈ m0 → y < 256) (hlong : need (m0.headD 0) + 1 ≤ m0.length)
    (hparse : parseWindowSize (m0.take (need (m0.headD 0))) = ok (some (wsz0, wo0)))
    (hm0 : m0 = pre0 ++ [a0, b0]) (hmark : Marked (a0 + (b0 <<< 8)) n0 D0)
    (hne0 : bufs0 ≠ []) (hfl0 : bufs0.flatten = m0)
    (hok : ∀ d, d ∈ ds → MemberOK (wsz0 ||| (if wo0 = 14 then LARGE_WINDOW_FLAG else 0)) d)
    (hfed : Fed ds rest) (hcap : 2 ≤ cap)
    (h : concatAll fuel s ((bufs0, caps0) :: rest) [] = some R) :
    R.code = NEEDS_MORE_INPUT ∧
    ∃ st p, finish R.st cap = ok ⟨st, SUCCESS, 0, p⟩ ∧
      bytesToBits (R.emitted ++ p) =
        bytesToBits pre0 ++ bitsOf n0 D0 ++ laterBits n0 ds ++ [true, true] ++
          List.replicate (14 - lastN n0 ds) false := by
  unfold concatAll at h
  cases hr : runAll fuel (newBrotliFile s) bufs0 caps0 [] with
  | none => rw [hr] at h; simp at h
  | some r =>
    rw [hr] at h
    dsimp only at h
    obtain ⟨hcode, hwsr, hB⟩ := first_boundary fuel s m0 pre0 a0 b0 n0 D0 wsz0 wo0 bufs0 caps0 r hI hws hbytes
      hlong hparse hm0 hmark hne0 hfl0 hr
    have hnt : isTerminal r.code = false := by rw [hcode]; rfl
    rw [hnt] at h
    simp only [Bool.false_eq_true, if_false] at h
    obtain ⟨hc, D', hfin⟩ := later_members fuel ds rest hfed r.st r.emitted n0 D0 _ R hB
      (fun d hd => by rw [hwsr]; exact hok d hd) h
    obtain ⟨st, p, hf, hbits⟩ := finish_boundary R.st R.emitted _ D' _ cap hfin hcap
    exact ⟨hc, st, p, hf, by rw [hbits]⟩

/-- non-vacuity: first member `8b 01 80 03 61 62 63 03` (parsable header; end marker on 8 data
bits in its last two bytes `63 03`), second member `3b 00 00 00 03` (4 window bits, ISLAST +
ISLASTEMPTY, then whole bytes), both in odd slices with small capacities: the marker `03` of the
first member is replaced by the second member's two header bits (again `03`), then `00 00 00 03` -/
example : ∃ R, concatAll 30 State.new [([[0x8b, 0x01], [0x80, 0x03, 0x61, 0x62, 0x63, 0x03]], [0, 3, 1]),
      ([[0x3b], [0x00, 0x00, 0x00, 0x03]], [1, 0, 2])] [] = some R ∧ R.code = NEEDS_MORE_INPUT ∧
    R.emitted ++ held R.st = [0x8b, 0x01, 0x80, 0x03, 0x61, 0x62, 0x63, 0x03, 0x00, 0x00, 0x00, 0x03] := by
  refine ⟨_, rfl, ?_, ?_⟩ <;> decide

/-! ## decode level: members made of stored / metadata meta-blocks

`BV.HeaderSpec.readWbits` / `readMetaBlock` / `decodeFraming` are the RFC 7932 framing reader
written independently of the Rust code.  `StoredBytes m w lg bl` (BV.Concat): the bits of `m`
are a window field (window `w`, large-window form iff `lg`), then the meta-blocks `bl` — each
read by `readMetaBlock` as metadata or uncompressed —, then the empty last meta-block, and
nothing after its padding.  `LaterInput w₀ lg₀ m bl`: such a member with at least one block,
window ≤ `w₀`, same header form, at least two bytes behind the look-ahead, and the
concatenator's own header check (`detect_varlen_offset` on the look-ahead, end of the first
meta-block header inside the look-ahead) passes. -/

open BV.HeaderSpec in
/-- the concatenator's header parsers agree with the RFC reader (no assumption about any
encoder): `parse_window_size` returns the window and the number of bits `readWbits` consumes;
`detect_varlen_offset`, whenever it accepts, returns the end of the first meta-block header
that `readMetaBlock` reads (metadata or uncompressed) -/
theorem parsers_agree_with_rfc (m : List Nat) (w : Nat) (lg : Bool) (r : List Bool)
    (hb : ∀ y, y ∈ m → y < 256) (hlen : need (m.headD 0) ≤ m.length)
    (h : readWbits (bytesToBits m) = some (w, lg, r)) :
    parseWindowSize (m.take (need (m.headD 0))) = ok (some (w, (bytesToBits m).length - r.length)) :=
  parse_agrees m w lg r hb hlen h

/-- payload bytes of the uncompressed meta-blocks: the decoded content as far as framing goes -/
def contentOf : List BV.HeaderSpec.MetaBlock → List Nat
  | [] => []
  | .raw p :: rest => p ++ contentOf rest
  | _ :: rest => contentOf rest

theorem contentOf_append (a b : List BV.HeaderSpec.MetaBlock) : contentOf (a ++ b) = contentOf a ++ contentOf b := by
  induction a with
  | nil => rfl
  | cons x t ih => cases x <;> simp [contentOf, ih]

theorem contentOf_flatten (bls : List (List BV.HeaderSpec.MetaBlock)) :
    contentOf bls.flatten = (bls.map contentOf).flatten := by
  induction bls with
  | nil => rfl
  | cons b t ih => simp [contentOf_append, ih]

open BV.HeaderSpec in
/-- `concat_stored_decodes`.  First member `m₀` and later members `ms`, all made of a window
header, metadata / uncompressed meta-blocks and the empty last meta-block (as read by the RFC
framing reader), windows non-increasing, same header form, the first block's header of every
later member inside the look-ahead.  For ANY slicing of the members into input buffers and
ANY output capacities: every `stream` call ends with `NeedsMoreInput`, `finish` reports
`Success`, and the RFC reader decodes the complete output `out` as ONE stream with the first
member's window and the meta-blocks of all members in order, terminated by a single empty
last meta-block:  `decodeFraming out = blocks₀ ++ blocks₁ ++ … ++ blocks_k ++ [lastEmpty]`.
Hence the content (uncompressed payloads) of the output is the concatenation of the members'
contents.  No assumption about the encoder that produced the members is used. -/
theorem concat_stored_decodes (fuel : Nat) (s : State) (m0 : List Nat) (w0 : Nat) (lg0 : Bool)
    (bl0 : List MetaBlock) (bufs0 : List (List Nat)) (caps0 : List Nat) (ms : List (List Nat))
    (bls : List (List MetaBlock)) (rest : List (List (List Nat) × List Nat)) (R : Run) (cap : Nat)
    (hI : Inv s) (hws : s.window_size = 0)
    (h0 : StoredBytes m0 w0 lg0 bl0) (hlong0 : need (m0.headD 0) + 1 ≤ m0.length)
    (hne0 : bufs0 ≠ []) (hfl0 : bufs0.flatten = m0)
    (hlater : LaterInputs w0 lg0 ms bls) (hfed : FedBytes ms rest) (hcap : 2 ≤ cap)
    (hrun : concatAll fuel s ((bufs0, caps0) :: rest) [] = some R) :
    R.code = NEEDS_MORE_INPUT ∧
    ∃ st out r wbits, finish R.st cap = ok ⟨st, SUCCESS, 0, out⟩ ∧
      readWbits ((R.emitted ++ out).flatMap (BV.Bits.bitsOf 8)) = some (w0, lg0, r) ∧
      decodeFraming (bl0.length + bls.flatten.length + 1) wbits r
        = some (bl0 ++ bls.flatten ++ [MetaBlock.lastEmpty]) ∧
      wbits + r.length = ((R.emitted ++ out).flatMap (BV.Bits.bitsOf 8)).length ∧
      contentOf (bl0 ++ bls.flatten ++ [MetaBlock.lastEmpty]) = contentOf bl0 ++ (bls.map contentOf).flatten := by
  obtain ⟨wb0, F0, k0, hsm⟩ := storedMember_of_bytes m0 w0 lg0 bl0 h0
  have hla : need (m0.headD 0) ≤ m0.length := by omega
  have hrw := (storedMember_decodes _ _ _ _ _ _ _ hsm).1
  have hparse := parse_agrees m0 w0 lg0 _ hsm.bytes hla hrw
  have hwbl : (bytesToBits m0).length - (F0 ++ [true, true] ++ BV.Framing.zeros k0).length = wb0.length := by
    rw [hsm.bits]; simp [List.append_assoc]
  rw [hwbl] at hparse
  have hw30 : w0 ≤ 30 := by
    have hl : 2 ≤ (m0.take (need (m0.headD 0))).length := by
      rw [List.length_take]; unfold need at hlong0 ⊢; split at hlong0 <;> split <;> omega
    have := parseWindowSize_sat _ hl
    rw [hparse, sat_ok] at this
    exact (this w0 wb0.length rfl).2.1
  obtain ⟨ds, eds, hall⟩ := laterAll_of_inputs w0 lg0 hw30 ms bls hlater
  have hflag : (if lg0 then LARGE_WINDOW_FLAG else 0) = (if wb0.length = 14 then LARGE_WINDOW_FLAG else 0) := by
    cases hl : lg0 with
    | true => have := hsm.lgiff.mp hl; simp [this]
    | false =>
      have : ¬ wb0.length = 14 := fun e => by have := hsm.lgiff.mpr e; rw [hl] at this; simp at this
      simp [this]
  simp only [hflag] at hall
  have hfed' : Fed ds rest := fed_of_bytes ds rest (by rw [eds]; exact hfed)
  obtain ⟨hc, st, p, r, hf, hr1, hO, hr2⟩ := stored_output_decodes fuel s m0 w0 lg0 bl0 wb0 F0 k0 bufs0 caps0 ds bls rest R
    cap hI hws hsm hlong0 hparse hne0 hfl0 hall hfed' hcap hrun
  refine ⟨hc, st, p, r, wb0.length, hf, by rw [flatMap_bits_eq]; exact hr1, hr2, ?_, ?_⟩
  · rw [flatMap_bits_eq, hO, List.length_append]
  · rw [contentOf_append, contentOf_append, contentOf_flatten]
    simp [contentOf]

open BV.HeaderSpec BV.Framing in
/-- non-vacuity: the stored stream `21 03 10 00 08 01 02 03 03` (what `MakeUncompressedStream`
produces for the input `01 02 03`: window 10, an empty metadata block, one uncompressed block,
the empty last block) meets both member predicates -/
example : StoredBytes [0x21, 0x03, 0x10, 0x00, 0x08, 1, 2, 3, 0x03] 10 false [.metadata [], .raw [1, 2, 3]] ∧
    LaterInput 10 false [0x21, 0x03, 0x10, 0x00, 0x08, 1, 2, 3, 0x03] [.metadata [], .raw [1, 2, 3]] := by
  have hb : ∀ y, y ∈ [0x21, 0x03, 0x10, 0x00, 0x08, 1, 2, 3, 0x03] → y < 256 := by decide
  have hst : StoredBytes [0x21, 0x03, 0x10, 0x00, 0x08, 1, 2, 3, 0x03] 10 false [.metadata [], .raw [1, 2, 3]] := by
    refine ⟨hb, ([0x21, 0x03, 0x10, 0x00, 0x08, 1, 2, 3, 0x03].flatMap (BV.Bits.bitsOf 8)).drop 7, 64,
      ([0x21, 0x03, 0x10, 0x00, 0x08, 1, 2, 3, 0x03].flatMap (BV.Bits.bitsOf 8)).drop 64, 72, by decide, ?_, by decide⟩
    refine FramesTo.cons _ _ _ 16 (([0x21, 0x03, 0x10, 0x00, 0x08, 1, 2, 3, 0x03].flatMap (BV.Bits.bitsOf 8)).drop 16)
      _ _ _ (by decide) ⟨fun m l => by simp, by simp⟩ ?_
    refine FramesTo.cons _ _ _ 64 (([0x21, 0x03, 0x10, 0x00, 0x08, 1, 2, 3, 0x03].flatMap (BV.Bits.bitsOf 8)).drop 64)
      _ _ _ (by decide) ⟨fun m l => by simp, by simp⟩ ?_
    exact FramesTo.nil _ _
  exact ⟨hst, ⟨10, hst, by decide⟩, by decide, by decide, ⟨13, by decide, by decide⟩⟩

/-! ## does `Success` imply a terminated stream? -/

/-- `success_implies_marked` in the form that holds: when `finish` runs on a stripped tail (the
last announced members were too short to carry a header) it re-creates the end marker — the
output ends with `[1,1]` and zero padding (`append_inverts_strip`); and when the last accepted
member is a well-formed stream its own marker ends the output (`concat_bits`,
`concat_stored_decodes`).  The unconditional claim is FALSE: `finish` reports `Success` for
any accepted bytes, e.g. the single member `8b 01 80 03 61 62 63 54` (parsable header, no end
marker) is passed through verbatim and the output ends `… 63 54`. -/
theorem success_implies_marked_counterexample :
    ((stream (newBrotliFile State.new) [0x8b, 0x01, 0x80, 0x03, 0x61, 0x62, 0x63, 0x54] 100).bind fun r1 =>
     (finish r1.st 8).bind fun r2 => ok (r1.code, r1.produced ++ r2.produced, r2.code))
      = ok (NEEDS_MORE_INPUT, [0x8b, 0x01, 0x80, 0x03, 0x61, 0x62, 0x63, 0x54], SUCCESS) ∧
    ¬ ∃ (X : List Bool) (k : Nat), k < 8 ∧
      bytesToBits [0x8b, 0x01, 0x80, 0x03, 0x61, 0x62, 0x63, 0x54] = X ++ [true, true] ++ List.replicate k false := by
  refine ⟨by decide, ?_⟩
  rintro ⟨X, k, hk, h⟩
  have hl := congrArg List.length h
  simp only [List.length_append, List.length_cons, List.length_nil, List.length_replicate] at hl
  have hlen : (bytesToBits [0x8b, 0x01, 0x80, 0x03, 0x61, 0x62, 0x63, 0x54]).length = 64 := by decide
  rw [hlen] at hl
  have hd := congrArg (List.drop (62 - k)) h
  rw [List.append_assoc, List.drop_left' (by omega)] at hd
  have hk' : k = 0 ∨ k = 1 ∨ k = 2 ∨ k = 3 ∨ k = 4 ∨ k = 5 ∨ k = 6 ∨ k = 7 := by omega
  rcases hk' with rfl | rfl | rfl | rfl | rfl | rfl | rfl | rfl <;> revert hd <;> decide

end BV.Props.C03
