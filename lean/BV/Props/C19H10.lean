/-
C19H10 — H10 (`hash_to_binary_tree.rs`) with a MODELLED `Store`.

BV/Props/C19.lean states the H10 entry points over an opaque `store : Nat → σ → Option σ`
(`bulk_eq_fold_store_h10`, `store_range_eq_fold_store_h10_short`, `h10_store_range_thins`, `partition_irrelevant_h10`).
BV/Model/Zopfli.lean models the real thing: `H10.store` = `StoreAndFindMatchesH10` with `max_length = 128`,
`max_backward = window_mask - 15`, no match output (re-rooting the binary tree at the position), and `H10.storeRange`
(the stride-8 loop for long ranges followed by the dense loop over the last 63 positions), tied to the code through the
`sp` lines of stage `zopfli` (BrotliZopfliComputeShortestPath on a real H10 instance).

Property theorems ONLY: the modelled `StoreRange` IS the generic one instantiated with the modelled `Store`, so every
C19 theorem about H10 holds for the real `Store` model; in particular short ranges are the per-position loop, and —
by design, as the property text says — long ranges are thinned.
-/
import BV.Model.Zopfli
import BV.Props.C19

namespace BV.Props.C19H10
open BV.Hasher BV.Zopfli

/-- the stride-1 loop of the modelled `StoreRange` is the per-position loop `for j in lo..hi { Store(j) }` -/
theorem dense_eq_forRange (windowMask invalid : Nat) (data : ByteArray) (mask hi : Nat) :
    ∀ (fuel j : Nat) (st : H10St), hi - j ≤ fuel →
      Zopfli.H10.storeStride windowMask invalid data mask 1 hi fuel j st
        = forRange (fun i s => Zopfli.H10.store windowMask invalid data mask i s) j (hi - j) st := by
  intro fuel
  induction fuel with
  | zero =>
    intro j st h
    rw [Zopfli.H10.storeStride, show hi - j = 0 by omega, forRange]
  | succ fuel ih =>
    intro j st h
    rw [Zopfli.H10.storeStride]
    by_cases hj : j < hi
    · rw [if_pos hj, show hi - j = (hi - (j + 1)) + 1 by omega, forRange]
      cases hs : Zopfli.H10.store windowMask invalid data mask j st with
      | none => rfl
      | some st1 => exact ih (j + 1) st1 (by omega)
    · rw [if_neg hj, show hi - j = 0 by omega, forRange]

/-- the stride-8 loop of the modelled `StoreRange` is the generic thinning loop (any sufficient fuel) -/
theorem thin_eq_thinLoop (windowMask invalid : Nat) (data : ByteArray) (mask hi : Nat) :
    ∀ (f1 f2 j : Nat) (st : H10St), hi - j ≤ f1 → hi - j ≤ f2 →
      Zopfli.H10.storeStride windowMask invalid data mask 8 hi f1 j st
        = Hasher.H10.thinLoop (fun i s => Zopfli.H10.store windowMask invalid data mask i s) hi f2 j st := by
  intro f1
  induction f1 with
  | zero =>
    intro f2 j st h1 _
    rw [Zopfli.H10.storeStride]
    cases f2 with
    | zero => rw [Hasher.H10.thinLoop]
    | succ f2 => rw [Hasher.H10.thinLoop, if_neg (by omega)]
  | succ f1 ih =>
    intro f2 j st h1 h2
    rw [Zopfli.H10.storeStride]
    by_cases hj : j < hi
    · rw [if_pos hj]
      cases f2 with
      | zero => omega
      | succ f2 =>
        rw [Hasher.H10.thinLoop, if_pos hj]
        cases hs : Zopfli.H10.store windowMask invalid data mask j st with
        | none => rfl
        | some st1 => exact ih f2 (j + 8) st1 (by omega) (by omega)
    · rw [if_neg hj]
      cases f2 with
      | zero => rw [Hasher.H10.thinLoop]
      | succ f2 => rw [Hasher.H10.thinLoop, if_neg hj]

/-- **h10_store_range_is_generic**: the modelled `StoreRange` of H10 (real `Store` = re-rooting tree insertion)
is C19's generic `H10.storeRange` instantiated with the modelled `Store` -/
theorem h10_store_range_is_generic (windowMask invalid : Nat) (data : ByteArray) (mask ixStart ixEnd : Nat) (st : H10St) :
    Zopfli.H10.storeRange windowMask invalid data mask ixStart ixEnd st
      = Hasher.H10.storeRange (fun i s => Zopfli.H10.store windowMask invalid data mask i s) ixStart ixEnd st := by
  unfold Zopfli.H10.storeRange Hasher.H10.storeRange
  simp only []
  by_cases h512 : ixStart + 512 ≤ (if ixStart + 63 ≤ ixEnd then ixEnd - 63 else ixStart)
  · rw [if_pos h512, if_pos h512,
      thin_eq_thinLoop windowMask invalid data mask _ _ ((if ixStart + 63 ≤ ixEnd then ixEnd - 63 else ixStart) - ixStart)
        ixStart st (by omega) (by omega)]
    cases Hasher.H10.thinLoop (fun i s => Zopfli.H10.store windowMask invalid data mask i s)
        (if ixStart + 63 ≤ ixEnd then ixEnd - 63 else ixStart)
        ((if ixStart + 63 ≤ ixEnd then ixEnd - 63 else ixStart) - ixStart) ixStart st with
    | none => rfl
    | some st1 => exact dense_eq_forRange windowMask invalid data mask ixEnd _ _ st1 (by omega)
  · rw [if_neg h512, if_neg h512]
    exact dense_eq_forRange windowMask invalid data mask ixEnd _ _ st (by omega)

/-- **store_range_eq_fold_store_h10_model**: for ranges below 63 positions the modelled `StoreRange` is
the per-position loop over the modelled `Store` (C19's `store_range_eq_fold_store_h10_short` with `Store` no
longer opaque); longer ranges are thinned by design (`h10_store_range_thins`) -/
theorem store_range_eq_fold_store_h10_model (windowMask invalid : Nat) (data : ByteArray) (mask s e : Nat) (st : H10St)
    (h : e < s + 63) :
    Zopfli.H10.storeRange windowMask invalid data mask s e st
      = forRange (fun i x => Zopfli.H10.store windowMask invalid data mask i x) s (e - s) st := by
  rw [h10_store_range_is_generic]
  exact BV.Props.C19.store_range_eq_fold_store_h10_short _ s e st h

/-- non-vacuity: on a concrete ring (64 bytes, window mask 63, empty tree) the modelled `StoreRange` over three
positions runs, equals the fold, and changes the bucket table -/
example : ∃ st, Zopfli.H10.storeRange 63 0xffffffff ⟨(List.replicate 200 (7 : UInt8)).toArray⟩ 63 0 3
      ⟨Array.replicate 131072 0, Array.replicate 128 0⟩ = some st ∧
    forRange (fun i x => Zopfli.H10.store 63 0xffffffff ⟨(List.replicate 200 (7 : UInt8)).toArray⟩ 63 i x) 0 3
      ⟨Array.replicate 131072 0, Array.replicate 128 0⟩ = some st := by
  rw [← store_range_eq_fold_store_h10_model 63 0xffffffff _ 63 0 3 _ (by decide)]
  cases h : Zopfli.H10.storeRange 63 0xffffffff ⟨(List.replicate 200 (7 : UInt8)).toArray⟩ 63 0 3
      ⟨Array.replicate 131072 0, Array.replicate 128 0⟩ with
  | some st => exact ⟨st, rfl, rfl⟩
  | none =>
    have : (Zopfli.H10.storeRange 63 0xffffffff ⟨(List.replicate 200 (7 : UInt8)).toArray⟩ 63 0 3
      ⟨Array.replicate 131072 0, Array.replicate 128 0⟩).isSome = true := by decide +kernel
    rw [h] at this
    cases this

end BV.Props.C19H10
