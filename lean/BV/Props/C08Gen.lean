/-
C08, translator tie: the Lean definitions GENERATED from the current Rust text of
`BrotliEncoderMaxCompressedSize(+Multi)` (tools/rs2lean.py -> BV/Gen/FnC08.lean) compute, for
every `usize` argument, what the hand-written model `BV.Stored` (over which C08's theorems are
stated) computes.  A change of the Rust body changes the generated definition; these equations
are then re-checked by the kernel against the new text.
-/
import BV.Gen.FnC08
import BV.Model.Stored
import BV.Lemmas.RsWriter

namespace BV.Props.C08Gen
open BV.Gen.FnC08

theorem toU_if (c : Prop) [Decidable c] :
    BV.Rs.toU 64 (if c then (4 : Int) else (3 : Int)) = if c then 4 else 3 := by
  split <;> decide

theorem tw : BV.Rs.toU 64 (BV.Rs.wrapS 32 ((1 : Int) * (2 : Int) ^ (20 % 32))) = 1 <<< 20 := by
  decide

/-- the generated `BrotliEncoderMaxCompressedSize` is the model's `maxCompressedSize` on every `usize` -/
theorem max_compressed_size_generated (n : Nat) (hn : n < 2 ^ 64) :
    BrotliEncoderMaxCompressedSize n = BV.Stored.maxCompressedSize n := by
  unfold BrotliEncoderMaxCompressedSize BV.Stored.maxCompressedSize BV.Stored.maxResult
  simp only [toU_if, tw, BV.Stored.litsMax, BV.Gen.lits_MaxCompressedSize, BV.Header.lit, BV.Stored.W64,
    List.getD_cons_zero, List.getD_cons_succ]
  simp only [Nat.shiftRight_eq_div_pow, Nat.shiftLeft_eq, beq_iff_eq, decide_eq_true_eq,
    Nat.reducePow, Nat.reduceMod, Nat.reduceMul, Nat.reduceAdd]
  have h64 : (2 : Nat) ^ 64 = 18446744073709551616 := by decide
  rw [h64] at hn
  repeat' split
  all_goals omega

/-- the generated `BrotliEncoderMaxCompressedSizeMulti` is the model's `maxCompressedSizeMulti` -/
theorem max_compressed_size_multi_generated (n t : Nat) (hn : n < 2 ^ 64) :
    BrotliEncoderMaxCompressedSizeMulti n t = BV.Stored.maxCompressedSizeMulti n t := by
  unfold BrotliEncoderMaxCompressedSizeMulti BV.Stored.maxCompressedSizeMulti
  rw [max_compressed_size_generated n hn]
  simp [BV.Gen.lits_MaxCompressedSizeMulti, BV.Header.lit, BV.Stored.W64]

example : BrotliEncoderMaxCompressedSize 100000 = 100000 + 2 + 4 * 6 + 4 + 1 + 16 := by decide

end BV.Props.C08Gen

/-! ## the stored meta-block header (`BrotliStoreUncompressedMetaBlockHeader`) -/

namespace BV.Props.C08Gen
open BV.Gen.FnC08 BV.Rs BV.Header BV.Bits BV.Bits.Out

theorem xor63 : ∀ k : Fin 64, 63 ^^^ (64 - 1 - k.val) = k.val := by decide

theorem log2_floor_non_zero_generated (v : Nat) (h0 : v ≠ 0) (h : v < 2 ^ 64) :
    Log2FloorNonZero v = Nat.log2 v := by
  unfold Log2FloorNonZero BV.Rs.clz
  have hl : Nat.log2 v < 64 := (Nat.log2_lt h0).2 h
  simp only [h0, if_false]
  exact xor63 ⟨Nat.log2 v, hl⟩

/-- the generated `BrotliEncodeMlen` is the header model's `encodeMlen` wherever that passes its assertions -/
theorem encode_mlen_generated (len a b c : Nat) (h1 : 1 ≤ len) (h : len ≤ 2 ^ 24) :
    BV.Header.encodeMlen len = ok (BrotliEncodeMlen len a b c) := by
  have h24 : (2:Nat) ^ 24 = 16777216 := by decide
  have h32 : (2:Nat) ^ 32 = 4294967296 := by decide
  rw [h24] at h
  unfold BrotliEncodeMlen BV.Header.encodeMlen BV.Header.log2Floor
  by_cases h1' : len = 1
  · subst h1'; decide
  · have e : (len + 4294967296 - 1) % 4294967296 = len - 1 := by omega
    have hz : len - 1 ≠ 0 := by omega
    have hlt : len - 1 < 2 ^ 64 := by
      have : (2:Nat) ^ 64 = 18446744073709551616 := by decide
      omega
    have hl : Nat.log2 (len - 1) < 24 := (Nat.log2_lt hz).2 (by omega)
    simp only [h24, h32, e, log2_floor_non_zero_generated (len - 1) hz hlt, h1', beq_iff_eq, if_false, decide_eq_true_eq]
    have g1 : ¬ ¬ len > 0 := by omega
    have g2 : ¬ ¬ len ≤ 16777216 := by omega
    have g3 : ¬ ¬ Nat.log2 (len - 1) + 1 ≤ 24 := by omega
    rw [if_neg g1, if_neg g2, if_neg g3]
    refine congrArg Out.ok ?_
    repeat' split
    all_goals (try simp only [Prod.mk.injEq, true_and])
    all_goals (try omega)
    all_goals (constructor <;> omega)


theorem runOps_bind_nil : ∀ (x : Out Writer), (x >>= runOps []) = x := by
  intro x; cases x <;> rfl

theorem run_four_writes (m : Nat × Nat × Nat) (w : Writer) :
    runOps [WOp.bits 1 0, WOp.bits 2 m.2.2, WOp.bits (m.2.1 % 256) m.1, WOp.bits 1 1] w =
      (writeBits 1 0 w >>= fun w => writeBits 2 m.2.2 w >>= fun w => writeBits (m.2.1 % 256) m.1 w >>= fun w => writeBits 1 1 w) := by
  simp only [runOps_bits]
  refine congrArg (fun f => writeBits 1 0 w >>= f) (funext fun w1 => ?_)
  simp only [runOps_bits]
  refine congrArg (fun f => writeBits 2 m.2.2 w1 >>= f) (funext fun w2 => ?_)
  simp only [runOps_bits]
  refine congrArg (fun f => writeBits (m.2.1 % 256) m.1 w2 >>= f) (funext fun w3 => ?_)
  simp only [runOps_bits]
  exact runOps_bind_nil _

theorem store_uncompressed_header_ops (length : Nat) : BrotliStoreUncompressedMetaBlockHeader length =
    [WOp.bits 1 0, WOp.bits 2 (BrotliEncodeMlen (length % 4294967296) 0 0 0).2.2,
      WOp.bits ((BrotliEncodeMlen (length % 4294967296) 0 0 0).2.1 % 256) (BrotliEncodeMlen (length % 4294967296) 0 0 0).1, WOp.bits 1 1] := by
  unfold BrotliStoreUncompressedMetaBlockHeader
  rfl

theorem store_uncompressed_header_model (length : Nat) (w : Writer) (m : Nat × Nat × Nat) (hm : encodeMlen (length % 2 ^ 32) = ok m) :
    storeUncompressedMetaBlockHeader length w =
      (writeBits 1 0 w >>= fun w => writeBits 2 m.2.2 w >>= fun w => writeBits (m.2.1 % 256) m.1 w >>= fun w => writeBits 1 1 w) := by
  unfold storeUncompressedMetaBlockHeader
  have l3 : lit litsUnc 3 = 1 := rfl
  have l4 : lit litsUnc 4 = 0 := rfl
  have l5 : lit litsUnc 5 = 2 := rfl
  have l6 : lit litsUnc 6 = 1 := rfl
  have l7 : lit litsUnc 7 = 1 := rfl
  rw [l3, l4, l5, l6, l7, hm]
  rfl

/-- the generated operation list of `BrotliStoreUncompressedMetaBlockHeader`, run on any writer, is the
header model's `storeUncompressedMetaBlockHeader`, for every length whose low 32 bits are a legal MLEN -/
theorem store_uncompressed_header_generated (length : Nat) (w : Writer)
    (h1 : 1 ≤ length % 2 ^ 32) (h : length % 2 ^ 32 ≤ 2 ^ 24) :
    runOps (BrotliStoreUncompressedMetaBlockHeader length) w = storeUncompressedMetaBlockHeader length w := by
  have hm := encode_mlen_generated (length % 2 ^ 32) 0 0 0 h1 h
  rw [store_uncompressed_header_model length w _ hm, store_uncompressed_header_ops length, run_four_writes]

example : BrotliStoreUncompressedMetaBlockHeader 65536 =
    [WOp.bits 1 0, WOp.bits 2 0, WOp.bits 16 65535, WOp.bits 1 1] := by decide

end BV.Props.C08Gen
