/-
C08, translator tie: the Lean definitions GENERATED from the current Rust text of
`BrotliEncoderMaxCompressedSize(+Multi)` (tools/rs2lean.py -> BV/Gen/FnC08.lean) compute, for
every `usize` argument, what the hand-written model `BV.Stored` (over which C08's theorems are
stated) computes.  A change of the Rust body changes the generated definition; these equations
are then re-checked by the kernel against the new text.
-/
import BV.Gen.FnC08
import BV.Model.Stored

namespace BV.Props.C08Gen
open BV.Gen.FnC08

theorem toU_if (c : Prop) [Decidable c] :
    BV.Rs.toU 64 (if c then (4 : Int) else (3 : Int)) = if c then 4 else 3 := by
  split <;> decide

theorem tw : BV.Rs.toU 64 (BV.Rs.wrapS 32 ((1 : Int) * (2 : Int) ^ (20 % 32))) = 1 <<< 20 := by
  decide

/-- the generated `BrotliEncoderMaxCompressedSize` is the model's `maxCompressedSize` on every `usize` -/
theorem max_compressed_size_generated (n : Nat) (hn : n < 2 ^ 64) :
    BrotliEncoderMaxCompressedSize n = BV.Stored.maxCompressedSize n := by
  unfold BrotliEncoderMaxCompressedSize BV.Stored.maxCompressedSize BV.Stored.maxResult
  simp only [toU_if, tw, BV.Stored.litsMax, BV.Gen.lits_MaxCompressedSize, BV.Header.lit, BV.Stored.W64,
    List.getD_cons_zero, List.getD_cons_succ]
  simp only [Nat.shiftRight_eq_div_pow, Nat.shiftLeft_eq, beq_iff_eq, decide_eq_true_eq,
    Nat.reducePow, Nat.reduceMod, Nat.reduceMul, Nat.reduceAdd]
  have h64 : (2 : Nat) ^ 64 = 18446744073709551616 := by decide
  rw [h64] at hn
  repeat' split
  all_goals omega

/-- the generated `BrotliEncoderMaxCompressedSizeMulti` is the model's `maxCompressedSizeMulti` -/
theorem max_compressed_size_multi_generated (n t : Nat) (hn : n < 2 ^ 64) :
    BrotliEncoderMaxCompressedSizeMulti n t = BV.Stored.maxCompressedSizeMulti n t := by
  unfold BrotliEncoderMaxCompressedSizeMulti BV.Stored.maxCompressedSizeMulti
  rw [max_compressed_size_generated n hn]
  simp [BV.Gen.lits_MaxCompressedSizeMulti, BV.Header.lit, BV.Stored.W64]

example : BrotliEncoderMaxCompressedSize 100000 = 100000 + 2 + 4 * 6 + 4 + 1 + 16 := by decide

end BV.Props.C08Gen
