/-
C06 (part 3, concrete) — the shared pre-built match index of `CompressMulti`'s
`favor_cpu_efficiency` branch, over the CONCRETE hasher models of C19.

`BV.Props.C06.favor_cpu_equiv` is stated over an abstract hasher with two hypotheses about
`BulkStoreRange` (`Additive`, `Local`).  Here both are PROVED for the executable models of
`BasicHasher` (H2, H3, H4, H54), `AdvHasher` (H5, H5q5, H5q7, H6) and `H9`
(BV/Model/Hasher.lean, tied to `src/enc/backward_references/mod.rs` by C19's correspondence run and
again, through the favor loop itself, by the `favor` stage of this property), so that

  shared index handed to job j  =  index job j builds itself        (untruncated prefix)
  index job j compresses with, favor on  =  the same, favor off      (EVERY prefix, quality ≥ 2)

hold with no hypothesis about the hasher left.  Helper lemmas: BV/Lemmas/MultiFavorKinds.lean.

What is modelled of the real code (threading.rs, after efb0804 / 6f21d9b):
* the favor loop `for thread_index in 1..num_threads`: `range = get_range(thread_index − 1, ..)`,
  `overlap = StoreLookahead() − 1`, guard `range.end > overlap && range.end − overlap > stored_end`,
  `BulkStoreRange(input, usize::MAX, stored_end, range.end − overlap)`, `stored_end = range.end − overlap`
  — `prebuilt` (BV/Lemmas/MultiFavor.lean); job `thread_index` receives a clone (C19 `clone_eq_*`);
* the job side `set_custom_dictionary_with_optional_precomputed_hasher` — `jobIndex`: early return
  at quality < 2 / empty prefix, truncation to the last `2^lgwin − 16` bytes with the handed index
  DISCARDED, `StoreLookaheadThenStore(dict)` = `BulkStoreRange(dict, usize::MAX, 0, size − overlap)`
  otherwise (`selfbuilt`).
An index is an `Option`: `none` = a Rust panic (slice index / `split_at`); the equations therefore
also say that the shared build panics exactly when the job's own build would.

Where shared and own index DIFFER, and why it does not matter:
* truncated prefix (`bnd > 2^lgwin − 16`): the shared index holds absolute positions of the whole
  prefix, the job's positions restart at the kept tail (`favor_truncated_differs`) — the job throws
  the shared index away (6f21d9b), so it compresses with its own (`job_index_*`);
* quality 0/1: `jobIndex` keeps whatever was handed in, but the fragment compressors of these
  qualities never read `hasher_` (not modelled; exercised by the favor on/off byte comparison);
* NOT modelled: that `hasher_setup` chooses the same KIND for the shared index (from
  `SanitizeParams(params.clone())`) and inside the job (from the job's own sanitised params with
  `catable`/`appendable`/`magic_number` changed) — `ChooseHasher` reads quality, lgwin, size_hint
  and q9_5 only; the `favor` stage records the kind of both real indexes on every case and compares
  their tables cell by cell with the model's.  H10 (quality 10/11) has no concrete model: its
  `BulkStoreRange` is the fold of an opaque `Store` (C19 `bulk_eq_fold_store_h10`), so additivity
  holds and locality reduces to one statement about `Store` (`favor_cpu_equiv_h10`).
-/
import BV.Props.C06
import BV.Props.C19
import BV.Lemmas.MultiFavorKinds
import BV.Lemmas.MultiFavorNoPanic

namespace BV.Props.C06Hasher
open BV.Multi BV.Hasher BV.Lemmas.Multi

/-! ## 1. `BulkStoreRange` of the concrete kinds is additive and local -/

/-- `BasicHasher::BulkStoreRange(data, usize::MAX, ·, ·)`: consecutive calls equal one call — every
index state (panicked ones included), every buffer, all `a ≤ b ≤ c`; and storing `[a, b)` reads
`data[.. b + 7)` only (`StoreLookahead() = 8`): two buffers that agree there give the same index
and panic together.  `P.Ok` (the hash fits `u32`) holds for the four real kinds. -/
theorem bulk_additive_local_basic (P : BasicP) (hP : P.Ok) (len : Nat) :
    Additive (basicModel P len) ∧ Local (basicModel P len) 7 :=
  ⟨basicModel_additive hP len, basicModel_local hP len⟩

/-- `H9::BulkStoreRange`: additive, and local with look-ahead 4 -/
theorem bulk_additive_local_h9 (P : H9P) : Additive (h9Model P) ∧ Local (h9Model P) 3 :=
  ⟨h9Model_additive P, h9Model_local P⟩

/-- `AdvHasher::BulkStoreRange` (32 positions at a time from 35-byte copies, then the tail loop):
additive and local for the stores that start from the constructor's zeroed tables at position 0 and
end at a `usize` position — what the favor loop and `StoreLookaheadThenStore` do.  (From other
starting states the batched path additionally needs the exact-table-size invariant, C19.) -/
theorem bulk_additive_local_adv (P : AdvP) (hP : P.Ok) (hl : 1 ≤ P.lookahead) :
    AdditiveFrom (advModel P) (2 ^ 64) ∧ LocalFrom (advModel P) (P.lookahead - 1) (2 ^ 64) :=
  ⟨advModel_additive hP, advModel_local hP hl⟩

/-! ## 2. `favor_cpu_equiv` with no hypothesis about the hasher -/

/-- `favor_cpu_equiv_basic`: H2/H3/H4/H54 (any table length `len`, any hash that fits `u32`).
For job `j+1`, quality ≥ 2, `lgwin ≥ 10`, prefix not truncated: the index the favor branch hands
to the job IS the index the job would build from its prefix — as tables, cell by cell, or both
builds panic. -/
theorem favor_cpu_equiv_basic (P : BasicP) (hP : P.Ok) (len : Nat)
    (input : List Nat) (t n lgwin quality j : Nat) (hq : 2 ≤ quality) (hl : 10 ≤ lgwin)
    (hnt : bnd t n (j + 1) ≤ 2 ^ lgwin - 16) :
    (prebuilt (basicModel P len) input t n 7 (j + 1)).1
      = selfbuilt (basicModel P len) input (bnd t n (j + 1)) lgwin quality 7 :=
  BV.Props.C06.favor_cpu_equiv (basicModel P len) 7 (basicModel_additive hP len) (basicModel_local hP len)
    input t n lgwin quality j hq hl hnt

/-- `favor_cpu_equiv_h9` (quality 9 / 9.5) -/
theorem favor_cpu_equiv_h9 (P : H9P)
    (input : List Nat) (t n lgwin quality j : Nat) (hq : 2 ≤ quality) (hl : 10 ≤ lgwin)
    (hnt : bnd t n (j + 1) ≤ 2 ^ lgwin - 16) :
    (prebuilt (h9Model P) input t n 3 (j + 1)).1
      = selfbuilt (h9Model P) input (bnd t n (j + 1)) lgwin quality 3 :=
  BV.Props.C06.favor_cpu_equiv (h9Model P) 3 (h9Model_additive P) (h9Model_local P)
    input t n lgwin quality j hq hl hnt

/-- `favor_cpu_equiv_adv`: H5/H5q5/H5q7 (look-ahead 4) and H6 (look-ahead 8).  `j + 1 ≤ t` (the job
exists) and `n ≤ 2^64` (the input length is a `usize`) make every stored position a `usize`. -/
theorem favor_cpu_equiv_adv (P : AdvP) (hP : P.Ok) (hla : 1 ≤ P.lookahead)
    (input : List Nat) (t n lgwin quality j : Nat) (hq : 2 ≤ quality) (hl : 10 ≤ lgwin)
    (hj : j + 1 ≤ t) (hn : n ≤ 2 ^ 64) (hnt : bnd t n (j + 1) ≤ 2 ^ lgwin - 16) :
    (prebuilt (advModel P) input t n (P.lookahead - 1) (j + 1)).1
      = selfbuilt (advModel P) input (bnd t n (j + 1)) lgwin quality (P.lookahead - 1) :=
  favor_cpu_equiv_from (advModel P) (P.lookahead - 1) (2 ^ 64) (advModel_additive hP) (advModel_local hP hla)
    input t n lgwin quality j hq hl hj hn hnt

/-- the kinds `ChooseHasher` can select at quality 2..9 (C19 `concrete_kinds_ok` discharges the hash
hypotheses; table lengths as allocated by `InitializeH2..H54`; `overlap = StoreLookahead() − 1` is
7, 7, 7, 7, 3, 7, 3) -/
theorem favor_cpu_equiv_real_kinds
    (input : List Nat) (t n lgwin quality j : Nat) (hq : 2 ≤ quality) (hl : 10 ≤ lgwin)
    (hj : j + 1 ≤ t) (hn : n ≤ 2 ^ 64) (hnt : bnd t n (j + 1) ≤ 2 ^ lgwin - 16) :
    (prebuilt (basicModel H2 65545) input t n 7 (j + 1)).1
      = selfbuilt (basicModel H2 65545) input (bnd t n (j + 1)) lgwin quality 7 ∧
    (prebuilt (basicModel H3 65546) input t n 7 (j + 1)).1
      = selfbuilt (basicModel H3 65546) input (bnd t n (j + 1)) lgwin quality 7 ∧
    (prebuilt (basicModel H4 131080) input t n 7 (j + 1)).1
      = selfbuilt (basicModel H4 131080) input (bnd t n (j + 1)) lgwin quality 7 ∧
    (prebuilt (basicModel H54 1048588) input t n 7 (j + 1)).1
      = selfbuilt (basicModel H54 1048588) input (bnd t n (j + 1)) lgwin quality 7 ∧
    (∀ bucketBits blockBits, bucketBits + blockBits ≤ 32 →
      (prebuilt (advModel (adv32P bucketBits blockBits)) input t n 3 (j + 1)).1
        = selfbuilt (advModel (adv32P bucketBits blockBits)) input (bnd t n (j + 1)) lgwin quality 3) ∧
    (∀ bucketBits blockBits hashLen, bucketBits + blockBits ≤ 32 →
      (prebuilt (advModel (adv64P bucketBits blockBits hashLen)) input t n 7 (j + 1)).1
        = selfbuilt (advModel (adv64P bucketBits blockBits hashLen)) input (bnd t n (j + 1)) lgwin quality 7) ∧
    (prebuilt (h9Model H9std) input t n 3 (j + 1)).1
      = selfbuilt (h9Model H9std) input (bnd t n (j + 1)) lgwin quality 3 :=
  ⟨favor_cpu_equiv_basic H2 H2_ok _ input t n lgwin quality j hq hl hnt,
   favor_cpu_equiv_basic H3 H3_ok _ input t n lgwin quality j hq hl hnt,
   favor_cpu_equiv_basic H4 H4_ok _ input t n lgwin quality j hq hl hnt,
   favor_cpu_equiv_basic H54 H54_ok _ input t n lgwin quality j hq hl hnt,
   fun bb kb h => favor_cpu_equiv_adv (adv32P bb kb) (adv32P_ok bb kb h) (by show 1 ≤ 4; decide) input t n lgwin quality j hq hl hj hn hnt,
   fun bb kb hlen h => favor_cpu_equiv_adv (adv64P bb kb hlen) (adv64P_ok bb kb hlen h) (by show 1 ≤ 8; decide) input t n lgwin quality j hq hl hj hn hnt,
   favor_cpu_equiv_h9 H9std input t n lgwin quality j hq hl hnt⟩

/-! ## 3. the index the job compresses with: favor on = favor off, EVERY prefix length -/

/-- `job_index_basic`: with the truncation branch of `set_custom_dictionary_with_optional_
precomputed_hasher` in the picture (`jobIndex`), the restriction "prefix not truncated" goes away:
for every job `j + 1 ≤ t`, every input, window `lgwin ≥ 10` and quality ≥ 2 the job's encoder holds
the same index whether `CompressMulti` handed it the shared one or nothing. -/
theorem job_index_basic (P : BasicP) (hP : P.Ok) (len : Nat)
    (input : List Nat) (t n lgwin quality j : Nat) (hq : 2 ≤ quality) (hl : 10 ≤ lgwin) (hj : j + 1 ≤ t) :
    jobIndex (basicModel P len) input (bnd t n (j + 1)) lgwin quality 7
        (some (prebuilt (basicModel P len) input t n 7 (j + 1)).1)
      = jobIndex (basicModel P len) input (bnd t n (j + 1)) lgwin quality 7 none :=
  jobIndex_favor_irrelevant (basicModel P len) 7 n ((basicModel_additive hP len).from n)
    ((basicModel_local hP len).from n) input t n lgwin quality j hq hl hj (Nat.le_refl _)

theorem job_index_h9 (P : H9P)
    (input : List Nat) (t n lgwin quality j : Nat) (hq : 2 ≤ quality) (hl : 10 ≤ lgwin) (hj : j + 1 ≤ t) :
    jobIndex (h9Model P) input (bnd t n (j + 1)) lgwin quality 3 (some (prebuilt (h9Model P) input t n 3 (j + 1)).1)
      = jobIndex (h9Model P) input (bnd t n (j + 1)) lgwin quality 3 none :=
  jobIndex_favor_irrelevant (h9Model P) 3 n ((h9Model_additive P).from n) ((h9Model_local P).from n)
    input t n lgwin quality j hq hl hj (Nat.le_refl _)

theorem job_index_adv (P : AdvP) (hP : P.Ok) (hla : 1 ≤ P.lookahead)
    (input : List Nat) (t n lgwin quality j : Nat) (hq : 2 ≤ quality) (hl : 10 ≤ lgwin) (hj : j + 1 ≤ t)
    (hn : n ≤ 2 ^ 64) :
    jobIndex (advModel P) input (bnd t n (j + 1)) lgwin quality (P.lookahead - 1)
        (some (prebuilt (advModel P) input t n (P.lookahead - 1) (j + 1)).1)
      = jobIndex (advModel P) input (bnd t n (j + 1)) lgwin quality (P.lookahead - 1) none :=
  jobIndex_favor_irrelevant (advModel P) (P.lookahead - 1) (2 ^ 64) (advModel_additive hP) (advModel_local hP hla)
    input t n lgwin quality j hq hl hj hn

/-- the `debug_assert!(orig_hasher == self.hasher_)` of `set_custom_dictionary_with_optional_
precomputed_hasher` (debug builds re-index the prefix and compare) cannot fire for a `BasicHasher`
handed in by the favor branch: it is reached only when the prefix is not truncated, where the two
indexes are equal — and `PartialEq` on the tables says so (C19 `clone_eq_basic`: slice equality) -/
theorem debug_assert_holds_basic (P : BasicP) (hP : P.Ok) (len : Nat)
    (input : List Nat) (t n lgwin quality j : Nat) (hq : 2 ≤ quality) (hl : 10 ≤ lgwin)
    (hnt : bnd t n (j + 1) ≤ 2 ^ lgwin - 16) (shared own : Tab)
    (hs : (prebuilt (basicModel P len) input t n 7 (j + 1)).1 = some shared)
    (ho : selfbuilt (basicModel P len) input (bnd t n (j + 1)) lgwin quality 7 = some own) :
    Basic.eq shared own = true := by
  rw [favor_cpu_equiv_basic P hP len input t n lgwin quality j hq hl hnt, ho] at hs
  injection hs with hs
  subst hs
  simp [Basic.eq]

/-! ## 4. non-vacuity, and the case in which the indexes do differ -/

/-- a toy `BasicHasher` kind (sweep 2, 16 cells, hash = first byte mod 8) small enough for the kernel -/
def toyP : BasicP := { sweep := 2, hash := fun w => w.headD 0 % 8 }

theorem toyP_ok : toyP.Ok := ⟨fun w => by simp only [toyP, U32]; omega⟩

/-- 3 jobs over 60 bytes: job 2 (prefix 40 bytes) gets an index that was built by TWO bulk stores
(`[0, 13)` then `[13, 33)`), is not empty, did not panic, and equals the one-call index of the job -/
example :
    (prebuilt (basicModel toyP 16) ((List.range 60).map (· * 37 % 251)) 3 60 7 2).1
      = selfbuilt (basicModel toyP 16) ((List.range 60).map (· * 37 % 251)) (bnd 3 60 2) 22 5 7 ∧
    (prebuilt (basicModel toyP 16) ((List.range 60).map (· * 37 % 251)) 3 60 7 2).2 = 33 ∧
    (prebuilt (basicModel toyP 16) ((List.range 60).map (· * 37 % 251)) 3 60 7 1).2 = 13 ∧
    ((prebuilt (basicModel toyP 16) ((List.range 60).map (· * 37 % 251)) 3 60 7 2).1).isSome = true ∧
    (prebuilt (basicModel toyP 16) ((List.range 60).map (· * 37 % 251)) 3 60 7 2).1
      ≠ (basicModel toyP 16).empty :=
  ⟨favor_cpu_equiv_basic toyP toyP_ok 16 _ 3 60 22 5 1 (by decide) (by decide) (by decide),
   by decide +kernel, by decide +kernel, by decide +kernel, by decide +kernel⟩

/-- a read past the end of the input panics in both builds alike: with only 36 of the 40 prefix
bytes present both sides are `none` (the equation of `favor_cpu_equiv_basic` covers it) -/
example :
    (prebuilt (basicModel toyP 16) ((List.range 36).map (· * 37 % 251)) 3 60 7 2).1 = none ∧
    selfbuilt (basicModel toyP 16) ((List.range 36).map (· * 37 % 251)) (bnd 3 60 2) 22 5 7 = none := by
  decide +kernel

/-- TRUNCATED prefix, concrete kind (scaled-down window `lgwin = 5`: 16 bytes kept of 30): the
shared index and the job's own index differ as tables … -/
theorem favor_truncated_differs :
    (prebuilt (basicModel toyP 16) ((List.range 60).map (· * 37 % 251)) 2 60 7 1).1
      ≠ selfbuilt (basicModel toyP 16) ((List.range 60).map (· * 37 % 251)) (bnd 2 60 1) 5 5 7 ∧
    dictPlan (bnd 2 60 1) 5 5 = ⟨true, 14, 16⟩ := by
  decide +kernel

/-- … and the job discards the shared one (6f21d9b): with or without it, it compresses with its own -/
theorem truncated_job_uses_own_index {H : Type} (M : HasherModel H) (input : List Nat)
    (size lgwin quality overlap : Nat) (hq : 2 ≤ quality) (htr : size > 2 ^ lgwin - 16) (opt : Option H) :
    jobIndex M input size lgwin quality overlap opt = selfbuilt M input size lgwin quality overlap := by
  have hplan : dictPlan size lgwin quality = ⟨true, size - (2 ^ lgwin - 16), 2 ^ lgwin - 16⟩ := by
    unfold dictPlan
    rw [if_neg (by omega), if_pos htr]
  unfold jobIndex
  rw [hplan]
  simp only [Bool.true_eq_false, if_false]
  rw [if_pos (by omega)]

/-! ## 5. H10 (quality 10/11) and the favor loop as a C19 partition -/

/-- `favor_cpu_equiv_h10`: the binary-tree index, `Store` and the empty forest OPAQUE (as in C19).
Additivity needs nothing; what remains of the abstract hypotheses is exactly one statement about
`Store`: at position `ix` it reads `data[.. ix + 128)` only (`StoreLookahead() = 128` = the
`max_length` it passes to `StoreAndFindMatchesH10`; positions behind `ix` are earlier input). -/
theorem favor_cpu_equiv_h10 {σ : Type} (store : ByteArray → Nat → σ → Option σ) (empty : σ)
    (hloc : ∀ d d' ix st k, Agree d d' k → ix + 128 ≤ k → store d ix st = store d' ix st)
    (input : List Nat) (t n lgwin quality j : Nat) (hq : 2 ≤ quality) (hl : 10 ≤ lgwin)
    (hnt : bnd t n (j + 1) ≤ 2 ^ lgwin - 16) :
    (prebuilt (h10Model store empty) input t n 127 (j + 1)).1
      = selfbuilt (h10Model store empty) input (bnd t n (j + 1)) lgwin quality 127 :=
  BV.Props.C06.favor_cpu_equiv (h10Model store empty) 127 (h10Model_additive store empty)
    (h10Model_local store empty 128 (by decide) hloc) input t n lgwin quality j hq hl hnt

/-- non-vacuity: a `Store` that files (position, first byte of its 128-byte window) is local -/
example : ∀ d d' ix (st : List (Nat × Nat)) k, Agree d d' k → ix + 128 ≤ k →
    (fun (d : ByteArray) ix (st : List (Nat × Nat)) => (win d ix 128).map fun w => st ++ [(ix, w.headD 0)]) d ix st
      = (fun (d : ByteArray) ix (st : List (Nat × Nat)) => (win d ix 128).map fun w => st ++ [(ix, w.headD 0)]) d' ix st := by
  intro d d' ix st k h hk
  simp only [h ix 128 hk]

/-- `shared_index_is_partition`: the `BulkStoreRange` calls of the favor loop are consecutive
pieces `[0, c₁), [c₁, c₂), …` (`favorPieces`: sorted cut points from 0, the last one = `stored_end`),
and the shared index handed to job `j` is C19's `runPieces` over them — e.g. for a `BasicHasher`, by
C19 `partition_irrelevant_basic`, the one-position-at-a-time index of `[0, stored_end)`. -/
theorem shared_index_is_partition (P : BasicP) (hP : P.Ok) (len : Nat) (input : List Nat) (t n j : Nat) :
    Sorted 0 (favorPieces t n 7 j).1 ∧
    endOf 0 (favorPieces t n 7 j).1 = (prebuilt (basicModel P len) input t n 7 j).2 ∧
    (prebuilt (basicModel P len) input t n 7 j).1
      = forRange (Basic.store P (toBA input) (2 ^ 64 - 1)) 0 (prebuilt (basicModel P len) input t n 7 j).2
          (Array.replicate len 0) := by
  have hp := prebuilt_is_partition (Basic.bulkStoreRange P) (Array.replicate len 0) input t n 7 j
  have hs := favorPieces_sorted t n 7 j
  have hpart := BV.Props.C19.partition_irrelevant_basic P hP (toBA input) 64 0 (favorPieces t n 7 j).1 hs.1
    (Array.replicate len 0)
  have hm : USIZE_MAX = 2 ^ 64 - 1 := Adv.usize_max_eq
  have hp' : prebuilt (basicModel P len) input t n 7 j =
      (runPieces (Basic.bulkStoreRange P (toBA input) USIZE_MAX) (Basic.bulkStoreRange P (toBA input) USIZE_MAX) 0
        (favorPieces t n 7 j).1 (Array.replicate len 0), (favorPieces t n 7 j).2) := hp
  refine ⟨hs.1, by rw [hp', hs.2], ?_⟩
  rw [hp']
  dsimp only
  rw [hm]
  have hsr : Basic.storeRange P (toBA input) (2 ^ 64 - 1) = Basic.bulkStoreRange P (toBA input) (2 ^ 64 - 1) := rfl
  rw [hsr] at hpart
  rw [hpart, hs.2, Nat.sub_zero]

/-! ## 6. the favor branch itself cannot panic -/

/-- `favor_branch_never_panics`.  The shared index is built on the CALLING thread (before the last
job runs): a panic there would be a panic of `CompressMulti` that no job caused — the model
`BV.Multi.compressMulti` has no site for it.  Justification: for every kind `ChooseHasher` selects at
quality 2..9, every thread count `t ≥ 1`, every job `j ≤ t` and every input of `n` bytes (`n` a
`usize`), the index handed to job `j` is `some` table(s): every `Store` of the loop reads its
look-ahead window inside `input[.. range.end)` and writes inside the tables `InitializeH2..H9`
allocate (hash values stay below the bucket count; table lengths as allocated). -/
theorem favor_branch_never_panics (input : List Nat) (t n j : Nat) (ht : 0 < t) (hj : j ≤ t)
    (hn : n ≤ input.length) (hn64 : n ≤ 2 ^ 64) :
    (∃ b, (prebuilt (basicModel H2 65545) input t n 7 j).1 = some b ∧ b.size = 65545) ∧
    (∃ b, (prebuilt (basicModel H3 65546) input t n 7 j).1 = some b ∧ b.size = 65546) ∧
    (∃ b, (prebuilt (basicModel H4 131080) input t n 7 j).1 = some b ∧ b.size = 131080) ∧
    (∃ b, (prebuilt (basicModel H54 1048588) input t n 7 j).1 = some b ∧ b.size = 1048588) ∧
    (∀ bucketBits blockBits, bucketBits + blockBits ≤ 32 →
      ∃ st, (prebuilt (advModel (adv32P bucketBits blockBits)) input t n 3 j).1 = some st) ∧
    (∀ bucketBits blockBits hashLen, bucketBits + blockBits ≤ 32 →
      ∃ st, (prebuilt (advModel (adv64P bucketBits blockBits hashLen)) input t n 7 j).1 = some st) ∧
    (∃ st, (prebuilt (h9Model H9std) input t n 3 j).1 = some st) := by
  have hb : ∀ (hl bb sweep len : Nat), bb ≤ 64 → 2 ^ bb + sweep ≤ len →
      ∀ w, (basicP bb sweep hl).hash w % U32 + (basicP bb sweep hl).sweep ≤ len := by
    intro hl bb sweep len h1 h2 w
    have := basicHash_lt hl bb h1 w
    have hm : basicHash hl bb w % U32 ≤ basicHash hl bb w := Nat.mod_le _ _
    simp only [basicP]
    omega
  refine ⟨?_, ?_, ?_, ?_, ?_, ?_, ?_⟩
  · exact shared_no_panic_basic H2_ok (by decide) 65545 (hb 5 16 1 65545 (by decide) (by decide)) input t n j ht hj hn
  · exact shared_no_panic_basic H3_ok (by decide) 65546 (hb 5 16 2 65546 (by decide) (by decide)) input t n j ht hj hn
  · exact shared_no_panic_basic H4_ok (by decide) 131080 (hb 5 17 4 131080 (by decide) (by decide)) input t n j ht hj hn
  · exact shared_no_panic_basic H54_ok (by decide) 1048588 (hb 7 20 4 1048588 (by decide) (by decide)) input t n j ht hj hn
  · intro bb kb h
    exact shared_no_panic_adv (adv32P_ok bb kb h) (adv32_key_lt bb kb (by omega)) (mask_lt kb) (by show 1 ≤ 4; decide)
      input t n j ht hj hn hn64
  · intro bb kb hlen h
    exact shared_no_panic_adv (adv64P_ok bb kb hlen h) (adv64_key_lt bb kb hlen (by omega)) (mask_lt kb)
      (by show 1 ≤ 8; decide) input t n j ht hj hn hn64
  · exact shared_no_panic_h9 h9std_key_lt input t n j ht hj hn

/-- `job_dictionary_indexing_never_panics`: the same for the index a job builds ITSELF in
`set_custom_dictionary…` (`StoreLookaheadThenStore` over the kept part of its prefix) — every kind
of quality 2..9, every prefix length `size ≤ input.len()`, truncated to the window or not: the
result is `some` table(s).  With `favor_branch_never_panics`: whichever index the job's encoder ends
up holding (`jobIndex`: its own, or the handed one), building it did not panic. -/
theorem job_dictionary_indexing_never_panics (input : List Nat) (size lgwin quality : Nat)
    (hsz : size ≤ input.length) (h64 : size ≤ 2 ^ 64) :
    (∃ st, selfbuilt (basicModel H2 65545) input size lgwin quality 7 = some st) ∧
    (∃ st, selfbuilt (basicModel H3 65546) input size lgwin quality 7 = some st) ∧
    (∃ st, selfbuilt (basicModel H4 131080) input size lgwin quality 7 = some st) ∧
    (∃ st, selfbuilt (basicModel H54 1048588) input size lgwin quality 7 = some st) ∧
    (∀ bucketBits blockBits, bucketBits + blockBits ≤ 32 →
      ∃ st, selfbuilt (advModel (adv32P bucketBits blockBits)) input size lgwin quality 3 = some st) ∧
    (∀ bucketBits blockBits hashLen, bucketBits + blockBits ≤ 32 →
      ∃ st, selfbuilt (advModel (adv64P bucketBits blockBits hashLen)) input size lgwin quality 7 = some st) ∧
    (∃ st, selfbuilt (h9Model H9std) input size lgwin quality 3 = some st) := by
  have hb : ∀ (hl bb sweep len : Nat), bb ≤ 64 → 2 ^ bb + sweep ≤ len →
      ∀ w, (basicP bb sweep hl).hash w % U32 + (basicP bb sweep hl).sweep ≤ len := by
    intro hl bb sweep len h1 h2 w
    have := basicHash_lt hl bb h1 w
    have hm : basicHash hl bb w % U32 ≤ basicHash hl bb w := Nat.mod_le _ _
    simp only [basicP]
    omega
  have basic : ∀ (P : BasicP) (hP : P.Ok) (hs : P.sweep ≠ 0) (len : Nat)
      (hfit : ∀ w, P.hash w % U32 + P.sweep ≤ len),
      ∃ st, selfbuilt (basicModel P len) input size lgwin quality 7 = some st := by
    intro P hP hs len hfit
    exact selfbuilt_isSome (basicModel P len) ⟨_, rfl⟩ 7
      (fun d m hm _ => by
        obtain ⟨b, h, _⟩ := basic_bulk0_isSome hP hs len hfit d m hm
        exact ⟨b, h⟩) input size lgwin quality hsz h64
  refine ⟨?_, ?_, ?_, ?_, ?_, ?_, ?_⟩
  · exact basic H2 H2_ok (by decide) 65545 (hb 5 16 1 65545 (by decide) (by decide))
  · exact basic H3 H3_ok (by decide) 65546 (hb 5 16 2 65546 (by decide) (by decide))
  · exact basic H4 H4_ok (by decide) 131080 (hb 5 17 4 131080 (by decide) (by decide))
  · exact basic H54 H54_ok (by decide) 1048588 (hb 7 20 4 1048588 (by decide) (by decide))
  · intro bb kb h
    exact selfbuilt_isSome (advModel (adv32P bb kb)) ⟨_, rfl⟩ 3
      (fun d m hm hm64 => adv_bulk0_isSome (adv32P_ok bb kb h) (adv32_key_lt bb kb (by omega)) (mask_lt kb)
        (by show 1 ≤ 4; decide) d m hm hm64) input size lgwin quality hsz h64
  · intro bb kb hlen h
    exact selfbuilt_isSome (advModel (adv64P bb kb hlen)) ⟨_, rfl⟩ 7
      (fun d m hm hm64 => adv_bulk0_isSome (adv64P_ok bb kb hlen h) (adv64_key_lt bb kb hlen (by omega)) (mask_lt kb)
        (by show 1 ≤ 8; decide) d m hm hm64) input size lgwin quality hsz h64
  · exact selfbuilt_isSome (h9Model H9std) ⟨_, rfl⟩ 3
      (fun d m hm _ => h9_bulk0_isSome h9std_key_lt d m hm) input size lgwin quality hsz h64

/-- the bound on the input is needed: with fewer bytes than `get_range` was told the look-ahead
window of the last stored position leaves the slice and `BulkStoreRange` panics (toy kind; the real
code passes `input.len()` itself, so `n = input.length`) -/
example : (prebuilt (basicModel toyP 16) ((List.range 36).map (· * 37 % 251)) 3 60 7 2).1 = none := by
  decide +kernel

end BV.Props.C06Hasher
