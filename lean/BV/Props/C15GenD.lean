/-
C15, translator tie, DIRECT theorems: `ChooseDistanceParams` (src/enc/encode.rs) and `BrotliInitDistanceParams`
(src/enc/metablock.rs) have no hand-written model; the properties the stream header and the distance coder
rely on are stated here directly over the Lean definitions GENERATED from the current Rust text
(tools/rs2lean.py -> BV/Gen/FnC15.lean), for EVERY parameter structure:

* `chosen_valid`: the (NDIRECT, NPOSTFIX) pair selected is always legal for RFC 7932 section 9.2:
  NPOSTFIX <= 3, NDIRECT <= 120, NDIRECT a multiple of 2^NPOSTFIX whose quotient fits the 4-bit header field
  (whatever the caller put into `params.dist` — illegal requests fall back to (0, 0));
* `chosen_low_quality`, `chosen_font`: qualities below 4 use (0, 0); font mode uses NPOSTFIX 1, NDIRECT 12;
* `choose_distance_params_small` / `_large_alphabet`: the alphabet size is 16 + NDIRECT + 24 * 2^(NPOSTFIX+1)
  (62 * ... with large windows) and, without large windows, the largest distance is
  NDIRECT + 2^(26+NPOSTFIX) - 2^(NPOSTFIX+2);
* `choose_distance_params_frame`: no field other than `dist` is touched.
-/
import BV.Gen.FnC15
import BV.Lemmas.RsPrelude

set_option linter.unusedSimpArgs false

namespace BV.Props.C15GenD
open BV.Gen.FnC15

/-- the `(num_direct_distance_codes, distance_postfix_bits)` pair `ChooseDistanceParams` hands to
`BrotliInitDistanceParams` (the generated expression, named) -/
def chosen (p : BrotliEncoderParams) : Nat × Nat :=
  let num_direct_distance_codes : Nat := 0
  let distance_postfix_bits : Nat := 0
  ((if (decide (p.quality ≥ (4 : Int))) then
    let (num_direct_distance_codes, distance_postfix_bits) := ((if (p.mode == 2) then
      let distance_postfix_bits : Nat := 1
      let num_direct_distance_codes : Nat := 12
      (num_direct_distance_codes, distance_postfix_bits)
    else
      let distance_postfix_bits : Nat := p.dist.distance_postfix_bits
      let num_direct_distance_codes : Nat := p.dist.num_direct_distance_codes
      (num_direct_distance_codes, distance_postfix_bits)) : Nat × Nat)
    let ndirect_msb : Nat := ((num_direct_distance_codes >>> (distance_postfix_bits % 32)) &&& 15)
    if (((decide (distance_postfix_bits > (3 % 4294967296))) || (decide (num_direct_distance_codes > (120 % 4294967296)))) || (((ndirect_msb <<< (distance_postfix_bits % 32)) % 4294967296) != num_direct_distance_codes)) then
      let distance_postfix_bits : Nat := 0
      let num_direct_distance_codes : Nat := 0
      (num_direct_distance_codes, distance_postfix_bits)
    else
      (num_direct_distance_codes, distance_postfix_bits)
  else
    (num_direct_distance_codes, distance_postfix_bits)) : Nat × Nat)

theorem choose_unfold (p : BrotliEncoderParams) :
    ChooseDistanceParams p = BrotliInitDistanceParams p (chosen p).2 (chosen p).1 := rfl

/-- the validity test, on the whole range it lets through -/
theorem test_fin : ∀ (np : Fin 4) (nd : Fin 121),
    ((((nd.val >>> (np.val % 32)) &&& 15) <<< (np.val % 32)) % 4294967296 != nd.val) = false →
      (nd.val >>> np.val) <<< np.val = nd.val ∧ nd.val >>> np.val ≤ 15 := by decide +kernel

/-- what `ChooseDistanceParams` selects is always a legal RFC 7932 pair: NPOSTFIX <= 3, NDIRECT <= 120 a multiple of
2^NPOSTFIX whose quotient fits the 4-bit field of the meta-block header -/
theorem chosen_valid (p : BrotliEncoderParams) :
    (chosen p).2 ≤ 3 ∧ (chosen p).1 ≤ 120 ∧ ((chosen p).1 >>> (chosen p).2) <<< (chosen p).2 = (chosen p).1 ∧
      (chosen p).1 >>> (chosen p).2 ≤ 15 := by
  unfold chosen
  by_cases hq : p.quality ≥ 4
  · have dq : decide (p.quality ≥ (4 : Int)) = true := by simpa using hq
    simp only [dq, if_true]
    by_cases hm : p.mode = 2
    · have dm : (p.mode == 2) = true := by simpa using hm
      simp only [dm, if_true]
      decide
    · have dm : (p.mode == 2) = false := by simpa using hm
      simp only [dm, if_false, Bool.false_eq_true]
      generalize p.dist.distance_postfix_bits = np
      generalize p.dist.num_direct_distance_codes = nd
      by_cases h3 : np > 3
      · have : decide (np > 3 % 4294967296) = true := by simpa using h3
        simp [this]
      · have d3 : decide (np > 3 % 4294967296) = false := by simpa using h3
        by_cases h120 : nd > 120
        · have : decide (nd > 120 % 4294967296) = true := by simpa using h120
          simp [d3, this]
        · have d120 : decide (nd > 120 % 4294967296) = false := by simpa using h120
          simp only [d3, d120, Bool.false_or]
          cases ht : ((((nd >>> (np % 32)) &&& 15) <<< (np % 32)) % 4294967296 != nd) with
          | true => simp
          | false =>
            simp only [Bool.false_eq_true, if_false]
            have := test_fin ⟨np, by omega⟩ ⟨nd, by omega⟩ ht
            exact ⟨by omega, by omega, this.1, this.2⟩
  · have dq : decide (p.quality ≥ (4 : Int)) = false := by simpa using hq
    simp [dq]

theorem choose_distance_params_postfix (p : BrotliEncoderParams) :
    (ChooseDistanceParams p).dist.distance_postfix_bits = (chosen p).2 ∧
    (ChooseDistanceParams p).dist.num_direct_distance_codes = (chosen p).1 := by
  rw [choose_unfold]
  unfold BrotliInitDistanceParams
  constructor <;> rfl

/-- low qualities never use direct codes or postfix bits -/
theorem chosen_low_quality (p : BrotliEncoderParams) (h : p.quality < 4) : chosen p = (0, 0) := by
  unfold chosen
  have dq : decide (p.quality ≥ (4 : Int)) = false := by simp; omega
  simp [dq]

/-- font mode: NPOSTFIX 1, NDIRECT 12 -/
theorem chosen_font (p : BrotliEncoderParams) (h : p.quality ≥ 4) (hm : p.mode = 2) : chosen p = (12, 1) := by
  unfold chosen
  have dq : decide (p.quality ≥ (4 : Int)) = true := by simpa using h
  have dm : (p.mode == 2) = true := by simpa using hm
  simp only [dq, dm, if_true]
  decide

/-- nothing but `dist` is touched -/
theorem choose_distance_params_frame (p : BrotliEncoderParams) :
    ChooseDistanceParams p = { p with dist := (ChooseDistanceParams p).dist } := by
  rw [choose_unfold]
  unfold BrotliInitDistanceParams
  rfl

theorem sizes_fin : ∀ (np : Fin 4) (nd : Fin 121),
    BROTLI_DISTANCE_ALPHABET_SIZE np.val nd.val 24 = 16 + nd.val + 24 * 2 ^ (np.val + 1) ∧
    BROTLI_DISTANCE_ALPHABET_SIZE np.val nd.val 62 = 16 + nd.val + 62 * 2 ^ (np.val + 1) ∧
    ((((nd.val + ((1 <<< (((((24 + np.val) % 4294967296) + 2) % 4294967296) % 32)) % 4294967296)) % 4294967296) + 4294967296 - ((1 <<< (((np.val + 2) % 4294967296) % 32)) % 4294967296)) % 4294967296)
      = nd.val + 2 ^ (26 + np.val) - 2 ^ (np.val + 2) := by decide +kernel

/-- without large windows: the distance alphabet has `16 + NDIRECT + 24 * 2^(NPOSTFIX+1)` symbols (RFC 7932 section 4 with
24 distance-bit classes) and the largest distance is `NDIRECT + 2^(26+NPOSTFIX) - 2^(NPOSTFIX+2)` -/
theorem choose_distance_params_small (p : BrotliEncoderParams) (hl : p.large_window = false) :
    (ChooseDistanceParams p).dist.alphabet_size = 16 + (chosen p).1 + 24 * 2 ^ ((chosen p).2 + 1) ∧
    (ChooseDistanceParams p).dist.max_distance = (chosen p).1 + 2 ^ (26 + (chosen p).2) - 2 ^ ((chosen p).2 + 2) := by
  obtain ⟨h3, h120, _, _⟩ := chosen_valid p
  have hs := sizes_fin ⟨(chosen p).2, by omega⟩ ⟨(chosen p).1, by omega⟩
  simp only [] at hs
  rw [choose_unfold]
  unfold BrotliInitDistanceParams
  simp only [hl, Bool.false_eq_true, if_false]
  exact ⟨hs.1, hs.2.2⟩

/-- with large windows: 62 distance-bit classes -/
theorem choose_distance_params_large_alphabet (p : BrotliEncoderParams) (hl : p.large_window = true) :
    (ChooseDistanceParams p).dist.alphabet_size = 16 + (chosen p).1 + 62 * 2 ^ ((chosen p).2 + 1) := by
  obtain ⟨h3, h120, _, _⟩ := chosen_valid p
  have hs := sizes_fin ⟨(chosen p).2, by omega⟩ ⟨(chosen p).1, by omega⟩
  simp only [] at hs
  rw [choose_unfold]
  unfold BrotliInitDistanceParams
  simp only [hl, if_true]
  split <;> (try split) <;> exact hs.2.1

example : (ChooseDistanceParams { (default : BrotliEncoderParams) with quality := 9, mode := 2 }).dist =
    { distance_postfix_bits := 1, num_direct_distance_codes := 12, alphabet_size := 124, max_distance := 134217732 } := by decide +kernel
example : chosen { (default : BrotliEncoderParams) with quality := 9, dist := { (default : BrotliDistanceParams) with distance_postfix_bits := 2, num_direct_distance_codes := 13 } } = (0, 0) := by
  decide +kernel

end BV.Props.C15GenD
