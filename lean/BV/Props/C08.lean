/-
C08 — Advertised maximum compressed size is honoured.

Model: `BV/Model/Stored.lean` (mirrors `BrotliEncoderMaxCompressedSize(+Multi)`,
`MakeUncompressedStream`, the decision logic of `encoder_compress`) and
`BV/Model/Header.lean` (what a stream starts with); literals regenerated from
the Rust source.  Specification side: `BV/Lemmas/HeaderSpec.lean`
(`decodeFraming`, RFC 7932 §9.2, written independently).

What is proved for every input length / every byte string (no sampling):
`bound_formula`, `bound_monotone`, `stored_stream_fits`, `stored_stream_decodes`,
`oneshot_contract` (for EVERY outcome of the stream phase) and the arithmetic
`stream_total_le_bound_partial` (under the two named hypotheses about the
payload encoder that the harness checks on recorded encoder invocations).
`stream_bound_counterexample` is the defect D17 (known finding).
-/
import BV.Lemmas.HeaderStored
import BV.Lemmas.HeaderStoredDecode
import BV.Lemmas.HeaderStreamBound
import BV.Lemmas.HeaderGuard
import BV.Lemmas.HeaderBlocks

namespace BV.Props.C08
open BV.Bits BV.Bits.Out BV.Header BV.Stored BV.HeaderSpec

/-! ## the bound -/

/-- `bound_formula`: closed form of `BrotliEncoderMaxCompressedSize` for every
`usize` argument: with `t ∈ {3, 4}` the "tail overhead" (`t = 3` exactly for
`n < 2^14` as long as `n < 2^54`; above that the wrapping subtraction in the
code can make it 3 again), the result is 17 for `n = 0`, 0 when
`n + 4·⌊n/2^14⌋ + t + 3` does not fit in 64 bits (the wrap-to-0 case), and
otherwise that number plus 16 (mod 2^64: the last addition is unchecked). -/
theorem bound_formula (n : Nat) (hn : n < 2 ^ 64) :
    ∃ t, (t = 3 ∨ t = 4) ∧ (n < 2 ^ 54 → (t = 3 ↔ n < 2 ^ 14)) ∧
      maxCompressedSize n =
        if n = 0 then 17
        else if 2 ^ 64 ≤ n + 4 * (n / 2 ^ 14) + t + 3 then 0
        else (n + 4 * (n / 2 ^ 14) + t + 3 + 16) % 2 ^ 64 := by
  obtain ⟨t, ht, h54, hr⟩ := maxResult_eq n hn
  refine ⟨t, ht, h54, ?_⟩
  simp only [maxCompressedSize, hr, lit, litsMax, BV.Gen.lits_MaxCompressedSize, List.getD_cons_zero,
    List.getD_cons_succ, W64]
  by_cases h0 : n = 0
  · simp [h0]
  · simp only [h0, if_false]
    by_cases hw : 2 ^ 64 ≤ n + 4 * (n / 2 ^ 14) + t + 3
    · simp only [hw, if_true]
      have : (n + (2 + 4 * (n / 2 ^ 14) + t + 1)) % 2 ^ 64 < n := by
        have h1 : n + (2 + 4 * (n / 2 ^ 14) + t + 1) < 2 * 2 ^ 64 := by omega
        omega
      simp [this]
    · simp only [hw, if_false]
      have e : (n + (2 + 4 * (n / 2 ^ 14) + t + 1)) % 2 ^ 64 = n + 4 * (n / 2 ^ 14) + t + 3 := by
        rw [Nat.mod_eq_of_lt (by omega)]; omega
      rw [e]
      have : ¬ (n + 4 * (n / 2 ^ 14) + t + 3 < n) := by omega
      simp [this]

/-- closed form below 2^54 (every length a real buffer can have) -/
theorem bound_closed_form (n : Nat) (hn : n < 2 ^ 54) :
    maxCompressedSize n = if n = 0 then 17 else if n < 2 ^ 14 then n + 22 else n + 4 * (n / 2 ^ 14) + 23 :=
  max_closed n hn

/-- the formula's literals are the ones of the task statement: 16 spare bytes,
one 4-byte allowance per 2^14 input bytes, the 2^24 / 2^20 tail test -/
theorem bound_literals : litsMax = [16, 14, 24, 1, 20, 4, 3, 2, 4, 1, 0, 1, 0] := rfl

/-- `bound_monotone`: below the wrap the bound is monotone and never smaller than the input -/
theorem bound_monotone (n m : Nat) (h : n ≤ m) (hm : m < 2 ^ 63) :
    maxCompressedSize n ≤ maxCompressedSize m ∧ n < maxCompressedSize n := by
  obtain ⟨t, ht, _, hn'⟩ := bound_formula n (by omega)
  obtain ⟨u, hu, _, hm'⟩ := bound_formula m (by omega)
  rw [hn', hm']
  have d1 : 4 * (n / 2 ^ 14) ≤ 4 * (m / 2 ^ 14) := by
    have : n / 2 ^ 14 ≤ m / 2 ^ 14 := Nat.div_le_div_right h
    omega
  have b1 : 4 * (m / 2 ^ 14) < 2 ^ 51 := by omega
  have w1 : ¬ (2 ^ 64 ≤ n + 4 * (n / 2 ^ 14) + t + 3) := by omega
  have w2 : ¬ (2 ^ 64 ≤ m + 4 * (m / 2 ^ 14) + u + 3) := by omega
  simp only [w1, w2, if_false]
  rw [Nat.mod_eq_of_lt (by omega), Nat.mod_eq_of_lt (by omega)]
  by_cases h0 : n = 0
  · subst h0
    by_cases hm0 : m = 0
    · subst hm0; simp
    · simp [hm0]
  · have hm0 : m ≠ 0 := by omega
    simp only [h0, hm0, if_false]
    rcases Nat.lt_or_ge n m with hlt | hge
    · omega
    · have : n = m := by omega
      subst this
      -- same argument: `t` and `u` are both the tail overhead of `n`
      have := hn'.symm.trans hm'
      simp only [h0, w1, w2, if_false] at this
      rw [Nat.mod_eq_of_lt (by omega), Nat.mod_eq_of_lt (by omega)] at this
      omega

/-- the wrap-to-0 case exists (the largest `usize`), and so does the zone where
only the final `+ magic_size` overflows (a panic in a debug build; the release
build wraps: `Max = 0 … 15`) -/
theorem bound_wraps : maxCompressedSize (2 ^ 64 - 1) = 0 ∧
    maxCompressedSizeOverflows 18442241573325438941 = true ∧ maxCompressedSize 18442241573325438941 = 0 ∧
    maxCompressedSizeOverflows 18442241573325438940 = false := by decide

/-! ## the stored stream -/

/-- `stored_stream_fits`: for every input (any length below 2^54) and every
output buffer of at least the advertised size, `MakeUncompressedStream` does not
panic and writes at most `Max |x|` bytes. -/
theorem stored_stream_fits (x : List Nat) (cap : Nat) (hn : x.length < 2 ^ 54)
    (hcap : maxCompressedSize x.length ≤ cap) :
    ∃ out, makeUncompressedStream x x.length cap = ok out ∧ out.length ≤ maxCompressedSize x.length := by
  obtain ⟨out, h1, h2, _⟩ := mus_fits x cap hn hcap
  exact ⟨out, h1, h2⟩

example : makeUncompressedStream [1, 2, 3] 3 (maxCompressedSize 3) = ok [0x21, 0x03, 0x10, 0x00, 0x08, 1, 2, 3, 0x03] :=
  stored_example


/-- `stored_stream_decodes`: for every non-empty byte string `x` (any length below
2^54), the stored stream read by the RFC readers is: window 10 (7-bit form), an
empty metadata meta-block, then one *uncompressed* meta-block per chunk, then
the empty last meta-block; the chunks concatenate to exactly `x`, every chunk
but the last is 2^24 bytes long, every chunk has 1‥2^24 bytes (so 4, 5 or 6
length nibbles are what the reader accepted).  No entropy-coded block occurs:
the framing alone yields the input. -/
theorem stored_stream_decodes (x : List Nat) (cap : Nat) (hx : ∀ b ∈ x, b < 256)
    (hn : x.length < 2 ^ 54) (h0 : 0 < x.length) (hcap : maxCompressedSize x.length ≤ cap) :
    ∃ out r chunks, makeUncompressedStream x x.length cap = ok out ∧
      readWbits (out.flatMap (bitsOf 8)) = some (10, false, r) ∧
      decodeFraming (chunks.length + 2) 7 r
        = some (MetaBlock.metadata [] :: (chunks.map MetaBlock.raw ++ [MetaBlock.lastEmpty])) ∧
      chunks.flatten = x ∧ FullButLast chunks ∧
      ∀ c ∈ chunks, 1 ≤ c.length ∧ c.length ≤ 2 ^ 24 := by
  have hspec := chunksOf_spec x hx
  refine ⟨_, false :: (bitsOf 8 3 ++ (bodyBytes (chunksOf x) ++ [3]).flatMap (bitsOf 8)), chunksOf x,
    mus_content x cap hn h0 hcap, ?_, ?_, chunksOf_flatten x, chunksOf_full x,
    fun c hc => ⟨(hspec c hc).1, (hspec c hc).2.1⟩⟩
  · rw [List.append_assoc, List.flatMap_append]
    exact (read_preamble _).1
  · rw [decodeFraming_metadata _ _ _ _ _ _ (read_preamble _).2,
      decodeFraming_body (chunksOf x) 16 ((chunksOf x).length + 1) (by decide) (by omega) hspec]
    rfl

/-- the empty input: the one-byte stream `06` = window 16, empty last meta-block -/
theorem stored_stream_empty (cap : Nat) (hcap : 1 ≤ cap) :
    makeUncompressedStream [] 0 cap = ok [6] ∧
    ∃ r, readWbits (([6] : List Nat).flatMap (bitsOf 8)) = some (16, false, r) ∧
      decodeFraming 1 1 r = some [MetaBlock.lastEmpty] := by
  refine ⟨?_, _, rfl, by decide⟩
  simp only [makeUncompressedStream, lit, litsMus, BV.Gen.lits_MakeUncompressedStream, List.getD_cons_zero,
    List.getD_cons_succ, if_true]
  rw [push_ok _ _ _ (by simp; omega)]
  rfl

/-- non-vacuity: a 3-byte input -/
example : ∃ out r, makeUncompressedStream [1, 2, 3] 3 25 = ok out ∧
    readWbits (out.flatMap (bitsOf 8)) = some (10, false, r) ∧
    decodeFraming 3 7 r = some [MetaBlock.metadata [], MetaBlock.raw [1, 2, 3], MetaBlock.lastEmpty] := by
  obtain ⟨out, r, chunks, h1, h2, h3, h4, h5, h6⟩ :=
    stored_stream_decodes [1, 2, 3] 25 (by decide) (by decide) (by decide) (by decide)
  have hc : chunks = [[1, 2, 3]] := by
    match chunks, h4, h5, h6 with
    | [c], h4, _, _ => simp at h4; rw [h4]
    | [], h4, _, _ => simp at h4
    | c :: d :: rest, h4, h5, _ =>
      exfalso
      have l1 : c.length = 2 ^ 24 := h5.1
      have := congrArg List.length h4
      simp at this
      omega
  subst hc
  exact ⟨out, r, h1, h2, h3⟩

/-! ## the one-shot call -/

/-- `oneshot_contract`: `encoder_compress` on an input of `n = |x|` bytes with
`*encoded_size = outCap` and an output slice of at least that length, for EVERY
outcome `so` of the stream phase that stays within the caller's buffer
(`so.totalOut ≤ outCap`: the stream machine never writes more than
`available_out`):

* it does not panic;
* `outCap = 0` ⇒ it returns false;
* on success the reported size is within the buffer AND within the bound, and the
  bytes are the `[6]` stream of the empty input, the stream phase's complete
  output (which then succeeded and finished), or the stored stream;
* `outCap ≥ Max n` ⇒ it returns true;
* on failure `*encoded_size` is 0 (or the untouched 0 of the zero-capacity call). -/
theorem oneshot_contract (x : List Nat) (outCap bufLen : Nat) (so : StreamOutcome)
    (hn : x.length < 2 ^ 54) (hbuf : outCap ≤ bufLen) (hso : so.totalOut ≤ outCap) :
    ∃ r, encoderCompress x x.length outCap bufLen so = ok r ∧
      (outCap = 0 → r.ret = false) ∧
      (r.ret = true → r.encodedSize ≤ outCap ∧ r.encodedSize ≤ maxCompressedSize x.length ∧
        ((x.length = 0 ∧ r.bytes = [6] ∧ r.encodedSize = 1) ∨
         (so.result = true ∧ so.finished = true ∧ r.bytes = so.bytes ∧ r.encodedSize = so.totalOut) ∨
         (makeUncompressedStream x x.length bufLen = ok r.bytes ∧ r.encodedSize = r.bytes.length))) ∧
      (maxCompressedSize x.length ≤ outCap → r.ret = true) ∧
      (r.ret = false → r.encodedSize = 0) := by
  have hmax := max_closed x.length hn
  have hpos : 17 ≤ maxCompressedSize x.length := by
    rw [hmax]; split <;> try split
    all_goals omega
  by_cases hc0 : outCap = 0
  · have hval : encoderCompress x x.length outCap bufLen so
        = ok { ret := false, encodedSize := outCap, bytes := [], kind := "zero-cap" } := by
      simp only [encoderCompress, lit, BV.Gen.lits_encoder_compress, List.getD_cons_zero, List.getD_cons_succ,
        hc0, if_true]
    exact ⟨_, hval, fun _ => rfl, fun h => by simp at h, fun h => by omega, fun _ => hc0⟩
  · by_cases hn0 : x.length = 0
    · have hb : ¬ bufLen = 0 := by omega
      have hval : encoderCompress x x.length outCap bufLen so
          = ok { ret := true, encodedSize := 1, bytes := [6], kind := "empty" } := by
        simp only [encoderCompress, lit, BV.Gen.lits_encoder_compress, List.getD_cons_zero, List.getD_cons_succ,
          hc0, hn0, hb, if_true, if_false]
      refine ⟨_, hval, fun h => absurd h hc0, fun _ => ⟨?_, ?_, Or.inl ⟨hn0, rfl, rfl⟩⟩, fun _ => rfl,
        fun h => by simp at h⟩
      · show 1 ≤ outCap; omega
      · show 1 ≤ maxCompressedSize x.length; omega
    · have hm0 : ¬ maxCompressedSize x.length = 0 := by omega
      by_cases hfb : (!(so.result && so.finished) || (maxCompressedSize x.length ≠ 0 && decide (so.totalOut > maxCompressedSize x.length))) = true
      · by_cases hbig : outCap ≥ maxCompressedSize x.length
        · obtain ⟨out, h1, h2, _⟩ := mus_fits x bufLen hn (by omega)
          have hval : encoderCompress x x.length outCap bufLen so
              = ok { ret := true, encodedSize := out.length, bytes := out, kind := "stored" } := by
            simp only [encoderCompress, lit, BV.Gen.lits_encoder_compress, List.getD_cons_zero, List.getD_cons_succ,
              hc0, hn0, hfb, hm0, hbig, if_true, if_false, h1, Out.bind]
          refine ⟨_, hval, fun h => absurd h hc0, fun _ => ⟨?_, h2, Or.inr (Or.inr ⟨h1, rfl⟩)⟩, fun _ => rfl,
            fun h => by simp at h⟩
          show out.length ≤ outCap; omega
        · have hval : encoderCompress x x.length outCap bufLen so
              = ok { ret := false, encodedSize := 0, bytes := [], kind := "too-small" } := by
            simp only [encoderCompress, lit, BV.Gen.lits_encoder_compress, List.getD_cons_zero, List.getD_cons_succ,
              hc0, hn0, hfb, hm0, hbig, if_true, if_false]
          exact ⟨_, hval, fun _ => rfl, fun h => by simp at h, fun h => absurd h hbig, fun _ => rfl⟩
      · have hval : encoderCompress x x.length outCap bufLen so
            = ok { ret := true, encodedSize := so.totalOut, bytes := so.bytes, kind := "stream" } := by
          simp only [encoderCompress, lit, BV.Gen.lits_encoder_compress, List.getD_cons_zero, List.getD_cons_succ,
            hc0, hn0, hfb, if_false, Bool.false_eq_true]
        simp only [Bool.or_eq_true, Bool.not_eq_true', Bool.and_eq_true, decide_eq_true_eq, not_or,
          Bool.not_eq_false, not_and] at hfb
        obtain ⟨hres, hle⟩ := hfb
        have hres' : so.result = true ∧ so.finished = true := by
          cases hr : so.result <;> cases hf : so.finished <;> simp_all
        have hle' : so.totalOut ≤ maxCompressedSize x.length := by
          have := hle (by simpa using hm0)
          omega
        exact ⟨_, hval, fun h => absurd h hc0,
          fun _ => ⟨hso, hle', Or.inr (Or.inl ⟨hres'.1, hres'.2, rfl, rfl⟩)⟩, fun _ => rfl, fun h => by simp at h⟩

/-- non-vacuity: a stream phase that fails makes a sufficiently large call fall back to the stored stream -/
example : ∃ r, encoderCompress [7] 1 23 23 { result := false, finished := false, totalOut := 0, bytes := [] } = ok r ∧
    r.ret = true ∧ makeUncompressedStream [7] 1 23 = ok r.bytes := by
  obtain ⟨r, h, _, h2, h3, _⟩ := oneshot_contract [7] 23 23
    { result := false, finished := false, totalOut := 0, bytes := [] } (by decide) (by decide) (by decide)
  have hr : r.ret = true := h3 (by decide)
  obtain ⟨_, _, h4⟩ := h2 hr
  rcases h4 with ⟨h5, _⟩ | ⟨h5, _⟩ | ⟨h5, _⟩
  · simp at h5
  · simp at h5
  · exact ⟨r, h, hr, h5⟩


/-! ## the never-flushed stream at quality ≥ 2 -/

/- FULL STATEMENT (`stream_total_le_bound`), which is FALSE for the unchanged code
(defect D17, known finding `header:c08:stream-exceeds-bound:size_hint-above-u32`):

  ∀ p input st, 2 ≤ p.quality → p.sizeHint < 2^64 → input.length < 2^54 →
    streamStart true p input = ok st →
    (st.whole → st.bits.length / 8 ≤ Max |input|) ∧
    (¬ st.whole → ∀ lens Pm, Run st.bits.length lens Pm → BlocksOK st.prelude lens →
        lens.sum + st.prelude = |input| → (Pm + 2 + 7) / 8 ≤ Max |input|)

It is proved below with `p.sizeHint < 2^35` in place of `< 2^64`
(`stream_total_le_bound_partial`): that covers every value the parameter call
`set_parameter(BROTLI_PARAM_SIZE_HINT, u32)` and the C ABI can set.
`stream_bound_counterexample` is a concrete violation outside that range and
`stream_bound_sharp` shows that 2^35 is the exact threshold under `Guard` alone. -/

/-- `stream_total_le_bound_partial`: a stream produced at quality ≥ 2 without any
flush, for ANY parameters with `size_hint < 2^35` (window, large_window, catable,
appendable, use_dictionary, magic_number arbitrary) and any input shorter than
2^54: its payload-independent head (window bits, magic block, catable prelude)
followed by meta-blocks of input lengths `lens` — where the payload encoder obeys
`Guard` (a meta-block of `len` bytes advances the whole-byte position by at most
`len + 4`, `+ 5` above 2^20: the "stored when bigger than input + 4" fallback of
`WriteMetaBlockInternal`) and `BlocksOK` (every non-final meta-block covers
≥ 2^14 input bytes: nothing is emitted before an input block is full) — and
closed by the empty last meta-block is at most `BrotliEncoderMaxCompressedSize`
bytes long.  When nothing is left for the payload encoder (`whole`) the claim is
unconditional. -/
theorem stream_total_le_bound_partial (p : Params) (input : List Nat) (st : Start)
    (hq : 2 ≤ p.quality) (hh : p.sizeHint < 2 ^ 35) (hn : input.length < 2 ^ 54)
    (hs : streamStart true p input = ok st) :
    (st.whole = true → st.bits.length / 8 ≤ maxCompressedSize input.length) ∧
    (st.whole = false → ∀ lens Pm, Run st.bits.length lens Pm → BlocksOK st.prelude lens →
        lens.sum + st.prelude = input.length → (Pm + 2 + 7) / 8 ≤ maxCompressedSize input.length) :=
  stream_total_bound p input st hq hh hn hs

/-- the worst configuration inside the proved range (non-vacuity): catable, magic, large window, hint 2^35 - 1 -/
def exampleTight : Params where
  quality := 5
  lgwin := 26
  lgblock := 0
  largeWindow := true
  catable := true
  appendable := true
  useDictionary := false
  magicNumber := true
  sizeHint := 2 ^ 35 - 1

set_option maxRecDepth 8192 in
example : ∃ st, streamStart true exampleTight [1, 2, 3] = ok st ∧ st.whole = false ∧ st.prelude = 2 ∧
    st.bits.length = 8 * 18 ∧ Run (8 * 18) [1] (8 * 18 + 8 * 4) ∧ BlocksOK 2 [1] :=
  ⟨_, rfl, rfl, rfl, rfl, Run.cons (by decide) (Run.nil _), trivial⟩

/-- the parameters of the known finding: quality 2, magic number, size hint 2^63, no input -/
def exampleD17 : Params where
  quality := 2
  lgwin := 22
  lgblock := 0
  largeWindow := false
  catable := false
  appendable := false
  useDictionary := true
  magicNumber := true
  sizeHint := 2 ^ 63

set_option maxRecDepth 8192 in
/-- `stream_bound_counterexample` (defect D17): with `magic_number` and
`size_hint = 2^63` the complete stream for the empty input is 18 bytes, the
advertised bound is 17. -/
theorem stream_bound_counterexample :
    ∃ st, streamStart true exampleD17 [] = ok st ∧ st.whole = true ∧
      st.bits.length / 8 = 18 ∧ maxCompressedSize ([] : List Nat).length = 17 :=
  ⟨_, rfl, rfl, rfl, by decide⟩

/-- like `exampleTight` with the size hint 2^35 (6 base-128 bytes) -/
def exampleSharp : Params where
  quality := 5
  lgwin := 26
  lgblock := 0
  largeWindow := true
  catable := true
  appendable := true
  useDictionary := false
  magicNumber := true
  sizeHint := 2 ^ 35

set_option maxRecDepth 8192 in
/-- `stream_bound_sharp`: `2^35` is the exact threshold of the arithmetic: with
`size_hint = 2^35`, catable, magic number and large window, a 100-byte input
whose single meta-block uses what `Guard` allows ends 1 byte above the bound. -/
theorem stream_bound_sharp :
    ∃ st, streamStart true exampleSharp (List.replicate 100 0) = ok st ∧ st.whole = false ∧ st.prelude = 2 ∧
      st.bits.length = 8 * 19 ∧
      Run (8 * 19) [98] (8 * 19 + 8 * (98 + 4) + 7) ∧ BlocksOK 2 [98] ∧ 98 + 2 = 100 ∧
      (8 * 19 + 8 * (98 + 4) + 7 + 2 + 7) / 8 = 123 ∧ maxCompressedSize 100 = 122 :=
  ⟨_, rfl, rfl, rfl, rfl, Run.cons (by decide) (Run.nil _), trivial, rfl, by decide, by decide⟩


/-! ## round 2: `Guard` proved, `BlocksOK` derived from the stream machine's control skeleton -/

/-- `guard_holds`: the size decision of `WriteMetaBlockInternal` (model
`BV.Stored.writeMetaBlockInternal`: early `should_compress` branch, compressed attempt,
"`bytes + 4 + saved_byte_location < storage_ix >> 3` ⇒ rewind and store uncompressed", the
separate empty last block of appendable streams).  For EVERY verdict of `should_compress` and
EVERY bit string the compressed attempt may have appended: on a meta-block of 1‥2^24 bytes,
started below bit 256 of the staging storage (so that the `storage_ix as u8` of the rewind is
exact), the call does not panic, `Guard` holds of the data-carrying block, and what follows it is
at most the 2-bit empty last block with its padding. -/
theorem guard_holds (appendable catable actualIsLast : Bool) (data : List Nat) (o : MbOracle) (w : Writer)
    (hcat : catable = true → appendable = true)
    (h1 : 1 ≤ data.length) (h2 : data.length ≤ 2 ^ 24) (hw : w.length < 256) :
    ∃ r, writeMetaBlockInternal appendable catable actualIsLast data o w = ok r ∧
      Guard w.length data.length r.body.length ∧ w.length ≤ r.body.length ∧
      r.body.length ≤ r.fin.length ∧ r.fin.length ≤ (r.body.length + 2 + 7) / 8 * 8 := by
  obtain ⟨r, h, g1, g2, g3, g4, _⟩ := wmbi_guard appendable catable actualIsLast data o w hcat h1 h2 hw
  exact ⟨r, h, g1, g2, g3, g4⟩

/-- the literal `4` of the fallback test and the two `>> 3` are the ones of the Rust source -/
theorem guard_literals : lit litsWmbi 17 = 4 ∧ lit litsWmbi 8 = 3 ∧ lit litsWmbi 18 = 3 := by decide

/-- non-vacuity of `guard_holds`: an attempt of 100 one-bits on a 3-byte block is replaced by the
stored representation (4 header bytes incl. the 7 carry bits, 3 payload bytes) -/
example : ∃ r, writeMetaBlockInternal false false false [1, 2, 3] { shouldCompress := true, attempt := List.replicate 100 true }
      (List.replicate 7 true) = ok r ∧ r.body.length = 8 * 7 ∧ r.fin = r.body := ⟨_, rfl, rfl, rfl⟩

/-- the stream head is below bit 256: the precondition of `guard_holds` for the first
invocation (later ones start from at most 7 carry bits) -/
theorem head_below_256 (p : Params) (input : List Nat) (st : Start) (hq : 2 ≤ p.quality)
    (hh : p.sizeHint < 2 ^ 64) (hs : streamStart true p input = ok st) (hw : st.whole = false) :
    st.bits.length < 256 := by
  obtain ⟨s1, s2, s3⟩ := streamStart_length p input st hq hh hs
  obtain ⟨w1, _⟩ := lastBytesBits_le p
  have hk := (encodeBase128_spec (effectiveParams p input.length).sizeHint
    (effective_sizeHint_lt p input.length hh) []).2.2.1
  have hpre : st.prelude ≤ 2 := by rw [s1]; split <;> omega
  have hne : ¬ input.length = st.prelude := by
    intro h; have := s2.mpr h; rw [hw] at this; exact Bool.false_ne_true this
  simp only [hne, if_false] at s3
  rw [s3]
  exact headLen_lt_256 _ _ _ _ w1 hk hpre

/-- `stream_total_le_bound_modelled`: the stream bound with `Guard` discharged.  A stream
produced at quality ≥ 2 without any flush, any parameters with `size_hint < 2^35`: head, then
meta-blocks written by `WriteMetaBlockInternal` with ARBITRARY payload-coder choices
(`RunW`: each step is the model applied to a staging storage that continues the bit position),
then the empty last block — at most `BrotliEncoderMaxCompressedSize` bytes.  Remaining
hypotheses: the meta-block lengths are 1‥2^24 (`MaxMetablockSize`), they add up to the input,
and `BlocksOK` (per invocation: `nonfinal_metablock_covers_block` below). -/
theorem stream_total_le_bound_modelled (p : Params) (input : List Nat) (st : Start)
    (hq : 2 ≤ p.quality) (hh : p.sizeHint < 2 ^ 35) (hn : input.length < 2 ^ 54)
    (hs : streamStart true p input = ok st) (hw : st.whole = false)
    (steps : List (List Nat × MbOracle × Bool)) (Pm : Nat)
    (hrun : RunW (p.appendable || p.catable) p.catable st.bits.length steps Pm)
    (hlen : ∀ s ∈ steps, 1 ≤ s.1.length ∧ s.1.length ≤ 2 ^ 24)
    (hblocks : BlocksOK st.prelude (steps.map (·.1.length)))
    (hsum : (steps.map (·.1.length)).sum + st.prelude = input.length) :
    (Pm + 2 + 7) / 8 ≤ maxCompressedSize input.length := by
  have hcat : p.catable = true → (p.appendable || p.catable) = true := by intro h; simp [h]
  exact (stream_total_bound p input st hq hh hn hs).2 hw _ _ (runW_run hcat hrun hlen) hblocks hsum

set_option maxRecDepth 16384 in
/-- non-vacuity: a `RunW` of one 1-byte meta-block behind the head of `exampleTight` -/
example : ∃ st, streamStart true exampleTight [1, 2, 3] = ok st ∧
    RunW true true st.bits.length [([3], { shouldCompress := false, attempt := [] }, true)] (8 * 18 + 8 * 4) := by
  refine ⟨_, rfl, ?_⟩
  exact RunW.cons (D := 18) (w := []) rfl (by decide) rfl (RunW.nil _)

/-- `nonfinal_metablock_covers_block` (from w-stream's model of `compress_stream`): in the main
loop, for PROCESS and FINISH (no FLUSH, no metadata), a payload-encoder invocation that is not the
last one has `force_flush = false`, sees exactly one full input block (`hi - lo = 2^lgblock`) and
the meta-block `[lf, hi)` it may close contains that block.  With `block_size_ge_2_14` this is
`BlocksOK` for every non-final meta-block: its length plus the (at most 2, first block only)
prelude bytes taken from its front is ≥ 2^14. -/
theorem nonfinal_metablock_covers_block {o : BV.Stream.Oracle} {op : Nat} {s s' : BV.Stream.St}
    {io io' : BV.Stream.Io} {c : BV.Stream.Ctl} (hI : BV.Stream.Inv s) (hop : op = 0 ∨ op = 2)
    (h : BV.Stream.slowStep o op s io = .ok (s', io', c)) :
    io'.reqs = io.reqs ∨
    ∃ req, io'.reqs = io.reqs ++ [req] ∧ req.site = 0 ∧ req.forceFlush = false ∧
      req.lo = s.lastProcessedPos ∧ req.hi = s.inputPos ∧ req.lf = s.lastFlushPos ∧ req.lf ≤ req.lo ∧
      (req.isLast = false → req.hi - req.lo = s.blockSize ∧ s.blockSize ≤ req.hi - req.lf) :=
  BV.StreamBlocks.slowStep_nonfinal_request_full_block hI hop h

/-- at quality ≥ 2 the input block is at least 2^14 bytes (after `ensure_initialized`) -/
theorem block_size_ge_2_14 (s : BV.Stream.St) (hni : s.isInitialized = false)
    (hq : ¬ ((BV.Stream.ensureInitialized s).params.quality = 0 ∨ (BV.Stream.ensureInitialized s).params.quality = 1)) :
    2 ^ 14 ≤ (BV.Stream.ensureInitialized s).blockSize :=
  BV.StreamBlocks.blockSize_ge s hni hq

/-- the same fact on THIS model, whose literals are regenerated from `ComputeLgBlock` and which the
harness compares with the code's `params.lgblock` after initialisation on the whole
quality × lgwin × requested-lgblock grid (`header lgblock` lines): at quality ≥ 2 the input block
is 2^14 ‥ 2^24 bytes, whatever `lgwin` and whatever `lgblock` was requested -/
theorem header_lgblock_ge_14 (p : Params) (hq : 2 ≤ p.quality) :
    14 ≤ (ensureInitialized true p).params.lgblock ∧ (ensureInitialized true p).params.lgblock ≤ 24 := by
  have hs := sanitize_quality true p
  have hw := sanitized_lgwin_range p
  simp only [ensureInitialized, computeLgBlock, lit, litsLgb, BV.Gen.lits_ComputeLgBlock, List.getD_cons_zero,
    List.getD_cons_succ]
  rw [hs]
  generalize (sanitizeParams true p).lgwin = w at *
  generalize (sanitizeParams true p).lgblock = b at *
  split
  · omega
  · split
    · omega
    · split
      · split <;> omega
      · omega

/-- the two hand-written mirrors of `ComputeLgBlock` (this model; the stream machine's model used
by `block_size_ge_2_14`) are the same function -/
theorem lgblock_models_agree (sp : BV.Stream.Params) (hp : Params)
    (h1 : hp.quality = sp.quality) (h2 : hp.lgwin = sp.lgwin) (h3 : hp.lgblock = sp.lgblock) :
    computeLgBlock hp = BV.Stream.computeLgBlock sp := by
  simp only [computeLgBlock, BV.Stream.computeLgBlock, lit, litsLgb, BV.Gen.lits_ComputeLgBlock, List.getD_cons_zero,
    List.getD_cons_succ, h1, h2, h3]
  rfl

/-- lengths that each (but the last) cover 2^14 bytes, the first counted with the prelude, are `BlocksOK` -/
theorem blocks_ok_of_cover (lens : List Nat) (extra : Nat)
    (h : ∀ i, i + 1 < lens.length → 2 ^ 14 ≤ lens.getD i 0 + (if i = 0 then extra else 0)) :
    BlocksOK extra lens :=
  BV.StreamBlocks.blocksOK_of_cover lens extra h

/-
RUN LEVEL: see `BV/Props/C08Run.lean`.  The stream model now has a run-level object
(`BV/Model/StreamRun.lean`: `run` over a list of calls with the concatenated requests and closed flags);
`BlocksOK` is derived from it for whole histories (`nonfinal_requests_cover_blocks_run`), the one-shot
clause is stated over it (`oneshot_run_contract`).  The structure of a never-flushed run is one theorem
(`never_flushed_run_structure`); the SUM over a run is `stream_total_le_bound_run` (growth bound per
meta-block as the only payload hypothesis).
The two models of the head (`BV.Header.streamStart`, `BV.Stream.encMagic/encPrelude`) are tied
to the same code by their correspondence runs, not to each other by a theorem.
-/

end BV.Props.C08
