/-
C01E2E — the payload model of `encode_data` for quality 2/3 (BV/Model/E2E.lean `encodeDataPayload`: hasher setup,
StitchToPreviousBlock, extend_last_command, CreateBackwardReferences, the emit decision, the last_insert_len merge,
WriteMetaBlockInternal with its stored fallback and distance-cache rollback) — a CONCRETE instance of the oracle of the
stream machine — round-trips through the RFC 7932 reader.

Property theorems only.  The chain composed here: BV.Props.C01Chain.commands_lockstep_basic (CreateBackwardReferences over
the BasicHasher models, nothing assumed of the hasher) → BV.Props.C01MetaBlock.fast/trivial_metablock_roundtrip (the
writers) → BV.MetaBlock.wmbi_reads (WriteMetaBlockInternal's size decision incl. the stored fallback).

Proved: `payload_single_roundtrip` — ONE `encode_data` invocation that covers ONE whole meta-block (no commands pending
from an earlier invocation, forced by FLUSH / FINISH): for every verdict of should_compress the bits it appends are
read by the RFC reader, from the decoder state (history, the encoder's distance cache), to history ++ block.
Full statement (not proved here, see the note at the end): for every call history at quality 2/3 the delivered stream
decodes to the input (`C01_roundtrip_q23`).
-/
import BV.Lemmas.E2EBasic

namespace BV.Props.C01E2E
open BV.Hasher BV.MatchFinder BV.Recoder BV.PrefixArith BV.MetaBlock BV.Cbr BV.E2E BV.Bits BV.Props.C01Chain

/-- the meta-block bytes `WriteMetaBlockInternal` reads from the ring slice are the block, and the list view of the slice
holds them (`RingHolds`), given the ring hypothesis of `BlockOK` -/
theorem mbBytes_of_blockOK {p : Cbr.Params} {large : Bool} {data : ByteArray} {k tail : Nat} {hist mb : Bytes} {lo : Nat}
    (hb : BlockOK p large data k tail hist mb lo) {mb' : Bytes}
    (h : mbBytes data (2 ^ k - 1) hist.length mb.length = .ok mb') :
    mb' = mb ∧ RingHolds (ringList data) (2 ^ k - 1) hist.length mb ∧ ∀ b ∈ mb, b < 256 := by
  obtain ⟨hl, hj⟩ := mbBytes_spec data (2 ^ k - 1) mb.length hist.length mb' h
  have hval : ∀ j, j < mb.length → mb'.getD j 0 = mb.getD j 0 ∧ mb'.getD j 0 < 256 := by
    intro j hjl
    have h1 := hj j hjl
    rw [Nat.and_two_pow_sub_one_eq_mod] at h1
    have h2 := hb.ring.holds (hist.length + j) (by have := hb.lo_le; omega) (by omega)
    unfold byteAt at h1
    split at h1
    · simp only [Option.some.injEq] at h1
      have h3 : (hist ++ mb).getD (hist.length + j) 0 = mb.getD j 0 := by
        rw [List.getD_eq_getElem?_getD, List.getD_eq_getElem?_getD, List.getElem?_append_right (by omega)]
        congr 2; omega
      refine ⟨?_, ?_⟩
      · rw [← h1, ← h3, ← h2]; rfl
      · rw [← h1]; exact UInt8.toNat_lt _
    · cases h1
  have heq : mb' = mb := by
    apply List.ext_getElem hl
    intro j h1 h2
    have := (hval j h2).1
    rw [List.getD_eq_getElem?_getD, List.getD_eq_getElem?_getD, List.getElem?_eq_getElem h1, List.getElem?_eq_getElem h2] at this
    simpa using this
  subst heq
  refine ⟨rfl, ?_, ?_⟩
  · intro j hjl
    have h1 := hj j hjl
    have hp : posOf hist.length j = hist.length + j := by
      unfold posOf
      exact Nat.mod_eq_of_lt (by have := hb.total; unfold MetaBlock.two64; omega)
    rw [hp]
    exact ringList_getAt h1
  · intro b hbm
    obtain ⟨j, hjl, rfl⟩ := List.getElem_of_mem hbm
    have := (hval j hjl).2
    rw [List.getD_eq_getElem?_getD, List.getElem?_eq_getElem hjl] at this
    simpa using this

/-- the core, for whichever BasicHasher kind `ChooseHasher` picked -/
theorem payload_single_core (e : EParams) (P : BasicP) (cells : Nat) (kindDict : Bool)
    (hch : chooseHasher e.quality = some (P, cells, kindDict))
    (wo : WordOracle) (dict : ByteArray → Nat → Option (List DictItem)) (data : ByteArray) (k tail : Nat) (hk : k ≤ 32)
    (hist mb : Bytes) (lo : Nat) (hb : BlockOK e.cbr e.large data k tail hist mb lo)
    (hsize : 2 ^ k ≤ data.size) (hmbk : mb.length ≤ 2 ^ k)
    (hd : DictFaithful wo (if e.useDict then dict else fun _ _ => none) data)
    (ps : PSt) (hcm : ps.cmds = []) (hli : ps.lastInsertLen = 0)
    (hc : CacheI32 ps.distCache) (hcl : 4 ≤ ps.distCache.length)
    (lp lf ip : Nat) (hlf : lf = hist.length) (hlp : lp = hist.length) (hip : ip = hist.length + mb.length)
    (hsmall : ip < 2 ^ 30) (h1 : 1 ≤ mb.length) (hcat : e.catable = true → e.appendable = true)
    (isLast forceFlush verdict : Bool) (hforce : isLast = true ∨ forceFlush = true)
    (w : List Bool) (hw : w.length < 256) (r : Res)
    (h : encodeDataPayload e dict data (2 ^ k - 1) lp lf ip isLast forceFlush verdict ps w = .ok r) :
    ∃ bits s'', r.w = w ++ bits ∧ r.emit = true ∧ r.wrote = true ∧ s''.out = hist ++ mb ∧
      (isLast = true → ∀ rest f, readMetaBlocks wo (maxBackwardLimit e.cbr) e.large (f + 2) w.length
          ⟨hist, ps.distCache.take 4⟩ (bits ++ rest) = some (s'', rest)) ∧
      (isLast = false → ReadsTo wo (maxBackwardLimit e.cbr) e.large w.length ⟨hist, ps.distCache.take 4⟩ bits false
          (w.length + bits.length) s'') := by
  have hU : U32 = 4294967296 := rfl
  have hlen24 := hb.len
  have hbytes : (ip - lp) % U32 = mb.length := by
    rw [hip, hlp, Nat.add_sub_cancel_left]; exact Nat.mod_eq_of_lt (by omega)
  have hlenmb : (ip - lf) % U32 = mb.length := by
    rw [hip, hlf, Nat.add_sub_cancel_left]; exact Nat.mod_eq_of_lt (by omega)
  have hwlp : wrapPosition lp = hist.length := by rw [hlp]; exact wrapPosition_small (by omega)
  have hwlf : wrapPosition lf = hist.length := by rw [hlf]; exact wrapPosition_small (by omega)
  have hwip : ¬ wrapPosition ip < wrapPosition lp := by
    rw [hwlp, wrapPosition_small hsmall]; omega
  unfold encodeDataPayload at h
  rw [hch] at h
  simp only [hbytes, hwlp] at h
  cases hio : initOrStitch P cells data (2 ^ k - 1) ps.hasher hist.length mb.length with
  | none => rw [hio] at h; cases h
  | some h0 =>
    obtain ⟨b0, c0⟩ := h0
    rw [hio] at h
    simp only [hcm, hli, List.length_nil, ne_eq, not_true_eq_false, false_and, if_false, Nat.sub_zero, Nat.add_zero,
      List.nil_append] at h
    cases hcbr : createBackwardReferences
        (basicOps P kindDict e.lbs (if e.useDict = true then dict else fun _ _ => none) data (2 ^ k - 1)) e.cbr mb.length
        hist.length (b0, c0) ps.distCache 0 ps.numLiterals with
    | none => rw [hcbr] at h; cases h
    | some r0 =>
      rw [hcbr] at h
      obtain ⟨hok, hlock, hrep⟩ := commands_lockstep_basic P kindDict e.lbs e.cbr e.large wo data k tail hk hist mb lo hb
        (if e.useDict = true then dict else fun _ _ => none) hd mb.length hist.length b0 c0 ps.distCache 0 ps.numLiterals r0
        (by omega) (by omega) hc hcl hcbr
      have hdec : ¬ ((!isLast) = true ∧ (!forceFlush) = true ∧
          (!decide (e.quality < 4 ∧ r0.numLiterals + r0.cmds.length ≥ 0x2fff)) = true ∧
          decide (ip - lf + 1 <<< e.lgblock ≤ maxMetablockSize e) = true ∧
          r0.numLiterals < maxMetablockSize e / 8 ∧ r0.cmds.length < maxMetablockSize e / 8) := by
        rcases hforce with hf | hf <;> simp [hf]
      simp only [] at h
      rw [if_neg hdec] at h
      unfold writePart at h
      simp only [hlenmb, hwlf] at h
      rw [if_neg (by intro hh; have := hh.2; omega)] at h
      cases hmbB : mbBytes data (2 ^ k - 1) hist.length mb.length with
      | panic => rw [hmbB] at h; cases h
      | fuel => rw [hmbB] at h; cases h
      | ok mb' =>
        rw [hmbB] at h
        obtain ⟨rfl, hRH, h256⟩ := mbBytes_of_blockOK hb hmbB
        have hpos2 : 0 < 2 ^ k := Nat.pow_pos (by decide)
        have hIP : inputPairCheck (ringList data) hist.length mb'.length (2 ^ k - 1) = .ok () :=
          inputPairCheck_ok' _ _ _ _ (by rw [ringList_length]; omega) (by omega)
        have hst : hist.length < 2 ^ 64 := by have := hb.total; omega
        -- the decoder state before, and what the attempt (if made) is read to
        have hmain : ∀ att : List Bool,
            (verdict = true → ∃ out ring', out = hist ++ mb' ∧ ∀ rest,
              readMetaBlockFull wo (maxBackwardLimit e.cbr) e.large w.length ⟨hist, ps.distCache.take 4⟩ (att ++ rest)
                = some (⟨out, ring'⟩, (if e.appendable then false else isLast), (w ++ att).length, rest)) →
            ∃ ro bits s'', BV.Stored.writeMetaBlockInternal e.appendable e.catable isLast mb' ⟨verdict, att⟩ w = .ok ro ∧
              ro.fin = w ++ bits ∧ s''.out = hist ++ mb' ∧
              (isLast = true → ∀ rest f, readMetaBlocks wo (maxBackwardLimit e.cbr) e.large (f + 2) w.length
                ⟨hist, ps.distCache.take 4⟩ (bits ++ rest) = some (s'', rest)) ∧
              (isLast = false → ReadsTo wo (maxBackwardLimit e.cbr) e.large w.length ⟨hist, ps.distCache.take 4⟩ bits false
                (w.length + bits.length) s'') := by
          intro att hatt
          by_cases hv : verdict = true
          · obtain ⟨out, ring', ho, hrd⟩ := hatt hv
            exact wmbi_reads wo (maxBackwardLimit e.cbr) e.large e.appendable e.catable isLast mb' ⟨verdict, att⟩ w
              ⟨hist, ps.distCache.take 4⟩ ⟨out, ring'⟩ hcat h1 hlen24 hw h256 ho
              (fun _ => by intro rest; rw [hrd rest, List.length_append])
          · exact wmbi_reads wo (maxBackwardLimit e.cbr) e.large e.appendable e.catable isLast mb' ⟨verdict, att⟩ w
              ⟨hist, ps.distCache.take 4⟩ ⟨hist ++ mb', ps.distCache.take 4⟩ hcat h1 hlen24 hw h256 rfl
              (fun hv' => absurd hv' hv)
        have hne : ¬ mb'.length = 0 := by omega
        cases verdict with
        | false =>
          simp only [Bool.not_false, or_true, if_true] at h
          obtain ⟨ro, bits, s'', e1, e2, e3, e4, e5⟩ := hmain [] (fun hv => by cases hv)
          rw [e1] at h
          simp only [] at h
          rw [if_neg hwip] at h
          simp only [Out.ok.injEq] at h
          subst h
          exact ⟨bits, s'', e2, rfl, rfl, e3, e4, e5⟩
        | true =>
          simp only [hne, Bool.not_true, Bool.false_eq_true, or_self, if_false] at h
          by_cases hq2 : e.quality ≤ 2
          · obtain ⟨att, out, ring', ew, _, hrd, hout⟩ := BV.Props.C01MetaBlock.fast_metablock_roundtrip wo
              (maxBackwardLimit e.cbr) e.large (ringList data) hist.length (2 ^ k - 1) mb'
              (if e.appendable then false else isLast) (closeMetaBlock r0.cmds r0.lastInsertLen) hist (ps.distCache.take 4) w
              hRH h256 h1 hlen24 hst hIP hok hlock
            have ho := hout hrep
            rw [if_pos hq2, ew] at h
            simp only [Out.bind, List.drop_left'  rfl] at h
            obtain ⟨ro, bits, s'', e1, e2, e3, e4, e5⟩ := hmain att (fun _ => ⟨out, ring', ho, hrd⟩)
            rw [e1] at h
            simp only [] at h
            rw [if_neg hwip] at h
            simp only [Out.ok.injEq] at h
            subst h
            exact ⟨bits, s'', e2, rfl, rfl, e3, e4, e5⟩
          · obtain ⟨att, out, ring', ew, _, hrd, hout⟩ := BV.Props.C01MetaBlock.trivial_metablock_roundtrip wo
              (maxBackwardLimit e.cbr) e.large (ringList data) hist.length (2 ^ k - 1) mb'
              (if e.appendable then false else isLast) (closeMetaBlock r0.cmds r0.lastInsertLen) hist (ps.distCache.take 4) w
              hRH h256 h1 hlen24 hst hIP hok hlock
            have ho := hout hrep
            rw [if_neg hq2, ew] at h
            simp only [Out.bind, List.drop_left' rfl] at h
            obtain ⟨ro, bits, s'', e1, e2, e3, e4, e5⟩ := hmain att (fun _ => ⟨out, ring', ho, hrd⟩)
            rw [e1] at h
            simp only [] at h
            rw [if_neg hwip] at h
            simp only [Out.ok.injEq] at h
            subst h
            exact ⟨bits, s'', e2, rfl, rfl, e3, e4, e5⟩

/-- **payload_single_roundtrip** — one `encode_data` invocation at quality 2 or 3 that covers one whole meta-block:
`mb` = the bytes `[last_flush_pos_, input_pos_)`, `hist` = everything before; no commands pending from an earlier
invocation (`ps.cmds = []`, `ps.lastInsertLen = 0`: the previous invocation closed its meta-block — or this is the first),
forced by FLUSH / FINISH (`isLast ∨ forceFlush`).  For EVERY hasher table the encoder may hold (`ps.hasher`: fresh or
whatever earlier invocations left), every i32 distance cache, every verdict of `should_compress`, catable / appendable or
not: if the model returns (it has explicit panic outcomes; none is assumed away), then it emitted (`emit`, `wrote`), the
storage is `w ++ bits`, and the RFC 7932 reader started in the decoder state `(hist, dist_cache_[..4])` reads `bits` —
as the end of the stream when `is_last` (incl. the separate empty last meta-block of appendable streams), as one
non-last meta-block otherwise — to a state whose output is `hist ++ mb`.
Hypotheses: `BlockOK` (C01Chain: the ring slice holds the text — w-stream's `RingViewW`, proved from `RingOK` —, window and
length bounds), the slice is at least one ring long, positions below 2^30 (`WrapPosition` is the identity), the
dictionary slots are faithful to the decoder's word oracle (`DictFaithful`, vacuous with the dictionary off), at most
255 bits already in the storage (stream header + carry, C08). -/
theorem payload_single_roundtrip (e : EParams) (hq : e.quality = 2 ∨ e.quality = 3)
    (wo : WordOracle) (dict : ByteArray → Nat → Option (List DictItem)) (data : ByteArray) (k tail : Nat) (hk : k ≤ 32)
    (hist mb : Bytes) (lo : Nat) (hb : BlockOK e.cbr e.large data k tail hist mb lo)
    (hsize : 2 ^ k ≤ data.size) (hmbk : mb.length ≤ 2 ^ k)
    (hd : DictFaithful wo (if e.useDict then dict else fun _ _ => none) data)
    (ps : PSt) (hcm : ps.cmds = []) (hli : ps.lastInsertLen = 0)
    (hc : CacheI32 ps.distCache) (hcl : 4 ≤ ps.distCache.length)
    (lp lf ip : Nat) (hlf : lf = hist.length) (hlp : lp = hist.length) (hip : ip = hist.length + mb.length)
    (hsmall : ip < 2 ^ 30) (h1 : 1 ≤ mb.length) (hcat : e.catable = true → e.appendable = true)
    (isLast forceFlush verdict : Bool) (hforce : isLast = true ∨ forceFlush = true)
    (w : List Bool) (hw : w.length < 256) (r : Res)
    (h : encodeDataPayload e dict data (2 ^ k - 1) lp lf ip isLast forceFlush verdict ps w = .ok r) :
    ∃ bits s'', r.w = w ++ bits ∧ r.emit = true ∧ r.wrote = true ∧ s''.out = hist ++ mb ∧
      (isLast = true → ∀ rest f, readMetaBlocks wo (maxBackwardLimit e.cbr) e.large (f + 2) w.length
          ⟨hist, ps.distCache.take 4⟩ (bits ++ rest) = some (s'', rest)) ∧
      (isLast = false → ReadsTo wo (maxBackwardLimit e.cbr) e.large w.length ⟨hist, ps.distCache.take 4⟩ bits false
          (w.length + bits.length) s'') := by
  rcases hq with hq | hq
  · exact payload_single_core e H2 65537 true (by simp [chooseHasher, hq]) wo dict data k tail hk hist mb lo hb hsize hmbk hd
      ps hcm hli hc hcl lp lf ip hlf hlp hip hsmall h1 hcat isLast forceFlush verdict hforce w hw r h
  · exact payload_single_core e H3 65538 false (by simp [chooseHasher, hq]) wo dict data k tail hk hist mb lo hb hsize hmbk hd
      ps hcm hli hc hcl lp lf ip hlf hlp hip hsmall h1 hcat isLast forceFlush verdict hforce w hw r h

/-! non-vacuity: the 32-byte first-lap ring of `BV.Cbr.Example` (C01Chain's example), quality 2, FINISH: every hypothesis
holds -/
def exE : EParams := ⟨2, 10, 14, false, false, false, false, 540⟩

example : BlockOK exE.cbr exE.large BV.Cbr.Example.data 6 32 [] BV.Cbr.Example.text 0 ∧
    2 ^ 6 ≤ BV.Cbr.Example.data.size ∧ BV.Cbr.Example.text.length ≤ 2 ^ 6 ∧
    DictFaithful (fun _ _ _ => none) (if exE.useDict then (fun _ _ => none) else fun _ _ => none) BV.Cbr.Example.data ∧
    CacheI32 ({} : PSt).distCache ∧ 4 ≤ ({} : PSt).distCache.length :=
  ⟨⟨rfl, rfl, BV.Cbr.Example.ring_ok, by decide, by decide, by decide, by decide, fun _ => by decide, fun _ => by decide,
      by decide, by decide⟩, by decide, by decide, by simpa [exE] using dictFaithful_none _ _,
    by intro x hx; simp [PSt.distCache] at hx; rcases hx with rfl | rfl | rfl | rfl <;> decide, by decide⟩

/- On this instance `encodeDataPayload exE (fun _ _ => none) Example.data 63 0 0 32 true false true {} []` evaluates
(`#eval`; too large for kernel `decide`: the 65537-cell H2 table) to `.ok` with `emit = wrote = stored = true` and 288 bits:
the incompressible block ends up stored through the size fallback.  Every correspondence line of the `e2e` stage is a
further instance on which the model returns. -/

/-
STATUS of the whole-history statement `C01_roundtrip_q23` (for every call history at quality 2/3 the delivered stream
decodes to the input, with no payload hypothesis): NOT proved.  What is missing, in order:
1. the decoder's distance ring after the block equals `dist_cache_[..4]` after the invocation (the ring state `s''.ring`
   is existentially quantified above; inside `cbr_lockstep` the equality holds after every command — `Sync` — but it is not
   exported, and for the stored outcome it is the rollback `saved_dist_cache_`);
2. meta-blocks that span several invocations (`emit = false`, then `extend_last_command` and a second
   CreateBackwardReferences over the same command list): `commands_lockstep` is stated for one call per meta-block;
3. the induction over the log of `delivered_is_framed_concat` with the payload state threaded through (`stepLoop`) and
   `RingOK` at every `encode_data` event (`ring_buffer_faithful` is stated for the final state of a run).
The `e2e` stage exercises all three on every run (bit-exact agreement of the composed model with the real encoder, and the
real output decodes to the input).
-/

end BV.Props.C01E2E
