/-
C16 — Concatenator is total on arbitrary bytes.

"Fed any byte strings as member files under any buffer slicing, the
concatenator's stream and finish calls return a result code without panicking,
without looping forever under the more-input/more-output protocol, and without
advancing the input or output cursors beyond the buffers they were given."

Property theorems ONLY (helper lemmas: BV/Lemmas/Concat{Basic,Flush,Shift,Stream}.lean).
Model: BV/Model/Concat.lean — a line-by-line port of `src/concat/mod.rs` in which
every Rust panic site is an explicit `Outcome.panic` branch.

`Inv` (BV.Concat.Inv) is the state invariant; `Started s` says that the caller
announced a member (`new_brotli_file`) before streaming into a fresh `new()`
instance — the "member files" protocol of the property.  Without it the
implementation DOES panic: see `stream_before_new_brotli_file_panics`.
-/
import BV.Lemmas.ConcatStream
import BV.Lemmas.ConcatSerial

namespace BV.Props.C16
open BV.Concat BV.Concat.Outcome

/-! ## the invariant holds initially and is preserved on arbitrary bytes -/

theorem inv_new : Inv State.new ∧ ¬ Started State.new ∧ Started (newBrotliFile State.new) := by
  refine ⟨⟨by decide, by decide, fun _ => ⟨rfl, rfl⟩, fun h => by simp [State.new] at h,
    fun h => by simp [State.new] at h, fun d hd => by simp [State.new] at hd⟩, ?_, fun _ => rfl⟩
  intro h
  have := h rfl
  simp [State.new] at this

/-- `new_with_window_size w` succeeds for every `w ≥ 10` (the branches `> 24`, `16`,
`18..24`, `10..15`, `17`), the result satisfies the invariant and needs no `Started`;
`window_size` carries `LARGE_WINDOW_FLAG` (bit 7) exactly when `w > 24` -/
theorem inv_new_with_window_size (w : Nat) (h : 10 ≤ w) (h8 : w < 256) :
    ∃ s, State.newWithWindowSize w = ok s ∧ Inv s ∧ Started s ∧
      s.window_size = (w ||| (if w > 24 then LARGE_WINDOW_FLAG else 0)) ∧ s.window_size ≠ 0 := by
  have hws : (w ||| (if w > 24 then LARGE_WINDOW_FLAG else 0)) ≠ 0 := by
    have := @Nat.left_le_or w (if w > 24 then LARGE_WINDOW_FLAG else 0)
    omega
  have mk : ∀ (lb : Nat × Nat) (len : Nat), len ≤ 2 →
      Inv { last_bytes := lb, last_bytes_len := len, last_byte_bit_offset := 0,
            last_byte_sanitized := false, any_bytes_emitted := false,
            new_stream_pending := none,
            window_size := w ||| (if w > 24 then LARGE_WINDOW_FLAG else 0) } ∧
      Started { last_bytes := lb, last_bytes_len := len, last_byte_bit_offset := 0,
                last_byte_sanitized := false, any_bytes_emitted := false,
                new_stream_pending := none,
                window_size := w ||| (if w > 24 then LARGE_WINDOW_FLAG else 0) } := by
    intro lb len hl
    exact ⟨⟨hl, (by show 0 < 8; omega), fun e => absurd e hws, fun e => (by simp at e), fun e => (by simp at e),
      fun d hd => (by simp at hd)⟩,
      fun e => absurd e hws⟩
  unfold State.newWithWindowSize
  dsimp only
  by_cases c1 : w > 24
  · rw [if_pos c1]; exact ⟨_, rfl, (mk _ 2 (by omega)).1, (mk _ 2 (by omega)).2, rfl, hws⟩
  rw [if_neg c1]
  by_cases c2 : w = 16
  · rw [if_pos c2]; exact ⟨_, rfl, (mk _ 1 (by omega)).1, (mk _ 1 (by omega)).2, rfl, hws⟩
  rw [if_neg c2]
  by_cases c3 : w > 17
  · rw [if_pos c3, if_neg (by omega), if_neg (by omega)]
    exact ⟨_, rfl, (mk _ 1 (by omega)).1, (mk _ 1 (by omega)).2, rfl, hws⟩
  rw [if_neg c3]
  have : w = 15 ∨ w = 14 ∨ w = 13 ∨ w = 12 ∨ w = 11 ∨ w = 10 ∨ w = 17 := by omega
  rcases this with rfl | rfl | rfl | rfl | rfl | rfl | rfl <;>
    exact ⟨_, rfl, (mk _ 2 (by omega)).1, (mk _ 2 (by omega)).2, rfl, hws⟩

/-- every other window size hits `assert_eq!(log_window_size, 17)` -/
theorem new_with_window_size_rejects (w : Nat) (h : w < 10) :
    State.newWithWindowSize w = Outcome.panic .nwwsAssert17 := by
  have : w = 0 ∨ w = 1 ∨ w = 2 ∨ w = 3 ∨ w = 4 ∨ w = 5 ∨ w = 6 ∨ w = 7 ∨ w = 8 ∨ w = 9 := by omega
  rcases this with rfl | rfl | rfl | rfl | rfl | rfl | rfl | rfl | rfl | rfl <;> rfl

theorem inv_new_brotli_file (s : State) (h : Inv s) : Inv (newBrotliFile s) ∧ Started (newBrotliFile s) := by
  refine ⟨⟨h.len_le, h.off_lt, h.ws0, fun e => ⟨rfl, (h.san e).2⟩, h.tail, fun d hd => ?_⟩, fun _ => rfl⟩
  simp only [newBrotliFile, Option.some.injEq] at hd
  subst hd
  exact ⟨by decide, fun w hw => by simp [NewStreamData.new] at hw⟩

/-- `stream` on ARBITRARY input bytes and ANY output capacity preserves the invariant -/
theorem inv_stream (s : State) (inp : List Nat) (cap : Nat) (hI : Inv s) (hS : Started s)
    (r : Ret) (hr : stream s inp cap = ok r) : Inv r.st ∧ Started r.st := by
  have := stream_sat s inp cap hI hS
  rw [hr] at this
  exact ⟨this.inv, this.started⟩

/-- `finish` with ANY output capacity preserves the invariant (and `Started`) -/
theorem inv_finish (s : State) (cap : Nat) (hI : Inv s) (r : Ret) (hr : finish s cap = ok r) :
    Inv r.st ∧ (Started s → Started r.st) := by
  have := finish_sat s cap hI
  rw [hr] at this
  refine ⟨this.inv, fun hS e => ?_⟩
  rw [this.pending]; rw [this.ws] at e; exact hS e

/-! ## no panic -/

/-- under the invariant none of the panic branches of `stream` is reachable,
whatever the input bytes and the output capacity -/
theorem no_panic_stream (s : State) (inp : List Nat) (cap : Nat) (hI : Inv s) (hS : Started s) :
    ∃ r, stream s inp cap = ok r :=
  let ⟨r, hr, _⟩ := sat_iff.mp (stream_sat s inp cap hI hS); ⟨r, hr⟩

theorem no_panic_finish (s : State) (cap : Nat) (hI : Inv s) : ∃ r, finish s cap = ok r :=
  let ⟨r, hr, _⟩ := sat_iff.mp (finish_sat s cap hI); ⟨r, hr⟩

theorem no_panic (s : State) (hI : Inv s) :
    (Started s → ∀ inp cap site, stream s inp cap ≠ Outcome.panic site) ∧
    (∀ cap site, finish s cap ≠ Outcome.panic site) :=
  ⟨fun hS inp cap site => not_panic_of_sat (stream_sat s inp cap hI hS) site,
   fun cap site => not_panic_of_sat (finish_sat s cap hI) site⟩

/-- The `Started` hypothesis cannot be dropped: streaming into a fresh `new()`
instance BEFORE `new_brotli_file`, then announcing a member and streaming its
header, trips `assert_eq!(self.last_byte_bit_offset, 0)` in
`shift_and_check_new_stream_header`.  Call sequence: `new(); stream([ff 07]);
new_brotli_file(); stream([01 02 03 04 05])` (driver line
`concat 0 S:ff07:10 N S:0102030405:10` → `1:2:- - panic`; the real code panics too). -/
theorem stream_before_new_brotli_file_panics :
    (stream State.new [0xff, 0x07] 10).bind (fun r => stream (newBrotliFile r.st) [1, 2, 3, 4, 5] 10)
      = Outcome.panic .shiftAssertOffset0 := by
  decide

/-! ## cursors stay inside the buffers -/

theorem cursors_in_bounds (s : State) (hI : Inv s) :
    (Started s → ∀ inp cap r, stream s inp cap = ok r →
      r.consumed ≤ inp.length ∧ r.produced.length ≤ cap) ∧
    (∀ cap r, finish s cap = ok r → r.consumed = 0 ∧ r.produced.length ≤ cap) := by
  refine ⟨fun hS inp cap r hr => ?_, fun cap r hr => ?_⟩
  · have := stream_sat s inp cap hI hS
    rw [hr] at this
    exact ⟨this.consumed_le, this.produced_le⟩
  · have := finish_sat s cap hI
    rw [hr] at this
    exact ⟨this.consumed, this.bound⟩

/-! ## the header parsers are total on the slices they are given -/

/-- `parse_window_size` needs 2 bytes (it reads `bs[1]` only when `bs[0] = 0x11`);
`detect_varlen_offset` needs 2..8 bytes (its `u64` accumulator shift overflows from the
9th byte on).  `stream` passes 4 or 5 bytes. -/
theorem header_parsers_total (bs : List Nat) :
    (2 ≤ bs.length → ∃ r, parseWindowSize bs = ok r) ∧
    (2 ≤ bs.length → bs.length ≤ 8 → ∃ r, detectVarlenOffset bs = ok r) ∧
    (∀ b, b < 256 → b ≠ 0x11 → ∃ r, parseWindowSize [b] = ok r) := by
  refine ⟨fun h => ?_, fun h2 h8 => ?_, fun b hb hne => ?_⟩
  · obtain ⟨r, hr, _⟩ := sat_iff.mp (parseWindowSize_sat bs h); exact ⟨r, hr⟩
  · obtain ⟨r, hr, _⟩ := sat_iff.mp (detectVarlenOffset_sat bs h2 h8); exact ⟨r, hr⟩
  · obtain ⟨r, hr, _⟩ := sat_iff.mp (parseWindowSize_sat_one [b] b rfl hb hne); exact ⟨r, hr⟩

/-- accepted window sizes are in 10..30 and the window field is 1, 4, 7 or 14 bits long -/
theorem parse_window_size_range (bs : List Nat) (h : 2 ≤ bs.length) (w o : Nat)
    (hr : parseWindowSize bs = ok (some (w, o))) :
    10 ≤ w ∧ w ≤ 30 ∧ (o = 1 ∨ o = 4 ∨ o = 7 ∨ o = 14) := by
  have := parseWindowSize_sat bs h
  rw [hr] at this
  exact this w o rfl

/-- the bounds of `header_parsers_total` are sharp -/
example : parseWindowSize [] = Outcome.panic .pwsIndex0 := by decide
example : parseWindowSize [0x11] = Outcome.panic .pwsIndex1 := by decide
example : detectVarlenOffset [0, 0, 0, 0, 0, 0, 0, 0, 0] = Outcome.panic .dvoShl := by decide

/-! ## progress under the more-input / more-output protocol -/

/-- Every `stream` call ends for a reason the caller can act on: it answers
`NeedsMoreInput` having consumed ALL the input it was offered, or
`NeedsMoreOutput` having filled ALL the output room it was offered, or a terminal
error code; it never answers `Success`.  Hence a call that was offered at least one input byte and
at least one byte of room either advances a cursor or ends the run, and a
caller that supplies a non-empty resource after each request cannot livelock. -/
theorem protocol_progress (s : State) (inp : List Nat) (cap : Nat) (hI : Inv s) (hS : Started s)
    (r : Ret) (hr : stream s inp cap = ok r) :
    ((r.code = NEEDS_MORE_INPUT ∧ r.consumed = inp.length) ∨
     (r.code = NEEDS_MORE_OUTPUT ∧ r.produced.length = cap) ∨
     isTerminal r.code = true) ∧
    (inp ≠ [] → cap ≠ 0 → 1 ≤ r.consumed ∨ 1 ≤ r.produced.length ∨ isTerminal r.code = true) := by
  have h := stream_sat s inp cap hI hS
  rw [hr] at h
  have hp : (r.code = NEEDS_MORE_INPUT ∧ r.consumed = inp.length) ∨
     (r.code = NEEDS_MORE_OUTPUT ∧ r.produced.length = cap) ∨ isTerminal r.code = true := by
    rcases h.progress with p | p | p
    · exact Or.inl p
    · exact Or.inr (Or.inl p)
    · refine Or.inr (Or.inr ?_)
      rcases p with p | p | p | p <;> rw [p] <;> decide
  refine ⟨hp, fun hi hc => ?_⟩
  have : inp.length ≠ 0 := fun e => hi (List.eq_nil_of_length_eq_zero e)
  rcases hp with p | p | p
  · exact Or.inl (by omega)
  · exact Or.inr (Or.inl (by omega))
  · exact Or.inr (Or.inr p)

/-- `finish` answers `Success`, or `NeedsMoreOutput` having filled all the room it
was given; it emits at most 2 bytes in total over all calls (the tail shrinks by
what was emitted), so it succeeds after at most two retries with room ≥ 1. -/
theorem finish_progress (s : State) (cap : Nat) (hI : Inv s) (r : Ret) (hr : finish s cap = ok r) :
    (r.code = SUCCESS ∨ (r.code = NEEDS_MORE_OUTPUT ∧ r.produced.length = cap)) ∧
    r.st.last_bytes_len + r.produced.length ≤ 2 ∧
    (2 ≤ cap → r.code = SUCCESS) := by
  have h := finish_sat s cap hI
  rw [hr] at h
  refine ⟨h.code, h.total, fun hc => ?_⟩
  rcases h.code with c | c
  · exact c
  · have h1 := h.total
    have h2 := h.nmo c.1
    omega

/-! ## every reachable state, every call sequence -/

/-- every call of the sequence returns (no panic), every reached state satisfies the invariant,
no call moves a cursor past the buffer it was given -/
def SafeRun : State → List Op → Prop
  | s, [] => Inv s
  | s, op :: rest => Inv s ∧ ∃ r, applyOp s op = ok r ∧ r.consumed ≤ op.inLen ∧ r.produced.length ≤ op.room ∧
      SafeRun r.st rest

theorem safeRun_of_inv : ∀ (ops : List Op) (s : State), Inv s → (Started s ∨ announcedFirst ops = true) →
    SafeRun s ops := by
  intro ops
  induction ops with
  | nil => intro s hI _; exact hI
  | cons op rest ih =>
    intro s hI hS
    refine ⟨hI, ?_⟩
    cases op with
    | N =>
      obtain ⟨hI', hS'⟩ := inv_new_brotli_file s hI
      exact ⟨_, rfl, Nat.le_refl _, Nat.le_refl _, ih _ hI' (Or.inl hS')⟩
    | S inp cap =>
      have hSt : Started s := by
        rcases hS with h | h
        · exact h
        · simp [announcedFirst] at h
      obtain ⟨r, hr, hpost⟩ := sat_iff.mp (stream_sat s inp cap hI hSt)
      exact ⟨r, hr, hpost.consumed_le, hpost.produced_le, ih _ hpost.inv (Or.inl hpost.started)⟩
    | F cap =>
      obtain ⟨r, hr, hpost⟩ := sat_iff.mp (finish_sat s cap hI)
      refine ⟨r, hr, by rw [hpost.consumed]; exact Nat.zero_le _, hpost.bound, ih _ hpost.inv ?_⟩
      rcases hS with h | h
      · exact Or.inl (fun e => by rw [hpost.pending]; rw [hpost.ws] at e; exact h e)
      · exact Or.inr (by simpa [announcedFirst] using h)
    | Z =>
      refine ⟨⟨s, SUCCESS, 0, []⟩, by simp [applyOp, saveRestore_id s], Nat.le_refl _, Nat.le_refl _, ih _ hI ?_⟩
      rcases hS with h | h
      · exact Or.inl h
      · exact Or.inr (by simpa [announcedFirst] using h)

/-- `reachable_no_panic`.  For EVERY list of protocol operations — `N` (new_brotli_file),
`S inp cap` (stream on arbitrary bytes with arbitrary room), `F cap` (finish), `Z` (save to the
120-byte buffer and restore) — starting from `new()` with `new_brotli_file` before the first
`stream` (`announcedFirst`, decidable), or from `new_with_window_size w` for any valid `w` with no
condition at all: every call returns, the invariant holds in every state reached, and no call
advances a cursor beyond the buffer it was given. -/
theorem reachable_no_panic (ops : List Op) :
    (announcedFirst ops = true → SafeRun State.new ops) ∧
    (∀ w, 10 ≤ w → w ≤ 30 → ∃ s, State.newWithWindowSize w = ok s ∧ SafeRun s ops) := by
  refine ⟨fun h => safeRun_of_inv ops State.new inv_new.1 (Or.inr h), fun w h10 h30 => ?_⟩
  obtain ⟨s, hs, hI, hS, _⟩ := inv_new_with_window_size w h10 (by omega)
  exact ⟨s, hs, safeRun_of_inv ops s hI (Or.inl hS)⟩

/-- a concrete long sequence meets the protocol condition (save/restore and a `finish` before the
first member, two members in small slices with zero-room calls, a refused third member,
`finish` in one-byte steps) … -/
example : announcedFirst [.Z, .F 0, .N, .Z, .S [0x8b, 0x01] 0, .S [0x80, 0x03, 0x61] 1, .S [0x62, 0x63, 0x03] 100,
    .Z, .N, .S [0x3b] 0, .S [0x00, 0x00] 1, .Z, .S [0x00, 0x03] 1, .S [] 5, .N, .S [0xff, 0xff, 0xff, 0xff] 9,
    .F 0, .F 1, .Z, .F 1, .F 7] = true := by decide

/-- … and the condition cannot be dropped (`stream_before_new_brotli_file_panics`): -/
example : announcedFirst [.S [0xff, 0x07] 10, .N, .S [1, 2, 3, 4, 5] 10] = false := by decide

/-- non-vacuity: a state in the middle of a header copy satisfies the hypotheses -/
example : Inv { last_bytes := (5, 0), last_bytes_len := 1, last_byte_sanitized := true,
                any_bytes_emitted := true, last_byte_bit_offset := 3, window_size := 22,
                new_stream_pending := some ⟨⟨1, 2, 3, 4, 5⟩, 4, some 1⟩ } ∧
  Started { last_bytes := (5, 0), last_bytes_len := 1, last_byte_sanitized := true,
            any_bytes_emitted := true, last_byte_bit_offset := 3, window_size := 22,
            new_stream_pending := some ⟨⟨1, 2, 3, 4, 5⟩, 4, some 1⟩ } := by
  refine ⟨⟨by decide, by decide, fun e => by simp at e, fun _ => ⟨rfl, by decide⟩,
    fun _ _ => ⟨rfl, by decide⟩, fun d hd => ?_⟩, fun e => by simp at e⟩
  simp only [Option.some.injEq] at hd
  subst hd
  exact ⟨by decide, fun w hw => by simp at hw; subst hw; exact ⟨by decide, by decide⟩⟩

end BV.Props.C16
