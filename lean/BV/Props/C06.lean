/-
C06 — Multi-threaded output is a function of input, settings and thread count only.

Property theorems ONLY (helper lemmas: BV/Lemmas/Multi*.lean).  Model: BV/Model/Multi.lean
(`CompressMulti` with the three spawners; jobs are an oracle `jobs : index → result`),
BV/Model/Pool.lean + BV.Props.C07 for the pool's scheduling, and an abstract hasher
(`HasherModel`: `bulk` = `BulkStoreRange`) for the shared pre-built index.

PURITY HYPOTHESIS (explicit in every statement that needs it): what job `i` returns is a
function of (input, params, i, t) — in the model: two runs are described by two oracles that
agree on every index.  It stands for the determinism of the single-stream encoder
(independence of allocator history, of output-buffer slicing — C05 — and of the thread it runs
on); it is exercised by the harness (byte comparison across spawners, fresh/reused pools,
repeated runs, favor on/off), not proved.
-/
import BV.Lemmas.MultiSound
import BV.Lemmas.MultiFavor
import BV.Props.C07

namespace BV.Props.C06
open BV.Multi BV.Multi.Res BV.Lemmas.Multi

/-! ## 1. the pool hands every handle its own job's result, whatever the schedule -/

/-- the submitter program of ONE `CompressMulti` call with `t` threads on a pool:
`spawn(index 0) … spawn(index t-2)`, then the stitch loop's `join`s in index order, then
`OwnedRetriever::unwrap` -/
def callBatch (t : Nat) : List Nat × List Nat := (List.range (t - 1), List.range (t - 1))

/-- ANY history of calls on one (reused) pool — thread counts `ts`, each `≤ MAX_THREADS + 1` —
followed by dropping it obeys the caller contract of C07; hence (C07 `join_returns_own`) in
EVERY reachable state of EVERY schedule (any number of workers, spurious wake-ups included)
every `join` that has returned work id `id` returned the value of the job whose `index` was
passed to the `id`-th `spawn`; (C07 `arc_one_after_all_joined`) once all spawned jobs are
joined the input's strong count is 1, so the hand-back succeeds; (C07 `exactly_once`) every
joined job ran exactly once. -/
theorem pool_joins_own_job (workers : Nat) (ts : List Nat) (hts : ∀ t, t ∈ ts → t ≤ BV.Gen.MAX_THREADS + 1)
    (s : BV.Pool.State)
    (hr : BV.Lemmas.Pool.Reachable workers (BV.Lemmas.Pool.batchesOps 0 (ts.map callBatch) ++ [.dropPool]) s) :
    (∀ tid id v, (tid, BV.Pool.Ev.join id v) ∈ s.hist →
      (BV.Lemmas.Pool.spawnIdxs (BV.Lemmas.Pool.batchesOps 0 (ts.map callBatch) ++ [.dropPool]))[id]? = some v) ∧
    ((∀ id, id < s.curWorkId → id ∈ BV.Lemmas.Pool.joinedIds s.hist) → s.arc = 1) ∧
    (∀ id, id ∈ BV.Lemmas.Pool.joinedIds s.hist → BV.Lemmas.Pool.runCount id s.hist = 1) := by
  have hok : BV.Lemmas.Pool.BatchesOk (ts.map callBatch) := by
    intro b hb
    simp only [List.mem_map] at hb
    obtain ⟨t, ht, rfl⟩ := hb
    have := hts t ht
    exact ⟨by simp [callBatch]; omega, by simp [callBatch]⟩
  have hc := BV.Props.C07.batches_obey_contract (ts.map callBatch) hok
  exact ⟨fun tid id v h => BV.Props.C07.join_returns_own hc hr h,
    fun hall => BV.Props.C07.arc_one_after_all_joined hc hr hall,
    fun id hid => (BV.Props.C07.exactly_once hc hr id).2 hid⟩

/-- non-vacuity: a 4-thread call, then a 3-thread call on the same pool: the spawn indices by
work id are `0,1,2` then `0,1` — work id 3 (first job of the second call) carries index 0 -/
example : BV.Lemmas.Pool.spawnIdxs (BV.Lemmas.Pool.batchesOps 0 ([4, 3].map callBatch) ++ [.dropPool]) = [0, 1, 2, 0, 1] := by
  decide

/-! ## 2. the three spawners agree -/

/-- the result of `CompressMulti` depends on the job oracle only through the indices `< t` -/
theorem multi_congr (sp : Spawner) (t : Nat) (jobs1 jobs2 : Nat → JobRes) (cap : Nat)
    (h : ∀ i, i < t → jobs1 i = jobs2 i) : compressMulti sp t jobs1 cap = compressMulti sp t jobs2 cap := by
  unfold compressMulti
  by_cases ht : t = 0
  · rw [if_pos ht, if_pos ht]
  · have hlist : (List.range (t - 1)).map jobs1 = (List.range (t - 1)).map jobs2 :=
      List.map_congr_left fun i hi => h i (by simp at hi; omega)
    have hin : ∀ (is : List Nat), (∀ i, i ∈ is → i < t) → inlineSpawns jobs1 is = inlineSpawns jobs2 is := by
      intro is
      induction is with
      | nil => intro _; rfl
      | cons i is ih =>
        intro hi
        simp only [inlineSpawns, h i (hi i List.mem_cons_self)]
        rw [ih fun j hj => hi j (List.mem_cons_of_mem _ hj)]
    rw [hlist, h (t - 1) (by omega), hin _ fun i hi => by simp at hi; omega]

/-- `inline_equals_pool_equals_threads`.  For 1 ≤ t ≤ MAX_THREADS, any capacity, and two runs
whose jobs return the same values (PURITY) without panicking or spinning: the thread-per-job
spawner, the worker pool (fresh or reused, any schedule: section 1) and the inline spawner
give the same result — same `Ok(k)`/error, same bytes, input handed back. -/
theorem inline_equals_pool_equals_threads (sp1 sp2 : Spawner) (t : Nat) (jobs1 jobs2 : Nat → JobRes) (cap : Nat)
    (ht : 1 ≤ t) (ht16 : t ≤ BV.Gen.MAX_THREADS) (hpure : ∀ i, i < t → jobs1 i = jobs2 i) (hc : Clean jobs1 t) :
    compressMulti sp1 t jobs1 cap = compressMulti sp2 t jobs2 cap := by
  rw [← multi_congr sp2 t jobs1 jobs2 cap hpure]
  rw [compressMulti_clean sp1 t jobs1 cap (by omega) (fun _ => ht16) hc,
    compressMulti_clean sp2 t jobs1 cap (by omega) (fun _ => ht16) hc]
  have : joinedList sp1 t jobs1 = joinedList sp2 t jobs1 := by
    unfold joinedList
    apply List.map_congr_left
    intro r hr
    simp only [List.mem_map, List.mem_range] at hr
    obtain ⟨i, hi, rfl⟩ := hr
    have := hc i (by omega)
    cases hji : jobs1 i <;> simp_all [joined]
  rw [this]

/-- the cleanliness hypothesis is needed: with a panicking job the spawners differ
(`Err(ThreadExecError)` / a `join` that never returns / the caller's panic) -/
example : compressMulti .threads 2 (fun i => if i = 0 then .panic else .ok [0x3b]) 10 ≠
    compressMulti .pool 2 (fun i => if i = 0 then .panic else .ok [0x3b]) 10 := by decide

/-- the output as a function: whenever a call returns `Ok(k)`, the bytes are the reference
splice of the job outputs in index order (C02 `multi_ok_sound`) — a function of the job values
(hence, under PURITY, of (input, params, t)) and of nothing else the spawner or schedule could
influence. -/
theorem ok_bytes_function_of_jobs (sp1 sp2 : Spawner) (t : Nat) (jobs : Nat → JobRes) (cap : Nat)
    (r1 r2 : MultiRet) (k1 k2 : Nat)
    (h1 : compressMulti sp1 t jobs cap = ok r1) (h2 : compressMulti sp2 t jobs cap = ok r2)
    (hk1 : r1.result = .ok k1) (hk2 : r2.result = .ok k2) : r1.out = r2.out ∧ k1 = k2 := by
  obtain ⟨ht1, _, _, hrun1⟩ := compressMulti_inv h1
  obtain ⟨_, _, _, hrun2⟩ := compressMulti_inv h2
  obtain ⟨bs1, hl1, hj1, hs1, hk1', _⟩ := tailRun_ok_sound ht1 hrun1 hk1
  obtain ⟨bs2, hl2, hj2, hs2, hk2', _⟩ := tailRun_ok_sound ht1 hrun2 hk2
  have hbs : bs1 = bs2 := by
    apply List.ext_getElem (by omega)
    intro i hi1 hi2
    have e1 := hj1 i bs1[i] (List.getElem?_eq_getElem hi1)
    have e2 := hj2 i bs2[i] (List.getElem?_eq_getElem hi2)
    rw [e1] at e2
    injection e2
  subst hbs
  rw [hs1] at hs2
  injection hs2 with hs2
  exact ⟨hs2, by rw [hk1', hk2', hs2]⟩

/-! ## 3. the shared pre-built index -/

/-- `favor_cpu_equiv`.  For job `j+1` (prefix = `bnd (j+1)` bytes, quality ≥ 2, window
`lgwin ≥ 10`), over ANY hasher whose `BulkStoreRange` is additive over consecutive ranges
(C19) and reads only `overlap` bytes past the last stored position: if the job's prefix is not
truncated (`≤ 2^lgwin − 16`), the index pre-built by the favor branch (cumulative stores,
`stored_end`) EQUALS the index the job builds itself.  Hence (PURITY: the job is a function of
its hasher state too) favor on/off give the same job values and, by section 2, the same bytes. -/
theorem favor_cpu_equiv {H : Type} (M : HasherModel H) (overlap : Nat) (hA : Additive M) (hL : Local M overlap)
    (input : List Nat) (t n lgwin quality j : Nat) (hq : 2 ≤ quality) (hl : 10 ≤ lgwin)
    (hnt : bnd t n (j + 1) ≤ 2 ^ lgwin - 16) :
    (prebuilt M input t n overlap (j + 1)).1 = selfbuilt M input (bnd t n (j + 1)) lgwin quality overlap := by
  rw [prebuilt_closed M hA]
  by_cases hz : bnd t n (j + 1) = 0
  · rw [hz]; simp [selfbuilt, dictPlan]
  have hplan : dictPlan (bnd t n (j + 1)) lgwin quality = ⟨true, 0, bnd t n (j + 1)⟩ := by
    unfold dictPlan
    rw [if_neg (by omega), if_neg (by omega)]
  unfold selfbuilt
  rw [hplan]
  dsimp only
  by_cases hgt : bnd t n (j + 1) > overlap
  · rw [if_pos ⟨by omega, hgt⟩, if_pos hgt]
    dsimp only
    apply hL
    have e : bnd t n (j + 1) - overlap + overlap = bnd t n (j + 1) := by omega
    rw [e, List.drop_zero, List.take_take, Nat.min_self]
  · rw [if_neg (by omega), if_neg hgt]

/-- …and each hypothesis is needed ("iff").  Reference hasher: the list of stored
(position, byte at that position) pairs — additive and local.
(a) TRUNCATED prefix (defect D16, corrected by 6f21d9b which now discards the shared index in
this case): the shared index holds absolute positions 0,1,…, the job's own index the positions
of the kept tail, restarting at 0 with other bytes.  Evaluated on a scaled-down window
(`lgwin = 5`: 16 bytes kept of a 30-byte prefix) so that the kernel can compute it; the
arithmetic is the same for the real windows (1008 bytes kept at lgwin 10, …). -/
def posHasher : HasherModel (List (Nat × Nat)) :=
  ⟨[], fun h d lo hi => h ++ (List.range (hi - lo)).map fun k => (lo + k, d.getD (lo + k) 0)⟩

theorem posHasher_additive : Additive posHasher := by
  intro h d a b c hab hbc
  simp only [posHasher, List.append_assoc, List.append_cancel_left_eq]
  have e : c - a = (b - a) + (c - b) := by omega
  rw [e, List.range_add, List.map_append, List.map_map]
  congr 1
  apply List.map_congr_left
  intro k _
  simp only [Function.comp]
  have : a + (b - a + k) = b + k := by omega
  rw [this]

theorem posHasher_local (ov : Nat) : Local posHasher ov := by
  intro h d d' a b hd
  simp only [posHasher, List.append_cancel_left_eq]
  apply List.map_congr_left
  intro k hk
  simp only [List.mem_range] at hk
  have hi : a + k < b + ov := by omega
  have e1 : d.getD (a + k) 0 = (d.take (b + ov)).getD (a + k) 0 := by
    simp only [List.getD_eq_getElem?_getD, List.getElem?_take, if_pos hi]
  have e2 : d'.getD (a + k) 0 = (d'.take (b + ov)).getD (a + k) 0 := by
    simp only [List.getD_eq_getElem?_getD, List.getElem?_take, if_pos hi]
  rw [e1, e2, hd]

/-- non-vacuity of `favor_cpu_equiv`: the reference hasher meets both hypotheses, so for every
input, thread count and job with an untruncated prefix its shared and own index coincide -/
example (input : List Nat) (t n j : Nat) (h : bnd t n (j + 1) ≤ 2 ^ 22 - 16) :
    (prebuilt posHasher input t n 3 (j + 1)).1 = selfbuilt posHasher input (bnd t n (j + 1)) 22 5 3 :=
  favor_cpu_equiv posHasher 3 posHasher_additive (posHasher_local 3) input t n 22 5 j (by decide) (by decide) h

theorem favor_needs_untruncated :
    (prebuilt posHasher (List.range 60) 2 60 3 1).1 ≠ selfbuilt posHasher (List.range 60) (bnd 2 60 1) 5 5 3 ∧
    (dictPlan (bnd 2 60 1) 5 5) = ⟨true, 14, 16⟩ := by
  decide

/-- (b) a NON-additive `BulkStoreRange` (the sweep slot taken from the offset inside the call's
range — `StoreRangeOptBasic` before e2db94a, qualities 3–4): three jobs, the shared index is
built by two calls, the job's own by one -/
def sweepHasher : HasherModel (List (Nat × Nat)) :=
  ⟨[], fun h _ lo hi => h ++ (List.range (hi - lo)).map fun k => (lo + k, k % 2)⟩

theorem favor_needs_additive :
    (prebuilt sweepHasher (List.replicate 30 7) 3 30 3 2).1 ≠ selfbuilt sweepHasher (List.replicate 30 7) (bnd 3 30 2) 22 4 3 := by
  decide

/-- (c) Regression (defect D16b, corrected by efb0804): the per-RANGE guard of the old loop
skipped ranges not longer than the look-ahead — 5 jobs of 2 bytes, look-ahead 4: the old shared
index for job 4 is empty, the job's own index (and the current loop) hold positions 0..4 -/
theorem short_ranges_v0 :
    prebuiltV0 posHasher (List.range 10) 5 10 3 4 = [] ∧
    (prebuilt posHasher (List.range 10) 5 10 3 4).1 = selfbuilt posHasher (List.range 10) (bnd 5 10 4) 22 5 3 ∧
    selfbuilt posHasher (List.range 10) (bnd 5 10 4) 22 5 3 = [(0, 0), (1, 1), (2, 2), (3, 3), (4, 4)] := by
  decide

end BV.Props.C06
