/-
C04Run — "a completed flush makes all prior input decodable", over WHOLE HISTORIES and with the reader side
explicit.  Composes `flush_complete` (C04), `delivered_is_framed_concat` / `run_facts` and the piece
composition of C01 (`PiecesOK`, the same payload hypothesis as `C01_roundtrip_run`).

Specification side, written here from RFC 7932 §9.2 on top of the independent meta-block reader
`BV.MetaBlock.readMetaBlockFull` (itself on `BV.HeaderSpec.readMetaBlock`), nothing of the encoder model:
* `readPrefix` / `readStreamPrefix` — a STREAMING reader: it consumes whole meta-blocks while bits are
  available and answers `done` (ISLAST seen), `needMore out` (the bits end exactly at a meta-block boundary
  without ISLAST: the content so far, "give me more input") or `stuck` (malformed, or cut inside a
  meta-block — this reader does not tell those two apart);
* `Blocks` — "these bits are a sequence of complete, non-last meta-blocks taking reader state `s` to `s'`";
* `DecRd` — the decode relation of C01's `PiecesOK` INSTANTIATED with that reader: context aware (the
  reader state reached from the start of the stream, incl. the distance ring), compositional
  (`decRd_nil`, `decRd_append` are proved, not assumed).

What is proved: after any history on a fresh encoder whose last FLUSH has completed (`Flushed`, which
`flush_complete` establishes), the delivered BYTES are exactly `header ++ pieces` (nothing pending, no carry
bits: byte aligned, ending at a meta-block boundary), and — if every piece decodes to its range (`PiecesOK`) —
the streaming reader fed exactly those bytes yields every input byte supplied so far and asks for more input:
no error, no need for the missing ISLAST (`flush_prefix_decodes_run`, `flush_prefix_read_by_stream_reader`).
Sync padding blocks are read by that very reader as empty metadata at the alignment the encoder leaves
(`sync_block_read_by_stream_reader`), and metadata / padding events never change what is yielded
(`metadata_does_not_change_yield`).
-/
import BV.Props.C04
import BV.Props.C01
import BV.Model.MetaBlock
import BV.Lemmas.StreamRunMdRead
import BV.Props.C15

namespace BV.Props.C04Run
open BV.Stream BV.Bits
open BV.MetaBlock (readMetaBlockFull RdSt)
open BV.Recoder (WordOracle)

/-! ## specification side: a streaming reader -/

/-- what a streaming decoder reports -/
inductive Yield where
  | done (out : Bytes) (rest : List Bool)
  | needMore (out : Bytes)
  | stuck (out : Bytes)
deriving Repr, DecidableEq

/-- read meta-blocks while there is input; `fuel` bounds their number (`bits + 1` always suffices:
every meta-block has at least one bit) -/
def readPrefix (wo : WordOracle) (window : Nat) (large : Bool) : Nat → Nat → RdSt → List Bool → Yield
  | 0, _, s, _ => .stuck s.out
  | f + 1, pos, s, bs =>
    if bs.isEmpty then .needMore s.out
    else
      match readMetaBlockFull wo window large pos s bs with
      | none => .stuck s.out
      | some (s', true, _, r) => .done s'.out r
      | some (s', false, pos', r) => readPrefix wo window large f pos' s' r

/-- RFC 7932 §9.1 + §9.2 on a PREFIX of a stream (bits of its bytes, first bit first): window bits, then
meta-blocks as far as they go; the decoder starts with an empty output and the distance ring 4, 11, 15, 16 -/
def readStreamPrefix (wo : WordOracle) (bs : List Bool) : Yield :=
  match BV.HeaderSpec.readWbits bs with
  | none => .stuck []
  | some (lgwin, large, r) =>
    readPrefix wo (2 ^ lgwin - 16) large (r.length + 1) (bs.length - r.length) ⟨[], [4, 11, 15, 16]⟩ r

/-- `bits` is a sequence of complete NON-LAST meta-blocks: the reader, started at bit position `pos` in
state `s`, consumes exactly `bits` (whatever follows) and ends in state `s'` -/
inductive Blocks (wo : WordOracle) (window : Nat) (large : Bool) : Nat → RdSt → List Bool → RdSt → Prop where
  | nil (pos : Nat) (s : RdSt) : Blocks wo window large pos s [] s
  | cons {pos : Nat} {s s1 s2 : RdSt} {b bs : List Bool}
      (h : ∀ rest, readMetaBlockFull wo window large pos s (b ++ rest) = some (s1, false, pos + b.length, rest))
      (t : Blocks wo window large (pos + b.length) s1 bs s2) : Blocks wo window large pos s (b ++ bs) s2

theorem readMetaBlockFull_nil (wo : WordOracle) (window : Nat) (large : Bool) (pos : Nat) (s : RdSt) :
    readMetaBlockFull wo window large pos s [] = none := by
  simp [readMetaBlockFull, BV.HeaderSpec.readMetaBlock]

theorem blocks_append {wo : WordOracle} {window : Nat} {large : Bool} {pos : Nat} {s s1 s2 : RdSt} {a b : List Bool}
    (h1 : Blocks wo window large pos s a s1) (h2 : Blocks wo window large (pos + a.length) s1 b s2) :
    Blocks wo window large pos s (a ++ b) s2 := by
  induction h1 with
  | nil pos s => simpa using h2
  | @cons pos s s1' s2' b0 bs h t ih =>
    rw [List.append_assoc]
    refine Blocks.cons h (ih ?_)
    have : pos + b0.length + bs.length = pos + (b0 ++ bs).length := by simp [Nat.add_assoc]
    rw [this]; exact h2

/-- one complete non-last meta-block is `Blocks` — the bridge from the writer round-trip theorems
(`cbr_fast_roundtrip`, `cbr_trivial_roundtrip`, `fast_metablock_roundtrip`, … of C01Chain / C01MetaBlock, whose
conclusion for `isLast = false` is literally the hypothesis here) to the pieces of `PayloadDecode` -/
theorem blocks_one {wo : WordOracle} {window : Nat} {large : Bool} {pos : Nat} {s s' : RdSt} {bits : List Bool}
    (h : ∀ rest, readMetaBlockFull wo window large pos s (bits ++ rest) = some (s', false, pos + bits.length, rest)) :
    Blocks wo window large pos s bits s' := by
  have := Blocks.cons (bs := []) h (Blocks.nil _ _)
  simpa using this

/-- **reader_needs_more_at_boundary**: bits that end exactly at a meta-block boundary (no ISLAST seen)
make the streaming reader answer "need more input" with the content so far — not an error, and it
does not wait for an ISLAST -/
theorem reader_needs_more_at_boundary {wo : WordOracle} {window : Nat} {large : Bool} {pos : Nat} {s s' : RdSt}
    {bits : List Bool} (h : Blocks wo window large pos s bits s') :
    ∀ fuel, bits.length < fuel → readPrefix wo window large fuel pos s bits = .needMore s'.out := by
  induction h with
  | nil pos s =>
    intro fuel hf
    cases fuel with
    | zero => omega
    | succ f => simp [readPrefix]
  | @cons pos s s1 s2 b bs h t ih =>
    intro fuel hf
    have hb : b ≠ [] := by
      intro hb; subst hb
      have := h []
      rw [List.append_nil, readMetaBlockFull_nil] at this; cases this
    have hbl : 1 ≤ b.length := by
      cases b with
      | nil => exact absurd rfl hb
      | cons _ _ => simp
    cases fuel with
    | zero => omega
    | succ f =>
      have hne : (b ++ bs).isEmpty = false := by
        cases b with
        | nil => exact absurd rfl hb
        | cons _ _ => rfl
      unfold readPrefix
      rw [hne, h bs]
      simp only [Bool.false_eq_true, if_false]
      exact ih f (by simp only [List.length_append] at hf; omega)

/-- the streaming property: when more bits arrive later the reader continues from the state it had
reached — reading `bits ++ more` is reading `more` from the state after `bits` -/
theorem reader_resumes {wo : WordOracle} {window : Nat} {large : Bool} {pos : Nat} {s s' : RdSt}
    {bits : List Bool} (h : Blocks wo window large pos s bits s') (more : List Bool) :
    ∀ fuel, bits.length + more.length < fuel →
      ∃ fuel', more.length < fuel' ∧
        readPrefix wo window large fuel pos s (bits ++ more) = readPrefix wo window large fuel' (pos + bits.length) s' more := by
  induction h with
  | nil pos s => intro fuel hf; exact ⟨fuel, by simpa using hf, by simp⟩
  | @cons pos s s1 s2 b bs h t ih =>
    intro fuel hf
    have hb : b ≠ [] := by
      intro hb; subst hb
      have := h []
      rw [List.append_nil, readMetaBlockFull_nil] at this; cases this
    have hbl : 1 ≤ b.length := by
      cases b with
      | nil => exact absurd rfl hb
      | cons _ _ => simp
    cases fuel with
    | zero => omega
    | succ f =>
      have hne : ((b ++ bs) ++ more).isEmpty = false := by
        cases b with
        | nil => exact absurd rfl hb
        | cons _ _ => rfl
      obtain ⟨f', hf', e⟩ := ih f (by simp only [List.length_append] at hf; omega)
      refine ⟨f', hf', ?_⟩
      have hpos : pos + b.length + bs.length = pos + (b ++ bs).length := by simp [Nat.add_assoc]
      rw [← hpos, ← e]
      conv => lhs; unfold readPrefix
      rw [hne]
      simp only [Bool.false_eq_true, if_false]
      rw [List.append_assoc, h (bs ++ more)]

/-! ## the decode relation of C01, instantiated with the reader -/

/-- `Dec bits bytes` of `PiecesOK`, read as a statement about the RFC reader: wherever the reader stands
after complete meta-blocks `pre` from the start of the stream (bit position `p0`, state `s0`), if its
output followed by `bytes` is still a prefix of the input, then `bits` are further complete meta-blocks
that append exactly `bytes`.  (The reader state — output so far AND distance ring — is the one the
preceding bits produced: the relation is context aware, as decoding a compressed meta-block is.) -/
def DecRd (wo : WordOracle) (window : Nat) (large : Bool) (p0 : Nat) (s0 : RdSt) (input : Bytes)
    (bits : List Bool) (bytes : Bytes) : Prop :=
  ∀ pre s, Blocks wo window large p0 s0 pre s → (s.out ++ bytes) <+: input →
    ∃ s', Blocks wo window large (p0 + pre.length) s bits s' ∧ s'.out = s.out ++ bytes

theorem decRd_nil (wo : WordOracle) (window : Nat) (large : Bool) (p0 : Nat) (s0 : RdSt) (input : Bytes) :
    DecRd wo window large p0 s0 input [] [] :=
  fun _ s _ _ => ⟨s, Blocks.nil _ _, by simp⟩

theorem decRd_append (wo : WordOracle) (window : Nat) (large : Bool) (p0 : Nat) (s0 : RdSt) (input : Bytes)
    (a b : List Bool) (x y : Bytes) (h1 : DecRd wo window large p0 s0 input a x) (h2 : DecRd wo window large p0 s0 input b y) :
    DecRd wo window large p0 s0 input (a ++ b) (x ++ y) := by
  intro pre s hpre hpfx
  have hpx : (s.out ++ x) <+: input := by
    obtain ⟨t, ht⟩ := hpfx
    exact ⟨y ++ t, by rw [← ht]; simp [List.append_assoc]⟩
  obtain ⟨s1, b1, o1⟩ := h1 pre s hpre hpx
  have hpre1 : Blocks wo window large p0 s0 (pre ++ a) s1 := blocks_append hpre b1
  obtain ⟨s2, b2, o2⟩ := h2 (pre ++ a) s1 hpre1 (by rw [o1, List.append_assoc]; exact hpfx)
  refine ⟨s2, blocks_append b1 ?_, by rw [o2, o1, List.append_assoc]⟩
  have : p0 + pre.length + a.length = p0 + (pre ++ a).length := by simp [Nat.add_assoc]
  rw [this]; exact b2

/-! ## sync padding under the streaming reader -/

/-- **sync_block_read_by_stream_reader**: the byte-padding block `inject_byte_padding_block` appends behind a
carry of `lbb < 8` bits (`padBits lbb` = `0 11 0 00` ++ zero fill) is, at any bit position congruent to
`lbb` modulo 8 (where the encoder puts it), ONE complete non-last meta-block for the streaming reader that
leaves its state — output and distance ring — untouched and ends on a byte boundary -/
theorem sync_block_read_by_stream_reader (wo : WordOracle) (window : Nat) (large : Bool) (lbb : Nat)
    (pos : Nat) (hp : pos % 8 = lbb) (s : RdSt) :
    Blocks wo window large pos s (padBits lbb) s ∧ (pos + (padBits lbb).length) % 8 = 0 := by
  have hrd : ∀ rest, BV.HeaderSpec.readMetaBlock pos (padBits lbb ++ rest)
      = some (BV.HeaderSpec.MetaBlock.metadata [], pos + (padBits lbb).length, rest) := by
    intro rest
    have hk : (8 - (pos + 1 + 2 + 3 + 8 * 0) % 8) % 8 = 8 * ((lbb + 6 + 7) / 8) - lbb - 6 := by omega
    simp only [padBits, syncBits, List.cons_append, List.nil_append, BV.HeaderSpec.readMetaBlock]
    simp [BV.HeaderSpec.takeVal, valOf, BV.HeaderSpec.skipPad, BV.HeaderSpec.takeBytes, hk]
    omega
  refine ⟨?_, ?_⟩
  · have := Blocks.cons (wo := wo) (window := window) (large := large) (pos := pos) (s := s) (s1 := s) (s2 := s)
      (b := padBits lbb) (bs := []) (fun rest => by simp [readMetaBlockFull, hrd rest]) (Blocks.nil _ _)
    simpa using this
  · simp only [padBits, syncBits, List.length_append, List.length_cons, List.length_nil, List.length_replicate]
    omega

/-! ## whole histories -/

/-- a completed flush, as the final state shows it (the conclusion of `flush_complete`): nothing pending,
no carry bits, nothing unflushed -/
structure Flushed (s : St) : Prop where
  drained : s.pending = []
  aligned : s.lastBytesBits = 0
  allFlushed : s.lastFlushPos = s.inputPos

/-- `flush_complete` in that form: a FLUSH call (outside a metadata block) that returns `true` with no output
pending leaves a `Flushed` state and has consumed all its input (slow path; in the quality 0/1 one-shot
path `last_flush_pos_` is not maintained — no input is ever buffered there) -/
theorem flush_call_flushed {o : Oracle} {fuel cap : Nat} {input : Bytes} {s s' : St} {io' : Io}
    (hI : Inv s) (hrm : s.remainingMetadata = u32Max) (hw : s.inputPos + input.length < two64)
    (hst : s.streamState = .processing ∨ s.streamState = .flushRequested)
    (h : compressStream o fuel s 1 input cap = .ok (s', io', true))
    (hdrained : hasMoreOutput s' = false) (hslow : ¬ fastMode s'.params) :
    Flushed s' ∧ io'.availIn = 0 := by
  obtain ⟨a, _, c, d⟩ := BV.Props.C04.flush_complete hI hrm hw hst h hdrained
  have hp : s'.pending = [] := by
    have : s'.pending.length = 0 := by simpa [hasMoreOutput] using hdrained
    exact List.eq_nil_of_length_eq_zero this
  rcases d with d | d
  · exact ⟨⟨hp, c, d⟩, a⟩
  · exact absurd d hslow

theorem deliveredBits_flushed {t : Trace} {s : St} (hF : Flushed s) : deliveredBits t s = bytesBits t.delivered := by
  unfold deliveredBits St.carry
  rw [hF.drained, hF.aligned]
  simp [bitsOf]

/-- metadata and padding events cover no input and move no position -/
def isTransparent : Ev → Bool
  | .pad _ => true
  | .mdHeader _ _ => true
  | .mdBody _ => true
  | _ => false

/-- **metadata_does_not_change_yield**: removing the sync blocks and the metadata blocks (headers and
bodies) from a log changes neither the positions it reaches nor the number of input bytes its pieces
cover — what a reader of the flushed prefix yields does not depend on the metadata in between -/
theorem metadata_does_not_change_yield (p : Pos) (log : List Ev) :
    logAdv p (log.filter (fun e => !isTransparent e)) = logAdv p log ∧
    logPos p (log.filter (fun e => !isTransparent e)) = logPos p log := by
  induction log generalizing p with
  | nil => exact ⟨rfl, rfl⟩
  | cons e es ih =>
    have keep : isTransparent e = false →
        logAdv p ((e :: es).filter (fun e => !isTransparent e)) = logAdv p (e :: es) ∧
        logPos p ((e :: es).filter (fun e => !isTransparent e)) = logPos p (e :: es) := by
      intro he
      have hf : (e :: es).filter (fun e => !isTransparent e) = e :: es.filter (fun e => !isTransparent e) := by
        simp [List.filter, he]
      rw [hf]
      obtain ⟨a, b'⟩ := ih (e.step p)
      refine ⟨?_, ?_⟩
      · show e.adv p + logAdv (e.step p) _ = e.adv p + logAdv (e.step p) es
        rw [a]
      · show logPos (e.step p) _ = logPos (e.step p) es
        exact b'
    have skip : isTransparent e = true → e.adv p = 0 → e.step p = p →
        logAdv p ((e :: es).filter (fun e => !isTransparent e)) = logAdv p (e :: es) ∧
        logPos p ((e :: es).filter (fun e => !isTransparent e)) = logPos p (e :: es) := by
      intro he h0 hs
      have hf : (e :: es).filter (fun e => !isTransparent e) = es.filter (fun e => !isTransparent e) := by
        simp [List.filter, he]
      rw [hf]
      obtain ⟨a, b'⟩ := ih p
      refine ⟨?_, ?_⟩
      · show _ = e.adv p + logAdv (e.step p) es
        rw [h0, hs, a]; simp
      · show _ = logPos (e.step p) es
        rw [hs]; exact b'
    cases e with
    | pad l => exact skip rfl rfl rfl
    | mdHeader n l => exact skip rfl rfl rfl
    | mdBody b => exact skip rfl rfl rfl
    | window b => exact keep rfl
    | copy c => exact keep rfl
    | push => exact keep rfl
    | enc k r pre sk tk => exact keep rfl
    | fast k r => exact keep rfl
    | tau j => exact keep rfl

/-- **flush_prefix_decodes_run** — for every history on a fresh encoder (any parameters, any interleaving of
PROCESS / FLUSH / EMIT_METADATA calls and `take_output`s, any capacities, any payload oracle) that ends with a
completed flush (`Flushed`, see `flush_call_flushed`), there is a log (the one of `delivered_is_framed_concat`) with
* the delivered BYTES — no pending output, no carry bits, so the prefix is byte aligned — are exactly the
  stream header followed by the log's pieces in order (payload pieces, skeleton pieces, sync padding,
  metadata headers and bodies): `bytesBits t.delivered = header ++ logBodyBits o log`, a whole number of bytes;
* `input_pos_` is the number of input bytes copied in so far, and the requests are the trace's;
* under `PiecesOK` (every piece decodes to the range it covers — exactly the hypothesis of
  `C01_roundtrip_run`; the payload encoder is the only un-proved part of it) and without one-shot
  (quality 0/1 fast path) blocks, those bytes decode to EVERY input byte supplied so far:
  `Dec body (input.take input_pos_)` — no ISLAST, no later input is needed for that. -/
theorem flush_prefix_decodes_run {o : Oracle} {fuel : Nat}
    {calls : List Call} {s0 s : St} {t : Trace}
    (hf : IsFresh s0) (hops : HistOK calls) (hw : histLen calls < two64)
    (h : run o fuel calls s0 {} = .ok (s, t)) (hF : Flushed s) :
    ∃ (log : List Ev) (header : List Bool),
      bytesBits t.delivered = header ++ logBodyBits o log ∧
      (bytesBits t.delivered).length % 8 = 0 ∧
      (log = [] ∧ header = [] ∨ ∃ rest, log = .window header :: rest ∧ NoWindow rest) ∧
      log.filterMap Ev.req = t.reqs ∧ s.inputPos = logCopied log ∧
      (∀ (Dec : List Bool → Bytes → Prop) (input : Bytes),
        BV.Props.C01.PiecesOK Dec input o log → (∀ e ∈ log, ∀ k r, e ≠ .fast k r) →
        Dec (logBodyBits o log) (input.take s.inputPos)) := by
  obtain ⟨log, hb, hwin, hr, hok, hpos⟩ := BV.Props.C01.delivered_is_framed_concat hf hops hw h
  rw [deliveredBits_flushed hF] at hb
  have hip : s.inputPos = logCopied log := by
    have := congrArg Pos.ip hpos
    rw [logPos_ip] at this
    simpa [St.pos] using this
  have hdec : ∀ (Dec : List Bool → Bytes → Prop) (input : Bytes),
      BV.Props.C01.PiecesOK Dec input o log → (∀ e ∈ log, ∀ k r, e ≠ .fast k r) →
      Dec (logBodyBits o log) (input.take s.inputPos) := by
    intro Dec input hP hnf
    have hd := pieces_compose hP.nil hP.append input o log 0 ⟨0, 0, 0, 0⟩ hP.pieces
    simp only [List.drop_zero] at hd
    have hadv := logAdv_lf hok hnf
    have hl : s.lastFlushPos = (logPos ⟨0, 0, 0, 0⟩ log).lf := congrArg Pos.lf hpos
    have : logAdv ⟨0, 0, 0, 0⟩ log = s.inputPos := by rw [← hF.allFlushed, hl, ← hadv]; simp
    rw [this] at hd; exact hd
  have hlen : (bytesBits t.delivered).length % 8 = 0 := by
    rw [bytesBits_length]; omega
  rcases hwin with rfl | ⟨b, rest, rfl, hnw⟩
  · exact ⟨[], [], by rw [hb]; rfl, hlen, Or.inl ⟨rfl, rfl⟩, hr, hip, hdec⟩
  · refine ⟨.window b :: rest, b, ?_, hlen, Or.inr ⟨rest, rfl, hnw⟩, hr, hip, hdec⟩
    rw [hb]
    show logBits o (.window b :: rest) = b ++ logBodyBits o (.window b :: rest)
    have : logBodyBits o (.window b :: rest) = logBodyBits o rest := rfl
    rw [this, logBodyBits_noWindow o hnw]
    simp [logBits, Ev.bits]

/-- **flush_prefix_read_by_stream_reader** — the same with the reader explicit.  `Dec` is `DecRd`: the RFC
reader, started behind the stream header (`header` is read by the §9.1 reader as window `lgwin` in form
`large`: `declared_window` of C15 for this encoder's header), in the initial decoder state.  If every piece of
the log decodes to its range in that sense (`PiecesOK (DecRd …)`: its `nil` / `append` fields are PROVED,
`decRd_nil` / `decRd_append`; what is left is `pieces`, the payload hypothesis of C01), then the STREAMING
reader fed exactly the bytes delivered up to the completed flush answers `needMore (input.take input_pos_)`:
it yields every input byte supplied so far, does not error, and does not need the missing ISLAST. -/
theorem flush_prefix_read_by_stream_reader {wo : WordOracle} {o : Oracle} {fuel : Nat}
    {calls : List Call} {s0 s : St} {t : Trace}
    (hf : IsFresh s0) (hops : HistOK calls) (hw : histLen calls < two64)
    (h : run o fuel calls s0 {} = .ok (s, t)) (hF : Flushed s) :
    ∃ (log : List Ev) (header : List Bool),
      bytesBits t.delivered = header ++ logBodyBits o log ∧ s.inputPos = logCopied log ∧
      ∀ (input : Bytes) (lgwin : Nat) (large : Bool),
        (∀ rest, BV.HeaderSpec.readWbits (header ++ rest) = some (lgwin, large, rest)) →
        PiecesDecode (DecRd wo (2 ^ lgwin - 16) large header.length ⟨[], [4, 11, 15, 16]⟩ input) input o 0 ⟨0, 0, 0, 0⟩ log →
        (∀ e ∈ log, ∀ k r, e ≠ .fast k r) →
        readStreamPrefix wo (bytesBits t.delivered) = .needMore (input.take s.inputPos) := by
  obtain ⟨log, header, hb, _, _, _, hip, hdec⟩ := flush_prefix_decodes_run (o := o) hf hops hw h hF
  refine ⟨log, header, hb, hip, ?_⟩
  intro input lgwin large hhdr hpieces hnf
  have hD := hdec (DecRd wo (2 ^ lgwin - 16) large header.length ⟨[], [4, 11, 15, 16]⟩ input) input
    ⟨decRd_nil _ _ _ _ _ _, decRd_append _ _ _ _ _ _, hpieces⟩ hnf
  obtain ⟨s', hbl, hout⟩ := hD [] ⟨[], [4, 11, 15, 16]⟩ (Blocks.nil _ _) (by simpa using List.take_prefix _ _)
  have hout' : s'.out = input.take s.inputPos := by simpa using hout
  unfold readStreamPrefix
  rw [hb, hhdr (logBodyBits o log)]
  simp only [List.length_append, Nat.add_sub_cancel]
  have := reader_needs_more_at_boundary hbl (logBodyBits o log).length.succ (Nat.lt_succ_self _)
  simp only [List.length_nil, Nat.add_zero] at this
  rw [this, hout']


/-! ## the stream model's header is the header model's -/

/-- the stream model's `EncodeWindowBits` is the header model's (the one C15's `wbits_roundtrip` is about) on
every window `ensure_initialized` can pass (10..30, both forms) -/
theorem stream_encodeWindowBits_eq_header :
    ∀ (w : Fin 21) (lw : Bool), BV.Stream.encodeWindowBits ((w.val + 10 : Nat) : Int) lw
      = BV.Header.encodeWindowBits ((w.val + 10 : Nat) : Int) lw := by
  decide +kernel

/-- **stream_header_is_declared_window**: the bits the stream model's `ensure_initialized` stages for a fresh
encoder with parameters `p` (the `window` event of every log) are read by the RFC 9.1 reader as the window
`clampWindow p.quality p.lgwin p.large_window` in the requested form — C15's `declared_window`, now for the
STREAM model (no correspondence step in between) -/
theorem stream_header_is_declared_window {sf : St} (hf : IsFresh sf) (rest : List Bool) :
    BV.HeaderSpec.readWbits ((ensureInitialized sf).carry ++ rest)
      = some ((BV.HeaderSpec.clampWindow sf.params.quality sf.params.lgwin sf.params.largeWindow).toNat,
          sf.params.largeWindow, rest) := by
  obtain ⟨p, rfl⟩ := hf
  obtain ⟨h1, h2, h3⟩ := BV.Header.clampWindow_range p.quality p.lgwin p.largeWindow
  have hcl : (if (sanitize p).quality = 0 ∨ (sanitize p).quality = 1 then max (sanitize p).lgwin 18 else (sanitize p).lgwin)
      = BV.HeaderSpec.clampWindow p.quality p.lgwin p.largeWindow := by
    simp only [sanitize, BV.HeaderSpec.clampWindow]
    cases p.largeWindow <;> simp <;> split <;> split <;> omega
  obtain ⟨w, hw⟩ : ∃ w : Fin 21, BV.HeaderSpec.clampWindow p.quality p.lgwin p.largeWindow = ((w.val + 10 : Nat) : Int) :=
    ⟨⟨(BV.HeaderSpec.clampWindow p.quality p.lgwin p.largeWindow).toNat - 10, by omega⟩, by simp only []; omega⟩
  have hcarry : (ensureInitialized { St.new with params := p }).carry
      = bitsOf (BV.Header.encodeWindowBits (BV.HeaderSpec.clampWindow p.quality p.lgwin p.largeWindow) p.largeWindow).2
          (BV.Header.encodeWindowBits (BV.HeaderSpec.clampWindow p.quality p.lgwin p.largeWindow) p.largeWindow).1 := by
    have hlw : (sanitize p).largeWindow = p.largeWindow := rfl
    simp only [ensureInitialized, St.new, St.carry, Bool.false_eq_true, if_false, hcl, hlw]
    rw [hw, stream_encodeWindowBits_eq_header w p.largeWindow]
  rw [hcarry]
  exact (BV.Props.C15.wbits_roundtrip _ _ h1 h2 h3 rest).1

/-! ## histories WITH metadata: only the payload pieces remain hypotheses

`run_factsX` (BV/Lemmas/StreamRunMd.lean) adds to the log of a history the ALIGNMENT of every padding block
and metadata header (bit offset ≡ carry mod 8) and the GROUPING of metadata events (a header for `n` bytes
is followed by body chunks totalling `n` before any other bit-carrying event).  With the reader lemmas of
BV/Lemmas/StreamRunMdRead.lean every piece the state machine writes itself is then PROVED to be complete
non-last meta-blocks that leave the reader state untouched; what is assumed is `PayloadDecode`: the
`DecRd` statement for the payload-encoder events (`enc`, `fast`) only. -/

/-- the padding block behind ANY carry (also the 14 bits of a large-window header) -/
theorem sync_block_blocks (wo : WordOracle) (window : Nat) (large : Bool) (lbb pos : Nat) (hp : pos % 8 = lbb % 8) (s : RdSt) :
    Blocks wo window large pos s (padBits lbb) s := by
  have := Blocks.cons (wo := wo) (window := window) (large := large) (pos := pos) (s := s) (s1 := s) (s2 := s)
    (b := padBits lbb) (bs := []) (fun rest => by simp [readMetaBlockFull, pad_readMetaBlock lbb pos hp rest]) (Blocks.nil _ _)
  simpa using this

/-- a whole metadata block (header, fill, `n` payload bytes) is one complete non-last meta-block that leaves
the reader state untouched -/
theorem md_block_blocks (wo : WordOracle) (window : Nat) (large : Bool) (n lbb pos : Nat) (hn : n ≤ 16777216)
    (hp : pos % 8 = lbb % 8) (payload : List Bool) (hpl : payload.length = 8 * n) (s : RdSt) :
    Blocks wo window large pos s (mdHeaderTail n lbb ++ payload) s := by
  have := Blocks.cons (wo := wo) (window := window) (large := large) (pos := pos) (s := s) (s1 := s) (s2 := s)
    (b := mdHeaderTail n lbb ++ payload) (bs := []) (fun rest => by
      obtain ⟨bytes, hb, _⟩ := md_block_readMetaBlock n lbb pos hn hp payload rest hpl
      unfold readMetaBlockFull
      rw [hb]) (Blocks.nil _ _)
  simpa using this

/-- the payload hypothesis: `Dec` for the payload-encoder events only (cf. `PiecesDecode`, which asks it of
every event) -/
def PayloadDecode (Dec : List Bool → Bytes → Prop) (input : Bytes) (o : Oracle) : Nat → Pos → List Ev → Prop
  | _, _, [] => True
  | c, p, .enc k r pre sk tk :: es =>
    Dec ((Ev.enc k r pre sk tk).bits o) ((input.drop c).take ((Ev.enc k r pre sk tk).adv p)) ∧
      PayloadDecode Dec input o (c + (Ev.enc k r pre sk tk).adv p) ((Ev.enc k r pre sk tk).step p) es
  | c, p, .fast k r :: es =>
    Dec ((Ev.fast k r).bits o) ((input.drop c).take ((Ev.fast k r).adv p)) ∧
      PayloadDecode Dec input o (c + (Ev.fast k r).adv p) ((Ev.fast k r).step p) es
  | c, p, e :: es => PayloadDecode Dec input o (c + e.adv p) (e.step p) es

/-- where the reader stands inside a log: at a boundary (`opn = 0`, nothing accumulated), or inside a metadata
block whose header and first chunks are `acc`, `opn` payload bytes still to come -/
def MidShape (p0 : Nat) (pre acc : List Bool) (opn : Nat) : Prop :=
  (opn = 0 ∧ acc = []) ∨
  (∃ n l chunks, 0 < opn ∧ acc = mdHeaderTail n l ++ chunks ∧ chunks.length + 8 * opn = 8 * n ∧
    (p0 + pre.length) % 8 = l % 8 ∧ n ≤ 16777216)

theorem take_add_drop (input : Bytes) (c a : Nat) : input.take c ++ (input.drop c).take a = input.take (c + a) := by
  rw [List.take_add]

/-- **body_blocks**: a log accepted by the metadata / alignment automaton, whose payload events decode
(`DecRd`), is — from any reachable reader position — complete non-last meta-blocks that append exactly the
input bytes the log covers -/
theorem body_blocks (wo : WordOracle) (window : Nat) (large : Bool) (p0 : Nat) (s0 : RdSt) (input : Bytes) (o : Oracle) :
    ∀ (log : List Ev), NoWindow log → ∀ (pre acc : List Bool) (s : RdSt) (opn c : Nat) (p : Pos),
      Blocks wo window large p0 s0 pre s → MidShape p0 pre acc opn → s.out = input.take c →
      MdLog o (p0 + pre.length + acc.length) opn log → logOpen opn log = 0 →
      PayloadDecode (DecRd wo window large p0 s0 input) input o c p log →
      ∃ s', Blocks wo window large p0 s0 (pre ++ acc ++ logBodyBits o log) s' ∧ s'.out = input.take (c + logAdv p log) := by
  intro log
  induction log with
  | nil =>
    intro _ pre acc s opn c p hre hsh hout _ hfin _
    have h0 : opn = 0 := hfin
    rcases hsh with ⟨_, rfl⟩ | ⟨n, l, ch, hpos, _⟩
    · exact ⟨s, by simpa [logBodyBits] using hre, by simpa [logAdv] using hout⟩
    · omega
  | cons e es ih =>
    intro hnw pre acc s opn c p hre hsh hout hmd hfin hpay
    have hnw' : NoWindow es := fun e' he' => hnw e' (List.mem_cons_of_mem _ he')
    obtain ⟨hg, hmd'⟩ := hmd
    have hfin' : logOpen (evOpen opn e) es = 0 := hfin
    -- events that carry no bits and touch neither the reader nor the automaton
    have bitless : (e.bits o = []) → evOpen opn e = opn → e.adv p = 0 →
        PayloadDecode (DecRd wo window large p0 s0 input) input o (c + e.adv p) (e.step p) es →
        (∀ b, logBodyBits o (e :: es) = b → b = logBodyBits o es) →
        ∃ s', Blocks wo window large p0 s0 (pre ++ acc ++ logBodyBits o (e :: es)) s' ∧
          s'.out = input.take (c + logAdv p (e :: es)) := by
      intro hb ho ha hp' hbody
      rw [hb, List.length_nil, Nat.add_zero, ho] at hmd'
      rw [ho] at hfin'
      rw [ha, Nat.add_zero] at hp'
      obtain ⟨s', b1, b2⟩ := ih hnw' pre acc s opn c (e.step p) hre hsh hout hmd' hfin' hp'
      refine ⟨s', ?_, ?_⟩
      · rw [hbody _ rfl]; exact b1
      · show s'.out = input.take (c + (e.adv p + logAdv (e.step p) es))
        rw [ha, Nat.zero_add]; exact b2
    cases e with
    | window b => exact absurd rfl (hnw _ List.mem_cons_self b)
    | copy ch => exact bitless rfl rfl rfl hpay (fun _ h => by rw [← h]; rfl)
    | push => exact bitless rfl rfl rfl hpay (fun _ h => by rw [← h]; rfl)
    | tau j => exact bitless rfl rfl rfl hpay (fun _ h => by rw [← h]; rfl)
    | pad l =>
      obtain ⟨ho, hal⟩ := hg
      subst ho
      rcases hsh with ⟨_, rfl⟩ | ⟨n, l', chs, hpos, _⟩
      · simp only [List.length_nil, Nat.add_zero] at hal hmd'
        have hb := sync_block_blocks wo window large l (p0 + pre.length) hal s
        have hre' := blocks_append hre hb
        have hmd2 : MdLog o (p0 + (pre ++ padBits l).length + ([] : List Bool).length) 0 es := by
          simpa [Ev.bits, evOpen, Nat.add_assoc] using hmd'
        obtain ⟨s', b1, b2⟩ := ih hnw' (pre ++ padBits l) [] s 0 c ((Ev.pad l).step p) hre' (Or.inl ⟨rfl, rfl⟩) hout hmd2 hfin' hpay
        refine ⟨s', ?_, ?_⟩
        · simpa [logBodyBits, Ev.bits, List.append_assoc] using b1
        · simpa [logAdv, Ev.adv] using b2
      · omega
    | enc k r pr sk tk =>
      have ho : opn = 0 := hg
      subst ho
      rcases hsh with ⟨_, rfl⟩ | ⟨n, l', chs, hpos, _⟩
      · obtain ⟨hd, hpay'⟩ := hpay
        simp only [List.length_nil, Nat.add_zero] at hmd'
        obtain ⟨s1, b1, o1⟩ := hd pre s hre (by rw [hout, take_add_drop]; exact List.take_prefix _ _)
        have hre' := blocks_append hre b1
        have hmd2 : MdLog o (p0 + (pre ++ (Ev.enc k r pr sk tk).bits o).length + ([] : List Bool).length) 0 es := by
          simpa [evOpen, Nat.add_assoc] using hmd'
        obtain ⟨s', c1, c2⟩ := ih hnw' (pre ++ (Ev.enc k r pr sk tk).bits o) [] s1 0 (c + (Ev.enc k r pr sk tk).adv p)
          ((Ev.enc k r pr sk tk).step p) hre' (Or.inl ⟨rfl, rfl⟩) (by rw [o1, hout, take_add_drop]) hmd2 hfin' hpay'
        refine ⟨s', ?_, ?_⟩
        · simpa [logBodyBits, List.append_assoc] using c1
        · show s'.out = input.take (c + ((Ev.enc k r pr sk tk).adv p + logAdv ((Ev.enc k r pr sk tk).step p) es))
          rw [← Nat.add_assoc]; exact c2
      · omega
    | fast k r =>
      have ho : opn = 0 := hg
      subst ho
      rcases hsh with ⟨_, rfl⟩ | ⟨n, l', chs, hpos, _⟩
      · obtain ⟨hd, hpay'⟩ := hpay
        simp only [List.length_nil, Nat.add_zero] at hmd'
        obtain ⟨s1, b1, o1⟩ := hd pre s hre (by rw [hout, take_add_drop]; exact List.take_prefix _ _)
        have hre' := blocks_append hre b1
        have hmd2 : MdLog o (p0 + (pre ++ (Ev.fast k r).bits o).length + ([] : List Bool).length) 0 es := by
          simpa [evOpen, Nat.add_assoc] using hmd'
        obtain ⟨s', c1, c2⟩ := ih hnw' (pre ++ (Ev.fast k r).bits o) [] s1 0 (c + (Ev.fast k r).adv p)
          ((Ev.fast k r).step p) hre' (Or.inl ⟨rfl, rfl⟩) (by rw [o1, hout, take_add_drop]) hmd2 hfin' hpay'
        refine ⟨s', ?_, ?_⟩
        · simpa [logBodyBits, List.append_assoc] using c1
        · show s'.out = input.take (c + ((Ev.fast k r).adv p + logAdv ((Ev.fast k r).step p) es))
          rw [← Nat.add_assoc]; exact c2
      · omega
    | mdHeader n l =>
      obtain ⟨ho, hal, hn⟩ := hg
      subst ho
      rcases hsh with ⟨_, rfl⟩ | ⟨n', l', chs, hpos, _⟩
      · simp only [List.length_nil, Nat.add_zero] at hal hmd'
        have hpay' : PayloadDecode (DecRd wo window large p0 s0 input) input o c p es := by
          have := hpay
          simpa [PayloadDecode, Ev.adv, Ev.step] using this
        by_cases h0 : n = 0
        · subst h0
          have hb := md_block_blocks wo window large 0 l (p0 + pre.length) hn hal [] rfl s
          rw [List.append_nil] at hb
          have hre' := blocks_append hre hb
          have hmd2 : MdLog o (p0 + (pre ++ mdHeaderTail 0 l).length + ([] : List Bool).length) 0 es := by
            simpa [Ev.bits, evOpen, Nat.add_assoc] using hmd'
          obtain ⟨s', b1, b2⟩ := ih hnw' (pre ++ mdHeaderTail 0 l) [] s 0 c p hre' (Or.inl ⟨rfl, rfl⟩) hout hmd2 hfin' hpay'
          refine ⟨s', ?_, ?_⟩
          · simpa [logBodyBits, Ev.bits, List.append_assoc] using b1
          · simpa [logAdv, Ev.adv, Ev.step] using b2
        · have hmd2 : MdLog o (p0 + pre.length + (mdHeaderTail n l).length) n es := by
            simpa [Ev.bits, evOpen, Nat.add_assoc] using hmd'
          obtain ⟨s', b1, b2⟩ := ih hnw' pre (mdHeaderTail n l) s n c p hre
            (Or.inr ⟨n, l, [], by omega, by simp, by simp, hal, hn⟩) hout hmd2 hfin' hpay'
          refine ⟨s', ?_, ?_⟩
          · simpa [logBodyBits, Ev.bits, List.append_assoc] using b1
          · simpa [logAdv, Ev.adv, Ev.step] using b2
      · omega
    | mdBody b =>
      have hle : b.length ≤ opn := hg
      have hpay' : PayloadDecode (DecRd wo window large p0 s0 input) input o c p es := by
        have := hpay
        simpa [PayloadDecode, Ev.adv, Ev.step] using this
      rcases hsh with ⟨h0, rfl⟩ | ⟨n, l, chs, hpos, hacc, hcnt, hal, hn⟩
      · subst h0
        have hb : b = [] := List.eq_nil_of_length_eq_zero (by omega)
        subst hb
        have hmd2 : MdLog o (p0 + pre.length + ([] : List Bool).length) 0 es := by
          simpa [Ev.bits, evOpen, bytesBits] using hmd'
        obtain ⟨s', b1, b2⟩ := ih hnw' pre [] s 0 c p hre (Or.inl ⟨rfl, rfl⟩) hout hmd2 (by simpa [evOpen] using hfin') hpay'
        refine ⟨s', ?_, ?_⟩
        · simpa [logBodyBits, Ev.bits, bytesBits] using b1
        · simpa [logAdv, Ev.adv, Ev.step] using b2
      · subst hacc
        have hbl : (bytesBits b).length = 8 * b.length := bytesBits_length b
        by_cases hc : opn - b.length = 0
        · -- the block is complete
          have hb := md_block_blocks wo window large n l (p0 + pre.length) hn hal (chs ++ bytesBits b)
            (by rw [List.length_append, hbl]; omega) s
          have hre' := blocks_append hre hb
          have hmd2 : MdLog o (p0 + (pre ++ (mdHeaderTail n l ++ (chs ++ bytesBits b))).length + ([] : List Bool).length) 0 es := by
            have := hmd'
            simp only [Ev.bits, evOpen, hc] at this
            simpa [Nat.add_assoc] using this
          obtain ⟨s', b1, b2⟩ := ih hnw' (pre ++ (mdHeaderTail n l ++ (chs ++ bytesBits b))) [] s 0 c p hre' (Or.inl ⟨rfl, rfl⟩) hout hmd2
            (by simpa [evOpen, hc] using hfin') hpay'
          refine ⟨s', ?_, ?_⟩
          · simpa [logBodyBits, Ev.bits, List.append_assoc] using b1
          · simpa [logAdv, Ev.adv, Ev.step] using b2
        · have hmd2 : MdLog o (p0 + pre.length + (mdHeaderTail n l ++ (chs ++ bytesBits b)).length) (opn - b.length) es := by
            have := hmd'
            simp only [Ev.bits, evOpen] at this
            simpa [Nat.add_assoc] using this
          obtain ⟨s', b1, b2⟩ := ih hnw' pre (mdHeaderTail n l ++ (chs ++ bytesBits b)) s (opn - b.length) c p hre
            (Or.inr ⟨n, l, chs ++ bytesBits b, by omega, rfl, by rw [List.length_append, hbl]; omega, hal, hn⟩) hout hmd2
            (by simpa [evOpen] using hfin') hpay'
          refine ⟨s', ?_, ?_⟩
          · simpa [logBodyBits, Ev.bits, List.append_assoc] using b1
          · simpa [logAdv, Ev.adv, Ev.step] using b2

/-- the other conclusion of `flush_complete` the metadata theorem uses: the state is PROCESSING again -/
theorem flush_call_processing {o : Oracle} {fuel cap : Nat} {input : Bytes} {s s' : St} {io' : Io}
    (hI : Inv s) (hrm : s.remainingMetadata = u32Max) (hw : s.inputPos + input.length < two64)
    (hst : s.streamState = .processing ∨ s.streamState = .flushRequested)
    (h : compressStream o fuel s 1 input cap = .ok (s', io', true))
    (hdrained : hasMoreOutput s' = false) : s'.streamState = .processing :=
  (BV.Props.C04.flush_complete hI hrm hw hst h hdrained).2.1

/-- **flush_prefix_read_by_stream_reader_md** — histories WITH metadata, only the payload assumed.
For every history on a fresh encoder (any interleaving of PROCESS / FLUSH / EMIT_METADATA calls and
`take_output`s, any capacities, any oracle) that ends with a completed flush in state PROCESSING
(`Flushed` and `stream_state_ = PROCESSING`: both conclusions of `flush_complete`), there is a log with
`bytesBits t.delivered = header ++ logBodyBits o log` such that: if the header is read by the RFC 9.1 reader as
`(lgwin, large)` and the PAYLOAD-ENCODER events of the log decode in the reader's sense (`PayloadDecode (DecRd …)`:
nothing is asked of sync blocks, metadata headers or metadata bodies — those are proved), then the streaming
reader fed exactly the delivered bytes answers `needMore` with the input bytes the log covers, which without
one-shot blocks are ALL the input bytes supplied so far. -/
theorem flush_prefix_read_by_stream_reader_md {wo : WordOracle} {o : Oracle} {fuel : Nat}
    {calls : List Call} {s0 s : St} {t : Trace}
    (hf : IsFresh s0) (hops : HistOK calls) (hw : histLen calls < two64)
    (h : run o fuel calls s0 {} = .ok (s, t)) (hF : Flushed s) (hst : s.streamState = .processing) :
    ∃ (log : List Ev) (header : List Bool),
      bytesBits t.delivered = header ++ logBodyBits o log ∧ s.inputPos = logCopied log ∧
      ((∀ e ∈ log, ∀ k r, e ≠ .fast k r) → logAdv ⟨0, 0, 0, 0⟩ log = s.inputPos) ∧
      (log = [] ∨ ∃ sf, IsFresh sf ∧ header = (ensureInitialized sf).carry) ∧
      ∀ (input : Bytes) (lgwin : Nat) (large : Bool),
        (∀ rest, BV.HeaderSpec.readWbits (header ++ rest) = some (lgwin, large, rest)) →
        PayloadDecode (DecRd wo (2 ^ lgwin - 16) large header.length ⟨[], [4, 11, 15, 16]⟩ input) input o 0 ⟨0, 0, 0, 0⟩ log →
        readStreamPrefix wo (bytesBits t.delivered) = .needMore (input.take (logAdv ⟨0, 0, 0, 0⟩ log)) := by
  have hip0 : s0.inputPos = 0 := (isFresh_fields hf).2.2.1
  obtain ⟨log, f⟩ := run_factsX (o := o) (fuel := fuel) (t0 := {}) (runOK_fresh hf) hops (by rw [hip0]; omega) h
  have hb := f.bits
  rw [deliveredBits_fresh hf, List.nil_append, deliveredBits_flushed hF] at hb
  have hp0 := pos_fresh hf
  have hpos := f.pos
  rw [hp0] at hpos
  have hlok := f.lok
  rw [hp0] at hlok
  have hipc : s.inputPos = logCopied log := by
    have := congrArg Pos.ip hpos
    rw [logPos_ip] at this
    simpa [St.pos] using this
  have hadv : (∀ e ∈ log, ∀ k r, e ≠ .fast k r) → logAdv ⟨0, 0, 0, 0⟩ log = s.inputPos := by
    intro hnf
    have h1 := logAdv_lf hlok hnf
    have hl : s.lastFlushPos = (logPos ⟨0, 0, 0, 0⟩ log).lf := congrArg Pos.lf hpos
    rw [← hF.allFlushed, hl, ← h1]; simp
  have hmd := f.md
  rw [deliveredBits_fresh hf, mdOpen_fresh hf] at hmd
  have hopn := f.opn
  rw [mdOpen_fresh hf, mdOpen_of_not_md (by rw [hst]; simp)] at hopn
  have hini0 : s0.isInitialized = false := isFreshInit hf
  rcases f.win with ⟨_, _, rfl⟩ | ⟨_, _, b, rest, rfl, hnw⟩ | ⟨a1, _, _⟩
  · refine ⟨[], [], by rw [hb]; rfl, hipc, hadv, Or.inl rfl, ?_⟩
    intro input lgwin large hhdr _
    have := hhdr []
    simp [BV.HeaderSpec.readWbits] at this
  · refine ⟨.window b :: rest, b, ?_, hipc, hadv, Or.inr (f.hdr _ List.mem_cons_self b rfl), ?_⟩
    · rw [hb]
      show logBits o (.window b :: rest) = b ++ logBodyBits o (.window b :: rest)
      have : logBodyBits o (.window b :: rest) = logBodyBits o rest := rfl
      rw [this, logBodyBits_noWindow o hnw]
      simp [logBits, Ev.bits]
    · intro input lgwin large hhdr hpay
      obtain ⟨_, hmd'⟩ := hmd
      have hmd2 : MdLog o (b.length + ([] : List Bool).length + ([] : List Bool).length) 0 rest := by
        simpa [Ev.bits, evOpen] using hmd'
      have hpay' : PayloadDecode (DecRd wo (2 ^ lgwin - 16) large b.length ⟨[], [4, 11, 15, 16]⟩ input) input o 0 ⟨0, 0, 0, 0⟩ rest := by
        simpa [PayloadDecode, Ev.adv, Ev.step] using hpay
      obtain ⟨s', b1, b2⟩ := body_blocks wo (2 ^ lgwin - 16) large b.length ⟨[], [4, 11, 15, 16]⟩ input o rest hnw [] []
        ⟨[], [4, 11, 15, 16]⟩ 0 0 ⟨0, 0, 0, 0⟩ (Blocks.nil _ _) (Or.inl ⟨rfl, rfl⟩) (by simp) hmd2
        (by simpa [logOpen, evOpen] using hopn.symm) hpay'
      have hbody : logBits o (.window b :: rest) = b ++ logBodyBits o rest := by
        rw [logBodyBits_noWindow o hnw]; simp [logBits, Ev.bits]
      unfold readStreamPrefix
      rw [hb, hbody, hhdr (logBodyBits o rest)]
      simp only [List.length_append, Nat.add_sub_cancel]
      have hrd := reader_needs_more_at_boundary b1 (logBodyBits o rest).length.succ (by simp)
      simp only [List.nil_append] at hrd
      rw [hrd, b2]
      have : logAdv ⟨0, 0, 0, 0⟩ (Ev.window b :: rest) = logAdv ⟨0, 0, 0, 0⟩ rest := by
        simp [logAdv, Ev.adv, Ev.step]
      rw [this, Nat.zero_add]
  · rw [hini0] at a1; cases a1

/-- **flush_prefix_read_by_stream_reader_closed** — no hypothesis about the header left.  For every history on a
fresh encoder with at least one `compress_stream` call that ends with a completed flush in state PROCESSING there
are a log and the parameters `p` in force at the first call such that the delivered bytes start with the window
bits for `W = clampWindow p.quality p.lgwin p.large_window` (`stream_header_is_declared_window`), and if the
payload-encoder events decode for a reader with the window `2^W − 16` in form `p.large_window`
(`PayloadDecode (DecRd …)`), the streaming RFC reader fed exactly the delivered bytes answers `needMore` with the
input covered so far. -/
theorem flush_prefix_read_by_stream_reader_closed {wo : WordOracle} {o : Oracle} {fuel : Nat}
    {calls : List Call} {s0 s : St} {t : Trace}
    (hf : IsFresh s0) (hops : HistOK calls) (hw : histLen calls < two64)
    (h : run o fuel calls s0 {} = .ok (s, t)) (hF : Flushed s) (hst : s.streamState = .processing) :
    ∃ (log : List Ev) (header : List Bool),
      bytesBits t.delivered = header ++ logBodyBits o log ∧
      ((∀ e ∈ log, ∀ k r, e ≠ .fast k r) → logAdv ⟨0, 0, 0, 0⟩ log = s.inputPos) ∧
      (log = [] ∨ ∃ p : BV.Stream.Params,
        (∀ rest, BV.HeaderSpec.readWbits (header ++ rest)
          = some ((BV.HeaderSpec.clampWindow p.quality p.lgwin p.largeWindow).toNat, p.largeWindow, rest)) ∧
        ∀ input : Bytes,
          PayloadDecode (DecRd wo (2 ^ (BV.HeaderSpec.clampWindow p.quality p.lgwin p.largeWindow).toNat - 16) p.largeWindow
            header.length ⟨[], [4, 11, 15, 16]⟩ input) input o 0 ⟨0, 0, 0, 0⟩ log →
          readStreamPrefix wo (bytesBits t.delivered) = .needMore (input.take (logAdv ⟨0, 0, 0, 0⟩ log))) := by
  obtain ⟨log, header, hb, _, hadv, hh, hrd⟩ := flush_prefix_read_by_stream_reader_md (wo := wo) hf hops hw h hF hst
  refine ⟨log, header, hb, hadv, ?_⟩
  rcases hh with h0 | ⟨sf, hsf, rfl⟩
  · exact Or.inl h0
  · refine Or.inr ⟨sf.params, fun rest => stream_header_is_declared_window hsf rest, ?_⟩
    intro input hpay
    exact hrd input _ _ (fun rest => stream_header_is_declared_window hsf rest) hpay

/-! ## non-vacuity -/

/-- a concrete flushed prefix: stream header `0` (WBITS 16), one stored meta-block holding the bytes 61 62
(ISLAST 0, MNIBBLES 4, MLEN − 1 = 1, ISUNCOMPRESSED 1, fill, the two bytes), then the sync padding block -/
def examplePrefix : List Bool :=
  [false] ++ ([false] ++ [false, false] ++ bitsOf 16 1 ++ [true] ++ [false, false, false] ++ bitsOf 8 0x61 ++ bitsOf 8 0x62)
    ++ padBits 0

/-- the streaming reader yields "ab" and asks for more input; on the same bytes cut inside the sync block it
does not (this reader then reports `stuck`); with a last-empty meta-block (`11` + fill) appended it is done -/
example : readStreamPrefix (fun _ _ _ => none) examplePrefix = .needMore [0x61, 0x62] := by decide
example : readStreamPrefix (fun _ _ _ => none) (examplePrefix.take 45) = .stuck [0x61, 0x62] := by decide
example : readStreamPrefix (fun _ _ _ => none) (examplePrefix ++ [true, true, false, false, false, false, false, false])
    = .done [0x61, 0x62] [] := by decide
example : examplePrefix.length = 48 := by decide

/-- a flushed prefix WITH a metadata block: header `0`, a metadata block of two bytes written behind the 1-bit
carry (header `0 11 0 10 00000001`, fill, AA BB), the stored block "ab", the sync block: the reader yields "ab"
and asks for more — the metadata does not show -/
example : readStreamPrefix (fun _ _ _ => none)
    ([false] ++ (mdHeaderTail 2 1 ++ bytesBits [0xAA, 0xBB])
      ++ ([false] ++ [false, false] ++ bitsOf 16 1 ++ [true] ++ [false, false, false, false] ++ bitsOf 8 0x61 ++ bitsOf 8 0x62)
      ++ padBits 0) = .needMore [0x61, 0x62] := by decide

/-- a concrete history with EMIT_METADATA between the input and the FLUSH ends `Flushed` in state PROCESSING -/
def flushedMdB (r : Out (St × Trace)) : Bool :=
  match r with
  | .ok (s, t) => s.pending.length == 0 && s.lastBytesBits == 0 && s.lastFlushPos == s.inputPos && s.inputPos == 3 &&
      s.streamState == .processing && t.mdata == [7, 8] && t.delivered.length != 0
  | _ => false
example : flushedMdB (run BV.Props.C01.exampleOracle 40
    [.setParam 1 5, .stream 0 [1, 2, 3] 100, .stream 3 [7, 8] 100, .stream 1 [] 100] St.new {}) = true := by decide

/-- `Blocks` / `DecRd` are inhabited by real meta-blocks: the sync block at every carry -/
example : Blocks (fun _ _ _ => none) 65520 false 3 ⟨[7], [4, 11, 15, 16]⟩ (padBits 3) ⟨[7], [4, 11, 15, 16]⟩ :=
  (sync_block_read_by_stream_reader _ _ _ 3 3 (by decide) _).1

/-- a concrete history ends `Flushed`: quality 5, FLUSH with three bytes and ample room
(the oracle of C01's example) -/
def flushedB (r : Out (St × Trace)) : Bool :=
  match r with
  | .ok (s, t) => s.pending.length == 0 && s.lastBytesBits == 0 && s.lastFlushPos == s.inputPos && s.inputPos == 3 &&
      t.delivered.length != 0 && t.reqs.length == 1
  | _ => false
example : flushedB (run BV.Props.C01.exampleOracle 40 [.setParam 1 5, .stream 1 [1, 2, 3] 100] St.new {}) = true := by decide

end BV.Props.C04Run
