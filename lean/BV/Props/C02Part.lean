/-
C02 (part 5, composed) — `compress_part`'s success condition derived from the STREAM MODEL.

`BV.Props.C02.part_succeeds_when_stream_fits` takes the encoder's answer as a recorded value and
ASSUMES the one-shot contract ("a FINISH call handed the whole piece and enough room returns
`true`, finished, everything consumed").  Here that contract is a THEOREM about the stream machine
`BV.Stream.compressStream` (BV/Model/Stream.lean, the model of `compress_stream` of C20/C13), from
  * C20 `stream_refines_contract` — FINISH is accepted in `processing` (and on a fresh encoder),
  * C20 `request_completes`      — an accepted call that returns with room left has nothing
                                    pending, and with nothing pending the FINISH is complete
                                    (state FINISHED, all input consumed),
  * C13 `call_ledger`            — bytes stored + room left = room offered,
with NO hypothesis on the payload-encoder oracle.  `compress_part` over the stream model therefore
  * makes exactly ONE `compress_stream` call (the call is accepted; the loop ends either way),
  * answers `Ok(bytes)` iff everything the call produced (`out ++ pending`) fits the job buffer
    `BrotliEncoderMaxCompressedSize(len)`, and then `bytes` = the complete stream (nothing pending,
    state FINISHED, whole piece consumed),
  * answers `Err(InsufficientOutputSpace)` otherwise — never `Ok` with a cut stream (D19).

Scope.  The encoder state at the call is either FRESH (job 0; every job at quality 0/1 and every
job with an empty prefix: `set_custom_dictionary…` returns before touching positions) or ANY state
satisfying the stream invariant `Inv` in `processing` outside a metadata block.  A quality ≥ 2 job
with a non-empty prefix is NOT covered: after its dictionary call the positions start at `dict_size`
with `custom_dictionary = true`, and the stream model (M8) has neither the dictionary call nor that
flag — its catable prelude keeps the bare `assert!(last_processed_pos_ < 2)`, so from such a state
the MODEL predicts a panic and the `Inv`-form below is vacuous there.  For those jobs the one-shot
contract remains the recorded-answer hypothesis of `part_succeeds_when_stream_fits` (checked on every
recomputed job by the `multi` stage: `Ok` ⇒ finished).
That the stream does fit (`out ++ pending ≤ BrotliEncoderMaxCompressedSize`) is C08's subject
(`stream_total_le_bound_*`, quality ≥ 2; false at quality 0/1 with small windows).
-/
import BV.Props.C02
import BV.Props.C20
import BV.Lemmas.StreamTotal
import BV.Model.StreamJob

namespace BV.Props.C02Part
open BV.Multi BV.Multi.Res BV.Lemmas.Multi BV.Stream BV.StreamJob

/-! ## 1. the one-shot contract of a FINISH call, from C20 + the byte ledger -/

/-- `finish_call_contract`.  In any state satisfying the invariant, `processing`, outside a
metadata block: `compress_stream(FINISH, input, cap)` returns `true`; the bytes stored and the room
left add up to `cap`; and `is_finished()` holds afterwards IF AND ONLY IF everything the call
produced — delivered `out` plus still `pending` — is at most `cap` bytes; in that case nothing is
pending and the whole input has been consumed.  No hypothesis on the payload encoder. -/
theorem finish_call_contract {o : Oracle} {fuel cap : Nat} {input : Bytes} {s s' : St} {io' : Io} {r : Bool}
    (hI : Inv s) (hst : s.streamState = .processing) (hrm : s.remainingMetadata = u32Max)
    (hw : s.inputPos + input.length < two64)
    (h : compressStream o fuel s 2 input cap = .ok (s', io', r)) :
    r = true ∧ io'.out.length + io'.availOut = cap ∧ io'.availIn ≤ input.length ∧
    (isFinished s' = true ↔ io'.out.length + s'.pending.length ≤ cap) ∧
    (isFinished s' = true → io'.availIn = 0 ∧ s'.pending = []) := by
  have habs : absC s = .processing := by rw [absC_eq hI hrm, hst]
  have hr : r = true := by
    rw [(BV.Props.C20.stream_refines_contract (by decide) hI hw h).1, habs]
    simp [Contract.accepts]
  subst hr
  obtain ⟨hc1, hc2⟩ := BV.Props.C20.request_completes (by decide) hI hrm hw h
  have hL := call_ledger 0 (by decide) hI hw h
  have hbal : io'.out.length + io'.availOut = cap := hL.outBal
  have hin : io'.availIn ≤ input.length := hL.inLe
  have hfin : s'.pending.length = 0 → isFinished s' = true ∧ io'.availIn = 0 := by
    intro hp
    have hd := hc2 hp
    have := hd.finishDone rfl hst
    exact ⟨by simp [isFinished, this, hp], hd.consumed⟩
  refine ⟨rfl, hbal, hin, ⟨?_, ?_⟩, ?_⟩
  · intro hf
    have hp : s'.pending.length = 0 := by
      simp only [isFinished, decide_eq_true_eq] at hf
      exact hf.2
    omega
  · intro hfit
    by_cases hp : s'.pending.length = 0
    · exact (hfin hp).1
    · have : io'.availOut = 0 := by
        by_cases ha : io'.availOut = 0
        · exact ha
        · exact absurd (hc1 ha) hp
      omega
  · intro hf
    have hp : s'.pending.length = 0 := by
      simp only [isFinished, decide_eq_true_eq] at hf
      exact hf.2
    exact ⟨(hfin hp).2, List.eq_nil_of_length_eq_zero hp⟩

/-- the same on a FRESH encoder (`BrotliEncoderStateStruct::new` + parameters): the first call
initialises it -/
theorem finish_call_contract_fresh {o : Oracle} {fuel cap : Nat} {input : Bytes} {s s' : St} {io' : Io} {r : Bool}
    (hf : IsFresh s) (hw : input.length < two64)
    (h : compressStream o fuel s 2 input cap = .ok (s', io', r)) :
    r = true ∧ io'.out.length + io'.availOut = cap ∧ io'.availIn ≤ input.length ∧
    (isFinished s' = true ↔ io'.out.length + s'.pending.length ≤ cap) ∧
    (isFinished s' = true → io'.availIn = 0 ∧ s'.pending = []) := by
  rw [compressStream_ensure] at h
  obtain ⟨hI, _, _⟩ := inv_fresh hf
  obtain ⟨p, rfl⟩ := hf
  exact finish_call_contract hI (by simp [ensureInitialized, St.new]) (by simp [ensureInitialized, St.new])
    (by simpa [ensureInitialized, St.new] using hw) h

/-! ## 2. `compress_part` over the stream model -/

/-! `observed` (what the loop of `compress_part` sees of the call) is `BV.StreamJob.observed`,
BV/Model/StreamJob.lean. -/

/-- the states `compress_part` can be in when it issues its call: fresh, or (after a dictionary
call) initialised, `processing`, outside a metadata block -/
def CallState (s : St) (inLen : Nat) : Prop :=
  (IsFresh s ∧ inLen < two64) ∨
  (Inv s ∧ s.streamState = .processing ∧ s.remainingMetadata = u32Max ∧ s.inputPos + inLen < two64)

theorem finish_call_contract' {o : Oracle} {fuel cap : Nat} {input : Bytes} {s s' : St} {io' : Io} {r : Bool}
    (hs : CallState s input.length)
    (h : compressStream o fuel s 2 input cap = .ok (s', io', r)) :
    r = true ∧ io'.out.length + io'.availOut = cap ∧ io'.availIn ≤ input.length ∧
    (isFinished s' = true ↔ io'.out.length + s'.pending.length ≤ cap) ∧
    (isFinished s' = true → io'.availIn = 0 ∧ s'.pending = []) := by
  rcases hs with ⟨hf, hw⟩ | ⟨hI, hst, hrm, hw⟩
  · exact finish_call_contract_fresh hf hw h
  · exact finish_call_contract hI hst hrm hw h

/-- `part_of_stream_model`.  Job `i < t` of an `n`-byte input (`n·t < 2^64`), its piece handed to
the stream machine in one FINISH call with the job buffer `BrotliEncoderMaxCompressedSize(len)` as
room: `compress_part` answers `Ok(out)` when everything the call produced fits the buffer and
`Err(InsufficientOutputSpace)` otherwise — after this ONE call, whatever further answers (`rest`)
the encoder might have given.  The one-shot contract is not assumed: it is `finish_call_contract`. -/
theorem part_of_stream_model (i t n : Nat) (hi : i < t) (ht64 : t < U64) (hnt : n * t < U64)
    {o : Oracle} {fuel : Nat} {input : Bytes} {s s' : St} {io' : Io} {r : Bool}
    (hlen : input.length = bnd t n (i + 1) - bnd t n i) (hs : CallState s input.length)
    (h : compressStream o fuel s 2 input (maxCompressedSize input.length) = .ok (s', io', r))
    (rest : List EncAns) :
    compressPart i t n (observed input.length s' io' r :: rest) =
      if io'.out.length + s'.pending.length ≤ maxCompressedSize input.length then .ok io'.out else .err := by
  obtain ⟨hr, hbal, hin, hiff, hfin⟩ := finish_call_contract' hs h
  subst hr
  by_cases hfit : io'.out.length + s'.pending.length ≤ maxCompressedSize input.length
  · rw [if_pos hfit]
    have hf := hiff.2 hfit
    obtain ⟨ha, _⟩ := hfin hf
    unfold observed
    rw [hf, ha]
    exact BV.Props.C02.part_succeeds_when_stream_fits i t n io'.out rest (input.length - 0) hi ht64 hnt
      (by omega) (by rw [← hlen]; omega)
  · rw [if_neg hfit]
    have hnf : isFinished s' = false := by
      cases hf : isFinished s' with
      | false => rfl
      | true => exact absurd (hiff.1 hf) hfit
    unfold observed compressPart
    rw [getRange_eq i t n hi ht64 hnt, hnf]
    have hm : bnd t n i ≤ bnd t n (i + 1) := bnd_mono t n (show i ≤ i + 1 by omega)
    have hle := bnd_le t n (i + 1) (by omega) (by omega)
    dsimp only
    rw [if_neg (by omega), if_neg (by omega), if_neg (by omega)]
    simp only [partLoop]
    rw [if_neg (by rw [← hlen]; omega), if_neg (by omega)]
    simp

/-- `part_ok_iff_finished`: over the stream model `compress_part` is `Ok` exactly when the encoder
reports a finished stream, and then its bytes are the COMPLETE output of the encoder (nothing
pending, whole piece consumed) — and it is never `panic`/`spin` once the call returns. -/
theorem part_ok_iff_finished (i t n : Nat) (hi : i < t) (ht64 : t < U64) (hnt : n * t < U64)
    {o : Oracle} {fuel : Nat} {input : Bytes} {s s' : St} {io' : Io} {r : Bool}
    (hlen : input.length = bnd t n (i + 1) - bnd t n i) (hs : CallState s input.length)
    (h : compressStream o fuel s 2 input (maxCompressedSize input.length) = .ok (s', io', r))
    (rest : List EncAns) :
    (isFinished s' = true →
      compressPart i t n (observed input.length s' io' r :: rest) = .ok io'.out ∧
      s'.pending = [] ∧ io'.availIn = 0) ∧
    (isFinished s' = false → compressPart i t n (observed input.length s' io' r :: rest) = .err) := by
  obtain ⟨_, _, _, hiff, hfin⟩ := finish_call_contract' hs h
  have hp := part_of_stream_model i t n hi ht64 hnt hlen hs h rest
  refine ⟨fun hf => ?_, fun hnf => ?_⟩
  · rw [hp, if_pos (hiff.1 hf)]
    exact ⟨rfl, (hfin hf).2, (hfin hf).1⟩
  · rw [hp, if_neg]
    intro hfit
    rw [hiff.2 hfit] at hnf
    cases hnf

/-! ## 4. end to end over the stream machine -/

/-- `multi_ok_over_stream_model`.  `CompressMulti` with EVERY job run over the stream machine on a
fresh encoder — the situation of ALL jobs at quality 0/1 (the dictionary is not used there; the
qualities at which the cut-stream defect D19 lived), of single-threaded calls, and of inputs shorter
than the thread count — any spawner, any payload encoders `os i`, any capacity: if the call returns
`Ok(k)` then for every job its FINISH call returned `true` with `is_finished()`, nothing pending
and the whole piece consumed, the job's bytes are ALL bytes that call produced, and `output[..k]`
is the reference splice of these complete streams, `k ≤` capacity, input handed back.
(C02 `multi_ok_sound` composed with `part_ok_iff_finished`; no oracle hypothesis.) -/
theorem multi_ok_over_stream_model (sp : Spawner) (t n cap : Nat) (os : Nat → Oracle) (fuel : Nat) (p : Params)
    (pieces : Nat → Bytes) (ht64 : t < U64) (hnt : n * t < U64)
    (hlen : ∀ i, i < t → (pieces i).length = bnd t n (i + 1) - bnd t n i)
    (r : MultiRet) (k : Nat)
    (h : compressMulti sp t (fun i => streamJob (os i) fuel p i t n (pieces i)) cap = ok r)
    (hk : r.result = .ok k) :
    ∃ bs : List (List Nat), bs.length = t ∧ spliceAll cap bs = some r.out ∧ k = r.out.length ∧
      r.returned = true ∧
      ∀ i b, bs[i]? = some b → ∃ s' io' rr,
        compressStream (os i) fuel { St.new with params := jobParams p i } 2 (pieces i)
          (maxCompressedSize (pieces i).length) = .ok (s', io', rr) ∧
        rr = true ∧ isFinished s' = true ∧ s'.pending = [] ∧ io'.availIn = 0 ∧ b = io'.out := by
  obtain ⟨bs, hl, hj, hs, hkk, hret⟩ := BV.Props.C02.multi_ok_sound sp t (fun i => streamJob (os i) fuel p i t n (pieces i)) cap r k h hk
  refine ⟨bs, hl, hs, hkk, hret, ?_⟩
  intro i b hib
  have hit : i < t := by
    rw [← hl]
    exact (List.getElem?_eq_some_iff.1 hib).1
  have hjob := hj i b hib
  have hw : (pieces i).length < two64 := by
    have h1 := hlen i hit
    have h2 : bnd t n (i + 1) ≤ n := bnd_le t n (i + 1) (by omega) (by omega)
    have h3 : n ≤ n * t := Nat.le_mul_of_pos_right n (by omega)
    have h4 : U64 = two64 := by simp [U64, two64]
    omega
  unfold streamJob at hjob
  cases hc : compressStream (os i) fuel { St.new with params := jobParams p i } 2 (pieces i)
      (maxCompressedSize (pieces i).length) with
  | panic => rw [hc] at hjob; cases hjob
  | fuel => rw [hc] at hjob; cases hjob
  | ok v =>
    obtain ⟨s', io', rr⟩ := v
    rw [hc] at hjob
    simp only at hjob
    have hcs : CallState ({ St.new with params := jobParams p i } : St) (pieces i).length :=
      Or.inl ⟨⟨_, rfl⟩, hw⟩
    obtain ⟨hfin, hnf⟩ := part_ok_iff_finished i t n hit ht64 hnt (hlen i hit) hcs hc []
    obtain ⟨hrr, _, _, _, _⟩ := finish_call_contract' hcs hc
    cases hf : isFinished s' with
    | false => rw [hnf hf] at hjob; cases hjob
    | true =>
      obtain ⟨h1, h2, h3⟩ := hfin hf
      rw [h1] at hjob
      injection hjob with hjob
      exact ⟨s', io', rr, rfl, hrr, hf, h2, h3, hjob.symm⟩

/-! ## 5. non-vacuity -/

/-- a fresh encoder is a `CallState`; so is an initialised one -/
example : CallState St.new 5 := Or.inl ⟨⟨{}, rfl⟩, by decide⟩
example : CallState (ensureInitialized St.new) 5 :=
  Or.inr ⟨(inv_fresh ⟨{}, rfl⟩).1, by simp [ensureInitialized, St.new], by simp [ensureInitialized, St.new],
    by simp [ensureInitialized, St.new, two64]⟩

/-- the theorems are not vacuous: a toy payload encoder (48 bits per invocation incl. the 4-bit
window carry = 6 whole bytes) on a fresh encoder, job 0 of 1 over 3 bytes.  With the job buffer
(`BrotliEncoderMaxCompressedSize(3)` bytes) the call returns `true`, finished, everything consumed
and `compress_part` is `Ok` with the 6 bytes; with room for 2 bytes only the same call returns
`true`, NOT finished, 2 bytes delivered and 4 pending — the case `compress_part` answers with
`Err(InsufficientOutputSpace)` since 8a7542f. -/
def toyOracle : Oracle := fun _ _ => { bits := List.replicate 44 true }

example : (match compressStream toyOracle 200 St.new 2 [1, 2, 3] (maxCompressedSize 3) with
    | .ok (s', io', r) =>
      decide (compressPart 0 1 3 [observed 3 s' io' r] = .ok [251, 255, 255, 255, 255, 255]) &&
        r && isFinished s' && decide (io'.availIn = 0)
    | _ => false) = true := by decide +kernel

example : (match compressStream toyOracle 200 St.new 2 [1, 2, 3] 2 with
    | .ok (s', io', r) => r && !isFinished s' && decide (io'.out.length = 2) && decide (s'.pending.length = 4)
    | _ => false) = true := by decide +kernel

end BV.Props.C02Part
