import BV.Gen.LedgerSkel
import BV.Lemmas.AllocSkelChk
import BV.Lemmas.AllocSkelInv
/-!
# C09, the temporaries inside one `encode_data` call: generated allocation skeletons are balanced

`BV.Gen.skelFns` (file `BV/Gen/LedgerSkel.lean`, written by `tools/gen_skel.py` from the CURRENT Rust
sources on every check) holds, per function of the call trees below `BV.Gen.skelRoots`, its allocation
skeleton: control structure (sequence, branch, loop, early return, calls) with only the statements that
allocate, free or move a block.  `BV.Skel.rootOf` inlines the calls (`expand`); `BV.Skel.chk` is a static
checker (abstract interpretation over "this place may hold a block") that accepts a skeleton only if on
EVERY path — any branch choice, any loop count, any early return, any allocation of length 0 —

* no place is overwritten while it may hold a block (`x = allocate(..)` without a preceding free),
* no local goes out of scope while it may hold a block (a `return` before the `free_cell`, a free moved
  into an `if`),
* at the exit of the root nothing is held except under the root's declared out-parameters.

`skeletons_balanced` runs the checker on every generated root: a missing free on one path of the Rust
code changes the generated value and this theorem no longer holds (`decide` fails); a refactoring that
keeps the balance keeps it true; a function the extractor cannot read becomes `opaque` (listed in
`BV.Gen.skelUnavailable`; for those the run-time check of the `ledger` stage still decides).
The meaning of the checker's verdict is proved once and for all in `BV/Lemmas/AllocSkelChk.lean` (`chk_sound`:
the checker is sound for the path semantics `BV.Skel.run`, for every script); `skeleton_balanced` below puts
the two together.
-/
namespace BV.Props.C09Skel
open BV.Skel BV.Ledger

/-- inlining depth (the call trees are acyclic and at most 7 deep today) -/
def fuel : Nat := 16

def rootSk (r : String × Nat × List Nat) : Option Sk := rootOf BV.Gen.skelFns fuel r.2.1 r.2.2

/-- a root with the parameters under which places may already hold a block when it is entered -/
abbrev RootIn := (String × Nat × List Nat) × List Nat

def rootsIn : List RootIn := BV.Gen.skelRoots.zip BV.Gen.skelRootsIn

/-- the checker's verdict for one root (a root without skeleton makes no claim) -/
def rootOk (r : RootIn) : Bool :=
  match rootSk r.1 with
  | none => true
  | some s => balancedFrom (entryVars r.2 s) r.1.2.2 s

/-- **skeletons_balanced**: every allocation skeleton generated from the current tree passes the checker -/
theorem skeletons_balanced : rootsIn.all rootOk = true := by decide +kernel

/-- **skeleton_balanced**: for every generated root that has a skeleton, on EVERY path (`sc` = any script of
    branch choices, loop counts, zero-length allocations) through the expanded skeleton, started in a state
    where at most the places under the root's entry parameters hold a block (none for the function roots;
    `self.*` for the method roots `StrideEval::update_block_type`, `CommandQueue::push`): no block is lost
    (nothing overwritten, no local leaves its scope holding a block — early returns included), and whatever
    is still held at the exit sits under one of the root's declared out-parameters -/
theorem skeleton_balanced (r : RootIn) (hr : r ∈ rootsIn) (sk : Sk)
    (hsk : rootSk r.1 = some sk) (s : St) (hs : Abs (entryVars r.2 sk) s) (sc : List Nat) :
    (run sk (s, sc)).st.lost = s.lost ∧
    ∀ p ∈ (run sk (s, sc)).st.store, ∃ a, p.1.head? = some a ∧ a ∈ r.1.2.2 := by
  have h := List.all_eq_true.mp skeletons_balanced r hr
  simp only [rootOk, hsk] at h
  exact balancedFrom_sound _ r.1.2.2 sk h s hs sc

/-- the roots without entry- and out-parameters, started with an empty store, end with an empty store:
    every block allocated on the path was freed on the path -/
theorem skeleton_balanced_closed (r : RootIn) (hr : r ∈ rootsIn) (hi : r.2 = []) (he : r.1.2.2 = [])
    (sk : Sk) (hsk : rootSk r.1 = some sk) (s : St) (hs : s.store = []) (sc : List Nat) :
    (run sk (s, sc)).st.lost = s.lost ∧ (run sk (s, sc)).st.store = [] := by
  have ha : Abs (entryVars r.2 sk) s := by intro p hp; rw [hs] at hp; cases hp
  obtain ⟨h1, h2⟩ := skeleton_balanced r hr sk hsk s ha sc
  refine ⟨h1, ?_⟩
  cases hst : (run sk (s, sc)).st.store with
  | nil => rfl
  | cons p rest =>
    obtain ⟨a, _, ha'⟩ := h2 p (by rw [hst]; exact List.mem_cons_self)
    rw [he] at ha'
    cases ha'

/-! ## The same, read on the alloc / free EVENTS

`run` writes an event log (`Ev.alloc` / `Ev.free` with block identities, the format of the counting allocator);
`BV.Ledger.judge` is the independent spec-side replay of such a log.  `SInv` (proved for every skeleton and
every script, `BV/Lemmas/AllocSkelInv.lean`) says the judge's live set is exactly "held by tracked places +
lost".  With `skeleton_balanced` (nothing lost; only out-parameters hold blocks) this gives: -/

/-- **skeleton_balanced_events**: for every covered root, on every path, the event log of the run (the old
    log followed by the events of the run) is judged clean — no double free, no free of an unknown or foreign
    block, no identity handed out twice — and its live set has changed by exactly the blocks that tracked
    places hold at the exit minus those they held at the entry: every OTHER block allocated during the run was
    freed during the run, once, through the allocator that produced it -/
theorem skeleton_balanced_events (r : RootIn) (hr : r ∈ rootsIn) (sk : Sk) (hsk : rootSk r.1 = some sk)
    (s : St) (hinv : SInv s) (hs : Abs (entryVars r.2 sk) s) (sc : List Nat) :
    (∃ evs, (run sk (s, sc)).st.log = s.log ++ evs) ∧
    (judge (run sk (s, sc)).st.log).clean = true ∧
    (∀ b, (judge (run sk (s, sc)).st.log).live.count b + s.held.count b =
      (judge s.log).live.count b + (run sk (s, sc)).st.held.count b) ∧
    (∀ p ∈ (run sk (s, sc)).st.store, ∃ a, p.1.head? = some a ∧ a ∈ r.1.2.2) := by
  obtain ⟨h1, h2⟩ := skeleton_balanced r hr sk hsk s hs sc
  have hi' := SInv.run sk s sc hinv
  refine ⟨run_log_prefix sk s sc, (BV.Ledger.clean_iff_bad _).mpr hi'.bad, ?_, h2⟩
  intro b
  rw [hi'.live b, hinv.live b, h1]
  omega

/-- roots without entry- and out-parameters (`WriteMetaBlockInternal`, the three store functions, the two Zopfli
    front ends): the live set of the event log after the run EQUALS the live set before it -/
theorem skeleton_balanced_events_closed (r : RootIn) (hr : r ∈ rootsIn) (hi : r.2 = []) (he : r.1.2.2 = [])
    (sk : Sk) (hsk : rootSk r.1 = some sk) (s : St) (hinv : SInv s) (hs : s.store = []) (sc : List Nat) :
    (judge (run sk (s, sc)).st.log).clean = true ∧
    ∀ b, (judge (run sk (s, sc)).st.log).live.count b = (judge s.log).live.count b := by
  have ha : Abs (entryVars r.2 sk) s := by intro p hp; rw [hs] at hp; cases hp
  obtain ⟨_, hc, hl, _⟩ := skeleton_balanced_events r hr sk hsk s hinv ha sc
  obtain ⟨_, hst⟩ := skeleton_balanced_closed r hr hi he sk hsk s hs sc
  refine ⟨hc, fun b => ?_⟩
  have := hl b
  simp [St.held, hs, hst] at this
  exact this

/-- non-vacuity: the hypotheses are met by a fresh ledger -/
example : SInv ({ m8 := 3 } : St) ∧ ({ m8 := 3 } : St).store = [] := ⟨SInv.init 3, rfl⟩

/-- the two lists are generated side by side -/
theorem roots_aligned : BV.Gen.skelRoots.length = BV.Gen.skelRootsIn.length := by decide

/-- the expansion left no call behind (the inlining depth suffices) -/
def callFree : Sk → Bool
  | .seq a b => callFree a && callFree b
  | .alt a b => callFree a && callFree b
  | .loop b => callFree b
  | .scope _ b => callFree b
  | .call .. => false
  | _ => true

theorem skeletons_expanded :
    BV.Gen.skelRoots.all (fun r => match rootSk r with | none => true | some s => callFree s) = true := by
  decide +kernel

/-! ## The checker is not vacuous: the defect classes it is there for are rejected -/

/-- `let t = allocate(..); if c { return; } free_cell(t)` — the early return leaks `t` -/
example : balanced (.scope 9 (.seq (.alloc 1 [9, 2]) (.seq (.alt .ret .skip) (.free 1 [9, 2])))) = false := by decide
/-- the free moved inside an `if` -/
example : balanced (.scope 9 (.seq (.alloc 1 [9, 2]) (.alt (.free 1 [9, 2]) .skip))) = false := by decide
/-- re-allocation in a loop without freeing the old block -/
example : balanced (.scope 9 (.seq (.loop (.alloc 1 [9, 2])) (.free 1 [9, 2]))) = false := by decide
/-- the growth idiom `new = allocate; free_cell(replace(&mut old, new))` in a loop, released at the end: accepted -/
example : balanced (.scope 9 (.seq (.loop (.seq (.alloc 1 [9, 3]) (.seq (.free 1 [9, 2]) (.move [9, 3] [9, 2]))))
    (.free 1 [9, 2]))) = true := by decide
/-- a method entered on a live object: the growth idiom is accepted, the plain overwrite `self.score = new`
    (the old block dropped without `free_cell`) is rejected -/
example : balancedFrom [[5, 6]] [5] (.alt (.seq (.alloc 1 [9, 2]) (.seq (.free 1 [5, 6]) (.move [9, 2] [5, 6]))) .skip) = true := by decide
example : balancedFrom [[5, 6]] [5] (.alt (.seq (.alloc 1 [9, 2]) (.move [9, 2] [5, 6])) .skip) = false := by decide
/-- a callee that fills an out-parameter and a caller that forgets one of two fields -/
example : balanced (expand [.seq (.alloc 1 [5, 6]) (.alloc 2 [5, 7])] 2
    (.scope 1000000 (.seq (.call 0 0 [(5, [1000000, 8])]) (.free 1 [1000000, 8, 6])))) = false := by decide
example : balanced (expand [.seq (.alloc 1 [5, 6]) (.alloc 2 [5, 7])] 2
    (.scope 1000000 (.seq (.call 0 0 [(5, [1000000, 8])]) (.seq (.free 1 [1000000, 8, 6]) (.free 2 [1000000, 8, 7]))))) = true := by decide

/-- the generated tree is not trivial: `WriteMetaBlockInternal` is a root, it has a skeleton, and that
    skeleton really allocates -/
def hasAlloc : Sk → Bool
  | .seq a b => hasAlloc a || hasAlloc b
  | .alt a b => hasAlloc a || hasAlloc b
  | .loop b => hasAlloc b
  | .scope _ b => hasAlloc b
  | .alloc .. => true
  | _ => false

end BV.Props.C09Skel
