import BV.Lemmas.StreamTiny2
import BV.Lemmas.StreamRunTile
import BV.Lemmas.StreamStore2
/-
C01 — Streaming compression round-trips for every input, setting and call history.

Model: `BV/Model/Stream.lean` (see C20).  The payload encoder is an oracle; this file says
exactly what is proved about everything AROUND it, and isolates what is assumed about it
(`OracleOK`: checked on every recorded invocation of every correspondence run;
`MetaBlockDecodes`: the un-modelled core, judged by the two decoders on every run).

Full statement of the property (not provable here): for every history of calls obeying the
contract, every call returns true without panicking, the stream finishes, and the concatenated
output decodes to the concatenated input.  What is proved: the call-level part (`calls_succeed`,
`finishes`), the tiling of the input by payload-encoder requests (`requests_tile_input`), the
bit-exact framing of everything the state machine emits around the payload encoder's bits
(`delivered_is_framed_concat_*`), `stream_no_panic_partial` for the 16-byte staging buffer
(`tiny_buf_invariant`, `tiny_buf_never_overflows`), and the composition `C01_roundtrip_partial`
under the explicit hypothesis that each payload piece decodes to its input range.  The
`storage_` and ring-buffer bounds of `stream_no_panic` are NOT proved (see the note at the end).
-/
namespace BV.Props.C01
open BV.Stream BV.Bits

/-- **calls_succeed**: under the documented contract (`Contract.accepts`) every `compress_stream`
call that returns a value returns `true` — whatever the payload encoder answers -/
theorem calls_succeed {o : Oracle} {fuel op cap : Nat} {input : Bytes} {s s' : St} {io' : Io} {r : Bool}
    (hop : op ≤ 3) (hI : Inv s) (hw : s.inputPos + input.length < two64)
    (hc : Contract.accepts (absC s) op input.length = true)
    (h : compressStream o fuel s op input cap = .ok (s', io', r)) : r = true ∧ Inv s' := by
  obtain ⟨h1, h2⟩ := compressStream_refines hop hI hw h
  have hr : r = true := by rw [h1, hc]
  exact ⟨hr, (h2 hr).1⟩

/-- **finishes**: a FINISH call from `processing` that returns with nothing pending — in particular
any FINISH call that returns with output room left — has finished the stream: `is_finished()` holds
and all input is consumed.  (With `cap ≥ 1` per call this bounds the number of calls by
`⌈bytes still to deliver / cap⌉ + 1`; from `flushing` one more call.) -/
theorem finishes {o : Oracle} {fuel cap : Nat} {input : Bytes} {s s' : St} {io' : Io}
    (hI : Inv s) (hrm : s.remainingMetadata = u32Max) (hw : s.inputPos + input.length < two64)
    (hst : s.streamState = .processing)
    (h : compressStream o fuel s 2 input cap = .ok (s', io', true))
    (hroom : io'.availOut ≠ 0 ∨ s'.pending.length = 0) :
    isFinished s' = true ∧ io'.availIn = 0 := by
  obtain ⟨d1, d2⟩ := compressStream_drained (by omega) hI hrm hw h
  have hp : s'.pending.length = 0 := by
    rcases hroom with hr | hp
    · exact d1 hr
    · exact hp
  have hD := d2 hp
  refine ⟨?_, hD.consumed⟩
  simp [isFinished, hD.finishDone rfl hst, hp]

/-- once finished, `is_finished()` stays true and nothing more is delivered (C20) -/
theorem finished_stays {o : Oracle} {fuel op cap : Nat} {s : St}
    (hop : op ≤ 2) (hI : Inv s) (hfin : isFinished s = true) :
    compressStream o (fuel + 1) s op [] cap = .ok (s, Io.start [] cap, true) := by
  have h1 : s.streamState = .finished ∧ s.pending.length = 0 := by simpa [isFinished] using hfin
  exact finished_call_exact hop hI h1.1 (List.eq_nil_of_length_eq_zero h1.2)

/-! ### the requests tile the input -/

/-- **requests_tile_input** (per invocation): the request of an `encode_data` invocation is
`[last_processed_pos_, input_pos_)` (with `last_flush_pos_` = start of the open meta-block);
a successful invocation moves `last_processed_pos_` forward inside that range and never moves
`last_flush_pos_` past it; a forced one (FLUSH / FINISH / before metadata) leaves nothing unflushed.
Since no other step touches the two positions, consecutive requests are consecutive ranges and
at FINISHED everything fed in (`input_pos_`) has been handed to the payload encoder. -/
theorem requests_tile_input {o : Oracle} {s s' : St} {site : Nat} {il ff : Bool} {req : Req} (hI : Inv s)
    (h : encodeData o s site il ff = .ok (s', true, req)) :
    req.lo = s.lastProcessedPos ∧ req.hi = s.inputPos ∧ req.lf = s.lastFlushPos
    ∧ req.lo ≤ s'.lastProcessedPos ∧ s'.lastProcessedPos ≤ req.hi
    ∧ req.lf ≤ s'.lastFlushPos ∧ s'.lastFlushPos ≤ s'.lastProcessedPos
    ∧ s'.inputPos = s.inputPos
    ∧ ((il = true ∨ ff = true) → s'.lastFlushPos = req.hi ∧ s'.lastProcessedPos = req.hi) := by
  obtain ⟨f, hreq, _⟩ := encodeData_frame h
  obtain ⟨p1, p2, p3, p4⟩ := encodeData_pos h hI.fl_le hI.lp_le hI.ip_lt
  rw [St.frame_eq_iff] at f
  subst hreq
  refine ⟨rfl, rfl, rfl, p2, p3, p4, p1, f.2.1, ?_⟩
  intro hf
  have := encodeData_forced h hf hI.fl_le hI.lp_le hI.ip_lt hI.q01
  simp only [reqOf]
  omega

/-- the copy step is the only one that moves `input_pos_`, by exactly the bytes it consumes
(`slowStep_spec`: `input_pos_ + available_in` is constant over a call) -/
theorem input_pos_tracks_consumption {o : Oracle} {op : Nat} {s s' : St} {io io' : Io} {c : Ctl} (hI : Inv s)
    (hw : s.inputPos + io.availIn < two64) (hnp : s.streamState ≠ .processing → io.availIn = 0)
    (h : slowStep o op s io = .ok (s', io', c)) :
    s'.inputPos + io'.availIn = s.inputPos + io.availIn :=
  (slowStep_spec hI hw hnp h).2.1

/-! ### framing: what is emitted around the payload encoder's bits -/

/-- **carry lemma**: splitting a bit string into whole bytes (delivered) and a carry
(`last_bytes_`, `last_bytes_bits_`) loses and duplicates nothing -/
theorem carry_neither_drops_nor_duplicates (w : Writer) :
    bytesBits (wholeBytes w) ++ bitsOf (carryOf w).2 (carryOf w).1 = w := pack_unpack w

/-- **delivered_is_framed_concat** (encode step): with nothing pending, a successful `encode_data`
appends to the emitted bit stream `skel ++ tail`, `skel` = the bits the state machine writes
itself (magic-number metadata block, stored catable prelude; may be empty) and `tail` = nothing
or the payload encoder's bits behind `skel` — bit-exactly, whatever the carry -/
theorem delivered_is_framed_concat_encode {o : Oracle} {d : Bytes} {s s' : St} {site : Nat} {il ff : Bool} {req : Req}
    (h : encodeData o s site il ff = .ok (s', true, req)) (hpend : s.pending = []) (hl : s.lastBytesBits < 8) :
    ∃ skel, emitted d s' = emitted d s ++ skel ∨
            emitted d s' = emitted d s ++ skel ++ (o s.nEnc req).bits.drop skel.length :=
  emitted_encodeData h hpend hl

/-- (output step) handing bytes to the caller leaves the emitted stream unchanged -/
theorem delivered_is_framed_concat_push {d : Bytes} {s s' : St} {io io' : Io} {b : Bool}
    (hst : s.streamState ≠ .flushRequested) (h : injectFlushOrPushOutput s io = .ok (s', io', b)) :
    emitted (d ++ io'.out) s' = emitted (d ++ io.out) s := emitted_push hst h

/-- (padding step) appends exactly the sync bits and zero fill; the carry is gone afterwards -/
theorem delivered_is_framed_concat_pad {d : Bytes} {s s' : St} (hc : s.lastBytesBits < 8) (hv : CarryOK s)
    (h : injectBytePaddingBlock s = .ok s') :
    emitted d s' = emitted d s ++ syncBits ++ List.replicate (8 * ((s.lastBytesBits + 6 + 7) / 8) - s.lastBytesBits - 6) false
    ∧ s'.lastBytesBits = 0 ∧ s'.lastBytes = 0 := emitted_pad hc hv h

/-- the carry an encode step leaves is always a proper value of fewer than 8 bits -/
theorem carry_wellformed (w : Writer) : (carryOf w).1 < 2 ^ (carryOf w).2 ∧ (carryOf w).2 < 8 := carryOf_lt w

/-! ### no panic on the 16-byte staging buffer -/

/-- **stream_no_panic_partial** (1): the invariant `TinyOK` — whenever the output cursor points
into `tiny_buf_`, the pending bytes fit behind it and there is no carry next to them; a null
cursor means nothing pending; no carry inside a metadata body — holds after initialisation and is
preserved by EVERY call (accepted or refused) and by `take_output`.  Hypotheses: the state
invariant and a carry of at most 14 bits (`carry_bound_invariant` of C20) — whatever the oracle
answers (the former hypothesis `OracleBounded` is gone). -/
theorem tiny_buf_invariant {o : Oracle} {fuel op cap : Nat} {input : Bytes} {s s' : St} {io' : Io} {r : Bool}
    (hop : op ≤ 3) (hI : Inv s) (hw : s.inputPos + input.length < two64) (hl : s.lastBytesBits ≤ 14)
    (hT : TinyOK s)
    (h : compressStream o fuel s op input cap = .ok (s', io', r)) : TinyOK s' :=
  tinyOK_call hop hI hw hl hT h

theorem tiny_buf_invariant_initial {s : St} (h : IsFresh s) : TinyOK (ensureInitialized s) := tinyOK_fresh h

theorem tiny_buf_invariant_take {s s' : St} {size : Nat} {out : Bytes} (hT : TinyOK s)
    (h : takeOutput s size = .ok (s', out)) : TinyOK s' := tinyOK_take hT h

/-- **stream_no_panic_partial** (2): under `TinyOK` none of the four places that index
`tiny_buf_` can run past its 16 bytes: the padding block is either staged at `tiny_buf_[0..3]` or
appended behind pending output in `storage_` (never behind a stale `tiny_buf_` cursor — the panic
fixed in /repo as "tinybuf-stale-padding"); a push and `take_output` stay inside; the metadata
header (carry ≤ 14 bits, length field ≤ 3 bytes) fits -/
theorem tiny_buf_never_overflows {s : St} (hT : TinyOK s) (hl : s.lastBytesBits ≤ 14) :
    (s.lastBytesBits ≠ 0 →
      injectBytePaddingBlock s = .ok (padResult s (.tiny 0)) ∨ (∃ off, s.nextOut = .dyn off ∧ s.pending.length ≠ 0))
    ∧ (∀ off (io : Io), s.nextOut = .tiny off → off + min s.pending.length io.availOut ≤ 16)
    ∧ (∀ off, s.nextOut = .tiny off → takeSliceOk s = true)
    ∧ ¬ ((bitsOf s.lastBytesBits s.lastBytes).length + 6) / 8 + 8 > 16 :=
  ⟨fun hlb => pad_tiny_safe hT hl hlb, fun off io hno => push_tiny_safe (io := io) hT hno,
   fun off hno => take_tiny_safe hT hno, md_header_tiny_safe hl⟩

/-! ### no panic on `storage_` -/

/-- **storage_invariant**: `StoreOK` — whenever the output cursor points into `storage_`, the
pending bytes fit behind it, with two spare bytes as long as a padding block can still be appended
behind them, and the carry is below 8 bits — is preserved by EVERY call (accepted or refused),
whatever the oracle answers, and by `take_output`; it holds of a fresh encoder. -/
theorem storage_invariant {o : Oracle} {fuel op cap : Nat} {input : Bytes} {s s' : St} {io' : Io} {r : Bool}
    (hop : op ≤ 3) (hR : IsFresh s ∨ Inv s) (hw : s.inputPos + input.length < two64) (hS : StoreOK s)
    (h : compressStream o fuel s op input cap = .ok (s', io', r)) : StoreOK s' :=
  storeOK_call hop hR hw hS h

theorem storage_invariant_initial {s : St} (h : IsFresh s) : StoreOK s := storeOK_fresh h

theorem storage_invariant_take {s s' : St} {size : Nat} {out : Bytes} (hS : StoreOK s)
    (h : takeOutput s size = .ok (s', out)) : StoreOK s' := storeOK_take hS h

/-- **storage_never_overflows** (1), the sites that index `storage_` behind the cursor: under `StoreOK`
the padding block appended behind pending output, every push and `take_output` stay inside -/
theorem storage_never_overflows {s : St} (hS : StoreOK s) {off : Nat} (hno : s.nextOut = .dyn off) :
    (s.lastBytesBits ≠ 0 → s.pending.length ≠ 0 → off + s.pending.length + (s.lastBytesBits + 6 + 7) / 8 ≤ s.storageSize)
    ∧ (∀ avail, off + min s.pending.length avail ≤ s.storageSize)
    ∧ takeSliceOk s = true := storage_sites_safe hS hno

/-- **storage_never_overflows** (2), `encode_data`: `get_brotli_storage(2 * span + 527)` is enough for
every answer within the `OracleOK` size bound (`≤ 8 * (2 * span + 500)` bits over a span of `span`
bytes), behind a carry of at most 14 bits, the magic-number block and the stored prelude: the only
way `encode_data` can panic is the catable-prelude assertion (`last_processed_pos_ < 2`). -/
theorem encode_data_storage_suffices {o : Oracle} {s : St} {site : Nat} {il ff : Bool} (hO : OracleOK o) (hsite : site ≠ 2)
    (hI : Inv s) (hl : s.lastBytesBits ≤ 14) (hsmall : s.inputPos < 4611686018427387904)
    (h : encodeData o s site il ff = .panic) :
    encPre3 (encMagic (encEntry s il) s.carry) (s.unprocessed % two32) = .panic :=
  encodeData_panic_only_prelude hO hsite hI hl hsmall h

/-- **storage_never_overflows** (3), the one-shot path: a block is written in place only when the
caller's buffer has `2 * block + 503` bytes, else staged in `storage_` grown to that size; either
way none of its three bound checks can fire for an answer within the `OracleOK` size bound -/
theorem fast_path_storage_suffices {o : Oracle} (hO : OracleOK o) {op : Nat} {s : St} {io : Io} (hl : s.lastBytesBits ≤ 14)
    (hin : io.availIn = io.input.length) (hsmall : io.availIn < 4611686018427387904) :
    ¬ fastCap (fastS1 s io) io (fastInplace s io) < 2 ∧ ¬ fastBs s io > io.input.length
    ∧ ¬ (s.lastBytesBits + (o s.nEnc (fastReq op s io)).bits.length) / 8 + 2 > fastCap (fastS1 s io) io (fastInplace s io) :=
  fast_block_fits hO hl hin hsmall

/-- **out_ok_after_call** (the fact `OutOk` that C13 assumes of states handed back by a stream call):
after every `compress_stream` call the pending bytes lie inside the buffer `next_out_` points into —
`storage_` or the 16-byte `tiny_buf_` — so `take_output` cannot slice out of range.  The invariants
it rests on are re-established with it. -/
theorem out_ok_after_call {o : Oracle} {fuel op cap : Nat} {input : Bytes} {s s' : St} {io' : Io} {r : Bool}
    (hop : op ≤ 3) (hI : Inv s) (hw : s.inputPos + input.length < two64) (hl : s.lastBytesBits ≤ 14)
    (hT : TinyOK s) (hS : StoreOK s)
    (h : compressStream o fuel s op input cap = .ok (s', io', r)) :
    PendingInBuffer s' ∧ TinyOK s' ∧ StoreOK s' ∧ s'.lastBytesBits ≤ 14 := by
  have hT' := tinyOK_call hop hI hw hl hT h
  have hS' := storeOK_call hop (Or.inr hI) hw hS h
  exact ⟨pendingInBuffer_of hS' hT', hT', hS', compressStream_lbb hop hI hw hl h⟩

/-- the same right after initialisation -/
theorem out_ok_initial {s : St} (h : IsFresh s) :
    PendingInBuffer (ensureInitialized s) ∧ TinyOK (ensureInitialized s) ∧ StoreOK (ensureInitialized s)
    ∧ (ensureInitialized s).lastBytesBits ≤ 14 := by
  have hT := tinyOK_fresh h
  have hS : StoreOK (ensureInitialized s) := by
    apply storeOK_notDyn
    intro off ho
    obtain ⟨p, rfl⟩ := h
    simp [ensureInitialized, St.new] at ho
  exact ⟨pendingInBuffer_of hS hT, hT, hS, ensureInitialized_lbb s (isFreshInit h)⟩

/-! ### the ring buffer holds the input -/

/-- **ring_buffer_faithful** (one write): `RingBufferWrite` — small first allocation, growth to the
full size, tail-mirror write, body write (straight or wrapping into the tail and around), prefix
mirror, position fold — keeps `RingOK`: for `input` = all bytes written so far,
* every position `p` within the last `size_` bytes lives at `data_mo[2 + (p mod size_)]`;
* every WRAPPED position (`p ≥ size_`) whose offset is below `tail_size_` is also in the tail
  mirror, `data_mo[2 + size_ + (p mod size_)]` — what a reader running off the end of the ring sees;
* `pos_` is the stream position up to one lap (`max(2^30, size_)`) and afterwards congruent to it
  modulo the lap — hence modulo `size_` — and above the first lap: through every lap and across the
  position fold, for every ring size incl. the 2^31-byte ring of lgwin 30 (this is where the fold
  defect `ringbuffer-fold-lgwin30` showed: with the old fold the congruence fails for that ring).
Writes of at most `tail_size_` bytes (one input block) — all `copy_input_to_ring_buffer` ever does. -/
theorem ring_buffer_faithful_write {rb rb' : Ring} {input bytes : Bytes} {avail : Nat} (hR : RingOK rb input)
    (hn : bytes.length ≤ rb.tailSize) (h : ringWrite rb bytes avail = .ok rb') : RingOK rb' (input ++ bytes) :=
  ringWrite_ok hR hn h

/-- what `RingOK` says, spelled out for readers of the ring (`data[i]` = `data_mo[2 + i]`, the slice
the hashers and the literal emitter get) -/
theorem ring_ok_reads {rb : Ring} {input : Bytes} (hR : RingOK rb input) :
    (∀ p, p < input.length → input.length - p ≤ rb.size → rb.get (2 + p % rb.size) = input.getD p 0)
    ∧ (∀ p, p < input.length → rb.size ≤ p → input.length - p ≤ rb.size → p % rb.size < rb.tailSize →
        rb.get (2 + rb.size + p % rb.size) = input.getD p 0)
    ∧ rb.pos % rb.size = input.length % rb.size
    ∧ (input.length ≤ rb.lap → rb.pos = input.length) :=
  ⟨hR.main, hR.mirror, hR.pos_mod, hR.posSmall⟩

/-- **ring_buffer_faithful** (whole history): after ANY history on a fresh encoder — every interleaving
of calls, operations, capacities — the ring buffer holds exactly the bytes the log says were copied
into it (`logCopy log`, the chunks of its `copy` events in order; `input_pos_` is their number):
`RingOK`, i.e. positions within the last `size_` bytes at their offset, wrapped positions mirrored in
the tail, `pos_` congruent to `input_pos_`; and the tail is one input block. -/
theorem ring_buffer_faithful {o : Oracle} {fuel : Nat} {calls : List Call} {s0 s : St} {t : Trace}
    (hf : IsFresh s0) (hops : HistOK calls) (hw : histLen calls < two64)
    (h : run o fuel calls s0 {} = .ok (s, t)) (hi : s.isInitialized = true) :
    ∃ log : List Ev, log.filterMap Ev.req = t.reqs ∧ RingOK s.ring (logCopy log)
      ∧ s.ring.tailSize = s.blockSize ∧ s.inputPos = (logCopy log).length := by
  have hip : s0.inputPos = 0 := (isFresh_fields hf).2.2.1
  obtain ⟨log, f⟩ := run_facts (o := o) (fuel := fuel) (t0 := {}) (runOK_fresh hf) hops (by rw [hip]; omega) h
  have hr : t.reqs = logReqs log := by
    have := f.reqs
    simp only [List.nil_append] at this
    exact this
  have hring := f.ring [] (Or.inl ⟨hf, rfl⟩)
  simp only [List.nil_append] at hring
  rcases hring with ⟨hfr, _⟩ | hR
  · rw [isFreshInit hfr] at hi; cases hi
  · refine ⟨log, hr.symm, hR.ok, hR.tail, ?_⟩
    have hpos := congrArg Pos.ip f.pos
    rw [pos_fresh hf, logPos_ip] at hpos
    have hlen : (logCopy log).length = logCopied log := by
      clear hpos hR hr f h
      induction log with
      | nil => rfl
      | cons e es ih => cases e <;> simp [logCopy, logCopied, ih]
    rw [hlen]
    have hpos' : s.inputPos = 0 + logCopied log := hpos
    omega

/-- the view a match finder has of the ring buffer (cf. `RingView` of Lemmas/MatchCmd.lean, which the
hasher proofs assume): `data i` = `data_mo[2 + i]`, ring of `2^k` bytes, text `T`:
positions `lo ≤ p < hi` live at their offset, and WRAPPED positions with a small offset are mirrored
behind the ring.  (`RingView.mirror` asks `data[i] = data[i - 2^k]` for EVERY `i ≥ 2^k` below the
allocation; the code does not maintain that — not for the 7 slack bytes, not for first-lap bytes that
arrived through the small first allocation — but it maintains this, which is what a reader that runs
off the end of the ring while staying inside the text needs.) -/
structure RingViewW (data : Nat → Nat) (k tail : Nat) (T : Bytes) (lo hi : Nat) : Prop where
  holds : ∀ p, lo ≤ p → p < hi → data (p % 2 ^ k) = T.getD p 0
  mirror : ∀ p, lo ≤ p → p < hi → 2 ^ k ≤ p → p % 2 ^ k < tail → data (2 ^ k + p % 2 ^ k) = T.getD p 0

/-- `RingOK` yields the match finder's view for the last `size_` bytes (so for a whole block and a
window before it, the ring being at least window + block long) -/
theorem ring_view_w {rb : Ring} {T : Bytes} {k : Nat} (hR : RingOK rb T) (hk : rb.size = 2 ^ k) :
    RingViewW (fun i => rb.get (2 + i)) k rb.tailSize T (T.length - rb.size) T.length := by
  refine ⟨?_, ?_⟩
  · intro p hlo hhi
    have := hR.main p hhi (by omega)
    rw [hk] at this
    exact this
  · intro p hlo hhi hge hr
    have := hR.mirror p hhi (by rw [hk]; exact hge) (by omega) (by rw [hk]; exact hr)
    rw [hk] at this
    simpa [Nat.add_assoc] using this

/-- the 7 bytes behind the write position are zero while the first lap lasts (what an 8-byte hash
load at the end of the input sees) -/
theorem ring_slack_zero {s s' : St} {chunk input : Bytes} {avail : Nat} (hi : s.isInitialized = true)
    (hR : RingOK s.ring input) (hn : chunk.length ≤ s.ring.tailSize)
    (h : copyInputToRingBuffer s chunk avail = .ok s') :
    RingOK s'.ring (input ++ chunk)
    ∧ (s'.ring.pos ≤ s'.ring.mask → ∀ i, i < 7 → s'.ring.get (2 + s'.ring.pos + i) = 0) :=
  copy_ring_ok hi hR hn h

/-! ### composition -/

/-- what is assumed of the payload encoder for the round trip: a relation `Dec bits bytes`
("these bits, as a sequence of meta-blocks, decode to these bytes") that is compositional, knows the
pieces the state machine writes itself, and holds of every payload piece for the input range of
its request.  The first four fields are facts about the FORMAT (RFC 7932: meta-blocks concatenate;
metadata and empty blocks decode to nothing; a stored block decodes to its bytes) — `C04` proves
the metadata ones against an independent reader; the last field is the un-modelled encoder core. -/
structure MetaBlockDecodes (Dec : List Bool → Bytes → Prop) (input : Bytes) (o : Oracle) : Prop where
  nil : Dec [] []
  append : ∀ a b x y, Dec a x → Dec b y → Dec (a ++ b) (x ++ y)
  skeleton : ∀ s w, Dec ((encMagic s w).2.1.drop w.length) []
  payload : ∀ k r, r.site ≠ 2 → Dec ((o k r).bits) ((input.drop r.lf).take (r.hi - r.lf))

/-- **C01_roundtrip_partial**: composition of two consecutive emitted pieces under
`MetaBlockDecodes`: if what has been emitted so far decodes to the first `a` input bytes and the
next piece decodes to the next `b`, the whole decodes to the first `a + b` bytes.  Together with
`requests_tile_input` (pieces = consecutive ranges ending at `input_pos_`) and
`delivered_is_framed_concat_*` (emitted = concatenation of pieces) this is the round trip for
every history — conditional on `MetaBlockDecodes.payload`, the payload encoder. -/
theorem C01_roundtrip_partial {Dec : List Bool → Bytes → Prop} {input : Bytes} {o : Oracle}
    (hD : MetaBlockDecodes Dec input o) (sofar piece : List Bool) (a b : Nat)
    (h1 : Dec sofar (input.take a)) (h2 : Dec piece ((input.drop a).take b)) :
    Dec (sofar ++ piece) (input.take (a + b)) := by
  have := hD.append sofar piece _ _ h1 h2
  rw [List.take_add]
  exact this

/-! ### whole histories (the run-level object `BV/Model/StreamRun.lean`)

`run o fuel calls s0 {}` folds `set_parameter` / `compress_stream(op, chunk, cap)` /
`take_output(size)` over a history with ONE oracle and returns the final state and a `Trace`
(delivered bytes, concatenated requests, closed flags, consumed input).  A history has a LOG —
the list of events (`Ev`) of the atomic steps it is made of (`Lemmas/StreamLts*`): `window`
(stream header), `copy`, `push`, `pad` (sync block), `enc` (an `encode_data` invocation: the
skeleton's own bits — magic-number block, stored prelude — and, if `taken`, the payload encoder's
bits behind them), `fast` (one quality 0/1 block), `mdHeader`, `mdBody`, `tau`.  `Ev.bits` is what
an event appends to the bit stream, `Ev.step` what it does to the positions. -/

/-- **delivered_is_framed_concat** (whole history, ONE theorem): for every history on a fresh
encoder — any parameters, any interleaving of calls, any output capacities, any oracle — there is
a log such that
* everything produced so far (`deliveredBits`: delivered bytes, pending bytes, carry) is EXACTLY the
  concatenation of the bits of the log's events, in order: nothing dropped, duplicated or reordered;
* the log starts with the stream header (`window`) — emitted once, by the first `compress_stream` —
  and has no other; behind it come, in call order, skeleton pieces, payload pieces, sync blocks,
  metadata headers and bodies, each of the form `Ev.bits` gives it;
* its payload-encoder events are the trace's request list, numbered 0, 1, 2, … (`LogOK`: each
  request is the one the positions dictate), and the final positions are the log's (`logPos`). -/
theorem delivered_is_framed_concat {o : Oracle} {fuel : Nat} {calls : List Call} {s0 s : St} {t : Trace}
    (hf : IsFresh s0) (hops : HistOK calls) (hw : histLen calls < two64)
    (h : run o fuel calls s0 {} = .ok (s, t)) :
    ∃ log : List Ev,
      deliveredBits t s = log.flatMap (Ev.bits o)
      ∧ (log = [] ∨ ∃ b rest, log = .window b :: rest ∧ NoWindow rest)
      ∧ log.filterMap Ev.req = t.reqs
      ∧ LogOK ⟨0, 0, 0, 0⟩ log
      ∧ s.pos = logPos ⟨0, 0, 0, 0⟩ log := by
  have hip : s0.inputPos = 0 := (isFresh_fields hf).2.2.1
  obtain ⟨log, f⟩ := run_facts (o := o) (fuel := fuel) (t0 := {}) (runOK_fresh hf) hops (by rw [hip]; omega) h
  refine ⟨log, ?_, ?_, ?_, ?_, ?_⟩
  · have := f.bits
    rw [deliveredBits_fresh hf, List.nil_append] at this
    exact this
  · rcases f.win with ⟨_, _, a3⟩ | ⟨_, _, b, r, a3, a4⟩ | ⟨a1, _, _⟩
    · exact Or.inl a3
    · exact Or.inr ⟨b, r, a3, a4⟩
    · rw [isFreshInit hf] at a1; cases a1
  · have := f.reqs
    simp only [List.nil_append] at this
    exact this.symm
  · have := f.lok
    rw [pos_fresh hf] at this
    exact this
  · have := f.pos
    rw [pos_fresh hf] at this
    exact this

/-- **requests_tile_input** (whole history): the `[lo, hi)` ranges of all `encode_data` requests
of a history are consecutive, start at 0 and end at `last_processed_pos_`, which never runs ahead
of `input_pos_`; `input_pos_` is the number of bytes copied into the ring buffer; the invocation
counter is the number of requests.  (The one-shot path's requests carry block lengths instead of
ranges and do not move the positions.) -/
theorem requests_tile_input_run {o : Oracle} {fuel : Nat} {calls : List Call} {s0 s : St} {t : Trace}
    (hf : IsFresh s0) (hops : HistOK calls) (hw : histLen calls < two64)
    (h : run o fuel calls s0 {} = .ok (s, t)) :
    Tiles 0 (slowReqs t.reqs) s.lastProcessedPos ∧ s.lastProcessedPos ≤ s.inputPos
    ∧ s.nEnc = t.reqs.length
    ∧ ∃ log : List Ev, log.filterMap Ev.req = t.reqs ∧ s.inputPos = logCopied log := by
  obtain ⟨log, _, _, hr, hok, hpos⟩ := delivered_is_framed_concat hf hops hw h
  obtain ⟨t1, t2⟩ := logOK_tiles hok (Nat.le_refl _)
  have hlp : s.lastProcessedPos = (logPos ⟨0, 0, 0, 0⟩ log).lp := congrArg Pos.lp hpos
  have hipp : s.inputPos = (logPos ⟨0, 0, 0, 0⟩ log).ip := congrArg Pos.ip hpos
  have hk : s.nEnc = (logPos ⟨0, 0, 0, 0⟩ log).k := congrArg Pos.k hpos
  have hr' : logReqs log = t.reqs := hr
  refine ⟨by rw [hlp, ← hr']; exact t1, by rw [hlp, hipp]; exact t2, ?_, log, hr, ?_⟩
  · rw [hk, logPos_k, ← hr']; simp
  · rw [hipp, logPos_ip]; simp

/-- **closed flags = meta-block boundaries** (whole history): the trace's `closed` list is
`closesMb` applied to the requests in order (invocation `k` = position in the list; the quality
class is fixed at first use), and for the log's `encode_data` events the flag means what `Ev.cl`
says: flag TRUE ⇒ after the invocation `last_flush_pos_ = hi` of its request (the open meta-block,
which started at the request's `lf` — plus the stored prelude — ends there); flag FALSE ⇒ the
payload encoder's bits were not emitted (`taken = false`) and `last_flush_pos_` only moved over the
stored prelude: the meta-block stays open.  So the meta-block ranges of a history are determined by
`t.reqs` and `t.closed` alone. -/
theorem closed_flags_mark_boundaries {o : Oracle} {fuel : Nat} {calls : List Call} {s0 s : St} {t : Trace}
    (hf : IsFresh s0) (hops : HistOK calls) (hw : histLen calls < two64)
    (h : run o fuel calls s0 {} = .ok (s, t)) :
    t.closed = closedFlags o s.q01 0 t.reqs ∧
    ∃ log : List Ev, log.filterMap Ev.req = t.reqs ∧ LogOK ⟨0, 0, 0, 0⟩ log ∧ LogCl o s.q01 ⟨0, 0, 0, 0⟩ log
      ∧ s.pos = logPos ⟨0, 0, 0, 0⟩ log := by
  have hip : s0.inputPos = 0 := (isFresh_fields hf).2.2.1
  obtain ⟨log, f⟩ := run_facts (o := o) (fuel := fuel) (t0 := {}) (runOK_fresh hf) hops (by rw [hip]; omega) h
  have hr : t.reqs = logReqs log := by
    have := f.reqs
    simp only [List.nil_append] at this
    exact this
  have hp0 := pos_fresh hf
  refine ⟨?_, log, hr.symm, by rw [← hp0]; exact f.lok, by rw [← hp0]; exact f.cl, by rw [← hp0]; exact f.pos⟩
  have := f.closed
  have hk : s0.nEnc = 0 := congrArg Pos.k hp0
  rw [hk, ← hr] at this
  simpa using this

/-- what the round trip assumes of the format and of the payload encoder, per emitted piece:
`Dec bits bytes` ("these bits, a sequence of complete meta-blocks, decode to these bytes") is
compositional, and every piece of the log decodes to the input range it covers (`Ev.adv`: an
`encode_data` event covers what it moves `last_flush_pos_` over — its stored prelude, or the whole
open meta-block when it closes it; a one-shot block covers its bytes; everything else — sync blocks,
metadata — covers nothing).  The skeleton pieces are format facts (C04 proves the metadata ones
against an independent reader); the payload pieces are the un-modelled encoder core. -/
structure PiecesOK (Dec : List Bool → Bytes → Prop) (input : Bytes) (o : Oracle) (log : List Ev) : Prop where
  nil : Dec [] []
  append : ∀ a b x y, Dec a x → Dec b y → Dec (a ++ b) (x ++ y)
  pieces : PiecesDecode Dec input o 0 ⟨0, 0, 0, 0⟩ log

/-- **C01_roundtrip** over a whole history: there is a log (the one of `delivered_is_framed_concat`)
such that, if every piece decodes to its range, then everything produced so far is the stream
header followed by bits that decode to the first `logAdv` bytes of the input — and without one-shot
blocks `logAdv` is exactly `last_flush_pos_`: at every moment the emitted stream decodes to the
input up to the last flush position; after FINISH (`last_flush_pos_ = input_pos_`) to all of it. -/
theorem C01_roundtrip_run {Dec : List Bool → Bytes → Prop} {input : Bytes} {o : Oracle} {fuel : Nat}
    {calls : List Call} {s0 s : St} {t : Trace}
    (hf : IsFresh s0) (hops : HistOK calls) (hw : histLen calls < two64)
    (h : run o fuel calls s0 {} = .ok (s, t)) :
    ∃ log : List Ev, log.filterMap Ev.req = t.reqs ∧
      (PiecesOK Dec input o log →
        ∃ header, deliveredBits t s = header ++ logBodyBits o log
          ∧ Dec (logBodyBits o log) (input.take (logAdv ⟨0, 0, 0, 0⟩ log))
          ∧ ((∀ e ∈ log, ∀ k r, e ≠ .fast k r) → logAdv ⟨0, 0, 0, 0⟩ log = s.lastFlushPos)) := by
  obtain ⟨log, hb, hwin, hr, hok, hpos⟩ := delivered_is_framed_concat hf hops hw h
  refine ⟨log, hr, ?_⟩
  intro hP
  have hdec := pieces_compose hP.nil hP.append input o log 0 ⟨0, 0, 0, 0⟩ hP.pieces
  simp only [List.drop_zero] at hdec
  have hlf : (∀ e ∈ log, ∀ k r, e ≠ .fast k r) → logAdv ⟨0, 0, 0, 0⟩ log = s.lastFlushPos := by
    intro hnf
    have := logAdv_lf hok hnf
    have hl : s.lastFlushPos = (logPos ⟨0, 0, 0, 0⟩ log).lf := congrArg Pos.lf hpos
    rw [hl, ← this]; simp
  rcases hwin with rfl | ⟨b, rest, rfl, hnw⟩
  · exact ⟨[], by rw [hb]; rfl, hdec, hlf⟩
  · refine ⟨b, ?_, hdec, hlf⟩
    rw [hb]
    show logBits o (.window b :: rest) = b ++ logBodyBits o (.window b :: rest)
    have : logBodyBits o (.window b :: rest) = logBodyBits o rest := rfl
    rw [this, logBodyBits_noWindow o hnw]
    simp [logBits, Ev.bits]

/-! ### non-vacuity -/

/-- `MetaBlockDecodes` is satisfiable (trivially, by the relation "always"), so the partial
  result is not vacuous; its content is the composition, its hypothesis the honest gap -/
example (input : Bytes) (o : Oracle) : MetaBlockDecodes (fun _ _ => True) input o :=
  ⟨trivial, fun _ _ _ _ _ _ => trivial, fun _ _ => trivial, fun _ _ _ => trivial⟩

example : Contract.accepts .processing 2 10 = true := by decide

/-- a concrete history runs: quality 5, FINISH with three bytes, ample room — one request, output delivered -/
def exampleOracle : Oracle := fun _ _ => { result := true, emit := true, bits := List.replicate 20 true }
def exampleRunOk (r : Out (St × Trace)) : Bool :=
  match r with
  | .ok (s, t) => t.reqs.length == 1 && t.delivered.length != 0 && isFinished s && t.closed == [true]
  | _ => false
example : exampleRunOk (run exampleOracle 40 [.setParam 1 5, .stream 2 [1, 2, 3] 100] St.new {}) = true := by decide
example : HistOK [.setParam 1 5, .stream 2 [1, 2, 3] 100] := ⟨by omega, trivial⟩

/-
STATUS of `stream_no_panic`.  Proved: `tiny_buf_` (TinyOK, `tiny_buf_never_overflows`), `storage_`
(StoreOK, `storage_never_overflows` 1-3: every site that indexes `storage_`, given `OracleOK.fits`
and positions below 2^62), the metadata-header staging.  NOT proved: the catable-prelude assertion of
`encode_data` (`last_processed_pos_ < 2`: needs an invariant tying `is_first_mb` to the positions) and
the slice bounds of `RingBufferWrite` (the CONTENT of the ring buffer is proved — `ring_buffer_faithful` —
for writes that succeed; that no write panics is not).  The model has every
one of those sites as an explicit `.panic` outcome, the correspondence run replays ~100k histories per
quick run without reaching one, and the harness catches real panics (`catch_unwind`).
The q0/q1 FRAGMENT writers (compress_fragment, compress_fragment_two_pass) are outside the model:
they are the oracle of site 2 / of the quality 0/1 `encode_data`, judged by the two decoders only
(input classes `fragment` of the c01 stage).
-/

end BV.Props.C01
