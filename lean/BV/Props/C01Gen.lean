/-
C01 ("streams crossing 2^30 / 2^32 positions"), translator tie: theorems stated DIRECTLY over the
Lean definition generated from the current Rust text of `WrapPosition` (src/enc/encode.rs,
tools/rs2lean.py -> BV/Gen/FnC01.lean) — the function that folds the 64-bit stream position into
the 32-bit positions the match finders and the ring buffer work with.  What the encoder relies on:
the low 30 bits survive (every ring-buffer / hash mask is below 2^30), nothing changes below
3 GiB, a wrapped position never becomes small again (so "have we filled the window" tests stay
true), and the result always fits the `u32` it is stored in.
-/
import BV.Gen.FnC01

namespace BV.Props.C01Gen
open BV.Gen.FnC01

/-- closed form of the generated function, for every `u64` position -/
theorem wrap_position_closed_form (p : Nat) (hp : p < 2 ^ 64) :
    WrapPosition p =
      if p / 2 ^ 30 > 2 then p % 2 ^ 30 + ((p / 2 ^ 30 - 1) % 2 + 1) * 2 ^ 30 else p % 2 ^ 32 := by
  have h64 : (2:Nat) ^ 64 = 18446744073709551616 := by decide
  have h30 : (2:Nat) ^ 30 = 1073741824 := by decide
  have h32 : (2:Nat) ^ 32 = 4294967296 := by decide
  rw [h64] at hp
  unfold WrapPosition
  simp only [Nat.shiftRight_eq_div_pow, Nat.reduceMod, h30, h32, decide_eq_true_eq]
  split
  · rename_i hgb
    have hmask : (1 <<< 30 % 4294967296 + 4294967296 - 1) % 4294967296 = 2 ^ 30 - 1 := by decide
    rw [hmask, Nat.and_two_pow_sub_one_eq_mod, Nat.and_one_is_mod, h30]
    have e1 : (p / 1073741824 + 18446744073709551616 - 1) % 18446744073709551616 = p / 1073741824 - 1 := by omega
    rw [e1]
    have hlt : (p / 1073741824 - 1) % 2 < 2 := Nat.mod_lt _ (by decide)
    have e2 : ((p / 1073741824 - 1) % 2 % 4294967296 + 1) % 4294967296 = (p / 1073741824 - 1) % 2 + 1 := by omega
    rw [e2, Nat.shiftLeft_eq, h30]
    have e3 : ((p / 1073741824 - 1) % 2 + 1) * 1073741824 % 4294967296 = ((p / 1073741824 - 1) % 2 + 1) * 1073741824 := by omega
    rw [e3]
    have hlow : p % 4294967296 % 1073741824 < 2 ^ 30 := by omega
    have := Nat.shiftLeft_add_eq_or_of_lt hlow ((p / 1073741824 - 1) % 2 + 1)
    rw [Nat.shiftLeft_eq, h30] at this
    rw [Nat.or_comm, ← this]
    omega
  · rfl

/-- the low 30 bits of the position survive -/
theorem wrap_position_low_bits (p : Nat) (hp : p < 2 ^ 64) : WrapPosition p % 2 ^ 30 = p % 2 ^ 30 := by
  rw [wrap_position_closed_form p hp]
  have h30 : (2:Nat) ^ 30 = 1073741824 := by decide
  have h32 : (2:Nat) ^ 32 = 4294967296 := by decide
  rw [h30, h32]
  split <;> omega

/-- below 3 GiB nothing changes -/
theorem wrap_position_identity (p : Nat) (hp : p < 3 * 2 ^ 30) : WrapPosition p = p := by
  have h30 : (2:Nat) ^ 30 = 1073741824 := by decide
  have h32 : (2:Nat) ^ 32 = 4294967296 := by decide
  rw [h30] at hp
  rw [wrap_position_closed_form p (by have : (2:Nat) ^ 64 = 18446744073709551616 := by decide
                                      omega)]
  rw [h30, h32]
  split <;> omega

/-- a position of at least 1 GiB never wraps to less than 1 GiB, and the result fits in `u32`
(it stays below 3 GiB once wrapping has started) -/
theorem wrap_position_range (p : Nat) (hp : p < 2 ^ 64) :
    WrapPosition p < 2 ^ 32 ∧ (2 ^ 30 ≤ p → 2 ^ 30 ≤ WrapPosition p) ∧
      (3 * 2 ^ 30 ≤ p → WrapPosition p < 3 * 2 ^ 30) := by
  rw [wrap_position_closed_form p hp]
  have h30 : (2:Nat) ^ 30 = 1073741824 := by decide
  have h32 : (2:Nat) ^ 32 = 4294967296 := by decide
  have h64 : (2:Nat) ^ 64 = 18446744073709551616 := by decide
  rw [h64] at hp
  rw [h30, h32]
  split <;> omega

/-- consecutive positions stay consecutive except at the single fold from 3 GiB - 1 … back to
1 GiB (every 2 GiB thereafter): distances between wrapped positions are the true distances
modulo 2 GiB -/
theorem wrap_position_distance (p d : Nat) (hp : p + d < 2 ^ 64) (h1 : 2 ^ 30 ≤ p) :
    (WrapPosition (p + d) + 2 ^ 31 - WrapPosition p) % 2 ^ 31 = d % 2 ^ 31 := by
  have h64 : (2:Nat) ^ 64 = 18446744073709551616 := by decide
  rw [wrap_position_closed_form (p + d) hp, wrap_position_closed_form p (by omega)]
  have h30 : (2:Nat) ^ 30 = 1073741824 := by decide
  have h31 : (2:Nat) ^ 31 = 2147483648 := by decide
  have h32 : (2:Nat) ^ 32 = 4294967296 := by decide
  rw [h64] at hp
  rw [h30] at h1
  rw [h30, h31, h32]
  split <;> split <;> omega

example : WrapPosition (5 * 2 ^ 30 + 7) = 2 ^ 30 + 7 := by decide
example : WrapPosition (6 * 2 ^ 30 + 7) = 2 * 2 ^ 30 + 7 := by decide
example : WrapPosition (2 ^ 32 + 5) = 2 * 2 ^ 30 + 5 := by decide

end BV.Props.C01Gen
