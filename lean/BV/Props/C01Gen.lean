/-
C01 ("streams crossing 2^30 / 2^32 positions"), translator tie: theorems stated DIRECTLY over the
Lean definition generated from the current Rust text of `WrapPosition` (src/enc/encode.rs,
tools/rs2lean.py -> BV/Gen/FnC01.lean) — the function that folds the 64-bit stream position into
the 32-bit positions the match finders and the ring buffer work with.  What the encoder relies on:
the low 30 bits survive (every ring-buffer / hash mask is below 2^30), nothing changes below
3 GiB, a wrapped position never becomes small again (so "have we filled the window" tests stay
true), and the result always fits the `u32` it is stored in.
-/
import BV.Gen.FnC01
import BV.Lemmas.RsWriter
import BV.Model.MetaBlock

namespace BV.Props.C01Gen
open BV.Gen.FnC01 BV.Rs BV.Bits BV.Bits.Out

/-- closed form of the generated function, for every `u64` position -/
theorem wrap_position_closed_form (p : Nat) (hp : p < 2 ^ 64) :
    WrapPosition p =
      if p / 2 ^ 30 > 2 then p % 2 ^ 30 + ((p / 2 ^ 30 - 1) % 2 + 1) * 2 ^ 30 else p % 2 ^ 32 := by
  have h64 : (2:Nat) ^ 64 = 18446744073709551616 := by decide
  have h30 : (2:Nat) ^ 30 = 1073741824 := by decide
  have h32 : (2:Nat) ^ 32 = 4294967296 := by decide
  rw [h64] at hp
  unfold WrapPosition
  simp only [Nat.shiftRight_eq_div_pow, Nat.reduceMod, h30, h32, decide_eq_true_eq]
  split
  · rename_i hgb
    have hmask : (1 <<< 30 % 4294967296 + 4294967296 - 1) % 4294967296 = 2 ^ 30 - 1 := by decide
    rw [hmask, Nat.and_two_pow_sub_one_eq_mod, Nat.and_one_is_mod, h30]
    have e1 : (p / 1073741824 + 18446744073709551616 - 1) % 18446744073709551616 = p / 1073741824 - 1 := by omega
    rw [e1]
    have hlt : (p / 1073741824 - 1) % 2 < 2 := Nat.mod_lt _ (by decide)
    have e2 : ((p / 1073741824 - 1) % 2 % 4294967296 + 1) % 4294967296 = (p / 1073741824 - 1) % 2 + 1 := by omega
    rw [e2, Nat.shiftLeft_eq, h30]
    have e3 : ((p / 1073741824 - 1) % 2 + 1) * 1073741824 % 4294967296 = ((p / 1073741824 - 1) % 2 + 1) * 1073741824 := by omega
    rw [e3]
    have hlow : p % 4294967296 % 1073741824 < 2 ^ 30 := by omega
    have := Nat.shiftLeft_add_eq_or_of_lt hlow ((p / 1073741824 - 1) % 2 + 1)
    rw [Nat.shiftLeft_eq, h30] at this
    rw [Nat.or_comm, ← this]
    omega
  · rfl

/-- the low 30 bits of the position survive -/
theorem wrap_position_low_bits (p : Nat) (hp : p < 2 ^ 64) : WrapPosition p % 2 ^ 30 = p % 2 ^ 30 := by
  rw [wrap_position_closed_form p hp]
  have h30 : (2:Nat) ^ 30 = 1073741824 := by decide
  have h32 : (2:Nat) ^ 32 = 4294967296 := by decide
  rw [h30, h32]
  split <;> omega

/-- below 3 GiB nothing changes -/
theorem wrap_position_identity (p : Nat) (hp : p < 3 * 2 ^ 30) : WrapPosition p = p := by
  have h30 : (2:Nat) ^ 30 = 1073741824 := by decide
  have h32 : (2:Nat) ^ 32 = 4294967296 := by decide
  rw [h30] at hp
  rw [wrap_position_closed_form p (by have : (2:Nat) ^ 64 = 18446744073709551616 := by decide
                                      omega)]
  rw [h30, h32]
  split <;> omega

/-- a position of at least 1 GiB never wraps to less than 1 GiB, and the result fits in `u32`
(it stays below 3 GiB once wrapping has started) -/
theorem wrap_position_range (p : Nat) (hp : p < 2 ^ 64) :
    WrapPosition p < 2 ^ 32 ∧ (2 ^ 30 ≤ p → 2 ^ 30 ≤ WrapPosition p) ∧
      (3 * 2 ^ 30 ≤ p → WrapPosition p < 3 * 2 ^ 30) := by
  rw [wrap_position_closed_form p hp]
  have h30 : (2:Nat) ^ 30 = 1073741824 := by decide
  have h32 : (2:Nat) ^ 32 = 4294967296 := by decide
  have h64 : (2:Nat) ^ 64 = 18446744073709551616 := by decide
  rw [h64] at hp
  rw [h30, h32]
  split <;> omega

/-- consecutive positions stay consecutive except at the single fold from 3 GiB - 1 … back to
1 GiB (every 2 GiB thereafter): distances between wrapped positions are the true distances
modulo 2 GiB -/
theorem wrap_position_distance (p d : Nat) (hp : p + d < 2 ^ 64) (h1 : 2 ^ 30 ≤ p) :
    (WrapPosition (p + d) + 2 ^ 31 - WrapPosition p) % 2 ^ 31 = d % 2 ^ 31 := by
  have h64 : (2:Nat) ^ 64 = 18446744073709551616 := by decide
  rw [wrap_position_closed_form (p + d) hp, wrap_position_closed_form p (by omega)]
  have h30 : (2:Nat) ^ 30 = 1073741824 := by decide
  have h31 : (2:Nat) ^ 31 = 2147483648 := by decide
  have h32 : (2:Nat) ^ 32 = 4294967296 := by decide
  rw [h64] at hp
  rw [h30] at h1
  rw [h30, h31, h32]
  split <;> split <;> omega

example : WrapPosition (5 * 2 ^ 30 + 7) = 2 ^ 30 + 7 := by decide
example : WrapPosition (6 * 2 ^ 30 + 7) = 2 * 2 ^ 30 + 7 := by decide
example : WrapPosition (2 ^ 32 + 5) = 2 * 2 ^ 30 + 5 := by decide

/-! ## the compressed meta-block header (`StoreCompressedMetaBlockHeader`, with `BrotliEncodeMlen`) -/


theorem xor63 : ∀ k : Fin 64, 63 ^^^ (64 - 1 - k.val) = k.val := by decide

theorem log2_floor_non_zero_generated (v : Nat) (h0 : v ≠ 0) (h : v < 2 ^ 64) :
    Log2FloorNonZero v = Nat.log2 v := by
  unfold Log2FloorNonZero BV.Rs.clz
  have hl : Nat.log2 v < 64 := (Nat.log2_lt h0).2 h
  simp only [h0, if_false]
  exact xor63 ⟨Nat.log2 v, hl⟩

theorem encode_mlen_generated (len a b c : Nat) (h1 : 1 ≤ len) (h : len ≤ 2 ^ 24) :
    BrotliEncodeMlen len a b c = BV.PrefixArith.encodeMlen len := by
  have h24 : (2:Nat) ^ 24 = 16777216 := by decide
  rw [h24] at h
  unfold BrotliEncodeMlen BV.PrefixArith.encodeMlen BV.PrefixArith.log2Floor
  by_cases h1' : len = 1
  · subst h1'; decide
  · have e : (len + 4294967296 - 1) % 4294967296 = len - 1 := by omega
    have hz : len - 1 ≠ 0 := by omega
    have hlt : len - 1 < 2 ^ 64 := by
      have : (2:Nat) ^ 64 = 18446744073709551616 := by decide
      omega
    have hl : Nat.log2 (len - 1) < 24 := (Nat.log2_lt hz).2 (by omega)
    simp only [e, log2_floor_non_zero_generated (len - 1) hz hlt, h1', beq_iff_eq, if_false, decide_eq_true_eq]
    repeat' split
    all_goals (first | rfl | (simp only [Prod.mk.injEq]; refine ⟨trivial, ?_, ?_⟩ <;> omega))

theorem runOps_bind_nil : ∀ (x : Out Writer), (x >>= runOps []) = x := by
  intro x; cases x <;> rfl

theorem store_compressed_header_ops_last (length : Nat) : StoreCompressedMetaBlockHeader true length =
    [WOp.bits 1 1, WOp.bits 1 0, WOp.bits 2 (BrotliEncodeMlen (length % 4294967296) 0 0 0).2.2,
      WOp.bits ((BrotliEncodeMlen (length % 4294967296) 0 0 0).2.1 % 256) (BrotliEncodeMlen (length % 4294967296) 0 0 0).1] := by
  unfold StoreCompressedMetaBlockHeader
  rfl

theorem store_compressed_header_ops_notlast (length : Nat) : StoreCompressedMetaBlockHeader false length =
    [WOp.bits 1 0, WOp.bits 2 (BrotliEncodeMlen (length % 4294967296) 0 0 0).2.2,
      WOp.bits ((BrotliEncodeMlen (length % 4294967296) 0 0 0).2.1 % 256) (BrotliEncodeMlen (length % 4294967296) 0 0 0).1,
      WOp.bits 1 0] := by
  unfold StoreCompressedMetaBlockHeader
  rfl

/-- the generated operation list of `StoreCompressedMetaBlockHeader`, run on any writer, is what the
meta-block writer model (BV.MetaBlock, over which the C01MetaBlock round-trip theorems are stated) writes,
for both values of ISLAST and every length whose low 32 bits are a legal MLEN -/
theorem store_compressed_header_generated (isLast : Bool) (length : Nat) (w : Writer)
    (h1 : 1 ≤ length % 2 ^ 32) (h : length % 2 ^ 32 ≤ 2 ^ 24) :
    runOps (StoreCompressedMetaBlockHeader isLast length) w =
      BV.MetaBlock.storeCompressedMetaBlockHeader isLast length w := by
  have h32 : (2:Nat) ^ 32 = 4294967296 := by decide
  have h24 : (2:Nat) ^ 24 = 16777216 := by decide
  rw [h32] at h1 h
  have hm := encode_mlen_generated (length % 4294967296) 0 0 0 h1 h
  have hg : ¬ (length % 4294967296 = 0 ∨ length % 4294967296 > 16777216) := by omega
  unfold BV.MetaBlock.storeCompressedMetaBlockHeader BV.MetaBlock.two32
  cases isLast
  · rw [store_compressed_header_ops_notlast, hm]
    simp only [runOps_bits, h32, hg, if_false, Bool.false_eq_true]
    generalize BV.PrefixArith.encodeMlen (length % 4294967296) = m
    refine congrArg (fun f => writeBits 1 0 w >>= f) (funext fun w1 => ?_)
    simp only [Out.bind_ok, runOps_bits]
    refine congrArg (fun f => writeBits 2 m.2.2 w1 >>= f) (funext fun w2 => ?_)
    simp only [runOps_bits]
    refine congrArg (fun f => writeBits (m.2.1 % 256) m.1 w2 >>= f) (funext fun w3 => ?_)
    simp only [runOps_bits]
    exact runOps_bind_nil _
  · rw [store_compressed_header_ops_last, hm]
    simp only [runOps_bits, h32, hg, if_false, if_true]
    generalize BV.PrefixArith.encodeMlen (length % 4294967296) = m
    refine congrArg (fun f => writeBits 1 1 w >>= f) (funext fun w1 => ?_)
    simp only [runOps_bits]
    refine congrArg (fun f => writeBits 1 0 w1 >>= f) (funext fun w2 => ?_)
    simp only [runOps_bits]
    refine congrArg (fun f => writeBits 2 m.2.2 w2 >>= f) (funext fun w3 => ?_)
    simp only [runOps_bits]
    rfl

example : StoreCompressedMetaBlockHeader true 5 = [WOp.bits 1 1, WOp.bits 1 0, WOp.bits 2 0, WOp.bits 16 4] := by decide

end BV.Props.C01Gen
