import BV.Lemmas.StreamChunk3
import BV.Props.C05
/-
C05, input chunking — "output bytes depend on input, settings and call points only, not on buffering",
the half about how the caller cuts the INPUT.

Setting: the main loop of `compress_stream` (not the quality 0/1 one-shot path), not catable, an
explicit size hint (`update_size_hint` is then the identity: with size_hint = 0 the hint the first
invocation stores is `unprocessed + available_in`, which does depend on the first chunk), initialised
encoder, no 64-bit wrap.  These are the fields of `VGood`.

Which fields of a payload-encoder request (`Req`: site, `[lo, hi)`, `lf`, `is_last`, `force_flush`)
could depend on the chunking, and what is proved (on the model, machine `vstep` of
Lemmas/StreamChunk: `ustep` with the ring buffer erased, every `ustep` step IS a `vstep` step —
`ustep_er`):

* `lo`, `hi`, `lf` (where the blocks are cut): a request is issued when the block counter
  `remaining_input_block_size` reaches 0, and copying `n` bytes moves that counter by exactly `n`
  (`rbs_vCopy`) — block boundaries are a function of the cumulative position, not of the chunks;
* `is_last` / `force_flush` of a block that becomes full: computed as `available_in == 0 && op == …`
  at the moment the block is encoded.  If the block becomes full with the LAST byte of the request,
  the flags are set when that byte came with the FINISH / FLUSH call itself, and not set when it came
  with a PROCESS call before (the FINISH / FLUSH call then issues one more, EMPTY, flagged request).
  This is real: `chunking_counterexample_*` below (the model, from a fresh encoder, 16384 bytes at
  quality 2), and stage `boundary` of `bvh stream c05` on the real code (requests as predicted in
  80/80 cases, bytes differ in 6/80 with the generated data).

Theorem `chunking_irrelevant`: ANY two ways of cutting the same data into PROCESS chunks in front of
the same kind of final request, all requests driven under arbitrary output schedules: equal states up
to the ring buffer, equal bytes — PROVIDED, for each history, the final request is a PROCESS, or has a
byte of its own, or the PROCESS data do not end on an input-block boundary (`NotBoundary`: the
cumulative count of unprocessed bytes is not a multiple of the block size).  That is exactly the
complement of the counter-example: the characterisation is sharp.  The tree violates
the chunking clause of C05 exactly where the proviso bites (known finding
`stream:c05:in-chunking:block-multiple`).  Its one-step form is
`process_chunking_irrelevant`: PROCESS c1 followed by a request (op2, c2), each driven to
completion under ANY output schedule, and the single request (op2, c1 ++ c2) driven under any
schedule, from abstractly equal starts, end with equal core states modulo the ring buffer
(`er (core _)`) and equal bytes produced — PROVIDED op2 is PROCESS, or c2 is not empty, or the end of
c1 is not an input-block boundary (`hsafe`).
Since the oracle is asked with (invocation number, request) and the invocation number is part of
the compared state (`nEnc`), equal final states mean equally many invocations; the bytes are equal
with no hypothesis on the oracle.  The request lists themselves: `merged_requests` (the merged run
issues exactly the requests of the two runs, in order; `vreq` / `vlog` of Lemmas/StreamChunk3) and
`step_vreq` (the model's request at an `encode_data` step is `vreq` of the erased configuration).
-/
namespace BV.Props.C05Chunk
open BV.Stream BV.Bits

/-- ends of the trajectory behind the merge point are ends of the merged trajectory -/
theorem vmerge_end {o : Oracle} {op2 : Nat} {M C e : Abs} {d : Bool} {L : Nat → Prop}
    (hm : ∃ m x, VPath o op2 M m x ∧ (x = C ∨ (vstep o op2 C = some x ∧ ¬ FlushStep C x ∧ vreq op2 C = [])) ∧ L m)
    (he : VEnd o op2 C e d) (hf : d = true ∨ vstep o op2 e = none) : VEnd o op2 M e d := by
  obtain ⟨m, x, hp, hx, _⟩ := hm
  rcases hx with rfl | ⟨hs, hnf, _⟩
  · cases d with
    | false =>
      obtain ⟨n, p⟩ := he
      exact ⟨m + n, hp.append p⟩
    | true =>
      obtain ⟨n, y, p, s, f⟩ := he
      exact ⟨m + n, y, hp.append p, s, f⟩
  · cases d with
    | false =>
      obtain ⟨n, p⟩ := he
      have ht : vstep o op2 e = none := by rcases hf with h | h; cases h; exact h
      cases p with
      | nil _ => rw [ht] at hs; cases hs
      | cons hs' _ p' =>
        rw [hs] at hs'
        cases hs'
        exact ⟨m + _, hp.append p'⟩
    | true =>
      obtain ⟨n, y, p, s, f⟩ := he
      cases p with
      | nil _ =>
        rw [hs] at s
        cases s
        exact absurd f hnf
      | cons hs' _ p' =>
        rw [hs] at hs'
        cases hs'
        exact ⟨m + _, y, hp.append p', s, f⟩

/-- an end of a run together with the payload-encoder requests issued on the way (`vlog`; the step
that completes a flush issues none) -/
def VEndL (o : Oracle) (op : Nat) (a b : Abs) (log : List Req) : Bool → Prop
  | false => ∃ n, VPath o op a n b ∧ vlog o op n a = log
  | true => ∃ n x, VPath o op a n x ∧ vstep o op x = some b ∧ FlushStep x b ∧ vlog o op n a = log

theorem VEndL.toVEnd {o : Oracle} {op : Nat} {a b : Abs} {log : List Req} {d : Bool} (h : VEndL o op a b log d) : VEnd o op a b d := by
  cases d with
  | false => obtain ⟨n, p, _⟩ := h; exact ⟨n, p⟩
  | true => obtain ⟨n, x, p, s, f, _⟩ := h; exact ⟨n, x, p, s, f⟩

/-- **the requests of the merged run are the requests of the two runs, in order** (ring-free machine):
PROCESS `c1` run to its end with request list `vlog … n1`, then `(op2, c2)` run to its end `e` with
request list `log2`; the single request `(op2, c1 ++ c2)` reaches the same end `e` and issues exactly
`vlog … n1 ++ log2` — under the proviso of `vmerge`.  Every field of every request (`lo`, `hi`, `lf`,
`is_last`, `force_flush`) is therefore independent of where the chunk boundary was. -/
theorem merged_requests {o : Oracle} {op2 n1 : Nat} {s : St} {out c1 c2 : Bytes} {b1 e : Abs} {d : Bool} {log2 : List Req}
    (p1 : VPath o 0 ⟨s, out, c1, c1.length⟩ n1 b1) (t1 : vstep o 0 b1 = none) (hin : b1.input = [])
    (hS : VStart s (c1 ++ c2)) (hsafe : op2 = 0 ∨ c2 ≠ [] ∨ NotBoundary s c1)
    (he : VEndL o op2 ⟨b1.s, b1.out, c2, c2.length⟩ e log2 d) (hf : d = true ∨ vstep o op2 e = none) :
    VEndL o op2 ⟨s, out, c1 ++ c2, (c1 ++ c2).length⟩ e (vlog o 0 n1 ⟨s, out, c1, c1.length⟩ ++ log2) d := by
  obtain ⟨m, x, hp, hx, hlog⟩ := vmerge (o := o) (op2 := op2) (c2 := c2) n1 s out c1 b1 p1 t1 hin hS hsafe
  rcases hx with rfl | ⟨hs, hnf, hv⟩
  · cases d with
    | false =>
      obtain ⟨n, p, hl⟩ := he
      exact ⟨m + n, hp.append p, by rw [vlog_append hp, hlog, hl]⟩
    | true =>
      obtain ⟨n, y, p, s', f, hl⟩ := he
      exact ⟨m + n, y, hp.append p, s', f, by rw [vlog_append hp, hlog, hl]⟩
  · cases d with
    | false =>
      obtain ⟨n, p, hl⟩ := he
      have ht : vstep o op2 e = none := by rcases hf with h | h; cases h; exact h
      cases p with
      | nil _ => rw [ht] at hs; cases hs
      | @cons _ _ _ k hs' _ p' =>
        have hs'' := hs'
        rw [hs] at hs'
        cases hs'
        refine ⟨m + k, hp.append p', ?_⟩
        rw [vlog_append hp, hlog, ← hl, vlog_succ _ hs'', hv, List.nil_append]
    | true =>
      obtain ⟨n, y, p, s', f, hl⟩ := he
      cases p with
      | nil _ =>
        rw [hs] at s'
        cases s'
        exact absurd f hnf
      | @cons _ _ _ k hs' _ p' =>
        have hs'' := hs'
        rw [hs] at hs'
        cases hs'
        refine ⟨m + k, y, hp.append p', s', f, ?_⟩
        rw [vlog_append hp, hlog, ← hl, vlog_succ _ hs'', hv, List.nil_append]

/-- **tie of the request log to the model**: the request an `encode_data` step of the model's main loop
issues (what the correspondence run compares with the hook log of the real code) is the request
`vreq` of the ring-free configuration at that step -/
theorem step_vreq {o : Oracle} {op : Nat} {s s2 : St} {io : Io} {req : Req} (del : Bytes)
    (hI : Inv s) (hnf : ¬ fastMode s.params)
    (hnc : ¬ (remainingInputBlockSize s ≠ 0 ∧ io.availIn ≠ 0)) (hnp : ¬ PadDue s)
    (hst : s.streamState = .processing) (hgo : remainingInputBlockSize s = 0 ∨ op ≠ 0)
    (h : encodeData o (updateSizeHint s io.availIn) 0 (slowIl op io) (slowFf op io) = .ok (s2, true, req)) :
    vreq op (erA (absOf s io del)) = [req] := by
  obtain ⟨_, hreq, _⟩ := encodeData_frame h
  have hv := vreq_enc (op := op) (a := erA (absOf s io del)) hI.init hnf hnc hnp ⟨hst, hgo⟩
  rw [hv, hreq]
  obtain ⟨_, _, _, _, _, u6, _, _, _, u10, u11, _⟩ := updateSizeHint_fields s io.availIn
  simp only [reqOf, u6, u10, u11, Req.mk.injEq, List.cons.injEq, and_true, true_and]
  exact ⟨rfl, rfl, rfl, rfl, rfl⟩

theorem erA_absR (s : St) (rem del : Bytes) : erA (absR s rem del) = ⟨er (core s), del ++ s.pending, rem, rem.length⟩ := rfl

theorem vpos_of_inv {s : St} (hI : Inv s) : VPos (er (core s)) := ⟨hI.fl_le, hI.lp_le, hI.blk⟩

theorem inv_ensure {s : St} (h : IsFresh s ∨ Inv s) : Inv (ensureInitialized s) := by
  rcases h with h | h
  · exact (inv_fresh h).1
  · rw [ensureInitialized_id h.init]; exact h

/-- **process_chunking_irrelevant**: moving bytes between a PROCESS call and the request behind it
does not change what the encoder produces — if that request is a PROCESS or keeps a byte of its own.
Run A: PROCESS `c1` (driven to completion under schedule 1, all input consumed), then `(op2, c2)`
(schedule 2); run B: `(op2, c1 ++ c2)` (schedule 3), from a start that agrees abstractly with the
start of run A.  Both end with the same core state up to the ring buffer and the same bytes. -/
theorem process_chunking_irrelevant {o : Oracle} {f1 f2 f3 op2 : Nat} {sched1 sched2 sched3 : List SchedStep}
    {s s1 s2 t t3 : St} {c1 c2 del del1 del2 delt del3 : Bytes} {d2 d3 : Bool}
    (hop2 : op2 ≤ 2) (hsafe : op2 = 0 ∨ c2 ≠ [] ∨ NotBoundary s c1)
    (hG : VGood (absR s (c1 ++ c2) del)) (hproc : s.streamState = .processing)
    -- run A
    (hB1 : Bnd 0 s c1)
    (h1 : driveReq o f1 0 sched1 s c1 del false = some (s1, [], del1, false))
    (e1 : ustep o 0 (absR s1 [] del1) = none)
    (hB2 : Bnd op2 s1 c2)
    (h2 : driveReq o f2 op2 sched2 s1 c2 del1 false = some (s2, [], del2, d2))
    (e2 : d2 = true ∨ ustep o op2 (absR s2 [] del2) = none)
    -- run B
    (hcore : core t = core s) (hout : delt ++ t.pending = del ++ s.pending)
    (hB3 : Bnd op2 t (c1 ++ c2))
    (h3 : driveReq o f3 op2 sched3 t (c1 ++ c2) delt false = some (t3, [], del3, d3))
    (e3 : d3 = true ∨ ustep o op2 (absR t3 [] del3) = none) :
    er (core s2) = er (core t3) ∧ del2 ++ s2.pending = del3 ++ t3.pending := by
  -- phase 1 of run A on the ring-free machine
  have hG1 : VGood (absR s c1 del) :=
    ⟨hG.init, hG.nf, hG.ncat, hG.hint, hG.bs, hB1.wrap, rfl⟩
  obtain ⟨r1, _⟩ := BV.Props.C05.schedule_refines_abstract (by omega) hB1 h1
  obtain ⟨⟨n1, p1⟩, g1⟩ := rpath_er r1 hG1
  have t1 := final_er g1 rfl e1
  rw [erA_absR] at p1
  have hIs : Inv s := by
    rcases hB1.inv with h | h
    · have : s.isInitialized = true := hG.init
      rw [isFreshInit h] at this; cases this
    · exact h
  have hS : VStart (er (core s)) (c1 ++ c2) :=
    ⟨⟨hG.init, hG.nf, hG.ncat, hG.hint, hG.bs, hG.nowrap, rfl⟩, hproc, vpos_of_inv hIs⟩
  have hm := vmerge (o := o) (op2 := op2) (c2 := c2) n1 (er (core s)) (del ++ s.pending) c1 _ p1 t1 rfl hS hsafe
  -- phase 2 of run A
  have hG2 : VGood (absR s1 c2 del1) :=
    ⟨g1.init, g1.nf, g1.ncat, g1.hint, g1.bs, hB2.wrap, rfl⟩
  obtain ⟨r2, _⟩ := BV.Props.C05.schedule_refines_abstract hop2 hB2 h2
  obtain ⟨v2, g2⟩ := rpath_er r2 hG2
  have fin2 : d2 = true ∨ vstep o op2 (erA (absR s2 [] del2)) = none := by
    rcases e2 with h | h
    · exact Or.inl h
    · exact Or.inr (final_er g2 rfl h)
  have vA := vmerge_end hm v2 fin2
  -- run B
  have hG3 : VGood (absR t (c1 ++ c2) delt) := by
    have hc := core_eq_iff.mp hcore
    exact ⟨hc.2.2.2.2.2.2.2.2.2.1.trans hG.init, by rw [show (absR t (c1 ++ c2) delt).s.params = t.params from rfl, hc.1]; exact hG.nf,
      by rw [show (absR t (c1 ++ c2) delt).s.params = t.params from rfl, hc.1]; exact hG.ncat,
      by rw [show (absR t (c1 ++ c2) delt).s.params = t.params from rfl, hc.1]; exact hG.hint,
      by rw [show (absR t (c1 ++ c2) delt).s.blockSize = t.blockSize from rfl, blockSize_of_params hc.1]; exact hG.bs,
      hB3.wrap, rfl⟩
  obtain ⟨r3, _⟩ := BV.Props.C05.schedule_refines_abstract hop2 hB3 h3
  obtain ⟨v3, g3⟩ := rpath_er r3 hG3
  have fin3 : d3 = true ∨ vstep o op2 (erA (absR t3 [] del3)) = none := by
    rcases e3 with h | h
    · exact Or.inl h
    · exact Or.inr (final_er g3 rfl h)
  have hstart : erA (absR t (c1 ++ c2) delt) = ⟨er (core s), del ++ s.pending, c1 ++ c2, (c1 ++ c2).length⟩ := by
    rw [erA_absR, hcore, hout]
  rw [hstart] at v3
  have := vend_final_eq vA v3 fin2 fin3
  rw [erA_absR, erA_absR] at this
  simp only [Abs.mk.injEq] at this
  exact ⟨this.1, this.2.1⟩

/-! ### whole chunk lists -/

/-- two final points of one trajectory are reached after the same number of steps -/
theorem vpath_len_unique {o : Oracle} {op : Nat} {a b1 b2 : Abs} {n1 n2 : Nat}
    (p1 : VPath o op a n1 b1) (p2 : VPath o op a n2 b2)
    (f1 : vstep o op b1 = none ∨ ∃ y, vstep o op b1 = some y ∧ FlushStep b1 y)
    (f2 : vstep o op b2 = none ∨ ∃ y, vstep o op b2 = some y ∧ FlushStep b2 y) : n1 = n2 := by
  have aux : ∀ {n m : Nat} {x y : Abs}, VPath o op a n x → VPath o op a m y →
      (vstep o op x = none ∨ ∃ z, vstep o op x = some z ∧ FlushStep x z) → ¬ (n < m) := by
    intro n m x y px py fx hlt
    have hm : m = n + (m - n - 1 + 1) := by omega
    rw [hm] at py
    have := vpath_split px py
    cases this with
    | cons hs' hnf _ =>
      rcases fx with h | ⟨z, h, hfl⟩
      · rw [h] at hs'; cases hs'
      · rw [h] at hs'; cases hs'; exact hnf hfl
  have h1 := aux p1 p2 f1
  have h2 := aux p2 p1 f2
  omega

theorem vend_toL {o : Oracle} {op : Nat} {a b : Abs} {d : Bool} (h : VEnd o op a b d) : ∃ log, VEndL o op a b log d := by
  cases d with
  | false => obtain ⟨n, p⟩ := h; exact ⟨_, n, p, rfl⟩
  | true => obtain ⟨n, x, p, s, f⟩ := h; exact ⟨_, n, x, p, s, f, rfl⟩

/-- confluence with the request lists: two final ends of one trajectory coincide, and so do the requests issued on the way -/
theorem vendL_final_eq {o : Oracle} {op : Nat} {a b1 b2 : Abs} {l1 l2 : List Req} {d1 d2 : Bool}
    (h1 : VEndL o op a b1 l1 d1) (h2 : VEndL o op a b2 l2 d2)
    (f1 : d1 = true ∨ vstep o op b1 = none) (f2 : d2 = true ∨ vstep o op b2 = none) : b1 = b2 ∧ l1 = l2 := by
  refine ⟨vend_final_eq h1.toVEnd h2.toVEnd f1 f2, ?_⟩
  have g1 : ∃ n x, VPath o op a n x ∧ (vstep o op x = none ∨ ∃ y, vstep o op x = some y ∧ FlushStep x y) ∧ vlog o op n a = l1 := by
    cases d1 with
    | false =>
      obtain ⟨n, p, hl⟩ := h1
      exact ⟨n, b1, p, Or.inl (by rcases f1 with h | h; cases h; exact h), hl⟩
    | true =>
      obtain ⟨n, x, p, s, f, hl⟩ := h1
      exact ⟨n, x, p, Or.inr ⟨b1, s, f⟩, hl⟩
  have g2 : ∃ n x, VPath o op a n x ∧ (vstep o op x = none ∨ ∃ y, vstep o op x = some y ∧ FlushStep x y) ∧ vlog o op n a = l2 := by
    cases d2 with
    | false =>
      obtain ⟨n, p, hl⟩ := h2
      exact ⟨n, b2, p, Or.inl (by rcases f2 with h | h; cases h; exact h), hl⟩
    | true =>
      obtain ⟨n, x, p, s, f, hl⟩ := h2
      exact ⟨n, x, p, Or.inr ⟨b2, s, f⟩, hl⟩
  obtain ⟨n1, x1, p1, e1, hl1⟩ := g1
  obtain ⟨n2, x2, p2, e2, hl2⟩ := g2
  have := vpath_len_unique p1 p2 e1 e2
  subst this
  rw [← hl1, ← hl2]

/-- a request list run on the ring-free machine: every request to its end, all of its input consumed;
a PROCESS request does not complete a flush; the last index is the list of payload-encoder requests issued -/
inductive VRun (o : Oracle) : List (Nat × Bytes) → St → Bytes → St → Bytes → List Req → Prop
  | nil (s : St) (out : Bytes) : VRun o [] s out s out []
  | cons {op : Nat} {chunk : Bytes} {rest : List (Nat × Bytes)} {s s' : St} {out out' : Bytes} {e : Abs} {d : Bool} {l1 l2 : List Req} :
      VEndL o op ⟨s, out, chunk, chunk.length⟩ e l1 d → (d = true ∨ vstep o op e = none) → e.input = [] →
      (op = 0 → d = false) → VRun o rest e.s e.out s' out' l2 → VRun o ((op, chunk) :: rest) s out s' out' (l1 ++ l2)

/-- the ring-free machine is deterministic on request lists: same end, same bytes, same requests -/
theorem vrun_det {o : Oracle} (reqs : List (Nat × Bytes)) :
    ∀ {s s1 s2 : St} {out out1 out2 : Bytes} {g1 g2 : List Req}, VRun o reqs s out s1 out1 g1 → VRun o reqs s out s2 out2 g2 →
      s1 = s2 ∧ out1 = out2 ∧ g1 = g2 := by
  induction reqs with
  | nil => intro s s1 s2 out out1 out2 g1 g2 h1 h2; cases h1; cases h2; exact ⟨rfl, rfl, rfl⟩
  | cons r rest ih =>
    intro s s1 s2 out out1 out2 g1 g2 h1 h2
    cases h1 with
    | cons v1 f1 _ _ r1 =>
      cases h2 with
      | cons v2 f2 _ _ r2 =>
        obtain ⟨he, hl⟩ := vendL_final_eq v1 v2 f1 f2
        subst he
        subst hl
        obtain ⟨q1, q2, q3⟩ := ih r1 r2
        exact ⟨q1, q2, by rw [q3]⟩

/-- a PROCESS request at the head of a list merges into the request behind it -/
theorem vrun_merge {o : Oracle} {op2 : Nat} {c1 c2 : Bytes} {rest : List (Nat × Bytes)} {s s' : St} {out out' : Bytes}
    (hsafe : op2 = 0 ∨ c2 ≠ [] ∨ NotBoundary s c1) (hS : VStart s (c1 ++ c2))
    {g : List Req} (h : VRun o ((0, c1) :: (op2, c2) :: rest) s out s' out' g) : VRun o ((op2, c1 ++ c2) :: rest) s out s' out' g := by
  cases h with
  | @cons _ _ _ _ _ _ _ e1 d1 l1 l23 v1 f1 i1 hd1 r1 =>
    have hd : d1 = false := hd1 rfl
    subst hd
    obtain ⟨n1, p1, hl1⟩ := v1
    have t1 : vstep o 0 e1 = none := by rcases f1 with h | h; cases h; exact h
    cases r1 with
    | @cons _ _ _ _ _ _ _ e2 d2 l2 l3 v2 f2 i2 hd2 r2 =>
      have hm := merged_requests p1 t1 i1 hS hsafe v2 f2
      rw [← List.append_assoc, ← hl1]
      exact .cons hm f2 i2 hd2 r2

def procs (cs : List Bytes) : List (Nat × Bytes) := cs.map (fun c => (0, c))

theorem vstart_mono {s : St} {a b : Bytes} (h : VStart s (a ++ b)) : VStart s a := by
  have hw := h.good.nowrap
  simp only [List.length_append] at hw
  exact ⟨⟨h.good.init, h.good.nf, h.good.ncat, h.good.hint, h.good.bs, by show s.inputPos + a.length < two64; omega, rfl⟩, h.proc, h.pos⟩

/-- **any number of PROCESS chunks in front of a request merge into it** -/
theorem vrun_merge_all {o : Oracle} {op : Nat} {c : Bytes} {rest : List (Nat × Bytes)} :
    ∀ (cs : List Bytes) (c1 : Bytes) {s s' : St} {out out' : Bytes} {g : List Req}, VStart s (c1 ++ cs.flatten ++ c) →
      (op = 0 ∨ c ≠ [] ∨ NotBoundary s (c1 ++ cs.flatten)) →
      VRun o ((0, c1) :: (procs cs ++ (op, c) :: rest)) s out s' out' g → VRun o ((op, c1 ++ cs.flatten ++ c) :: rest) s out s' out' g := by
  intro cs
  induction cs with
  | nil =>
    intro c1 s s' out out' g hS hsafe h
    simp only [procs, List.map_nil, List.nil_append, List.flatten_nil, List.append_nil] at h hS hsafe ⊢
    exact vrun_merge hsafe hS h
  | cons c2 cs ih =>
    intro c1 s s' out out' g hS hsafe h
    have hS' : VStart s ((c1 ++ c2) ++ cs.flatten ++ c) := by
      simpa [List.flatten_cons, List.append_assoc] using hS
    have hS2 : VStart s (c1 ++ c2) := vstart_mono (vstart_mono hS')
    have h' : VRun o ((0, c1 ++ c2) :: (procs cs ++ (op, c) :: rest)) s out s' out' g :=
      vrun_merge (Or.inl rfl) hS2 (by simpa [procs] using h)
    have hsafe' : op = 0 ∨ c ≠ [] ∨ NotBoundary s ((c1 ++ c2) ++ cs.flatten) := by
      simpa [List.flatten_cons, List.append_assoc] using hsafe
    have := ih (c1 ++ c2) hS' hsafe' h'
    simpa [List.flatten_cons, List.append_assoc] using this

/-- **input chunking is irrelevant on the ring-free machine**: two ways of cutting the same data into
PROCESS chunks in front of the same kind of final request (PROCESS, FLUSH or FINISH), under the
proviso, end in the same state with the same bytes, having issued the same payload-encoder requests -/
theorem vrun_chunking {o : Oracle} {op : Nat} {c c' : Bytes} {cs cs' : List Bytes} {s s1 s2 : St} {out out1 out2 : Bytes} {g1 g2 : List Req}
    (hsafe : op = 0 ∨ c ≠ [] ∨ NotBoundary s cs.flatten) (hsafe' : op = 0 ∨ c' ≠ [] ∨ NotBoundary s cs'.flatten)
    (hdata : cs.flatten ++ c = cs'.flatten ++ c')
    (hS : VStart s (cs.flatten ++ c))
    (h1 : VRun o (procs cs ++ [(op, c)]) s out s1 out1 g1) (h2 : VRun o (procs cs' ++ [(op, c')]) s out s2 out2 g2) :
    s1 = s2 ∧ out1 = out2 ∧ g1 = g2 := by
  have key : ∀ (ds : List Bytes) (d : Bytes), (op = 0 ∨ d ≠ [] ∨ NotBoundary s ds.flatten) → VStart s (ds.flatten ++ d) → ∀ {t : St} {ot : Bytes} {g : List Req},
      VRun o (procs ds ++ [(op, d)]) s out t ot g → VRun o [(op, ds.flatten ++ d)] s out t ot g := by
    intro ds d hs hSd t ot g h
    cases ds with
    | nil => simpa [procs] using h
    | cons d1 ds =>
      have := vrun_merge_all (o := o) (rest := []) ds d1 (by simpa [List.flatten_cons, List.append_assoc] using hSd)
        (by simpa [List.flatten_cons] using hs) (by simpa [procs] using h)
      simpa [List.flatten_cons, List.append_assoc] using this
  have r1 := key cs c hsafe hS h1
  have r2 := key cs' c' hsafe' (hdata ▸ hS) h2
  rw [hdata] at r1
  exact vrun_det _ r1 r2

/-- at a request boundary (the block counter is not 0) an empty PROCESS request does nothing -/
theorem vstep_idle {o : Oracle} {s : St} {out : Bytes} (hS : VStart s []) (hb : remainingInputBlockSize s ≠ 0) :
    vstep o 0 ⟨s, out, [], 0⟩ = none := by
  have hG := hS.toGood out
  have e0 : ¬ (s.isInitialized = false) := by rw [hG.init]; simp
  have e2 : ¬ (remainingInputBlockSize s ≠ 0 ∧ (0 : Nat) ≠ 0) := fun hh => hh.2 rfl
  have e3 : ¬ PadDue s := fun hh => by have h1 := hh.1; rw [hS.proc] at h1; cases h1
  have e4 : ¬ (s.streamState = .processing ∧ (remainingInputBlockSize s = 0 ∨ (0 : Nat) ≠ 0)) := by
    intro hh
    rcases hh.2 with h0 | h0
    · exact hb h0
    · exact h0 rfl
  have e5 : ¬ (s.streamState = .flushRequested) := by rw [hS.proc]; simp
  unfold vstep
  simp only [if_neg e0, if_neg hG.nf, if_neg e2, if_neg e3, if_neg e4, if_neg e5]

theorem vrun_insert_empty {o : Oracle} {rest : List (Nat × Bytes)} {s s' : St} {out out' : Bytes} {g : List Req}
    (hS : VStart s []) (hb : remainingInputBlockSize s ≠ 0) (h : VRun o rest s out s' out' g) :
    VRun o ((0, []) :: rest) s out s' out' g := by
  have := VRun.cons (o := o) (e := ⟨s, out, [], 0⟩) (d := false) (l1 := []) ⟨0, .nil _, rfl⟩ (Or.inr (vstep_idle hS hb)) rfl (fun _ => rfl) h
  simpa using this

/-- **input chunking with an EMPTY final request** (the shape of every adapter: CompressorWriter /
CompressorReader / BrotliCompressCustomIo only ever issue FLUSH / FINISH with `available_in == 0`):
two ways of cutting the same data into PROCESS chunks, both followed by the same empty request,
from a request boundary, end in the same state with the same bytes -/
theorem vrun_chunking_empty_tail {o : Oracle} {op : Nat} {cs cs' : List Bytes} {s s1 s2 : St} {out out1 out2 : Bytes} {g1 g2 : List Req}
    (hdata : cs.flatten = cs'.flatten) (hS : VStart s cs.flatten) (hb : remainingInputBlockSize s ≠ 0)
    (h1 : VRun o (procs cs ++ [(op, [])]) s out s1 out1 g1) (h2 : VRun o (procs cs' ++ [(op, [])]) s out s2 out2 g2) :
    s1 = s2 ∧ out1 = out2 ∧ g1 = g2 := by
  have key : ∀ (ds : List Bytes), VStart s ds.flatten → ∀ {t : St} {ot : Bytes} {g : List Req},
      VRun o (procs ds ++ [(op, [])]) s out t ot g → VRun o [(0, ds.flatten), (op, [])] s out t ot g := by
    intro ds hSd t ot g h
    rcases List.eq_nil_or_concat ds with rfl | ⟨es, d, rfl⟩
    · simp only [procs, List.map_nil, List.nil_append, List.flatten_nil] at h ⊢
      exact vrun_insert_empty (by simpa using hSd) hb h
    · simp only [List.concat_eq_append] at h hSd ⊢
      cases es with
      | nil => simpa [procs] using h
      | cons e1 es =>
        have hfl : (e1 :: es ++ [d]).flatten = e1 ++ es.flatten ++ d := by simp [List.append_assoc]
        have := vrun_merge_all (o := o) (op := 0) (c := d) (rest := [(op, [])]) es e1
          (by rw [← hfl]; exact hSd) (Or.inl rfl) (by simpa [procs] using h)
        rw [hfl]; exact this
  have r1 := key cs hS h1
  have r2 := key cs' (hdata ▸ hS) h2
  rw [hdata] at r1
  exact vrun_det _ r1 r2

/-- a request list driven on the model, each request to completion under its own output schedule with
all of its input consumed (the contract kept between requests: `Bnd`) -/
inductive DrivenC (o : Oracle) : List (Nat × Bytes) → St → Bytes → St → Bytes → Prop
  | nil (s : St) (del : Bytes) : DrivenC o [] s del s del
  | cons {op fuel : Nat} {chunk : Bytes} {sched : List SchedStep} {rest : List (Nat × Bytes)}
      {s s1 s' : St} {del del1 del' : Bytes} {d1 : Bool} :
      op ≤ 2 → Bnd op s chunk →
      driveReq o fuel op sched s chunk del false = some (s1, [], del1, d1) →
      (d1 = true ∨ ustep o op (absR s1 [] del1) = none) → (op = 0 → d1 = false) →
      DrivenC o rest s1 del1 s' del' → DrivenC o ((op, chunk) :: rest) s del s' del'

/-- a run that starts on a fresh encoder starts with the initialisation step -/
theorem rpath_skip_init {o : Oracle} {op : Nat} {a b : Abs} {d : Bool} (hni : a.s.isInitialized = false)
    (hst : a.s.streamState = .processing) (h : RPath o op a b d) (hf : d = true ∨ ustep o op b = none) :
    RPath o op { a with s := core (ensureInitialized a.s) } b d := by
  have hu : ustep o op a = some { a with s := core (ensureInitialized a.s) } := by
    unfold ustep; rw [if_pos hni]
  cases d with
  | false =>
    obtain ⟨n, p⟩ := h
    have ht : ustep o op b = none := by rcases hf with h | h; cases h; exact h
    cases p with
    | nil _ => rw [ht] at hu; cases hu
    | cons hs _ p' =>
      rw [hu] at hs; cases hs
      exact ⟨_, p'⟩
  | true =>
    obtain ⟨n, x, p, s, f⟩ := h
    cases p with
    | nil _ =>
      exfalso
      have := f.1
      rw [hst] at this; cases this
    | cons hs _ p' =>
      rw [hu] at hs; cases hs
      exact ⟨_, x, p', s, f⟩

/-- **every driven request list is a run of the ring-free machine** (the encoder may be fresh: the
facts `VGood` are about the state `ensure_initialized` makes of it — sanitised quality, chosen lgblock) -/
theorem drivenC_vrun {o : Oracle} (reqs : List (Nat × Bytes)) :
    ∀ {s s' : St} {del del' : Bytes}, DrivenC o reqs s del s' del' → VGood (absR (ensureInitialized s) [] del) →
      ∃ g, VRun o reqs (er (core (ensureInitialized s))) (del ++ s.pending) (er (core (ensureInitialized s'))) (del' ++ s'.pending) g := by
  induction reqs with
  | nil => intro s s' del del' h _; cases h; exact ⟨[], .nil _ _⟩
  | cons r rest ih =>
    intro s s' del del' h hG
    cases h with
    | @cons op _ chunk _ _ _ s1 _ _ del1 _ d1 hop hB hd hf h0 hr =>
      obtain ⟨r1, _⟩ := BV.Props.C05.schedule_refines_abstract hop hB hd
      have hip : (ensureInitialized s).inputPos = s.inputPos := by
        unfold ensureInitialized; split <;> rfl
      have hGc : VGood (absR (ensureInitialized s) chunk del) :=
        ⟨hG.init, hG.nf, hG.ncat, hG.hint, hG.bs, by show (ensureInitialized s).inputPos + chunk.length < two64; rw [hip]; exact hB.wrap, rfl⟩
      have r1' : RPath o op (absR (ensureInitialized s) chunk del) (absR s1 [] del1) d1 := by
        by_cases hi : s.isInitialized = true
        · rw [ensureInitialized_id hi]; exact r1
        · have hfr : IsFresh s := by
            rcases hB.inv with h | h
            · exact h
            · exact absurd h.init hi
          have hni : (absR s chunk del).s.isInitialized = false := by
            show s.isInitialized = false
            cases hh : s.isInitialized
            · rfl
            · exact absurd hh hi
          have hst : (absR s chunk del).s.streamState = .processing := by
            obtain ⟨p, rfl⟩ := hfr; rfl
          have := rpath_skip_init hni hst r1 hf
          have e : ({ absR s chunk del with s := core (ensureInitialized (absR s chunk del).s) } : Abs) = absR (ensureInitialized s) chunk del := by
            simp only [absR, core_ensure, ensure_pending]
          rw [e] at this
          exact this
      obtain ⟨v1, g1⟩ := rpath_er r1' hGc
      have fin : d1 = true ∨ vstep o op (erA (absR s1 [] del1)) = none := by
        rcases hf with h | h
        · exact Or.inl h
        · exact Or.inr (final_er g1 rfl h)
      have hi1 : s1.isInitialized = true := g1.init
      obtain ⟨g2, hrec⟩ := ih hr (by rw [ensureInitialized_id hi1]; exact g1)
      rw [ensureInitialized_id hi1] at hrec
      have hp : (ensureInitialized s).pending = s.pending := ensure_pending s
      have v1' : VEnd o op ⟨er (core (ensureInitialized s)), del ++ s.pending, chunk, chunk.length⟩ (erA (absR s1 [] del1)) d1 := by
        rw [erA_absR, hp] at v1; exact v1
      obtain ⟨l1, v1L⟩ := vend_toL v1'
      exact ⟨l1 ++ g2, .cons (e := erA (absR s1 [] del1)) v1L fin rfl h0 hrec⟩

theorem core_ensure_congr {s t : St} (h : core t = core s) : core (ensureInitialized t) = core (ensureInitialized s) := by
  rw [← core_ensure t, ← core_ensure s, h]

/-- abstractly equal starts are in particular equal up to the ring buffer -/
theorem er_core_ensure_of_core {s t : St} (h : core t = core s) :
    er (core (ensureInitialized t)) = er (core (ensureInitialized s)) := by
  rw [core_ensure_congr h]

/-- the facts `VGood` carry over to a start that is equal up to the ring buffer, and to shorter inputs -/
theorem vgood_transfer {s t : St} {D del delt : Bytes}
    (hcore : er (core (ensureInitialized t)) = er (core (ensureInitialized s)))
    (hG : VGood (absR (ensureInitialized s) D del)) :
    VGood (absR (ensureInitialized s) [] del) ∧ VGood (absR (ensureInitialized t) [] delt) := by
  have hw : (ensureInitialized s).inputPos + D.length < two64 := hG.nowrap
  have hp : (ensureInitialized t).params = (ensureInitialized s).params := by
    have := congrArg St.params hcore; exact this
  have hi : (ensureInitialized t).isInitialized = (ensureInitialized s).isInitialized := by
    have := congrArg St.isInitialized hcore; exact this
  have hip : (ensureInitialized t).inputPos = (ensureInitialized s).inputPos := by
    have := congrArg St.inputPos hcore; exact this
  refine ⟨⟨hG.init, hG.nf, hG.ncat, hG.hint, hG.bs, by show (ensureInitialized s).inputPos + 0 < two64; omega, rfl⟩, ?_⟩
  exact ⟨hi.trans hG.init,
    by rw [show (absR (ensureInitialized t) [] delt).s.params = (ensureInitialized t).params from rfl, hp]; exact hG.nf,
    by rw [show (absR (ensureInitialized t) [] delt).s.params = (ensureInitialized t).params from rfl, hp]; exact hG.ncat,
    by rw [show (absR (ensureInitialized t) [] delt).s.params = (ensureInitialized t).params from rfl, hp]; exact hG.hint,
    by rw [show (absR (ensureInitialized t) [] delt).s.blockSize = (ensureInitialized t).blockSize from rfl, blockSize_of_params hp]; exact hG.bs,
    by show (ensureInitialized t).inputPos + 0 < two64; rw [hip]; omega, rfl⟩

theorem ensure_state (s : St) : (ensureInitialized s).streamState = s.streamState := by
  unfold ensureInitialized; split <;> rfl

/-- **chunking_irrelevant** (model, any output schedules): two ways of cutting the same data into
PROCESS chunks in front of the same kind of final request — PROCESS, FLUSH or FINISH, its own chunk
empty in neither history (or the request a PROCESS) —, every request driven to completion under its
own output-capacity / `take_output` schedule, from starts in PROCESSING that are equal UP TO THE RING
BUFFER (a fresh encoder, or an initialised one; main loop, not catable, size hint set, no 64-bit wrap —
stated of the state `ensure_initialized` makes of the start; `er_core_ensure_of_core`: abstractly equal
starts qualify): equal core states up to the ring buffer — positions, carry, stream state, the number
of payload-encoder invocations — and equal bytes produced; and the two histories' runs of the ring-free
machine (third conjunct) issue THE SAME LIST `g` of payload-encoder requests.  The first two conjuncts have the form of the
hypothesis, so the theorem chains over FLUSH-separated segments: histories with the same FLUSH points
whose segments are cut differently agree segment by segment.
(`ensureInitialized` in the conclusion is the identity: the end states are initialised.) -/
theorem chunking_irrelevant {o : Oracle} {op : Nat} {c c' : Bytes} {cs cs' : List Bytes}
    {s t s' t' : St} {del delt del' delt' : Bytes}
    (hsafe : op = 0 ∨ c ≠ [] ∨ NotBoundary (ensureInitialized s) cs.flatten)
    (hsafe' : op = 0 ∨ c' ≠ [] ∨ NotBoundary (ensureInitialized s) cs'.flatten)
    (hdata : cs.flatten ++ c = cs'.flatten ++ c') (hI : IsFresh s ∨ Inv s)
    (hG : VGood (absR (ensureInitialized s) (cs.flatten ++ c) del)) (hproc : s.streamState = .processing)
    (hcore : er (core (ensureInitialized t)) = er (core (ensureInitialized s)))
    (hout : delt ++ t.pending = del ++ s.pending)
    (h1 : DrivenC o (procs cs ++ [(op, c)]) s del s' del')
    (h2 : DrivenC o (procs cs' ++ [(op, c')]) t delt t' delt') :
    er (core (ensureInitialized s')) = er (core (ensureInitialized t')) ∧ del' ++ s'.pending = delt' ++ t'.pending
    ∧ ∃ g, VRun o (procs cs ++ [(op, c)]) (er (core (ensureInitialized s))) (del ++ s.pending)
              (er (core (ensureInitialized s'))) (del' ++ s'.pending) g
         ∧ VRun o (procs cs' ++ [(op, c')]) (er (core (ensureInitialized s))) (del ++ s.pending)
              (er (core (ensureInitialized t'))) (delt' ++ t'.pending) g := by
  obtain ⟨hG0, hGt⟩ := vgood_transfer (delt := delt) hcore hG
  obtain ⟨g1, v1⟩ := drivenC_vrun _ h1 hG0
  obtain ⟨g2, v2⟩ := drivenC_vrun _ h2 hGt
  rw [hcore, hout] at v2
  have hS : VStart (er (core (ensureInitialized s))) (cs.flatten ++ c) :=
    ⟨⟨hG.init, hG.nf, hG.ncat, hG.hint, hG.bs, hG.nowrap, rfl⟩, (ensure_state s).trans hproc, vpos_of_inv (inv_ensure hI)⟩
  obtain ⟨q1, q2, q3⟩ := vrun_chunking (s := er (core (ensureInitialized s))) hsafe hsafe' hdata hS v1 v2
  subst q3
  exact ⟨q1, q2, g1, v1, v2⟩

/-- **chunking_irrelevant_empty_tail** (model, any output schedules): the adapters' shape — any two ways
of cutting the same data into PROCESS chunks, both followed by the same EMPTY FLUSH / FINISH request,
from abstractly equal starts at a request boundary (fresh or initialised): equal core states up to the
ring buffer, equal bytes -/
theorem chunking_irrelevant_empty_tail {o : Oracle} {op : Nat} {cs cs' : List Bytes}
    {s t s' t' : St} {del delt del' delt' : Bytes}
    (hdata : cs.flatten = cs'.flatten) (hI : IsFresh s ∨ Inv s)
    (hG : VGood (absR (ensureInitialized s) cs.flatten del)) (hproc : s.streamState = .processing)
    (hb : remainingInputBlockSize (ensureInitialized s) ≠ 0)
    (hcore : er (core (ensureInitialized t)) = er (core (ensureInitialized s)))
    (hout : delt ++ t.pending = del ++ s.pending)
    (h1 : DrivenC o (procs cs ++ [(op, [])]) s del s' del')
    (h2 : DrivenC o (procs cs' ++ [(op, [])]) t delt t' delt') :
    er (core (ensureInitialized s')) = er (core (ensureInitialized t')) ∧ del' ++ s'.pending = delt' ++ t'.pending
    ∧ ∃ g, VRun o (procs cs ++ [(op, [])]) (er (core (ensureInitialized s))) (del ++ s.pending)
              (er (core (ensureInitialized s'))) (del' ++ s'.pending) g
         ∧ VRun o (procs cs' ++ [(op, [])]) (er (core (ensureInitialized s))) (del ++ s.pending)
              (er (core (ensureInitialized t'))) (delt' ++ t'.pending) g := by
  obtain ⟨hG0, hGt⟩ := vgood_transfer (delt := delt) hcore hG
  obtain ⟨g1, v1⟩ := drivenC_vrun _ h1 hG0
  obtain ⟨g2, v2⟩ := drivenC_vrun _ h2 hGt
  rw [hcore, hout] at v2
  have hS : VStart (er (core (ensureInitialized s))) cs.flatten :=
    ⟨⟨hG.init, hG.nf, hG.ncat, hG.hint, hG.bs, hG.nowrap, rfl⟩, (ensure_state s).trans hproc, vpos_of_inv (inv_ensure hI)⟩
  obtain ⟨q1, q2, q3⟩ := vrun_chunking_empty_tail hdata hS hb v1 v2
  subst q3
  exact ⟨q1, q2, g1, v1, v2⟩

/-! ### histories with the same FLUSH points -/

/-- one segment of a history: PROCESS chunks, then one request `(op, c)` -/
structure Seg where
  cs : List Bytes
  op : Nat
  c : Bytes

/-- two histories with the same FLUSH / FINISH points, cut differently between them: segment `i` of
the first is `procs cs ++ [(op, c)]`, of the second `procs cs' ++ [(op, c')]` with the same data and the
same `op`; each segment is driven (any output schedules) from where the previous one ended, and at the
start of each segment of the first history the side conditions of `chunking_irrelevant` hold -/
inductive SegRuns (o : Oracle) : List (Seg × Seg) → St → Bytes → St → Bytes → St → Bytes → St → Bytes → Prop
  | nil (s t : St) (del delt : Bytes) : SegRuns o [] s del s del t delt t delt
  | cons {g g' : Seg} {rest : List (Seg × Seg)} {s m s' t m' t' : St} {del dm del' delt dm' delt' : Bytes} :
      g'.op = g.op → g.cs.flatten ++ g.c = g'.cs.flatten ++ g'.c →
      (g.op = 0 ∨ g.c ≠ [] ∨ NotBoundary (ensureInitialized s) g.cs.flatten) →
      (g.op = 0 ∨ g'.c ≠ [] ∨ NotBoundary (ensureInitialized s) g'.cs.flatten) →
      (IsFresh s ∨ Inv s) → VGood (absR (ensureInitialized s) (g.cs.flatten ++ g.c) del) → s.streamState = .processing →
      DrivenC o (procs g.cs ++ [(g.op, g.c)]) s del m dm →
      DrivenC o (procs g'.cs ++ [(g.op, g'.c)]) t delt m' dm' →
      SegRuns o rest m dm s' del' m' dm' t' delt' → SegRuns o ((g, g') :: rest) s del s' del' t delt t' delt'

/-- **chunking_irrelevant_segments**: histories with the same FLUSH / FINISH points whose segments are
cut differently (under the proviso, segment by segment) produce the same bytes and end in the same
state up to the ring buffer -/
theorem chunking_irrelevant_segments {o : Oracle} (gs : List (Seg × Seg)) :
    ∀ {s s' t t' : St} {del del' delt delt' : Bytes}, SegRuns o gs s del s' del' t delt t' delt' →
      er (core (ensureInitialized t)) = er (core (ensureInitialized s)) → delt ++ t.pending = del ++ s.pending →
      er (core (ensureInitialized s')) = er (core (ensureInitialized t')) ∧ del' ++ s'.pending = delt' ++ t'.pending := by
  induction gs with
  | nil =>
    intro s s' t t' del del' delt delt' h hc ho
    cases h
    exact ⟨hc.symm, ho.symm⟩
  | cons g gs ih =>
    intro s s' t t' del del' delt delt' h hc ho
    cases h with
    | cons hop hdata hsafe hsafe' hI hG hproc h1 h2 hr =>
      obtain ⟨e1, e2, _⟩ := chunking_irrelevant hsafe hsafe' hdata hI hG hproc hc ho h1 h2
      exact ih hr e1.symm e2.symm

/-! ### the counter-example at a block boundary (model, fresh encoder, quality 2, size hint set) -/

def cxStart : St := (setParameter (setParameter St.new 1 2).1 5 16384).1
def cxOracle : Oracle := fun _ r =>
  { result := true, emit := true, bits := if r.isLast then [true, true] else [false, true, false] }
def reqsOf (r : Out (St × Io × Bool)) : List Req := match r with | .ok (_, io, _) => io.reqs | _ => []
def stOf (r : Out (St × Io × Bool)) : St := match r with | .ok (s, _, _) => s | _ => {}
/-- exactly one input block (`2^14` bytes at quality 2) -/
def cxData : Bytes := List.replicate 16384 7
/-- history A: PROCESS all 16384 bytes, then FINISH with nothing -/
def cxA1 := compressStream cxOracle 40 cxStart 0 cxData 1000
def cxA2 := compressStream cxOracle 40 (stOf cxA1) 2 [] 1000
/-- history B: FINISH with the 16384 bytes -/
def cxB := compressStream cxOracle 40 cxStart 2 cxData 1000

set_option maxRecDepth 100000 in
/-- **chunking_counterexample** (1): history A issues the full block WITHOUT `is_last`, then an empty
`is_last` request -/
theorem chunking_counterexample_a : reqsOf cxA1 ++ reqsOf cxA2
    = [{ site := 0, lo := 0, hi := 16384, lf := 0, isLast := false, forceFlush := false },
       { site := 0, lo := 16384, hi := 16384, lf := 16384, isLast := true, forceFlush := false }] := by decide

set_option maxRecDepth 100000 in
/-- **chunking_counterexample** (2): history B issues the same block WITH `is_last` — the request
sequences of two chunkings of the same input differ, so (the payload encoder answering differently,
as the real one does when the first request closes its meta-block) do the bytes -/
theorem chunking_counterexample_b : reqsOf cxB
    = [{ site := 0, lo := 0, hi := 16384, lf := 0, isLast := true, forceFlush := false }] := by decide

set_option maxRecDepth 100000 in
/-- the same two request lists on the ring-free machine (`vlog`): PROCESS of the block issues it plain … -/
example : vlog cxOracle 0 2 ⟨er (core (ensureInitialized cxStart)), [], cxData, 16384⟩
    = [{ site := 0, lo := 0, hi := 16384, lf := 0, isLast := false, forceFlush := false }] := by decide
set_option maxRecDepth 100000 in
/-- … FINISH of the block issues it with `is_last` -/
example : vlog cxOracle 2 2 ⟨er (core (ensureInitialized cxStart)), [], cxData, 16384⟩
    = [{ site := 0, lo := 0, hi := 16384, lf := 0, isLast := true, forceFlush := false }] := by decide

/-! ### non-vacuity -/

/-- an initialised quality-5 encoder with size hint 1000 meets `VGood` and is in PROCESSING -/
def nvStart : St := ensureInitialized (setParameter (setParameter St.new 1 5).1 5 1000).1
example : VGood (absR nvStart [1, 2, 3, 4] []) :=
  ⟨by decide, by decide, by decide, by decide, by decide, by decide, rfl⟩
example : nvStart.streamState = .processing := by decide
/-- a FRESH quality-5 encoder with size hint 1000: the hypotheses of `chunking_irrelevant` hold of it -/
def nvFresh : St := (setParameter (setParameter St.new 1 5).1 5 1000).1
example : VGood (absR (ensureInitialized nvFresh) [1, 2, 3, 4] []) :=
  ⟨by decide, by decide, by decide, by decide, by decide, by decide, rfl⟩
example : nvFresh.streamState = .processing ∧ remainingInputBlockSize (ensureInitialized nvFresh) ≠ 0 := by decide
/-- two bytes into a fresh stream is not a block boundary -/
example : NotBoundary (ensureInitialized nvFresh) [1, 2] := by unfold NotBoundary; decide
example : Bnd 0 nvFresh [1, 2] := bnd_fresh (setParameter_fresh (setParameter_fresh ⟨{}, rfl⟩ 1 5) 5 1000) (by decide)
/-- the two histories PROCESS [1, 2], FINISH [3, 4] and FINISH [1, 2, 3, 4] run to completion in the model -/
def nvCheck (r : Option (St × Bytes × Bytes × Bool)) : Bool :=
  match r with
  | some (_, rem, _, _) => rem.isEmpty
  | none => false
def nvMid : St := match driveReq BV.Props.C05.exOracle 60 0 [.call 100] nvStart [1, 2] [] false with
  | some (s, _, _, _) => s
  | none => nvStart
example : nvCheck (driveReq BV.Props.C05.exOracle 60 0 [.call 100] nvStart [1, 2] [] false) = true := by decide
example : nvCheck (driveReq BV.Props.C05.exOracle 60 2 [.call 1, .take 0, .call 100] nvMid [3, 4] [] false) = true := by decide
example : nvCheck (driveReq BV.Props.C05.exOracle 60 2 [.call 100] nvStart [1, 2, 3, 4] [] false) = true := by decide

end BV.Props.C05Chunk
