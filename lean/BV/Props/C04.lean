import BV.Lemmas.StreamMdVerbatim
/-
C04 — A completed flush makes all prior input decodable; metadata is transparent.

Model: `BV/Model/Stream.lean` (see C20).  Spec side: `Spec.parseMetadataBlock` — RFC 7932
section 9.2 for metadata meta-blocks (header fields, over-long length rejected, zero fill bits up
to the byte boundary, payload), written independently of the writer.  No hypothesis about the
payload-encoder oracle is used in this file.

What is NOT here: "a streaming decoder fed only the flushed prefix reproduces every input byte"
composes `flush_complete` (below: the prefix ends on a byte boundary with nothing unflushed and
nothing pending) with the decodability of the compressed meta-blocks themselves, which is the
payload encoder (hypothesis `MetaBlockDecodes` of C01) — that half is judged on the real code by
the decoders on every run.
-/
namespace BV.Props.C04
open BV.Stream BV.Bits

/-! ### flush -/

/-- **flush_complete**: if a FLUSH call (outside a metadata block, stream shorter than 2^64)
returns `true` with no output pending, then all of its input has been consumed, the stream state is
PROCESSING again, there are no carry bits (the bytes delivered so far end on a byte boundary)
and nothing is left unflushed (`last_flush_pos_ = input_pos_`; in the quality 0/1 path no input is
ever buffered).  Holds from PROCESSING (the flush was performed by this call or an earlier one
that could not drain) and from a pending flush (`flushRequested`). -/
theorem flush_complete {o : Oracle} {fuel cap : Nat} {input : Bytes} {s s' : St} {io' : Io}
    (hI : Inv s) (hrm : s.remainingMetadata = u32Max) (hw : s.inputPos + input.length < two64)
    (hst : s.streamState = .processing ∨ s.streamState = .flushRequested)
    (h : compressStream o fuel s 1 input cap = .ok (s', io', true))
    (hdrained : hasMoreOutput s' = false) :
    io'.availIn = 0 ∧ s'.streamState = .processing ∧ s'.lastBytesBits = 0
    ∧ (s'.lastFlushPos = s'.inputPos ∨ fastMode s'.params) := by
  have hp : s'.pending.length = 0 := by simpa [hasMoreOutput] using hdrained
  have hD := (compressStream_drained (by omega) hI hrm hw h).2 hp
  rcases hst with hs | hs
  · obtain ⟨a, b, c⟩ := hD.flushDone rfl hs
    exact ⟨hD.consumed, a, b, c⟩
  · obtain ⟨a, b, c⟩ := hD.reflush hs
    exact ⟨hD.consumed, a, b, c⟩

/-- a FLUSH call that returns with output room left has completed the flush (so a caller that
offers `cap ≥ 1` needs at most `⌈pending bytes / cap⌉ + 1` calls) -/
theorem flush_completes_with_room {o : Oracle} {fuel cap : Nat} {input : Bytes} {s s' : St} {io' : Io}
    (hI : Inv s) (hrm : s.remainingMetadata = u32Max) (hw : s.inputPos + input.length < two64)
    (h : compressStream o fuel s 1 input cap = .ok (s', io', true)) (hroom : io'.availOut ≠ 0) :
    hasMoreOutput s' = false := by
  have := (compressStream_drained (by omega) hI hrm hw h).1 hroom
  simp [hasMoreOutput, this]

/-- **sync_block_is_empty_metadata** (1): for every carry of `c < 8` bits (value `lb < 2^c`) the
bytes `inject_byte_padding_block` appends are: the carry bits, the six bits `0 11 0 00`
(ISLAST 0, MNIBBLES = 0, reserved 0, MSKIPBYTES 0) and zero bits up to the byte boundary -/
theorem sync_block_bits (c lb : Nat) (hc : c < 8) (hlb : lb < 2 ^ c) :
    bytesBits (sealBytes (lb ||| (6 * 2 ^ c)) ((c + 6 + 7) / 8))
      = bitsOf c lb ++ syncBits ++ List.replicate (8 * ((c + 6 + 7) / 8) - c - 6) false := by
  have hlb' : lb < 128 := Nat.lt_of_lt_of_le hlb (by
    have : 2 ^ c ≤ 2 ^ 7 := Nat.pow_le_pow_right (by omega) (by omega)
    simpa using this)
  have := syncOk_small ⟨c, hc⟩ ⟨lb, hlb'⟩ hlb
  simpa [syncOk] using this

/-- the same for the 14-bit carry a large-window stream header leaves (FLUSH as the very first call) -/
theorem sync_block_bits_large (w : Nat) (hw : w < 64) :
    bytesBits (sealBytes (((w * 256) ||| 0x11) ||| (6 * 2 ^ 14)) ((14 + 6 + 7) / 8))
      = bitsOf 14 ((w * 256) ||| 0x11) ++ syncBits ++ List.replicate (8 * ((14 + 6 + 7) / 8) - 14 - 6) false := by
  have := syncOk_large ⟨w, hw⟩
  simpa [syncOk] using this

/-- **sync_block_is_empty_metadata** (2): the spec reads those six bits and the fill bits, at every
bit offset, as a metadata block with an EMPTY payload that ends on the byte boundary -/
theorem sync_block_is_empty_metadata (c : Nat) (hc : c < 16) :
    Spec.parseMetadataBlock c (syncBits ++ List.replicate ((8 - (c + 6) % 8) % 8) false) = some ([], []) := by
  have := syncParses_all ⟨c, hc⟩
  simpa [syncParses] using this

/-- what the padding step appends, in the model's own terms -/
theorem padding_appends_sync {s s' : St} (h : injectBytePaddingBlock s = .ok s') :
    s'.pending = s.pending ++ sealBytes (s.lastBytes ||| (6 * 2 ^ s.lastBytesBits)) ((s.lastBytesBits + 6 + 7) / 8)
    ∧ s'.lastBytesBits = 0 :=
  ⟨pad_pending h, (pad_frame h).2.2.2.2.1⟩

/-! ### metadata -/

/-- **metadata_header_inverse**: for EVERY block size `n ≤ 2^24` and every carry, what
`write_metadata_header` writes behind the carry, followed by `n` payload bytes, is read back by
the spec as a metadata block with exactly that payload, ending exactly behind it
(`n = 0` uses the special form MSKIPBYTES = 0; `n = 1` needs MSKIPBYTES = 1 — the defect fixed
in /repo as "metadata-len1-header") -/
theorem metadata_header_inverse (n : Nat) (hn : n ≤ 16777216) (carry : Writer) (payload rest : List Bool)
    (hp : payload.length = 8 * n) :
    Spec.parseMetadataBlock carry.length ((metadataHeaderBits n carry).drop carry.length ++ payload ++ rest)
      = some (payload, rest) :=
  metadataHeader_parses n hn carry payload rest hp

/-- the staged header is a whole number of bytes -/
theorem metadata_header_aligned (n : Nat) (carry : Writer) : (metadataHeaderBits n carry).length % 8 = 0 := by
  unfold metadataHeaderBits padToByte
  simp only [List.length_append, List.length_replicate]
  omega

/-- **metadata_verbatim** (1): the first EMIT_METADATA call of a block (nothing buffered), for any
output capacity incl. 0: bytes delivered ++ bytes still owed = pending ++ header ++ payload -/
theorem metadata_verbatim_first {o : Oracle} {fuel cap : Nat} {input : Bytes} {s s' : St} {io' : Io}
    (hI : Inv s) (hst : s.streamState = .processing) (hlf : s.inputPos = s.lastFlushPos)
    (hw : s.inputPos + input.length < two64)
    (h : compressStream o fuel s 3 input cap = .ok (s', io', true)) :
    io'.out ++ mdOwed s' io'.input
      = s.pending ++ toBytes (metadataHeaderBits (input.length % two32) s.carry) ++ input := by
  have := (metadata_call_conserve hI hlf hw h).1
  rw [this]
  unfold mdEnter
  rw [if_pos hst]
  unfold mdOwed St.carry
  simp

/-- **metadata_verbatim** (2): every further call inside the block, for any capacity -/
theorem metadata_verbatim_next {o : Oracle} {fuel cap : Nat} {input : Bytes} {s s' : St} {io' : Io}
    (hI : Inv s) (hst : s.streamState = .metadataHead ∨ s.streamState = .metadataBody)
    (hlf : s.inputPos = s.lastFlushPos) (hw : s.inputPos + input.length < two64)
    (h : compressStream o fuel s 3 input cap = .ok (s', io', true)) :
    io'.out ++ mdOwed s' io'.input = mdOwed s input ∧ io'.input.length = io'.availIn := by
  have hc := metadata_call_conserve hI hlf hw h
  refine ⟨?_, hc.2⟩
  rw [hc.1]
  unfold mdEnter
  have hnp : s.streamState ≠ .processing := by rcases hst with h1 | h1 <;> rw [h1] <;> simp
  rw [if_neg hnp]

/-- **metadata_verbatim** (3): `take_output` in between -/
theorem metadata_verbatim_take {s s' : St} {size : Nat} {out inp : Bytes} (hI : Inv s)
    (hst : s.streamState = .metadataHead ∨ s.streamState = .metadataBody)
    (h : takeOutput s size = .ok (s', out)) : out ++ mdOwed s' inp = mdOwed s inp :=
  takeOutput_conserve hI hst h

/-- **metadata_verbatim** (4): when the block is complete nothing is owed any more — so the
concatenation of everything delivered since the block started is `pending ++ header ++ payload`,
whatever the sequence of capacities (0, 1, the 16-byte staging buffer, ample) and `take_output`s -/
theorem metadata_verbatim_done {s' : St} (hp : s'.pending = []) (hst : s'.streamState = .processing) :
    mdOwed s' [] = [] := by
  unfold mdOwed
  simp [hp, hst]

/-- **metadata_contract**: a different amount of metadata or another operation mid-block, more
than 2^24 bytes, and metadata while flushing / after finish are refused, cleanly
(`violations_fail_clean` of C20 specialised) -/
theorem metadata_contract {o : Oracle} {fuel op cap : Nat} {input : Bytes} {s s' : St} {io' : Io} {r : Bool}
    (hop : op ≤ 3) (hI : Inv s) (hw : s.inputPos + input.length < two64)
    (hbad : (∃ n, absC s = .metadata n ∧ (op ≠ 3 ∨ input.length ≠ n)) ∨
            (op = 3 ∧ absC s = .processing ∧ input.length > 16777216) ∨
            (op = 3 ∧ (absC s = .flushing ∨ absC s = .finishing ∨ absC s = .finished)))
    (h : compressStream o fuel s op input cap = .ok (s', io', r)) :
    r = false ∧ io' = Io.start input cap ∧ (s' = s ∨ s' = updateSizeHint s 0) := by
  have hv : Contract.accepts (absC s) op input.length = false := by
    rcases hbad with ⟨n, h1, h2⟩ | ⟨h1, h2, h3⟩ | ⟨h1, h2⟩
    · rw [h1]
      rcases h2 with h2 | h2 <;> simp [Contract.accepts, h2]
    · rw [h2, h1]; simp [Contract.accepts]; omega
    · rcases h2 with h2 | h2 | h2 <;> rw [h2, h1] <;> simp [Contract.accepts]
  have hr : r = false := by rw [(compressStream_refines hop hI hw h).1, hv]
  subst hr
  obtain ⟨hs, hio⟩ := refused_unchanged hop hI hw h
  exact ⟨rfl, hio, hs⟩

/-! ### non-vacuity -/

example : Spec.parseMetadataBlock 3 (syncBits ++ List.replicate 7 false) = some ([], []) := by decide
/-- a 1-byte block: header `0 11 0 10 00000000` (MSKIPBYTES 1, MSKIPLEN-1 = 0), then the byte -/
example : (metadataHeaderBits 1 []).drop 0 = [false, true, true, false, true, false,
    false, false, false, false, false, false, false, false, false, false] := by decide
example : Spec.parseMetadataBlock 0 ((metadataHeaderBits 1 []) ++ bitsOf 8 0xaf) = some (bitsOf 8 0xaf, []) := by decide
/-- the pre-fix header (MSKIPBYTES 0 for one byte) is NOT read back as a 1-byte block -/
example : Spec.parseMetadataBlock 0 ([false, true, true, false, false, false, false, false] ++ bitsOf 8 0xaf)
    ≠ some (bitsOf 8 0xaf, []) := by decide

end BV.Props.C04
