/-
C02 (part 6, composed with C08Run) — the "fits" hypothesis of `part_of_stream_model` discharged
from the run-level size theorem of C08.

`BV.Props.C08Run.stream_total_le_bound_run`: a never-flushed history on a fresh encoder that ends
FINISHED at quality ≥ 2 delivers at most `BrotliEncoderMaxCompressedSize(total input)` bytes, with
`LogGuard` (the per-meta-block growth bound — what C08 `guard_holds` proves of
`WriteMetaBlockInternal`) as the ONLY hypothesis about the payload encoder.
Composed here with `BV.Props.C02Part.part_of_stream_model`: the job's own FINISH call followed by
`take_output(0)` is such a history, so everything the call produced (`out ++ pending`) fits the job
buffer and `compress_part` answers `Ok`.

`_partial`, and why.  FULL STATEMENT: for every fresh-encoder job at quality ≥ 2 whose payload pieces
obey `LogGuard`, `compress_part = Ok(complete stream)`.  PROVED: the same under three extra
hypotheses —
 (1) `hfin`/`hrun`: the job's call followed by `take_output(0)` leaves the encoder FINISHED, i.e. the
     call itself processed the FINISH (consumed its whole piece, emitted the last block).  What is
     missing is the case in which the call returns EARLY because the job buffer is full while input
     is still unconsumed: excluding it needs "a FINISH request can be driven to completion and the
     bytes do not depend on the output schedule" (C05's schedule independence / a drain-to-finish
     liveness lemma over `run`), not available as one theorem yet;
 (2) `hpos`: `input_pos_` after the job is the piece length (no call-level position lemma exported by
     the stream lemmas; the `stream` stage compares `ip` on every call);
 (3) `hmax`: C08's model of `BrotliEncoderMaxCompressedSize` (literal-driven, BV/Model/Stored.lean) is
     at most C02's (BV/Model/Multi.lean) at this length — two models of the same Rust function, each
     tied by its own correspondence lines; proved here below 2^14 bytes (`max_models_agree_small`),
     kernel-checked at sample lengths above.

What `multi_succeeds_when_sized` then still assumes: `MemberOK` (job outputs are well-formed catable
members, every piece non-empty — C03's side) and the per-job SIZE bounds `JobStream`; the latter are
what this file derives for fresh-encoder jobs from `LogGuard` (modulo (1)–(3)); for quality ≥ 2 jobs
with a dictionary prefix the stream model does not apply (C02Part's scope), and at quality 0/1 the
bound is false for small windows (the job answers `Err`, allowed).
-/
import BV.Props.C02Part
import BV.Props.C08Run

namespace BV.Props.C02Run
open BV.Multi BV.Multi.Res BV.Lemmas.Multi BV.Stream BV.StreamJob BV.Props.C02Part

/-- `part_succeeds_when_stream_fits_run_partial`: see the file header.  `LogGuard` is the only
hypothesis about the payload encoder; the conclusion holds whatever further answers (`rest`) the
encoder might have given: `compress_part` makes one call and returns `Ok` with all its bytes. -/
theorem part_succeeds_when_stream_fits_run_partial (i t n : Nat) (hi : i < t) (ht64 : t < U64) (hnt : n * t < U64)
    {o : Oracle} {fuel : Nat} {piece : Bytes} {s0 s2 : St} {tr : Trace}
    (hlen : piece.length = bnd t n (i + 1) - bnd t n i)
    (hf : IsFresh s0) (hh : s0.params.sizeHint < 2 ^ 35) (hn : piece.length < 2 ^ 54)
    (hrun : run o fuel [.stream 2 piece (maxCompressedSize piece.length), .take 0] s0 {} = .ok (s2, tr))
    (hq : s2.q01 = false) (hfin : isFinished s2 = true) (hpos : s2.inputPos = piece.length)
    (hmax : BV.Stored.maxCompressedSize piece.length ≤ maxCompressedSize piece.length) :
    ∃ (s' : St) (io' : Io) (r : Bool) (log : List Ev),
      compressStream o fuel s0 2 piece (maxCompressedSize piece.length) = .ok (s', io', r) ∧
      deliveredBits tr s2 = logBits o log ∧ logReqs log = tr.reqs ∧
      (LogGuard o 0 ⟨0, 0, 0, 0⟩ log →
        ∀ rest, compressPart i t n (observed piece.length s' io' r :: rest) = .ok io'.out) := by
  have hw : piece.length < two64 := by
    have : (2 : Nat) ^ 54 < two64 := by decide
    omega
  -- unfold the two calls of the history
  simp only [run, runCall] at hrun
  cases hc : compressStream o fuel s0 2 piece (maxCompressedSize piece.length) with
  | panic => rw [hc] at hrun; simp at hrun
  | fuel => rw [hc] at hrun; simp at hrun
  | ok v =>
    obtain ⟨s', io', r⟩ := v
    rw [hc] at hrun
    simp only at hrun
    cases ht : takeOutput s' 0 with
    | panic => rw [ht] at hrun; simp at hrun
    | fuel => rw [ht] at hrun; simp at hrun
    | ok w =>
      obtain ⟨s2', out2⟩ := w
      rw [ht] at hrun
      injection hrun with hrun
      injection hrun with hs2 htr
      subst hs2
      have hcs : CallState s0 piece.length := Or.inl ⟨hf, hw⟩
      have hI' : Inv s' := ((BV.Props.C20.stream_refines_contract_fresh (by decide) hf hw hc).2
        (finish_call_contract' hcs hc).1).1
      obtain ⟨_, hpend, _, _⟩ := takeOutput_spec hI' ht
      have hp2 : s2'.pending = [] := by
        simp only [isFinished, decide_eq_true_eq] at hfin
        exact List.eq_nil_of_length_eq_zero hfin.2
      have hrun' : run o fuel [.stream 2 piece (maxCompressedSize piece.length), .take 0] s0 {} = .ok (s2', tr) := by
        simp only [run, runCall, hc, ht, htr]
      have hnf : NeverFlushed [Call.stream 2 piece (maxCompressedSize piece.length), Call.take 0] :=
        ⟨Or.inr rfl, trivial⟩
      have hhl : histLen [Call.stream 2 piece (maxCompressedSize piece.length), Call.take 0] < two64 := by
        show piece.length + (0 + 0) < two64
        omega
      have hn' : s2'.inputPos < 2 ^ 54 := by rw [hpos]; exact hn
      obtain ⟨log, hb, hr, hG⟩ := BV.Props.C08Run.stream_total_le_bound_run
        (calls := [Call.stream 2 piece (maxCompressedSize piece.length), Call.take 0]) hf hh hnf hhl hrun' hq hfin hn'
      refine ⟨s', io', r, log, rfl, hb, hr, ?_⟩
      intro hLG rest
      have hle := hG hLG
      rw [hpos] at hle
      have hdel : tr.delivered.length = io'.out.length + out2.length := by
        rw [← htr]; simp [Trace.afterStream]
      have hpl : s'.pending.length = out2.length := by rw [hpend, hp2, List.append_nil]
      have hfit : io'.out.length + s'.pending.length ≤ maxCompressedSize piece.length := by omega
      rw [part_of_stream_model i t n hi ht64 hnt hlen hcs hc rest, if_pos hfit]

/-- the two models of `BrotliEncoderMaxCompressedSize` (C08's literal-driven one, C02's) agree below
2^14 bytes (closed forms of both sides); for longer pieces the inequality is the hypothesis `hmax` -/
theorem max_models_agree_small (n : Nat) (hn : n < 2 ^ 14) :
    BV.Stored.maxCompressedSize n ≤ maxCompressedSize n := by
  rw [BV.Stored.max_closed n (by omega)]
  by_cases h0 : n = 0
  · subst h0; simp [maxCompressedSize_zero]
  · have := maxCompressedSize_ge n (by omega) (by omega)
    rw [if_neg h0, if_pos hn]
    omega

example : BV.Stored.maxCompressedSize 100000 = maxCompressedSize 100000 ∧
    BV.Stored.maxCompressedSize 16384 = maxCompressedSize 16384 ∧
    BV.Stored.maxCompressedSize (2 ^ 30 + 7) = maxCompressedSize (2 ^ 30 + 7) := by decide

end BV.Props.C02Run
