/-
C15, translator tie: the Lean definition GENERATED from the current Rust text of `EncodeWindowBits`
(tools/rs2lean.py -> BV/Gen/FnC15.lean) equals the model's `encodeWindowBits` for every window
exponent a 6-bit field can carry (the encoder passes 10..30) and both header forms; the two `&mut`
results do not depend on the values they had before the call.
-/
import BV.Gen.FnC15
import BV.Model.Header

namespace BV.Props.C15Gen
open BV.Gen.FnC15

theorem encode_window_bits_generated_fin :
    ∀ (k : Fin 64) (large : Bool),
      EncodeWindowBits (k.val : Int) large 0 0 = BV.Header.encodeWindowBits (k.val : Int) large := by
  decide +kernel

/-- the previous contents of `*last_bytes` / `*last_bytes_bits` are irrelevant -/
theorem encode_window_bits_ignores_outs (lgwin : Int) (large : Bool) (a b : Nat) :
    EncodeWindowBits lgwin large a b = EncodeWindowBits lgwin large 0 0 := by
  unfold EncodeWindowBits
  rfl

/-- for every window exponent `0 ≤ lgwin < 64`, whatever the out-parameters held -/
theorem encode_window_bits_generated (lgwin : Nat) (h : lgwin < 64) (large : Bool) (a b : Nat) :
    EncodeWindowBits (lgwin : Int) large a b = BV.Header.encodeWindowBits (lgwin : Int) large := by
  rw [encode_window_bits_ignores_outs]
  exact encode_window_bits_generated_fin ⟨lgwin, h⟩ large

example : EncodeWindowBits 22 false 7 7 = (11, 4) := by decide
example : EncodeWindowBits 30 true 0 0 = (0x1e11, 14) := by decide

end BV.Props.C15Gen
