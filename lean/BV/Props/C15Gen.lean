/-
C15, translator tie: the Lean definitions GENERATED from the current Rust text (tools/rs2lean.py ->
BV/Gen/FnC15.lean) of `EncodeWindowBits`, `SanitizeParams`, `ComputeLgBlock`, `ComputeRbBits`,
`update_size_hint` (+ `unprocessed_input_size`), `encode_base_128` and `BrotliWriteMetadataMetaBlock`
equal the hand-written header model `BV.Header` (over which C15's theorems are stated):

* `EncodeWindowBits`: for every window exponent a 6-bit field can carry (the encoder passes 10..30) and
  both header forms; the two `&mut` results do not depend on the values they had before the call;
* `SanitizeParams`: the WHOLE generated parameter structure after the call is the structure before it
  with exactly `quality`, `lgwin`, `appendable` replaced by the model's values (every field value, no
  range hypothesis) — in particular no other field is touched;
* `ComputeLgBlock`: every parameter structure; `ComputeRbBits`: whenever `1 + max` fits an `i32`;
* `update_size_hint`: the whole encoder state afterwards is the state before with `params.size_hint`
  replaced by the model's `updateSizeHint` (every state, every `available_in`);
* `encode_base_128`: for every `u64` the returned pair is (the model's byte count, the model's bytes
  followed by zeros up to 10); the debug-build no-panic condition `encode_base_128_ok` holds;
* `BrotliWriteMetadataMetaBlock`: the generated list of `BrotliWriteBits` / `JumpToByteBoundary` calls,
  run on ANY writer, is the model's `writeMetadataMetaBlock` (every parameter structure with a `u64`
  size hint).

`BrotliInitDistanceParams` / `ChooseDistanceParams` have no hand-written model: `BV.Props.C15GenD`
states their properties directly over the generated definitions.
-/
import BV.Gen.FnC15
import BV.Model.Header
import BV.Lemmas.RsPrelude
import BV.Lemmas.RsWriter
import BV.Lemmas.HeaderB128

namespace BV.Props.C15Gen
open BV.Gen.FnC15 BV.Header BV.Rs BV.Bits BV.Bits.Out

theorem encode_window_bits_generated_fin :
    ∀ (k : Fin 64) (large : Bool),
      EncodeWindowBits (k.val : Int) large 0 0 = BV.Header.encodeWindowBits (k.val : Int) large := by
  decide +kernel

/-- the previous contents of `*last_bytes` / `*last_bytes_bits` are irrelevant -/
theorem encode_window_bits_ignores_outs (lgwin : Int) (large : Bool) (a b : Nat) :
    EncodeWindowBits lgwin large a b = EncodeWindowBits lgwin large 0 0 := by
  unfold EncodeWindowBits
  rfl

/-- for every window exponent `0 ≤ lgwin < 64`, whatever the out-parameters held -/
theorem encode_window_bits_generated (lgwin : Nat) (h : lgwin < 64) (large : Bool) (a b : Nat) :
    EncodeWindowBits (lgwin : Int) large a b = BV.Header.encodeWindowBits (lgwin : Int) large := by
  rw [encode_window_bits_ignores_outs]
  exact encode_window_bits_generated_fin ⟨lgwin, h⟩ large

example : EncodeWindowBits 22 false 7 7 = (11, 4) := by decide
example : EncodeWindowBits 30 true 0 0 = (0x1e11, 14) := by decide


/-! ## the parameter functions -/

/-- the fields of the generated `BrotliEncoderParams` the header model looks at -/
def toParams (p : BrotliEncoderParams) : Params :=
  { quality := p.quality, lgwin := p.lgwin, lgblock := p.lgblock, largeWindow := p.large_window,
    catable := p.catable, appendable := p.appendable, useDictionary := p.use_dictionary,
    magicNumber := p.magic_number, sizeHint := p.size_hint }

theorem check_large_window_ok_generated : check_large_window_ok = true := rfl

theorem sanitize_params_generated (p : BrotliEncoderParams) :
    SanitizeParams p = { p with quality := (sanitizeParams true (toParams p)).quality,
                                lgwin := (sanitizeParams true (toParams p)).lgwin,
                                appendable := (sanitizeParams true (toParams p)).appendable } := by
  have hl : litsSan = [11, 0, 10, 10, 24, 30, 30, 24] := rfl
  unfold SanitizeParams sanitizeParams toParams check_large_window_ok
  simp only [hl, lit, List.getD_cons_zero, List.getD_cons_succ]
  cases hc : p.catable <;> cases hw : p.large_window <;> simp <;> split <;> (try split) <;> (try split) <;> simp_all

theorem compute_lg_block_generated (p : BrotliEncoderParams) :
    ComputeLgBlock p = computeLgBlock (toParams p) := by
  have hl : litsLgb = [0, 1, 4, 14, 0, 16, 9, 18, 24, 16] := rfl
  unfold ComputeLgBlock computeLgBlock toParams
  simp only [hl, lit, List.getD_cons_zero, List.getD_cons_succ]
  simp only [Bool.or_eq_true, beq_iff_eq, Bool.and_eq_true, decide_eq_true_eq]
  rfl

theorem compute_rb_bits_generated (p : BrotliEncoderParams)
    (h1 : -2147483648 ≤ p.lgwin ∧ p.lgwin < 2147483647) (h2 : -2147483648 ≤ p.lgblock ∧ p.lgblock < 2147483647) :
    ComputeRbBits p = computeRbBits (toParams p) := by
  unfold ComputeRbBits computeRbBits toParams
  have : lit BV.Gen.lits_ComputeRbBits 0 = 1 := rfl
  rw [this]
  apply BV.Rs.wrapS32_of_range <;> omega

theorem update_size_hint_generated (s : BrotliEncoderStateStruct) (avail : Nat) :
    update_size_hint s avail = { s with params := { s.params with
        size_hint := updateSizeHint s.params.size_hint (unprocessed_input_size s) avail } } := by
  have hl : litsUsh = [0, 1, 30] := rfl
  unfold update_size_hint updateSizeHint
  simp only [hl, lit, List.getD_cons_zero, List.getD_cons_succ]
  by_cases h : s.params.size_hint = 0
  · simp only [h, beq_self_eq_true, if_true]
    simp only [Bool.or_eq_true, decide_eq_true_eq, or_assoc]
    have e : (1 <<< (30 % 32)) % 4294967296 = 1 * 2 ^ 30 := by decide
    have e2 : (2:Nat)^64 = 18446744073709551616 := by decide
    have e3 : (2:Nat)^32 = 4294967296 := by decide
    rw [e, e2, e3]
  · have : (s.params.size_hint == 0) = false := by simp [h]
    simp [this, h]

/-! ## `encode_base_128` -/

def b128Body : Nat → Nat × List Nat → Ctl (Nat × List Nat) (Nat × List Nat) :=
  fun index (value, ret) =>
    let ret : List Nat := (List.set ret index ((value &&& 127) % 256))
    let value : Nat := (value >>> (7 % 64))
    if (value != 0) then
      let ret : List Nat := (List.set ret index ((List.getD ret index 0) ||| 128))
      BV.Rs.Ctl.next (value, ret)
    else
      BV.Rs.Ctl.ret ((((index + 1) % 18446744073709551616), ret))

theorem encode_base_128_unfold (value : Nat) :
    encode_base_128 value =
      match forRangeRAux b128Body 10 0 (value, List.replicate 10 0) with
      | .ret r => r
      | .done (_, ret) => (ret.length, ret) := rfl

/-- loop invariant: with `acc` the bytes written so far (`acc.length = index`) and zeros behind them -/
theorem b128_loop (n : Nat) : ∀ (value : Nat) (acc : List Nat), acc.length + n = 10 →
    (match forRangeRAux b128Body n acc.length (value, acc ++ List.replicate n 0) with
      | .ret r => r
      | .done (_, ret) => (ret.length, ret)) =
    ((encodeBase128Loop n value acc).length,
      encodeBase128Loop n value acc ++ List.replicate (10 - (encodeBase128Loop n value acc).length) 0) := by
  induction n with
  | zero => intro value acc h; simp [forRangeRAux, encodeBase128Loop]; omega
  | succ n ih =>
    intro value acc h
    have hl : litsB128 = [0, 0, 127, 7, 0, 128, 1] := rfl
    unfold forRangeRAux encodeBase128Loop
    simp only [hl, lit, List.getD_cons_zero, List.getD_cons_succ, b128Body]
    have hm : (value &&& 127) % 256 = value &&& 127 := by
      have : value &&& 127 ≤ 127 := Nat.and_le_right
      omega
    have hset : ∀ x, (acc ++ List.replicate (n + 1) 0).set acc.length x = (acc ++ [x]) ++ List.replicate n 0 := by
      intro x
      simp [List.replicate_succ]
    by_cases hv : value >>> 7 = 0
    · simp [hv, hm, hset]; omega
    · have hv' : (value >>> (7 % 64) != 0) = true := by simpa using hv
      simp only [hv', if_true, hm, hset, ne_eq, hv, not_false_eq_true]
      have hg : (acc ++ [value &&& 127] ++ List.replicate n 0).getD acc.length 0 = value &&& 127 := by
        simp [List.getD_eq_getElem?_getD]
      rw [hg]
      have hset2 : (acc ++ [value &&& 127] ++ List.replicate n 0).set acc.length (value &&& 127 ||| 128)
          = (acc ++ [value &&& 127 ||| 128]) ++ List.replicate n 0 := by
        simp
      rw [hset2]
      have := ih (value >>> 7) (acc ++ [value &&& 127 ||| 128]) (by simp; omega)
      simp only [List.length_append, List.length_singleton] at this
      exact this

/-- `encode_base_128(value)` = (number of significant bytes, those bytes followed by zeros up to 10) -/
theorem encode_base_128_generated (value : Nat) (h : value < 2 ^ 64) :
    encode_base_128 value =
      ((encodeBase128 value).length, encodeBase128 value ++ List.replicate (10 - (encodeBase128 value).length) 0) := by
  rw [encode_base_128_unfold]
  have := b128_loop 10 value [] rfl
  simp only [List.length_nil, List.nil_append] at this
  rw [this]
  unfold encodeBase128
  have : BV.Gen.MAX_SIZE_ENCODING = 10 := rfl
  rw [this, Nat.mod_eq_of_lt h]

/-! ## `BrotliWriteMetadataMetaBlock` -/

theorem forRangeAux_bytes (l : List Nat) : ∀ (n i : Nat) (w : List WOp), i + n = l.length →
    forRangeAux (fun i w => w ++ [WOp.bits 8 (l.getD i 0)]) n i w = w ++ (l.drop i).map (WOp.bits 8) := by
  intro n
  induction n with
  | zero => intro i w h; simp [forRangeAux]; omega
  | succ n ih =>
    intro i w h
    unfold forRangeAux
    rw [ih (i + 1) _ (by omega)]
    have hi : i < l.length := by omega
    rw [List.drop_eq_getElem_cons hi]
    simp only [List.map_cons, List.getD_eq_getElem?_getD, List.getElem?_eq_getElem hi, Option.getD_some,
      List.append_assoc, List.singleton_append]

theorem forRange_bytes (l : List Nat) (w : List WOp) :
    forRange 0 l.length w (fun i w => w ++ [WOp.bits 8 (l.getD i 0)]) = w ++ l.map (WOp.bits 8) := by
  unfold forRange
  rw [forRangeAux_bytes l _ 0 w (by omega)]
  simp

theorem runOps_append (a b : List WOp) (w : Writer) : runOps (a ++ b) w = (runOps a w) >>= (runOps b) := by
  induction a generalizing w with
  | nil => simp
  | cons x xs ih =>
    cases x with
    | bits n v =>
      simp only [List.cons_append, runOps_bits]
      cases hw : writeBits n v w <;> simp [ih]
    | align => simp [ih]

theorem runOps_bytes (l : List Nat) (w : Writer) : runOps (l.map (WOp.bits 8)) w = writeBytes 8 l w := by
  induction l generalizing w with
  | nil => rfl
  | cons b bs ih =>
    simp only [List.map_cons, runOps_bits, writeBytes]
    cases writeBits 8 b w <;> simp [ih]

theorem slice_prefix (a b : List Nat) : slice (a ++ b) 0 a.length = a := by
  simp [slice]

theorem magic_generated (p : BrotliEncoderParams) :
    (if (p.catable && (!p.use_dictionary)) then ( [225, 151, 129]) else ( (if p.appendable then ( [225, 151, 130]) else ( [225, 151, 128]))))
      = magicNumber (toParams p) := by
  unfold magicNumber toParams
  rfl

theorem write_metadata_ops (p : BrotliEncoderParams) (h : p.size_hint < 2 ^ 64) :
    BrotliWriteMetadataMetaBlock p =
      [WOp.bits 1 0, WOp.bits 2 3, WOp.bits 1 0, WOp.bits 2 1,
        WOp.bits 8 (3 + (encodeBase128 p.size_hint).length), WOp.align]
      ++ (magicNumber (toParams p)).map (WOp.bits 8) ++ [WOp.bits 8 1]
      ++ (encodeBase128 p.size_hint).map (WOp.bits 8) := by
  unfold BrotliWriteMetadataMetaBlock
  simp only [encode_base_128_generated p.size_hint h, slice_prefix, magic_generated]
  rw [forRange_bytes, forRange_bytes]
  have hlen : (encodeBase128 p.size_hint).length ≤ 10 := (encodeBase128_spec p.size_hint h []).2.2.1
  have : (3 + (encodeBase128 p.size_hint).length) % 18446744073709551616 = 3 + (encodeBase128 p.size_hint).length := by omega
  rw [this]
  simp

theorem out_bind_congr {α β : Type} (x : Out α) (f g : α → Out β) (h : ∀ a, f a = g a) : (x >>= f) = (x >>= g) := by
  cases x <;> simp [h]

/-- the generated operation list of `BrotliWriteMetadataMetaBlock`, run on ANY writer, is what the header
model writes (magic bytes by concatenation mode, crate version, base-128 size hint) -/
theorem write_metadata_meta_block_generated (p : BrotliEncoderParams) (h : p.size_hint < 2 ^ 64) (w : Writer) :
    runOps (BrotliWriteMetadataMetaBlock p) w = writeMetadataMetaBlock (toParams p) w := by
  rw [write_metadata_ops p h]
  have hl : litsMeta = [1, 0, 2, 3, 1, 0, 2, 1, 8, 3, 3, 225, 151, 129, 225, 151, 130, 225, 151, 128, 8, 8, 8] := rfl
  have hv : BV.Gen.BROTLI_CRATE_VERSION = 1 := rfl
  have hsz : (toParams p).sizeHint = p.size_hint := rfl
  unfold writeMetadataMetaBlock
  simp only [hl, hv, hsz, lit, List.getD_cons_zero, List.getD_cons_succ]
  simp only [List.cons_append, List.nil_append, runOps_bits, List.append_assoc]
  refine out_bind_congr _ _ _ (fun w1 => ?_)
  rw [runOps_bits]; refine out_bind_congr _ _ _ (fun w2 => ?_)
  rw [runOps_bits]; refine out_bind_congr _ _ _ (fun w3 => ?_)
  rw [runOps_bits]; refine out_bind_congr _ _ _ (fun w4 => ?_)
  rw [runOps_bits]; refine out_bind_congr _ _ _ (fun w5 => ?_)
  rw [runOps_align, runOps_append, runOps_bytes]
  refine out_bind_congr _ _ _ (fun w6 => ?_)
  rw [runOps_bits]; refine out_bind_congr _ _ _ (fun w7 => ?_)
  rw [runOps_bytes]

/-! `encode_base_128` cannot panic in a debug build (index in bounds, `index + 1` does not overflow): every value -/

def b128OkBody : Nat → Nat × List Nat × Bool → Ctl (Nat × List Nat × Bool) Bool :=
  fun index (value, ret, ok_) =>
    let ok_ : Bool := (ok_ && decide (index < List.length ret))
    let ret : List Nat := (List.set ret index ((value &&& 127) % 256))
    let ok_ : Bool := (ok_ && decide (7 < 64))
    let value : Nat := (value >>> (7 % 64))
    if (value != 0) then
      let ok_ : Bool := (ok_ && decide (index < List.length ret) && decide (index < List.length ret))
      let ret : List Nat := (List.set ret index ((List.getD ret index 0) ||| 128))
      BV.Rs.Ctl.next (value, ret, ok_)
    else
      let ok_ : Bool := (ok_ && decide (index + 1 < 18446744073709551616))
      BV.Rs.Ctl.ret (ok_)

theorem encode_base_128_ok_unfold (value : Nat) :
    encode_base_128_ok value =
      match forRangeRAux b128OkBody 10 0 (value, List.replicate 10 0, true) with
      | .ret r => r
      | .done (_, _, ok_) => ok_ := rfl

theorem b128_ok_loop (n : Nat) : ∀ (i value : Nat) (ret : List Nat), ret.length = 10 → i + n = 10 →
    (match forRangeRAux b128OkBody n i (value, ret, true) with
      | .ret r => r
      | .done (_, _, ok_) => ok_) = true := by
  induction n with
  | zero => intro i value ret h1 h2; rfl
  | succ n ih =>
    intro i value ret h1 h2
    unfold forRangeRAux
    simp only [b128OkBody, List.length_set, h1]
    have hi : decide (i < 10) = true := by simp; omega
    have hi2 : decide (i + 1 < 18446744073709551616) = true := by simp; omega
    have h7 : decide (7 < 64) = true := by decide
    simp only [hi, hi2, h7, Bool.and_self]
    by_cases hv : (value >>> (7 % 64) != 0) = true
    · simp only [hv, if_true]
      exact ih (i + 1) _ _ (by simp [h1]) (by omega)
    · simp only [hv]
      rfl

theorem encode_base_128_ok_generated (value : Nat) : encode_base_128_ok value = true := by
  rw [encode_base_128_ok_unfold]
  exact b128_ok_loop 10 0 value _ (by simp) rfl

example : encode_base_128 300 = (2, [172, 2, 0, 0, 0, 0, 0, 0, 0, 0]) := by decide
example : (SanitizeParams { (default : BrotliEncoderParams) with quality := 99, lgwin := 40, large_window := true, catable := true })
    = { (default : BrotliEncoderParams) with quality := 11, lgwin := 30, large_window := true, catable := true, appendable := true } := by
  decide
example : ComputeLgBlock { (default : BrotliEncoderParams) with quality := 9, lgwin := 22 } = 18 := by decide
example : (update_size_hint { (default : BrotliEncoderStateStruct) with input_pos_ := 100, last_processed_pos_ := 40 } 5).params.size_hint = 65 := by
  decide

end BV.Props.C15Gen
