/-
C20, translator tie: the Lean definitions GENERATED from the current Rust text (tools/rs2lean.py ->
BV/Gen/FnC20.lean; `BrotliEncoderParams` / `BrotliEncoderStateStruct` as Lean structures of their supported
fields, the parameter enum as its discriminants — the `use BrotliEncoderParameter::*;` of the body resolves
the bare variant names) of the free function `set_parameter`, the method
`BrotliEncoderStateStruct::set_parameter`, `SanitizeParams`, `ComputeLgBlock` and `EncodeWindowBits` agree
with the stream model `BV.Stream` (over which C20's theorems — params_frozen, set_parameter_table, the
refinement of the contract automaton — are stated):

* `set_parameter_generated`: for EVERY parameter id (the 27 ids of the Rust `match` and every other number)
  and every `u32` value, the generated function refuses (returns `false`, parameters untouched) exactly when
  the model's `setParamRaw` returns `none`, and otherwise returns `true` with the model's values in every
  field the model keeps (`toP`);
* `state_set_parameter_generated`: the method refuses on an initialised encoder and otherwise is the free
  function on `self.params` — the model's `setParameter`;
* `sanitize_generated`, `compute_lg_block_generated` (every parameter structure), `encode_window_bits_generated`
  (8 <= lgwin < 64, both header forms);
* `update_size_hint_generated` (+ `unprocessed_input_size`): the whole encoder state afterwards is the state before with
  `params.size_hint` replaced by the model's `sizeHintTotal` of (`wsub64 input_pos_ last_processed_pos_`, `available_in`).
-/
import BV.Gen.FnC20
import BV.Model.Stream
import BV.Lemmas.RsPrelude

set_option linter.unusedSimpArgs false

namespace BV.Props.C20Gen
open BV.Gen.FnC20 BV.Stream BV.Rs

/-- the fields of the generated `BrotliEncoderParams` the stream model keeps -/
def toP (p : BrotliEncoderParams) : Params :=
  { mode := p.mode, quality := p.quality, lgwin := p.lgwin, lgblock := p.lgblock, sizeHint := p.size_hint,
    dlcm := p.disable_literal_context_modeling, largeWindow := p.large_window, q95 := p.q9_5,
    lbs := p.hasher.literal_byte_score, catable := p.catable, useDict := p.use_dictionary,
    appendable := p.appendable, magic := p.magic_number }

theorem wrapS_toI32 (v : Nat) (h : v < 4294967296) : wrapS 32 ((v : Nat) : Int) = toI32 v := by
  unfold toI32 two32 wrapS
  have e1 : (2 : Int) ^ (32 - 1) = 2147483648 := by decide
  have e2 : (2 : Int) ^ 32 = 4294967296 := by decide
  rw [e1, e2, Nat.mod_eq_of_lt h]
  split <;> omega

theorem mode_chain (v : Nat) :
    (if v = 0 then 0 else if v = 1 then 1 else if v = 2 then 2 else if v = 3 then 3 else if v = 4 then 4
      else if v = 5 then 5 else if v = 6 then 6 else 0) = (if v ≤ 6 then v else 0) := by
  repeat' split
  all_goals omega

/-- the statement for one parameter id -/
def Agree (p : BrotliEncoderParams) (id v : Nat) : Prop :=
  match setParamRaw (toP p) id v with
  | some q => (set_parameter p id v).1 = true ∧ toP (set_parameter p id v).2 = q
  | none => set_parameter p id v = (false, p)

theorem bne_zero (v : Nat) : (v != 0) = !decide (v = 0) := by
  by_cases h : v = 0 <;> simp [h]

theorem agree_0 (p : BrotliEncoderParams) (v : Nat) : Agree p 0 v := by
  unfold Agree
  simp [set_parameter, setParamRaw, toP, mode_chain]

theorem agree_1 (p : BrotliEncoderParams) (v : Nat) (h : v < 4294967296) : Agree p 1 v := by
  unfold Agree
  simp [set_parameter, setParamRaw, toP, wrapS_toI32 v h]

theorem agree_2 (p : BrotliEncoderParams) (v : Nat) (h : v < 4294967296) : Agree p 2 v := by
  unfold Agree
  simp [set_parameter, setParamRaw, toP, wrapS_toI32 v h]

theorem agree_3 (p : BrotliEncoderParams) (v : Nat) (h : v < 4294967296) : Agree p 3 v := by
  unfold Agree
  simp [set_parameter, setParamRaw, toP, wrapS_toI32 v h]

theorem agree_4 (p : BrotliEncoderParams) (v : Nat) : Agree p 4 v := by
  unfold Agree
  by_cases h0 : v = 0
  · subst h0; simp [set_parameter, setParamRaw, toP]
  · by_cases h1 : v = 1
    · subst h1; simp [set_parameter, setParamRaw, toP]
    · simp [set_parameter, setParamRaw, h0, h1]

theorem agree_5 (p : BrotliEncoderParams) (v : Nat) (h : v < 4294967296) : Agree p 5 v := by
  unfold Agree
  simp [set_parameter, setParamRaw, toP, two32, Nat.mod_eq_of_lt h]

theorem agree_6 (p : BrotliEncoderParams) (v : Nat) : Agree p 6 v := by
  unfold Agree
  simp [set_parameter, setParamRaw, toP, bne_zero]

theorem agree_150 (p : BrotliEncoderParams) (v : Nat) : Agree p 150 v := by
  unfold Agree
  simp [set_parameter, setParamRaw, toP, bne_zero]

theorem agree_151 (p : BrotliEncoderParams) (v : Nat) : Agree p 151 v := by
  unfold Agree
  simp [set_parameter, setParamRaw, toP, bne_zero]

theorem agree_152 (p : BrotliEncoderParams) (v : Nat) : Agree p 152 v := by
  unfold Agree
  simp [set_parameter, setParamRaw, toP, bne_zero]

theorem agree_153 (p : BrotliEncoderParams) (v : Nat) : Agree p 153 v := by
  unfold Agree
  simp [set_parameter, setParamRaw, toP, bne_zero]

theorem agree_154 (p : BrotliEncoderParams) (v : Nat) (h : v < 4294967296) : Agree p 154 v := by
  unfold Agree
  simp [set_parameter, setParamRaw, toP, wrapS_toI32 v h]

theorem agree_155 (p : BrotliEncoderParams) (v : Nat) : Agree p 155 v := by
  unfold Agree
  simp [set_parameter, setParamRaw, toP, bne_zero]

theorem agree_156 (p : BrotliEncoderParams) (v : Nat) : Agree p 156 v := by
  unfold Agree
  simp [set_parameter, setParamRaw, toP, bne_zero]

theorem agree_157 (p : BrotliEncoderParams) (v : Nat) : Agree p 157 v := by
  unfold Agree
  simp only [setParamRaw]
  simp only [set_parameter]
  simp
  split <;> simp [toP]

theorem agree_158 (p : BrotliEncoderParams) (v : Nat) : Agree p 158 v := by
  unfold Agree
  simp only [setParamRaw]
  simp only [set_parameter]
  simp
  split <;> simp [toP]

theorem agree_159 (p : BrotliEncoderParams) (v : Nat) : Agree p 159 v := by
  unfold Agree
  simp only [setParamRaw]
  simp only [set_parameter]
  simp
  split <;> simp [toP]

theorem agree_160 (p : BrotliEncoderParams) (v : Nat) : Agree p 160 v := by
  unfold Agree
  simp only [setParamRaw]
  simp only [set_parameter]
  simp
  split <;> simp [toP]

theorem agree_161 (p : BrotliEncoderParams) (v : Nat) : Agree p 161 v := by
  unfold Agree
  simp [set_parameter, setParamRaw, toP, bne_zero]

theorem agree_162 (p : BrotliEncoderParams) (v : Nat) : Agree p 162 v := by
  unfold Agree
  simp [set_parameter, setParamRaw, toP, bne_zero]

theorem agree_164 (p : BrotliEncoderParams) (v : Nat) : Agree p 164 v := by
  unfold Agree
  simp [set_parameter, setParamRaw, toP, bne_zero]

theorem agree_165 (p : BrotliEncoderParams) (v : Nat) : Agree p 165 v := by
  unfold Agree
  simp [set_parameter, setParamRaw, toP, bne_zero]

theorem agree_166 (p : BrotliEncoderParams) (v : Nat) : Agree p 166 v := by
  unfold Agree
  simp [set_parameter, setParamRaw, toP, bne_zero]

theorem agree_167 (p : BrotliEncoderParams) (v : Nat) : Agree p 167 v := by
  unfold Agree
  cases ha : p.appendable <;> simp [set_parameter, setParamRaw, toP, ha, bne_zero]

theorem agree_168 (p : BrotliEncoderParams) (v : Nat) : Agree p 168 v := by
  unfold Agree
  simp [set_parameter, setParamRaw, toP, bne_zero]

theorem agree_169 (p : BrotliEncoderParams) (v : Nat) : Agree p 169 v := by
  unfold Agree
  simp [set_parameter, setParamRaw, toP, bne_zero]

theorem agree_171 (p : BrotliEncoderParams) (v : Nat) : Agree p 171 v := by
  unfold Agree
  simp [set_parameter, setParamRaw, toP, bne_zero]

theorem agree_other (p : BrotliEncoderParams) (id v : Nat)
    (h : ∀ k ∈ [0, 1, 2, 3, 4, 5, 6, 150, 151, 152, 153, 154, 155, 156, 157, 158, 159, 160, 161, 162, 164, 165, 166, 167, 168, 169, 171], id ≠ k) :
    Agree p id v := by
  unfold Agree
  simp only [List.mem_cons, List.mem_nil_iff, or_false, forall_eq_or_imp, forall_eq] at h
  obtain ⟨a0, a1, a2, a3, a4, a5, a6, a150, a151, a152, a153, a154, a155, a156, a157, a158, a159, a160, a161, a162, a164, a165, a166, a167, a168, a169, a171⟩ := h
  have hm : setParamRaw (toP p) id v = none := by
    unfold setParamRaw
    split <;> first | rfl | omega
  rw [hm]
  simp [set_parameter, a0, a1, a2, a3, a4, a5, a6, a150, a151, a152, a153, a154, a155, a156, a157, a158, a159, a160, a161, a162, a164, a165, a166, a167, a168, a169, a171]

/-- free function `set_parameter(params, p, value)`: for EVERY parameter id (the 27 the Rust `match` lists and every
other `u32`) and every `u32` value, the generated function returns `false` and leaves the parameters alone exactly when
the stream model's `setParamRaw` refuses, and otherwise returns `true` with parameters whose model-relevant fields are
the model's -/
theorem set_parameter_generated (p : BrotliEncoderParams) (id v : Nat) (h : v < 2 ^ 32) : Agree p id v := by
  have h32 : (2 : Nat) ^ 32 = 4294967296 := by decide
  rw [h32] at h
  by_cases a0 : id = 0
  · subst a0; exact agree_0 p v
  by_cases a1 : id = 1
  · subst a1; exact agree_1 p v h
  by_cases a2 : id = 2
  · subst a2; exact agree_2 p v h
  by_cases a3 : id = 3
  · subst a3; exact agree_3 p v h
  by_cases a4 : id = 4
  · subst a4; exact agree_4 p v
  by_cases a5 : id = 5
  · subst a5; exact agree_5 p v h
  by_cases a6 : id = 6
  · subst a6; exact agree_6 p v
  by_cases a150 : id = 150
  · subst a150; exact agree_150 p v
  by_cases a151 : id = 151
  · subst a151; exact agree_151 p v
  by_cases a152 : id = 152
  · subst a152; exact agree_152 p v
  by_cases a153 : id = 153
  · subst a153; exact agree_153 p v
  by_cases a154 : id = 154
  · subst a154; exact agree_154 p v h
  by_cases a155 : id = 155
  · subst a155; exact agree_155 p v
  by_cases a156 : id = 156
  · subst a156; exact agree_156 p v
  by_cases a157 : id = 157
  · subst a157; exact agree_157 p v
  by_cases a158 : id = 158
  · subst a158; exact agree_158 p v
  by_cases a159 : id = 159
  · subst a159; exact agree_159 p v
  by_cases a160 : id = 160
  · subst a160; exact agree_160 p v
  by_cases a161 : id = 161
  · subst a161; exact agree_161 p v
  by_cases a162 : id = 162
  · subst a162; exact agree_162 p v
  by_cases a164 : id = 164
  · subst a164; exact agree_164 p v
  by_cases a165 : id = 165
  · subst a165; exact agree_165 p v
  by_cases a166 : id = 166
  · subst a166; exact agree_166 p v
  by_cases a167 : id = 167
  · subst a167; exact agree_167 p v
  by_cases a168 : id = 168
  · subst a168; exact agree_168 p v
  by_cases a169 : id = 169
  · subst a169; exact agree_169 p v
  by_cases a171 : id = 171
  · subst a171; exact agree_171 p v
  exact agree_other p id v (by
    intro k hk
    simp only [List.mem_cons, List.mem_nil_iff, or_false] at hk
    rcases hk with rfl | rfl | rfl | rfl | rfl | rfl | rfl | rfl | rfl | rfl | rfl | rfl | rfl | rfl | rfl | rfl | rfl | rfl | rfl | rfl | rfl | rfl | rfl | rfl | rfl | rfl | rfl <;> assumption)

/-- method `BrotliEncoderStateStruct::set_parameter`, against the model's `setParameter`, for any model state
that carries the same parameters and initialisation flag -/
theorem state_set_parameter_generated (s : BrotliEncoderStateStruct) (m : St) (id v : Nat) (h : v < 2 ^ 32)
    (hp : m.params = toP s.params) (hi : m.isInitialized = s.is_initialized_) :
    (state_set_parameter s id v).1 = (setParameter m id v).2 ∧
    toP (state_set_parameter s id v).2.params = (setParameter m id v).1.params ∧
    (state_set_parameter s id v).2.is_initialized_ = (setParameter m id v).1.isInitialized := by
  unfold state_set_parameter setParameter
  rw [hi]
  cases hinit : s.is_initialized_ with
  | true => simp [hp, hi, hinit]
  | false =>
    have hag := set_parameter_generated s.params id v h
    unfold Agree at hag
    rw [hp]
    simp only [Bool.false_eq_true, if_false]
    cases hm : setParamRaw (toP s.params) id v with
    | none =>
      rw [hm] at hag
      simp [hag, hi, hinit, hp.symm]
    | some q =>
      rw [hm] at hag
      simp [hag.1, hag.2, hi, hinit]

/-- `SanitizeParams` -/
theorem sanitize_generated (p : BrotliEncoderParams) : toP (SanitizeParams p) = sanitize (toP p) := by
  unfold SanitizeParams sanitize toP check_large_window_ok
  cases hc : p.catable <;> cases hw : p.large_window <;> simp <;> split <;> (try split) <;> (try split) <;> simp_all

/-- `ComputeLgBlock` -/
theorem compute_lg_block_generated (p : BrotliEncoderParams) : ComputeLgBlock p = computeLgBlock (toP p) := by
  unfold ComputeLgBlock computeLgBlock toP
  simp only [Bool.or_eq_true, beq_iff_eq, Bool.and_eq_true, decide_eq_true_eq]

theorem encode_window_bits_generated_fin :
    ∀ (k : Fin 56) (large : Bool),
      EncodeWindowBits ((k.val + 8 : Nat) : Int) large 0 0 = encodeWindowBits ((k.val + 8 : Nat) : Int) large := by
  decide +kernel

/-- `EncodeWindowBits`: every window exponent `8 ≤ lgwin < 64` (the model's `toNat` clips `lgwin - 8` below 8,
where the Rust code shifts a negative `i32`; `ensure_initialized` passes 10..30), whatever the out-parameters held -/
theorem encode_window_bits_generated (lgwin : Nat) (h8 : 8 ≤ lgwin) (h : lgwin < 64) (large : Bool) (a b : Nat) :
    EncodeWindowBits (lgwin : Int) large a b = encodeWindowBits (lgwin : Int) large := by
  have : EncodeWindowBits (lgwin : Int) large a b = EncodeWindowBits (lgwin : Int) large 0 0 := by
    unfold EncodeWindowBits
    rfl
  rw [this]
  have e := encode_window_bits_generated_fin ⟨lgwin - 8, by omega⟩ large
  have e8 : lgwin - 8 + 8 = lgwin := by omega
  simp only [e8] at e
  exact e

/-- `update_size_hint` (+ `unprocessed_input_size`): the whole generated encoder state afterwards is the state before with
`params.size_hint` replaced by what the stream model stores -/
theorem update_size_hint_generated (g : BrotliEncoderStateStruct) (a : Nat) (hl : g.last_processed_pos_ < 2 ^ 64) :
    update_size_hint g a = { g with params := { g.params with
      size_hint := if g.params.size_hint = 0 then sizeHintTotal (wsub64 g.input_pos_ g.last_processed_pos_) a
                   else g.params.size_hint } } := by
  have h64 : (2 : Nat) ^ 64 = 18446744073709551616 := by decide
  rw [h64] at hl
  unfold update_size_hint unprocessed_input_size sizeHintTotal wsub64 two64
  have elim : ((1 <<< (30 % 32)) % 4294967296) = 1073741824 := by decide
  rw [elim, Nat.mod_eq_of_lt hl]
  by_cases h0 : g.params.size_hint = 0
  · have d0 : (g.params.size_hint == 0) = true := by simpa using h0
    simp only [d0, if_true]
    rw [if_pos h0]
    by_cases hc : (g.input_pos_ + 18446744073709551616 - g.last_processed_pos_) % 18446744073709551616 ≥ 1073741824 ∨ a ≥ 1073741824 ∨
        ((g.input_pos_ + 18446744073709551616 - g.last_processed_pos_) % 18446744073709551616 + a) % 18446744073709551616 ≥ 1073741824
    · have dc : (((decide ((g.input_pos_ + 18446744073709551616 - g.last_processed_pos_) % 18446744073709551616 ≥ 1073741824)) || (decide (a ≥ 1073741824))) || (decide (((g.input_pos_ + 18446744073709551616 - g.last_processed_pos_) % 18446744073709551616 + a) % 18446744073709551616 ≥ 1073741824))) = true := by
        simp only [Bool.or_eq_true, decide_eq_true_eq, or_assoc]; exact hc
      simp only [dc, if_true, if_pos hc]
    · have dc : (((decide ((g.input_pos_ + 18446744073709551616 - g.last_processed_pos_) % 18446744073709551616 ≥ 1073741824)) || (decide (a ≥ 1073741824))) || (decide (((g.input_pos_ + 18446744073709551616 - g.last_processed_pos_) % 18446744073709551616 + a) % 18446744073709551616 ≥ 1073741824))) = false := by
        rw [Bool.eq_false_iff]; intro hh
        simp only [Bool.or_eq_true, decide_eq_true_eq, or_assoc] at hh; exact hc hh
      simp only [dc, if_false, Bool.false_eq_true, if_neg hc]
      have e : ((g.input_pos_ + 18446744073709551616 - g.last_processed_pos_) % 18446744073709551616 + a) % 18446744073709551616 % 4294967296
          = (g.input_pos_ + 18446744073709551616 - g.last_processed_pos_) % 18446744073709551616 + a := by omega
      rw [e]
  · have d0 : (g.params.size_hint == 0) = false := by simpa using h0
    simp only [d0, if_false, Bool.false_eq_true]
    rw [if_neg h0]

example : (set_parameter default 1 5).2.quality = 5 := by decide
example : set_parameter default 4 2 = (false, default) := by decide
example : (update_size_hint { (default : BrotliEncoderStateStruct) with input_pos_ := 100, last_processed_pos_ := 40 } 5).params.size_hint = 65 := by decide
example : (set_parameter default 167 1).2.use_dictionary = false := by decide
example : (state_set_parameter { (default : BrotliEncoderStateStruct) with is_initialized_ := true } 1 5).1 = false := by decide

end BV.Props.C20Gen
