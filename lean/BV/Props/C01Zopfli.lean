/-
C01Zopfli — quality 10 / 11: from the Zopfli node array to the decoder.

`BrotliZopfliCreateCommands` (model `zopfliCreateCommands`, BV/Model/Zopfli.lean, tied to the real function by
the `cc` lines of stage `zopfli`) walks the `next` offsets of a node array and builds one command per node.
`zopfli_commands_lockstep` proves, for EVERY node array whose path is sound (`NodesOK`), the conclusion of
`C01Chain.commands_lockstep`: every command is `cmdOK`, the list satisfies `lockstep`, and the RFC 7932
decoder (C14's `replayCommands`) replays it to `hist ++ mb` — so that the meta-block writer theorems of
BV/Props/C01MetaBlock*.lean apply to quality 10 / 11 exactly as they do to quality 2–9.

Property theorems ONLY.  Spec side: `NodeOK` / `ringAfter` / `PathOK` / `NodesOK` (BV/Lemmas/ZopfliPath.lean) talk
about the text `hist ++ mb`, the RFC distance rules `rfcDistance` and the decoder's word oracle — not about the ring
buffer, H10 or the cost model.  What differs from the quality 2–9 chain: the distance code is the node's own
(short code chosen from Zopfli's table `kDistanceCacheIndex/Offset`, not by `ComputeDistanceCode`), and a
dictionary reference may be LONGER than its word (transforms that add bytes), i.e. `copy_len_code < copy_len`.

Scope as in C01Chain: one call covering one meta-block (`mb` = the `last_insert_len` pending literals followed by
the `num_bytes` of the block), NPOSTFIX = NDIRECT = 0.
-/
import BV.Lemmas.ZopfliExample
import BV.Lemmas.ZopfliUpd3
import BV.Lemmas.ZopfliH10
import BV.Props.C01MetaBlock

namespace BV.Props.C01Zopfli
open BV.Hasher BV.MatchFinder BV.Recoder BV.PrefixArith BV.MetaBlock BV.Cbr BV.Zopfli

/-- **zopfli_commands_lockstep**: for EVERY node array (any cost type, any costs, any `u` fields off the
path) whose path from `nodes[0].next` is sound — each node reached describes an insert followed by a copy
whose source bytes equal the target bytes in `hist ++ mb`, or a dictionary reference the decoder's word
oracle expands to the next bytes; a non-zero short code denotes the node's distance under the RFC rules
relative to the ring of last distances at that point; the walk ends inside the block — every starting
distance cache of `i32`s, every pending `last_insert_len`: the commands of `BrotliZopfliCreateCommands`,
closed with the insert-only command for the trailing literals as `encode.rs` does, satisfy `cmdOK` and
`lockstep`, and the RFC decoder replays them to exactly `hist ++ mb`. -/
theorem zopfli_commands_lockstep {K : Type} (p : Zopfli.Params) (large : Bool) (wo : WordOracle) (hist mb : Bytes)
    (nodes : Array (Node K)) (numBytes position : Nat) (cache : List Int) (lastInsertLen numLiterals : Nat)
    (res : CmdResult)
    (hnp : p.npostfix = 0) (hnd : p.ndirect = 0)
    (hwin : Zopfli.maxBackwardLimit p ≤ 2 ^ 30) (hmd : p.maxDistance + 15 < 2 ^ 31)
    (hstd : large = false → Zopfli.maxBackwardLimit p ≤ 2 ^ 26 - 4) (hdist : large = false → p.maxDistance ≤ 2 ^ 26 - 4)
    (hlen : mb.length ≤ 2 ^ 24)
    (hpos : position = hist.length + lastInsertLen) (hmb : mb.length = lastInsertLen + numBytes)
    (hc : CacheI32 cache) (hcl : 4 ≤ cache.length)
    (hn : NodesOK wo (Zopfli.maxBackwardLimit p) p.maxDistance (hist ++ mb) position numBytes nodes (cache.take 4))
    (h : zopfliCreateCommands p.npostfix p.ndirect numBytes position (Zopfli.maxBackwardLimit p) nodes cache
      lastInsertLen numLiterals = some res) :
    (∀ c ∈ closeMetaBlock res.cmds res.lastInsertLen, cmdOK (distAlphabetSize large 0 0) 0 0 c = true) ∧
    lockstep wo 0 0 (Zopfli.maxBackwardLimit p) mb ⟨hist, cache.take 4, 0⟩ 0
      (closeMetaBlock res.cmds res.lastInsertLen) = true ∧
    replayCommands wo 0 0 (Zopfli.maxBackwardLimit p) mb (cache.take 4) hist
      (closeMetaBlock res.cmds res.lastInsertLen) = some (hist ++ mb) := by
  rw [hnp, hnd] at h
  exact zopfli_lockstep wo (Zopfli.maxBackwardLimit p) p.maxDistance large hist mb nodes numBytes position cache
    lastInsertLen numLiterals res hwin hmd hstd hdist hlen hpos hmb hc hcl hn h

/-! ### the chain: BrotliZopfliCreateCommands ∘ writer ∘ RFC reader = history ++ block -/

/-- **zopfli_fast_roundtrip** — `fast_metablock_roundtrip` with its command hypotheses discharged for the
commands of `BrotliZopfliCreateCommands` over any sound node array: the writer does not panic, and the RFC
reader, started with the decoder state `(hist, distance cache)`, consumes exactly the emitted bits and
outputs `hist ++ mb`.  (Quality 10 / 11 use `BrotliStoreMetaBlock`; this instance shows that the command
hypotheses of every writer theorem are met — `store_metablock_roundtrip`-style theorems take the same three.) -/
theorem zopfli_fast_roundtrip {K : Type} (p : Zopfli.Params) (large : Bool) (wo : WordOracle) (hist mb : Bytes)
    (nodes : Array (Node K)) (numBytes position : Nat) (cache : List Int) (lastInsertLen numLiterals : Nat)
    (res : CmdResult)
    (hnp : p.npostfix = 0) (hnd : p.ndirect = 0)
    (hwin : Zopfli.maxBackwardLimit p ≤ 2 ^ 30) (hmd : p.maxDistance + 15 < 2 ^ 31)
    (hstd : large = false → Zopfli.maxBackwardLimit p ≤ 2 ^ 26 - 4) (hdist : large = false → p.maxDistance ≤ 2 ^ 26 - 4)
    (hlen : mb.length ≤ 2 ^ 24)
    (hpos : position = hist.length + lastInsertLen) (hmb : mb.length = lastInsertLen + numBytes)
    (hc : CacheI32 cache) (hcl : 4 ≤ cache.length)
    (hn : NodesOK wo (Zopfli.maxBackwardLimit p) p.maxDistance (hist ++ mb) position numBytes nodes (cache.take 4))
    (h : zopfliCreateCommands p.npostfix p.ndirect numBytes position (Zopfli.maxBackwardLimit p) nodes cache
      lastInsertLen numLiterals = some res)
    (ring : Bytes) (start mask : Nat) (isLast : Bool) (w : List Bool)
    (hR : RingHolds ring mask start mb) (h256 : ∀ b ∈ mb, b < 256) (h1 : 1 ≤ mb.length) (hst : start < 2 ^ 64)
    (hIP : inputPairCheck ring start mb.length mask = .ok ()) :
    ∃ bits ring',
      storeMetaBlockFast ring start mb.length mask isLast (distAlphabetSize large 0 0)
        (closeMetaBlock res.cmds res.lastInsertLen) w = .ok (w ++ bits) ∧
      ∀ rest, readMetaBlockFull wo (Zopfli.maxBackwardLimit p) large w.length ⟨hist, cache.take 4⟩ (bits ++ rest)
        = some (⟨hist ++ mb, ring'⟩, isLast, (w ++ bits).length, rest) := by
  obtain ⟨hok, hlock, hrep⟩ := zopfli_commands_lockstep p large wo hist mb nodes numBytes position cache
    lastInsertLen numLiterals res hnp hnd hwin hmd hstd hdist hlen hpos hmb hc hcl hn h
  obtain ⟨bits, out, ring', e, _, hrd, hout⟩ := BV.Props.C01MetaBlock.fast_metablock_roundtrip wo (Zopfli.maxBackwardLimit p)
    large ring start mask mb isLast _ hist (cache.take 4) w hR h256 h1 hlen hst hIP hok hlock
  have := hout hrep
  subst this
  exact ⟨bits, ring', e, hrd⟩

/-! ### ComputeShortestPathFromNodes: from sound nodes to a sound path -/

/-- **shortest_path_nodesOK**: if every WRITTEN node of the array the dynamic programme leaves (a node is
written iff it fails the tail-skip test `insert_length == 0 && length == 1`) is `BackOK` — sound, in the
sense of `NodeOK`, relative to the ring of last distances `RingAt` that the decoder has after the commands
of the node's own backward chain — then the array `ComputeShortestPathFromNodes` returns, with the `next`
chain written into the `u` fields, satisfies `NodesOK`, the hypothesis of `zopfli_commands_lockstep`. -/
theorem shortest_path_nodesOK {K : Type} (wo : WordOracle) (window md : Nat) (T : Bytes) (base numBytes : Nat)
    (nodes nodes' : Array (Node K)) (start : List Int) (cnt : Nat)
    (hall : AllBack wo window md T base numBytes nodes start)
    (h : computeShortestPathFromNodes numBytes nodes = some (nodes', cnt)) :
    NodesOK wo window md T base numBytes nodes' start :=
  shortestPath_nodesOK wo window md T base numBytes nodes nodes' start cnt hall h

/-- **path_commands_lockstep** — the two composed: sound nodes, `ComputeShortestPathFromNodes`, then
`BrotliZopfliCreateCommands` (what `BrotliCreateZopfliBackwardReferences` / `ZopfliIterate` do after the
dynamic programme): the closed command list is `cmdOK`, in `lockstep`, and replays to `hist ++ mb`. -/
theorem path_commands_lockstep {K : Type} (p : Zopfli.Params) (large : Bool) (wo : WordOracle) (hist mb : Bytes)
    (nodes nodes' : Array (Node K)) (cnt numBytes position : Nat) (cache : List Int) (lastInsertLen numLiterals : Nat)
    (res : CmdResult)
    (hnp : p.npostfix = 0) (hnd : p.ndirect = 0)
    (hwin : Zopfli.maxBackwardLimit p ≤ 2 ^ 30) (hmd : p.maxDistance + 15 < 2 ^ 31)
    (hstd : large = false → Zopfli.maxBackwardLimit p ≤ 2 ^ 26 - 4) (hdist : large = false → p.maxDistance ≤ 2 ^ 26 - 4)
    (hlen : mb.length ≤ 2 ^ 24)
    (hpos : position = hist.length + lastInsertLen) (hmb : mb.length = lastInsertLen + numBytes)
    (hc : CacheI32 cache) (hcl : 4 ≤ cache.length)
    (hall : AllBack wo (Zopfli.maxBackwardLimit p) p.maxDistance (hist ++ mb) position numBytes nodes (cache.take 4))
    (hsp : computeShortestPathFromNodes numBytes nodes = some (nodes', cnt))
    (h : zopfliCreateCommands p.npostfix p.ndirect numBytes position (Zopfli.maxBackwardLimit p) nodes' cache
      lastInsertLen numLiterals = some res) :
    (∀ c ∈ closeMetaBlock res.cmds res.lastInsertLen, cmdOK (distAlphabetSize large 0 0) 0 0 c = true) ∧
    lockstep wo 0 0 (Zopfli.maxBackwardLimit p) mb ⟨hist, cache.take 4, 0⟩ 0
      (closeMetaBlock res.cmds res.lastInsertLen) = true ∧
    replayCommands wo 0 0 (Zopfli.maxBackwardLimit p) mb (cache.take 4) hist
      (closeMetaBlock res.cmds res.lastInsertLen) = some (hist ++ mb) :=
  zopfli_commands_lockstep p large wo hist mb nodes' numBytes position cache lastInsertLen numLiterals res hnp hnd
    hwin hmd hstd hdist hlen hpos hmb hc hcl (shortest_path_nodesOK _ _ _ _ _ _ nodes nodes' _ cnt hall hsp) h

/-! ### the dynamic programme (UpdateNodes): what is proved so far -/

/-- **dp_commands_lockstep**: the invariant `DPInv` of the dynamic programme (BV/Lemmas/ZopfliInv.lean: every written
node is `BackOK` with an evaluated start position, every stored `shortcut` means what `SC` says, untouched nodes
carry the infinite cost) is the right one: whenever it holds for the array handed to
`ComputeShortestPathFromNodes`, the commands are `cmdOK`, in `lockstep`, and replay to `hist ++ mb`. -/
theorem dp_commands_lockstep {K : Type} (p : Zopfli.Params) (large : Bool) (wo : WordOracle) (hist mb : Bytes) (inf : K)
    (nodes nodes' : Array (Node K)) (lim cnt numBytes position : Nat) (cache : List Int) (lastInsertLen numLiterals : Nat)
    (res : CmdResult)
    (hnp : p.npostfix = 0) (hnd : p.ndirect = 0)
    (hwin : Zopfli.maxBackwardLimit p ≤ 2 ^ 30) (hmd : p.maxDistance + 15 < 2 ^ 31)
    (hstd : large = false → Zopfli.maxBackwardLimit p ≤ 2 ^ 26 - 4) (hdist : large = false → p.maxDistance ≤ 2 ^ 26 - 4)
    (hlen : mb.length ≤ 2 ^ 24)
    (hpos : position = hist.length + lastInsertLen) (hmb : mb.length = lastInsertLen + numBytes)
    (hc : CacheI32 cache) (hcl : 4 ≤ cache.length)
    (hdp : DPInv ⟨wo, Zopfli.maxBackwardLimit p, p.maxDistance, hist ++ mb, position, numBytes, cache.take 4⟩ inf nodes lim)
    (hsp : computeShortestPathFromNodes numBytes nodes = some (nodes', cnt))
    (h : zopfliCreateCommands p.npostfix p.ndirect numBytes position (Zopfli.maxBackwardLimit p) nodes' cache
      lastInsertLen numLiterals = some res) :
    (∀ c ∈ closeMetaBlock res.cmds res.lastInsertLen, cmdOK (distAlphabetSize large 0 0) 0 0 c = true) ∧
    lockstep wo 0 0 (Zopfli.maxBackwardLimit p) mb ⟨hist, cache.take 4, 0⟩ 0
      (closeMetaBlock res.cmds res.lastInsertLen) = true ∧
    replayCommands wo 0 0 (Zopfli.maxBackwardLimit p) mb (cache.take 4) hist
      (closeMetaBlock res.cmds res.lastInsertLen) = some (hist ++ mb) :=
  path_commands_lockstep p large wo hist mb nodes nodes' cnt numBytes position cache lastInsertLen numLiterals res hnp hnd
    hwin hmd hstd hdist hlen hpos hmb hc hcl hdp.allBack hsp h

/-- **cache_probes_sound_partial** — the sixteen distance-cache probes of `UpdateNodes` (`for j in 0..16`: the
`i32` sum of a cache entry and the table offset, the wrap / window / continuation-byte filters,
`FindMatchLengthWithLimit` against the ring, and the `for l in best_len+1..=len` loop writing nodes with short
code `j + 1`) keep the invariant FOR EVERY COST ORACLE: whatever `ops.lt` answers, each node they write is a copy
whose bytes agree in the text (`ring_match_is_text_match` over w-stream's ring view) and whose short code denotes
its distance under the RFC rules relative to the ring at the start position (`zopfli_short_code`: Zopfli's table
`kDistanceCacheIndex/Offset` = RFC 7932 symbols 0..15).
PARTIAL: this is one layer of goal (2).  Proved besides it: `match_loop_sound_partial` (the matches of the match
finder), `DPInv.write`, `shortest_path_nodesOK`, `dp_commands_lockstep`.  NOT proved: (a) the glue `candidate` /
`UpdateNodes` around these two loops (the queue lookup `queue.at k` has the index `k.wrapping_sub(idx) & 7`; unfolding
`candidate` makes the Lean KERNEL compare `k + 2^64` in successor form, i.e. count to 2^64 — a proof-engineering
obstacle, not a doubt about the statement), (b) `EvaluateNode` (that `ComputeDistanceCache` returns the ring `RingAt`
of the position — the meaning `SC` of the `shortcut` fields is defined, the lemma is not proved — and that
`StartPosQueue::push` keeps the queue entries sound), (c) the outer loops (`BrotliZopfliComputeShortestPath`,
`ZopfliIterate`, skip logic) and (d) `le(inf, literal cost) = false`, needed so that an untouched node never enters the queue. -/
theorem cache_probes_sound_partial {K : Type} {C : ZC} {inf : K} {lim : Nat} {q : Queue K} {data : ByteArray} {k tail lo : Nat}
    (hz : ZOK C data k tail lo) (ops : CostOps K) (m : CostModel K) (pos : Nat) (hlim : lim = pos + 1)
    (hpos : pos ≤ C.numBytes) (pd : PosData K) (hpdq : ∀ nodes, Inv2 C inf lim q nodes → PDOK C nodes lim pd)
    (inscode : Nat) (baseCost : K) (bestLen : Nat) (s s' : UN K) (hbl : 1 ≤ bestLen) (hinv : Inv2 C inf lim q s.nodes)
    (h : cacheLoop ops m data (2 ^ k - 1) (C.base + pos) (min (C.base + pos) C.window) (wsub C.numBytes pos) pos pd.pos
      inscode pd.cache baseCost 16 0 bestLen s = some s') :
    Inv2 C inf lim q s'.nodes :=
  cacheLoop_inv hz ops m pos hlim hpos pd hpdq inscode baseCost 16 0 bestLen s s' (by omega) hbl hinv h

/-- **match_loop_sound_partial** — the match loop of `UpdateNodes` (`for j in 0..num_matches`: distance symbol
cost, the `len = max_match_len` jump for dictionary / very long matches, `while len <= max_match_len` writing
nodes without short code) keeps the invariant for every cost oracle and EVERY match list that is sound in the
sense of `MatchOK` (a match within `min(position, window)` is a real match of its length in the text; a match
beyond it is a dictionary reference the decoder's oracle expands to the next bytes): copies are written for
every length up to the match length, dictionary references only with the match's own length.  PARTIAL: see
`cache_probes_sound_partial`. -/
theorem match_loop_sound_partial {K : Type} {C : ZC} {inf : K} {lim : Nat} {q : Queue K} {data : ByteArray} {k tail lo : Nat}
    (hz : ZOK C data k tail lo) (ops : CostOps K) (m : CostModel K) (p : Zopfli.Params) (pos : Nat) (hlim : lim = pos + 1)
    (pd : PosData K) (hpdq : ∀ nodes, Inv2 C inf lim q nodes → PDOK C nodes lim pd)
    (inscode : Nat) (baseCost : K) (ms : List Match) (len : Nat) (s s' : UN K)
    (hms : ∀ x ∈ ms, MatchOK C pos x) (hlen : 2 ≤ len) (hinv : Inv2 C inf lim q s.nodes)
    (h : matchLoop ops m p (min (C.base + pos) C.window) pos pd.pos inscode baseCost ms len s = some s') :
    Inv2 C inf lim q s'.nodes :=
  matchLoop_inv hz ops m p pos hlim pd hpdq inscode baseCost ms len s s' hms hlen hinv h

/-- **h10_short_matches_sound_partial** — a first layer of `MatchOK` for the modelled `FindAllMatchesH10`: every
match its short-distance loop reports (`for i in (stop+1 ..= cur_ix-1).rev()` with the `best_len <= 2` guard, the
`backward > max_backward` break, the two-byte filter and `FindMatchLengthWithLimit`) is `BackwardMatch::init(backward, len)`
with `1 ≤ backward ≤ min(max_backward, cur_ix)`, `len ≤ max_length`, and `len` agreeing bytes at the two masked ring
positions.  PARTIAL: the binary-tree walk `StoreAndFindMatchesH10` (the other source of ring matches), the bit-field
decoding of `BackwardMatch`, the transfer from the ring to the text and the dictionary oracle hypothesis are not done. -/
theorem h10_short_matches_sound_partial (data : ByteArray) (mask curIx maxLength maxBackward stop : Nat)
    (hcur : curIx < 2 ^ 63) (hmb : maxBackward ≤ curIx) (bestLen : Nat) (acc : List Match)
    (h : Zopfli.H10.shortLoop data mask curIx maxLength maxBackward stop 65 (wsub curIx 1) 1 [] = some (bestLen, acc)) :
    ∀ x ∈ acc, RingMatch data mask curIx maxLength maxBackward x := by
  have hU : U64 = 18446744073709551616 := rfl
  refine shortLoop_sound data mask curIx maxLength maxBackward stop hcur hmb 65 (wsub curIx 1) 1 [] (bestLen, acc) h ?_
    (fun x hx => by cases hx)
  rw [wsub_eq (by omega) (by omega)]
  split <;> omega

/-! ### non-vacuity (the concrete instance lives in BV/Lemmas/ZopfliZEx.lean) -/

/-- a concrete node array meets every hypothesis of `zopfli_commands_lockstep`; the run emits one copy
command and leaves one pending literal, and the theorem yields that the RFC decoder replays the closed
command list to the text -/
example : ∃ res, zopfliCreateCommands 0 0 10 0 (Zopfli.maxBackwardLimit ZEx.params) ZEx.nodes [4, 11, 15, 16] 0 0 = some res ∧
    closeMetaBlock res.cmds res.lastInsertLen = [⟨3, 6, 0, 156, 1041⟩, initInsert 1] ∧
    replayCommands (fun _ _ _ => none) 0 0 (Zopfli.maxBackwardLimit ZEx.params) ZEx.text [4, 11, 15, 16] []
      (closeMetaBlock res.cmds res.lastInsertLen) = some ZEx.text := by
  cases hr : zopfliCreateCommands 0 0 10 0 (Zopfli.maxBackwardLimit ZEx.params) ZEx.nodes [4, 11, 15, 16] 0 0 with
  | none => have := ZEx.run; rw [hr] at this; cases this
  | some res =>
    have hrun := ZEx.run
    rw [hr] at hrun
    simp only [Option.map_some, Option.some.injEq, Prod.mk.injEq] at hrun
    obtain ⟨_, _, hrep⟩ := zopfli_commands_lockstep ZEx.params false (fun _ _ _ => none) [] ZEx.text
      ZEx.nodes 10 0 [4, 11, 15, 16] 0 0 res rfl rfl (by decide) (by decide) (fun _ => by decide) (fun _ => by decide)
      (by decide) rfl rfl (by intro x hx; simp at hx; rcases hx with rfl | rfl | rfl | rfl <;> decide) (by decide)
      ZEx.nodes_ok hr
    refine ⟨res, rfl, ?_, by simpa using hrep⟩
    rw [hrun.1, hrun.2.1]; rfl

/-- the array as the dynamic programme leaves it (one written node, the rest untouched) satisfies `AllBack`,
`ComputeShortestPathFromNodes` succeeds on it (one command), and `shortest_path_nodesOK` yields `NodesOK` -/
example : ∃ nodes' cnt, computeShortestPathFromNodes 10 ZEx.nodesDP = some (nodes', cnt) ∧ cnt = 1 ∧
    NodesOK (fun _ _ _ => none) (Zopfli.maxBackwardLimit ZEx.params) ZEx.params.maxDistance ([] ++ ZEx.text) 0 10
      nodes' [4, 11, 15, 16] := by
  cases hr : computeShortestPathFromNodes 10 ZEx.nodesDP with
  | none => have := ZEx.runDP; rw [hr] at this; cases this
  | some r =>
    obtain ⟨nodes', cnt⟩ := r
    have hrun := ZEx.runDP
    rw [hr] at hrun
    simp only [Option.map_some, Option.some.injEq] at hrun
    exact ⟨nodes', cnt, rfl, hrun, shortest_path_nodesOK _ _ _ _ _ _ _ _ _ _ ZEx.nodesDP_ok hr⟩

/-- the invariant of the dynamic programme is satisfiable: the concrete array above (one written node whose start
position 0 has been evaluated, `shortcut 0` stored at position 0, all other nodes untouched with the infinite cost)
satisfies `DPInv` with one position evaluated -/
example : DPInv ⟨fun _ _ _ => none, Zopfli.maxBackwardLimit ZEx.params, ZEx.params.maxDistance, [] ++ ZEx.text, 0, 10,
    [4, 11, 15, 16]⟩ (0 : Nat) ZEx.nodesDP 1 := by
  refine ⟨rfl, ⟨_, rfl, by unfold Node.isStub; decide⟩, ?_, ?_, ?_⟩
  · intro e n he hle hn
    rcases ZEx.nodesDP_get e n he hn with rfl | ⟨rfl, rfl⟩
    · exact Or.inl ⟨by decide, by decide⟩
    · rcases ZEx.nodesDP_ok 9 _ he hle hn with hs | hb
      · exact Or.inl hs
      · exact Or.inr ⟨hb, by decide⟩
  · intro e n he hn _
    have : e = 0 := by omega
    subst this
    have hn0 : n = ⟨0, 0, 0, .shortcut 0⟩ := by
      have : ZEx.nodesDP[0]? = some ⟨0, 0, 0, .shortcut 0⟩ := rfl
      rw [this] at hn; injection hn with hn; exact hn.symm
    subst hn0
    exact ⟨0, rfl, [], Hist.zero, Or.inl ⟨rfl, rfl⟩⟩
  · intro e n he hn hs
    rcases ZEx.nodesDP_get e n (by omega) hn with rfl | ⟨rfl, rfl⟩
    · rfl
    · exact absurd hs (by unfold Node.isStub; decide)

/-- the short-distance loop on a concrete ring (`1 2 3 1 2 3 1 2 3 9`, position 6): it reports the match of length 3
at distance 3, and `h10_short_matches_sound_partial` certifies it -/
example : ∃ bl acc, Zopfli.H10.shortLoop ⟨(([1, 2, 3, 1, 2, 3, 1, 2, 3, 9] ++ List.replicate 60 0).map UInt8.ofNat).toArray⟩
      63 6 3 6 0 65 (wsub 6 1) 1 [] = some (bl, acc) ∧ acc = [Match.init 3 3] ∧
    ∀ x ∈ acc, RingMatch ⟨(([1, 2, 3, 1, 2, 3, 1, 2, 3, 9] ++ List.replicate 60 0).map UInt8.ofNat).toArray⟩ 63 6 3 6 x := by
  have hrun : Zopfli.H10.shortLoop ⟨(([1, 2, 3, 1, 2, 3, 1, 2, 3, 9] ++ List.replicate 60 0).map UInt8.ofNat).toArray⟩
      63 6 3 6 0 65 (wsub 6 1) 1 [] = some (3, [Match.init 3 3]) := by decide +kernel
  exact ⟨3, _, hrun, rfl, h10_short_matches_sound_partial _ 63 6 3 6 0 (by decide) (by decide) 3 _ hrun⟩

end BV.Props.C01Zopfli
